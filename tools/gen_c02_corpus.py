#!/venv/bin/python
"""Build corpus/C02/must_reject.json: programs that the specification classifies as must-reject (a query atom is undefined
in the well-founded model of some world), that lie in the region of known finding C02-missed-negative-cycle (their negative
cycle shares a strongly connected component with a positive cycle) and that the CURRENT tree rejects with a grounding error.
The C02 check replays them first: one that is answered later is a regression (never matched by the known finding)."""
import json, os, random, sys
V = os.path.dirname(os.path.dirname(os.path.abspath(__file__)))
sys.path.insert(0, os.path.join(V, "harness")); sys.path.insert(0, os.environ.get("VERIF_REPO", "/repo"))
import lib, spine, semcheck
from props import c02
ctx = lib.Ctx("C02", "quick", 0)
drv = ctx.driver("Drivers.Spine")
rng = random.Random(20260922)
out = []
tries = 0
while len(out) < 250 and tries < 40:
    tries += 1
    progs = [c02.gen_prop_loops(rng) for _ in range(300)] + [spine.gen_program(rng, negloops=0.6, max_level=rng.choice([1, 2])) for _ in range(60)]
    sems = semcheck.spec_batch(drv, progs)
    for P, sem in zip(progs, sems):
        if sem is None or sem["undef_roots"] == 0 or not spine.poscycle_in_negcycle_scc(P):
            continue
        src = spine.to_src(P)
        r = semcheck.run_cfg(src, {})
        if r[0] == "error" and c02.is_grounding_error(r[1][1]) and src not in out:
            out.append(src)
json.dump(out[:250], open(os.path.join(V, "corpus", "C02", "must_reject.json"), "w"), indent=0)
print(len(out[:250]), "programs")
