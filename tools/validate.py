import json, jsonschema, glob, sys
jsonschema.validate(json.load(open('MANIFEST.json')), json.load(open('/root/.vp/MANIFEST.schema.json')))
s = json.load(open('/root/.vp/EVIDENCE.schema.json'))
for f in sorted(glob.glob('evidence/*.json')):
    jsonschema.validate(json.load(open(f)), s)
print('valid: MANIFEST +', len(glob.glob('evidence/*.json')), 'evidence files')
