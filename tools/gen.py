#!/venv/bin/python
"""Assemble MANIFEST.json and known_findings.json from the per-property sources.

  harness/props/cXX.py : MANIFEST = {level, technique, text, note, design_ref[, thorough: bool]}
  known/CXX.json       : {"findings": [...], "fixed": [...]}
  tools/not_applicable.json : [{property_id, reason}]   (properties not claimed)
"""
import ast, json, os, re, sys
V = os.path.dirname(os.path.dirname(os.path.abspath(__file__)))
props = [json.loads(l)["id"] for l in open(os.path.join(V, "properties.jsonl"))]
checks, claimed = [], set()
for pid in props:
    f = os.path.join(V, "harness", "props", pid.lower() + ".py")
    if not os.path.exists(f):
        continue
    tree = ast.parse(open(f).read())
    man = None
    for node in tree.body:
        if isinstance(node, ast.Assign) and any(getattr(t, "id", None) == "MANIFEST" for t in node.targets):
            man = ast.literal_eval(node.value)
    if man is None or man.get("disabled"):
        continue
    claimed.add(pid)
    checks.append({
        "property_id": pid,
        "quick_cmd": "./check %s --tier quick" % pid,
        "thorough_cmd": "./check %s --tier thorough" % pid,
        "evidence_file": "evidence/%s.json" % pid,
        "replay_cmd_template": "./check %s --replay {path}" % pid,
        "engine": "lean4-model+correspondence",
        "level_claimed": {"category": man["level"], "text": man["text"], "design_ref": man.get("design_ref", "DESIGN.md §6 " + pid)},
        "level_note": man["note"],
        "technique": man["technique"],
    })
na_file = os.path.join(V, "tools", "not_applicable.json")
na = json.load(open(na_file)) if os.path.exists(na_file) else []
na = [e for e in na if e["property_id"] not in claimed]
for pid in props:
    if pid not in claimed and not any(e["property_id"] == pid for e in na):
        na.append({"property_id": pid, "reason": "not claimed yet: the Lean model, theorems and correspondence check for this property are not built at this commit (see DESIGN.md §11 for the order of work)"})
hooks = json.load(open(os.path.join(V, "tools", "hooks.json")))
manifest = {
    "version": 1,
    "setup_cmd": "./check --setup",
    "hooks": hooks,
    "engines": [{"name": "lean4-model+correspondence", "path": "lean/", "serves_properties": sorted(claimed),
                 "kind_free_text": "Lean 4 models (ProbLogModel), theorems (ProbLogProofs), compiled line-protocol drivers (Drivers), Python correspondence harness (harness/)"}],
    "checks": checks,
    "notes": "Every check: lake build of the property's proof module + #print axioms audit + forbidden-construct grep + correspondence of the Lean model's executable definitions with /repo's implementation on generated inputs + independent failing-input search. Exit 2 = infrastructure failure (never a VIOLATION).",
    "not_applicable": na,
}
json.dump(manifest, open(os.path.join(V, "MANIFEST.json"), "w"), indent=1)
findings, fixed = [], []
kd = os.path.join(V, "known")
for f in sorted(os.listdir(kd)):
    if f.endswith(".json"):
        d = json.load(open(os.path.join(kd, f)))
        findings += d.get("findings", [])
        fixed += d.get("fixed", [])
json.dump({"findings": findings, "fixed": fixed}, open(os.path.join(V, "known_findings.json"), "w"), indent=1)
print("MANIFEST: %d checks, %d not claimed; known findings: %d, fixed: %d" % (len(checks), len(na), len(findings), len(fixed)))
