#!/usr/bin/env python3
"""Build corpus/C19/dup_agree.json: generated findall/all programs whose Prolog result lists contain duplicates AND whose
distribution the current tree reproduces exactly. They lie inside the region of known finding C19-tabled-answer-once
(duplicates), where a new defect would otherwise be filed under that finding; the check replays them first and reports a
changed outcome as a corpus-regression. Run with PYTHONPATH=/repo:/verif/harness /venv/bin/python tools/gen_c19_corpus.py"""
import json, os, random, sys
V = os.path.dirname(os.path.dirname(os.path.abspath(__file__)))
sys.path.insert(0, os.path.join(V, "harness"))
sys.path.insert(0, os.environ.get("VERIF_REPO", "/repo"))
from props import c19, c13 as C13
import sld_util as U
out = []
rng = random.Random(20260922)
extra = []
n = 0
while len(out) < 120 and n < 60000:
    n += 1
    stmts, q, builtin = U.gen_prob_findall_program(rng)
    spec = c19.spec_distribution(stmts, q, builtin)
    if spec is None or not c19.has_ground_answers(spec):
        continue
    if any(len(l) > 9 for k in spec for l in C13.lists_in(k, [])):
        continue
    dup = any(len(set(map(repr, l))) < len(l) for k, v in spec.items() if v > 0 for l in C13.lists_in(k, []))
    if not dup:
        continue
    try:
        got, problems, src = c19.run_problog_dist(stmts, q)
    except Exception:
        continue
    if problems or c19.classify(spec, got) is not None:
        continue
    out.append({"statements": C13.tojson(stmts), "query": C13.tojson(q), "builtin": builtin,
                "text": "\n".join(U.pl_stmt(st) for st in stmts)})
os.makedirs(os.path.join(V, "corpus", "C19"), exist_ok=True)
json.dump(out, open(os.path.join(V, "corpus", "C19", "dup_agree.json"), "w"), indent=0)
print(len(out), "programs from", n, "generated")
