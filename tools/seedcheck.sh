#!/bin/bash
# usage: tools/seedcheck.sh <dir with patch.diff meta.json> [check ids...]   — like seedtest.sh but without re-running the demo and
# the repository test-suite (for re-testing a seeded defect that is already confirmed after a check was strengthened)
D=$(cd "$1" && pwd); shift
PID=$(python3 -c "import json;print(json.load(open('$D/meta.json'))['property'])")
CHECKS=${@:-$PID}
V=$(cd "$(dirname "$0")/.." && pwd)
W=/tmp/seed/wc_$(basename $D)
[ -d $W ] && git -C /repo worktree remove --force $W 2>/dev/null
git -C /repo worktree add -q --detach $W HEAD
(cd $W && git apply $D/patch.diff) || { echo "$D: patch does not apply"; git -C /repo worktree remove --force $W; exit 3; }
cd $V
for c in $CHECKS; do for s in ${SEEDS:-0 1}; do
  VERIF_EVIDENCE_DIR=/tmp/seed/evidence_$(basename $D) VERIF_REPLAY_DIR=/tmp/seed/replays_$(basename $D) VERIF_REPO=$W VERIF_SEED=$s VERIF_PROCS=4 ./check $c --tier quick > /tmp/seed/check_$(basename $D)_${c}_$s.log 2>&1; rc=$?
  echo "  $(basename $D) check $c seed $s rc=$rc: $(grep -m1 'VIOLATION' /tmp/seed/check_$(basename $D)_${c}_$s.log | cut -c1-110) | $(grep -m1 'failing input\|no longer checks' /tmp/seed/check_$(basename $D)_${c}_$s.log | cut -c1-240)"
done; done
git -C /repo worktree remove --force $W
