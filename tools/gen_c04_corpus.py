#!/venv/bin/python
"""Build corpus/C04/unbuffered_agree.json: programs inside the region of the known findings of C04 (unbuffered engine modes
raising InvalidEngineState / IndirectCallCycleError / NegativeCycle on programs with recursion) on which EVERY variant of the
CURRENT tree - default, unbuffered, unbuffered+rc_first, 15 seeded random orders (the thorough tier's variants; the quick
tier's are a prefix) plus 10 further random orders - gives the specification's answer. The C04 check replays them first
(same variants): a changed outcome is a corpus-regression, which no known finding matches.

Content: hand-written shapes (harness/explore_util.py UNBUFFERED_SHAPES: recursion with a negated lower-stratum goal in
the recursive clause, complementary proofs `p :- a. p :- \\+a.`, ...), small cyclic programs (explore_util.gen_cyclic) and
programs of the shared generator with recursion.
Run: PYTHONHASHSEED=0 ML_KULEUVEN_PROBLOG_VERIF=1 /venv/bin/python tools/gen_c04_corpus.py"""
import json, os, random, sys
V = os.path.dirname(os.path.dirname(os.path.abspath(__file__)))
sys.path.insert(0, os.path.join(V, "harness")); sys.path.insert(0, os.environ.get("VERIF_REPO", "/repo"))
if os.environ.get("PYTHONHASHSEED") != "0":
    os.environ["PYTHONHASHSEED"] = "0"; os.environ["ML_KULEUVEN_PROBLOG_VERIF"] = "1"
    os.execv(sys.executable, [sys.executable] + sys.argv)
import lib, spine, semcheck
import explore_util as X
from props import c04
ctx = lib.Ctx("C04", "quick", 0)
drv = ctx.driver("Drivers.Spine")
rng = random.Random(20260922)
c04.N[0] = 15


def all_variants(P, seed):
    out = c04.variants(P, seed)
    r2 = random.Random(seed ^ 0x5bd1e995)
    src = spine.to_src(P)
    return out + [("random_order#x%d" % k, src, {"random_order": r2.randrange(1 << 30)}) for k in range(10)]


def _runs(args):
    P, seed = args
    item = all_variants(P, seed)
    return X.settled(X._cheap_work(item), item, X.ground_eval), X.settled(X._full_work(item), item, semcheck.run_cfg)


def agree_batch(cands):
    """cands: [(P, sem, seed)] -> those on which every variant (cheap and full evaluation) gives the specification's answer"""
    cands = [(P, sem, sd) for P, sem, sd in cands
             if sem is not None and sem["undef"] == 0 and not sem["negcycle_full"] and sem["probs"] and sem["z"] != 0]
    res = lib.pmap(_runs, [(P, sd) for P, _, sd in cands], procs=8, chunksize=1)
    ok = []
    for (P, sem, sd), (cheap, full) in zip(cands, res):
        if any(X.is_timeout(r) or r[0] == "big" or X.judge_one(P, sem, "agree", t, r) for runs in (cheap, full) for t, r in runs):
            continue
        ok.append((P, sem, sd))
    return ok


out, seen, stats = [], set(), {}


def add(P, seed, origin):
    src = spine.to_src(P)
    if src in seen:
        return
    seen.add(src)
    out.append({"program": P, "seed": seed, "class": "agree", "origin": origin, "region": sorted(X.region(P)), "src": src})
    stats[origin] = stats.get(origin, 0) + 1


hand = X.shapes(X.UNBUFFERED_SHAPES)
for P in hand:
    assert spine.valid_program(P), spine.to_src(P)
cands = [(P, sem, rng.randrange(1 << 30)) for P, sem in zip(hand, semcheck.spec_batch(drv, hand))]
good = agree_batch(cands)
for P, sem, sd in good:
    add(P, sd, "hand")
for P, sem, sd in cands:
    if not any(P is Q for Q, _, _ in good):
        print("hand-written shape NOT in corpus (a variant of the current tree disagrees / outside the fragment):",
              spine.to_src(P).replace("\n", " "))

# quotas: (origin, generator, filter on the region, number)
def want_neg(P):
    return {"recursion", "negation-in-recursive-predicate"} <= X.region(P)
def want_mutual(P):
    return "mutual-recursion" in X.region(P)
def want_compl(P):
    return "complementary-proofs" in X.region(P)
def want_ad(P):
    return {"recursion", "ad"} <= X.region(P)
def want_rec(P):
    return "recursion" in X.region(P)
QUOTAS = [
    ("cyclic:negation", lambda: X.gen_cyclic(rng), want_neg, 35),
    ("cyclic:mutual", lambda: X.gen_cyclic(rng), want_mutual, 20),
    ("cyclic:complementary", lambda: X.gen_cyclic(rng), want_compl, 15),
    ("cyclic:ad", lambda: X.gen_cyclic(rng), want_ad, 10),
    ("spine:negation", lambda: spine.gen_program(rng, disjunction=rng.random() < 0.3), want_neg, 20),
    ("spine:ad", lambda: spine.gen_program(rng), want_ad, 10),
    ("spine:recursion", lambda: spine.gen_program(rng, disjunction=rng.random() < 0.3), want_rec, 15),
]
for origin, gen, flt, n in QUOTAS:
    tries = 0
    while stats.get(origin, 0) < n and tries < 200:
        tries += 1
        progs = [P for P in (gen() for _ in range(80)) if flt(P) and spine.valid_program(P)][:2 * n]
        cands = [(P, sem, rng.randrange(1 << 30)) for P, sem in zip(progs, semcheck.spec_batch(drv, progs))
                 if sem is not None and sem["nworlds"] > 1]
        for P, sem, sd in agree_batch(cands):
            if stats.get(origin, 0) < n:
                add(P, sd, origin)
os.makedirs(os.path.join(V, "corpus", "C04"), exist_ok=True)
dest = os.path.join(V, "corpus", "C04", "unbuffered_agree.json")
json.dump(out, open(dest + ".tmp", "w"), default=str, indent=0)
os.replace(dest + ".tmp", dest)
print(len(out), "programs", stats)
