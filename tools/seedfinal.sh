#!/bin/bash
# Re-run the quick check(s) of every kept seeded defect listed on the command line (directories under /tmp/seed/out or seeded/),
# 4 at a time; output in the format tools/seed_record.py reads. usage: tools/seedfinal.sh <log> <dir>...
LOG=$1; shift
cd "$(dirname "$0")/.."
printf "%s\n" "$@" | xargs -P ${PAR:-4} -I{} tools/seedcheck.sh {} >> $LOG 2>&1
