#!/venv/bin/python
"""Build corpus/C03/schedules.json: programs on which the unpermuted order and 30 seeded schedules (the thorough tier's
variants; the quick tier's are a prefix) of the CURRENT tree all give the specification's answer (class "agree": hand-written
shapes of harness/explore_util.py SCHEDULE_SHAPES - goals called again inside an open cycle, recursion with negation - and
small generated cyclic programs), or all end in a grounding error (class "reject": programs with a loop through negation that
the specification classifies as must-reject, NEGLOOP_SHAPES and generated ones without a positive cycle, see
explore_util.reject_region). The C03 check replays them first: a changed outcome is a corpus-regression, which no known
finding matches. Run: /venv/bin/python tools/gen_c03_corpus.py"""
import json, os, random, sys
V = os.path.dirname(os.path.dirname(os.path.abspath(__file__)))
sys.path.insert(0, os.path.join(V, "harness")); sys.path.insert(0, os.environ.get("VERIF_REPO", "/repo"))
if os.environ.get("PYTHONHASHSEED") != "0":
    os.environ["PYTHONHASHSEED"] = "0"; os.environ["ML_KULEUVEN_PROBLOG_VERIF"] = "1"
    os.execv(sys.executable, [sys.executable] + sys.argv)
import lib, spine, semcheck
import explore_util as X
from props import c03
ctx = lib.Ctx("C03", "quick", 0)
drv = ctx.driver("Drivers.Spine")
rng = random.Random(20260922)
c03.N[0] = 30


def _runs(args):
    P, seed = args
    item = c03.variants(P, seed)
    return X.settled(X._cheap_work(item), item, X.ground_eval), X.settled(X._full_work(item), item, semcheck.run_cfg)


def holds_batch(cands, cls):
    """cands: [(P, sem, seed)] -> those on which every schedule (cheap and full evaluation) behaves as the class demands"""
    if cls == "agree":
        cands = [c for c in cands if c[1] is not None and c[1]["undef"] == 0 and not c[1]["negcycle_full"] and c[1]["probs"] and c[1]["z"] != 0]
    else:
        cands = [c for c in cands if c[1] is not None and c[1]["undef_roots"] > 0 and X.reject_region(c[0])]
    res = lib.pmap(_runs, [(P, sd) for P, _, sd in cands], procs=8, chunksize=1)
    ok = []
    for (P, sem, sd), (cheap, full) in zip(cands, res):
        if any(X.is_timeout(r) or r[0] == "big" or X.judge_one(P, sem, cls, t, r) for runs in (cheap, full) for t, r in runs):
            continue
        ok.append((P, sem, sd))
    return ok


out, seen, stats = [], set(), {}


def add(P, seed, cls, origin):
    src = spine.to_src(P)
    if src in seen:
        return
    seen.add(src)
    out.append({"program": P, "seed": seed, "class": cls, "origin": origin, "region": sorted(X.region(P)), "src": src})
    stats[origin] = stats.get(origin, 0) + 1


for texts, cls, origin in ((X.SCHEDULE_SHAPES, "agree", "hand"), (X.NEGLOOP_SHAPES, "reject", "hand:negative-loop")):
    hand = X.shapes(texts)
    for P in hand:
        assert spine.valid_program(P), spine.to_src(P)
    cands = [(P, sem, rng.randrange(1 << 30)) for P, sem in zip(hand, semcheck.spec_batch(drv, hand))]
    good = holds_batch(cands, cls)
    for P, sem, sd in good:
        add(P, sd, cls, origin)
    for P, sem, sd in cands:
        if not any(P is Q for Q, _, _ in good):
            print("hand-written shape NOT in corpus (%s does not hold under every schedule of the current tree / outside the class):" % cls,
                  spine.to_src(P).replace("\n", " "))
QUOTAS = [
    ("tight", lambda: X.gen_tight(rng), lambda P: {"mutual-recursion", "body-disjunction"} <= X.region(P), "agree", 40),
    ("cyclic", lambda: X.gen_cyclic(rng), lambda P: "mutual-recursion" in X.region(P), "agree", 15),
    ("negloop", lambda: X.gen_negloop(rng), lambda P: True, "reject", 20),
]
for origin, gen, flt, cls, n in QUOTAS:
    tries = 0
    while stats.get(origin, 0) < n and tries < 100:
        tries += 1
        progs = [P for P in (gen() for _ in range(80)) if flt(P) and spine.valid_program(P)][:2 * n]
        cands = [(P, sem, rng.randrange(1 << 30)) for P, sem in zip(progs, semcheck.spec_batch(drv, progs))
                 if sem is not None and sem["nworlds"] > 1]
        for P, sem, sd in holds_batch(cands, cls):
            if stats.get(origin, 0) < n:
                add(P, sd, cls, origin)
os.makedirs(os.path.join(V, "corpus", "C03"), exist_ok=True)
dest = os.path.join(V, "corpus", "C03", "schedules.json")
json.dump(out, open(dest + ".tmp", "w"), default=str, indent=0)
os.replace(dest + ".tmp", dest)
print(len(out), "programs", stats)
