#!/venv/bin/python
"""Build corpus/C01/f1_region_answered.json: stratified programs inside the structural region of known finding F1 (false
NegativeCycle: a rule whose head lies on a cycle negates an atom that depends on a cycle) which the CURRENT tree answers
correctly. The C01 check replays them first: one that later raises NegativeCycle (or anything else) is a regression that the
known finding must not mask."""
import json, os, random, sys
V = os.path.dirname(os.path.dirname(os.path.abspath(__file__)))
sys.path.insert(0, os.path.join(V, "harness")); sys.path.insert(0, os.environ.get("VERIF_REPO", "/repo"))
import lib, spine, semcheck
ctx = lib.Ctx("C01", "quick", 0)
drv = ctx.driver("Drivers.Spine")
rng = random.Random(20260923)
out = []
tries = 0
while len(out) < 120 and tries < 60:
    tries += 1
    progs = [spine.gen_program(rng, disjunction=rng.random() < 0.3) for _ in range(200)]
    progs = [P for P in progs if spine.f1_condition(P)]
    sems = semcheck.spec_batch(drv, progs)
    for P, sem in zip(progs, sems):
        if sem is None or sem["undef"] > 0 or sem["negcycle_full"]:
            continue
        src = spine.to_src(P)
        r = semcheck.run_cfg(src, {})
        if r[0] == "ok" and not semcheck.compare(P, sem, r, "default"):
            out.append(P)
json.dump(out[:120], open(os.path.join(V, "corpus", "C01", "f1_region_answered.json"), "w"), default=str)
print(len(out[:120]), "programs")
