#!/usr/bin/env python3
"""Copy confirmed seeded defects from /tmp/seed/out/<id>_k into /verif/seeded/<id>_k/ (patch.diff, demo.py, meta.json) and
merge the results of tools/seedtest.sh runs (logs given on the command line, later logs win)."""
import json, os, re, shutil, sys
V = os.path.dirname(os.path.dirname(os.path.abspath(__file__)))
src = "/tmp/seed/out"
res = {}
for log in sys.argv[1:]:
    for line in open(log):
        m = re.match(r"(C\d+_\d+): demo clean=(\d+) patched=(\d+); suite: (.*)", line)
        if m:
            res.setdefault(m.group(1), {})["confirm"] = {"demo_exit_clean_tree": int(m.group(2)), "demo_exit_patched": int(m.group(3)),
                                                         "repo_test_suite_with_patch": m.group(4).strip(), "log": os.path.basename(log)}
            res[m.group(1)]["checks"] = {}
        m = re.match(r"\s+(C\d+_\d+) check (C\d+) seed (\d+) rc=(\d+): (.*)", line)
        if m and m.group(1) in res:
            res[m.group(1)]["checks"]["%s seed %s" % (m.group(2), m.group(3))] = {"exit": int(m.group(4)), "output": m.group(5).strip()[:400]}
n = 0
for name, r in sorted(res.items()):
    d = os.path.join(src, name)
    c = r.get("confirm")
    if not c or not os.path.isdir(d):
        continue
    valid = c["demo_exit_clean_tree"] == 0 and c["demo_exit_patched"] == 1 and "passed" in c["repo_test_suite_with_patch"] and "failed" not in c["repo_test_suite_with_patch"]
    out = os.path.join(V, "seeded", name)
    if not valid:
        if os.path.isdir(out):
            shutil.rmtree(out)
        print("%s: not kept (%s)" % (name, c))
        continue
    os.makedirs(out, exist_ok=True)
    for f in ("patch.diff", "demo.py"):
        shutil.copy(os.path.join(d, f), os.path.join(out, f))
    meta = json.load(open(os.path.join(d, "meta.json")))
    meta["confirmed_by_me"] = c
    meta["what_i_ran"] = "tools/seedtest.sh: scratch worktree of /repo at HEAD, demo.py clean/patched, repo test-suite with the patch, then ./check <property> --tier quick with VERIF_REPO=<patched worktree>, seeds 0 and 1"
    meta["check_results"] = r["checks"]
    meta["caught"] = any(v["exit"] == 1 for v in r["checks"].values())
    meta["caught_with_failing_input"] = any(v["exit"] == 1 and "no-failing-input-found" not in v["output"] for v in r["checks"].values())
    json.dump(meta, open(os.path.join(out, "meta.json"), "w"), indent=1)
    n += 1
    print("%s: kept, caught=%s (%s)" % (name, meta["caught"], {k: v["exit"] for k, v in r["checks"].items()}))
print(n, "seeded defects recorded")
