#!/bin/bash
# Run every claimed check (quick tier by default) and print one line per property.  usage: tools/runall.sh [tier] [seed] [ids...]
cd "$(dirname "$0")/.."
TIER=${1:-quick}; SEED=${2:-0}; shift 2 2>/dev/null
IDS="$@"
if [ -z "$IDS" ]; then IDS=$(python3 -c "import json;print(' '.join(c['property_id'] for c in json.load(open('MANIFEST.json'))['checks']))"); fi
mkdir -p /tmp/runall
run_one() { id=$1; s=$(date +%s); VERIF_SEED=$SEED ./check $id --tier $TIER > /tmp/runall/$id.log 2>&1; rc=$?; e=$(( $(date +%s) - s )); echo "$id rc=$rc ${e}s $(grep -c KNOWN-FINDING /tmp/runall/$id.log) known | $(tail -1 /tmp/runall/$id.log | cut -c1-160)"; }
export -f run_one; export SEED TIER
echo $IDS | tr ' ' '\n' | xargs -P ${PAR:-3} -I{} bash -c 'run_one {}'
