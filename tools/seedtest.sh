#!/bin/bash
# usage: tools/seedtest.sh <dir with patch.diff demo.py meta.json> [check ids...]
# 1. confirm in a scratch worktree: demo exits 0 clean, 1 patched; repo test-suite passes with the patch
# 2. apply to /repo, run the property's check(s) with seeds 0,1, undo.
D=$1; shift
PID=$(python3 -c "import json;print(json.load(open('$D/meta.json'))['property'])")
CHECKS=${@:-$PID}
V=$(cd "$(dirname "$0")/.." && pwd)
W=/tmp/seed/confirm
[ -d $W ] || git -C /repo worktree add -q --detach $W HEAD
git -C $W checkout -q --detach $(git -C /repo rev-parse HEAD) 2>/dev/null; git -C $W checkout -q -- . ; git -C $W clean -fdq
cd $W
PYTHONPATH=$W /venv/bin/python -W ignore $D/demo.py >/dev/null 2>&1; C0=$?
if ! git apply $D/patch.diff 2>/tmp/seed/apply.err; then echo "$D: patch does not apply: $(head -2 /tmp/seed/apply.err)"; exit 3; fi
PYTHONPATH=$W /venv/bin/python -W ignore $D/demo.py >/tmp/seed/demo.out 2>&1; C1=$?
T=$(PYTHONPATH=$W /venv/bin/python -m pytest -q -p no:cacheprovider --timeout=900 -x -n 6 2>&1 | tail -1)
git checkout -q -- .; git clean -fdq
echo "$D: demo clean=$C0 patched=$C1; suite: $T"
cd $V
git -C /repo apply $D/patch.diff || exit 3
for c in $CHECKS; do for s in 0 1; do
  VERIF_SEED=$s ./check $c --tier quick > /tmp/seed/check_${c}_$s.log 2>&1; rc=$?
  echo "  check $c seed $s rc=$rc: $(grep -m1 'VIOLATION' /tmp/seed/check_${c}_$s.log | cut -c1-100) | $(grep -m1 'failing input\|no longer checks' /tmp/seed/check_${c}_$s.log | cut -c1-260)"
done; done
git -C /repo checkout -- .
git -C $V checkout -- evidence 2>/dev/null
