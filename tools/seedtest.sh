#!/bin/bash
# usage: tools/seedtest.sh <dir with patch.diff demo.py meta.json> [check ids...]
# Confirms a seeded defect in its own scratch worktree of /repo (demo exits 0 clean / 1 patched, repo test-suite passes with
# the patch) and runs the property's check(s) against that worktree (VERIF_REPO), seeds 0 and 1. /repo itself is not touched.
D=$(cd "$1" && pwd); shift
PID=$(python3 -c "import json;print(json.load(open('$D/meta.json'))['property'])")
CHECKS=${@:-$PID}
V=$(cd "$(dirname "$0")/.." && pwd)
W=/tmp/seed/wt_$(basename $D)
[ -d $W ] && git -C /repo worktree remove --force $W 2>/dev/null
git -C /repo worktree add -q --detach $W HEAD
cd $W
PYTHONPATH=$W /venv/bin/python -W ignore $D/demo.py >/dev/null 2>&1; C0=$?
if ! git apply $D/patch.diff 2>/tmp/seed/apply_$(basename $D).err; then echo "$D: patch does not apply"; git -C /repo worktree remove --force $W; exit 3; fi
PYTHONPATH=$W /venv/bin/python -W ignore $D/demo.py >/dev/null 2>&1; C1=$?
T=$(PYTHONPATH=$W /venv/bin/python -m pytest -q -p no:cacheprovider --timeout=900 -x -n 4 2>&1 | tail -1)
rm -f $W/resulttable
echo "$(basename $D): demo clean=$C0 patched=$C1; suite: $T"
cd $V
for c in $CHECKS; do for s in 0 1; do
  VERIF_EVIDENCE_DIR=/tmp/seed/evidence_$(basename $D) VERIF_REPLAY_DIR=/tmp/seed/replays_$(basename $D) VERIF_REPO=$W VERIF_SEED=$s VERIF_PROCS=4 ./check $c --tier quick > /tmp/seed/check_$(basename $D)_${c}_$s.log 2>&1; rc=$?
  echo "  $(basename $D) check $c seed $s rc=$rc: $(grep -m1 'VIOLATION' /tmp/seed/check_$(basename $D)_${c}_$s.log | cut -c1-110) | $(grep -m1 'failing input\|no longer checks' /tmp/seed/check_$(basename $D)_${c}_$s.log | cut -c1-240)"
done; done
git -C /repo worktree remove --force $W
