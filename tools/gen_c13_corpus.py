#!/usr/bin/env python3
"""Build corpus/C13/dup_agree.json: deterministic findall programs whose Prolog (SLD) result lists contain duplicates
AND whose answer the current tree reproduces exactly (same elements, same multiplicities, same order).

They lie inside the region of known finding C13-findall-duplicates-collapsed ("problog lists a duplicate fewer times than
Prolog"), where a new defect that drops duplicates would otherwise be filed under that finding; harness/props/c13.py
replays them first on every run and reports a changed outcome with signature {"kind": "corpus-regression"}, which no
known finding matches.

Two sources: hand-shaped templates with random parameters (the same clause written twice or three times, the same answer
through two predicates / a chain of predicates, identical disjuncts, `(true ; true)`, k x k pairs, nested findall,
propositional programs, duplicates coming from different facts) and the check's own random generator
(sld_util.gen_findall_program), filtered to "Prolog list has duplicates and problog agrees exactly".

Run:  PYTHONPATH=/repo:harness /venv/bin/python tools/gen_c13_corpus.py     (from the verification tree)"""
import json
import os
import random
import sys

V_ = os.path.dirname(os.path.dirname(os.path.abspath(__file__)))
sys.path.insert(0, os.path.join(V_, "harness"))
sys.path.insert(0, os.environ.get("VERIF_REPO", "/repo"))
from props import c13 as C13  # noqa: E402
import sld_util as U  # noqa: E402

F, V, TRUE = U.F, U.V, U.TRUE
N_TEMPLATE, N_RANDOM = 100, 50


def call(t):
    return ('call', t)


def gterm(rng, consts):
    r = rng.random()
    if r < 0.7:
        return rng.choice(consts)
    if r < 0.9:
        return F('f', rng.choice(consts))
    return F('g', rng.choice(consts), rng.choice(consts))


def facts(rng, name, consts, lo=1, hi=3):
    """Distinct ground unary facts (duplicates of the defect must come from derivations, not from repeated facts)."""
    rows = []
    for _ in range(rng.randint(lo, hi)):
        t = gterm(rng, consts)
        if t not in rows:
            rows.append(t)
    return [(0, F(name, t), TRUE) for t in rows]


def qclause(t, g):
    """q(L) :- findall(t, g, L) with L a fresh variable."""
    vs = U.term_vars(t) + U.goal_vars(g)
    lv = max(vs) + 1 if vs else 0
    return (lv + 1, F('q', V(lv)), ('findall', t, g, V(lv)))


def template(rng):
    consts = rng.sample(['a', 'b', 'c', 'k', '1', '2', '3'], rng.choice([2, 3, 4]))
    b, c, d, p = rng.sample(['b', 'c', 'd', 'e', 'r', 's', 'u', 'w', 'p', 'h'], 4)
    X, Y = V(0), V(1)
    kind = rng.choice(['dupclause', 'dupclause', 'twopred', 'twopred', 'chain', 'disj', 'truetrue', 'pairs', 'nested',
                       'prop', 'difffacts', 'ruledisj', 'mixed', 'dupclause2', 'truetrue_goal', 'conjdup'])
    prog = facts(rng, b, consts)
    if kind == 'dupclause':          # the same clause written k times
        k = rng.choice([2, 2, 3])
        prog += [(1, F(p, X), call(F(b, X)))] * k
        prog.append(qclause(X, call(F(p, X))))
    elif kind == 'dupclause2':       # same clause twice, binary predicate, projection
        prog = [(0, F(b, gterm(rng, consts), gterm(rng, consts)), TRUE) for _ in range(rng.randint(1, 3))]
        prog = list(dict.fromkeys(prog))
        prog += [(2, F(p, X, Y), call(F(b, X, Y)))] * 2
        prog.append(qclause(rng.choice([X, Y, F('t', X, Y)]), call(F(p, X, Y))))
    elif kind == 'twopred':          # the same answer through two predicates
        prog.append((1, F(c, X), call(F(b, X))))
        cl = [(1, F(p, X), call(F(b, X))), (1, F(p, X), call(F(c, X)))]
        rng.shuffle(cl)
        prog += cl
        prog.append(qclause(rng.choice([X, F('f', X)]), call(F(p, X))))
    elif kind == 'chain':            # b <- c <- d, p over two or three of them
        prog.append((1, F(c, X), call(F(b, X))))
        prog.append((1, F(d, X), call(F(c, X))))
        srcs = rng.sample([b, c, d], rng.choice([2, 3]))
        prog += [(1, F(p, X), call(F(s, X))) for s in srcs]
        prog.append(qclause(X, call(F(p, X))))
    elif kind == 'disj':             # identical disjuncts inside the findall goal
        g = ('or', call(F(b, X)), call(F(b, X)))
        if rng.random() < 0.3:
            g = ('or', g, call(F(b, X)))
        prog.append(qclause(X, g))
    elif kind == 'truetrue':         # every solution twice through (true ; true)
        prog.append((1, F(p, X), ('and', call(F(b, X)), ('or', TRUE, TRUE))))
        prog.append(qclause(X, call(F(p, X))))
    elif kind == 'truetrue_goal':
        g = rng.choice([('and', call(F(b, X)), ('or', TRUE, TRUE)), ('and', ('or', TRUE, TRUE), call(F(b, X)))])
        prog.append(qclause(X, g))
    elif kind == 'pairs':            # k x k derivations
        prog.append((1, F(c, X), call(F(b, X))))
        prog += [(1, F(p, X), call(F(b, X))), (1, F(p, X), call(F(c, X)))]
        prog.append(qclause(F('t', X, Y), ('and', call(F(p, X)), call(F(p, Y)))))
    elif kind == 'nested':           # findall inside findall
        prog += [(1, F(p, X), call(F(b, X)))] * 2
        inner = ('findall', X, call(F(p, X)), Y)
        prog.append((3, F('q', V(2)), ('findall', Y, inner, V(2))))
    elif kind == 'prop':             # propositional
        prog = [(0, b, TRUE)]
        prog += [(0, p, call(b))] * rng.choice([2, 3])
        prog.append((1, F('q', V(0)), ('findall', rng.choice(consts), call(p), V(0))))
    elif kind == 'difffacts':        # duplicates that come from different facts (projection of a binary relation)
        rows = []
        x = rng.choice(consts)
        for _ in range(rng.randint(2, 4)):
            row = (x if rng.random() < 0.6 else rng.choice(consts), gterm(rng, consts))
            if row not in rows:
                rows.append(row)
        prog = [(0, F(b, *r), TRUE) for r in rows]
        prog.append(qclause(X, call(F(b, X, Y))))
    elif kind == 'ruledisj':         # p(X) :- (b(X) ; c(X)).  with c defined from b
        prog.append((1, F(c, X), call(F(b, X))))
        prog.append((1, F(p, X), ('or', call(F(b, X)), call(F(c, X)))))
        prog.append(qclause(X, call(F(p, X))))
    elif kind == 'conjdup':          # duplicates through a conjunction with a second relation
        prog += facts(rng, c, consts, 2, 3)
        prog.append((2, F(p, X), ('and', call(F(b, X)), call(F(c, Y)))))
        prog.append(qclause(X, call(F(p, X))))
    else:                            # mixed: a fact of p itself next to a rule deriving the same answer
        prog.append((1, F(p, X), call(F(b, X))))
        prog.append((1, F(p, X), ('and', call(F(b, X)), TRUE)))
        prog.append(qclause(X, call(F(p, X))))
    return kind, U.fix_nvars(prog), F('q', V(0))


def has_dup(sld):
    return any(len(set(map(repr, l))) < len(l) for l in C13.lists_in_all(sld))


def accept(prog, q):
    sld = C13.spec_answers(prog, q)
    if isinstance(sld, str) or not has_dup(sld):
        return None
    if any(len(l) > 12 for l in C13.lists_in_all(sld)):
        return None
    try:
        pb, problems = C13.run_problog(prog, q)
    except Exception:
        return None
    if problems or pb != sld:
        return None
    return sld


def main():
    rng = random.Random(20260922)
    out, seen, kinds = [], set(), {}
    n = 0
    while sum(1 for o in out if o["source"] != "random") < N_TEMPLATE and n < 20000:
        n += 1
        kind, prog, q = template(rng)
        text = U.pl_program(prog)
        if text in seen or kinds.get(kind, 0) >= 9:
            continue
        sld = accept(prog, q)
        if sld is None:
            continue
        seen.add(text)
        kinds[kind] = kinds.get(kind, 0) + 1
        out.append({"source": kind, "program": C13.tojson(prog), "query": C13.tojson(q), "text": text,
                    "prolog": [U.pl_term(a) for a in sld]})
    nt, m = len(out), 0
    while len(out) - nt < N_RANDOM and m < 60000:
        m += 1
        prog, q = U.gen_findall_program(rng)
        text = U.pl_program(prog)
        if text in seen:
            continue
        sld = accept(prog, q)
        if sld is None:
            continue
        seen.add(text)
        out.append({"source": "random", "program": C13.tojson(prog), "query": C13.tojson(q), "text": text,
                    "prolog": [U.pl_term(a) for a in sld]})
    os.makedirs(os.path.join(V_, "corpus", "C13"), exist_ok=True)
    json.dump(out, open(os.path.join(V_, "corpus", "C13", "dup_agree.json"), "w"), indent=0)
    print(len(out), "programs:", nt, "from", n, "templates", kinds, "+", len(out) - nt, "from", m, "random programs")


main()
