import ProbLogProofs.Lemmas.CyclesDer
import ProbLogProofs.Lemmas.CyclesLfp
import ProbLogProofs.Lemmas.CyclesStable
/-!
# C09 — cycle-breaking half: cut evaluation = least fixpoint (property theorems only)

`Cycles.cutEval` is the concrete reading of `_break_cycles` ("false for a node found among its ancestors, otherwise the
node's operator over the recursively evaluated children"). For stores whose negative edges only point to atoms
(`Positive`) it computes the least-model semantics `lfpEval` of the cyclic store, for every atom assignment, and its
fuel (`|nodes| + 1`) never runs out.
-/
namespace ProbLogProofs.C09
open ProbLogModel.Formula ProbLogModel.Cycles ProbLogProofs.Cycles

/-- Cut evaluation is exactly "there is a derivation that never re-enters a node on its own path and avoids `A`",
    as soon as the fuel exceeds the number of nodes outside `A` (so termination is proved, not assumed). -/
theorem C09_cutEval_iff_der {S : Store} {α : Nat → Bool} (hS : Positive S) {A : List Nat} {k : Key}
    (hk : PosKey S k) {fuel : Nat} (hf : free S A < fuel) :
    cutEval S α fuel A k = true ↔ Der S α A k :=
  ⟨der_of_cutEval hS fuel A k hk, fun hd => cutEval_of_der hd fuel hf⟩

/-- More fuel than there are nodes outside `A` never changes the result. -/
theorem C09_cutEval_fuel_irrelevant {S : Store} {α : Nat → Bool} (hS : Positive S) {A : List Nat} {k : Key}
    (hk : PosKey S k) {f₁ f₂ : Nat} (h₁ : free S A < f₁) (h₂ : free S A < f₂) :
    cutEval S α f₁ A k = cutEval S α f₂ A k := by
  rw [Bool.eq_iff_iff, C09_cutEval_iff_der hS hk h₁, C09_cutEval_iff_der hS hk h₂]

/-- The loop-cut lemma: what the Kleene iteration derives (at any stage beyond the node count) is exactly what has a
    derivation that never needs a node below itself. -/
theorem C09_loop_cut_definite {S : Store} {α : Nat → Bool} (hS : Positive S) {k : Key} (hk : PosKey S k)
    {n : Nat} (hn : S.nodes.length < n) :
    lfpEval S α n k = true ↔ Der S α [] k :=
  ⟨fun h => der_of_prov n [] k (prov_of_lfpEval hS n k hk h),
   fun hd => lfpEval_of_der hd n (by rw [free_nil]; exact hn)⟩

/-- Without the stage bound: every stage of the iteration is sound for `Der`. -/
theorem C09_lfp_stage_der {S : Store} {α : Nat → Bool} (hS : Positive S) {k : Key} (hk : PosKey S k) (n : Nat)
    (h : lfpEval S α n k = true) : Der S α [] k :=
  der_of_prov n [] k (prov_of_lfpEval hS n k hk h)

/-- **Cut evaluation = least fixpoint**, for every key (also a negated reference to a compound node at top level) and
    every atom assignment; the fuel `|nodes| + 1` of the executable definition suffices. -/
theorem C09_cutEval_eq_lfp {S : Store} (hS : Positive S) (α : Nat → Bool) (k : Key) :
    cutEval S α (S.nodes.length + 1) [] k = lfpEval S α (S.nodes.length + 1) k := by
  have main : ∀ k, PosKey S k →
      cutEval S α (S.nodes.length + 1) [] k = lfpEval S α (S.nodes.length + 1) k := by
    intro k hk
    rw [Bool.eq_iff_iff, C09_cutEval_iff_der hS hk (by rw [free_nil]; omega),
      C09_loop_cut_definite hS hk (Nat.lt_succ_self _)]
  cases k with
  | none => rfl
  | some k =>
    by_cases hk : PosKey S (some k)
    · exact main _ hk
    · have hneg : k < 0 := neg_of_not_posKey hk
      have hp : PosKey S (some (-k)) := posKey_of_nonneg S (by omega)
      have hk0 : k ≠ 0 := by omega
      rw [cutEval_neg' S α _ [] k hk0, lfpEval_neg' S α _ k hk0, main _ hp]

/-- The iteration is stable after `|nodes| + 1` stages: `lfp` is the limit. -/
theorem C09_lfp_stable {S : Store} (hS : Positive S) (α : Nat → Bool) (k : Key) {n : Nat}
    (hn : S.nodes.length < n) : lfpEval S α n k = lfp S α k := by
  have main : ∀ k, PosKey S k → lfpEval S α n k = lfp S α k := by
    intro k hk
    unfold lfp
    rw [Bool.eq_iff_iff, C09_loop_cut_definite hS hk hn, C09_loop_cut_definite hS hk (Nat.lt_succ_self _)]
  cases k with
  | none => cases n <;> rfl
  | some k =>
    by_cases hk : PosKey S (some k)
    · exact main _ hk
    · have hneg : k < 0 := neg_of_not_posKey hk
      have hp : PosKey S (some (-k)) := posKey_of_nonneg S (by omega)
      have hk0 : k ≠ 0 := by omega
      have := main _ hp
      unfold lfp at this ⊢
      rw [lfpEval_neg' S α n k hk0, lfpEval_neg' S α (S.nodes.length + 1) k hk0, this]

/-- Hence: cut evaluation computes the least fixpoint `lfp`. -/
theorem C09_cutEval_eq_lfp' {S : Store} (hS : Positive S) (α : Nat → Bool) (k : Key) :
    cutEval S α (S.nodes.length + 1) [] k = lfp S α k :=
  C09_cutEval_eq_lfp hS α k

/-! ### `lfp` is a fixpoint of the immediate-consequence operator, and the least one -/

/-- `lfp` is a fixpoint: a conjunction node has the conjunction of its children's values … -/
theorem C09_lfp_fixpoint_conj {S : Store} (hS : Positive S) (α : Nat → Bool) {k : Int} (hk : 0 < k)
    {cs : List Key} {nm : Option Name} (hn : S.nodes[k.natAbs - 1]? = some (.conj cs nm)) :
    lfp S α (some k) = cs.all (lfp S α) := by
  rw [← C09_lfp_stable hS α (some k) (n := S.nodes.length + 2) (by omega), lfpEval_succ]
  have hk0 : k ≠ 0 := by omega
  have hnl : ¬ k < 0 := by omega
  simp only [hk0, ↓reduceIte, hn, hnl]
  rfl

/-- … and a disjunction node the disjunction. -/
theorem C09_lfp_fixpoint_disj {S : Store} (hS : Positive S) (α : Nat → Bool) {k : Int} (hk : 0 < k)
    {cs : List Key} {nm : Option Name} (hn : S.nodes[k.natAbs - 1]? = some (.disj cs nm)) :
    lfp S α (some k) = cs.any (lfp S α) := by
  rw [← C09_lfp_stable hS α (some k) (n := S.nodes.length + 2) (by omega), lfpEval_succ]
  have hk0 : k ≠ 0 := by omega
  have hnl : ¬ k < 0 := by omega
  simp only [hk0, ↓reduceIte, hn, hnl]
  rfl

/-- Leastness: everything the iteration derives is true in every closed valuation. -/
theorem C09_lfp_least {S : Store} (hS : Positive S) (α : Nat → Bool) {ρ : Key → Bool} (hρ : Closed S α ρ)
    {k : Key} (hk : PosKey S k) (n : Nat) (h : lfpEval S α n k = true) : ρ k = true := by
  have aux : ∀ {A : List Nat} {n : Nat} {k : Key}, Prov S α A n k → ρ k = true := by
    intro A n k hp
    induction hp with
    | tt => exact hρ.tt
    | lit hk0 hn hv => exact hρ.lit _ _ _ _ _ hk0 hn hv
    | conj hpos _ hn _ ih => exact hρ.conj _ _ _ hpos hn ih
    | disj hpos _ hn hc _ ih => exact hρ.disj _ _ _ hpos hn ⟨_, hc, ih⟩
  exact aux (prov_of_lfpEval hS n k hk h)

/-! ### non-vacuity: a cyclic positive store -/

/-- nodes: 1 = atom, 2 = atom, 3 = disj [1, 4], 4 = conj [3, 2]  (3 ↔ 4 is a positive cycle). -/
def exStore : Store :=
  { nodes := [.atom (.user 1) none false none, .atom (.user 2) none false none,
              .disj [some 1, some 4] none, .conj [some 3, some 2] none] }

def exα : Nat → Bool := fun i => i == 1 || i == 2
def exβ : Nat → Bool := fun i => i == 2       -- only the cycle could support 3 and 4: both are false

example : Positive exStore := by decide
example : WFStore exStore := by decide
example : PosKey exStore (some 4) := by decide
example : cutEval exStore exα 5 [] (some 4) = true ∧ lfpEval exStore exα 5 (some 4) = true := by decide
example : cutEval exStore exβ 5 [] (some 4) = false ∧ lfpEval exStore exβ 5 (some 4) = false := by decide
example : cutEval exStore exβ 5 [] (some 3) = false ∧ lfpEval exStore exβ 5 (some 3) = false := by decide
example : cutEval exStore exβ 5 [] (some (-3)) = true ∧ lfpEval exStore exβ 5 (some (-3)) = true := by decide
example : Der exStore exα [] (some 4) :=
  (C09_cutEval_iff_der (fuel := 5) (by decide) (by decide) (by decide)).1 (by decide)
example : ¬ Der exStore exβ [] (some 3) := fun h =>
  absurd ((C09_cutEval_iff_der (fuel := 5) (by decide) (by decide) (by decide)).2 h) (by decide)

/-- The hypothesis `Positive` is needed: with a cycle through a negative edge (`1 = conj [¬1]`, i.e. `p :- \+p`) the
    cut evaluation and the Kleene iteration differ (there is no least model). -/
def exNeg : Store := { nodes := [.conj [some (-1)] none] }

theorem C09_cutEval_eq_lfp_needs_positive :
    ¬ Positive exNeg ∧ cutEval exNeg (fun _ => false) 2 [] (some 1) ≠ lfpEval exNeg (fun _ => false) 2 (some 1) := by
  decide

/-! ### stratified negation: cut evaluation = the unique stable (= perfect) model -/

/-- On a stratified store (negative edges to compound nodes go strictly down a level mapping, i.e. no cycle passes
    through such an edge) the cut evaluation is the least model of the reduct w.r.t. its own valuation … -/
theorem C09_cutEval_eq_reduct_lfp {S : Store} {lvl : Nat → Nat} (hst : Stratified S lvl) (α : Nat → Bool) (k : Key) :
    cutEval S α (S.nodes.length + 1) [] k = lfp (reduct S (cutν S α)) α k := by
  cases k with
  | none => unfold lfp; rw [cutEval_none, lfpEval_none]
  | some k =>
    rw [cutEval_reduct hst _ [] k (by rw [free_nil]; omega) (by intro x hx; cases hx)]
    have := C09_cutEval_eq_lfp (positive_reduct S (cutν S α)) α (some k)
    unfold lfp
    rw [reduct_length] at this ⊢
    exact this

/-- … i.e. the valuation computed by the cut evaluation is a stable model … -/
theorem C09_cut_stable_model {S : Store} {lvl : Nat → Nat} (hst : Stratified S lvl) (α : Nat → Bool) :
    StableModel S α (cutν S α) :=
  fun j _ => C09_cutEval_eq_reduct_lfp hst α (some (j : Int))

/-- … and it is the only one. -/
theorem C09_stable_model_unique {S : Store} {lvl : Nat → Nat} (hst : Stratified S lvl) {α : Nat → Bool}
    {ν : Nat → Bool} (hν : StableModel S α ν) (j : Nat) (hj : 0 < j) : ν j = cutν S α j :=
  stable_agree hst hν (C09_cut_stable_model hst α) (lvl j + 1) j hj (Nat.lt_succ_self _)

/-- Loop cutting with stratified negation: for every stable model `ν` of the cyclic store (there is exactly one), the
    cut evaluation gives every key its value in the least model of the reduct w.r.t. `ν`. -/
theorem C09_loop_cut_stratified {S : Store} {lvl : Nat → Nat} (hst : Stratified S lvl) {α : Nat → Bool}
    {ν : Nat → Bool} (hν : StableModel S α ν) (k : Key) :
    cutEval S α (S.nodes.length + 1) [] k = lfp (reduct S ν) α k := by
  rw [C09_cutEval_eq_reduct_lfp hst α k]
  cases k with
  | none => unfold lfp; rw [lfpEval_none, lfpEval_none]
  | some k =>
    unfold lfp
    rw [reduct_length, reduct_length]
    exact lfpEval_reduct_congr hst _ k (fun x hx _ => (C09_stable_model_unique hst hν x hx).symm)

/-- A positive store is stratified (constant level mapping) and is its own reduct, so the stratified theorem
    specialises to `C09_cutEval_eq_lfp`. -/
theorem C09_positive_is_stratified {S : Store} (hS : Positive S) (ν : Nat → Bool) :
    Stratified S (fun _ => 0) ∧ reduct S ν = S :=
  ⟨stratified_of_positive hS, reduct_of_positive hS ν⟩

/-- nodes: 1,2 atoms; 3 = disj [1,4], 4 = conj [3,2] (positive cycle, level 1);
    5 = conj [¬3, 2], 6 = disj [5, 7], 7 = conj [6, ¬4] (positive cycle 6 ↔ 7 on level 2, negating level 1). -/
def exStrat : Store :=
  { nodes := [.atom (.user 1) none false none, .atom (.user 2) none false none,
              .disj [some 1, some 4] none, .conj [some 3, some 2] none,
              .conj [some (-3), some 2] none, .disj [some 5, some 7] none, .conj [some 6, some (-4)] none] }

def exLvl : Nat → Nat := fun i => if i ≤ 2 then 0 else if i ≤ 4 then 1 else 2

example : Stratified exStrat exLvl := by decide
example : ¬ Positive exStrat := by decide
example : cutEval exStrat exβ 8 [] (some 6) = true ∧ lfp (reduct exStrat (cutν exStrat exβ)) exβ (some 6) = true := by
  decide
example : cutEval exStrat exα 8 [] (some 6) = false ∧ lfp (reduct exStrat (cutν exStrat exα)) exα (some 6) = false := by
  decide
example : cutEval exStrat exα 8 [] (some 7) = false ∧ cutEval exStrat exβ 8 [] (some 7) = true := by decide

/-- `exNeg` (`p :- \\+p`) is not stratified by any level mapping: `Stratified` really excludes negative cycles. -/
theorem C09_exNeg_not_stratified (lvl : Nat → Nat) : ¬ Stratified exNeg lvl := by
  simp [Stratified, stratifiedBy, exNeg, stratKey]

end ProbLogProofs.C09
