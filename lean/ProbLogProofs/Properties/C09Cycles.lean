import ProbLogProofs.Lemmas.CyclesDer
import ProbLogProofs.Lemmas.CyclesLfp
/-!
# C09 — cycle-breaking half: cut evaluation = least fixpoint (property theorems only)

`Cycles.cutEval` is the concrete reading of `_break_cycles` ("false for a node found among its ancestors, otherwise the
node's operator over the recursively evaluated children"). For stores whose negative edges only point to atoms
(`Positive`) it computes the least-model semantics `lfpEval` of the cyclic store, for every atom assignment, and its
fuel (`|nodes| + 1`) never runs out.
-/
namespace ProbLogProofs.C09
open ProbLogModel.Formula ProbLogModel.Cycles ProbLogProofs.Cycles

/-- Cut evaluation is exactly "there is a derivation that never re-enters a node on its own path and avoids `A`",
    as soon as the fuel exceeds the number of nodes outside `A` (so termination is proved, not assumed). -/
theorem C09_cutEval_iff_der {S : Store} {α : Nat → Bool} (hS : Positive S) {A : List Nat} {k : Key}
    (hk : PosKey S k) {fuel : Nat} (hf : free S A < fuel) :
    cutEval S α fuel A k = true ↔ Der S α A k :=
  ⟨der_of_cutEval hS fuel A k hk, fun hd => cutEval_of_der hd fuel hf⟩

/-- More fuel than there are nodes outside `A` never changes the result. -/
theorem C09_cutEval_fuel_irrelevant {S : Store} {α : Nat → Bool} (hS : Positive S) {A : List Nat} {k : Key}
    (hk : PosKey S k) {f₁ f₂ : Nat} (h₁ : free S A < f₁) (h₂ : free S A < f₂) :
    cutEval S α f₁ A k = cutEval S α f₂ A k := by
  rw [Bool.eq_iff_iff, C09_cutEval_iff_der hS hk h₁, C09_cutEval_iff_der hS hk h₂]

/-- The loop-cut lemma: what the Kleene iteration derives (at any stage beyond the node count) is exactly what has a
    derivation that never needs a node below itself. -/
theorem C09_loop_cut_definite {S : Store} {α : Nat → Bool} (hS : Positive S) {k : Key} (hk : PosKey S k)
    {n : Nat} (hn : S.nodes.length < n) :
    lfpEval S α n k = true ↔ Der S α [] k :=
  ⟨fun h => der_of_prov n [] k (prov_of_lfpEval hS n k hk h),
   fun hd => lfpEval_of_der hd n (by rw [free_nil]; exact hn)⟩

/-- Without the stage bound: every stage of the iteration is sound for `Der`. -/
theorem C09_lfp_stage_der {S : Store} {α : Nat → Bool} (hS : Positive S) {k : Key} (hk : PosKey S k) (n : Nat)
    (h : lfpEval S α n k = true) : Der S α [] k :=
  der_of_prov n [] k (prov_of_lfpEval hS n k hk h)

/-- **Cut evaluation = least fixpoint**, for every key (also a negated reference to a compound node at top level) and
    every atom assignment; the fuel `|nodes| + 1` of the executable definition suffices. -/
theorem C09_cutEval_eq_lfp {S : Store} (hS : Positive S) (α : Nat → Bool) (k : Key) :
    cutEval S α (S.nodes.length + 1) [] k = lfpEval S α (S.nodes.length + 1) k := by
  have main : ∀ k, PosKey S k →
      cutEval S α (S.nodes.length + 1) [] k = lfpEval S α (S.nodes.length + 1) k := by
    intro k hk
    rw [Bool.eq_iff_iff, C09_cutEval_iff_der hS hk (by rw [free_nil]; omega),
      C09_loop_cut_definite hS hk (Nat.lt_succ_self _)]
  cases k with
  | none => rfl
  | some k =>
    by_cases hk : PosKey S (some k)
    · exact main _ hk
    · have hneg : k < 0 := neg_of_not_posKey hk
      have hp : PosKey S (some (-k)) := posKey_of_nonneg S (by omega)
      have hk0 : k ≠ 0 := by omega
      rw [cutEval_neg' S α _ [] k hk0, lfpEval_neg' S α _ k hk0, main _ hp]

/-- The iteration is stable after `|nodes| + 1` stages: `lfp` is the limit. -/
theorem C09_lfp_stable {S : Store} (hS : Positive S) (α : Nat → Bool) (k : Key) {n : Nat}
    (hn : S.nodes.length < n) : lfpEval S α n k = lfp S α k := by
  have main : ∀ k, PosKey S k → lfpEval S α n k = lfp S α k := by
    intro k hk
    unfold lfp
    rw [Bool.eq_iff_iff, C09_loop_cut_definite hS hk hn, C09_loop_cut_definite hS hk (Nat.lt_succ_self _)]
  cases k with
  | none => cases n <;> rfl
  | some k =>
    by_cases hk : PosKey S (some k)
    · exact main _ hk
    · have hneg : k < 0 := neg_of_not_posKey hk
      have hp : PosKey S (some (-k)) := posKey_of_nonneg S (by omega)
      have hk0 : k ≠ 0 := by omega
      have := main _ hp
      unfold lfp at this ⊢
      rw [lfpEval_neg' S α n k hk0, lfpEval_neg' S α (S.nodes.length + 1) k hk0, this]

/-- Hence: cut evaluation computes the least fixpoint `lfp`. -/
theorem C09_cutEval_eq_lfp' {S : Store} (hS : Positive S) (α : Nat → Bool) (k : Key) :
    cutEval S α (S.nodes.length + 1) [] k = lfp S α k :=
  C09_cutEval_eq_lfp hS α k

/-! ### `lfp` is a fixpoint of the immediate-consequence operator, and the least one -/

/-- `lfp` is a fixpoint: a conjunction node has the conjunction of its children's values … -/
theorem C09_lfp_fixpoint_conj {S : Store} (hS : Positive S) (α : Nat → Bool) {k : Int} (hk : 0 < k)
    {cs : List Key} {nm : Option Name} (hn : S.nodes[k.natAbs - 1]? = some (.conj cs nm)) :
    lfp S α (some k) = cs.all (lfp S α) := by
  rw [← C09_lfp_stable hS α (some k) (n := S.nodes.length + 2) (by omega), lfpEval_succ]
  have hk0 : k ≠ 0 := by omega
  have hnl : ¬ k < 0 := by omega
  simp only [hk0, ↓reduceIte, hn, hnl]
  rfl

/-- … and a disjunction node the disjunction. -/
theorem C09_lfp_fixpoint_disj {S : Store} (hS : Positive S) (α : Nat → Bool) {k : Int} (hk : 0 < k)
    {cs : List Key} {nm : Option Name} (hn : S.nodes[k.natAbs - 1]? = some (.disj cs nm)) :
    lfp S α (some k) = cs.any (lfp S α) := by
  rw [← C09_lfp_stable hS α (some k) (n := S.nodes.length + 2) (by omega), lfpEval_succ]
  have hk0 : k ≠ 0 := by omega
  have hnl : ¬ k < 0 := by omega
  simp only [hk0, ↓reduceIte, hn, hnl]
  rfl

/-- Leastness: everything the iteration derives is true in every closed valuation. -/
theorem C09_lfp_least {S : Store} (hS : Positive S) (α : Nat → Bool) {ρ : Key → Bool} (hρ : Closed S α ρ)
    {k : Key} (hk : PosKey S k) (n : Nat) (h : lfpEval S α n k = true) : ρ k = true := by
  have aux : ∀ {A : List Nat} {n : Nat} {k : Key}, Prov S α A n k → ρ k = true := by
    intro A n k hp
    induction hp with
    | tt => exact hρ.tt
    | lit hk0 hn hv => exact hρ.lit _ _ _ _ _ hk0 hn hv
    | conj hpos _ hn _ ih => exact hρ.conj _ _ _ hpos hn ih
    | disj hpos _ hn hc _ ih => exact hρ.disj _ _ _ hpos hn ⟨_, hc, ih⟩
  exact aux (prov_of_lfpEval hS n k hk h)

/-! ### non-vacuity: a cyclic positive store -/

/-- nodes: 1 = atom, 2 = atom, 3 = disj [1, 4], 4 = conj [3, 2]  (3 ↔ 4 is a positive cycle). -/
def exStore : Store :=
  { nodes := [.atom (.user 1) none false none, .atom (.user 2) none false none,
              .disj [some 1, some 4] none, .conj [some 3, some 2] none] }

def exα : Nat → Bool := fun i => i == 1 || i == 2
def exβ : Nat → Bool := fun i => i == 2       -- only the cycle could support 3 and 4: both are false

example : Positive exStore := by decide
example : WFStore exStore := by decide
example : PosKey exStore (some 4) := by decide
example : cutEval exStore exα 5 [] (some 4) = true ∧ lfpEval exStore exα 5 (some 4) = true := by decide
example : cutEval exStore exβ 5 [] (some 4) = false ∧ lfpEval exStore exβ 5 (some 4) = false := by decide
example : cutEval exStore exβ 5 [] (some 3) = false ∧ lfpEval exStore exβ 5 (some 3) = false := by decide
example : cutEval exStore exβ 5 [] (some (-3)) = true ∧ lfpEval exStore exβ 5 (some (-3)) = true := by decide
example : Der exStore exα [] (some 4) :=
  (C09_cutEval_iff_der (fuel := 5) (by decide) (by decide) (by decide)).1 (by decide)
example : ¬ Der exStore exβ [] (some 3) := fun h =>
  absurd ((C09_cutEval_iff_der (fuel := 5) (by decide) (by decide) (by decide)).2 h) (by decide)

/-- The hypothesis `Positive` is needed: with a cycle through a negative edge (`1 = conj [¬1]`, i.e. `p :- \+p`) the
    cut evaluation and the Kleene iteration differ (there is no least model). -/
def exNeg : Store := { nodes := [.conj [some (-1)] none] }

theorem C09_cutEval_eq_lfp_needs_positive :
    ¬ Positive exNeg ∧ cutEval exNeg (fun _ => false) 2 [] (some 1) ≠ lfpEval exNeg (fun _ => false) 2 (some 1) := by
  decide

end ProbLogProofs.C09
