import Mathlib.Analysis.SpecialFunctions.Log.Basic
import Mathlib.Tactic.Ring
import Mathlib.Tactic.Linarith
import ProbLogModel.Generated.Semirings
import ProbLogModel.SymbolicEval
import ProbLogProofs.Lemmas.SemiringLogVal
import ProbLogProofs.Lemmas.SymbolicEval
import ProbLogProofs.Lemmas.SemiringProbLog
/-!
# C12 — built-in semirings obey their algebra and documented defaults (property theorems only)

All statements are about the definitions in `ProbLogModel.Generated.Semirings`, which `harness/py2lean` regenerates
from problog/evaluator.py and problog/tasks/mpe.py on every run of the check.

* probability semiring: commutative-semiring laws, `negate`, `normalize`, `ad_complement`, `value` over ℚ;
* log-probability semiring: instantiated at `LogVal` = ℝ ∪ {−∞} (Mathlib's `Real.exp`/`Real.log`), it is the
  logarithmic image of the probability semiring (`toProb`), guarded branches stated with their thresholds;
* symbolic semiring: `eval` (ProbLogModel.SymbolicEval) is a homomorphism from the string-building operations;
* base class `Semiring`: the documented defaults for every semiring that inherits them; MPE semirings.
-/
namespace ProbLogProofs.C12
open ProbLogModel.Generated ProbLogModel.SemiringPrelude ProbLogProofs ProbLogProofs.LogVal
open ProbLogModel.SymbolicEval ProbLogProofs.Sym

/-! ## Probability semiring (ℚ) -/

theorem C12_prob_plus_assoc (a b c : Rat) :
    SemiringProbability.plus (SemiringProbability.plus a b) c
      = SemiringProbability.plus a (SemiringProbability.plus b c) := by
  simp only [SemiringProbability.plus]; ring

theorem C12_prob_plus_comm (a b : Rat) : SemiringProbability.plus a b = SemiringProbability.plus b a := by
  simp only [SemiringProbability.plus]; ring

theorem C12_prob_times_assoc (a b c : Rat) :
    SemiringProbability.times (SemiringProbability.times a b) c
      = SemiringProbability.times a (SemiringProbability.times b c) := by
  simp only [SemiringProbability.times]; ring

theorem C12_prob_times_comm (a b : Rat) : SemiringProbability.times a b = SemiringProbability.times b a := by
  simp only [SemiringProbability.times]; ring

theorem C12_prob_distrib (a b c : Rat) :
    SemiringProbability.times a (SemiringProbability.plus b c)
      = SemiringProbability.plus (SemiringProbability.times a b) (SemiringProbability.times a c) := by
  simp only [SemiringProbability.plus, SemiringProbability.times]; ring

theorem C12_prob_zero_plus (a : Rat) :
    SemiringProbability.plus SemiringProbability.zero a = a ∧ SemiringProbability.plus a SemiringProbability.zero = a := by
  simp [SemiringProbability.plus, SemiringProbability.zero]

theorem C12_prob_one_times (a : Rat) :
    SemiringProbability.times SemiringProbability.one a = a ∧ SemiringProbability.times a SemiringProbability.one = a := by
  simp [SemiringProbability.times, SemiringProbability.one]

theorem C12_prob_zero_times (a : Rat) :
    SemiringProbability.times SemiringProbability.zero a = SemiringProbability.zero ∧
    SemiringProbability.times a SemiringProbability.zero = SemiringProbability.zero := by
  simp [SemiringProbability.times, SemiringProbability.zero]

theorem C12_prob_is_one_one : SemiringProbability.is_one SemiringProbability.one = true := by
  simp only [SemiringProbability.is_one, SemiringProbability.one]; norm_num

theorem C12_prob_is_zero_zero : SemiringProbability.is_zero SemiringProbability.zero = true := by
  simp only [SemiringProbability.is_zero, SemiringProbability.zero]; norm_num

theorem C12_prob_negate (a : Rat) :
    SemiringProbability.negate a = 1 - a ∧
    SemiringProbability.plus a (SemiringProbability.negate a) = SemiringProbability.one := by
  simp [SemiringProbability.negate, SemiringProbability.plus, SemiringProbability.one]

theorem C12_prob_negate_negate (a : Rat) : SemiringProbability.negate (SemiringProbability.negate a) = a := by
  simp [SemiringProbability.negate]

/-- `normalize a z = a / z`; Python's ZeroDivisionError is explicit (`C12_prob_normalize_zero`). -/
theorem C12_prob_normalize (a z : Rat) (hz : z ≠ 0) : SemiringProbability.normalize a z = .ok (a / z) := by
  simp [SemiringProbability.normalize, pyDivRat, hz]; rfl

theorem C12_prob_normalize_one (a : Rat) : SemiringProbability.normalize a SemiringProbability.one = .ok a := by
  simp [SemiringProbability.normalize, pyDivRat, SemiringProbability.one]; rfl

theorem C12_prob_normalize_zero (a : Rat) :
    SemiringProbability.normalize a 0 = .error PyErr.ZeroDivisionError := by
  simp [SemiringProbability.normalize, pyDivRat]; rfl

theorem C12_prob_ad_complement (ws : List Rat) (key : Int) :
    SemiringProbability.ad_complement ws key = 1 - ws.sum :=
  Semiring.prob_ad_complement ws key

theorem C12_prob_value_in_band (v : Rat) (h0 : -(1/1000000000) ≤ v) (h1 : v ≤ 1 + 1/1000000000) :
    SemiringProbability.value v = .ok v ∧ SemiringProbability.in_domain v = true :=
  Semiring.prob_value_in_band v h0 h1

theorem C12_prob_value_outside (v : Rat) (h : v < -(1/1000000000) ∨ 1 + 1/1000000000 < v) :
    SemiringProbability.value v = .error PyErr.InvalidValue ∧ SemiringProbability.in_domain v = false :=
  Semiring.prob_value_outside v h

example : SemiringProbability.value (3/10) = .ok (3/10) := (C12_prob_value_in_band _ (by norm_num) (by norm_num)).1
example : SemiringProbability.value (3/2) = .error PyErr.InvalidValue := (C12_prob_value_outside _ (by norm_num)).1
example : SemiringProbability.ad_complement [3/10, 1/2] 0 = 1/5 := by rw [C12_prob_ad_complement]; norm_num

/-! ## Log-probability semiring: the logarithmic image of the probability semiring -/

theorem C12_log_one_zero :
    toProb (SemiringLogProbability.one (α := LogVal)) = some SemiringProbability.one ∧
    toProb (SemiringLogProbability.zero (α := LogVal)) = some SemiringProbability.zero := by
  simp [SemiringLogProbability.one, SemiringLogProbability.zero, toProb, SemiringProbability.one,
    SemiringProbability.zero]

/-- `exp (plus a b) = exp a + exp b`, including `a = −∞` / `b = −∞`. -/
theorem C12_log_plus (a b : LogVal) (p q : ℝ) (ha : toProb a = some p) (hb : toProb b = some q) :
    ∃ r, SemiringLogProbability.plus a b = .ok r ∧ toProb r = some (p + q) :=
  Semiring.log_plus a b p q ha hb

theorem C12_log_times (a b : LogVal) (p q : ℝ) (ha : toProb a = some p) (hb : toProb b = some q) :
    toProb (SemiringLogProbability.times a b) = some (p * q) := by
  rcases toProb_eq_some ha with ⟨rfl, rfl⟩ | ⟨x, rfl, rfl⟩ <;>
  rcases toProb_eq_some hb with ⟨rfl, rfl⟩ | ⟨y, rfl, rfl⟩ <;>
  simp [SemiringLogProbability.times, add, toProb, Real.exp_add]

theorem C12_log_normalize (a z : LogVal) (p q : ℝ) (ha : toProb a = some p) (hz : toProb z = some q)
    (hq : q ≠ 0) : toProb (SemiringLogProbability.normalize a z) = some (p / q) := by
  rcases toProb_eq_some ha with ⟨rfl, rfl⟩ | ⟨x, rfl, rfl⟩ <;>
  rcases toProb_eq_some hz with ⟨rfl, rfl⟩ | ⟨y, rfl, rfl⟩ <;>
  simp_all [SemiringLogProbability.normalize, sub, toProb, Real.exp_sub]

/-- `negate` below the guard (`a ≤ -1e-10`): exactly the complement `1 − p`. -/
theorem C12_log_negate (a : LogVal) (p : ℝ) (ha : toProb a = some p)
    (h : a ≤ (LogNum.ofRat (-1/10000000000) : LogVal)) :
    ∃ r, SemiringLogProbability.negate a = .ok r ∧ toProb r = some (1 - p) := by
  rcases toProb_eq_some ha with ⟨rfl, rfl⟩ | ⟨x, rfl, rfl⟩
  · refine ⟨fin 0, ?_, by simp [toProb]⟩
    simp [SemiringLogProbability.negate, SemiringLogProbability.in_domain, pyLog1p, exp, neg, log1p]; rfl
  · simp at h
    have hx : x < 0 := by norm_num at h; linarith
    have hlt : Real.exp x < 1 := by rw [← Real.exp_zero]; exact Real.exp_lt_exp.mpr hx
    refine ⟨fin (Real.log (1 + -Real.exp x)), ?_, ?_⟩
    · have h1 : ¬ ((1000000000000:ℝ)⁻¹ < x) := by norm_num at h ⊢; linarith
      have h2 : ¬ ((-1:ℝ) / 10000000000 < x) := by norm_num at h ⊢; linarith
      simp [SemiringLogProbability.negate, SemiringLogProbability.in_domain, pyLog1p, exp, neg, log1p, h1, h2, hlt]
      rfl
    · have : 0 < 1 + -Real.exp x := by linarith
      simp [toProb, Real.exp_log this]; ring

/-- The guarded branch `-1e-10 < a ≤ 1e-12`: the result is `zero`; the exact complement is within 1e-10 of 0. -/
theorem C12_log_negate_guard (a : LogVal) (p : ℝ) (ha : toProb a = some p)
    (h1 : (LogNum.ofRat (-1/10000000000) : LogVal) < a) (h2 : a ≤ (LogNum.ofRat (1/1000000000000) : LogVal)) :
    SemiringLogProbability.negate a = .ok (SemiringLogProbability.zero (α := LogVal)) ∧
    |1 - p| ≤ 1/10000000000 := by
  rcases toProb_eq_some ha with ⟨rfl, rfl⟩ | ⟨x, rfl, rfl⟩
  · simp at h1
  · simp at h1 h2
    constructor
    · simp [SemiringLogProbability.negate, SemiringLogProbability.in_domain, h1, h2]; rfl
    · norm_num at h1 h2
      have e1 : x + 1 ≤ Real.exp x := Real.add_one_le_exp x
      have e2 : Real.exp x ≤ 1 / (1 - x) := by
        have := Real.add_one_le_exp (-x)
        rw [Real.exp_neg] at this
        have hpos : 0 < 1 - x := by linarith
        rw [le_div_iff₀ hpos]
        have hexp := Real.exp_pos x
        have : (1 - x) * Real.exp x ≤ (Real.exp x)⁻¹ * Real.exp x := by
          apply mul_le_mul_of_nonneg_right _ hexp.le; linarith
        rw [inv_mul_cancel₀ hexp.ne'] at this; linarith
      have e3 : 1 / (1 - x) ≤ 1 + 1/10000000000 := by
        have hpos : 0 < 1 - x := by linarith
        rw [div_le_iff₀ hpos]; nlinarith
      rw [abs_le]; constructor <;> linarith

/-- Above `1e-12` (probability > 1): InvalidValue. -/
theorem C12_log_negate_invalid (a : LogVal) (h : ¬ a ≤ (LogNum.ofRat (1/1000000000000) : LogVal)) :
    SemiringLogProbability.negate a = .error PyErr.InvalidValue :=
  Semiring.log_negate_invalid a h

/-- `value` on `[1e-9, 1+1e-9]`: the logarithm; the probability semiring accepts the same annotation unchanged. -/
theorem C12_log_value (v : ℚ) (h0 : 1/1000000000 ≤ v) (h1 : v ≤ 1 + 1/1000000000) :
    SemiringProbability.value v = .ok v ∧
    ∃ r, SemiringLogProbability.value (LogNum.ofRat v : LogVal) = .ok r ∧ toProb r = some (v : ℝ) :=
  Semiring.log_value v h0 h1

/-- The clipped band `-1e-9 ≤ v < 1e-9`: log space returns `zero` (the probability semiring keeps `v`, |v| ≤ 1e-9). -/
theorem C12_log_value_clip (v : ℚ) (h0 : -(1/1000000000) ≤ v) (h1 : v < 1/1000000000) :
    SemiringProbability.value v = .ok v ∧
    SemiringLogProbability.value (LogNum.ofRat v : LogVal) = .ok (SemiringLogProbability.zero (α := LogVal)) :=
  Semiring.log_value_clip v h0 h1

/-- Outside `[-1e-9, 1+1e-9]` both semirings raise InvalidValue. -/
theorem C12_log_value_invalid (v : ℚ) (h : v < -(1/1000000000) ∨ 1 + 1/1000000000 < v) :
    SemiringProbability.value v = .error PyErr.InvalidValue ∧
    SemiringLogProbability.value (LogNum.ofRat v : LogVal) = .error PyErr.InvalidValue :=
  Semiring.log_value_invalid v h

/-- `ad_complement ws` is `negate` of a value denoting `Σ exp wᵢ` (then `C12_log_negate*` apply); the probability
    semiring computes `1 − Σ` (`C12_prob_ad_complement`). -/
theorem C12_log_ad_complement (ws : List LogVal) (ps : List ℝ) (key : Int)
    (h : List.Forall₂ (fun w p => toProb w = some p) ws ps) :
    ∃ s, toProb s = some ps.sum ∧
      SemiringLogProbability.ad_complement ws key = SemiringLogProbability.negate s :=
  Semiring.log_ad_complement ws ps key h

theorem C12_log_is_one_one : SemiringLogProbability.is_one (SemiringLogProbability.one (α := LogVal)) = true := by
  simp [SemiringLogProbability.is_one, SemiringLogProbability.one]; norm_num

theorem C12_log_is_zero_zero : SemiringLogProbability.is_zero (SemiringLogProbability.zero (α := LogVal)) = true := by
  simp [SemiringLogProbability.is_zero, SemiringLogProbability.zero]

/-- `result` (internal → external) is `exp`. -/
theorem C12_log_result (a : LogVal) (p : ℝ) (ha : toProb a = some p) :
    SemiringLogProbability.result a () = fin p := by
  rcases toProb_eq_some ha with ⟨rfl, rfl⟩ | ⟨x, rfl, rfl⟩ <;> simp [SemiringLogProbability.result, exp]

example : ∃ r, SemiringLogProbability.plus (fin (Real.log 2)) ninf = .ok r ∧ toProb r = some (2 + 0) :=
  C12_log_plus _ _ _ _ (by simp [toProb, Real.exp_log]) (by simp [toProb])
example : SemiringLogProbability.value (LogNum.ofRat (3/2) : LogVal) = .error PyErr.InvalidValue :=
  (C12_log_value_invalid _ (by norm_num)).2

/-! ## Symbolic semiring: `eval` is a homomorphism from the string-building operations -/

/-- Membership with value `v` means: the evaluator returns `v`. -/
theorem C12_sym_eval_of_lang {s : String} {v : Rat} (h : InLang s v) : eval s = some v := by
  obtain ⟨ts, hl, hd⟩ := h
  simp [eval, evalChars, hl, evalToks_of_der hd]

theorem compoundAux_numChars (cs : List Char) (h : ∀ c ∈ cs, isNumChar c = true) :
    ∀ prev, PyStr.compoundAux prev cs = false := by
  induction cs with
  | nil => intro _; rfl
  | cons c cs ih =>
    intro prev
    have hc := h c (by simp)
    have hne : ∀ d : Char, isNumChar d = false → (c == d) = false := by
      intro d hd
      cases hcd : (c == d)
      · rfl
      · rw [beq_iff_eq] at hcd; subst hcd; rw [hc] at hd; cases hd
    simp only [PyStr.compoundAux, hne '(' (by decide), hne '+' (by decide), hne '*' (by decide), hne '/' (by decide),
      hne ' ' (by decide), hne ',' (by decide), hne '^' (by decide), hne '-' (by decide), Bool.false_or, Bool.false_and]
    exact ih (fun d hd => h d (by simp [hd])) c

/-- The text of a plain numeral is not the text of a compound label: `value` leaves it alone. -/
theorem C12_sym_value_numeral {s : String} {q : Rat} (h : IsNumeral s q) : SemiringSymbolic.value s = s := by
  unfold SemiringSymbolic.value PyStr.isCompound
  rw [compoundAux_numChars _ h.2.1]; rfl

theorem C12_sym_atom {s : String} {q : Rat} (h : IsNumeral s q) : InLang (SemiringSymbolic.value s) q := by
  rw [C12_sym_value_numeral h]
  exact ⟨[.num q], lex_numeral h.1 h.2.1 h.2.2, Der.ofF (Der.num q)⟩

/-- A compound label is kept as ONE factor: `value` brackets its text (the repaired behaviour: `(0.2+0.1)::a` used to
    contribute the bare text `0.2+0.1`, so that a product `0.2+0.1*0.5` denoted another number). -/
theorem C12_sym_value_compound {s : String} (h : PyStr.isCompound s = true) :
    SemiringSymbolic.value s = "(" ++ s ++ ")" := by
  unfold SemiringSymbolic.value; rw [h]; rfl

/-- A label that is a sum of two numerals is one factor of the value of the sum. -/
theorem C12_sym_value_sum {a b : String} {x y : Rat} (ha : IsNumeral a x) (hb : IsNumeral b y) :
    InLang (SemiringSymbolic.value (a ++ "+" ++ b)) (x + y) := by
  have hc : PyStr.isCompound (a ++ "+" ++ b) = true := by
    unfold PyStr.isCompound
    simp only [String.toList_append]
    rw [show "+".toList = ['+'] from rfl]
    generalize a.toList = l
    generalize '\x00' = p
    induction l generalizing p with
    | nil => simp [PyStr.compoundAux]
    | cons c cs ih =>
      have := ih c
      simp only [List.cons_append, PyStr.compoundAux, Bool.or_eq_true]
      right; simpa using this
  rw [C12_sym_value_compound hc]
  have la := lex_numeral ha.1 ha.2.1 ha.2.2
  have lb := lex_numeral hb.1 hb.2.1 hb.2.2
  refine ⟨.lp :: [.num x] ++ .plus :: [.num y] ++ [.rp], ?_, Der.ofF (Der.add (Der.ofF (Der.num x)) (Der.ofF (Der.num y)))⟩
  have h1 := lex_cat lb (d := ')') (dd := [.rp]) rfl (by decide) lex_nil
  have h3 := lex_cat la (d := '+') (dd := [.plus]) rfl (by decide) h1
  have h4 := lex_delim (d := '(') (dd := [.lp]) rfl (by decide) h3
  simpa [String.toList_append] using h4

theorem C12_sym_plus {a b : String} {x y : Rat} (ha : InLang a x) (hb : InLang b y) :
    InLang (SemiringSymbolic.plus a b) (x + y) := by
  unfold SemiringSymbolic.plus
  split
  · rename_i h; rw [val_of_zero ha h, zero_add]; exact hb
  · split
    · rename_i h; rw [val_of_zero hb h, add_zero]; exact ha
    · obtain ⟨ta, la, da⟩ := ha
      obtain ⟨tb, lb, db⟩ := hb
      refine ⟨.lp :: ta ++ .plus :: tb ++ [.rp], ?_, Der.ofF (Der.add da db)⟩
      have h1 := lex_cat lb (d := ')') (dd := [.rp]) rfl (by decide) lex_nil
      have h2 := lex_delim (d := ' ') (dd := []) rfl (by decide) h1
      have h3 := lex_delim (d := '+') (dd := [.plus]) rfl (by decide) h2
      have h4 := lex_cat la (d := ' ') (dd := []) rfl (by decide) h3
      have h5 := lex_delim (d := '(') (dd := [.lp]) rfl (by decide) h4
      have e : ("(" ++ a ++ " + " ++ b ++ ")").toList = '(' :: (a.toList ++ ' ' :: '+' :: ' ' :: (b.toList ++ [')'])) := by
        simp [String.toList_append]
      rw [e, h5]; simp

theorem C12_sym_times {a b : String} {x y : Rat} (ha : InLang a x) (hb : InLang b y) :
    InLang (SemiringSymbolic.times a b) (x * y) := by
  unfold SemiringSymbolic.times
  split
  · rename_i h
    rw [Bool.or_eq_true] at h
    rcases h with h | h
    · rw [val_of_zero ha h, zero_mul]; exact inLang_zero
    · rw [val_of_zero hb h, mul_zero]; exact inLang_zero
  · split
    · rename_i h; rw [val_of_one ha h, one_mul]; exact hb
    · split
      · rename_i h; rw [val_of_one hb h, mul_one]; exact ha
      · obtain ⟨ta, la, da⟩ := ha
        obtain ⟨tb, lb, db⟩ := hb
        refine ⟨ta ++ .star :: tb, ?_, der_mul db da⟩
        have h1 := lex_cat la (d := '*') (dd := [.star]) rfl (by decide) lb
        have e : (a ++ "*" ++ b).toList = a.toList ++ '*' :: b.toList := by simp [String.toList_append]
        rw [e, h1]; simp

theorem C12_sym_negate {a : String} {x : Rat} (ha : InLang a x) :
    InLang (SemiringSymbolic.negate a) (1 - x) := by
  unfold SemiringSymbolic.negate
  split
  · rename_i h; rw [val_of_zero ha h, sub_zero]; exact inLang_one
  · split
    · rename_i h; rw [val_of_one ha h, sub_self]; exact inLang_zero
    · obtain ⟨ta, la, da⟩ := ha
      refine ⟨.lp :: [.num 1] ++ .minus :: ta ++ [.rp], ?_, Der.ofF (Der.sub (Der.ofF (Der.num 1)) da)⟩
      have h1 := lex_cat la (d := ')') (dd := [.rp]) rfl (by decide) lex_nil
      have l1 : lexChars ['1'] = some [.num 1] := by decide
      have h2 := lex_cat l1 (d := '-') (dd := [.minus]) rfl (by decide) h1
      have h3 := lex_delim (d := '(') (dd := [.lp]) rfl (by decide) h2
      have e : ("(1-" ++ a ++ ")").toList = '(' :: (['1'] ++ '-' :: (a.toList ++ [')'])) := by
        simp [String.toList_append]
      rw [e, h3]; simp

/-- `normalize a z` evaluates to `a / z` — with the parentheses the (fixed) code emits around both operands. -/
theorem C12_sym_normalize {a z : String} {x y : Rat} (ha : InLang a x) (hz : InLang z y) (hy : y ≠ 0) :
    InLang (SemiringSymbolic.normalize a z) (x / y) := by
  unfold SemiringSymbolic.normalize
  split
  · rename_i h; rw [val_of_one hz h, div_one]; exact ha
  · obtain ⟨ta, la, da⟩ := ha
    obtain ⟨tz, lz, dz⟩ := hz
    refine ⟨(.lp :: ta ++ [.rp]) ++ .slash :: (.lp :: tz ++ [.rp]), ?_,
      Der.div (Der.ofF (Der.paren da)) (Der.paren dz) hy⟩
    have h1 := lex_cat lz (d := ')') (dd := [.rp]) rfl (by decide) lex_nil
    have h2 := lex_delim (d := '(') (dd := [.lp]) rfl (by decide) h1
    have h3 := lex_delim (d := ' ') (dd := []) rfl (by decide) h2
    have h4 := lex_delim (d := '/') (dd := [.slash]) rfl (by decide) h3
    have h5 := lex_delim (d := ' ') (dd := []) rfl (by decide) h4
    have h6 := lex_cat la (d := ')') (dd := [.rp]) rfl (by decide) h5
    have h7 := lex_delim (d := '(') (dd := [.lp]) rfl (by decide) h6
    have e : ("(" ++ a ++ ") / (" ++ z ++ ")").toList
        = '(' :: (a.toList ++ ')' :: ' ' :: '/' :: ' ' :: '(' :: (z.toList ++ [')'])) := by
      simp [String.toList_append]
    rw [e, h7]; simp

/-- Expression trees over the semiring operations … -/
inductive SymExpr where
  | atom (s : String) (q : Rat)
  | plus (a b : SymExpr)
  | times (a b : SymExpr)
  | negate (a : SymExpr)
  | normalize (a z : SymExpr)

/-- … the string the semiring builds for a tree … -/
def SymExpr.build : SymExpr → String
  | .atom s _ => SemiringSymbolic.value s
  | .plus a b => SemiringSymbolic.plus a.build b.build
  | .times a b => SemiringSymbolic.times a.build b.build
  | .negate a => SemiringSymbolic.negate a.build
  | .normalize a z => SemiringSymbolic.normalize a.build z.build

/-- … and the number the tree denotes. -/
def SymExpr.den : SymExpr → Rat
  | .atom _ q => q
  | .plus a b => a.den + b.den
  | .times a b => a.den * b.den
  | .negate a => 1 - a.den
  | .normalize a z => a.den / z.den

/-- Atoms are decimal numerals; normalisation constants are non-zero (Python raises ZeroDivisionError otherwise). -/
def SymExpr.WF : SymExpr → Prop
  | .atom s q => IsNumeral s q
  | .plus a b => a.WF ∧ b.WF
  | .times a b => a.WF ∧ b.WF
  | .negate a => a.WF
  | .normalize a z => a.WF ∧ z.WF ∧ z.den ≠ 0

/-- **Homomorphism**: evaluating the string built by any combination of the operations gives the value of the
    combination. -/
theorem C12_sym_tree (e : SymExpr) (h : e.WF) : eval e.build = some e.den := by
  suffices InLang e.build e.den from C12_sym_eval_of_lang this
  induction e with
  | atom s q => exact C12_sym_atom h
  | plus a b iha ihb => exact C12_sym_plus (iha h.1) (ihb h.2)
  | times a b iha ihb => exact C12_sym_times (iha h.1) (ihb h.2)
  | negate a iha => exact C12_sym_negate (iha h)
  | normalize a z iha ihz => exact C12_sym_normalize (iha h.1) (ihz h.2.1) h.2.2

theorem C12_sym_is_one_one : SemiringSymbolic.is_one SemiringSymbolic.one = true := by
  simp [SemiringSymbolic.is_one]

theorem C12_sym_is_zero_zero : SemiringSymbolic.is_zero SemiringSymbolic.zero = true := by
  simp [SemiringSymbolic.is_zero]

theorem C12_sym_normalize_one (a : String) : SemiringSymbolic.normalize a SemiringSymbolic.one = a := by
  simp [SemiringSymbolic.normalize, SemiringSymbolic.one]

/-- Non-vacuity: the witness of the precedence defect, `normalize "0.2*0.9" "0.2*0.9"`, evaluates to 1. -/
example : eval (SymExpr.build (.normalize (.times (.atom "0.2" (1/5)) (.atom "0.9" (9/10)))
    (.times (.atom "0.2" (1/5)) (.atom "0.9" (9/10))))) = some 1 := by
  have h : SymExpr.WF (.normalize (.times (.atom "0.2" (1/5)) (.atom "0.9" (9/10)))
      (.times (.atom "0.2" (1/5)) (.atom "0.9" (9/10)))) := by
    simp only [SymExpr.WF, SymExpr.den]
    exact ⟨⟨isNumeral_02, isNumeral_09⟩, ⟨isNumeral_02, isNumeral_09⟩, by norm_num⟩
  rw [C12_sym_tree _ h]
  simp [SymExpr.den]

/-! ## Base class `Semiring`: documented defaults, for every semiring that inherits them -/

theorem C12_base_is_one {α : Type} [BEq α] [LawfulBEq α] (S : Abs α) : Semiring.is_one S S.one = true := by
  simp [Semiring.is_one]

theorem C12_base_is_zero {α : Type} [BEq α] [LawfulBEq α] (S : Abs α) : Semiring.is_zero S S.zero = true := by
  simp [Semiring.is_zero]

theorem C12_base_normalize_one {α : Type} [BEq α] [LawfulBEq α] (S : Abs α) (a : α) :
    Semiring.normalize S a S.one = .ok a := by
  simp [Semiring.normalize, Semiring.is_one]; rfl

theorem C12_base_true_false {α : Type} [BEq α] (S : Abs α) (k : Int) (p n : α) :
    Semiring.true_ S k = (S.one, S.zero) ∧ Semiring.false_ S k = (S.zero, S.one) ∧
    Semiring.to_evidence S p n 1 = (S.one, S.zero) ∧ Semiring.to_evidence S p n (-1) = (S.zero, S.one) ∧
    Semiring.ad_negate S p n = S.one ∧ Semiring.in_domain S p = true := by
  simp [Semiring.true_, Semiring.false_, Semiring.to_evidence, Semiring.ad_negate, Semiring.in_domain]

/-! ## MPE semirings -/

theorem C12_mpe_plus_max (a b : Rat × PySet) :
    (SemiringMPEState.plus a b).1 = max a.1 b.1 ∧ (SemiringMPEState.plus a b = a ∨ SemiringMPEState.plus a b = b) := by
  rcases a with ⟨a1, a2⟩
  rcases b with ⟨b1, b2⟩
  unfold SemiringMPEState.plus
  by_cases h1 : a1 > b1
  · simp [h1, max_eq_left (le_of_lt h1)]
  · by_cases h2 : a1 < b1
    · simp [h1, h2, max_eq_right (le_of_lt h2)]
    · have : a1 = b1 := le_antisymm (not_lt.mp h1) (not_lt.mp h2)
      subst this; simp

theorem C12_minpe_plus_min (a b : Rat × PySet) (ha : a.1 ≠ 0) (hb : b.1 ≠ 0) :
    (SemiringMinPEState.plus a b).1 = min a.1 b.1 ∧
    (SemiringMinPEState.plus a b = a ∨ SemiringMinPEState.plus a b = b) := by
  rcases a with ⟨a1, a2⟩
  rcases b with ⟨b1, b2⟩
  simp only at ha hb
  unfold SemiringMinPEState.plus
  by_cases h1 : a1 > b1
  · simp [ha, hb, h1, min_eq_right (le_of_lt h1)]
  · by_cases h2 : a1 < b1
    · simp [ha, hb, h1, h2, min_eq_left (le_of_lt h2)]
    · have : a1 = b1 := le_antisymm (not_lt.mp h1) (not_lt.mp h2)
      subst this; simp [ha]

theorem C12_mpe_defaults (a : Rat × PySet) :
    SemiringMPEState.is_one SemiringMPEState.one = true ∧ SemiringMPEState.is_zero SemiringMPEState.zero = true ∧
    SemiringMPEState.normalize a SemiringMPEState.one = .ok a ∧
    SemiringMinPEState.is_one SemiringMinPEState.one = true ∧ SemiringMinPEState.is_zero SemiringMinPEState.zero = true ∧
    SemiringMinPEState.normalize a SemiringMinPEState.one = .ok a := by
  refine ⟨by simp [SemiringMPEState.is_one], by simp [SemiringMPEState.is_zero], ?_,
    by simp [SemiringMinPEState.is_one], by simp [SemiringMinPEState.is_zero], ?_⟩
  · simp [SemiringMPEState.normalize, SemiringMPEState.is_one]; rfl
  · simp [SemiringMinPEState.normalize, SemiringMinPEState.is_one]; rfl

end ProbLogProofs.C12
