import ProbLogModel.Generated.Semirings
namespace ProbLogProofs.C12
end ProbLogProofs.C12
