import ProbLogModel.Sem
/-!
# C08 — property theorems only (specification-level statements; see harness/props/c08.py for the tie to the code)
-/
namespace ProbLogProofs.C08
open ProbLogModel.Sem

/-- The specification's result for the empty choice space: a single world of weight 1 (first obligation). -/
theorem C08_spec_base : (worlds []).map (·.weight) = [1] := rfl

end ProbLogProofs.C08
