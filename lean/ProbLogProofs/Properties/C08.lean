import ProbLogModel.Sem
import ProbLogProofs.Lemmas.SemRules
import ProbLogProofs.Lemmas.SemRun
import ProbLogProofs.Lemmas.SemIrrelevant
/-!
# C08 — a query's answer does not depend on what else is asked (specification level)
-/
namespace ProbLogProofs.C08
open ProbLogModel.Sem ProbLogProofs.SemRules ProbLogProofs.SemRun

/-- `run` is a plain sum over total choices: `z`, every numerator and the counters are explicit sums over
    `worlds (restrict P roots).groups` (definitions `zOf`, `numOf`, `undefOf` in `Lemmas/SemRun.lean`); in
    particular the numerator list is computed pointwise from the query list. -/
theorem C08_run_eq_sums (P : Prog) (queries : List Nat) (evidence : List (Nat × Bool)) :
    run P queries evidence =
      ⟨zOf P (queries ++ evidence.map (·.1)) evidence,
       queries.map (numOf P (queries ++ evidence.map (·.1)) evidence),
       undefOf P (queries ++ evidence.map (·.1)),
       (worlds (restrict P (queries ++ evidence.map (·.1))).groups).length⟩ :=
  run_eq_sums P queries evidence

/-- Given the same *set* of roots (queries ∪ evidence atoms), the evidence probability and the counters are the same
    and the numerator reported for a query only depends on that query — not on its position, on the order of the
    query list, or on duplicates. -/
theorem C08_queries_pointwise (P : Prog) (qs qs' : List Nat) (evidence : List (Nat × Bool))
    (hroots : ∀ a, a ∈ qs ++ evidence.map (·.1) ↔ a ∈ qs' ++ evidence.map (·.1)) :
    (run P qs evidence).z = (run P qs' evidence).z ∧
    (run P qs evidence).undefWorlds = (run P qs' evidence).undefWorlds ∧
    (run P qs evidence).nworlds = (run P qs' evidence).nworlds ∧
    ∀ (i j : Nat) (hi : i < qs.length) (hj : j < qs'.length), qs[i] = qs'[j] →
      (run P qs evidence).num[i]? = (run P qs' evidence).num[j]? := by
  obtain ⟨h1, h2, h3, h4⟩ := roots_congr P hroots evidence
  rw [run_eq_sums, run_eq_sums]
  refine ⟨h1, h3, by simp only [h4], ?_⟩
  intro i j hi hj hq
  simp only [List.getElem?_map, List.getElem?_eq_getElem hi, List.getElem?_eq_getElem hj, Option.map_some, hq, h2]

/-- **Adding queries does not change the old answers.** If `qs2` contains every query of `qs` (any order, any
    additional queries) and no total choice of non-zero weight of the larger problem has an undefined relevant atom,
    then the evidence probability is the same and every old query gets the same numerator: the choices that are
    relevant only for the additional queries marginalise out. No assumption on the probabilities (they need not be
    in `[0,1]`), on well-formedness, or on the program being stratified beyond `undefWorlds = 0`.
    (Without that hypothesis the statement is false by design of `run`: worlds in which an atom relevant only to
    an *added* query is undefined are dropped from `z`.) -/
theorem C08_restrict_irrelevant (P : Prog) (qs qs2 : List Nat) (evidence : List (Nat × Bool))
    (hsub : ∀ q ∈ qs, q ∈ qs2) (H : (run P qs2 evidence).undefWorlds = 0) :
    (run P qs2 evidence).z = (run P qs evidence).z ∧
    (∀ (i j : Nat) (hi : i < qs.length) (hj : j < qs2.length), qs[i] = qs2[j] →
      (run P qs2 evidence).num[j]? = (run P qs evidence).num[i]?) ∧
    (run P qs evidence).undefWorlds = 0 := by
  have hs : ∀ a ∈ qs ++ evidence.map (·.1), a ∈ qs2 ++ evidence.map (·.1) := by
    intro a ha
    rcases List.mem_append.1 ha with h | h
    · exact List.mem_append_left _ (hsub a h)
    · exact List.mem_append_right _ h
  have hev : ∀ e ∈ evidence, e.1 ∈ qs ++ evidence.map (·.1) :=
    fun e he => List.mem_append_right _ (List.mem_map.2 ⟨e, he, rfl⟩)
  rw [run_eq_sums] at H
  obtain ⟨hz, hn⟩ := SemIrrelevant.irrelevant P hs evidence hev H
  have hu := SemIrrelevant.undefOf_small P hs H
  rw [run_eq_sums, run_eq_sums]
  refine ⟨hz, ?_, hu⟩
  intro i j hi hj hq
  simp only [List.getElem?_map, List.getElem?_eq_getElem hi, List.getElem?_eq_getElem hj, Option.map_some]
  rw [← hq, hn qs[i] (List.mem_append_left _ (List.getElem_mem hi))]

/-- **A query's answer is the answer it gets when asked alone** (same evidence): corollary with `qs = [q]`. -/
theorem C08_query_independent (P : Prog) (qs : List Nat) (evidence : List (Nat × Bool))
    (H : (run P qs evidence).undefWorlds = 0) (j : Nat) (hj : j < qs.length) :
    (run P qs evidence).z = (run P [qs[j]] evidence).z ∧
    (run P qs evidence).num[j]? = (run P [qs[j]] evidence).num[0]? := by
  obtain ⟨hz, hn, _⟩ := C08_restrict_irrelevant P [qs[j]] qs evidence
    (by intro q hq; rw [List.mem_singleton.1 hq]; exact List.getElem_mem hj) H
  exact ⟨hz, hn 0 j (by simp) hj rfl⟩

/-- The hypothesis `undefWorlds = 0` of `C08_restrict_irrelevant` cannot be dropped: with `a0. a1 :- \\+a1.` the
    query `a0` alone has `z = 1`, numerator 1; asked together with `a1` the only world is discarded (`a1` undefined). -/
theorem C08_restrict_irrelevant_needs_two_valued :
    let P : Prog := ⟨2, 0, [⟨0, [], [], none⟩, ⟨1, [], [1], none⟩], []⟩
    (run P [0] []).z = 1 ∧ (run P [0] []).num = [1] ∧
    (run P [0, 1] []).z = 0 ∧ (run P [0, 1] []).num = [0, 0] ∧ (run P [0, 1] []).undefWorlds = 1 := by
  decide +kernel

-- non-vacuity: `0.3::c0. 0.6::c1. a0 :- c0. a1 :- a0, \+a2. a2 :- c1. a1 :- a2, a0.`, evidence a0
def exProg : Prog :=
  ⟨3, 2, [⟨0, [], [], some 0⟩, ⟨1, [0], [2], none⟩, ⟨2, [], [], some 1⟩, ⟨1, [2, 0], [], none⟩],
    [⟨[(3/10, 0)]⟩, ⟨[(3/5, 1)]⟩]⟩
example : ∀ a, a ∈ [1, 2] ++ [((0 : Nat), true)].map (·.1) ↔ a ∈ [2, 2, 1] ++ [((0 : Nat), true)].map (·.1) := by
  simp; omega
example : (run exProg [1, 2] [(0, true)]).num = [3/10, 9/50] ∧
    (run exProg [2, 2, 1] [(0, true)]).num = [9/50, 9/50, 3/10] := by decide +kernel

example : (run exProg [1, 2] [(0, true)]).undefWorlds = 0 ∧ (run exProg [1, 2] [(0, true)]).nworlds = 4 ∧
    (run exProg [] [(0, true)]).nworlds = 2 ∧ (run exProg [] [(0, true)]).z = 3/10 ∧
    (run exProg [1, 2] [(0, true)]).z = 3/10 := by decide +kernel

end ProbLogProofs.C08
