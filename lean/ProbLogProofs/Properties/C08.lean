import ProbLogModel.Sem
import ProbLogProofs.Lemmas.SemRules
import ProbLogProofs.Lemmas.SemRun
/-!
# C08 — a query's answer does not depend on what else is asked (specification level)
-/
namespace ProbLogProofs.C08
open ProbLogModel.Sem ProbLogProofs.SemRules ProbLogProofs.SemRun

/-- `run` is a plain sum over total choices: `z`, every numerator and the counters are explicit sums over
    `worlds (restrict P roots).groups` (definitions `zOf`, `numOf`, `undefOf` in `Lemmas/SemRun.lean`); in
    particular the numerator list is computed pointwise from the query list. -/
theorem C08_run_eq_sums (P : Prog) (queries : List Nat) (evidence : List (Nat × Bool)) :
    run P queries evidence =
      ⟨zOf P (queries ++ evidence.map (·.1)) evidence,
       queries.map (numOf P (queries ++ evidence.map (·.1)) evidence),
       undefOf P (queries ++ evidence.map (·.1)),
       (worlds (restrict P (queries ++ evidence.map (·.1))).groups).length⟩ :=
  run_eq_sums P queries evidence

/-- Given the same *set* of roots (queries ∪ evidence atoms), the evidence probability and the counters are the same
    and the numerator reported for a query only depends on that query — not on its position, on the order of the
    query list, or on duplicates. -/
theorem C08_queries_pointwise (P : Prog) (qs qs' : List Nat) (evidence : List (Nat × Bool))
    (hroots : ∀ a, a ∈ qs ++ evidence.map (·.1) ↔ a ∈ qs' ++ evidence.map (·.1)) :
    (run P qs evidence).z = (run P qs' evidence).z ∧
    (run P qs evidence).undefWorlds = (run P qs' evidence).undefWorlds ∧
    (run P qs evidence).nworlds = (run P qs' evidence).nworlds ∧
    ∀ (i j : Nat) (hi : i < qs.length) (hj : j < qs'.length), qs[i] = qs'[j] →
      (run P qs evidence).num[i]? = (run P qs' evidence).num[j]? := by
  obtain ⟨h1, h2, h3, h4⟩ := roots_congr P hroots evidence
  rw [run_eq_sums, run_eq_sums]
  refine ⟨h1, h3, by simp only [h4], ?_⟩
  intro i j hi hj hq
  simp only [List.getElem?_map, List.getElem?_eq_getElem hi, List.getElem?_eq_getElem hj, Option.map_some, hq, h2]

-- non-vacuity: `0.3::c0. 0.6::c1. a0 :- c0. a1 :- a0, \+a2. a2 :- c1. a1 :- a2, a0.`, evidence a0
def exProg : Prog :=
  ⟨3, 2, [⟨0, [], [], some 0⟩, ⟨1, [0], [2], none⟩, ⟨2, [], [], some 1⟩, ⟨1, [2, 0], [], none⟩],
    [⟨[(3/10, 0)]⟩, ⟨[(3/5, 1)]⟩]⟩
example : ∀ a, a ∈ [1, 2] ++ [((0 : Nat), true)].map (·.1) ↔ a ∈ [2, 2, 1] ++ [((0 : Nat), true)].map (·.1) := by
  simp; omega
example : (run exProg [1, 2] [(0, true)]).num = [3/10, 9/50] ∧
    (run exProg [2, 2, 1] [(0, true)]).num = [9/50, 9/50, 3/10] := by decide +kernel

end ProbLogProofs.C08
