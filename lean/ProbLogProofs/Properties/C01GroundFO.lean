import ProbLogModel.GroundFO
import ProbLogProofs.Lemmas.GroundFOInv
/-!
# C01 / C03 / C08 on function-free programs WITH VARIABLES (no recursion) — the tabled grounder (property theorems only)

Model: `ProbLogModel/GroundFO.lean` (goals with variables, `DefineCache` with its ground and non-ground parts,
unification of call and head, bindings flowing through conjunctions in continuation-passing style, one name per query
instance), tied to the engine by exact equality of ground program and tables on generated programs
(`harness/groundfo_util.py`).

PROVED here (`_partial`): the structural half of the table invariant, for EVERY program (no acyclicity or range
restriction hypothesis), every schedule, every fuel, every history: whenever the model returns, the ground program is
well formed and acyclic (so every world has exactly one consistent valuation, `C11_acyclic_exists_unique`), it has only
grown, and every key in the ground table, in the non-ground table and in the reported results refers to an existing
node.

NOT proved (kept as the target; the ground case is `C01Ground.lean`): with `inst P` the Herbrand instantiation of `P`
over its constants (an instance of `GroundAcyclic.Prog`, so that `Sem.wfm (toSem (inst P))` is the specification) and
`truth chosen (p, args)` its well-founded model,
```
theorem C01_groundFO_correct (hw : WfFO P natoms rk) (hfuel : ∀ c ∈ calls, rk c.pred < fuel) :
  ∃ rss st', groundAll P sched fuel calls {} = .ok (rss, st') ∧ ∀ chosen ρ, Consistent st'.store ρ → Agree chosen st'.store ρ →
    ∀ i, -- the i-th call `c` with results `rs`:
      (∀ (args, k) ∈ rs, fits c.args args ∧ keyVal ρ k = truth chosen (c.pred, args)) ∧           -- reported instances
      (∀ args, fits c.args args → args ∉ rs.map Prod.fst → truth chosen (c.pred, args) = false)  -- not reported => false
theorem C03_groundFO_schedule_independent / C08_groundFO_history_independent / GroundFO_table_inv  -- as in C01Ground
```
What is missing is the semantic layer over the continuation-passing functions (a consumer contract
`den' θ ↔ den θ ∨ (θ extends ctx ∧ value of k)`), and the most-general-unifier properties of `unifyHead`, `canon`,
`bindAnswer`.
-/
namespace ProbLogProofs.C01GroundFO
open ProbLogModel ProbLogModel.Formula ProbLogModel.GroundFO ProbLogProofs.GroundInv ProbLogProofs.GroundFOInv

/-- the empty target (options without `keep_all`), empty tables -/
theorem ti_init (o : Opts) (ho : o.keepAll = false) : TI { store := { opts := o } } :=
  ⟨⟨⟨fun _ _ h => (by cases h), fun _ _ h => (by cases h), fun _ _ h => (by cases h)⟩,
    fun _ _ h => (by cases h), ho⟩, fun _ h => (by cases h), fun _ h => (by cases h)⟩

/-- **Structural table invariant (partial (d)).**  Any program, schedule, fuel and history of `ground` calls, from any
    state with the invariant: if the run returns, the store satisfies the builder invariants and is acyclic, it only
    grew (`Grows`, C11), there is one result list per call, and every key in both tables and in every reported result
    is the key of an existing node (or a constant). -/
theorem GroundFO_table_inv_partial (P : Prog) (sched : Sched) (fuel : Nat) (calls : List Call) (st : St)
    (rss : List Results) (st' : St) (h0 : TI st) (h : groundAll P sched fuel calls st = .ok (rss, st')) :
    WF st'.store ∧ Acyclic st'.store ∧ Grows st.store st'.store ∧ rss.length = calls.length ∧
    (∀ e ∈ st'.table.ground, keyBelow st'.store.nodes.length e.2) ∧
    (∀ e ∈ st'.table.ng, ∀ r ∈ e.2, keyBelow st'.store.nodes.length r.2) ∧
    (∀ rs ∈ rss, ∀ r ∈ rs, keyBelow st'.store.nodes.length r.2) := by
  obtain ⟨ht, hg, hl, hk⟩ := groundAll_ok P sched fuel calls st rss st' h0 h
  exact ⟨ht.s.wf, ht.s.acyc, hg, hl, ht.g, ht.n, hk⟩

/-- ... so that every world has a valuation of the final ground program (non-vacuity of any statement of the form
    "for every valuation consistent with the store"). -/
theorem GroundFO_valuation_exists_partial (P : Prog) (sched : Sched) (fuel : Nat) (calls : List Call) (o : Opts)
    (ho : o.keepAll = false) (rss : List Results) (st' : St)
    (h : groundAll P sched fuel calls { store := { opts := o } } = .ok (rss, st')) (chosen : Array Bool) :
    ∃ ρ, Consistent st'.store ρ ∧ Agree chosen st'.store ρ :=
  val_exists (groundAll_ok P sched fuel calls _ rss st' (ti_init o ho) h).1.s.acyc chosen

/-! ### non-vacuity: `0.3::f(a). 0.4::f(b). e(a,b). q(X) :- f(X), e(X,Y).  t(Y,a) :- f(Y).  u :- t(X,X).`
(constants a=0 b=1; predicates f=0 e=1 q=2 t=3 u=4) -/

def exF : Prog :=
  { nconsts := 2
    defs := [(0, [.fact [0] 0 (some (3/10)), .fact [1] 1 (some (2/5))]),
             (1, [.fact [0, 1] 2 none]),
             (2, [.rule [.var 0] 2 [.pos ⟨0, [.var 0]⟩, .pos ⟨1, [.var 0, .var 1]⟩] none]),
             (3, [.rule [.var 0, .const 0] 1 [.pos ⟨0, [.var 0]⟩] none]),
             (4, [.rule [] 1 [.pos ⟨3, [.var 0, .var 0]⟩] none])]
    nameBase := [(0, 0), (1, 2), (2, 6), (3, 8), (4, 12)] }

-- `query(q(_))`: one answer `q(a)` with the key of `f(a)` (`e(a,b)` is certain); `query(u)`: `t(X,X)` against the head
-- `t(Y,a)` calls `f(a)` - the key of `f(a)` again; the non-ground goals `q(_)`, `f(_)`, `e(a,_)`, `t(X,X)` are tabled
example : (match groundAll exF (fun _ => []) 5 [⟨2, [.v 0], .query, 99⟩, ⟨4, [], .query, 12⟩] {} with
    | .ok (rss, st) => (rss, st.store.nodes.length, st.table.ng.map (fun e => (e.1.pred, e.1.args)))
    | .error _ => ([], 0, [])) =
    ([[([0], some 1)], [([], some 1)]], 2, [(0, [.v 0]), (1, [.c 0, .v 0]), (2, [.v 0]), (3, [.v 0, .v 0])]) := by
  decide +kernel

end ProbLogProofs.C01GroundFO
