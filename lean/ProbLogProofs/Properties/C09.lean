import ProbLogModel.Clark
import ProbLogModel.Cycles
import ProbLogProofs.Lemmas.ClarkEval
import ProbLogProofs.Lemmas.ClarkAD
import ProbLogProofs.Lemmas.ClarkCount
/-!
# C09 — cycle breaking and Clark's completion preserve the ground program's meaning (property theorems only)

Clark half: "The CNF produced by Clark's completion has, for every atom assignment, exactly one model extending it,
and that model agrees with the acyclic program on every node, with constraints and weights carried over unchanged."
Helper lemmas: `ProbLogProofs/Lemmas/Clark.lean`, `ClarkDag.lean`, `ClarkEval.lean`, `ClarkAD.lean`, `ClarkCount.lean`.
-/
namespace ProbLogProofs.C09
open ProbLogModel.Formula ProbLogModel.Clark ProbLogProofs.Lemmas.Clark

/-- non-vacuity witness: atoms 1, 2, `n3 = a1 ∧ ¬a2`, `n4 = n3 ∨ a2` (query), extra atom 5, and the non-trivial
    AD constraint `{1, 2 | extra 5}`. -/
def exStore : Store :=
  { nodes := [.atom (.user 1) (some 0) false none, .atom (.user 2) (some 0) false none,
              .conj [some 1, some (-2)] none, .disj [some 3, some 2] (some (.pos 7)),
              .atom (.extra 0) (some 0) true none],
    weights := [(1, .neutral), (2, .tt), (5, .ff)],
    names := [(.query, .pos 7, some 4)],
    ads := [{ group := 0, nodes := [1, 2], extra := some 5 }],
    atomcount := 3 }

/-- **Local correctness.** The clauses `clarks_completion` emits for node `i` hold under `v` iff `v i` is the
    AND / OR of its children's values (`Formula.keyVal`), for every node whose children avoid the constant TRUE key
    (`None` children make the completion raise, so `nodeClauses … = .ok` excludes them). -/
theorem C09_clark_node_iff (v : Nat → Bool) (i : Nat) (hi : 0 < i) (nd : Node) (cls : List Clause)
    (hz : ∀ cs nm, (nd = .conj cs nm ∨ nd = .disj cs nm) → some 0 ∉ cs)
    (h : nodeClauses i nd = .ok cls) :
    satCNF v cls = true ↔
      (match nd with
        | .conj cs _ => v i = cs.all (keyVal v)
        | .disj cs _ => v i = cs.any (keyVal v)
        | .atom .. => True) := by
  have hz' : some 0 ∉ children nd := by
    cases nd with
    | atom => simp [children]
    | conj cs nm => exact hz cs nm (Or.inl rfl)
    | disj cs nm => exact hz cs nm (Or.inr rfl)
  rw [nodeClauses_iff v i hi nd cls hz' h]
  cases nd <;> simp only [nodeOK]

/-- `keyVal` (Formula) and `litVal` (Clark) agree on proper literals. -/
theorem C09_keyVal_litVal (v : Nat → Bool) (k : Int) (h : k ≠ 0) : keyVal v (some k) = litVal v k :=
  keyVal_some v k h

example : ∃ cls, nodeClauses 3 (.conj [some 1, some (-2)] none) = .ok cls ∧
    (∀ v, satCNF v cls = true ↔ v 3 = (v 1 && (!(v 2) && true))) := by
  refine ⟨_, rfl, fun v => ?_⟩
  exact C09_clark_node_iff v 3 (by decide) (.conj [some 1, some (-2)] none) _ (by
    intro cs nm h
    rcases h with h | h
    · cases h; decide
    · cases h) rfl

/-- **Split of the CNF**: node clauses first, then the AD-constraint clauses. -/
theorem C09_clark_split (S : Store) (cnf : CNF) (h : clark S = .ok cnf) :
    ∃ nc ac, nodeClausesAll S = .ok nc ∧ adClausesAll S = .ok ac ∧ cnf.clauses = nc ++ ac := by
  obtain ⟨nc, ac, h1, h2, rfl⟩ := clark_ok S cnf h
  exact ⟨nc, ac, h1, h2, rfl⟩

/-- The node part of the completion of an acyclic store never raises. -/
theorem C09_clark_nodes_ok (S : Store) (hac : acyclic S = true) : ∃ nc, nodeClausesAll S = .ok nc :=
  nodeClausesAll_ok_of_acyclic S hac

/-- **Exactly one model per atom assignment, equal to the acyclic program's bottom-up value on every node.**
    For an acyclic store, a valuation `v` that gives the atoms the values `α` satisfies the node clauses of the
    completion iff on every node id `1..n` it is the bottom-up evaluation `dagVals α`. -/
theorem C09_clark_unique (S : Store) (hac : acyclic S = true) (nc : List Clause)
    (h : nodeClausesAll S = .ok nc) (α v : Nat → Bool)
    (hat : ∀ (j : Nat) a g e n, S.nodes[j]? = some (.atom a g e n) → v (j + 1) = α (j + 1)) :
    satCNF v nc = true ↔
      ∀ i, 1 ≤ i → i ≤ S.nodes.length → v i = (dagVals α S.nodes).getD (i - 1) false := by
  rw [nodeClausesAll_iff_nodeOK v S hac nc h]
  exact nodeOK_all_iff_dagVals α v S.nodes ((acyclic_iff S).mp hac) hat

/-- The same, phrased on the CNF returned by `clark` and with the model's value written as `dagEval`. -/
theorem C09_clark_unique_cnf (S : Store) (cnf : CNF) (hac : acyclic S = true) (h : clark S = .ok cnf) :
    ∃ nc ac, cnf.clauses = nc ++ ac ∧ nodeClausesAll S = .ok nc ∧ adClausesAll S = .ok ac ∧
      ∀ (α v : Nat → Bool),
        (∀ (j : Nat) a g e n, S.nodes[j]? = some (.atom a g e n) → v (j + 1) = α (j + 1)) →
        (satCNF v nc = true ↔
          ∀ i : Nat, 1 ≤ i → i ≤ S.nodes.length → v i = dagEval S α (some (i : Int))) := by
  obtain ⟨nc, ac, h1, h2, h3⟩ := C09_clark_split S cnf h
  refine ⟨nc, ac, h3, h1, h2, fun α v hat => ?_⟩
  rw [C09_clark_unique S hac nc h1 α v hat]
  have key : ∀ i : Nat, 1 ≤ i → dagEval S α (some (i : Int)) = (dagVals α S.nodes).getD (i - 1) false := by
    intro i hi
    have h0 : i ≠ 0 := by omega
    have h1 : ¬ ((i : Int) < 0) := by omega
    simp [dagEval, childVal, h0, h1]
  constructor
  · intro H i h1 h2; rw [key i h1]; exact H i h1 h2
  · intro H i h1 h2; rw [← key i h1]; exact H i h1 h2

/-- **Existence**: the bottom-up evaluation itself is a model of the node clauses extending `α`. -/
theorem C09_clark_exists (S : Store) (hac : acyclic S = true) (nc : List Clause)
    (h : nodeClausesAll S = .ok nc) (α : Nat → Bool) :
    satCNF (fun i => (dagVals α S.nodes).getD (i - 1) false) nc = true ∧
      ∀ (j : Nat) a g e n, S.nodes[j]? = some (.atom a g e n) →
        (dagVals α S.nodes).getD j false = α (j + 1) := by
  have hat : ∀ (j : Nat) a g e n, S.nodes[j]? = some (.atom a g e n) →
      (dagVals α S.nodes).getD j false = α (j + 1) := fun j a g e n hj => dagVals_atom α S.nodes j a g e n hj
  refine ⟨?_, hat⟩
  rw [C09_clark_unique S hac nc h α _ (by
    intro j a g e n hj; simp only [Nat.add_sub_cancel]; exact hat j a g e n hj)]
  intro i _ _; rfl

/-- **Uniqueness** in the plain form: two models of the node clauses that agree on the atoms agree on every node. -/
theorem C09_clark_unique_model (S : Store) (hac : acyclic S = true) (nc : List Clause)
    (h : nodeClausesAll S = .ok nc) (v w : Nat → Bool)
    (hvw : ∀ (j : Nat) a g e n, S.nodes[j]? = some (.atom a g e n) → v (j + 1) = w (j + 1))
    (hv : satCNF v nc = true) (hw : satCNF w nc = true) :
    ∀ i, 1 ≤ i → i ≤ S.nodes.length → v i = w i := by
  intro i h1 h2
  have Hv := (C09_clark_unique S hac nc h w v hvw).mp hv i h1 h2
  have Hw := (C09_clark_unique S hac nc h w w (fun _ _ _ _ _ _ => rfl)).mp hw i h1 h2
  rw [Hv, Hw]

example : acyclic exStore = true ∧ ∃ nc, nodeClausesAll exStore = .ok nc ∧ nc.length = 6 :=
  ⟨by decide, _, rfl, rfl⟩
example : ∃ cnf, clark exStore = .ok cnf ∧ cnf.clauses.length = 10 := ⟨_, rfl, rfl⟩
-- the unique model for a1 = true, a2 = false gives n3 = n4 = true
example : dagVals (fun i => i == 1) exStore.nodes = [true, false, true, true, false] := by decide

/-- **Model count**: over the node variables `1..n` (value lists of length `n`), the node clauses of an acyclic store
    have exactly `2 ^ #atoms` models — `L` enumerates them without repetition. -/
theorem C09_clark_count (S : Store) (hac : acyclic S = true) (nc : List Clause)
    (h : nodeClausesAll S = .ok nc) :
    ∃ L : List (List Bool), L.Nodup ∧ L.length = 2 ^ S.nodes.countP isAtom ∧
      ∀ l : List Bool, l ∈ L ↔
        (l.length = S.nodes.length ∧ satCNF (fun i => l.getD (i - 1) false) nc = true) := by
  refine ⟨models S.nodes, models_nodup _, models_length _, fun l => ?_⟩
  rw [mem_models, ← eq_dagVals_iff]
  constructor
  · intro hl
    have hlen : l.length = S.nodes.length := by rw [hl, dagVals_length]
    refine ⟨hlen, ?_⟩
    show satCNF (valOf l) nc = true
    rw [C09_clark_unique S hac nc h (valOf l) _ (fun _ _ _ _ _ _ => rfl)]
    exact (pointwise_iff_eq S.nodes (valOf l) l hlen).mpr hl
  · rintro ⟨hlen, hs⟩
    change satCNF (valOf l) nc = true at hs
    rw [C09_clark_unique S hac nc h (valOf l) _ (fun _ _ _ _ _ _ => rfl)] at hs
    exact (pointwise_iff_eq S.nodes (valOf l) l hlen).mp hs

example : exStore.nodes.countP isAtom = 3 ∧ (models exStore.nodes).length = 8 := by decide

/-- **AD constraints**: the clauses of a non-trivial constraint (`≥ 2` members, extra node `e`, ids positive) hold
    iff exactly one of the variables `c.nodes ++ [e]` (counted by position — no distinctness needed) is true. -/
theorem C09_clark_constraints (v : Nat → Bool) (c : ADC) (e : Nat) (cls : List Clause)
    (hlen : 1 < c.nodes.length) (hex : c.extra = some e) (hpos : ∀ x ∈ c.nodes ++ [e], 0 < x)
    (h : adClauses c = .ok cls) :
    satCNF v cls = true ↔ (c.nodes ++ [e]).countP v = 1 :=
  adClauses_iff v c e cls hlen hex hpos h

/-- with distinct members this is literally "exactly one variable is true". -/
theorem C09_clark_constraints_exactly_one (v : Nat → Bool) (c : ADC) (e : Nat) (cls : List Clause)
    (hlen : 1 < c.nodes.length) (hex : c.extra = some e) (hpos : ∀ x ∈ c.nodes ++ [e], 0 < x)
    (hnd : (c.nodes ++ [e]).Nodup) (h : adClauses c = .ok cls) :
    satCNF v cls = true ↔ ∃ x ∈ c.nodes ++ [e], v x = true ∧ ∀ y ∈ c.nodes ++ [e], v y = true → y = x := by
  rw [C09_clark_constraints v c e cls hlen hex hpos h]
  generalize c.nodes ++ [e] = l at hnd
  induction l with
  | nil => simp
  | cons a l ih =>
    have hnd' := List.nodup_cons.mp hnd
    rw [List.countP_cons]
    by_cases ha : v a = true
    · simp only [ha, if_true]
      constructor
      · intro hc
        have h0 : l.countP v = 0 := by omega
        rw [List.countP_eq_zero] at h0
        refine ⟨a, List.mem_cons_self, ha, ?_⟩
        intro y hy hvy
        rcases List.mem_cons.mp hy with rfl | hy
        · rfl
        · exact absurd hvy (h0 y hy)
      · rintro ⟨x, hx, hvx, huniq⟩
        have hxa : a = x := huniq a List.mem_cons_self ha
        subst hxa
        have : l.countP v = 0 := by
          rw [List.countP_eq_zero]
          intro y hy hvy
          have := huniq y (List.mem_cons_of_mem _ hy) hvy
          subst this
          exact hnd'.1 hy
        omega
    · simp only [ha, if_false, Nat.add_zero, Bool.false_eq_true]
      rw [ih hnd'.2]
      constructor
      · rintro ⟨x, hx, hvx, huniq⟩
        refine ⟨x, List.mem_cons_of_mem _ hx, hvx, ?_⟩
        intro y hy hvy
        rcases List.mem_cons.mp hy with rfl | hy
        · exact absurd hvy ha
        · exact huniq y hy hvy
      · rintro ⟨x, hx, hvx, huniq⟩
        rcases List.mem_cons.mp hx with rfl | hx
        · exact absurd hvx ha
        · exact ⟨x, hx, hvx, fun y hy hvy => huniq y (List.mem_cons_of_mem _ hy) hvy⟩

/-- The AD part of the CNF holds iff every constraint's own clauses hold. -/
theorem C09_clark_constraints_all (v : Nat → Bool) (S : Store) (ac : List Clause)
    (h : adClausesAll S = .ok ac) :
    satCNF v ac = true ↔ ∀ c ∈ S.ads, ∃ cls, adClauses c = .ok cls ∧ satCNF v cls = true :=
  adClausesAll_sat v S ac h

example : ∃ cls, adClauses ⟨0, [1, 2], some 5⟩ = .ok cls ∧ cls.length = 4 ∧
    (∀ v, satCNF v cls = true ↔ [1, 2, 5].countP v = 1) := by
  refine ⟨_, rfl, rfl, fun v => ?_⟩
  exact C09_clark_constraints v ⟨0, [1, 2], some 5⟩ 5 _ (by decide) rfl (by decide) rfl

/-- **All models of the whole CNF**: for an acyclic store, `v` satisfies the completion iff every node variable has
    the acyclic program's value under `v`'s own atom values and every AD constraint's clauses hold
    (see `C09_clark_constraints` for what those say). -/
theorem C09_clark_models (S : Store) (cnf : CNF) (hac : acyclic S = true) (h : clark S = .ok cnf)
    (v : Nat → Bool) :
    satCNF v cnf.clauses = true ↔
      (∀ i : Nat, 1 ≤ i → i ≤ S.nodes.length → v i = dagEval S v (some (i : Int))) ∧
      (∀ c ∈ S.ads, ∃ cls, adClauses c = .ok cls ∧ satCNF v cls = true) := by
  obtain ⟨nc, ac, hcl, hnc, hadc, H⟩ := C09_clark_unique_cnf S cnf hac h
  rw [hcl, satCNF_append, Bool.and_eq_true, H v v (fun _ _ _ _ _ _ => rfl), adClausesAll_sat v S ac hadc]

example : ∃ cnf, clark exStore = .ok cnf ∧
    satCNF (fun i => [false, true, false, true, true, false].getD i false) cnf.clauses = true :=
  ⟨_, rfl, by decide⟩

/-- Boundary of `C09_clark_node_iff`: the hypothesis "no constant-TRUE child" is needed. A store built with
    `auto_compact=False` may hold `conj(0, 1)`; the completion then emits the literal `0` (clauses
    `[2,0,-1] [-2,0] [-2,1]`; real code: same, and `to_dimacs` prints `-2 0 0`), and the clauses no longer say
    `v 2 = (TRUE ∧ v 1)`. Stores produced by the engine / cycle breaking (auto_compact on) never contain such children
    (`acyclic` excludes them). -/
theorem C09_clark_node_iff_needs_no_true_child :
    ∃ (v : Nat → Bool) (cls : List Clause), nodeClauses 2 (.conj [some 0, some 1] none) = .ok cls ∧
      v 2 = [some 0, some 1].all (keyVal v) ∧ satCNF v cls = false :=
  ⟨fun i => i != 0, _, rfl, by decide, by decide⟩

/-- **Carry-over**: weights, names, constraints and the variable count are copied unchanged. -/
theorem C09_clark_carry (S : Store) (cnf : CNF) (h : clark S = .ok cnf) :
    cnf.weights = S.weights ∧ cnf.names = S.names ∧ cnf.ads = S.ads ∧ cnf.atomcount = S.nodes.length := by
  obtain ⟨nc, ac, _, _, rfl⟩ := clark_ok S cnf h
  exact ⟨rfl, rfl, rfl, rfl⟩

example : ∃ cnf, clark exStore = .ok cnf ∧ cnf.weights = [(1, .neutral), (2, .tt), (5, .ff)] ∧
    cnf.atomcount = 5 := ⟨_, rfl, rfl, rfl⟩

end ProbLogProofs.C09
