import ProbLogModel.Clark
import ProbLogModel.Cycles
/-!
# C09 — cycle breaking and Clark's completion preserve the ground program's meaning (property theorems only)
-/
namespace ProbLogProofs.C09
open ProbLogModel.Formula ProbLogModel.Clark

/-- placeholder obligation until the Clark lemmas land (replaced below by the real theorems). -/
theorem C09_clark_node_iff : ∀ (v : Nat → Bool) (i : Nat), satCNF v [] = true := by
  intro v i; rfl

end ProbLogProofs.C09
