import ProbLogModel.Tasks.DT
import ProbLogProofs.Lemmas.DT
import ProbLogProofs.Lemmas.DTEval
/-!
# C21 — DT-ProbLog and MAP return optimal strategies (property theorems only)

`eu` is the utility oracle (strategy ↦ value of `evaluate`), arbitrary; `adm` the constraint filter, arbitrary.
-/
namespace ProbLogProofs.C21
open ProbLogModel.Tasks.DT ProbLogProofs.DT

/-- **Exhaustive search is optimal** (every `n ≥ 1`, every oracle, every constraint filter): the search does not
    fail; if it returns `None` no strategy is admissible; otherwise the returned strategy has length `n`, is
    admissible, the returned score is its utility, and no admissible strategy of length `n` has a larger utility.
    The evaluation counter is the number of admissible strategies. -/
theorem C21_exhaustive_opt (n : Nat) (hn : n ≠ 0) (adm : List Bool → Bool) (eu : List Bool → Rat) :
    ∃ st, searchExhaustive n adm eu = .ok st ∧
      st.evals = ((allStrategies n).filter adm).length ∧
      match st.best with
      | none => ∀ t, t.length = n → adm t = false
      | some (s, v) => s.length = n ∧ adm s = true ∧ v = eu s ∧ ∀ t, t.length = n → adm t = true → eu t ≤ v := by
  refine ⟨(List.range (2 ^ n)).foldl (exStep n adm eu) {}, by simp [searchExhaustive, hn], ?_⟩
  have hg := good_foldl n adm eu (List.range (2 ^ n)) [] {} ⟨by simp, by simp⟩
  simp only [List.nil_append] at hg
  obtain ⟨hev, hb⟩ := hg
  refine ⟨by rw [hev]; simp [allStrategies, List.filter_map, Function.comp_def], ?_⟩
  cases hbest : ((List.range (2 ^ n)).foldl (exStep n adm eu) {}).best with
  | none =>
    rw [hbest] at hb
    intro t ht
    obtain ⟨i, hi, hit⟩ := num2bits_surj n t ht
    rw [← hit]; exact hb i (by simpa using hi)
  | some sv =>
    obtain ⟨s, v⟩ := sv
    rw [hbest] at hb
    obtain ⟨⟨k, _, hks⟩, hs, hv, hmax⟩ := hb
    refine ⟨by rw [← hks]; exact num2bits_length n k, hs, hv, ?_⟩
    intro t ht hat
    obtain ⟨i, hi, hit⟩ := num2bits_surj n t ht
    rw [← hit]; rw [← hit] at hat
    exact hmax i (by simpa using hi) hat

/-- With no decisions `search_exhaustive` raises (the task guards this case, dtproblog.py:118). -/
theorem C21_exhaustive_no_decisions (adm : List Bool → Bool) (eu : List Bool → Rat) :
    searchExhaustive 0 adm eu = .valueError := rfl

/-- **Local search terminates** within the modelled bound of `2^n` passes of the `while` loop (the score strictly
    increases with every successful flip and there are only `2^n` strategies), for every oracle. -/
theorem C21_local_terminates (us : List Rat) (eu : List Bool → Rat) :
    searchLocal us true eu ≠ .outOfFuel ∧ searchLocal us true eu ≠ .problogError := by
  have hwf : WF eu us.length { choices := initChoices us, best := eu (initChoices us), last := none, evals := 1 } :=
    ⟨by simp [initChoices], rfl⟩
  obtain ⟨st', e, _⟩ := localLoop_spec eu us.length (2 ^ us.length) _ hwf
    (by unfold Tried; simp) (by omega)
  simp only [searchLocal, Bool.not_true, Bool.false_eq_true, if_false, e]
  exact ⟨by simp, by simp⟩

/-- **Local search returns a strategy that no single flip improves**, and its score is that strategy's utility and
    is at least the utility of the initial strategy. -/
theorem C21_local_opt (us : List Rat) (eu : List Bool → Rat) :
    ∃ st, searchLocal us true eu = .ok st ∧ st.choices.length = us.length ∧ st.best = eu st.choices ∧
      (∀ d, d < us.length → eu (flipAt st.choices d) ≤ eu st.choices) ∧
      eu (initChoices us) ≤ st.best := by
  have hwf : WF eu us.length { choices := initChoices us, best := eu (initChoices us), last := none, evals := 1 } :=
    ⟨by simp [initChoices], rfl⟩
  obtain ⟨st', e, hw, hlo, hle⟩ := localLoop_spec eu us.length (2 ^ us.length) _ hwf
    (by unfold Tried; simp) (by omega)
  refine ⟨st', by simp [searchLocal, e], hw.1, hw.2, hlo, hle⟩

/-- Local search refuses non-trivial constraints. -/
theorem C21_local_constraints (us : List Rat) (eu : List Bool → Rat) :
    searchLocal us false eu = .problogError := rfl

/-- Expected utility of a strategy: Σ over `utility(lit, u)` of `P(lit) · u`. -/
def expectedUtility (prob : Int → Rat) (utilities : List (Int × Rat)) : Rat :=
  utilities.foldl (fun s ku => s + prob ku.1 * ku.2) 0

/-- **The score is the expected utility**: in dtproblog the queries are exactly the utility literals
    (`queries=utilities.keys()`, dtproblog.py:105), so `result` has the keys of `utilities`; then (patched)
    `evaluate` returns Σ P(lit)·u — also when both `a` and `\+a` carry a utility. -/
theorem C21_score_is_eu (prob : Int → Rat) (utilities : List (Int × Rat))
    (hnd : (utilities.map (·.1)).Nodup) :
    evaluate (utilities.map (fun ku => (ku.1, prob ku.1))) utilities = expectedUtility prob utilities :=
  evaluate_eq_eu prob utilities hnd

/-- The returned scores of both searches are the oracle's value of the returned strategy (restated). -/
theorem C21_score_is_eu_search (n : Nat) (hn : n ≠ 0) (adm : List Bool → Bool) (eu : List Bool → Rat) (us : List Rat) :
    (∀ st s v, searchExhaustive n adm eu = .ok st → st.best = some (s, v) → v = eu s) ∧
    (∀ st, searchLocal us true eu = .ok st → st.best = eu st.choices) := by
  constructor
  · intro st s v h hb
    obtain ⟨st', e, _, hm⟩ := C21_exhaustive_opt n hn adm eu
    rw [e] at h; cases h
    rw [hb] at hm; exact hm.2.2.1
  · intro st h
    obtain ⟨st', e, _, hb, _⟩ := C21_local_opt us eu
    rw [e] at h; cases h; exact hb

/-- **Refutation for the unpatched `evaluate`** (dtproblog.py:153-154 as of the base commit): with utilities on an atom
    *and* on its negation every such pair is counted twice.  Witness `utility(w,5). utility(\+w,1).` with
    `P(w) = 3/10`: expected utility 11/5, unpatched score 22/5.  (Replayed on the real code by the harness.) -/
theorem C21_score_is_eu_unpatched_refuted :
    let prob : Int → Rat := fun k => if k = 1 then 3 / 10 else 7 / 10
    let utilities : List (Int × Rat) := [(1, 5), (-1, 1)]
    evaluateUnpatched (utilities.map (fun ku => (ku.1, prob ku.1))) utilities ≠ expectedUtility prob utilities := by
  decide +kernel

/-- **MAP objective**: with map.py's utilities `{q: p_q, -q: 1 - p_q}` the score of an assignment `v` of the query
    facts is `Σ_q (if v_q then p_q else 1 - p_q)` (the sum of the posterior marginals of the chosen values). -/
theorem C21_map_objective (ps : List Rat) (v : List Bool) (h : v.length = ps.length) :
    mapScore ps v = mapObjective ps v :=
  mapScore_eq ps v h

/-- … and exhaustive search returns an admissible assignment maximising that objective. -/
theorem C21_map_exhaustive (ps : List Rat) (hn : ps.length ≠ 0) (adm : List Bool → Bool) :
    ∃ st, searchExhaustive ps.length adm (mapScore ps) = .ok st ∧
      match st.best with
      | none => ∀ t, t.length = ps.length → adm t = false
      | some (s, v) => adm s = true ∧ v = mapObjective ps s ∧
          ∀ t, t.length = ps.length → adm t = true → mapObjective ps t ≤ v := by
  obtain ⟨st, e, _, hm⟩ := C21_exhaustive_opt ps.length hn adm (mapScore ps)
  refine ⟨st, e, ?_⟩
  cases hb : st.best with
  | none => rw [hb] at hm; exact hm
  | some sv =>
    obtain ⟨s, v⟩ := sv
    rw [hb] at hm
    obtain ⟨hl, ha, hv, hmax⟩ := hm
    refine ⟨ha, by rw [hv, C21_map_objective ps s hl], ?_⟩
    intro t ht hat
    rw [← C21_map_objective ps t ht]; exact hmax t ht hat

/-- **The MAP objective of map.py is not the posterior probability of the assignment** (finding C21-map-objective):
    for the posterior `P(a,b|e) = 9/19, P(¬a,b|e) = 3/19, P(¬a,¬b|e) = 7/19, P(a,¬b|e) = 0` (program in
    `known/C21.json`) the marginals are `9/19, 12/19`; map.py's objective prefers `(¬a, b)` (22/19 > 21/19) whose
    posterior probability 3/19 is smaller than that of `(a, b)`, 9/19. -/
theorem C21_map_not_joint_refuted :
    let joint : List Bool → Rat := fun v =>
      if v = [true, true] then 9 / 19 else if v = [false, true] then 3 / 19 else if v = [false, false] then 7 / 19 else 0
    let ps : List Rat := [joint [true, true] + joint [true, false], joint [true, true] + joint [false, true]]
    mapObjective ps [true, true] < mapObjective ps [false, true] ∧ joint [false, true] < joint [true, true] := by
  decide +kernel

/-! Non-vacuity: concrete runs. -/
example : (num2bits 6 4) = [false, true, true, false] := by decide
def euEx : List Bool → Rat := fun s => if s = [true, false] then 3 else if s = [false, true] then 3 else 1
example : searchExhaustive 2 (fun _ => true) euEx = .ok { best := some ([false, true], 3), evals := 4 } := by
  decide +kernel
def euLoc : List Bool → Rat := fun s => if s = [true, true] then 5 else if s = [false, false] then 2 else 1
/-- a local optimum that is not global -/
example : searchLocal [0, 0] true euLoc = .ok { choices := [false, false], best := 2, last := none, evals := 3 } := by
  decide +kernel

end ProbLogProofs.C21
