import ProbLogModel.Tasks.LFI
import Mathlib.Algebra.Ring.Rat
import Mathlib.Algebra.Order.Ring.Rat
import Mathlib.Algebra.Order.Field.Basic
import Mathlib.Tactic.Ring
import Mathlib.Tactic.Linarith
import Mathlib.Tactic.FieldSimp
/-!
# C24 — the M-step of learning from interpretations produces valid parameters
-/
namespace ProbLogProofs.C24
open ProbLogModel.LFI

theorem tiny_pos : (0 : Rat) < tiny := by unfold tiny; norm_num

/-- the ratio with the `1e-15` guard never fails and is a probability when `0 ≤ body ≤ parent` -/
theorem ratio_valid (b p : Rat) (hb : 0 ≤ b) (hbp : b ≤ p) : ∃ r, ratio b p = .ok r ∧ 0 ≤ r ∧ r ≤ 1 := by
  unfold ratio
  by_cases h : b ≤ tiny
  · exact ⟨0, by simp [h, pure, Except.pure], le_refl _, by norm_num⟩
  · have hbpos : 0 < b := lt_trans tiny_pos (not_le.1 h)
    have hp : 0 < p := lt_of_lt_of_le hbpos hbp
    refine ⟨b / p, by simp [h, ne_of_gt hp, pure, Except.pure], div_nonneg hb (le_of_lt hp), ?_⟩
    exact (div_le_one hp).2 hbp

theorem mapM_ok {α β ε : Type} {P : β → Prop} (f : α → Except ε β) :
    ∀ (l : List α), (∀ a ∈ l, ∃ b, f a = .ok b ∧ P b) →
      ∃ bs, l.mapM f = .ok bs ∧ bs.length = l.length ∧ ∀ b ∈ bs, P b := by
  intro l
  induction l with
  | nil => intro _; exact ⟨[], rfl, rfl, by simp⟩
  | cons a l ih =>
    intro h
    obtain ⟨b, hb, hP⟩ := h a (List.mem_cons_self ..)
    obtain ⟨bs, hbs, hlen, hall⟩ := ih (fun x hx => h x (List.mem_cons_of_mem _ hx))
    refine ⟨b :: bs, ?_, by simp [hlen], ?_⟩
    · rw [List.mapM_cons, hb, hbs]; rfl
    · intro x hx
      rcases List.mem_cons.1 hx with rfl | hx
      · exact hP
      · exact hall x hx

/-- **Valid parameters.** Whenever the expected counts satisfy `0 ≤ body ≤ parent` for every updated index (the body of
    a learnable fact implies its parent, so the E-step guarantees it), `_update` raises nothing and every new weight is
    a probability. -/
theorem C24_valid (adc : Nat → List Int) (results : List Result) (fb fp : Assoc)
    (hc : counts adc results = .ok (fb, fp))
    (hle : ∀ e ∈ fb, 0 ≤ e.2 ∧ e.2 ≤ (aget fp e.1).getD 0) :
    ∃ new, update adc results = .ok new ∧ new.length = fb.length ∧ ∀ e ∈ new, 0 ≤ e.2 ∧ e.2 ≤ 1 := by
  unfold update
  rw [hc]
  have := mapM_ok (P := fun (e : Index × Rat) => 0 ≤ e.2 ∧ e.2 ≤ 1)
    (fun (e : Index × Rat) => (do
      let p ← ratio e.2 ((aget fp e.1).getD 0)
      pure (e.1, p) : Except Err (Index × Rat))) fb (by
    intro e he
    obtain ⟨r, hr, h0, h1⟩ := ratio_valid e.2 ((aget fp e.1).getD 0) (hle e he).1 (hle e he).2
    exact ⟨(e.1, r), by rw [hr]; rfl, h0, h1⟩)
  exact this

/-! ## normalisation -/

theorem aget_aset (l : Assoc) (i j : Index) (v : Rat) :
    aget (aset l i v) j = if j = i then some v else aget l j := by
  induction l with
  | nil =>
    by_cases hj : j = i
    · subst hj; simp [aset, aget]
    · have : ¬ (i = j) := fun h => hj h.symm
      simp [aset, aget, hj, this]
  | cons e l ih =>
    by_cases he : e.1 = i
    · by_cases hj : j = i
      · subst hj; simp [aset, aget, he]
      · have : ¬ (i = j) := fun h => hj h.symm
        simp [aset, aget, he, hj, this]
    · by_cases hj : e.1 = j
      · have : j ≠ i := fun h => he (hj.trans h)
        simp [aset, aget, he, hj, this]
      · simp [aset, aget, he, hj, ih]

theorem wget_foldl (ws : Assoc) (key : Nat) (n : Rat) (j : Nat) : ∀ (idx : List Nat) (acc : Assoc),
    wget (idx.foldl (fun acc (i : Nat) => aset acc (Int.ofNat i, key) (wget ws i key * n)) acc) j key =
      if j ∈ idx then wget ws j key * n else wget acc j key := by
  intro idx
  induction idx with
  | nil => intro acc; simp
  | cons i idx ih =>
    intro acc
    rw [List.foldl_cons, ih]
    by_cases hj : j ∈ idx
    · simp [hj]
    · by_cases hji : j = i
      · subst hji
        simp [hj, wget, aget_aset]
      · have : (Int.ofNat j, key) ≠ (Int.ofNat i, key) := by
          intro h; exact hji (by simpa using h)
        simp [hj, hji, wget, aget_aset, this]

def sumL : List Rat → Rat
  | [] => 0
  | x :: xs => x + sumL xs

theorem foldl_add (l : List Rat) (a : Rat) : l.foldl (· + ·) a = a + sumL l := by
  induction l generalizing a with
  | nil => simp [sumL]
  | cons x xs ih => simp only [List.foldl_cons, ih, sumL]; ring

theorem sumL_map_mul (l : List Nat) (f : Nat → Rat) (n : Rat) :
    sumL (l.map (fun i => f i * n)) = sumL (l.map f) * n := by
  induction l with
  | nil => simp [sumL]
  | cons x xs ih => simp only [List.map_cons, sumL, ih]; ring

/-- every weight of the annotated disjunction is rescaled by the same factor -/
theorem normalizeKey_wget (avail : Rat) (idx : List Nat) (ws : Assoc) (key : Nat) (j : Nat) (hj : j ∈ idx) :
    wget (normalizeKey avail idx ws key) j key =
      wget ws j key * (if sumL (idx.map (fun i => wget ws i key)) ≠ 0
        then avail / sumL (idx.map (fun i => wget ws i key)) else avail) := by
  unfold normalizeKey
  simp only [foldl_add, zero_add, bne_iff_ne, ne_eq, ite_not]
  rw [wget_foldl, if_pos hj]

/-- **The weights of an annotated disjunction after normalisation sum to the available probability** (1 minus the
    fixed probabilities of the disjunction) — or to 0 if all of them are 0. In particular the sum is at most 1 whenever
    `0 ≤ available ≤ 1`. -/
theorem C24_ad_sum (avail : Rat) (idx : List Nat) (ws : Assoc) (key : Nat) :
    sumL (idx.map (fun i => wget (normalizeKey avail idx ws key) i key)) =
      if sumL (idx.map (fun i => wget ws i key)) ≠ 0 then avail else 0 := by
  have : idx.map (fun i => wget (normalizeKey avail idx ws key) i key) =
      idx.map (fun i => wget ws i key * (if sumL (idx.map (fun i => wget ws i key)) ≠ 0
        then avail / sumL (idx.map (fun i => wget ws i key)) else avail)) :=
    List.map_congr_left (fun j hj => normalizeKey_wget avail idx ws key j hj)
  rw [this, sumL_map_mul]
  by_cases h : sumL (idx.map (fun i => wget ws i key)) = 0
  · simp [h]
  · simp only [ne_eq, h, not_false_eq_true, if_true]
    field_simp

/-- **Complete data, annotated disjunction.** Normalisation preserves proportions: if the un-normalised weights of the
    heads are `cᵢ / D` for a common denominator `D` (for `k` heads `_update` produces `D = k · N`, see
    `C24_ad_null_choice_refuted`), the normalised weight of head `i` is `available · cᵢ / Σⱼ cⱼ`. This is the relative
    frequency `cᵢ / N` exactly when `available = 1` and `Σⱼ cⱼ = N`, i.e. when some head is true in every example. -/
theorem C24_complete_data_mle_ad (avail D : Rat) (idx : List Nat) (ws : Assoc) (key : Nat) (c : Nat → Rat)
    (hD : D ≠ 0) (hw : ∀ i ∈ idx, wget ws i key = c i / D) (hs : sumL (idx.map c) ≠ 0) (j : Nat) (hj : j ∈ idx) :
    wget (normalizeKey avail idx ws key) j key = avail * c j / sumL (idx.map c) := by
  rw [normalizeKey_wget avail idx ws key j hj]
  have hmap : idx.map (fun i => wget ws i key) = idx.map (fun i => c i * (1 / D)) :=
    List.map_congr_left (fun i hi => by rw [hw i hi]; ring)
  rw [hmap, sumL_map_mul, hw j hj]
  have : sumL (idx.map c) * (1 / D) ≠ 0 := mul_ne_zero hs (by simpa using hD)
  simp only [ne_eq, this, not_false_eq_true, if_true]
  field_simp

/-! ## complete data, single fact -/

/-- the E-step output for one group of `m` identical examples in which the learnable fact `(i, k)` (not in an AD:
    `_adatomc[i] = [-1 - i]`) has its parent true and is observed with truth value `b` -/
def obs (i k : Nat) (r : Rat × Rat × Bool) : Result :=
  { m := r.1, pEvidence := r.2.1,
    entries := [{ isBody := true, idx := i, key := k, value := if r.2.2 then 1 else 0 },
                { isBody := false, idx := i, key := k, value := 1 }] }

def cnt : List (Rat × Rat × Bool) → Rat
  | [] => 0
  | r :: rs => (if r.2.2 then r.1 else 0) + cnt rs

def tot : List (Rat × Rat × Bool) → Rat
  | [] => 0
  | r :: rs => r.1 + tot rs

theorem counts_obs_step (adc : Nat → List Int) (i k : Nat) (hadc : adc i = [-1 - Int.ofNat i]) (x y y' : Rat) :
    ∀ (rs : List (Rat × Rat × Bool)),
    (rs.map (obs i k)).foldlM (resultStep adc)
        ([((Int.ofNat i, k), x)], [((Int.ofNat i, k), y), ((-1 - Int.ofNat i, k), y')]) =
      .ok ([((Int.ofNat i, k), x + cnt rs)],
           [((Int.ofNat i, k), y + tot rs), ((-1 - Int.ofNat i, k), y' + tot rs)]) := by
  intro rs
  induction rs generalizing x y y' with
  | nil => simp [cnt, tot, pure, Except.pure]
  | cons r rs ih =>
    have hne : (-1 - Int.ofNat i, k) ≠ (Int.ofNat i, k) := by
      intro h
      have := congrArg Prod.fst h
      simp at this
      omega
    have hne' : (Int.ofNat i, k) ≠ (-1 - Int.ofNat i, k) := fun h => hne h.symm
    have hb1 : ((-1 - (i : Int), k) == ((i : Int), k)) = false := by simpa using hne
    have hb2 : (((i : Int), k) == (-1 - (i : Int), k)) = false := by simpa using hne'
    have hstep : resultStep adc ([((Int.ofNat i, k), x)], [((Int.ofNat i, k), y), ((-1 - Int.ofNat i, k), y')])
        (obs i k r) = .ok ([((Int.ofNat i, k), x + (if r.2.2 then r.1 else 0))],
          [((Int.ofNat i, k), y + r.1), ((-1 - Int.ofNat i, k), y' + r.1)]) := by
      simp [resultStep, obs, parStep, hadc, aadd, aget, aset, hb1, hb2, bind, Except.bind, pure, Except.pure]
    rw [List.map_cons, List.foldlM_cons, hstep]
    simp only [bind, Except.bind]
    rw [ih]
    simp only [cnt, tot]
    congr 2 <;> ring_nf

/-- **Complete data, single learnable fact: one iteration returns the relative frequency.** If the fact `(i, k)` is not
    part of an annotated disjunction, its parent holds in every example and its truth value is observed in every example
    (so the E-step returns 1 or 0 for `lfi_body` and 1 for `lfi_par`), `_update` sets its weight to
    `(number of examples in which it is true) / (number of examples)`, for every grouping of the examples and whatever
    the evidence probabilities are; (a count of 0 gives 0). -/
theorem C24_complete_data_mle (adc : Nat → List Int) (i k : Nat) (hadc : adc i = [-1 - Int.ofNat i])
    (r : Rat × Rat × Bool) (rs : List (Rat × Rat × Bool)) (hpos : tiny < cnt (r :: rs)) (htot : tot (r :: rs) ≠ 0) :
    update adc ((r :: rs).map (obs i k)) = .ok [((Int.ofNat i, k), cnt (r :: rs) / tot (r :: rs))] := by
  have hne : (-1 - Int.ofNat i, k) ≠ (Int.ofNat i, k) := by
    intro h
    have := congrArg Prod.fst h
    simp at this
    omega
  have hne' : (Int.ofNat i, k) ≠ (-1 - Int.ofNat i, k) := fun h => hne h.symm
  have hb1 : ((-1 - (i : Int), k) == ((i : Int), k)) = false := by simpa using hne
  have hb2 : (((i : Int), k) == (-1 - (i : Int), k)) = false := by simpa using hne'
  have hfirst : resultStep adc ([], []) (obs i k r) =
      .ok ([((Int.ofNat i, k), if r.2.2 then r.1 else 0)],
           [((Int.ofNat i, k), r.1), ((-1 - Int.ofNat i, k), r.1)]) := by
    simp [resultStep, obs, parStep, hadc, aadd, aget, aset, hb1, hb2, bind, Except.bind, pure, Except.pure]
  have hcounts : counts adc ((r :: rs).map (obs i k)) =
      .ok ([((Int.ofNat i, k), cnt (r :: rs))],
           [((Int.ofNat i, k), tot (r :: rs)), ((-1 - Int.ofNat i, k), tot (r :: rs))]) := by
    unfold counts
    rw [List.map_cons, List.foldlM_cons, hfirst]
    simp only [bind, Except.bind]
    rw [counts_obs_step adc i k hadc]
    simp [cnt, tot]
  unfold update
  rw [hcounts]
  simp [bind, Except.bind, List.mapM_cons, List.mapM_nil, pure, Except.pure, aget, ratio, not_le.2 hpos, htot]

/-! ## the annotated-disjunction case the code gets wrong -/

/-- E-step output for `t(_)::a; t(_)::b.` with 3 examples `a`, 2 examples `b`, 5 examples with neither (any initial
    weights: the data are complete, so the conditional probabilities are 0/1) -/
def witnessResults : List Result :=
  [ { m := 3, pEvidence := 2/5, entries := [⟨true, 0, 0, 1⟩, ⟨false, 0, 0, 1⟩, ⟨true, 1, 0, 0⟩, ⟨false, 1, 0, 1⟩] },
    { m := 2, pEvidence := 2/5, entries := [⟨true, 0, 0, 0⟩, ⟨false, 0, 0, 1⟩, ⟨true, 1, 0, 1⟩, ⟨false, 1, 0, 1⟩] },
    { m := 5, pEvidence := 1/5, entries := [⟨true, 0, 0, 0⟩, ⟨false, 0, 0, 1⟩, ⟨true, 1, 0, 0⟩, ⟨false, 1, 0, 1⟩] } ]

def witnessAdc (i : Nat) : List Int := if i = 0 then [1] else [0]

/-- **Refutation of the complete-data clause for annotated disjunctions with a "no head" outcome.** Every head's parent
    count also receives the parent counts of the other heads (`_adatomc`), so the un-normalised weights are
    `count / (2 · 10)` = 0.15 and 0.1 (what `normalize=False`, the API default, returns: half the relative
    frequencies), and normalisation rescales them to sum 1: 0.6 and 0.4 instead of 0.3 and 0.2 (the CLI default). -/
theorem C24_ad_null_choice_refuted :
    update witnessAdc witnessResults = .ok [((0, 0), 3/20), ((1, 0), 1/10)] ∧
    step witnessAdc [(1, [0, 1])] true [((0, 0), 2/5), ((1, 0), 2/5)] witnessResults =
      .ok [((0, 0), 3/5), ((1, 0), 2/5)] ∧
    step witnessAdc [(1, [0, 1])] false [((0, 0), 2/5), ((1, 0), 2/5)] witnessResults =
      .ok [((0, 0), 3/20), ((1, 0), 1/10)] := by
  decide +kernel

-- non-vacuity
example : ∃ r, ratio (3/10) (1/2) = .ok r ∧ 0 ≤ r ∧ r ≤ 1 := ratio_valid _ _ (by norm_num) (by norm_num)
example : update (fun i => [-1 - Int.ofNat i]) ([(3, 1/2, true), (1, 1/4, false)].map (obs 2 0)) =
    .ok [((2, 0), 3/4)] := by decide +kernel
example : sumL ([0, 1].map (fun i => wget (normalizeKey 1 [0, 1] [((0, 0), 3/20), ((1, 0), 1/10)] 0) i 0)) = 1 := by
  decide +kernel

end ProbLogProofs.C24
