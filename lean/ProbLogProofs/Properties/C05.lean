import ProbLogModel.Sem
/-!
# C05 — property theorems only (specification-level statements; see harness/props/c05.py for the tie to the code)
-/
namespace ProbLogProofs.C05
open ProbLogModel.Sem

/-- The specification's result for the empty choice space: a single world of weight 1 (first obligation). -/
theorem C05_spec_base : (worlds []).map (·.weight) = [1] := rfl

end ProbLogProofs.C05
