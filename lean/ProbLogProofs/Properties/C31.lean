import ProbLogModel.Tasks.BN
import Mathlib.Algebra.Ring.Rat
import Mathlib.Tactic.Ring
import Mathlib.Tactic.Linarith
/-!
# C31 — Bayesian-network export: theorems about the CPT construction and the joint distribution
-/
namespace ProbLogProofs.C31
open ProbLogModel.BN

theorem sumL_append (xs ys : List Rat) : sumL (xs ++ ys) = sumL xs + sumL ys := by
  induction xs with
  | nil => simp [sumL]
  | cons x xs ih => simp only [List.cons_append, sumL, ih]; ring

theorem sumL_replicate_zero (n : Nat) : sumL (List.replicate n 0) = 0 := by
  induction n with
  | zero => rfl
  | succ n ih => simp [List.replicate_succ, sumL, ih]

theorem sumL_probsRow (ps : List Rat) : sumL (probsRow ps) = 1 := by
  simp only [probsRow, sumL]; ring

theorem sumL_offRow (n : Nat) : sumL (offRow n) = 1 := by
  simp [offRow, sumL, sumL_replicate_zero]

theorem rows_of_choiceCpt {c : GClause} {ps : List Rat} {cpt : ChoiceCpt} (h : choiceCpt c ps = .ok cpt) :
    ∀ r ∈ cpt.rows, r.2 = probsRow ps ∨ r.2 = offRow ps.length := by
  intro r hr
  unfold choiceCpt at h
  split at h
  · injection h with h
    subst h
    simp only [List.mem_map] at hr
    obtain ⟨ks, _, rfl⟩ := hr
    dsimp only
    split <;> simp
  · cases h
  · injection h with h
    subst h
    simp only [List.mem_singleton] at hr
    subst hr
    exact Or.inl rfl

/-- **Every CPT row sums to 1.** For every clause (any kind, any body, any head probabilities — no assumption on
    their sum), every row of the choice-node table built by `clause_to_cpt` sums to exactly 1. -/
theorem C31_cpt_normalised (c : GClause) (ps : List Rat) (cpt : ChoiceCpt) (h : choiceCpt c ps = .ok cpt) :
    ∀ r ∈ cpt.rows, sumL r.2 = 1 := by
  intro r hr
  rcases rows_of_choiceCpt h r hr with h | h <;> rw [h]
  · exact sumL_probsRow ps
  · exact sumL_offRow _

theorem le_sumL {ps : List Rat} (hnn : ∀ p ∈ ps, 0 ≤ p) : ∀ p ∈ ps, p ≤ sumL ps := by
  induction ps with
  | nil => intro p hp; cases hp
  | cons x xs ih =>
    have hx : 0 ≤ x := hnn x (List.mem_cons_self ..)
    have hxs : ∀ p ∈ xs, 0 ≤ p := fun p hp => hnn p (List.mem_cons_of_mem _ hp)
    have hs : 0 ≤ sumL xs := by
      clear ih hnn hx
      induction xs with
      | nil => simp [sumL]
      | cons y ys ih2 =>
        have := hxs y (List.mem_cons_self ..)
        have := ih2 (fun p hp => hxs p (List.mem_cons_of_mem _ hp))
        simp only [sumL]; linarith
    intro p hp
    simp only [sumL]
    rcases List.mem_cons.1 hp with rfl | hp
    · linarith
    · have := ih hxs p hp; linarith

theorem sumL_nonneg {ps : List Rat} (hnn : ∀ p ∈ ps, 0 ≤ p) : 0 ≤ sumL ps := by
  induction ps with
  | nil => simp [sumL]
  | cons x xs ih =>
    have := hnn x (List.mem_cons_self ..)
    have := ih (fun p hp => hnn p (List.mem_cons_of_mem _ hp))
    simp only [sumL]; linarith

/-- **The rows are probability distributions** when the head probabilities are non-negative and sum to at most 1
    (what `ConstraintAD` enforces for the grounded heads): every entry lies in `[0, 1]`. -/
theorem C31_cpt_entries_valid (c : GClause) (ps : List Rat) (cpt : ChoiceCpt) (h : choiceCpt c ps = .ok cpt)
    (hnn : ∀ p ∈ ps, 0 ≤ p) (hsum : sumL ps ≤ 1) : ∀ r ∈ cpt.rows, ∀ x ∈ r.2, 0 ≤ x ∧ x ≤ 1 := by
  intro r hr x hx
  rcases rows_of_choiceCpt h r hr with h | h <;> rw [h] at hx
  · simp only [probsRow, List.mem_cons] at hx
    have h0 := sumL_nonneg hnn
    rcases hx with rfl | hx
    · constructor <;> linarith
    · exact ⟨hnn x hx, le_trans (le_sumL hnn x hx) hsum⟩
  · simp only [offRow, List.mem_cons, List.mem_replicate] at hx
    rcases hx with rfl | ⟨_, rfl⟩ <;> constructor <;> norm_num

/-- **`OrCPT` is the deterministic OR of its parents**: the row for the parent assignment `cv` is `[0, 1]` (atom true
    with probability 1) iff some `(parent, value)` pair of `parentvalues` matches, else `[1, 0]`; it sums to 1. -/
theorem C31_or_cpt (cv : List Nat) (pv : List (Nat × Nat)) :
    (orVal cv pv = true ↔ ∃ p ∈ pv, cv[p.1]? = some p.2) ∧
    (orRow (orVal cv pv) = if orVal cv pv then [0, 1] else [1, 0]) ∧
    sumL (orRow (orVal cv pv)) = 1 ∧
    (∀ b : Bool, orEntry (orVal cv pv) b = if b = orVal cv pv then 1 else 0) := by
  refine ⟨?_, rfl, ?_, ?_⟩
  · simp [orVal, List.any_eq_true]
  · cases orVal cv pv <;> simp [orRow, sumL]
  · intro b
    cases b <;> cases orVal cv pv <;> simp [orEntry, orRow]

/-- **Several rules for one head combine as a (noisy-)or**: `PGM.add_factor` merges two `OrCPT`s of the same variable by
    concatenating their `parentvalues` (`OrCPT.__add__`), and the merged factor is the OR of the two. -/
theorem C31_or_cpt_add (cv : List Nat) (pv1 pv2 : List (Nat × Nat)) :
    orVal cv (pv1 ++ pv2) = (orVal cv pv1 || orVal cv pv2) := by
  simp [orVal, List.any_append]

theorem addOr_merges (ors : List (Nat × List (Nat × Nat))) (a : Nat) (pv pv0 : List (Nat × Nat))
    (h : (a, pv0) ∈ ors) : (a, pv0 ++ pv) ∈ addOr ors a pv := by
  unfold addOr
  have : ors.any (fun e => e.1 == a) = true := List.any_eq_true.2 ⟨(a, pv0), h, by simp⟩
  rw [if_pos this]
  exact List.mem_map.2 ⟨(a, pv0), h, by simp⟩

/-! ## The joint distribution -/

def indic (b d : List Bool) : Rat := prodL (List.zipWith (fun x y => orEntry y x) b d)

theorem sumL_map_zero {α : Type} (l : List α) (f : α → Rat) (h : ∀ x ∈ l, f x = 0) : sumL (l.map f) = 0 := by
  induction l with
  | nil => rfl
  | cons x xs ih =>
    simp only [List.map_cons, sumL, h x (List.mem_cons_self ..),
      ih (fun y hy => h y (List.mem_cons_of_mem _ hy))]; ring

theorem orEntry_eq (d b : Bool) : orEntry d b = if b = d then 1 else 0 := by
  cases b <;> cases d <;> simp [orEntry, orRow]

/-- Summing `g · [bits = D]` over all bit vectors of the length of `D` picks `g D`. -/
theorem sum_indic (D : List Bool) : ∀ g : List Bool → Rat,
    sumL ((keys D.length).map (fun b => g b * indic b D)) = g D := by
  induction D with
  | nil => intro g; simp [keys, sumL, indic, prodL]
  | cons d D ih =>
    intro g
    simp only [List.length_cons, keys, List.map_append, List.map_map, sumL_append]
    have hstep : ∀ x : Bool, sumL ((keys D.length).map ((fun b => g b * indic b (d :: D)) ∘ (x :: ·))) =
        (if x = d then 1 else 0) * g (x :: D) := by
      intro x
      have : (keys D.length).map ((fun b => g b * indic b (d :: D)) ∘ (x :: ·)) =
          (keys D.length).map (fun b => ((if x = d then 1 else 0) * g (x :: b)) * indic b D) := by
        apply List.map_congr_left
        intro b _
        simp only [Function.comp, indic, List.zipWith_cons_cons, prodL, orEntry_eq]
        ring
      rw [this]
      by_cases hx : x = d
      · simp only [hx, if_true, one_mul]
        exact ih (fun b => g (d :: b))
      · simp only [hx, if_false, zero_mul]
        exact sumL_map_zero _ _ (fun _ _ => rfl)
    rw [hstep false, hstep true]
    cases d <;> simp

theorem detBits_length (ors : List (Nat × List (Nat × Nat))) (cv : List Nat) :
    (detBits ors cv).length = ors.length := by simp [detBits]

/-- **The atom variables can be eliminated from the joint.** For every network built by the model (any clause list),
    the marginal of an atom computed from the full joint distribution — the product of *all* CPT entries, summed over
    all values of all choice nodes and all atom variables — equals the sum over the choice-node values only, with
    every atom replaced by the OR of its parent values: outside that deterministic assignment the joint is 0. -/
theorem C31_joint_eliminates_atoms (net : Net) (a : Nat) : marginal net a = marginalDet net a := by
  unfold marginal marginalDet massWhere
  congr 1
  apply List.map_congr_left
  intro cv _
  have := sum_indic (detBits net.ors cv)
    (fun bits => if atomVal net.ors bits a then choiceWeight net.choices (atomVal net.ors bits) cv else 0)
  rw [detBits_length] at this
  rw [← this]
  congr 1
  apply List.map_congr_left
  intro bits _
  simp only [weight, orWeight, indic]
  split <;> simp

/-- the network of a single annotated disjunction without body `p₁::h₁; …; pₙ::hₙ.` -/
def adNet (heads : List (Nat × Rat)) : Except Err Net :=
  ofClauses [{ kind := Kind.orFact, heads := heads.map (fun h => (h.1, some h.2)), body := none }]

theorem sumL_range_pick (n : Nat) (f : Nat → Rat) (j : Nat) (hj : j < n) :
    sumL ((List.range n).map (fun v => if v = j then f v else 0)) = f j := by
  induction n with
  | zero => omega
  | succ n ih =>
    rw [List.range_succ, List.map_append, sumL_append]
    by_cases h : j = n
    · subst h
      rw [sumL_map_zero _ _ (fun v hv => by
        have := List.mem_range.1 hv
        rw [if_neg (by omega)])]
      simp [sumL]
    · rw [ih (by omega)]
      simp [sumL, Ne.symm h]

/-- the OrCPTs of the heads of one clause with pairwise distinct new head atoms -/
def adOrs (k : Nat) : List Nat → Nat → List (Nat × List (Nat × Nat))
  | [], _ => []
  | h :: hs, idx => (h, [(k, idx + 1)]) :: adOrs k hs (idx + 1)

theorem addHeads_fresh (k : Nat) : ∀ (hs : List Nat) (ors : List (Nat × List (Nat × Nat))) (idx : Nat),
    hs.Nodup → (∀ h ∈ hs, ∀ e ∈ ors, e.1 ≠ h) → addHeads ors k hs idx = ors ++ adOrs k hs idx := by
  intro hs
  induction hs with
  | nil => intro ors idx _ _; simp [addHeads, adOrs]
  | cons h hs ih =>
    intro ors idx hnd hfresh
    have hno : ors.any (fun e => e.1 == h) = false := by
      rw [List.any_eq_false]
      intro e he
      simpa using hfresh h (List.mem_cons_self ..) e he
    have hadd : addOr ors h [(k, idx + 1)] = ors ++ [(h, [(k, idx + 1)])] := by simp [addOr, hno]
    rw [addHeads, hadd, ih _ _ (List.nodup_cons.1 hnd).2, adOrs]
    · simp
    · intro h' hh' e he
      rcases List.mem_append.1 he with he | he
      · exact hfresh h' (List.mem_cons_of_mem _ hh') e he
      · simp only [List.mem_singleton] at he
        subst he
        intro heq
        simp only at heq
        subst heq
        exact (List.nodup_cons.1 hnd).1 hh'

theorem atomVal_adOrs (k : Nat) (cv : List Nat) : ∀ (hs : List Nat) (idx i : Nat) (hi : i < hs.length), hs.Nodup →
    atomVal (adOrs k hs idx) (detBits (adOrs k hs idx) cv) hs[i] = orVal cv [(k, idx + i + 1)] := by
  intro hs
  induction hs with
  | nil => intro idx i hi; simp at hi
  | cons h hs ih =>
    intro idx i hi hnd
    cases i with
    | zero => simp [adOrs, detBits, atomVal]
    | succ i =>
      have hne : h ≠ hs[i]'(by simpa using hi) := by
        intro heq
        exact (List.nodup_cons.1 hnd).1 (heq ▸ List.getElem_mem _)
      have := ih (idx + 1) i (by simpa using hi) (List.nodup_cons.1 hnd).2
      simp only [adOrs, detBits, List.map_cons, atomVal, List.getElem_cons_succ] at this ⊢
      rw [if_neg (by simpa using hne)]
      rw [show idx + (i + 1) + 1 = idx + 1 + i + 1 by omega]
      exact this

theorem mapM_probs : ∀ (l : List (Nat × Option Rat)) (ps : List Rat), l.map (·.2) = ps.map some →
    l.mapM (fun h => match h.2 with
      | some p => (pure p : Except Err Rat)
      | none => throw Err.attributeError) = .ok ps := by
  intro l
  induction l with
  | nil =>
    intro ps h
    cases ps with
    | nil => rfl
    | cons _ _ => simp at h
  | cons x l ih =>
    intro ps h
    cases ps with
    | nil => simp at h
    | cons p ps =>
      simp only [List.map_cons, List.cons.injEq] at h
      rw [List.mapM_cons, ih ps h.2, h.1]
      rfl

theorem flatMap_single {α β : Type} (f : α → β) (l : List α) : l.flatMap (fun v => [f v]) = l.map f := by
  induction l with
  | nil => rfl
  | cons x xs ih => simp [List.flatMap_cons, ih]

/-- **Marginal of a single annotated disjunction** (`C31_marginal` for the single-AD case; the general statement for
    acyclic clause lists is not proved): in the network exported for `p₁::h₁; …; pₙ::hₙ.` with pairwise distinct head
    atoms, the marginal probability of `hᵢ` — from the full joint, product of the choice-node CPT and all OrCPTs — is
    `pᵢ`, for all probabilities. -/
theorem C31_marginal_partial (heads : List (Nat × Rat)) (hd : (heads.map (·.1)).Nodup) (i : Nat) (hi : i < heads.length) :
    ∃ net, adNet heads = .ok net ∧ marginal net heads[i].1 = heads[i].2 := by
  let ps := heads.map (·.2)
  let cpt : ChoiceCpt := { parents := [], nvals := ps.length + 1, rows := [([], probsRow ps)] }
  let net : Net := { choices := [cpt], ors := adOrs 0 (heads.map (·.1)) 0 }
  have hprobs : headProbs { kind := Kind.orFact, heads := heads.map (fun h => (h.1, some h.2)), body := none } =
      .ok ps := by
    unfold headProbs
    exact mapM_probs _ ps (by simp [ps, List.map_map, Function.comp_def])
  have hfresh := addHeads_fresh 0 (heads.map (·.1)) [] 0 hd (by simp)
  have hc : clauseToCpt { choices := [], ors := [] }
      { kind := Kind.orFact, heads := heads.map (fun h => (h.1, some h.2)), body := none } = .ok net := by
    unfold clauseToCpt
    rw [hprobs]
    simp only [choiceCpt, List.map_map, Function.comp_def, List.length_nil, List.nil_append, hfresh, bind, Except.bind,
      pure, Except.pure]
    rfl
  have hnet : adNet heads = .ok net := by
    simp only [adNet, ofClauses, List.foldlM_cons, List.foldlM_nil, hc]
    rfl
  refine ⟨net, hnet, ?_⟩
  rw [C31_joint_eliminates_atoms]
  have hi' : i < (heads.map (·.1)).length := by simpa using hi
  have hkey : heads[i].1 = (heads.map (·.1))[i] := by simp
  have hcv : allCv (net.choices.map (·.nvals)) = (List.range (ps.length + 1)).map (fun v => [v]) := by
    simp only [net, cpt, List.map_cons, List.map_nil, allCv, List.map_cons, List.map_nil]
    exact flatMap_single (fun v => [v]) _
  unfold marginalDet
  rw [hcv, List.map_map]
  have hterm : ∀ v, ((fun cv => if atomVal net.ors (detBits net.ors cv) heads[i].1 = true
        then choiceWeight net.choices (atomVal net.ors (detBits net.ors cv)) cv else 0) ∘ fun v => [v]) v =
      if v = i + 1 then (probsRow ps).getD v 0 else 0 := by
    intro v
    simp only [Function.comp, net]
    rw [hkey, atomVal_adOrs 0 [v] _ 0 i hi' hd]
    simp only [orVal, List.any_cons, List.any_nil, Bool.or_false, List.getElem?_cons_zero, Nat.zero_add]
    by_cases hv : v = i + 1
    · simp [hv, choiceWeight, prodL, ChoiceCpt.entry, cpt]
    · simp [hv]
  rw [List.map_congr_left (fun v _ => hterm v)]
  rw [sumL_range_pick (ps.length + 1) (fun v => (probsRow ps).getD v 0) (i + 1) (by simp [ps]; omega)]
  simp [probsRow, ps, List.getD_eq_getElem?_getD, hi]

-- non-vacuity: `0.1::h0; 0.2::h1.` (atoms 5 and 7), the two defects' witnesses use this shape
example : (adNet [(5, 1/10), (7, 1/5)]).toOption.map (fun n => (marginal n 5, marginal n 7, total n)) =
    some (1/10, 1/5, 1) := by decide +kernel
example : (ofClauses [{ kind := .termFact, heads := [(0, some (3/10))], body := none },
                      { kind := .clause, heads := [(1, some (1/2))], body := some (.and (.atom 0) (.neg 0)) },
                      { kind := .clause, heads := [(1, none)], body := some (.atom 0) }]).toOption.map
    (fun n => (n.ors, marginal n 1, marginalDet n 1, total n)) =
    some ([(0, [(0, 1)]), (1, [(1, 1), (2, 1)])], 3/10, 3/10, 1) := by decide +kernel
example : (match ofClauses [{ kind := .termFact, heads := [(0, none)], body := none }] with
    | .error .attributeError => true
    | _ => false) = true := by decide +kernel

end ProbLogProofs.C31
