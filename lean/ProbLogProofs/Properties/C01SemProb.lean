import ProbLogModel.Sem
import ProbLogProofs.Lemmas.SemWorlds
import ProbLogProofs.Lemmas.SemRun
import ProbLogProofs.Properties.C26
import ProbLogProofs.Properties.C01Sem
import Mathlib.Algebra.Order.Ring.Rat
import Mathlib.Algebra.Order.BigOperators.Group.List
import Mathlib.Algebra.Order.Field.Basic
import Mathlib.Tactic.Linarith
import Mathlib.Tactic.NormNum
/-!
# C01 / C26 — the specification `Sem.run` returns *probabilities*

`C01_worlds_weight_sum` (C01Sem.lean) needs no hypothesis, but a weight can be negative when a group's probabilities
are not a sub-distribution.  Under the validity condition ProbLog enforces (C30: every annotation in `[0,1]`, the heads
of an annotated disjunction sum to at most 1) every total choice has a non-negative weight, hence the numbers the
reference reports obey `0 ≤ P(q ∧ e) ≤ P(e) ≤ 1`, and the conditional probability a query / `subquery/3` is compared
with lies in `[0,1]`.  For all programs, query lists and evidence lists; no bounds.
-/
namespace ProbLogProofs.C01
open ProbLogModel.Sem ProbLogProofs ProbLogProofs.SemWorlds ProbLogProofs.SemRun ProbLogProofs.SemDefinite

/-- The validity condition on a group of alternatives (what C30 requires of the annotations of one fact / AD). -/
def ValidGroup (g : Group) : Prop := (∀ pc ∈ g.alts, 0 ≤ pc.1) ∧ (g.alts.map (·.1)).sum ≤ 1

theorem worlds_weight_nonneg (gs : List Group) (h : ∀ g ∈ gs, ValidGroup g) : ∀ w ∈ worlds gs, 0 ≤ w.weight := by
  induction gs with
  | nil => intro w hw; simp [worlds] at hw; subst hw; decide
  | cons g gs ih =>
    have ihr := ih (fun g' hg' => h g' (List.mem_cons_of_mem _ hg'))
    obtain ⟨hp, hs⟩ := h g List.mem_cons_self
    intro w hw
    rw [worlds_cons, List.mem_append] at hw
    rcases hw with hw | hw
    · rw [List.mem_flatMap] at hw
      obtain ⟨⟨p, c⟩, hpc, hw⟩ := hw
      rw [List.mem_map] at hw
      obtain ⟨w', hw', rfl⟩ := hw
      exact mul_nonneg (hp _ hpc) (ihr w' hw')
    · rw [List.mem_map] at hw
      obtain ⟨w', hw', rfl⟩ := hw
      refine mul_nonneg ?_ (ihr w' hw')
      rw [foldl_add_eq]
      linarith

/-- A sum of terms each between `0` and the matching weight lies between `0` and the total weight. -/
theorem sum_between (ws : List World) (hw : ∀ w ∈ ws, 0 ≤ w.weight) (f g : World → Rat)
    (hf : ∀ w, f w = 0 ∨ f w = w.weight) (hg : ∀ w, g w = 0 ∨ g w = w.weight) (hfg : ∀ w, f w = w.weight → g w = w.weight) :
    0 ≤ (ws.map f).sum ∧ (ws.map f).sum ≤ (ws.map g).sum ∧ (ws.map g).sum ≤ wsum ws := by
  induction ws with
  | nil => simp [wsum]
  | cons w ws ih =>
    obtain ⟨i1, i2, i3⟩ := ih (fun w' hw' => hw w' (List.mem_cons_of_mem _ hw'))
    have h0 := hw w List.mem_cons_self
    simp only [List.map_cons, List.sum_cons, wsum_cons]
    rcases hf w with a | a <;> rcases hg w with b | b
    · rw [a, b]; refine ⟨by linarith, by linarith, by linarith⟩
    · rw [a, b]; refine ⟨by linarith, by linarith, by linarith⟩
    · have := hfg w a; rw [a, b] at *; refine ⟨by linarith, by linarith, by linarith⟩
    · rw [a, b]; refine ⟨by linarith, by linarith, by linarith⟩

theorem restrict_groups_valid (P : Prog) (roots : List Nat) (h : ∀ g ∈ P.groups, ValidGroup g) :
    ∀ g ∈ (restrict P roots).groups, ValidGroup g := by
  intro g hg
  simp only [restrict] at hg
  exact h g (List.mem_of_mem_filter hg)

/-- **The reference reports probabilities**: for valid annotations, `0 ≤ P(q ∧ e) ≤ P(e) ≤ 1` for every root set,
    evidence list and query atom. -/
theorem C01_spec_is_probability (P : Prog) (roots : List Nat) (evidence : List (Nat × Bool)) (q : Nat)
    (h : ∀ g ∈ P.groups, ValidGroup g) :
    0 ≤ numOf P roots evidence q ∧ numOf P roots evidence q ≤ zOf P roots evidence ∧ zOf P roots evidence ≤ 1 := by
  have hw := worlds_weight_nonneg _ (restrict_groups_valid P roots h)
  have := sum_between (worlds (restrict P roots).groups) hw (numTerm P roots evidence q) (zTerm P roots evidence)
    (fun w => by unfold numTerm; split <;> simp)
    (fun w => by unfold zTerm; split <;> simp)
    (fun w hq => by
      unfold numTerm at hq
      unfold zTerm
      by_cases hc : contributes P roots evidence w = true
      · simp [hc]
      · simp only [hc, Bool.false_and] at hq
        simp only [hc]
        exact hq)
  rw [wsum_worlds] at this
  exact this

/-- The same for the record `Sem.run` returns: `0 ≤ z ≤ 1` and every numerator lies in `[0, z]`. -/
theorem C01_run_is_probability (P : Prog) (queries : List Nat) (evidence : List (Nat × Bool))
    (h : ∀ g ∈ P.groups, ValidGroup g) :
    0 ≤ (run P queries evidence).z ∧ (run P queries evidence).z ≤ 1 ∧
    ∀ n ∈ (run P queries evidence).num, 0 ≤ n ∧ n ≤ (run P queries evidence).z := by
  rw [run_eq_sums]
  refine ⟨?_, ?_, ?_⟩
  · obtain ⟨a, b, _⟩ := C01_spec_is_probability P (queries ++ evidence.map (·.1)) evidence 0 h
    exact le_trans a b
  · exact (C01_spec_is_probability P (queries ++ evidence.map (·.1)) evidence 0 h).2.2
  · intro n hn
    simp only [List.mem_map] at hn
    obtain ⟨q, _, rfl⟩ := hn
    obtain ⟨a, b, _⟩ := C01_spec_is_probability P (queries ++ evidence.map (·.1)) evidence q h
    exact ⟨a, b⟩

/-- C26: the value `subquery(G, P, E)` is compared with is a number in `[0,1]` whenever it is defined
    (evidence of non-zero probability). -/
theorem C26_spec_in_unit_interval (P : Prog) (goal : Nat) (evidence : List (Nat × Bool))
    (h : ∀ g ∈ P.groups, ValidGroup g) (v : Rat) (hv : C26.subquerySpec P goal evidence = some v) :
    0 ≤ v ∧ v ≤ 1 := by
  unfold C26.subquerySpec at hv
  split at hv
  · cases hv
  · rename_i hz
    obtain ⟨hn, hzq⟩ := C26.C26_spec_is_run P goal evidence
    rw [hn] at hv
    simp only [Option.map_some, Option.some.injEq] at hv
    rw [hzq] at hv hz
    obtain ⟨a, b, _⟩ := C01_spec_is_probability P ([goal] ++ evidence.map (·.1)) evidence goal h
    have hpos : 0 < zOf P ([goal] ++ evidence.map (·.1)) evidence := lt_of_le_of_ne (le_trans a b) (Ne.symm hz)
    subst hv
    exact ⟨div_nonneg a (le_of_lt hpos), (div_le_one hpos).mpr b⟩

/-- The hypothesis cannot be dropped: with an over-full annotated disjunction (`0.7::c0; 0.6::c1`, which ProbLog must
    reject, C30) the "none" world has weight `-3/10`. -/
theorem C01_invalid_group_negative_weight : ((worlds [⟨[(7/10, 0), (3/5, 1)]⟩]).map (·.weight)) = [7/10, 3/5, -3/10] := by
  decide +kernel

-- non-vacuity: the program of C08 (`0.3::c0. 0.6::c1. …`) has valid groups
example : ∀ g ∈ C08.exProg.groups, ValidGroup g := by
  intro g hg
  simp only [C08.exProg, List.mem_cons, List.not_mem_nil, or_false] at hg
  rcases hg with rfl | rfl <;> refine ⟨?_, ?_⟩ <;> simp <;> norm_num

/-! ## Total probability and evidence as intersection (no hypothesis on the annotations) -/

/-- contribution of a world to the probability of `¬q ∧ e` -/
def negTerm (P : Prog) (roots : List Nat) (evidence : List (Nat × Bool)) (q : Nat) (w : World) : Rat :=
  if contributes P roots evidence w && !getB (model P roots w.chosen).1 q then w.weight else 0

def negOf (P : Prog) (roots : List Nat) (evidence : List (Nat × Bool)) (q : Nat) : Rat :=
  ((worlds (restrict P roots).groups).map (negTerm P roots evidence q)).sum

theorem sum_add_map (ws : List World) (f g h : World → Rat) (H : ∀ w, f w + g w = h w) :
    (ws.map f).sum + (ws.map g).sum = (ws.map h).sum := by
  induction ws with
  | nil => simp
  | cons w ws ih => simp only [List.map_cons, List.sum_cons, ← ih, ← H w]; ring

/-- **Law of total probability in the reference** (no hypothesis): `P(q ∧ e) + P(¬q ∧ e) = P(e)`, where the three sums
    range over the total choices whose well-founded model is two-valued on the relevant atoms. -/
theorem C01_spec_total_probability (P : Prog) (roots : List Nat) (evidence : List (Nat × Bool)) (q : Nat) :
    numOf P roots evidence q + negOf P roots evidence q = zOf P roots evidence := by
  unfold numOf negOf zOf
  apply sum_add_map
  intro w
  unfold numTerm negTerm zTerm
  by_cases hc : contributes P roots evidence w = true <;> by_cases hq : getB (model P roots w.chosen).1 q = true <;>
    simp [hc, hq]


theorem evHolds_append (P : Prog) (roots : List Nat) (evidence : List (Nat × Bool)) (q : Nat) (v : Bool) (ch : List Nat) :
    evHolds P roots (evidence ++ [(q, v)]) ch = (evHolds P roots evidence ch && (getB (model P roots ch).1 q == v)) := by
  simp [evHolds, List.all_append]

/-- **Evidence is conditioning by intersection**: for a fixed root set, adding `q = true` to the evidence list turns
    `P(e)` into the numerator `P(q ∧ e)`, and adding `q = false` turns it into `P(¬q ∧ e)`. -/
theorem C01_spec_evidence_is_intersection (P : Prog) (roots : List Nat) (evidence : List (Nat × Bool)) (q : Nat) :
    zOf P roots (evidence ++ [(q, true)]) = numOf P roots evidence q ∧
    zOf P roots (evidence ++ [(q, false)]) = negOf P roots evidence q := by
  unfold zOf numOf negOf
  constructor <;> (congr 1; apply List.map_congr_left; intro w _; simp only [zTerm, numTerm, negTerm, contributes, evHolds_append])
  · by_cases hq : getB (model P roots w.chosen).1 q = true <;> simp [hq]
  · by_cases hq : getB (model P roots w.chosen).1 q = true <;> simp [hq]

/-- Negative evidence is the complement: the probability of the evidence list extended with `(q, false)` is
    `P(¬q ∧ e)` when `q` is already among the roots. -/
example : negOf C08.exProg [1, 2, 0] [(0, true)] 2 = 3/25 ∧ numOf C08.exProg [1, 2, 0] [(0, true)] 2 = 9/50 ∧
    zOf C08.exProg [1, 2, 0] [(0, true)] = 3/10 := by decide +kernel

/-- **More evidence, less mass**: under valid annotations, appending one literal to the evidence list (over a fixed root
    set) never increases the probability of the evidence. -/
theorem C01_spec_more_evidence_less_mass (P : Prog) (roots : List Nat) (evidence : List (Nat × Bool)) (q : Nat) (v : Bool)
    (h : ∀ g ∈ P.groups, ValidGroup g) :
    zOf P roots (evidence ++ [(q, v)]) ≤ zOf P roots evidence := by
  obtain ⟨ht, hf⟩ := C01_spec_evidence_is_intersection P roots evidence q
  obtain ⟨a, b, _⟩ := C01_spec_is_probability P roots evidence q h
  have tp := C01_spec_total_probability P roots evidence q
  cases v
  · rw [hf]; linarith
  · rw [ht]; exact b

/-! ## Definite programs -/

theorem definite_filter (rules : List Rule) (p : Rule → Bool) (h : definite rules = true) :
    definite (rules.filter p) = true := by
  unfold definite at *
  rw [List.all_eq_true] at *
  intro r hr
  exact h r (List.mem_of_mem_filter hr)

/-- **Definite programs are never rejected by the reference**: without negative body atoms no total choice has an
    undefined relevant atom, so the hypothesis `undefWorlds = 0` of the C08/C26 independence theorems holds. -/
theorem C01_run_definite_no_undef (P : Prog) (queries : List Nat) (evidence : List (Nat × Bool))
    (hdef : definite P.rules = true) : (run P queries evidence).undefWorlds = 0 := by
  rw [run_eq_sums]
  show undefOf P _ = 0
  unfold undefOf
  apply List.sum_eq_zero
  intro x hx
  rw [List.mem_map] at hx
  obtain ⟨w, _, rfl⟩ := hx
  have h2 : (model P (queries ++ evidence.map (·.1)) w.chosen).1 = (model P (queries ++ evidence.map (·.1)) w.chosen).2 := by
    unfold model
    exact (C01_wfm_two_valued_definite _ _ _ (by simp only [restrict]; exact definite_filter _ _ hdef)).1
  unfold undefTerm undefIn
  rw [h2]
  simp

-- non-vacuity: `0.3::c0. a0 :- c0. a1 :- a0, a1. a1 :- a0.` is definite and has a positive cycle
example : definite (⟨2, 1, [⟨0, [], [], some 0⟩, ⟨1, [0, 1], [], none⟩, ⟨1, [0], [], none⟩], [⟨[(3/10, 0)]⟩]⟩ : Prog).rules = true ∧
    (run ⟨2, 1, [⟨0, [], [], some 0⟩, ⟨1, [0, 1], [], none⟩, ⟨1, [0], [], none⟩], [⟨[(3/10, 0)]⟩]⟩ [1] []).num = [3/10] := by
  decide +kernel

end ProbLogProofs.C01
