import ProbLogModel.Sem
import ProbLogModel.Clark
import ProbLogModel.GroundFO
import ProbLogModel.GroundFOSpec
import ProbLogProofs.Lemmas.GroundSem
import ProbLogProofs.Lemmas.GroundInv
/-!
# The statement that remains to be proved for the first-order grounder model, as a checked definition, and its test

`CorrectFO` is the full correctness statement (C01 for non-ground queries: every reported instance has the key of its
truth value, every instance that is not reported is false in every world), phrased against `Sem.wfm` of the Herbrand
instantiation `GroundFO.inst` (`ProbLogModel/GroundFOSpec.lean`).  It is a DEFINITION (the target), not a theorem;
`C01_groundFO_correct_example` proves it for one concrete program, all its worlds and the bottom-up valuation, by
evaluation - a test that the statement is the intended one and is satisfiable.
-/
namespace ProbLogProofs.C01GroundFO
open ProbLogModel ProbLogModel.Formula ProbLogModel.GroundFO ProbLogProofs.GroundSem ProbLogProofs.GroundInv
open ProbLogModel.Sem (getB wfm)

/-- truth value of the atom with id `a` in the world `chosen`: well-founded model of the instantiation -/
def truthFO (P : Prog) (natoms : Nat) (chosen : Array Bool) (a : Nat) : Bool :=
  getB (wfm (toSem (inst P natoms)) chosen natoms).1 a

/-- The target: correctness of `groundAll` on the program `P` for the call history `calls`. -/
def CorrectFO (P : Prog) (natoms : Nat) (sched : Sched) (fuel : Nat) (calls : List Call) : Prop :=
  ∃ rss st', groundAll P sched fuel calls {} = .ok (rss, st') ∧ rss.length = calls.length ∧
    ∀ (chosen : Array Bool) (ρ : Nat → Bool), Consistent st'.store ρ → Agree chosen st'.store ρ →
      ∀ i (hc : i < calls.length) (hr : i < rss.length),
        (∀ r ∈ rss[i], fits calls[i].args r.1 = true ∧
          keyVal ρ r.2 = truthFO P natoms chosen (P.atomName calls[i].pred r.1)) ∧
        (∀ a ∈ tuples P.nconsts calls[i].args.length, fits calls[i].args a = true →
          a ∉ rss[i].map (·.1) → truthFO P natoms chosen (P.atomName calls[i].pred a) = false)

/-- The executable check run by `Drivers.GroundFOCheck` on every generated program uses the same specification:
    its `toSemRules` is `GroundSem.toSem`, its `checkWorld` is the body of `CorrectFO` for one world with the bottom-up
    valuation (`Clark.dagEval`). -/
theorem toSemRules_eq (Q : GroundAcyclic.Prog) : GroundFO.toSemRules Q = toSem Q := by
  unfold GroundFO.toSemRules toSem
  congr 1

/-! ### test on `0.3::f(a). 0.4::f(b). e(a,b). q(X) :- f(X), e(X,Y).  t(Y,a) :- f(Y).  u :- t(X,X).` -/

def exF2 : Prog :=
  { nconsts := 2
    defs := [(0, [.fact [0] 0 (some (3/10)), .fact [1] 1 (some (2/5))]),
             (1, [.fact [0, 1] 2 none]),
             (2, [.rule [.var 0] 2 [.pos ⟨0, [.var 0]⟩, .pos ⟨1, [.var 0, .var 1]⟩] none]),
             (3, [.rule [.var 0, .const 0] 1 [.pos ⟨0, [.var 0]⟩] none]),
             (4, [.rule [] 1 [.pos ⟨3, [.var 0, .var 0]⟩] none])]
    nameBase := [(0, 0), (1, 2), (2, 6), (3, 8), (4, 12)] }

def exCallsF : List Call := [⟨2, [.v 0], .query, 99⟩, ⟨4, [], .query, 12⟩, ⟨3, [.v 0, .v 1], .query, 98⟩]

/-- On the example, in all four worlds of the two probabilistic facts: `q(a)`, `u`, `t(a,a)`, `t(b,a)` are reported with
    keys that evaluate to their truth value in `Sem.wfm` of the instantiation, and `q(b)`, `t(a,b)`, `t(b,b)` - not
    reported - are false. -/
theorem C01_groundFO_correct_example :
    (match groundAll exF2 (fun _ => []) 5 exCallsF {} with
     | .ok (rss, st) =>
       rss.map (fun rs => rs.map (·.1)) == [[[0]], [[]], [[0, 0], [1, 0]]] &&
       [#[false, false], #[true, false], #[false, true], #[true, true]].all (GroundFO.checkWorld exF2 13 exCallsF rss st.store)
     | .error _ => false) = true := by decide +kernel

end ProbLogProofs.C01GroundFO
