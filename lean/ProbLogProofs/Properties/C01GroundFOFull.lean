import ProbLogProofs.Properties.C01GroundFOSem
import ProbLogProofs.Lemmas.GroundFOBridge
import ProbLogProofs.Lemmas.GroundFOSpecOK
import ProbLogProofs.Lemmas.GroundFORange
import ProbLogProofs.Properties.C01GroundFOSpec
/-!
# C01 for the first-order grounder model against `Sem.wfm` of the Herbrand instantiation

`C01GroundFOSem.lean` proves the grounder model correct relative to any model of the first-order completion;
`Lemmas/GroundFOBridge.lean` shows that the well-founded model of the Herbrand instantiation `GroundFO.inst P natoms` is
such a model (`mspec_isModelFO`) under `SpecOK` (distinct predicates in `defs`, arities respected, constants
`< nconsts`, variables below the clause's variable count, range restriction, atom names injective and `< natoms`, the
instantiation acyclic w.r.t. a rank).  Together: the statement `C01GroundFOSpec.CorrectFO` in partial-correctness
form (termination of the model is not proved; it returns on every generated program).

`Mspec P natoms ar chosen p a` = `p` is a predicate of the program and `a` has its arity (`ar p = some a.length`) ∧ its constants are `< nconsts` ∧
`getB (Sem.wfm (toSem (inst P natoms)) chosen natoms).1 (P.atomName p a)`.
-/
namespace ProbLogProofs.C01GroundFO
open ProbLogModel ProbLogModel.Formula ProbLogModel.GroundFO ProbLogProofs.GroundInv ProbLogProofs.GroundFOInv
open ProbLogProofs.GroundFOSem ProbLogProofs.GroundSem
open ProbLogModel.Sem (getB wfm)

/-- **C01 for non-ground queries, against the distribution semantics of the instantiation.**  For every program with
    `SpecOK`, every schedule, fuel and history of `ground` calls from the empty target: whenever the model returns,
    in EVERY world `chosen` and every valuation of the final ground program that agrees with it,
    * every reported instance is an instance of the call and its key has the truth value of the instance in
      `Sem.wfm` of the Herbrand instantiation,
    * every instance of the call that is not reported is false there
      (the "not reported ⇒ probability 0" clause of C01). -/
theorem C01_groundFO_correct_wfm_partial {P : Prog} {natoms : Nat} {ar : Pred → Option Nat} {rk : Nat → Nat}
    (hs : SpecOK P natoms ar rk) (sched : Sched) (fuel : Nat) (calls : List Call) (o : Opts) (ho : o.keepAll = false)
    (rss : List Results) (st' : St) (h : groundAll P sched fuel calls { store := { opts := o } } = .ok (rss, st')) :
    rss.length = calls.length ∧ WF st'.store ∧ Acyclic st'.store ∧
    ∀ chosen : Array Bool, (∃ ρ, Consistent st'.store ρ ∧ Agree chosen st'.store ρ) ∧
      ∀ i (hc : i < calls.length) (hr : i < rss.length),
        (∀ r ∈ rss[i], Fits calls[i].args r.1 ∧
          ∀ ρ, Consistent st'.store ρ → Agree chosen st'.store ρ →
            keyVal ρ r.2 = Mspec P natoms ar chosen calls[i].pred r.1) ∧
        (∀ a, Fits calls[i].args a → a ∉ rss[i].map (·.1) → Mspec P natoms ar chosen calls[i].pred a = false) := by
  have base := C01_groundFO_correct_partial P hs.vars #[] _ (mspec_isModelFO hs #[]) sched fuel calls _ rss st'
    (semInv_init #[] _ o ho) h
  refine ⟨base.2.2.1, base.1.ti.s.wf, base.1.ti.s.acyc, fun chosen => ?_⟩
  obtain ⟨_, _, _, hex, hc⟩ := C01_groundFO_correct_partial P hs.vars chosen _ (mspec_isModelFO hs chosen) sched fuel calls
    _ rss st' (semInv_init chosen _ o ho) h
  exact ⟨hex, fun i h1 h2 => ⟨fun r hr => ⟨((hc i h1 h2).1 r hr).1, ((hc i h1 h2).1 r hr).2.2⟩, (hc i h1 h2).2⟩⟩

/-- Every reported tuple has its constants in range (`Lemmas/GroundFORange.lean`: the variables of a clause are bound
    by the answers of its positive body atoms, facts and head constants are in range). -/
theorem C01_groundFO_reported_in_range {P : Prog} {natoms : Nat} {ar : Pred → Option Nat} {rk : Nat → Nat}
    (hs : SpecOK P natoms ar rk) (sched : Sched) (fuel : Nat) (calls : List Call) (o : Opts)
    (rss : List Results) (st' : St) (h : groundAll P sched fuel calls { store := { opts := o } } = .ok (rss, st')) :
    ∀ rs ∈ rss, ∀ r ∈ rs, inR P.nconsts r.1 = true :=
  (groundAll_R hs sched fuel calls _ rss st' ⟨fun _ he => (by cases he), fun _ he => (by cases he)⟩ h).2

/-- In the terms of `CorrectFO`: for a call of the right arity, every reported instance has the key of `truthFO`, and an
    unreported instance from `tuples` is false in `truthFO`. -/
theorem C01_groundFO_correct_truthFO_partial {P : Prog} {natoms : Nat} {ar : Pred → Option Nat} {rk : Nat → Nat}
    (hs : SpecOK P natoms ar rk) (sched : Sched) (fuel : Nat) (calls : List Call) (o : Opts) (ho : o.keepAll = false)
    (rss : List Results) (st' : St) (h : groundAll P sched fuel calls { store := { opts := o } } = .ok (rss, st'))
    (chosen : Array Bool) (i : Nat) (hc : i < calls.length) (hr : i < rss.length)
    (har : ar calls[i].pred = some calls[i].args.length) :
    (∀ r ∈ rss[i], Fits calls[i].args r.1 ∧ ∀ ρ, Consistent st'.store ρ → Agree chosen st'.store ρ →
      keyVal ρ r.2 = getB (wfm (toSem (inst P natoms)) chosen natoms).1 (P.atomName calls[i].pred r.1)) ∧
    (∀ a ∈ tuples P.nconsts calls[i].args.length, Fits calls[i].args a → a ∉ rss[i].map (·.1) →
      getB (wfm (toSem (inst P natoms)) chosen natoms).1 (P.atomName calls[i].pred a) = false) := by
  obtain ⟨_, _, _, hall⟩ := C01_groundFO_correct_wfm_partial hs sched fuel calls o ho rss st' h
  obtain ⟨h1, h2⟩ := (hall chosen).2 i hc hr
  have hrange := C01_groundFO_reported_in_range hs sched fuel calls o rss st' h rss[i] (List.getElem_mem hr)
  constructor
  · intro r hrm
    obtain ⟨⟨τ, hτ⟩, hv⟩ := h1 r hrm
    refine ⟨⟨τ, hτ⟩, fun ρ a b => ?_⟩
    have hlen : ar calls[i].pred = some r.1.length := by rw [← hτ, gl_length]; exact har
    rw [hv ρ a b]
    simp [Mspec, hlen, hrange r hrm, Tspec]
  · intro a ha hfit hna
    obtain ⟨hl, hin⟩ := (mem_tuples _ _ _).1 ha
    have hlen : ar calls[i].pred = some a.length := by rw [hl]; exact har
    have := h2 a hfit hna
    simpa [Mspec, hlen, hin, Tspec] using this

theorem fits_iff (args : List Val) (a : List Const) : fits args a = true ↔ Fits args a := by
  unfold fits
  constructor
  · intro h
    cases hb : bindAnswer args a [] with
    | none => rw [hb] at h; cases h
    | some ctx' =>
      obtain ⟨τ, hτ, _⟩ := unifOK.bind_fwd args a [] ctx' hb (fun _ => 0)
      exact ⟨τ, hτ⟩
  · rintro ⟨τ, hτ⟩
    obtain ⟨ctx', hb, _⟩ := unifOK.bind_bwd args a [] τ hτ
    rw [hb]; rfl

/-- **The statement `CorrectFO` itself, whenever the model returns**: under `SpecOK`, for calls of the program's
    predicates with the right arity. -/
theorem C01_groundFO_CorrectFO_of_returns {P : Prog} {natoms : Nat} {ar : Pred → Option Nat} {rk : Nat → Nat}
    (hs : SpecOK P natoms ar rk) (sched : Sched) (fuel : Nat) (calls : List Call)
    (har : ∀ c ∈ calls, ar c.pred = some c.args.length)
    (rss : List Results) (st' : St) (h : groundAll P sched fuel calls {} = .ok (rss, st')) :
    CorrectFO P natoms sched fuel calls := by
  have hlen := (C01_groundFO_correct_wfm_partial hs sched fuel calls {} rfl rss st' h).1
  refine ⟨rss, st', h, hlen, fun chosen ρ hρ ha i hc hr => ?_⟩
  obtain ⟨h1, h2⟩ := C01_groundFO_correct_truthFO_partial hs sched fuel calls {} rfl rss st' h chosen i hc hr
    (har _ (List.getElem_mem hc))
  exact ⟨fun r hrm => ⟨(fits_iff _ _).2 (h1 r hrm).1, (h1 r hrm).2 ρ hρ ha⟩,
    fun a hat hf hna => h2 a hat ((fits_iff _ _).1 hf) hna⟩

/-- **C03 for the first-order model** (schedule independence) under `SpecOK` alone: the model `M` of
    `C03_groundFO_schedule_independent_partial` is the well-founded model of the instantiation. -/
theorem C03_groundFO_schedule_independent_wfm_partial {P : Prog} {natoms : Nat} {ar : Pred → Option Nat} {rk : Nat → Nat}
    (hs : SpecOK P natoms ar rk) (chosen : Array Bool) (sched1 sched2 : Sched) (fuel1 fuel2 : Nat) (calls : List Call)
    (o : Opts) (ho : o.keepAll = false) (rss1 rss2 : List Results) (st1 st2 : St)
    (h1 : groundAll P sched1 fuel1 calls { store := { opts := o } } = .ok (rss1, st1))
    (h2 : groundAll P sched2 fuel2 calls { store := { opts := o } } = .ok (rss2, st2)) :
    rss1.length = calls.length ∧ rss2.length = calls.length ∧
    ∀ i (_hc : i < calls.length) (hr1 : i < rss1.length) (hr2 : i < rss2.length),
      ∀ r1 ∈ rss1[i], ∀ ρ1, Consistent st1.store ρ1 → Agree chosen st1.store ρ1 →
        (∃ r2 ∈ rss2[i], r2.1 = r1.1 ∧
          ∀ ρ2, Consistent st2.store ρ2 → Agree chosen st2.store ρ2 → keyVal ρ2 r2.2 = keyVal ρ1 r1.2) ∨
        (r1.1 ∉ rss2[i].map (·.1) ∧ keyVal ρ1 r1.2 = false) :=
  C03_groundFO_schedule_independent_partial P hs.vars chosen _ (mspec_isModelFO hs chosen) sched1 sched2 fuel1 fuel2 calls
    o ho rss1 rss2 st1 st2 h1 h2

/-- **C08 for the first-order model** (history independence) under `SpecOK` alone. -/
theorem C08_groundFO_history_independent_wfm_partial {P : Prog} {natoms : Nat} {ar : Pred → Option Nat} {rk : Nat → Nat}
    (hs : SpecOK P natoms ar rk) (chosen : Array Bool) (sched sched' : Sched) (fuel fuel' : Nat) (calls : List Call)
    (o : Opts) (ho : o.keepAll = false) (rss : List Results) (st : St) (i : Nat) (hi : i < calls.length) (rs' : Results)
    (st' : St) (h1 : groundAll P sched fuel calls { store := { opts := o } } = .ok (rss, st))
    (h2 : groundAll P sched' fuel' [calls[i]] { store := { opts := o } } = .ok ([rs'], st')) :
    ∃ hr : i < rss.length, ∀ r ∈ rss[i], ∀ ρ, Consistent st.store ρ → Agree chosen st.store ρ →
      (∃ r' ∈ rs', r'.1 = r.1 ∧
        ∀ ρ', Consistent st'.store ρ' → Agree chosen st'.store ρ' → keyVal ρ' r'.2 = keyVal ρ r.2) ∨
      (r.1 ∉ rs'.map (·.1) ∧ keyVal ρ r.2 = false) :=
  C08_groundFO_history_independent_partial P hs.vars chosen _ (mspec_isModelFO hs chosen) sched sched' fuel fuel' calls
    o ho rss st i hi rs' st' h1 h2

/-! ### the hypotheses are decidable and satisfiable: the program of `C01_groundFO_correct_example`

`SpecOK` follows from the evaluation of `specOKb` (`Lemmas/GroundFOSpecOK.lean`), so the theorem applies to the
example program for EVERY schedule, fuel and call history (not only the one evaluated in `C01GroundFOSpec.lean`). -/

def exAr : List (Pred × Nat) := [(0, 1), (1, 2), (2, 1), (3, 2), (4, 0)]
def exRk (a : Nat) : Nat := if a < 6 then 0 else if a < 12 then 1 else 2

theorem exF2_specOK : SpecOK exF2 13 (lookup exAr) exRk := specOKb_sound (by decide +kernel)

theorem C01_groundFO_correct_wfm_exF2 (sched : Sched) (fuel : Nat) (calls : List Call) (rss : List Results) (st' : St)
    (h : groundAll exF2 sched fuel calls {} = .ok (rss, st')) (chosen : Array Bool) (i : Nat) (hc : i < calls.length)
    (hr : i < rss.length) (har : lookup exAr calls[i].pred = some calls[i].args.length) :
    (∀ r ∈ rss[i], Fits calls[i].args r.1 ∧ ∀ ρ, Consistent st'.store ρ → Agree chosen st'.store ρ →
      keyVal ρ r.2 = truthFO exF2 13 chosen (exF2.atomName calls[i].pred r.1)) ∧
    (∀ a ∈ tuples 2 calls[i].args.length, Fits calls[i].args a → a ∉ rss[i].map (·.1) →
      truthFO exF2 13 chosen (exF2.atomName calls[i].pred a) = false) :=
  C01_groundFO_correct_truthFO_partial exF2_specOK sched fuel calls {} rfl rss st' h chosen i hc hr har

end ProbLogProofs.C01GroundFO
