import ProbLogModel.Sem
/-!
# C03 — property theorems only (specification-level statements; see harness/props/c03.py for the tie to the code)
-/
namespace ProbLogProofs.C03
open ProbLogModel.Sem

/-- The specification's result for the empty choice space: a single world of weight 1 (first obligation). -/
theorem C03_spec_base : (worlds []).map (·.weight) = [1] := rfl

end ProbLogProofs.C03
