import ProbLogModel.TermEq
import ProbLogProofs.Lemmas.TermEq
/-!
# C18 — Term equality is an equivalence consistent with hashing (property theorems only)

`eqTop a b` models `a == b` for objects of the classes Term, Var, Constant, Not, And, Or, Clause, under the
abstraction of `str()` stated in `ProbLogModel/TermEq.lean` (the name of a Var / printed form of a Constant is
never the printed form of a compound term; the harness checks this per input and evaluates the laws on the real
objects where it does not hold — there the real code breaks symmetry and transitivity, see known/C18.json).

On this model `==` is an equivalence relation.  "Equal ⇒ equal hash" and "ground: equal ⇔ unifiable" are refuted
with witnesses; what remains true is proved: equality decided by `Term.__eq__` gives equal hash keys (with the
proposed `Not.__hash__`), and on ground trees of plain Terms with quote-free functors `==` is unification identity.
-/
namespace ProbLogProofs.C18
open ProbLogModel.TermEq ProbLogProofs.TermEqLemmas

/-- Reflexive (also for structurally identical copies). -/
theorem C18_refl (a : Tm) : eqTop a a = true := by
  rw [eqTop_eq]
  split
  · simp
  · exact teq_refl a

/-- Symmetric. -/
theorem C18_symm (a b : Tm) : eqTop a b = eqTop b a := by
  rw [eqTop_eq, eqTop_eq, Bool.or_comm (isS a) (isS b), teq_symm a b]
  have : (printed a == printed b) = (printed b == printed a) := BEq.comm
  rw [this]

/-- Transitive. -/
theorem C18_trans (a b c : Tm) (h1 : eqTop a b = true) (h2 : eqTop b c = true) : eqTop a c = true := by
  rw [eqTop_eq] at h1 h2 ⊢
  by_cases hb : isS b = true
  · -- the middle operand is a Var/Constant: all three print the same text
    simp only [hb, Bool.or_true, Bool.true_or, if_true] at h1 h2
    have e1 : printed a = printed b := by simpa using h1
    have e2 : printed b = printed c := by simpa using h2
    obtain ⟨s, hs⟩ := printed_S b hb
    split
    · simp [e1, e2]
    · rename_i hac
      simp only [Bool.or_eq_true, not_or, Bool.not_eq_true] at hac
      have ha := printed_some_nonS a s hac.1 (by rw [e1, hs])
      have hc := printed_some_nonS c s hac.2 (by rw [← e2, hs])
      rw [ha, hc]; exact teq_refl _
  · have hb : isS b = false := by simpa using hb
    by_cases ha : isS a = true
    · simp only [ha, Bool.true_or, if_true] at h1 ⊢
      have e1 : printed a = printed b := by simpa using h1
      obtain ⟨s, hs⟩ := printed_S a ha
      have hbt := printed_some_nonS b s hb (by rw [← e1, hs])
      subst hbt
      by_cases hc : isS c = true
      · simp only [hc, Bool.or_true, if_true] at h2
        have e2 : printed (Tm.term s []) = printed c := by simpa using h2
        simp [e1, e2]
      · have hc' : isS c = false := by simpa using hc
        simp only [hb, hc', Bool.or_false, Bool.false_eq_true, if_false] at h2
        have := teq_atom_left s c h2
        subst this
        simp [e1]
    · have ha : isS a = false := by simpa using ha
      simp only [ha, hb, Bool.or_false, Bool.false_eq_true, if_false] at h1
      by_cases hc : isS c = true
      · simp only [hc, Bool.or_true, if_true] at h2 ⊢
        have e2 : printed b = printed c := by simpa using h2
        obtain ⟨s, hs⟩ := printed_S c hc
        have hbt := printed_some_nonS b s hb (by rw [e2, hs])
        subst hbt
        have h1' : teq (Tm.term s []) a = true := by rw [teq_symm]; exact h1
        have := teq_atom_left s a h1'
        subst this
        simp [e2]
      · have hc' : isS c = false := by simpa using hc
        simp only [hb, hc', ha, Bool.or_false, Bool.false_eq_true, if_false] at h2 ⊢
        exact teq_trans a b c h1 h2

/-- Equal ⇒ equal hash, for equalities decided by `Term.__eq__` (neither operand a Var/Constant), once
    `Not.__hash__` ignores the functor (repo_patches/C18_not_hash.diff).
    Full statement `eqTop a b = true → hashEq v a b = true` is false: see the refutations. -/
theorem C18_eq_hash_structural (a b : Tm) (ha : isS a = false) (hb : isS b = false)
    (h : eqTop a b = true) : hashEq true a b = true := by
  rw [eqTop_eq] at h
  simp only [ha, hb, Bool.or_false, Bool.false_eq_true, if_false] at h
  unfold hashEq
  rw [teq_hashKey a b h]
  exact Key.beq_refl _

/-- Ground: equal ⇔ unification identity, on trees of plain `Term` nodes whose functors carry no enclosing
    quotes (the largest fragment without Constants, quoted atoms, Not and the And/Or/Clause classes — each of
    which refutes the full statement, see below). -/
theorem C18_ground_eq_iff_unify_partial (a b : Tm) (ha : plain a = true) (hb : plain b = true) :
    eqTop a b = unifyId a b := by
  rw [eqTop_eq]
  have sa : isS a = false := by cases a <;> simp [plain] at ha <;> rfl
  have sb : isS b = false := by cases b <;> simp [plain] at hb <;> rfl
  simp only [sa, sb, Bool.or_false, Bool.false_eq_true, if_false]
  exact plain_teq_iff a b ha hb

/-! ## Refutations -/

/-- `Constant(1) == Constant('1')` but the hashed keys (`1` vs `'1'`) differ. -/
theorem C18_eq_hash_refuted_constant (v : Bool) :
    eqTop (.const (.int 1)) (.const (.str "1")) = true ∧
    hashEq v (.const (.int 1)) (.const (.str "1")) = false := by
  cases v <;> exact ⟨by decide +kernel, by decide +kernel⟩

/-- `Term('a') == Var('a')` (and `== Constant('a')`) but the keys (`('a', 0, 0)` vs `'a'`) differ. -/
theorem C18_eq_hash_refuted_var (v : Bool) :
    eqTop (.term "a" []) (.var "a") = true ∧ hashEq v (.term "a" []) (.var "a") = false ∧
    eqTop (.term "a" []) (.const (.str "a")) = true ∧ hashEq v (.term "a" []) (.const (.str "a")) = false := by
  cases v <;> exact ⟨by decide +kernel, by decide +kernel, by decide +kernel, by decide +kernel⟩

/-- Before the patch: `Not('\\+', a) == Not('not', a)` with different keys; with the patch the keys agree. -/
theorem C18_eq_hash_refuted_not_before_fix :
    eqTop (.nott "\\+" (.term "a" [])) (.nott "not" (.term "a" [])) = true ∧
    hashEq false (.nott "\\+" (.term "a" [])) (.nott "not" (.term "a" [])) = false ∧
    hashEq true (.nott "\\+" (.term "a" [])) (.nott "not" (.term "a" [])) = true := by
  exact ⟨by decide +kernel, by decide +kernel, by decide +kernel⟩

/-- `Term("'a'") != Term('a')` although both are ground and unification identifies them. -/
theorem C18_ground_unify_refuted_quoted_atom :
    ground (.term "'a'" []) = true ∧ ground (.term "a" []) = true ∧
    eqTop (.term "'a'" []) (.term "a" []) = false ∧ unifyId (.term "'a'" []) (.term "a" []) = true := by
  exact ⟨by decide +kernel, by decide +kernel, by decide +kernel, by decide +kernel⟩

/-- `Not('\\+', a) == Not('not', a)` but they do not unify. -/
theorem C18_ground_unify_refuted_not :
    ground (.nott "\\+" (.term "a" [])) = true ∧
    eqTop (.nott "\\+" (.term "a" [])) (.nott "not" (.term "a" [])) = true ∧
    unifyId (.nott "\\+" (.term "a" [])) (.nott "not" (.term "a" [])) = false := by
  exact ⟨by decide +kernel, by decide +kernel, by decide +kernel⟩

/-- `f(1) != f('1')` and `f(a) != f(Constant('a'))` although they unify. -/
theorem C18_ground_unify_refuted_constant_type :
    eqTop (.term "f" [.const (.int 1)]) (.term "f" [.const (.str "1")]) = false ∧
    unifyId (.term "f" [.const (.int 1)]) (.term "f" [.const (.str "1")]) = true ∧
    eqTop (.term "f" [.term "a" []]) (.term "f" [.const (.str "a")]) = false ∧
    unifyId (.term "f" [.term "a" []]) (.term "f" [.const (.str "a")]) = true := by
  exact ⟨by decide +kernel, by decide +kernel, by decide +kernel, by decide +kernel⟩

/-- `And(a, b) != Term(',', a, b)` although they unify. -/
theorem C18_ground_unify_refuted_class :
    eqTop (.and (.term "a" []) (.term "b" [])) (.term "," [.term "a" [], .term "b" []]) = false ∧
    unifyId (.and (.term "a" []) (.term "b" [])) (.term "," [.term "a" [], .term "b" []]) = true := by
  exact ⟨by decide +kernel, by decide +kernel⟩

/-! Non-vacuity -/
example : plain (.term "f" [.term "a" [], .term "g" [.term "b" []]]) = true := by decide +kernel
example : eqTop (.term "f" [.nott "\\+" (.var "X"), .none]) (.term "f" [.nott "not" (.var "X"), .none]) = true := by
  decide +kernel

end ProbLogProofs.C18
