import Mathlib.Analysis.SpecialFunctions.Log.Basic
import Mathlib.Tactic.Ring
import Mathlib.Tactic.Linarith
import ProbLogModel.Generated.Semirings
import ProbLogModel.ADWeights
import ProbLogProofs.Lemmas.SemiringLogVal
import ProbLogProofs.Lemmas.SemiringProbLog
/-!
# C30 — invalid probability annotations are rejected (property theorems only)

About the GENERATED `value` / `in_domain` / `pos_value` / `neg_value` / `ad_complement` of both probability semirings
(ProbLogModel.Generated.Semirings, regenerated from problog/evaluator.py on every run) and the hand model of
`extract_weights` / `ConstraintAD.update_weights` (ProbLogModel.ADWeights).  The ±1e-9 band is the code's tolerance.
-/
namespace ProbLogProofs.C30
open ProbLogModel.Generated ProbLogModel.SemiringPrelude ProbLogModel.ADWeights ProbLogProofs ProbLogProofs.LogVal
open ProbLogProofs.Semiring

/-- An annotation outside `[-1e-9, 1+1e-9]` is rejected by `value` (and `pos_value`, `neg_value`, `in_domain`) of
    both probability semirings. -/
theorem C30_value_rejects (v : ℚ) (k : Int) (h : v < -(1/1000000000) ∨ 1 + 1/1000000000 < v) :
    SemiringProbability.value v = .error PyErr.InvalidValue ∧
    SemiringProbability.pos_value v k = .error PyErr.InvalidValue ∧
    SemiringProbability.neg_value v k = .error PyErr.InvalidValue ∧
    SemiringProbability.in_domain v = false ∧
    SemiringLogProbability.value (LogNum.ofRat v : LogVal) = .error PyErr.InvalidValue ∧
    SemiringLogProbability.pos_value (LogNum.ofRat v : LogVal) k = .error PyErr.InvalidValue ∧
    SemiringLogProbability.neg_value (LogNum.ofRat v : LogVal) k = .error PyErr.InvalidValue := by
  have hp := prob_value_outside v h
  have hl := (log_value_invalid v h).2
  refine ⟨hp.1, ?_, ?_, hp.2, hl, ?_, ?_⟩
  · simp only [SemiringProbability.pos_value, hp.1]
  · simp only [SemiringProbability.neg_value, hp.1]; rfl
  · simp only [SemiringLogProbability.pos_value, hl]
  · simp only [SemiringLogProbability.neg_value, hl]; rfl

/-- Every probability in `[0,1]` is accepted by both semirings (`value`, `pos_value`). -/
theorem C30_value_accepts (v : ℚ) (k : Int) (h0 : 0 ≤ v) (h1 : v ≤ 1) :
    SemiringProbability.value v = .ok v ∧ SemiringProbability.pos_value v k = .ok v ∧
    SemiringProbability.neg_value v k = .ok (1 - v) ∧
    ∃ r, SemiringLogProbability.value (LogNum.ofRat v : LogVal) = .ok r ∧
         SemiringLogProbability.pos_value (LogNum.ofRat v : LogVal) k = .ok r ∧
         (toProb r = some (v : ℝ) ∨ (v < 1/1000000000 ∧ toProb r = some 0)) := by
  have hp := (prob_value_in_band v (by linarith) (by linarith)).1
  refine ⟨hp, ?_, ?_, ?_⟩
  · simp only [SemiringProbability.pos_value, hp]
  · simp only [SemiringProbability.neg_value, hp, SemiringProbability.negate]; rfl
  · by_cases hv : v < 1/1000000000
    · have := (log_value_clip v (by linarith) hv).2
      refine ⟨_, this, ?_, Or.inr ⟨hv, by simp [SemiringLogProbability.zero, toProb]⟩⟩
      simp only [SemiringLogProbability.pos_value, this]
    · obtain ⟨r, e, t⟩ := (log_value v (by linarith) (by linarith)).2
      refine ⟨r, e, ?_, Or.inl t⟩
      simp only [SemiringLogProbability.pos_value, e]

/-- `ConstraintAD.update_weights`, probability semiring: if the grounded heads (at least two) sum to more than
    `1 + 1e-9`, InvalidValue. -/
theorem C30_ad_sum (weights : List (Rat × Rat)) (nodes : List Nat) (extra : Nat) (h2 : 2 ≤ nodes.length)
    (hs : 1 + 1/1000000000 < (nodes.map (fun n => (getW probOps weights n).1)).sum) :
    updateAD probOps weights nodes extra = .error PyErr.InvalidValue := by
  have hlen : ¬ nodes.length ≤ 1 := by omega
  have hd : SemiringProbability.in_domain (1 - (nodes.map (fun n => (getW probOps weights n).1)).sum) = false :=
    (prob_value_outside _ (Or.inl (by linarith))).2
  simp only [updateAD, hlen, if_false]
  simp only [probOps, prob_ad_complement] at hd ⊢
  simp [hd]
  rfl

/-- Fewer than two grounded heads: nothing is checked (the origin of the known finding). -/
theorem C30_ad_single_head_unchecked {C E : Type} (S : SROps C E) (weights : List (C × C)) (nodes : List Nat)
    (extra : Nat) (h : nodes.length ≤ 1) : updateAD S weights nodes extra = .ok weights := by
  simp [updateAD, h]; rfl

/-- The same in log space: the grounded heads denote probabilities `ps`; if they sum to more than `1 + 1e-9` then
    `update_weights` raises InvalidValue (through `negate`'s domain check `a ≤ 1e-12`). -/
theorem C30_ad_sum_log (weights : List (LogVal × LogVal)) (nodes : List Nat) (extra : Nat) (ps : List ℝ)
    (h2 : 2 ≤ nodes.length)
    (hp : List.Forall₂ (fun w p => toProb w = some p) (nodes.map (fun n => (getW (logOps LogVal) weights n).1)) ps)
    (hs : 1 + 1/1000000000 < ps.sum) :
    updateAD (logOps LogVal) weights nodes extra = .error PyErr.InvalidValue := by
  have hlen : ¬ nodes.length ≤ 1 := by omega
  obtain ⟨s, ts, es⟩ := log_ad_complement _ ps 0 hp
  have hneg : SemiringLogProbability.negate s = .error PyErr.InvalidValue := by
    apply log_negate_invalid
    rcases toProb_eq_some ts with ⟨rfl, h0⟩ | ⟨x, rfl, hx⟩
    · linarith
    · simp only [ofRat_def, fin_le_fin, not_le]
      by_contra hcon
      have hcon := not_lt.mp hcon
      have hcon' : x ≤ (1000000000000:ℝ)⁻¹ := by
        have : (((1/1000000000000 : ℚ)) : ℝ) = (1000000000000:ℝ)⁻¹ := by push_cast; norm_num
        linarith
      have := Real.exp_le_exp.mpr hcon'
      have := exp_small
      linarith
  simp only [updateAD, hlen, if_false]
  have : (logOps LogVal).ad_complement (nodes.map (fun n => (getW (logOps LogVal) weights n).1)) 0
      = .error PyErr.InvalidValue := by
    show SemiringLogProbability.ad_complement _ 0 = _
    rw [es, hneg]
  simp only [this]
  rfl

/-- Program level (ground program = atoms with external weights + AD constraints): an annotation outside the band on
    any grounded atom makes `extract_weights` raise InvalidValue, whatever the constraints are. -/
theorem C30_extract_rejects (ext : List ℚ) (ads : List (List Nat × Nat)) (v : ℚ) (hv : v ∈ ext)
    (h : v < -(1/1000000000) ∨ 1 + 1/1000000000 < v) :
    extractWeights probOps ext ads = .error PyErr.InvalidValue := by
  have key : ∀ l : List ℚ, v ∈ l →
      (l.mapM (fun w => do
        let p ← probOps.pos_value w 0
        let n ← probOps.neg_value w 0
        pure (p, n)) : PyRes (List (Rat × Rat))) = .error PyErr.InvalidValue := by
    intro l
    induction l with
    | nil => intro hm; simp at hm
    | cons w ws ih =>
      intro hm
      rw [List.mapM_cons]
      by_cases hw : w < -(1/1000000000) ∨ 1 + 1/1000000000 < w
      · have := (C30_value_rejects w 0 hw).2.1
        simp only [probOps, this]; rfl
      · have hm' : v ∈ ws := by
          rcases List.mem_cons.mp hm with rfl | h'
          · exact absurd h hw
          · exact h'
        rw [not_or, not_lt, not_lt] at hw
        have hp := (prob_value_in_band w hw.1 hw.2).1
        have e1 : probOps.pos_value w 0 = .ok w := by
          simp only [probOps, SemiringProbability.pos_value, hp]
        have e2 : probOps.neg_value w 0 = .ok (1 - w) := by
          simp only [probOps, SemiringProbability.neg_value, hp, SemiringProbability.negate]; rfl
        rw [e1, e2, ih hm']; rfl
  unfold extractWeights
  rw [key ext hv]; rfl

/-- Program level, AD sum: all annotations valid, and the first AD constraint has at least two grounded heads whose
    annotations sum to more than `1 + 1e-9` → InvalidValue. -/
theorem C30_extract_ad_sum (ext : List ℚ) (nodes : List Nat) (extra : Nat) (rest : List (List Nat × Nat))
    (hvalid : ∀ w ∈ ext, -(1/1000000000) ≤ w ∧ w ≤ 1 + 1/1000000000) (h2 : 2 ≤ nodes.length)
    (hs : 1 + 1/1000000000 < (nodes.map (fun n => (getW probOps (ext.map (fun w => (w, 1 - w))) n).1)).sum) :
    extractWeights probOps ext ((nodes, extra) :: rest) = .error PyErr.InvalidValue := by
  have key : ∀ l : List ℚ, (∀ w ∈ l, -(1/1000000000) ≤ w ∧ w ≤ 1 + 1/1000000000) →
      (l.mapM (fun w => do
        let p ← probOps.pos_value w 0
        let n ← probOps.neg_value w 0
        pure (p, n)) : PyRes (List (Rat × Rat))) = .ok (l.map (fun w => (w, 1 - w))) := by
    intro l
    induction l with
    | nil => intro _; rfl
    | cons w ws ih =>
      intro hl
      have hw := hl w (by simp)
      have hp := (prob_value_in_band w hw.1 hw.2).1
      have e1 : probOps.pos_value w 0 = .ok w := by
        simp only [probOps, SemiringProbability.pos_value, hp]
      have e2 : probOps.neg_value w 0 = .ok (1 - w) := by
        simp only [probOps, SemiringProbability.neg_value, hp, SemiringProbability.negate]; rfl
      rw [List.mapM_cons, e1, e2, ih (fun x hx => hl x (by simp [hx]))]; rfl
  unfold extractWeights
  rw [key ext hvalid]
  simp only [List.foldlM_cons]
  show (updateAD probOps _ nodes extra >>= _) = _
  rw [C30_ad_sum _ nodes extra h2 hs]; rfl

/-- **Refutation of the program-level reading** "sum of ALL heads of the AD > 1 ⇒ rejected": for
    `0.6::a; 0.6::b. query(a).` only `a` is grounded, the constraint has one node, and extraction succeeds. -/
theorem C30_ad_sum_all_heads_refuted :
    ∃ (heads : List ℚ), 1 + 1/1000000000 < heads.sum ∧
      extractWeights probOps (heads.take 1) [([0], 0)] = .ok [(6/10, 4/10)] := by
  refine ⟨[6/10, 6/10], by norm_num, ?_⟩
  have hp := (prob_value_in_band (6/10) (by norm_num) (by norm_num)).1
  have e1 : probOps.pos_value (6/10) 0 = .ok (6/10) := by
    simp only [probOps, SemiringProbability.pos_value, hp]
  have e2 : probOps.neg_value (6/10) 0 = .ok (1 - 6/10) := by
    simp only [probOps, SemiringProbability.neg_value, hp, SemiringProbability.negate]; rfl
  simp only [List.take, extractWeights, List.mapM_cons, List.mapM_nil, e1, e2]
  norm_num [updateAD]
  rfl

/-- Non-vacuity of `C30_ad_sum` and `C30_extract_ad_sum`: `0.6::a; 0.6::b. query(a). query(b).` -/
example : extractWeights probOps [6/10, 6/10, 1] [([0, 1], 2)] = .error PyErr.InvalidValue := by
  apply C30_extract_ad_sum
  · intro w hw; simp at hw; rcases hw with rfl | rfl | rfl <;> norm_num
  · simp
  · simp [getW, probOps]; norm_num

end ProbLogProofs.C30
