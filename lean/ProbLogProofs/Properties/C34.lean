import ProbLogModel.Containers
/-!
# C34 — utility containers behave as their abstract models (property theorems only)

OrderedSet ≙ duplicate-free list in first-insertion order; set operations have set semantics.
-/
namespace ProbLogProofs.C34
open ProbLogModel.Containers

/-- Reference: keep the first occurrence of every element. -/
def firstOcc : List Int → List Int
  | [] => []
  | x :: xs => x :: (firstOcc xs).filter (· != x)

theorem C34_oset_mem_add (s : OSet) (k x : Int) : x ∈ (s.add k).items ↔ x = k ∨ x ∈ s.items := by
  unfold OSet.add
  split
  · rename_i h
    have : k ∈ s.items := by simpa using h
    constructor
    · intro hx; exact Or.inr hx
    · rintro (rfl | hx) <;> assumption
  · simp [or_comm]

theorem C34_oset_add_nodup (s : OSet) (k : Int) (h : s.items.Nodup) : (s.add k).items.Nodup := by
  unfold OSet.add
  split
  · exact h
  · rename_i hk
    have hk' : k ∉ s.items := by simpa using hk
    rw [List.nodup_append]
    refine ⟨h, by simp, ?_⟩
    intro a ha b hb
    simp at hb; subst hb
    intro e; subst e; exact hk' ha

theorem C34_oset_discard_nodup (s : OSet) (k : Int) (h : s.items.Nodup) : (s.discard k).items.Nodup :=
  List.Nodup.erase k h

theorem C34_oset_mem_discard (s : OSet) (k x : Int) (h : s.items.Nodup) :
    x ∈ (s.discard k).items ↔ x ≠ k ∧ x ∈ s.items := by
  unfold OSet.discard
  simp [List.Nodup.mem_erase_iff h]

/-- Iteration order is preserved by `add` (new elements go last) … -/
theorem C34_oset_add_order (s : OSet) (k : Int) : ∃ t, (s.add k).items = s.items ++ t := by
  unfold OSet.add; split
  · exact ⟨[], by simp⟩
  · exact ⟨[k], rfl⟩

/-- … and by `discard` (the remaining elements keep their relative order). -/
theorem C34_oset_discard_order (s : OSet) (k : Int) : (s.discard k).items.Sublist s.items :=
  List.erase_sublist

theorem addAll_items (s : OSet) (ks : List Int) (h : s.items.Nodup) :
    (s.addAll ks).items = s.items ++ (firstOcc ks).filter (fun x => !s.items.contains x) := by
  induction ks generalizing s with
  | nil => simp [OSet.addAll, firstOcc]
  | cons k ks ih =>
    simp only [OSet.addAll, List.foldl_cons] at *
    rw [ih _ (C34_oset_add_nodup s k h)]
    unfold OSet.add
    by_cases hk : s.items.contains k = true
    · simp only [hk, if_true, firstOcc]
      congr 1
      have hk' : k ∈ s.items := by simpa using hk
      simp only [List.filter_cons, hk, Bool.not_true]
      simp only [Bool.false_eq_true, if_false, List.filter_filter]
      apply List.filter_congr
      intro x _
      by_cases hx : x = k
      · subst hx; simp [hk']
      · simp [hx]
    · simp only [hk, firstOcc]
      have hk' : k ∉ s.items := by simpa using hk
      simp only [Bool.false_eq_true, if_false, List.filter_cons, hk, Bool.not_false, if_true,
        List.append_assoc, List.singleton_append, List.filter_filter]
      congr 2
      apply List.filter_congr
      intro x _
      by_cases hx : x = k
      · subst hx; simp
      · simp [hx, List.mem_append, Bool.and_comm]

/-- **First-insertion order**: building an OrderedSet from any sequence of adds iterates over the first
    occurrences, in order. -/
theorem C34_oset_first_insertion_order (ks : List Int) : (OSet.ofList ks).iter = firstOcc ks := by
  have := addAll_items OSet.empty ks (by simp [OSet.empty])
  have e : List.filter (fun _ => true) (firstOcc ks) = firstOcc ks := List.filter_eq_self.mpr (by simp)
  simpa [OSet.ofList, OSet.iter, OSet.empty, e] using this

theorem firstOcc_nodup (ks : List Int) : (firstOcc ks).Nodup := by
  induction ks with
  | nil => simp [firstOcc]
  | cons k ks ih =>
    simp only [firstOcc, List.nodup_cons]
    exact ⟨by simp, ih.filter _⟩

theorem mem_firstOcc (ks : List Int) (x : Int) : x ∈ firstOcc ks ↔ x ∈ ks := by
  induction ks with
  | nil => simp [firstOcc]
  | cons k ks ih =>
    simp only [firstOcc, List.mem_cons, List.mem_filter, ih]
    by_cases h : x = k <;> simp [h]

theorem C34_oset_ofList_nodup (ks : List Int) : (OSet.ofList ks).items.Nodup := by
  have := C34_oset_first_insertion_order ks
  simp only [OSet.iter] at this
  rw [this]; exact firstOcc_nodup ks

theorem C34_oset_mem_ofList (ks : List Int) (x : Int) : x ∈ (OSet.ofList ks).items ↔ x ∈ ks := by
  have := C34_oset_first_insertion_order ks
  simp only [OSet.iter] at this
  rw [this]; exact mem_firstOcc ks x

/-- `|`, `&`, `-` have set semantics. -/
theorem C34_oset_mem_union (a b : OSet) (x : Int) :
    x ∈ (OSet.union a b).items ↔ x ∈ a.items ∨ x ∈ b.items := by
  unfold OSet.union
  rw [addAll_items _ _ (C34_oset_ofList_nodup _)]
  simp only [List.mem_append, List.mem_filter, mem_firstOcc, C34_oset_mem_ofList]
  constructor
  · rintro (h | ⟨h, _⟩)
    · exact Or.inl h
    · exact Or.inr h
  · rintro (h | h)
    · exact Or.inl h
    · by_cases hx : x ∈ a.items
      · exact Or.inl hx
      · refine Or.inr ⟨h, ?_⟩
        simp [C34_oset_mem_ofList, hx]

theorem C34_oset_mem_inter (a b : OSet) (x : Int) :
    x ∈ (OSet.inter a b).items ↔ x ∈ a.items ∧ x ∈ b.items := by
  unfold OSet.inter
  rw [C34_oset_mem_ofList]
  simp [OSet.contains, and_comm]

theorem C34_oset_mem_sub (a b : OSet) (x : Int) :
    x ∈ (OSet.sub a b).items ↔ x ∈ a.items ∧ x ∉ b.items := by
  unfold OSet.sub
  rw [C34_oset_mem_ofList]
  simp [OSet.contains]

/-- Non-vacuity: a concrete run. -/
example : (OSet.ofList [3, 1, 3, 2, 1]).iter = [3, 1, 2] := by decide
example : (OSet.inter (OSet.ofList [1, 2, 3]) (OSet.ofList [3, 1])).iter = [3, 1] := by decide

end ProbLogProofs.C34
