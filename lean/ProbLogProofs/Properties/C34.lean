import ProbLogModel.Containers
import ProbLogProofs.Lemmas.ContainersBitVec
import ProbLogProofs.Lemmas.ContainersHeapOps
/-!
# C34 — utility containers behave as their abstract models (property theorems only)

* OrderedSet ≙ duplicate-free list in first-insertion order; set operations have set semantics.
* BitVector ≙ set of naturals (`contains` is the membership test; `iter` the strictly increasing enumeration).
* UHeap ≙ finite map item ↦ key (`heapMap`) with delete-min; the well-formedness invariant `HeapWF`
  (index map consistent with the array + heap order) is preserved by every operation.
-/
namespace ProbLogProofs.C34
open ProbLogModel.Containers

/-- Reference: keep the first occurrence of every element. -/
def firstOcc : List Int → List Int
  | [] => []
  | x :: xs => x :: (firstOcc xs).filter (· != x)

theorem C34_oset_mem_add (s : OSet) (k x : Int) : x ∈ (s.add k).items ↔ x = k ∨ x ∈ s.items := by
  unfold OSet.add
  split
  · rename_i h
    have : k ∈ s.items := by simpa using h
    constructor
    · intro hx; exact Or.inr hx
    · rintro (rfl | hx) <;> assumption
  · simp [or_comm]

theorem C34_oset_add_nodup (s : OSet) (k : Int) (h : s.items.Nodup) : (s.add k).items.Nodup := by
  unfold OSet.add
  split
  · exact h
  · rename_i hk
    have hk' : k ∉ s.items := by simpa using hk
    rw [List.nodup_append]
    refine ⟨h, by simp, ?_⟩
    intro a ha b hb
    simp at hb; subst hb
    intro e; subst e; exact hk' ha

theorem C34_oset_discard_nodup (s : OSet) (k : Int) (h : s.items.Nodup) : (s.discard k).items.Nodup :=
  List.Nodup.erase k h

theorem C34_oset_mem_discard (s : OSet) (k x : Int) (h : s.items.Nodup) :
    x ∈ (s.discard k).items ↔ x ≠ k ∧ x ∈ s.items := by
  unfold OSet.discard
  simp [List.Nodup.mem_erase_iff h]

/-- Iteration order is preserved by `add` (new elements go last) … -/
theorem C34_oset_add_order (s : OSet) (k : Int) : ∃ t, (s.add k).items = s.items ++ t := by
  unfold OSet.add; split
  · exact ⟨[], by simp⟩
  · exact ⟨[k], rfl⟩

/-- … and by `discard` (the remaining elements keep their relative order). -/
theorem C34_oset_discard_order (s : OSet) (k : Int) : (s.discard k).items.Sublist s.items :=
  List.erase_sublist

theorem addAll_items (s : OSet) (ks : List Int) (h : s.items.Nodup) :
    (s.addAll ks).items = s.items ++ (firstOcc ks).filter (fun x => !s.items.contains x) := by
  induction ks generalizing s with
  | nil => simp [OSet.addAll, firstOcc]
  | cons k ks ih =>
    simp only [OSet.addAll, List.foldl_cons] at *
    rw [ih _ (C34_oset_add_nodup s k h)]
    unfold OSet.add
    by_cases hk : s.items.contains k = true
    · simp only [hk, if_true, firstOcc]
      congr 1
      have hk' : k ∈ s.items := by simpa using hk
      simp only [List.filter_cons, hk, Bool.not_true]
      simp only [Bool.false_eq_true, if_false, List.filter_filter]
      apply List.filter_congr
      intro x _
      by_cases hx : x = k
      · subst hx; simp [hk']
      · simp [hx]
    · simp only [hk, firstOcc]
      have hk' : k ∉ s.items := by simpa using hk
      simp only [Bool.false_eq_true, if_false, List.filter_cons, hk, Bool.not_false, if_true,
        List.append_assoc, List.singleton_append, List.filter_filter]
      congr 2
      apply List.filter_congr
      intro x _
      by_cases hx : x = k
      · subst hx; simp
      · simp [hx, List.mem_append, Bool.and_comm]

/-- **First-insertion order**: building an OrderedSet from any sequence of adds iterates over the first
    occurrences, in order. -/
theorem C34_oset_first_insertion_order (ks : List Int) : (OSet.ofList ks).iter = firstOcc ks := by
  have := addAll_items OSet.empty ks (by simp [OSet.empty])
  have e : List.filter (fun _ => true) (firstOcc ks) = firstOcc ks := List.filter_eq_self.mpr (by simp)
  simpa [OSet.ofList, OSet.iter, OSet.empty, e] using this

theorem firstOcc_nodup (ks : List Int) : (firstOcc ks).Nodup := by
  induction ks with
  | nil => simp [firstOcc]
  | cons k ks ih =>
    simp only [firstOcc, List.nodup_cons]
    exact ⟨by simp, ih.filter _⟩

theorem mem_firstOcc (ks : List Int) (x : Int) : x ∈ firstOcc ks ↔ x ∈ ks := by
  induction ks with
  | nil => simp [firstOcc]
  | cons k ks ih =>
    simp only [firstOcc, List.mem_cons, List.mem_filter, ih]
    by_cases h : x = k <;> simp [h]

theorem C34_oset_ofList_nodup (ks : List Int) : (OSet.ofList ks).items.Nodup := by
  have := C34_oset_first_insertion_order ks
  simp only [OSet.iter] at this
  rw [this]; exact firstOcc_nodup ks

theorem C34_oset_mem_ofList (ks : List Int) (x : Int) : x ∈ (OSet.ofList ks).items ↔ x ∈ ks := by
  have := C34_oset_first_insertion_order ks
  simp only [OSet.iter] at this
  rw [this]; exact mem_firstOcc ks x

/-- `|`, `&`, `-` have set semantics. -/
theorem C34_oset_mem_union (a b : OSet) (x : Int) :
    x ∈ (OSet.union a b).items ↔ x ∈ a.items ∨ x ∈ b.items := by
  unfold OSet.union
  rw [addAll_items _ _ (C34_oset_ofList_nodup _)]
  simp only [List.mem_append, List.mem_filter, mem_firstOcc, C34_oset_mem_ofList]
  constructor
  · rintro (h | ⟨h, _⟩)
    · exact Or.inl h
    · exact Or.inr h
  · rintro (h | h)
    · exact Or.inl h
    · by_cases hx : x ∈ a.items
      · exact Or.inl hx
      · refine Or.inr ⟨h, ?_⟩
        simp [C34_oset_mem_ofList, hx]

theorem C34_oset_mem_inter (a b : OSet) (x : Int) :
    x ∈ (OSet.inter a b).items ↔ x ∈ a.items ∧ x ∈ b.items := by
  unfold OSet.inter
  rw [C34_oset_mem_ofList]
  simp [OSet.contains, and_comm]

theorem C34_oset_mem_sub (a b : OSet) (x : Int) :
    x ∈ (OSet.sub a b).items ↔ x ∈ a.items ∧ x ∉ b.items := by
  unfold OSet.sub
  rw [C34_oset_mem_ofList]
  simp [OSet.contains]

/-- Non-vacuity: a concrete run. -/
example : (OSet.ofList [3, 1, 3, 2, 1]).iter = [3, 1, 2] := by decide
example : (OSet.inter (OSet.ofList [1, 2, 3]) (OSet.ofList [3, 1])).iter = [3, 1] := by decide

/-! ## BitVector as a set of naturals -/
section BitVector
open ProbLogProofs.ContainersBV

/-- Every block holds at most `binsize = 32` bits (invariant of the public operations). -/
abbrev BVWF (s : BitVec5) : Prop := ContainersBV.WF s

theorem C34_bv_contains_empty (j : Nat) : BitVec5.empty.contains j = false := by
  simp [contains_eq, BitVec5.empty]

theorem C34_bv_contains_add (s : BitVec5) (i j : Nat) :
    (s.add i).contains j = (j == i || s.contains j) := by
  rw [contains_eq, contains_eq, add_getD]
  by_cases hb : j / 32 = i / 32
  · simp only [hb, if_true, Nat.testBit_or, Nat.testBit_two_pow]
    by_cases hm : i % 32 = j % 32
    · have : j = i := by omega
      simp [hm, this]
    · have : ¬ j = i := by intro e; subst e; exact hm rfl
      simp [hm, this, Bool.or_comm]
  · have : ¬ j = i := by intro e; subst e; exact hb rfl
    simp [hb, this]

theorem C34_bv_contains_and (a b : BitVec5) (j : Nat) :
    (a.and b).contains j = (a.contains j && b.contains j) := by
  simp only [contains_eq, BitVec5.and, getD_zipWith_and, Nat.testBit_and]

theorem C34_bv_contains_or (a b : BitVec5) (j : Nat) :
    (a.or b).contains j = (a.contains j || b.contains j) := by
  simp only [contains_eq, BitVec5.or, getD_or_blocks, Nat.testBit_or]

theorem C34_bv_contains_iand (a b : BitVec5) (j : Nat) :
    (a.iand b).contains j = (a.contains j && b.contains j) := C34_bv_contains_and a b j

theorem C34_bv_contains_ior (a b : BitVec5) (j : Nat) :
    (a.ior b).contains j = (a.contains j || b.contains j) := C34_bv_contains_or a b j

/-- Iteration enumerates in strictly increasing order … -/
theorem C34_bv_iter_sorted (s : BitVec5) : s.iter.Pairwise (· < ·) := iterFrom_sorted 0 s.blocks

/-- … exactly the members. -/
theorem C34_bv_mem_iter (s : BitVec5) (j : Nat) : j ∈ s.iter ↔ s.contains j = true := by
  unfold BitVec5.iter
  rw [mem_iterFrom, contains_eq]
  simp

theorem C34_bv_wf_empty : BVWF BitVec5.empty := by intro b hb; simp [BitVec5.empty] at hb

theorem C34_bv_wf_add (s : BitVec5) (i : Nat) (h : BVWF s) : BVWF (s.add i) := by
  unfold BitVec5.add
  apply setBlock_bound
  · intro x hx
    split at hx
    · rw [List.mem_append] at hx
      rcases hx with hx | hx
      · exact h x hx
      · rw [List.mem_replicate] at hx; rw [hx.2]; decide
    · exact h x hx
  · rw [and_mask, Nat.one_shiftLeft]
    exact Nat.pow_lt_pow_right (by decide) (Nat.mod_lt _ (by decide))

theorem C34_bv_wf_and (a b : BitVec5) (ha : BVWF a) : BVWF (a.and b) := by
  intro x hx
  simp only [BitVec5.and, List.mem_iff_getElem?, List.getElem?_zipWith] at hx
  obtain ⟨i, hi⟩ := hx
  split at hi
  · rename_i u v hu hv
    have hu' : u ∈ a.blocks := List.mem_iff_getElem?.2 ⟨i, hu⟩
    have := Option.some.inj hi
    rw [← this]
    exact Nat.lt_of_le_of_lt Nat.and_le_left (ha u hu')
  · cases hi

theorem C34_bv_wf_or (a b : BitVec5) (ha : BVWF a) (hb : BVWF b) : BVWF (a.or b) := by
  intro x hx
  simp only [BitVec5.or, List.mem_append] at hx
  rcases hx with (hx | hx) | hx
  · simp only [List.mem_iff_getElem?, List.getElem?_zipWith] at hx
    obtain ⟨i, hi⟩ := hx
    split at hi
    · rename_i u v hu hv
      have hu' : u ∈ a.blocks := List.mem_iff_getElem?.2 ⟨i, hu⟩
      have hv' : v ∈ b.blocks := List.mem_iff_getElem?.2 ⟨i, hv⟩
      have := Option.some.inj hi
      rw [← this]
      exact Nat.or_lt_two_pow (ha u hu') (hb v hv')
    · cases hi
  · exact ha x (List.mem_of_mem_drop hx)
  · exact hb x (List.mem_of_mem_drop hx)

/-- `len` is the number of members. -/
theorem C34_bv_len (s : BitVec5) (h : BVWF s) : s.len = s.iter.length := by
  unfold BitVec5.len BitVec5.iter
  rw [length_iterFrom]
  congr 1
  apply List.map_congr_left
  intro b hb
  exact popcount64 b (h b hb)

/-- `bool(s)` is non-emptiness. -/
theorem C34_bv_nonzero (s : BitVec5) (h : BVWF s) : s.nonzero = true ↔ ∃ j, s.contains j = true := by
  unfold BitVec5.nonzero
  rw [List.any_eq_true]
  constructor
  · rintro ⟨b, hb, hne⟩
    have hne : b ≠ 0 := by simpa using hne
    obtain ⟨i, hi⟩ := Nat.exists_testBit_of_ne_zero hne
    have hi32 : i < 32 := by
      apply Nat.lt_of_not_le
      intro hle
      have : b < 2 ^ i := Nat.lt_of_lt_of_le (h b hb) (Nat.pow_le_pow_right (by decide) hle)
      rw [Nat.testBit_lt_two_pow this] at hi
      cases hi
    obtain ⟨c, hc⟩ := List.mem_iff_getElem?.1 hb
    refine ⟨32 * c + i, ?_⟩
    rw [contains_eq]
    have e1 : (32 * c + i) / 32 = c := by omega
    have e2 : (32 * c + i) % 32 = i := by omega
    rw [e1, e2, List.getD_eq_getElem?_getD, hc]
    exact hi
  · rintro ⟨j, hj⟩
    rw [contains_eq, List.getD_eq_getElem?_getD] at hj
    cases hg : s.blocks[j / 32]? with
    | none => rw [hg] at hj; simp at hj
    | some b =>
      rw [hg] at hj
      refine ⟨b, List.mem_iff_getElem?.2 ⟨_, hg⟩, ?_⟩
      have : b ≠ 0 := by
        intro e; subst e; simp at hj
      simpa using this

example : ((BitVec5.empty.add 40).add 3).iter = [3, 40] := by decide
example : BVWF ((BitVec5.empty.add 40).add 3) := C34_bv_wf_add _ _ (C34_bv_wf_add _ _ C34_bv_wf_empty)

end BitVector

/-! ## UHeap as a finite map item ↦ key with delete-min -/
section Heap
open ProbLogProofs.ContainersHeap

/-- Well-formedness: (1) `_index[it] = p` iff array slot `p` holds item `it` (so items are distinct);
    (2) heap order: key of the parent ≤ key of the child at every position. -/
abbrev HeapWF (h : UHeap) : Prop := ContainersHeap.WF h

/-- The abstract state: the key stored for an item (looked up through the index map). -/
def heapMap (h : UHeap) (it : Int) : Option Int :=
  (UHeap.lookup h.index it).bind (fun p => h.heap[p]?.map (·.1))

theorem heapMap_eq_some {h : UHeap} (wf : HeapWF h) (it k : Int) :
    heapMap h it = some k ↔ Entry h k it := by
  obtain ⟨ok, _⟩ := wf
  unfold heapMap
  constructor
  · intro e
    cases hl : UHeap.lookup h.index it with
    | none => rw [hl] at e; cases e
    | some p =>
      rw [hl] at e
      obtain ⟨k', hk'⟩ := (ok it p).1 hl
      simp only [Option.bind_some, hk', Option.map_some] at e
      have : k' = k := Option.some.inj e
      subst this
      exact ⟨p, hk'⟩
  · rintro ⟨p, hp⟩
    have := (ok it p).2 ⟨k, hp⟩
    rw [this]
    simp [hp]

theorem C34_uheap_empty_wf : HeapWF UHeap.empty := empty_wf

theorem C34_uheap_empty_map (it : Int) : heapMap UHeap.empty it = none := rfl

/-- The items in the array are pairwise distinct. -/
theorem C34_uheap_items_distinct (h : UHeap) (wf : HeapWF h) (p q : Nat) (k k' it : Int)
    (hp : h.heap[p]? = some (k, it)) (hq : h.heap[q]? = some (k', it)) : p = q := wf.1.inj hp hq

/-- Every slot of the array is reachable through the abstract map, and vice versa. -/
theorem C34_uheap_map_iff_slot (h : UHeap) (wf : HeapWF h) (it k : Int) :
    heapMap h it = some k ↔ ∃ p : Nat, h.heap[p]? = some (k, it) := heapMap_eq_some wf it k

/-- The root carries a minimum key. -/
theorem C34_uheap_root_min (h : UHeap) (wf : HeapWF h) (it : Int) (hp : h.peek = some it) :
    ∃ k, heapMap h it = some k ∧ ∀ it' k', heapMap h it' = some k' → k ≤ k' := by
  unfold UHeap.peek at hp
  split at hp
  · rename_i hs
    have h0 : h.heap[0]? = some (h.heap[0].1, it) := by
      rw [Array.getElem?_eq_getElem hs, ← Option.some.inj hp]
    refine ⟨h.heap[0].1, (heapMap_eq_some wf _ _).2 ⟨0, h0⟩, ?_⟩
    intro it' k' hk
    obtain ⟨p, hp'⟩ := (heapMap_eq_some wf _ _).1 hk
    have := wf.2.root_min p (lt_of_getElem? hp')
    rw [entry_keyAt hp', entry_keyAt h0] at this
    exact this
  · cases hp

theorem C34_uheap_push_wf (h : UHeap) (key item : Int) (wf : HeapWF h) : HeapWF (h.push key item).1 :=
  (push_spec h key item wf).1

/-- `push` is insert-or-update of the abstract map. -/
theorem C34_uheap_push_map (h : UHeap) (key item : Int) (wf : HeapWF h) (x : Int) :
    heapMap (h.push key item).1 x = if x = item then some key else heapMap h x := by
  obtain ⟨wf', hent, _⟩ := push_spec h key item wf
  apply Option.ext
  intro k
  rw [heapMap_eq_some wf', hent]
  by_cases hx : x = item
  · subst hx
    rw [if_pos rfl]
    constructor
    · rintro (⟨_, rfl⟩ | ⟨hne, _⟩)
      · rfl
      · exact absurd rfl hne
    · intro e; exact Or.inl ⟨rfl, (Option.some.inj e).symm⟩
  · rw [if_neg hx, heapMap_eq_some wf]
    constructor
    · rintro (⟨e, _⟩ | ⟨_, he⟩)
      · exact absurd e hx
      · exact he
    · intro he; exact Or.inr ⟨hx, he⟩

/-- `push` returns `is_new`. -/
theorem C34_uheap_push_is_new (h : UHeap) (key item : Int) (wf : HeapWF h) :
    (h.push key item).2 = (heapMap h item).isNone := by
  obtain ⟨_, _, hnew⟩ := push_spec h key item wf
  cases hm : heapMap h item with
  | none =>
    simp only [Option.isNone_none]
    rw [hnew]
    rintro ⟨k, hk⟩
    rw [← heapMap_eq_some wf, hm] at hk
    cases hk
  | some k =>
    simp only [Option.isNone_some]
    have : ∃ k, Entry h k item := ⟨k, (heapMap_eq_some wf _ _).1 hm⟩
    cases hb : (h.push key item).2 with
    | false => rfl
    | true => exact absurd this (hnew.1 hb)

theorem C34_uheap_push_len (h : UHeap) (key item : Int) :
    (h.push key item).1.len = if (h.push key item).2 then h.len + 1 else h.len := by
  unfold UHeap.push UHeap.len
  split
  · simp [swimUp_size]
  · simp only
    split
    · simp
    · split <;> simp [swimUp_size, UHeap.sinkDown, sinkDownAux_size]

theorem C34_uheap_pop_wf (h h' : UHeap) (e : Int × Int) (wf : HeapWF h)
    (hp : h.popWithKey = some (e, h')) : HeapWF h' :=
  (pop_spec h wf e.1 e.2 h' hp).1

/-- `pop_with_key` returns an entry of the map with a minimum key … -/
theorem C34_uheap_pop_min (h h' : UHeap) (k it : Int) (wf : HeapWF h)
    (hp : h.popWithKey = some ((k, it), h')) :
    heapMap h it = some k ∧ ∀ it' k', heapMap h it' = some k' → k ≤ k' := by
  obtain ⟨_, he, hmin, _, _⟩ := pop_spec h wf k it h' hp
  refine ⟨(heapMap_eq_some wf _ _).2 he, ?_⟩
  intro it' k' hk
  exact hmin k' it' ((heapMap_eq_some wf _ _).1 hk)

/-- … and removes exactly that item. -/
theorem C34_uheap_pop_map (h h' : UHeap) (k it : Int) (wf : HeapWF h)
    (hp : h.popWithKey = some ((k, it), h')) (x : Int) :
    heapMap h' x = if x = it then none else heapMap h x := by
  obtain ⟨wf', _, _, hent, _⟩ := pop_spec h wf k it h' hp
  apply Option.ext
  intro k'
  rw [heapMap_eq_some wf', hent]
  by_cases hx : x = it
  · simp [hx]
  · simp [hx, heapMap_eq_some wf]

theorem C34_uheap_pop_len (h h' : UHeap) (e : Int × Int) (wf : HeapWF h)
    (hp : h.popWithKey = some (e, h')) : h'.len + 1 = h.len :=
  (pop_spec h wf e.1 e.2 h' hp).2.2.2.2

/-- `pop` fails (the `assert`) exactly on the empty heap, i.e. when the abstract map is empty. -/
theorem C34_uheap_pop_none (h : UHeap) (wf : HeapWF h) :
    h.popWithKey = none ↔ ∀ it, heapMap h it = none := by
  rw [pop_none_iff]
  constructor
  · intro hs it
    cases hm : heapMap h it with
    | none => rfl
    | some k =>
      obtain ⟨p, hp⟩ := (heapMap_eq_some wf _ _).1 hm
      have := lt_of_getElem? hp
      omega
  · intro hall
    apply Nat.eq_zero_of_not_pos
    intro hs
    have h0 : h.heap[0]? = some (h.heap[0].1, h.heap[0].2) := by rw [Array.getElem?_eq_getElem hs]
    have := (heapMap_eq_some wf _ _).2 ⟨0, h0⟩
    rw [hall] at this
    cases this

/-- Successive pops (no push in between) return non-decreasing keys. -/
theorem C34_uheap_pops_nondecreasing (h h1 h2 : UHeap) (k1 i1 k2 i2 : Int) (wf : HeapWF h)
    (p1 : h.popWithKey = some ((k1, i1), h1)) (p2 : h1.popWithKey = some ((k2, i2), h2)) : k1 ≤ k2 := by
  have wf1 := C34_uheap_pop_wf h h1 _ wf p1
  have m2 := (C34_uheap_pop_min h1 h2 k2 i2 wf1 p2).1
  rw [C34_uheap_pop_map h h1 k1 i1 wf p1] at m2
  split at m2
  · cases m2
  · exact (C34_uheap_pop_min h h1 k1 i1 wf p1).2 i2 k2 m2

/-- Operation sequences. -/
inductive HOp where
  | push (key item : Int)
  | pop

def runOps (h : UHeap) : List HOp → UHeap
  | [] => h
  | .push k it :: r => runOps (h.push k it).1 r
  | .pop :: r =>
    match h.popWithKey with
    | none => runOps h r
    | some (_, h') => runOps h' r

theorem runOps_wf (h : UHeap) (ops : List HOp) (wf : HeapWF h) : HeapWF (runOps h ops) := by
  induction ops generalizing h with
  | nil => exact wf
  | cons o r ih =>
    cases o with
    | push k it => exact ih _ (C34_uheap_push_wf h k it wf)
    | pop =>
      simp only [runOps]
      split
      · exact ih _ wf
      · rename_i e h' hp
        exact ih _ (C34_uheap_pop_wf h h' e wf hp)

/-- Every heap reachable from the empty heap by pushes (including key updates) and pops is well-formed;
    so the single-step refinement theorems above apply along every history. -/
theorem C34_uheap_reachable_wf (ops : List HOp) : HeapWF (runOps UHeap.empty ops) :=
  runOps_wf _ _ C34_uheap_empty_wf

/-- Pop until empty (at most `n` times). -/
def drain : Nat → UHeap → List (Int × Int)
  | 0, _ => []
  | n + 1, h =>
    match h.popWithKey with
    | none => []
    | some (e, h') => e :: drain n h'

theorem drain_aux (n : Nat) (h : UHeap) (wf : HeapWF h) :
    ((drain n h).map (·.1)).Pairwise (· ≤ ·) ∧ ∀ e ∈ drain n h, heapMap h e.2 = some e.1 := by
  induction n generalizing h with
  | zero => simp [drain]
  | succ n ih =>
    simp only [drain]
    split
    · simp
    · rename_i e h' hp
      obtain ⟨k, it⟩ := e
      have wf' := C34_uheap_pop_wf h h' _ wf hp
      obtain ⟨ihs, ihm⟩ := ih h' wf'
      have hmin := C34_uheap_pop_min h h' k it wf hp
      have sub : ∀ e ∈ drain n h', heapMap h e.2 = some e.1 := by
        intro e he
        have := ihm e he
        rw [C34_uheap_pop_map h h' k it wf hp] at this
        split at this
        · cases this
        · exact this
      refine ⟨?_, ?_⟩
      · simp only [List.map_cons, List.pairwise_cons]
        refine ⟨?_, ihs⟩
        intro k' hk'
        obtain ⟨e, he, rfl⟩ := List.mem_map.1 hk'
        exact hmin.2 e.2 e.1 (sub e he)
      · intro e he
        rcases List.mem_cons.1 he with rfl | he
        · exact hmin.1
        · exact sub e he

/-- Popping repeatedly yields the keys in non-decreasing order, and only entries of the map. -/
theorem C34_uheap_drain_sorted (n : Nat) (h : UHeap) (wf : HeapWF h) :
    ((drain n h).map (·.1)).Pairwise (· ≤ ·) := (drain_aux n h wf).1

theorem C34_uheap_drain_entries (n : Nat) (h : UHeap) (wf : HeapWF h) :
    ∀ e ∈ drain n h, heapMap h e.2 = some e.1 := (drain_aux n h wf).2

/-- Non-vacuity: a concrete history with a key update (item 7: key 5 → 1). -/
example : drain 5 (runOps UHeap.empty [.push 5 7, .push 3 8, .push 4 9, .push 1 7]) = [(1, 7), (3, 8), (4, 9)] := by
  decide +kernel

end Heap

end ProbLogProofs.C34
