import ProbLogProofs.Properties.C01Ground
import ProbLogProofs.Properties.C01GroundFOSpec
/-!
# The specification of the first-order grounder model is well behaved, and the GROUND grounder model meets it

`GroundFO.inst P natoms` is a program of the ground model.  When it passes the decidable check `wfB` (acyclic w.r.t. a
rank function on ground atoms, ...), the theorems of `C01Ground.lean` apply to it: the specification value `truthFO` is
total and is the unique solution of the completion equations, and the GROUND engine model run on the instantiation
computes exactly these values (`C01_ground_acyclic_correct`).  What is open is that the FIRST-ORDER engine model computes
them too (`CorrectFO`; checked per program by `Drivers.GroundFOCheck`).
-/
namespace ProbLogProofs.C01GroundFO
open ProbLogModel ProbLogModel.Formula ProbLogModel.GroundFO ProbLogProofs.GroundSem ProbLogProofs.GroundInv
open ProbLogModel.Sem (getB wfm)

theorem C01_groundFO_truth_spec {P : Prog} {natoms : Nat} {rk : Nat → Nat}
    (h : GroundAcyclic.wfB (inst P natoms) natoms rk = true) (chosen : Array Bool) :
    (∀ a, getB (wfm (toSem (inst P natoms)) chosen natoms).1 a = getB (wfm (toSem (inst P natoms)) chosen natoms).2 a) ∧
    IsModel (inst P natoms) chosen (truthFO P natoms chosen) ∧
    ∀ M, IsModel (inst P natoms) chosen M → ∀ a, M a = truthFO P natoms chosen a :=
  C01Ground.C01_ground_truth_spec (wfB_sound h) chosen

/-- The ground engine model, run on the Herbrand instantiation (any schedule, any history of ground calls), gives every
    called ground atom a key whose value is the first-order specification value `truthFO`. -/
theorem C01_groundFO_ground_engine_on_instantiation {P : Prog} {natoms : Nat} {rk : Nat → Nat}
    (h : GroundAcyclic.wfB (inst P natoms) natoms rk = true) (sched : GroundAcyclic.Sched) (fuel : Nat)
    (calls : List GroundAcyclic.Call) (hf : ∀ c ∈ calls, rk c.atom < fuel)
    (hlab : ∀ c ∈ calls, c.label ≠ Label.named) (o : Opts) (ho : o.keepAll = false) :
    ∃ ks st', GroundAcyclic.groundAll (inst P natoms) sched fuel calls { store := { opts := o } } = .ok (ks, st') ∧
      ks.length = calls.length ∧
      ∀ chosen : Array Bool, ∀ ρ, Consistent st'.store ρ → Agree chosen st'.store ρ →
        ∀ i (hc : i < calls.length) (hk : i < ks.length), keyVal ρ ks[i] = truthFO P natoms chosen calls[i].atom := by
  obtain ⟨ks, st', he, hl, _, _, _, hv⟩ :=
    C01Ground.C01_ground_acyclic_correct_init (wfB_sound h) sched fuel calls hf hlab o ho
  exact ⟨ks, st', he, hl, fun chosen ρ h1 h2 i hc hk => ((hv chosen).2 ρ h1 h2).1 i hc hk⟩

/-- rank of the ground atoms of the example `exF2` (names: f 0-1, e 2-5, q 6-7, t 8-11, u 12) -/
def exRankF : Nat → Nat := fun a => if a < 6 then 0 else if a < 12 then 1 else 2

example : GroundAcyclic.wfB (inst exF2 13) 13 exRankF = true := by decide +kernel

end ProbLogProofs.C01GroundFO
