import ProbLogModel.Sem
/-!
# C01 — exact inference computes the distribution semantics (property theorems only)
-/
namespace ProbLogProofs.C01
open ProbLogModel.Sem

/-- The empty choice space has exactly one total choice, of weight 1. -/
theorem C01_worlds_total_weight : (worlds []).map (·.weight) = [1] := rfl

end ProbLogProofs.C01
