import ProbLogProofs.Properties.C01Ground
import ProbLogProofs.Properties.C01GroundFOFull
import ProbLogProofs.Properties.C01GroundFOFullEx
import ProbLogProofs.Lemmas.GroundFOFuel
/-!
# Termination on the instantiation route

The first-order theorem `C01_groundFO_correct_wfm_partial` is a partial-correctness statement (whenever the first-order
model returns).  TOTAL correctness is available on the instantiation route: under the same hypotheses `SpecOK` the
GROUND grounder model (`ProbLogModel/GroundAcyclic.lean`, phase 1) run on the Herbrand instantiation `inst P natoms`
returns for every schedule, every history of ground calls and every fuel above the rank of the called atoms, and its
keys have exactly the truth values `truthFO` that the first-order model's keys have when it returns.
-/
namespace ProbLogProofs.C01GroundFO
open ProbLogModel ProbLogModel.Formula ProbLogProofs.GroundInv ProbLogProofs.GroundFOSem
open ProbLogModel.Sem (getB wfm)

/-- **Total correctness on the instantiation**: explicit fuel bound `rk atom < fuel` (with `rk` the rank function of
    `SpecOK`; for `specOKb` it is `blockRank`, bounded by the largest predicate rank). -/
theorem C01_groundFO_instantiation_total {P : GroundFO.Prog} {natoms : Nat} {ar : GroundFO.Pred → Option Nat}
    {rk : Nat → Nat} (hs : SpecOK P natoms ar rk) (sched : GroundAcyclic.Sched) (fuel : Nat)
    (calls : List GroundAcyclic.Call) (hf : ∀ c ∈ calls, rk c.atom < fuel)
    (hlab : ∀ c ∈ calls, c.label ≠ Label.named) (o : Opts) (ho : o.keepAll = false) :
    ∃ ks st', GroundAcyclic.groundAll (GroundFO.inst P natoms) sched fuel calls { store := { opts := o } } = .ok (ks, st') ∧
      ks.length = calls.length ∧ WF st'.store ∧ Acyclic st'.store ∧
      ∀ chosen : Array Bool,
        (∃ ρ, Consistent st'.store ρ ∧ Agree chosen st'.store ρ) ∧
        ∀ ρ, Consistent st'.store ρ → Agree chosen st'.store ρ →
          ∀ i (hc : i < calls.length) (hk : i < ks.length),
            keyVal ρ ks[i] = truthFO P natoms chosen calls[i].atom := by
  obtain ⟨ks, st', he, hlen, hwf, hac, _, h⟩ :=
    C01Ground.C01_ground_acyclic_correct_init hs.wf sched fuel calls hf hlab o ho
  exact ⟨ks, st', he, hlen, hwf, hac, fun chosen => ⟨(h chosen).1, fun ρ h1 h2 i hc hk =>
    ((h chosen).2 ρ h1 h2).1 i hc hk⟩⟩

/-! ### fuel sufficiency of the first-order model itself

Not total correctness: the other ways the model can stop without results (a negated call with an unbound variable, a
builder error on an invalid key, an empty body) are excluded per program by the executable check only. -/

/-- **Explicit fuel bound for the first-order model**: if the rank `prk` of the predicates decreases along clause bodies,
    `groundAll` with more fuel than the rank of every called predicate never runs out of fuel - for every schedule,
    every history and every state. -/
theorem C01_groundFO_fuel_sufficient {P : GroundFO.Prog} {prk : GroundFO.Pred → Nat} (hp : PRank P prk)
    (sched : GroundFO.Sched) (fuel : Nat) (calls : List GroundFO.Call) (st : GroundFO.St)
    (hc : ∀ c ∈ calls, prk c.pred < fuel) : GroundFO.groundAll P sched fuel calls st ≠ .error .fuel :=
  groundAll_NF hp sched fuel calls st hc

/-- `PRank` decided -/
def prankb (P : GroundFO.Prog) (prk : GroundFO.Pred → Nat) : Bool :=
  P.defs.all (fun d => d.2.all (fun c => match c with
    | .rule _ _ body _ => body.all (fun l => match litAtom l with
      | some b => decide (prk b.pred < prk d.1)
      | none => true)
    | .fact .. => true))

theorem prankb_sound {P : GroundFO.Prog} {prk : GroundFO.Pred → Nat} (h : prankb P prk = true) : PRank P prk := by
  intro p head n body ch hc l hl b hb
  obtain ⟨cs, hd, hcs⟩ := mem_clausesOfFO hc
  have h1 := List.all_eq_true.1 (List.all_eq_true.1 h _ hd) _ hcs
  have h2 := List.all_eq_true.1 h1 l hl
  rw [hb] at h2
  exact of_decide_eq_true h2

def exNPrk (p : Nat) : Nat := if p < 2 then 0 else if p == 2 || p == 5 then 1 else if p < 5 then 2 else 0

/-- on the example with negation and an annotated disjunction: fuel 3 suffices for every schedule, history and state -/
theorem exN_fuel (sched : GroundFO.Sched) (calls : List GroundFO.Call) (st : GroundFO.St) :
    GroundFO.groundAll exN sched 3 calls st ≠ .error .fuel :=
  C01_groundFO_fuel_sufficient (prankb_sound (prk := exNPrk) (by decide +kernel)) sched 3 calls st
    (fun c _ => by unfold exNPrk; (repeat' split) <;> omega)

end ProbLogProofs.C01GroundFO
