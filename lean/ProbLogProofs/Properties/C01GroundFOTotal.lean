import ProbLogProofs.Properties.C01Ground
import ProbLogProofs.Properties.C01GroundFOFull
/-!
# Termination on the instantiation route

The first-order theorem `C01_groundFO_correct_wfm_partial` is a partial-correctness statement (whenever the first-order
model returns).  TOTAL correctness is available on the instantiation route: under the same hypotheses `SpecOK` the
GROUND grounder model (`ProbLogModel/GroundAcyclic.lean`, phase 1) run on the Herbrand instantiation `inst P natoms`
returns for every schedule, every history of ground calls and every fuel above the rank of the called atoms, and its
keys have exactly the truth values `truthFO` that the first-order model's keys have when it returns.
-/
namespace ProbLogProofs.C01GroundFO
open ProbLogModel ProbLogModel.Formula ProbLogProofs.GroundInv ProbLogProofs.GroundFOSem
open ProbLogModel.Sem (getB wfm)

/-- **Total correctness on the instantiation**: explicit fuel bound `rk atom < fuel` (with `rk` the rank function of
    `SpecOK`; for `specOKb` it is `blockRank`, bounded by the largest predicate rank). -/
theorem C01_groundFO_instantiation_total {P : GroundFO.Prog} {natoms : Nat} {ar : GroundFO.Pred → Option Nat}
    {rk : Nat → Nat} (hs : SpecOK P natoms ar rk) (sched : GroundAcyclic.Sched) (fuel : Nat)
    (calls : List GroundAcyclic.Call) (hf : ∀ c ∈ calls, rk c.atom < fuel)
    (hlab : ∀ c ∈ calls, c.label ≠ Label.named) (o : Opts) (ho : o.keepAll = false) :
    ∃ ks st', GroundAcyclic.groundAll (GroundFO.inst P natoms) sched fuel calls { store := { opts := o } } = .ok (ks, st') ∧
      ks.length = calls.length ∧ WF st'.store ∧ Acyclic st'.store ∧
      ∀ chosen : Array Bool,
        (∃ ρ, Consistent st'.store ρ ∧ Agree chosen st'.store ρ) ∧
        ∀ ρ, Consistent st'.store ρ → Agree chosen st'.store ρ →
          ∀ i (hc : i < calls.length) (hk : i < ks.length),
            keyVal ρ ks[i] = truthFO P natoms chosen calls[i].atom := by
  obtain ⟨ks, st', he, hlen, hwf, hac, _, h⟩ :=
    C01Ground.C01_ground_acyclic_correct_init hs.wf sched fuel calls hf hlab o ho
  exact ⟨ks, st', he, hlen, hwf, hac, fun chosen => ⟨(h chosen).1, fun ρ h1 h2 i hc hk =>
    ((h chosen).2 ρ h1 h2).1 i hc hk⟩⟩

end ProbLogProofs.C01GroundFO
