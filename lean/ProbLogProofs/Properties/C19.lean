import ProbLogModel.Findall
import ProbLogProofs.Lemmas.Findall
/-!
# C19 — findall/all follow the possible-world semantics: the world-splitting of `_select_sublist`

Model: `ProbLogModel.Findall` (mirrors `problog/engine_builtin.py:1351-1406`, `:1463-1465`, `:1564-1566`).
A valuation `v : Int → Bool` of the node ids describes a possible world; `Node.eval v` extends it to node keys
(`TRUE ↦ true`, `FALSE ↦ false`, `i > 0 ↦ v i`, `i < 0 ↦ !(v (-i))`).  Property theorems only; helper lemmas are
in `ProbLogProofs.Lemmas.Findall`.  All theorems hold for EVERY list (no size bound, no well-formedness
hypothesis: the same node id, or complementary ids, may occur at several positions).
-/
namespace ProbLogProofs.C19
open ProbLogModel.Findall ProbLogProofs.FindallLemmas

/-- In every world exactly one generated `(list, condition)` pair has a true condition (existence and uniqueness
    by index in generation order), and its list is the sublist of the elements whose node is true, in order. -/
theorem C19_select_partition (lst : List (Term × Node)) (v : Int → Bool) :
    ∃ k, ∃ hk : k < (selectSublist lst).length,
      (selectSublist lst)[k].2.all (Node.eval v) = true ∧
      (selectSublist lst)[k].1 = (lst.filter (fun e => e.2.eval v)).map (·.1) ∧
      ∀ j, ∀ hj : j < (selectSublist lst).length,
        (selectSublist lst)[j].2.all (Node.eval v) = true → j = k := by
  obtain ⟨n0, hlt, hiff, hterms⟩ := select_mask v lst
  have hlen := length_selectSublist lst
  have hpos := Nat.two_pow_pos (nd lst).length
  have hk : 2 ^ (nd lst).length - 1 - n0 < (selectSublist lst).length := by omega
  refine ⟨2 ^ (nd lst).length - 1 - n0, hk, ?_, ?_, ?_⟩
  · rw [getElem_selectSublist]
    have : 2 ^ (nd lst).length - 1 - (2 ^ (nd lst).length - 1 - n0) = n0 := by omega
    rw [this]
    exact (hiff n0 hlt).2 rfl
  · rw [getElem_selectSublist]
    have : 2 ^ (nd lst).length - 1 - (2 ^ (nd lst).length - 1 - n0) = n0 := by omega
    rw [this]
    exact hterms
  · intro j hj h
    rw [getElem_selectSublist] at h
    have := (hiff (2 ^ (nd lst).length - 1 - j) (by omega)).1 h
    omega

example : ∀ lst : List (Term × Node), (selectSublist lst).length > 0 := by
  intro lst; obtain ⟨k, hk, _⟩ := C19_select_partition lst (fun _ => true); omega

/-- The same fact as a count: the list of generated pairs whose condition holds in the world `v` is a singleton,
    and its only member lists the true elements. -/
theorem C19_select_partition_filter (lst : List (Term × Node)) (v : Int → Bool) :
    ∃ p, (selectSublist lst).filter (fun p => p.2.all (Node.eval v)) = [p] ∧
      p.1 = (lst.filter (fun e => e.2.eval v)).map (·.1) :=
  filter_selectSublist v lst

/-- A list in which node 3 occurs twice and complemented, next to deterministic elements: 16 pairs are
    generated, 12 of them with an unsatisfiable condition; in the world where 3 is true and 5 false only the pair
    `[a, b, a]` holds. -/
example :
    let lst : List (Term × Node) := [("a", .lit 3), ("b", .tt), ("c", .ff), ("a", .lit 3), ("d", .lit (-3)), ("e", .lit 5)]
    (selectSublist lst).length = 16 ∧
    (selectSublist lst).filter (fun p => p.2.all (Node.eval (fun i => i == 3)))
      = [(["a", "b", "a"], [.lit 3, .tt, .lit 3, .tt, .lit 3, .lit (-5), .tt])] := by
  decide

/-- Generation order and the shape of the conditions on a small list (mask 3, 2, 1, 0). -/
example :
    selectSublist [("a", .lit 1), ("b", .ff), ("c", .lit (-2))] =
      [(["a", "c"], [.lit 1, .lit (-2), .tt, .tt]),
       (["c"], [.lit (-2), .lit (-1), .tt, .tt]),
       (["a"], [.lit 1, .tt, .lit 2, .tt]),
       ([], [.lit (-1), .tt, .lit 2, .tt])] := by
  decide

/-- The number of generated pairs is `2 ^ (number of elements whose node is neither TRUE nor FALSE)`. -/
theorem C19_pairs_count (lst : List (Term × Node)) :
    (selectSublist lst).length = 2 ^ (lst.filter (fun e => !e.2.isDet)).length :=
  length_selectSublist lst

example : (selectSublist [("a", .lit 1), ("b", .ff), ("c", .lit (-2)), ("d", .tt)]).length = 4 := by decide

/-- all/3 (`allow_none = False`) never produces the empty list; the pairs it processes are exactly the findall/3
    pairs with a non-empty list, and with `allow_none = True` they are all findall/3 pairs. -/
theorem C19_all_excludes_empty (lst : List (Term × Node)) :
    (∀ p ∈ allPairs false lst, p.1 ≠ []) ∧
    allPairs false lst = (findallPairs lst).filter (fun p => !p.1.isEmpty) ∧
    allPairs true lst = findallPairs lst := by
  refine ⟨?_, ?_, ?_⟩
  · intro p hp
    simp only [allPairs, List.mem_filter] at hp
    intro h
    simp [h] at hp
  · simp [allPairs, findallPairs]
  · simp [allPairs, findallPairs]

example : allPairs false [("a", .lit 1)] = [(["a"], [.lit 1, .tt])] ∧
    allPairs true [("a", .lit 1)] = [(["a"], [.lit 1, .tt]), ([], [.lit (-1), .tt])] := by decide

/-- World semantics of all/3: in a world where no element is true no pair of `allPairs false` holds (all/3
    fails there); in every other world exactly one holds and it lists the true elements. -/
theorem C19_all_partition (lst : List (Term × Node)) (v : Int → Bool) :
    ((lst.filter (fun e => e.2.eval v)).map (·.1) = [] →
      (allPairs false lst).filter (fun p => p.2.all (Node.eval v)) = []) ∧
    ((lst.filter (fun e => e.2.eval v)).map (·.1) ≠ [] →
      ∃ p, (allPairs false lst).filter (fun p => p.2.all (Node.eval v)) = [p] ∧
        p.1 = (lst.filter (fun e => e.2.eval v)).map (·.1)) := by
  obtain ⟨p, hp, hterms⟩ := filter_selectSublist v lst
  have hcomm : (allPairs false lst).filter (fun p => p.2.all (Node.eval v))
      = ((selectSublist lst).filter (condHolds v)).filter (fun p => !(p.1.isEmpty && !false)) := by
    simp only [allPairs, List.filter_filter]
    apply List.filter_congr
    intro x _
    simp [condHolds, Bool.and_comm]
  rw [hcomm, hp]
  constructor
  · intro h
    have : p.1 = [] := hterms.trans h
    simp [this]
  · intro h
    have : p.1 ≠ [] := by rw [hterms]; exact h
    refine ⟨p, ?_, hterms⟩
    have h' : p.1.isEmpty = false := by simpa using this
    simp [h']

example : (allPairs false [("a", .lit 1), ("b", .lit 1)]).filter (fun p => p.2.all (Node.eval (fun _ => false))) = []
    ∧ (allPairs false [("a", .lit 1), ("b", .lit 1)]).filter (fun p => p.2.all (Node.eval (fun _ => true)))
      = [(["a", "b"], [.lit 1, .lit 1, .tt])] := by decide

/-- A pair dropped because `add_and` of its condition is FALSE (a FALSE component or opposite literals) has a
    condition that is false in every world … -/
theorem C19_dropped_unsat (ns : List Node) (h : conjIsFalse ns = true) (v : Int → Bool) :
    ns.all (Node.eval v) = false :=
  conjIsFalse_unsat v h

example : conjIsFalse [.lit 3, .tt, .lit (-3), .tt] = true ∧ conjIsFalse [.lit 3, .ff] = true
    ∧ conjIsFalse [.lit 3, .lit (-5), .tt] = false := by decide

/-- … hence dropping them loses nothing: among the kept pairs still exactly one holds in every world. -/
theorem C19_kept_partition (lst : List (Term × Node)) (v : Int → Bool) :
    ∃ p, (keptPairs (findallPairs lst)).filter (fun p => p.2.all (Node.eval v)) = [p] ∧
      p.1 = (lst.filter (fun e => e.2.eval v)).map (·.1) := by
  obtain ⟨p, hp, hterms⟩ := filter_selectSublist v lst
  refine ⟨p, ?_, hterms⟩
  have hcomm : (keptPairs (findallPairs lst)).filter (fun p => p.2.all (Node.eval v))
      = ((selectSublist lst).filter (condHolds v)).filter (fun p => !conjIsFalse p.2) := by
    simp only [keptPairs, findallPairs, List.filter_filter]
    apply List.filter_congr
    intro x _
    simp [condHolds, Bool.and_comm]
  rw [hcomm, hp]
  have hmem : p ∈ (selectSublist lst).filter (condHolds v) := by rw [hp]; simp
  have hc : condHolds v p = true := (List.mem_filter.1 hmem).2
  have : conjIsFalse p.2 = false := by
    cases hcf : conjIsFalse p.2 with
    | false => rfl
    | true =>
      have := conjIsFalse_unsat v hcf
      simp only [condHolds] at hc
      rw [this] at hc; cases hc
  simp [this]

example : (keptPairs (findallPairs [("a", .lit 3), ("d", .lit (-3))])).map (·.1) = [["d"], ["a"]] := by decide

end ProbLogProofs.C19
