import ProbLogModel.TermCache
/-!
# C18 — a term reached through the `functor` setter hashes / prints like a freshly built one

Invariant by induction over operation histories: every memo field that is filled holds the value a recomputation from
the current functor would give.  Hence after ANY history of `hash` / `signature` / `str` / `functor = g` operations the
observable answers are those of a fresh term with the current functor — in particular `==` terms have equal hashes.
The pre-repair setter (which left the list length and the printed form in place) breaks the invariant: refutation below.
-/
namespace ProbLogProofs.C18
open ProbLogModel.TermCache

def Inv (s : St) : Prop :=
  (∀ h, s.cHash = some h → h = (s.functor, listLen s.functor s.tailLen)) ∧
  (∀ g, s.cSig = some g → g = s.functor) ∧
  (∀ l, s.cLen = some l → l = listLen s.functor s.tailLen) ∧
  (∀ g, s.cRepr = some g → g = s.functor)

theorem C18_cache_inv_init (f t : Nat) : Inv { functor := f, tailLen := t } := by
  simp [Inv]

theorem C18_cache_inv_step (s : St) (op : Op) (h : Inv s) : Inv (step s op).1 ∧ (step s op).2 = fresh s op := by
  obtain ⟨h1, h2, h3, h4⟩ := h
  cases op with
  | hash =>
    unfold step
    cases hc : s.cHash with
    | some v => exact ⟨⟨h1, h2, h3, h4⟩, by simp [fresh, h1 v hc]⟩
    | none =>
      unfold St.len
      cases hl : s.cLen with
      | some l => have := h3 l hl; subst this; simp_all [Inv, fresh]
      | none =>
        by_cases hb : (isDot s.functor && decide (0 < s.tailLen) && s.tailCached) = true
        · simp only [hl, hb, if_true]; simp_all [Inv, fresh]
        · simp only [hl, hb]; simp_all [Inv, fresh]
  | sig =>
    unfold step
    cases hc : s.cSig with
    | some v => exact ⟨⟨h1, h2, h3, h4⟩, by simp [fresh, h2 v hc]⟩
    | none => simp_all [Inv, fresh]
  | str =>
    unfold step
    cases hc : s.cRepr with
    | some v => exact ⟨⟨h1, h2, h3, h4⟩, by simp [fresh, h4 v hc]⟩
    | none => simp_all [Inv, fresh]
  | setFunctor g => simp [step, Inv, fresh]

/-- Run a history, collecting the observations. -/
def runOps (s : St) : List Op → St × List (Nat × Nat)
  | [] => (s, [])
  | op :: ops => let (s', o) := step s op; let (s'', os) := runOps s' ops; (s'', o :: os)

/-- **Every reachable state**: after any history from a freshly built term the invariant holds, so the next
    observation is the one a fresh term with the current functor gives. -/
theorem C18_cache_history (f t : Nat) (ops : List Op) (op : Op) :
    Inv (runOps { functor := f, tailLen := t } ops).1 ∧
    (step (runOps { functor := f, tailLen := t } ops).1 op).2 = fresh (runOps { functor := f, tailLen := t } ops).1 op := by
  suffices H : ∀ s, Inv s → Inv (runOps s ops).1 from
    ⟨H _ (C18_cache_inv_init f t), (C18_cache_inv_step _ op (H _ (C18_cache_inv_init f t))).2⟩
  induction ops with
  | nil => intro s hs; exact hs
  | cons o os ih => intro s hs; exact ih _ (C18_cache_inv_step s o hs).1

/-- The pre-repair setter: `[a]` hashed, renamed to `g` (id 1), hashed again answers list length 1 instead of 0. -/
theorem C18_cache_old_setter_refuted :
    let s0 : St := { functor := 0, tailLen := 0 }
    let s1 := (stepOld s0 .hash).1
    let s2 := (stepOld s1 (.setFunctor 1)).1
    (stepOld s2 .hash).2 = (1, 1) ∧ fresh s2 .hash = (1, 0) := by decide

end ProbLogProofs.C18
