/-
C20 — MPE returns a most probable world consistent with the evidence.

Semiring mode (`mpe_semiring`): `FormulaEvaluatorNSP` + `SemiringMPEState` on an NNF.  On a *decomposable* NNF
(children of every conjunction over pairwise disjoint atoms; determinism is not needed, smoothing is done by the
evaluator) the value is the maximum over the assignments satisfying the formula of the product of the literal weights
and the literal set names a maximising assignment (`C20_maxprod*`).  The NNF `mpe_semiring` evaluates is in general
not decomposable and does not contain the AD constraints: both break the statement (`*_refuted`, known findings).

MaxSAT mode (`mpe_maxsat`): the weighted CNF of `CNF._contents(weighted=int)`: the cost of an assignment is minus the
quantised log-probability (`C20_cost_eq_neg_obj`), so an optimal solution is a model of CNF ∧ evidence maximising it
(`C20_wcnf_opt`) and is within `n·10⁻⁴` of the MPE in log space (`C20_wcnf_quant`); the hard clauses are exactly the
clauses of the CNF (with the evidence constraints), so "unsatisfiable" means no model (`C20_unsat`).
-/
import ProbLogProofs.Lemmas.MPEMain
import ProbLogProofs.Lemmas.MPEWcnf

namespace ProbLogProofs.C20
open ProbLogModel.MPE ProbLogModel.Clark ProbLogProofs.MPE

/-- Decomposable NNF, non-negative weights: no satisfying assignment has a larger product of literal weights than the
    evaluated value (over the atoms of the formula). -/
theorem C20_maxprod_bound (W : Weights) (hW : NonNeg W) (φ : NNF) (hdec : φ.dec = true) (m : Nat → Bool)
    (hs : φ.sat m = true) : prodF W m φ.vars ≤ (φ.eval plus W).val.p := by
  obtain ⟨h, hu⟩ := spec_eval hW φ hdec
  have := h.bound m hs
  rwa [hu] at this

/-- … and a positive value is attained by a satisfying assignment whose literals carry exactly the returned set. -/
theorem C20_maxprod_witness (W : Weights) (hW : NonNeg W) (φ : NNF) (hdec : φ.dec = true)
    (hp : 0 < (φ.eval plus W).val.p) :
    ∃ m, φ.sat m = true ∧ prodF W m φ.vars = (φ.eval plus W).val.p ∧
      ∀ x, x ∈ (φ.eval plus W).val.lab ↔ ∃ v ∈ φ.vars, x ∈ labOf W m v := by
  obtain ⟨h, hu⟩ := spec_eval hW φ hdec
  obtain ⟨m, hs, hpm, hl⟩ := h.wit hp
  refine ⟨m, hs, by rwa [hu] at hpm, ?_⟩
  intro x
  have := hl x
  rwa [hu] at this

/-- `kc.evaluate(semiring)[query]` (`evalTop`: with the final smoothing over all weighted atoms): the result is the
    maximum, over total assignments of the atoms `topVars` satisfying the formula, of the product of literal weights;
    when it is positive the literal set is that of a maximiser. -/
theorem C20_maxprod (W : Weights) (hW : NonNeg W) (φ : NNF) (hdec : φ.dec = true) (allAtoms : List Nat)
    (hall : allAtoms.Nodup) :
    (∀ m, φ.sat m = true → prodF W m (topVars allAtoms φ) ≤ (evalTop plus W allAtoms φ).p) ∧
    (0 < (evalTop plus W allAtoms φ).p →
      ∃ m, φ.sat m = true ∧ prodF W m (topVars allAtoms φ) = (evalTop plus W allAtoms φ).p ∧
        ∀ x, x ∈ (evalTop plus W allAtoms φ).lab ↔ ∃ v ∈ topVars allAtoms φ, x ∈ labOf W m v) := by
  have h := spec_evalTop hW φ hdec allAtoms hall
  exact ⟨h.bound, h.wit⟩

/-- standard weights of a probabilistic fact `p::v` : `pos_value = (p, {v})`, `neg_value = (1-p, {-v})` -/
def exW : Weights := fun v => (⟨(3 : Rat) / 10, [(v : Int)]⟩, ⟨(7 : Rat) / 10, [-(v : Int)]⟩)

/-- non-vacuity: a decomposable formula, `(a ∧ ¬b) ∨ b`; the MPE is `¬a ∧ b` with `0.7·0.7`… evaluated: `0.3·0.7` vs
    `0.7·max(0.3,0.7)`. -/
example : (NNF.or [.and [.lit 1, .lit (-2)], .lit 2]).dec = true ∧
    (evalTop plus exW [1, 2] (NNF.or [.and [.lit 1, .lit (-2)], .lit 2])).p = 21 / 100 := by
  constructor
  · decide
  · simp [evalTop, NNF.eval, evalL, orRes, andRes, allUsed, unionAll, unionU, notUsed, smooth, plus, times, exW, zero, one]
    norm_num

/-- Refutation for non-decomposable formulas (what `mpe_semiring` evaluates): `f ∧ (f ∧ c)` multiplies the weight of
    `f` twice — value `0.3·0.3·0.3` although the satisfying assignment `f, c` has weight `0.3·0.3`. -/
theorem C20_maxprod_nondecomposable_refuted :
    ∃ (W : Weights) (φ : NNF) (m : Nat → Bool), NonNeg W ∧ φ.dec = false ∧ φ.sat m = true ∧
      (φ.eval plus W).val.p < prodF W m φ.vars := by
  refine ⟨exW, .and [.lit 1, .and [.lit 1, .lit 2]], fun _ => true, ?_, by decide, by decide, ?_⟩
  · intro v; constructor <;> simp [exW] <;> norm_num
  · simp [NNF.eval, evalL, andRes, unionU, times, exW, one, prodF, wOf, NNF.vars, varsL, unionAll]
    norm_num

/-- Refutation for annotated disjunctions: with `0.3::a; 0.6::b` the heads are atoms 1, 2 with weights `(p, 1)`; the
    evidence `a ∧ b` is decomposable and gets the value `0.18 > 0`, although no assignment satisfies it together with
    the AD constraint "at most one head". -/
theorem C20_semiring_ad_refuted :
    ∃ (W : Weights) (φ : NNF), NonNeg W ∧ φ.dec = true ∧ 0 < (φ.eval plus W).val.p ∧
      ∀ m : Nat → Bool, φ.sat m = true → ¬ (!(m 1 && m 2)) = true := by
  refine ⟨fun v => (⟨if v = 1 then 3 / 10 else 6 / 10, [(v : Int)]⟩, ⟨1, []⟩), .and [.lit 1, .lit 2], ?_, by decide, ?_, ?_⟩
  · intro v; constructor
    · simp only; split <;> norm_num
    · simp
  · simp [NNF.eval, evalL, andRes, times, one]
    norm_num
  · intro m hm
    simp [NNF.sat, satAll] at hm
    simp [hm.1, hm.2]

/-! ### MaxSAT mode -/

/-- In the WCNF emitted for a CNF, the cost of an assignment (total weight of the falsified soft clauses) is minus
    the quantised objective `Σ_a ⌊10⁴·log w(a's literal)⌋`. -/
theorem C20_cost_eq_neg_obj (inv : Bool) (n : Nat) (cls : List RawClause) (ws : List (Nat × LogW × LogW)) (w : WCNF)
    (h : contents inv n cls ws = some w) (v : Nat → Bool) :
    cost v w.soft = -(quantObj inv ws n v) := by
  unfold contents at h
  cases hh : cls.mapM rawLits with
  | none => simp [hh] at h
  | some hard =>
    simp only [hh, Option.bind_eq_bind, Option.bind_some, Option.some.injEq] at h
    subst h
    exact cost_flatMap inv ws v _ (atoms_pos n)

/-- the hard clauses are the literal lists of the CNF's clauses (node clauses, constraints, evidence) -/
theorem hard_eq (inv : Bool) (n : Nat) (cls : List RawClause) (ws : List (Nat × LogW × LogW)) (w : WCNF)
    (h : contents inv n cls ws = some w) : cls.mapM rawLits = some w.hard := by
  unfold contents at h
  cases hh : cls.mapM rawLits with
  | none => simp [hh] at h
  | some hard =>
    simp only [hh, Option.bind_eq_bind, Option.bind_some, Option.some.injEq] at h
    subst h; rfl

/-- An optimal solution of the emitted WCNF (all hard clauses satisfied, minimal cost among such assignments) is a
    model of the CNF with the evidence constraints that maximises the quantised log-probability among all models. -/
theorem C20_wcnf_opt (inv : Bool) (n : Nat) (cls : List RawClause) (ws : List (Nat × LogW × LogW)) (w : WCNF)
    (h : contents inv n cls ws = some w) (v : Nat → Bool) (hsat : satCNF v w.hard = true)
    (hopt : ∀ v', satCNF v' w.hard = true → cost v w.soft ≤ cost v' w.soft) :
    cls.mapM rawLits = some w.hard ∧ satCNF v w.hard = true ∧
      ∀ v', satCNF v' w.hard = true → quantObj inv ws n v' ≤ quantObj inv ws n v := by
  refine ⟨hard_eq inv n cls ws w h, hsat, ?_⟩
  intro v' hv'
  have := hopt v' hv'
  rw [C20_cost_eq_neg_obj inv n cls ws w h v, C20_cost_eq_neg_obj inv n cls ws w h v'] at this
  omega

/-- Quantisation: if all weights are log-probabilities (`≤ 0`), an optimal solution `v` loses at most `n·10⁻⁴` in
    log space against any model `v'` of CNF ∧ evidence (`n` = number of variables): `(L v' − L v)·10⁴ ≤ n`. -/
theorem C20_wcnf_quant (n : Nat) (cls : List RawClause) (ws : List (Nat × LogW × LogW)) (w : WCNF)
    (h : contents false n cls ws = some w) (hlog : ∀ a, clampW (lookupLW ws a).1 ≤ 0 ∧ clampW (lookupLW ws a).2 ≤ 0)
    (v : Nat → Bool) (hsat : satCNF v w.hard = true)
    (hopt : ∀ v', satCNF v' w.hard = true → cost v w.soft ≤ cost v' w.soft)
    (v' : Nat → Bool) (hv' : satCNF v' w.hard = true) :
    (logObj ws n v' - logObj ws n v) * 10000 ≤ n := by
  have hq := (C20_wcnf_opt false n cls ws w h v hsat hopt).2.2 v' hv'
  have term : ∀ (u : Nat → Bool) (a : Nat), logTerm ws u a * 10000 ≤ (objTerm false ws u a : Rat) ∧
      (objTerm false ws u a : Rat) ≤ logTerm ws u a * 10000 + 1 := by
    intro u a
    unfold logTerm objTerm
    split
    · have := truncInt_nonpos (clampW (lookupLW ws a).1 * wMult)
        (by unfold wMult; nlinarith [(hlog a).1])
      simp only [wt, Bool.false_eq_true, if_false, wt1]
      unfold wMult at this ⊢
      constructor <;> linarith [this.1, this.2]
    · have := truncInt_nonpos (clampW (lookupLW ws a).2 * wMult)
        (by unfold wMult; nlinarith [(hlog a).2])
      simp only [wt, Bool.false_eq_true, if_false, wt1]
      unfold wMult at this ⊢
      constructor <;> linarith [this.1, this.2]
  have b1 := quant_bounds (objTerm false ws v') (logTerm ws v') ((List.range n).map (· + 1)) (fun a _ => term v' a)
  have b2 := quant_bounds (objTerm false ws v) (logTerm ws v) ((List.range n).map (· + 1)) (fun a _ => term v a)
  have e1 : quantObj false ws n v' = ((List.range n).map (· + 1)).foldl (fun s a => s + objTerm false ws v' a) 0 := rfl
  have e2 : quantObj false ws n v = ((List.range n).map (· + 1)).foldl (fun s a => s + objTerm false ws v a) 0 := rfl
  have hq' : ((quantObj false ws n v' : Int) : Rat) ≤ ((quantObj false ws n v : Int) : Rat) := by exact_mod_cast hq
  rw [e1, e2] at hq'
  have hlen : (((List.range n).map (· + 1)).length : Rat) = n := by simp
  unfold logObj
  rw [hlen] at b2
  linarith [b1.1, b2.2]

/-- "Unsatisfiable": the hard clauses have no model iff CNF ∧ evidence constraints (the stored clauses, heads
    `None`/`False` dropped as `_contents` does) have none — they are the same clause list. -/
theorem C20_unsat (inv : Bool) (n : Nat) (cls : List RawClause) (ws : List (Nat × LogW × LogW)) (w : WCNF)
    (h : contents inv n cls ws = some w) :
    (¬ ∃ v, satCNF v w.hard = true) ↔ ∀ lits, cls.mapM rawLits = some lits → ¬ ∃ v, satCNF v lits = true := by
  have he := hard_eq inv n cls ws w h
  constructor
  · intro hno lits hl
    rw [he] at hl
    cases hl
    exact hno
  · intro hall
    exact hall w.hard he

/-- non-vacuity: `0.5::a. evidence(a)` (atom 1, clauses `[1,-1]` and the evidence constraint `[False, 1]`);
    `log 0.5 ≈ -0.6931`: cost of `a = true` is `6931`. -/
example : ∃ w, contents false 1 [⟨.lit 1, [-1]⟩, ⟨.bool false, [1]⟩]
      [(1, some (-6931471805599453 / 10000000000000000), some (-6931471805599453 / 10000000000000000))] = some w ∧
    w.hard = [[1, -1], [1]] ∧ cost (fun _ => true) w.soft = 6931 ∧ satCNF (fun _ => true) w.hard = true := by
  refine ⟨_, rfl, ?_, ?_, ?_⟩ <;> decide +kernel

end ProbLogProofs.C20
