import ProbLogModel.Sem
import ProbLogProofs.Lemmas.SemGamma
import ProbLogProofs.Lemmas.SemRules
import ProbLogProofs.Lemmas.SemGroupsRun
import ProbLogProofs.Lemmas.SemRun
/-!
# C07 — marginals do not depend on the textual order of the program (specification level)

The reference semantics `Sem.run` (least model `gamma`, well-founded model `wfm`, relevance restriction, world
enumeration) is invariant under permuting the rule list and under permuting the atoms inside the positive and
inside the negative body of every rule. All statements are unconditional (no well-formedness hypothesis).
-/
namespace ProbLogProofs.C07
open ProbLogModel.Sem ProbLogProofs.SemGamma ProbLogProofs.SemRules

/-- The least model of the reduct does not depend on the clause order. -/
theorem C07_perm_clauses_gamma {rules rules' : List Rule} (h : rules.Perm rules') (chosen : Array Bool)
    (natoms : Nat) (ctx : Array Bool) :
    gamma rules chosen natoms ctx = gamma rules' chosen natoms ctx :=
  gamma_congr (REqv.of_perm h).1 (REqv.of_perm h).2 chosen natoms ctx

/-- ... nor on the order of the atoms inside the positive / negative body of each rule. -/
theorem C07_perm_body {rules rules' : List Rule} (h : BodyPerms rules rules') (chosen : Array Bool)
    (natoms : Nat) (ctx : Array Bool) :
    gamma rules chosen natoms ctx = gamma rules' chosen natoms ctx :=
  gamma_congr (REqv.of_bodyPerms h).1 (REqv.of_bodyPerms h).2 chosen natoms ctx

/-- Strongest form: `gamma` only depends on the *set* of rules, each rule read up to the sets of its body atoms
    (duplicates of clauses or of body atoms are irrelevant too). -/
theorem C07_gamma_set_of_rules {rules rules' : List Rule} (h : REqv rules rules') (chosen : Array Bool)
    (natoms : Nat) (ctx : Array Bool) :
    gamma rules chosen natoms ctx = gamma rules' chosen natoms ctx :=
  gamma_congr h.1 h.2 chosen natoms ctx

/-- The well-founded model (alternating fixpoint) does not depend on the clause order. -/
theorem C07_perm_clauses_wfm {rules rules' : List Rule} (h : rules.Perm rules') (chosen : Array Bool)
    (natoms : Nat) : wfm rules chosen natoms = wfm rules' chosen natoms :=
  wfm_congr (REqv.of_perm h) chosen natoms

theorem C07_perm_body_wfm {rules rules' : List Rule} (h : BodyPerms rules rules') (chosen : Array Bool)
    (natoms : Nat) : wfm rules chosen natoms = wfm rules' chosen natoms :=
  wfm_congr (REqv.of_bodyPerms h) chosen natoms

/-- The set of relevant atoms does not depend on the clause order. -/
theorem C07_perm_clauses_relevant {rules rules' : List Rule} (h : rules.Perm rules') (natoms : Nat)
    (roots : List Nat) : relevantAtoms rules natoms roots = relevantAtoms rules' natoms roots :=
  relevantAtoms_congr (REqv.of_perm h) natoms roots

/-- The whole result of the reference semantics (evidence probability, every numerator, the number of worlds with a
    non-two-valued well-founded model, the number of worlds) does not depend on the clause order. -/
theorem C07_perm_clauses_run (P : Prog) {rules' : List Rule} (h : P.rules.Perm rules') (queries : List Nat)
    (evidence : List (Nat × Bool)) :
    run { P with rules := rules' } queries evidence = run P queries evidence :=
  run_congr_rules P (REqv.of_perm h) queries evidence

/-- ... nor on the order of the atoms inside rule bodies. -/
theorem C07_perm_body_run (P : Prog) {rules' : List Rule} (h : BodyPerms P.rules rules') (queries : List Nat)
    (evidence : List (Nat × Bool)) :
    run { P with rules := rules' } queries evidence = run P queries evidence :=
  run_congr_rules P (REqv.of_bodyPerms h) queries evidence

/-- The whole result does not depend on the order of the groups (probabilistic facts / annotated disjunctions):
    the total choices of a permuted group list are the same up to the order inside `chosen`, `run` only uses
    membership in `chosen`, and its sums are commutative. -/
theorem C07_perm_groups_run (P : Prog) {gs' : List Group} (h : P.groups.Perm gs') (queries : List Nat)
    (evidence : List (Nat × Bool)) :
    run { P with groups := gs' } queries evidence = run P queries evidence :=
  SemGroupsRun.run_perm_groups P h queries evidence

/-- The order of the evidence statements is irrelevant. -/
theorem C07_perm_evidence_run (P : Prog) (queries : List Nat) {ev ev' : List (Nat × Bool)} (h : ev.Perm ev') :
    run P queries ev' = run P queries ev :=
  SemRun.run_perm_evidence P queries h

/-- The order of the query statements is irrelevant: `z` and the counters are unchanged and every query keeps its
    numerator (the numerator list is permuted along with the queries). -/
theorem C07_perm_queries_run (P : Prog) {qs qs' : List Nat} (h : qs.Perm qs') (evidence : List (Nat × Bool)) :
    (run P qs' evidence).z = (run P qs evidence).z ∧
    (run P qs' evidence).undefWorlds = (run P qs evidence).undefWorlds ∧
    (run P qs' evidence).nworlds = (run P qs evidence).nworlds ∧
    (List.zip qs' (run P qs' evidence).num).Perm (List.zip qs (run P qs evidence).num) := by
  have hroots : ∀ a, a ∈ qs' ++ evidence.map (·.1) ↔ a ∈ qs ++ evidence.map (·.1) := by
    intro a; simp only [List.mem_append, h.mem_iff]
  obtain ⟨h1, h2, h3, h4⟩ := SemRun.roots_congr P hroots evidence
  rw [SemRun.run_eq_sums, SemRun.run_eq_sums, h1, h2, h3, h4]
  refine ⟨rfl, rfl, rfl, ?_⟩
  rw [SemRun.zip_map_self, SemRun.zip_map_self]
  exact h.symm.map _

/-! ### non-vacuity: `0.3::c0. 0.6::c1. a0 :- c0. a1 :- a0, \+a2. a2 :- c1. a1 :- a2, a0.` -/

def exRules : List Rule :=
  [⟨0, [], [], some 0⟩, ⟨1, [0], [2], none⟩, ⟨2, [], [], some 1⟩, ⟨1, [2, 0], [], none⟩]
def exRulesPerm : List Rule :=
  [⟨1, [2, 0], [], none⟩, ⟨2, [], [], some 1⟩, ⟨1, [0], [2], none⟩, ⟨0, [], [], some 0⟩]
def exRulesBody : List Rule :=
  [⟨0, [], [], some 0⟩, ⟨1, [0], [2], none⟩, ⟨2, [], [], some 1⟩, ⟨1, [0, 2], [], none⟩]
def exProg : Prog := ⟨3, 2, exRules, [⟨[(3/10, 0)]⟩, ⟨[(3/5, 1)]⟩]⟩

example : exRules.Perm exRulesPerm := by decide
example : BodyPerms exRules exRulesBody :=
  .cons ⟨rfl, rfl, .refl _, .refl _⟩ (.cons ⟨rfl, rfl, .refl _, .refl _⟩ (.cons ⟨rfl, rfl, .refl _, .refl _⟩
    (.cons ⟨rfl, rfl, by decide, .refl _⟩ .nil)))
example : (gamma exRules #[true, false] 3 #[false, false, false]).toList = [true, true, false] := by decide
example : (gamma exRulesPerm #[true, false] 3 #[false, false, false]).toList = [true, true, false] := by decide
example : ((wfm exRules #[true, true] 3).1.toList, (wfm exRules #[true, true] 3).2.toList) =
    ([true, true, true], [true, true, true]) := by decide
example : (run exProg [1] [(0, true)]).z = 3/10 ∧ (run exProg [1] [(0, true)]).num = [3/10] := by
  decide +kernel
example : (run { exProg with rules := exRulesPerm } [1] [(0, true)]).num = [3/10] := by decide +kernel

example : exProg.groups.Perm [⟨[(3/5, 1)]⟩, ⟨[(3/10, 0)]⟩] := List.Perm.swap _ _ _
example : (run { exProg with groups := [⟨[(3/5, 1)]⟩, ⟨[(3/10, 0)]⟩] } [1] [(0, true)]).num = [3/10] := by
  decide +kernel

example : [((0 : Nat), true), (2, false)].Perm [(2, false), (0, true)] := List.Perm.swap _ _ _
example : (run exProg [1] [(2, false), (0, true)]).z = 3/25 ∧ (run exProg [1] [(0, true), (2, false)]).z = 3/25 ∧
    (run exProg [2, 1] [(0, true)]).num = [9/50, 3/10] ∧ (run exProg [1, 2] [(0, true)]).num = [3/10, 9/50] := by
  decide +kernel

end ProbLogProofs.C07
