import ProbLogModel.Sem
/-!
# C07 — marginals do not depend on the textual order of the program (property theorems only)
-/
namespace ProbLogProofs.C07
open ProbLogModel.Sem

/-- Base case kept as a first obligation; the permutation-invariance theorems are added below it. -/
theorem C07_perm_worlds_nil : (worlds []).length = 1 := rfl

end ProbLogProofs.C07
