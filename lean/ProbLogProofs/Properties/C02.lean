import ProbLogModel.Sem
/-!
# C02 — property theorems only (specification-level statements; see harness/props/c02.py for the tie to the code)
-/
namespace ProbLogProofs.C02
open ProbLogModel.Sem

/-- The specification's result for the empty choice space: a single world of weight 1 (first obligation). -/
theorem C02_spec_base : (worlds []).map (·.weight) = [1] := rfl

end ProbLogProofs.C02
