import ProbLogProofs.Properties.C01GroundFOSem
/-!
# Non-vacuity of the hypotheses of `C01GroundFOSem.lean`

`IsModelFO` is satisfiable: for a program that consists of (probabilistic) facts only the completion defines its model
outright (`isModelFO_facts`); the theorems then apply to it (example below).  For programs with rules the model is the
well-founded model of the Herbrand instantiation - that link is checked per program (`Drivers.GroundFOCheck`), not
proved.
-/
namespace ProbLogProofs.C01GroundFO
open ProbLogModel ProbLogModel.Formula ProbLogModel.GroundFO ProbLogProofs.GroundFOSem
open ProbLogModel.Sem (getB)

def factTrue (chosen : Array Bool) (a : List Const) : Clause → Bool
  | .fact args ident prob => args == a && (prob.isNone || getB chosen ident)
  | .rule _ _ _ _ => false

def Mfacts (P : Prog) (chosen : Array Bool) : Model := fun p a => (P.clausesOf p).any (factTrue chosen a)

theorem isModelFO_facts (P : Prog) (chosen : Array Bool)
    (hf : ∀ p, ∀ c ∈ P.clausesOf p, ∃ args ident prob, c = Clause.fact args ident prob) :
    IsModelFO P chosen (Mfacts P chosen) := by
  intro p a
  unfold Mfacts
  rw [List.any_eq_true]
  constructor
  · rintro ⟨c, hc, ht⟩
    refine ⟨c, hc, ?_⟩
    obtain ⟨args, ident, prob, rfl⟩ := hf p c hc
    simp only [factTrue, Bool.and_eq_true, beq_iff_eq, Bool.or_eq_true, Option.isNone_iff_eq_none] at ht
    exact ht
  · rintro ⟨c, hc, hd⟩
    refine ⟨c, hc, ?_⟩
    obtain ⟨args, ident, prob, rfl⟩ := hf p c hc
    simp only [factTrue, Bool.and_eq_true, beq_iff_eq, Bool.or_eq_true, Option.isNone_iff_eq_none]
    exact hd

/-- `0.3::f(a). 0.4::f(b). e(a,b).` -/
def exFacts : Prog :=
  { nconsts := 2
    defs := [(0, [.fact [0] 0 (some (3/10)), .fact [1] 1 (some (2/5))]), (1, [.fact [0, 1] 2 none])]
    nameBase := [(0, 0), (1, 2)] }

theorem exFacts_facts : ∀ p, ∀ c ∈ exFacts.clausesOf p, ∃ args ident prob, c = Clause.fact args ident prob := by
  intro p c hc
  unfold Prog.clausesOf exFacts at hc
  simp only [lookup] at hc
  split at hc
  · simp only [Option.getD_some, List.mem_cons, List.mem_nil_iff, or_false] at hc
    rcases hc with rfl | rfl <;> exact ⟨_, _, _, rfl⟩
  · split at hc
    · simp only [Option.getD_some, List.mem_cons, List.mem_nil_iff, or_false] at hc
      subst hc; exact ⟨_, _, _, rfl⟩
    · simp at hc

theorem exFacts_vars : VarsOK exFacts := by
  intro p c hc head n body ch he
  obtain ⟨_, _, _, rfl⟩ := exFacts_facts p c hc
  cases he

/-- `query(f(_))` on the facts: both instances are reported, with keys whose value is the fact's choice -/
example (chosen : Array Bool) :
    ∃ rss st', groundAll exFacts (fun _ => []) 3 [⟨0, [.v 0], .query, 9⟩] {} = .ok (rss, st') ∧
      ∀ (hr : 0 < rss.length), ∀ r ∈ rss[0], ∀ ρ, Consistent st'.store ρ → GroundInv.Agree chosen st'.store ρ →
        keyVal ρ r.2 = Mfacts exFacts chosen 0 r.1 := by
  have hrun : ∃ rss st', groundAll exFacts (fun _ => []) 3 [⟨0, [.v 0], .query, 9⟩] {} = .ok (rss, st') := by
    cases h : groundAll exFacts (fun _ => []) 3 [⟨0, [.v 0], .query, 9⟩] {} with
    | ok r => exact ⟨r.1, r.2, rfl⟩
    | error e =>
      exfalso
      have : (match groundAll exFacts (fun _ => []) 3 [⟨0, [.v 0], .query, 9⟩] {} with
        | .ok _ => true | .error _ => false) = true := by decide +kernel
      rw [h] at this; cases this
  obtain ⟨rss, st', h⟩ := hrun
  refine ⟨rss, st', h, fun hr r hrm ρ a b => ?_⟩
  obtain ⟨_, _, _, _, hc⟩ := C01_groundFO_correct_partial exFacts exFacts_vars chosen (Mfacts exFacts chosen)
    (isModelFO_facts exFacts chosen exFacts_facts) (fun _ => []) 3 [⟨0, [.v 0], .query, 9⟩] {} rss st'
    (semInv_init chosen _ {} rfl) h
  exact ((hc 0 (by simp) hr).1 r hrm).2.2 ρ a b

end ProbLogProofs.C01GroundFO
