import ProbLogModel.Sem
import ProbLogProofs.Lemmas.SemRun
import ProbLogProofs.Properties.C08
/-!
# C26 — subquery/2,3 computes the same probabilities as top-level inference (what is claimed)

`subquery(G, P)` / `subquery(G, P, E)` is *specified* as the conditional probability of the goal instance `G` given the
evidence list `E` under the distribution semantics, i.e. the value of the reference `Sem.run` on the single query `G`
with evidence `E`.  There is no model of `_builtin_subquery` here: the builtin runs the ordinary pipeline on a fresh
target, so the only meaningful statement beyond C01 is that the value the harness compares with is well defined —
it is `Sem.run`, an explicit sum over total choices, and it is the same number `Sem.run` assigns to `G` inside any
larger top-level query list with the same evidence (C08).  The tie to the real code is the differential check in
`harness/props/c26.py`.
-/
namespace ProbLogProofs.C26
open ProbLogModel.Sem ProbLogProofs.SemRun

/-- Probability of `goal ∧ evidence` (the numerator the subquery's answer is computed from). -/
def subqueryNum (P : Prog) (goal : Nat) (evidence : List (Nat × Bool)) : Option Rat :=
  (run P [goal] evidence).num[0]?

/-- Probability of the evidence list (0 ⇒ `InconsistentEvidenceError` is the required outcome). -/
def subqueryZ (P : Prog) (goal : Nat) (evidence : List (Nat × Bool)) : Rat :=
  (run P [goal] evidence).z

/-- The specified value of `P` in `subquery(goal, P, evidence)`. -/
def subquerySpec (P : Prog) (goal : Nat) (evidence : List (Nat × Bool)) : Option Rat :=
  if subqueryZ P goal evidence = 0 then none else (subqueryNum P goal evidence).map (· / subqueryZ P goal evidence)

/-- The specification value is `Sem.run` on the single goal: numerator and evidence probability are the explicit sums
    over the total choices of the program restricted to what is relevant for `goal` and the evidence atoms. -/
theorem C26_spec_is_run (P : Prog) (goal : Nat) (evidence : List (Nat × Bool)) :
    subqueryNum P goal evidence = some (numOf P ([goal] ++ evidence.map (·.1)) evidence goal) ∧
    subqueryZ P goal evidence = zOf P ([goal] ++ evidence.map (·.1)) evidence := by
  unfold subqueryNum subqueryZ
  rw [run_eq_sums]
  exact ⟨rfl, rfl⟩

/-- The value a top-level run (several queries `qs`, same evidence, every relevant atom two-valued) has to report for
    its `j`-th query is the subquery specification of that query: a wrapper calling `subquery(qs[j], P, E)` and the
    top-level `query(qs[0]). … query(qs[n]). evidence(E).` are compared with the same number. -/
theorem C26_spec_independent_of_other_queries (P : Prog) (qs : List Nat) (evidence : List (Nat × Bool))
    (H : (run P qs evidence).undefWorlds = 0) (j : Nat) (hj : j < qs.length) :
    (run P qs evidence).z = subqueryZ P qs[j] evidence ∧
    (run P qs evidence).num[j]? = subqueryNum P qs[j] evidence :=
  C08.C08_query_independent P qs evidence H j hj

/-- The instances of a non-ground goal may be asked in any order and with repetitions (the order in which the engine
    enumerates the answers of `G` is irrelevant for the values bound to `P`). -/
theorem C26_spec_goal_order_irrelevant (P : Prog) (gs gs' : List Nat) (evidence : List (Nat × Bool))
    (hsame : ∀ a, a ∈ gs ↔ a ∈ gs') (i j : Nat) (hi : i < gs.length) (hj : j < gs'.length) (h : gs[i] = gs'[j]) :
    (run P gs evidence).z = (run P gs' evidence).z ∧ (run P gs evidence).num[i]? = (run P gs' evidence).num[j]? := by
  have hroots : ∀ a, a ∈ gs ++ evidence.map (·.1) ↔ a ∈ gs' ++ evidence.map (·.1) := by
    intro a
    simp only [List.mem_append, hsame a]
  obtain ⟨hz, _, _, hn⟩ := C08.C08_queries_pointwise P gs gs' evidence hroots
  exact ⟨hz, hn i j hi hj h⟩

-- non-vacuity (program of C08): `0.3::c0. 0.6::c1. a0 :- c0. a1 :- a0, \+a2. a2 :- c1. a1 :- a2, a0.`
example : subquerySpec C08.exProg 1 [(0, true)] = some 1 ∧ subquerySpec C08.exProg 2 [(0, true)] = some (3/5) ∧
    subquerySpec C08.exProg 1 [] = some (3/10) ∧ subquerySpec C08.exProg 2 [(0, true), (0, false)] = none := by
  decide +kernel
example : (run C08.exProg [1, 2] [(0, true)]).undefWorlds = 0 ∧
    (run C08.exProg [1, 2] [(0, true)]).num[1]? = subqueryNum C08.exProg 2 [(0, true)] := by decide +kernel

end ProbLogProofs.C26
