import ProbLogModel.Tasks.Lists
import ProbLogProofs.Lemmas.Lists
import ProbLogProofs.Lemmas.ListsSw
/-!
# C32 — weighted selection library predicates define the documented distribution (property theorems only)

All statements are about the hand translation of lists.pl's clauses (`ProbLogModel.Tasks.Lists`), for every list, every
identifier and all positive weights; calls start in the empty world (no `sw_p` fact decided yet) unless stated otherwise.
-/
namespace ProbLogProofs.C32
open ProbLogModel.Tasks.Lists ProbLogProofs.Lists

theorem fresh_nil (id n : Nat) : Fresh [] id n := by intro f hf; cases hf

theorem selectWeighted_spec (id : Nat) (ws : List Rat) (xs : List Val) (w : World)
    (hl : ws.length = xs.length) (hne : xs ≠ []) (hpos : ∀ x, x ∈ ws → 0 < x) (hf : Fresh w id xs.length) :
    ∃ d, selectWeighted id ws xs w = some d ∧ SwSpec id (sumList ws) ws xs w d := by
  have hwne : ws ≠ [] := by intro e; rw [e] at hl; exact hne (List.eq_nil_of_length_eq_zero hl.symm)
  have hs := sumList_pos ws hwne hpos
  obtain ⟨d, hd, hsp⟩ := sw_spec id xs (sumList ws) ws w hl hne hpos rfl hf
  refine ⟨d, ?_, ?_⟩
  · simp only [selectWeighted, hs, if_true]; exact hd
  · exact hsp

/-- **P(select element i) = wᵢ / Σw** for `select_weighted/5`. -/
theorem C32_prob (id : Nat) (ws : List Rat) (xs : List Val)
    (hl : ws.length = xs.length) (hne : xs ≠ []) (hpos : ∀ x, x ∈ ws → 0 < x) :
    ∃ d, selectWeighted id ws xs [] = some d ∧
      ∀ i (hi : i < ws.length), mass d (fun e => e.1.pos == i) = ws[i] / sumList ws := by
  obtain ⟨d, hd, hsp⟩ := selectWeighted_spec id ws xs [] hl hne hpos (fresh_nil _ _)
  exact ⟨d, hd, hsp.prob⟩

/-- **The probabilities of all answers sum to 1.** -/
theorem C32_total (id : Nat) (ws : List Rat) (xs : List Val)
    (hl : ws.length = xs.length) (hne : xs ≠ []) (hpos : ∀ x, x ∈ ws → 0 < x) :
    ∃ d, selectWeighted id ws xs [] = some d ∧ mass d (fun _ => true) = 1 := by
  obtain ⟨d, hd, hsp⟩ := selectWeighted_spec id ws xs [] hl hne hpos (fresh_nil _ _)
  exact ⟨d, hd, hsp.total⟩

/-- **Exactly one element is chosen, the rest is the input without that position, in order**: every answer is
    `(xs[i], xs without position i)` for one position `i`. -/
theorem C32_outcome (id : Nat) (ws : List Rat) (xs : List Val)
    (hl : ws.length = xs.length) (hne : xs ≠ []) (hpos : ∀ x, x ∈ ws → 0 < x) :
    ∃ d, selectWeighted id ws xs [] = some d ∧
      ∀ e, e ∈ d → ∃ (h : e.1.1.pos < xs.length), e.1.1.value = xs[e.1.1.pos] ∧ e.1.1.rest = xs.eraseIdx e.1.1.pos := by
  obtain ⟨d, hd, hsp⟩ := selectWeighted_spec id ws xs [] hl hne hpos (fresh_nil _ _)
  exact ⟨d, hd, hsp.outcome⟩

theorem sumList_replicate (n : Nat) (c : Rat) : sumList (List.replicate n c) = (n : Rat) * c := by
  induction n with
  | zero => simp [sumList]
  | succ n ih => rw [List.replicate_succ, sumList_cons, ih]; simp; grind

/-- **`select_uniform/4` is uniform**: every position has probability `1/n` (and the answers are as in `C32_outcome`). -/
theorem C32_uniform (id : Nat) (xs : List Val) (hne : xs ≠ []) :
    ∃ d, selectUniform id xs [] = some d ∧
      (∀ i, i < xs.length → mass d (fun e => e.1.pos == i) = 1 / (xs.length : Rat)) ∧
      mass d (fun _ => true) = 1 ∧
      ∀ e, e ∈ d → ∃ (h : e.1.1.pos < xs.length), e.1.1.value = xs[e.1.1.pos] ∧ e.1.1.rest = xs.eraseIdx e.1.1.pos := by
  have hn : 0 < xs.length := List.length_pos_iff.mpr hne
  have hnr : (0 : Rat) < (xs.length : Rat) := Rat.natCast_pos.mpr hn
  have hpos : ∀ x, x ∈ List.replicate xs.length (1 / (xs.length : Rat)) → 0 < x := by
    intro x hx
    rw [List.mem_replicate] at hx
    rw [hx.2]
    have := Rat.inv_pos.mpr hnr
    grind
  obtain ⟨d, hd, hsp⟩ := selectWeighted_spec id (List.replicate xs.length (1 / (xs.length : Rat))) xs []
    (by simp) hne hpos (fresh_nil _ _)
  refine ⟨d, by simp only [selectUniform, hn, if_true]; exact hd, ?_, hsp.total, hsp.outcome⟩
  intro i hi
  rw [hsp.prob i (by simpa using hi)]
  rw [sumList_replicate]
  simp only [List.getElem_replicate]
  grind

/-- **`select_weighted/4`** (list of `(Weight, Value)` pairs) is `select_weighted/5` on the unzipped lists. -/
theorem C32_pairs (id : Nat) (wxs : List (Rat × Val)) (w : World) :
    selectWeighted4 id wxs w = selectWeighted id (wxs.map (·.1)) (wxs.map (·.2)) w := rfl

/-- **Calls with the same identifier make the same choice**: after any answer of a call, calling again with the same
    identifier and arguments (in the world left by that answer) returns exactly that answer, with probability 1,
    and decides no further fact. -/
theorem C32_same_id_same_choice (id : Nat) (ws : List Rat) (xs : List Val)
    (hl : ws.length = xs.length) (hne : xs ≠ []) (hpos : ∀ x, x ∈ ws → 0 < x) :
    ∃ d, selectWeighted id ws xs [] = some d ∧
      ∀ e, e ∈ d → selectWeighted id ws xs e.1.2 = some [((e.1.1, e.1.2), 1)] := by
  obtain ⟨d, hd, hsp⟩ := selectWeighted_spec id ws xs [] hl hne hpos (fresh_nil _ _)
  refine ⟨d, hd, ?_⟩
  intro e he
  have hwne : ws ≠ [] := by intro e; rw [e] at hl; exact hne (List.eq_nil_of_length_eq_zero hl.symm)
  have hs := sumList_pos ws hwne hpos
  simp only [selectWeighted, hs, if_true]
  exact hsp.again e he

/-- **A call with another identifier is independent**: in the world left by any answer of a call with identifier `id`,
    a call with identifier `id' ≠ id` (any lists, positive weights) again selects position `i` with probability
    `w'ᵢ / Σw'`. -/
theorem C32_other_id_independent (id id' : Nat) (hid : id' ≠ id) (ws ws' : List Rat) (xs xs' : List Val)
    (hl : ws.length = xs.length) (hne : xs ≠ []) (hpos : ∀ x, x ∈ ws → 0 < x)
    (hl' : ws'.length = xs'.length) (hne' : xs' ≠ []) (hpos' : ∀ x, x ∈ ws' → 0 < x) :
    ∃ d, selectWeighted id ws xs [] = some d ∧
      ∀ e, e ∈ d → ∃ d', selectWeighted id' ws' xs' e.1.2 = some d' ∧
        (∀ i (hi : i < ws'.length), mass d' (fun e => e.1.pos == i) = ws'[i] / sumList ws') ∧
        mass d' (fun _ => true) = 1 := by
  obtain ⟨d, hd, hsp⟩ := selectWeighted_spec id ws xs [] hl hne hpos (fresh_nil _ _)
  refine ⟨d, hd, ?_⟩
  intro e he
  obtain ⟨new, hn1, hn2⟩ := hsp.world e he
  have hf : Fresh e.1.2 id' xs'.length := by
    intro f hf hfid
    rw [hn1] at hf
    simp only [List.append_nil] at hf
    have := (hn2 f hf).1
    rw [this] at hfid
    exact absurd hfid.symm hid
  obtain ⟨d', hd', hsp'⟩ := selectWeighted_spec id' ws' xs' e.1.2 hl' hne' hpos' hf
  exact ⟨d', hd', hsp'.prob, hsp'.total⟩

/-! Non-vacuity: concrete runs. -/
example : (selectWeighted 1 [1, 2, 3] [10, 20, 30] []).map (fun d => d.map (fun e => (e.1.1.value, e.1.1.rest, e.2))) =
    some [(10, [20, 30], 1 / 6), (20, [10, 30], 1 / 3), (30, [10, 20], 1 / 2)] := by decide +kernel
example : (seq2 (selectWeighted 1 [1, 2] [10, 20]) (selectWeighted 1 [1, 2] [10, 20]) []).map
      (fun d => d.map (fun e => (e.1.1.1.value, e.1.1.2.value, e.2))) =
    some [(10, 10, 1 / 3), (20, 20, 2 / 3)] := by decide +kernel

end ProbLogProofs.C32
