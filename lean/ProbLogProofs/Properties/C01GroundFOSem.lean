import ProbLogModel.GroundFO
import ProbLogProofs.Lemmas.GroundFOSem3
import ProbLogProofs.Lemmas.GroundFOUnify
/-!
# C01 / C03 / C08 for the first-order grounder model: correctness relative to the first-order completion

`IsModelFO P chosen M` (`Lemmas/GroundFOSemDefs.lean`): `M : Pred → List Const → Bool` satisfies the completion of the
program in the world `chosen` - `p(a)` is true iff a fact `p(a)` holds (its choice is selected) or some clause
`p(head) :- body` has an instance `θ` with `head θ = a`, every body literal true (negative ones false) in `M`, and
its AD choice `ident + enc θ` selected.  For the programs of the fragment (no recursion) this model is unique and is
the well-founded model of the Herbrand instantiation (`Sem.wfm (toSem (inst P))`; the link is stated in
`C01GroundFOSpec.CorrectFO`, checked per program by `Drivers.GroundFOCheck`, and NOT proved here).

Proved for EVERY program whose variable indices are below the clause's variable count (`VarsOK`, what ClauseDB
produces), every schedule, every fuel, every history of `ground` calls from any state with the invariant - in the
partial-correctness form "whenever the model returns" (it returns on the programs of the fragment: exact
correspondence with the engine on every generated program):

* every reported instance of a (possibly non-ground) call is an instance of the call and its key has, in every
  valuation of the final ground program that agrees with the world, the truth value `M` of the instance;
* every instance of the call that is NOT reported is false in `M`;
* the same for every entry of the two tables (`SemInv`).

No hypothesis on unification remains: `unifOK` (`Lemmas/GroundFOUnify.lean`) characterises `unifyHead`, `bindAnswer`
and `canon` by the ground assignments they admit.
-/
namespace ProbLogProofs.C01GroundFO
open ProbLogModel ProbLogModel.Formula ProbLogModel.GroundFO ProbLogProofs.GroundInv ProbLogProofs.GroundFOInv
open ProbLogProofs.GroundFOSem

/-- the empty target with empty tables satisfies the semantic invariant -/
theorem semInv_init (chosen : Array Bool) (M : Model) (o : Opts) (ho : o.keepAll = false) :
    SemInv chosen M { store := { opts := o } } :=
  ⟨⟨⟨⟨fun _ _ h => (by cases h), fun _ _ h => (by cases h), fun _ _ h => (by cases h)⟩,
    fun _ _ h => (by cases h), ho⟩, fun _ h => (by cases h), fun _ h => (by cases h)⟩,
   fun _ h => (by cases h), fun _ h => (by cases h)⟩

/-- **(a)+(d), relative to the completion.**  Soundness and completeness of the first-order grounder model. -/
theorem C01_groundFO_correct_partial (P : Prog) (hv : VarsOK P) (chosen : Array Bool) (M : Model)
    (hM : IsModelFO P chosen M) (sched : Sched) (fuel : Nat) (calls : List Call) (st : St) (rss : List Results)
    (st' : St) (h0 : SemInv chosen M st) (h : groundAll P sched fuel calls st = .ok (rss, st')) :
    SemInv chosen M st' ∧ Grows st.store st'.store ∧ rss.length = calls.length ∧
    (∃ ρ, Consistent st'.store ρ ∧ Agree chosen st'.store ρ) ∧
    ∀ i (hc : i < calls.length) (hr : i < rss.length),
      (∀ r ∈ rss[i], Fits calls[i].args r.1 ∧ keyBelow st'.store.nodes.length r.2 ∧
        ∀ ρ, Consistent st'.store ρ → Agree chosen st'.store ρ → keyVal ρ r.2 = M calls[i].pred r.1) ∧
      (∀ a, Fits calls[i].args a → a ∉ rss[i].map (·.1) → M calls[i].pred a = false) := by
  obtain ⟨hs, hg, hl, hc⟩ := groundAll_sem unifOK P hv hM sched fuel calls st rss st' h0 h
  refine ⟨hs, hg, hl, val_exists hs.ti.s.acyc chosen, fun i h1 h2 => ⟨fun r hr => ?_, (hc i h1 h2).2⟩⟩
  have := (hc i h1 h2).1 r hr
  exact ⟨this.1, this.2.1, fun ρ a b => this.2.2 ρ ⟨a, b⟩⟩

/-- **(b) C03 for the first-order model**: the same history under two schedules reports the same instances ... up to
    instances that are false: an instance reported under one schedule has the value `M`, under the other schedule it is
    either reported with a key of the same value or not reported and false. -/
theorem C03_groundFO_schedule_independent_partial (P : Prog) (hv : VarsOK P) (chosen : Array Bool) (M : Model)
    (hM : IsModelFO P chosen M) (sched1 sched2 : Sched) (fuel1 fuel2 : Nat) (calls : List Call) (o : Opts)
    (ho : o.keepAll = false) (rss1 rss2 : List Results) (st1 st2 : St)
    (h1 : groundAll P sched1 fuel1 calls { store := { opts := o } } = .ok (rss1, st1))
    (h2 : groundAll P sched2 fuel2 calls { store := { opts := o } } = .ok (rss2, st2)) :
    rss1.length = calls.length ∧ rss2.length = calls.length ∧
    ∀ i (_hc : i < calls.length) (hr1 : i < rss1.length) (hr2 : i < rss2.length),
      ∀ r1 ∈ rss1[i], ∀ ρ1, Consistent st1.store ρ1 → Agree chosen st1.store ρ1 →
        (∃ r2 ∈ rss2[i], r2.1 = r1.1 ∧
          ∀ ρ2, Consistent st2.store ρ2 → Agree chosen st2.store ρ2 → keyVal ρ2 r2.2 = keyVal ρ1 r1.2) ∨
        (r1.1 ∉ rss2[i].map (·.1) ∧ keyVal ρ1 r1.2 = false) := by
  obtain ⟨_, _, hl1, _, hc1⟩ := C01_groundFO_correct_partial P hv chosen M hM sched1 fuel1 calls _ rss1 st1
    (semInv_init chosen M o ho) h1
  obtain ⟨_, _, hl2, _, hc2⟩ := C01_groundFO_correct_partial P hv chosen M hM sched2 fuel2 calls _ rss2 st2
    (semInv_init chosen M o ho) h2
  refine ⟨hl1, hl2, fun i hc hr1 hr2 r1 hr ρ1 a1 b1 => ?_⟩
  obtain ⟨hfit, _, hv1⟩ := (hc1 i hc hr1).1 r1 hr
  by_cases hm : r1.1 ∈ rss2[i].map (·.1)
  · obtain ⟨r2, hr2m, he⟩ := List.mem_map.1 hm
    refine Or.inl ⟨r2, hr2m, he, fun ρ2 a2 b2 => ?_⟩
    rw [((hc2 i hc hr2).1 r2 hr2m).2.2 ρ2 a2 b2, hv1 ρ1 a1 b1, he]
  · exact Or.inr ⟨hm, by rw [hv1 ρ1 a1 b1]; exact (hc2 i hc hr2).2 r1.1 hfit hm⟩

/-- **(c) C08 for the first-order model**: an instance reported for the `i`-th call of a history has the value it has
    when the call is grounded alone into an empty target (or is not reported there, and false). -/
theorem C08_groundFO_history_independent_partial (P : Prog) (hv : VarsOK P) (chosen : Array Bool) (M : Model)
    (hM : IsModelFO P chosen M) (sched sched' : Sched) (fuel fuel' : Nat) (calls : List Call) (o : Opts)
    (ho : o.keepAll = false) (rss : List Results) (st : St) (i : Nat) (hi : i < calls.length) (rs' : Results)
    (st' : St) (h1 : groundAll P sched fuel calls { store := { opts := o } } = .ok (rss, st))
    (h2 : groundAll P sched' fuel' [calls[i]] { store := { opts := o } } = .ok ([rs'], st')) :
    ∃ hr : i < rss.length, ∀ r ∈ rss[i], ∀ ρ, Consistent st.store ρ → Agree chosen st.store ρ →
      (∃ r' ∈ rs', r'.1 = r.1 ∧
        ∀ ρ', Consistent st'.store ρ' → Agree chosen st'.store ρ' → keyVal ρ' r'.2 = keyVal ρ r.2) ∨
      (r.1 ∉ rs'.map (·.1) ∧ keyVal ρ r.2 = false) := by
  obtain ⟨_, _, hl1, _, hc1⟩ := C01_groundFO_correct_partial P hv chosen M hM sched fuel calls _ rss st
    (semInv_init chosen M o ho) h1
  obtain ⟨_, _, _, _, hc2⟩ := C01_groundFO_correct_partial P hv chosen M hM sched' fuel' [calls[i]] _ [rs'] st'
    (semInv_init chosen M o ho) h2
  have hri : i < rss.length := by omega
  refine ⟨hri, fun r hr ρ a1 b1 => ?_⟩
  obtain ⟨hfit, _, hv1⟩ := (hc1 i hi hri).1 r hr
  have h20 := hc2 0 (by simp) (by simp)
  simp only [List.getElem_cons_zero] at h20
  by_cases hm : r.1 ∈ rs'.map (·.1)
  · obtain ⟨r', hr'm, he⟩ := List.mem_map.1 hm
    refine Or.inl ⟨r', hr'm, he, fun ρ' a2 b2 => ?_⟩
    rw [(h20.1 r' hr'm).2.2 ρ' a2 b2, hv1 ρ a1 b1, he]
  · exact Or.inr ⟨hm, by rw [hv1 ρ a1 b1]; exact h20.2 r.1 hfit hm⟩

/-- every reported entry of both tables has the truth value of its atom (the semantic table invariant, (d)) -/
theorem GroundFO_table_sem_partial (P : Prog) (hv : VarsOK P) (chosen : Array Bool) (M : Model)
    (hM : IsModelFO P chosen M) (sched : Sched) (fuel : Nat) (calls : List Call) (o : Opts) (ho : o.keepAll = false)
    (rss : List Results) (st' : St) (h : groundAll P sched fuel calls { store := { opts := o } } = .ok (rss, st')) :
    (∀ e ∈ st'.table.ground, ∀ ρ, Consistent st'.store ρ → Agree chosen st'.store ρ → keyVal ρ e.2 = M e.1.1 e.1.2) ∧
    (∀ e ∈ st'.table.ng, (∀ r ∈ e.2, Fits e.1.args r.1 ∧
        ∀ ρ, Consistent st'.store ρ → Agree chosen st'.store ρ → keyVal ρ r.2 = M e.1.pred r.1) ∧
      ∀ a, Fits e.1.args a → M e.1.pred a = true → a ∈ e.2.map (·.1)) := by
  obtain ⟨hs, _⟩ := C01_groundFO_correct_partial P hv chosen M hM sched fuel calls _ rss st' (semInv_init chosen M o ho) h
  exact ⟨fun e he ρ a b => (hs.g e he).2 ρ ⟨a, b⟩,
    fun e he => ⟨fun r hr => ⟨((hs.n e he).1 r hr).1, fun ρ a b => ((hs.n e he).1 r hr).2.2 ρ ⟨a, b⟩⟩, (hs.n e he).2⟩⟩

end ProbLogProofs.C01GroundFO
