import ProbLogModel.Cut
import ProbLogProofs.Properties.C15
/-!
# C33 — the soft-cut library picks the lowest-indexed applicable rule (property theorems only)

Given C15's sort theorems (`C15_sort_mem`, `C15_sort_strictly_ascending`).
-/
namespace ProbLogProofs.C33
open ProbLogModel ProbLogModel.Order ProbLogModel.Cut ProbLogProofs.OrderLemmas ProbLogProofs.C15

/-- A rule set as cut.pl expects it: a clause that has answers for the call also matches it (`clause/2`), and the
    indices are terms on which C15's order theorems apply. -/
structure WellFormed {α : Type} (cs : List (IClause α)) : Prop where
  matches_of_answers : ∀ c ∈ cs, c.answers ≠ [] → c.headMatches = true
  plain : ∀ c ∈ cs, plain c.index = true
  quotes : QuoteConsistent (cs.map (·.index))

theorem cutLoop_some {α : Type} (cs : List (IClause α)) (l : List Term) (v : Term) (ans : List α)
    (h : cutLoop cs l = some (v, ans)) :
    ∃ pre post, l = pre ++ v :: post ∧ (∀ u ∈ pre, answersAt cs u = []) ∧ ans = answersAt cs v ∧ ans ≠ [] := by
  induction l with
  | nil => simp [cutLoop] at h
  | cons u rest ih =>
    unfold cutLoop at h
    split at h
    · rename_i he
      obtain ⟨pre, post, e, hp, ha⟩ := ih h
      refine ⟨u :: pre, post, by rw [e]; rfl, ?_, ha⟩
      intro w hw
      rcases List.mem_cons.mp hw with rfl | hw
      · exact he
      · exact hp w hw
    · rename_i a as he
      simp only [Option.some.injEq, Prod.mk.injEq] at h
      obtain ⟨rfl, rfl⟩ := h
      exact ⟨[], rest, rfl, by simp, he.symm, by simp⟩

theorem cutLoop_none {α : Type} (cs : List (IClause α)) (l : List Term) (h : cutLoop cs l = none) :
    ∀ u ∈ l, answersAt cs u = [] := by
  induction l with
  | nil => simp
  | cons u rest ih =>
    unfold cutLoop at h
    split at h
    · rename_i he
      intro w hw
      rcases List.mem_cons.mp hw with rfl | hw
      · exact he
      · exact ih h w hw
    · simp at h

theorem answersAt_ne_nil {α : Type} (cs : List (IClause α)) (c : IClause α) (hc : c ∈ cs) (ha : c.answers ≠ []) :
    answersAt cs c.index ≠ [] := by
  unfold answersAt
  intro h
  rw [List.flatMap_eq_nil_iff] at h
  exact ha (h c (by simp [hc]))

theorem mem_matchingIndices {α : Type} (cs : List (IClause α)) (c : IClause α) (hc : c ∈ cs) (hm : c.headMatches = true) :
    c.index ∈ matchingIndices cs := by
  unfold matchingIndices
  exact List.mem_map.mpr ⟨c, by simp [hc, hm], rfl⟩

/-- **cut picks the lowest-indexed applicable rule**: if `cut` succeeds with index `v` then some clause with index
    `v` is applicable, the answers are exactly those of the clauses with index `v`, and every applicable clause
    has an index that is not before `v` in the standard order (numeric order for numbers) — whatever the file order. -/
theorem C33_min_index {α : Type} (cs : List (IClause α)) (wf : WellFormed cs) (v : Term) (ans : List α)
    (h : cut cs = some (v, ans)) :
    (∃ c ∈ cs, c.index = v ∧ c.answers ≠ []) ∧ ans = answersAt cs v ∧
    (∀ c ∈ cs, c.answers ≠ [] → c.index = v ∨ stdCompare v c.index = .lt) := by
  unfold cut at h
  obtain ⟨pre, post, e, hpre, hans, hne⟩ := cutLoop_some cs _ v ans h
  have hplain : ∀ t ∈ matchingIndices cs, plain t = true := by
    intro t ht
    obtain ⟨c, hc, rfl⟩ := List.mem_map.mp ht
    exact wf.plain c (List.mem_filter.mp hc).1
  have hq : QuoteConsistent (matchingIndices cs) := by
    intro a ha b hb
    have sub : ∀ t, t ∈ matchingIndices cs → t ∈ cs.map (·.index) := by
      intro t ht
      obtain ⟨c, hc, rfl⟩ := List.mem_map.mp ht
      exact List.mem_map.mpr ⟨c, (List.mem_filter.mp hc).1, rfl⟩
    exact wf.quotes a (sub a ha) b (sub b hb)
  have asc := C15_sort_strictly_ascending (matchingIndices cs) hplain hq
  rw [e, List.pairwise_append] at asc
  have hpost : ∀ u ∈ post, stdCompare v u = .lt := (List.pairwise_cons.mp asc.2.1).1
  refine ⟨?_, hans, ?_⟩
  · -- some clause with index v has answers
    rw [hans] at hne
    unfold answersAt at hne
    by_cases hx : ∃ c ∈ cs, c.index = v ∧ c.answers ≠ []
    · exact hx
    · exfalso; apply hne
      rw [List.flatMap_eq_nil_iff]
      intro c hc
      have hc' := List.mem_filter.mp hc
      by_cases hca : c.answers = []
      · exact hca
      · exact absurd ⟨c, hc'.1, by simpa using hc'.2, hca⟩ hx
  · intro c hc ha
    have hm : c.index ∈ sortModel (matchingIndices cs) :=
      (C15_sort_mem _ _).mpr (mem_matchingIndices cs c hc (wf.matches_of_answers c hc ha))
    rw [e] at hm
    rcases List.mem_append.mp hm with hm | hm
    · exact absurd (hpre _ hm) (answersAt_ne_nil cs c hc ha)
    · rcases List.mem_cons.mp hm with hm | hm
      · exact Or.inl hm
      · exact Or.inr (hpost _ hm)

/-- `cut` fails exactly when no clause is applicable. -/
theorem C33_fails_iff {α : Type} (cs : List (IClause α)) (wf : WellFormed cs) :
    cut cs = none ↔ ∀ c ∈ cs, c.answers = [] := by
  constructor
  · intro h c hc
    by_cases ha : c.answers = []
    · exact ha
    · exfalso
      have hm : c.index ∈ sortModel (matchingIndices cs) :=
        (C15_sort_mem _ _).mpr (mem_matchingIndices cs c hc (wf.matches_of_answers c hc ha))
      exact answersAt_ne_nil cs c hc ha (cutLoop_none cs _ h _ hm)
  · intro h
    cases hc : cut cs with
    | none => rfl
    | some p =>
      obtain ⟨v, ans⟩ := p
      obtain ⟨⟨c, hcm, _, hne⟩, _⟩ := C33_min_index cs wf v ans hc
      exact absurd (h c hcm) hne

/-- The index returned by `cut/2` is unique: it is the standard-order minimum of the applicable indices. -/
theorem C33_index_is_minimum {α : Type} (cs : List (IClause α)) (wf : WellFormed cs) (v : Term) (ans : List α)
    (h : cut cs = some (v, ans)) (c : IClause α) (hc : c ∈ cs) (ha : c.answers ≠ []) : stdLe v c.index := by
  rcases (C33_min_index cs wf v ans h).2.2 c hc ha with e | lt
  · rw [e]; exact C15_std_refl v
  · exact stdLe_of_lt lt

/-! ## Non-vacuity: the documented example, in shuffled file order, and the multi-digit case -/
def ex : List (IClause String) :=
  [⟨.int 10, true, ["z"]⟩, ⟨.int 3, true, []⟩, ⟨.int 2, true, ["c"]⟩, ⟨.int 1, false, []⟩]
example : cut ex = some (.int 2, ["c"]) := by decide
example : WellFormed ex := by
  refine ⟨by decide, by decide, ?_⟩
  intro a ha b hb
  simp [ex] at ha hb
  rcases ha with rfl | rfl | rfl | rfl <;> rcases hb with rfl | rfl | rfl | rfl <;> decide

end ProbLogProofs.C33
