/-
C25 — exported CNF: the DIMACS text written by `CNF.to_dimacs()` (model: `Clark.toDimacs`) read back by a DIMACS
reader gives exactly the announced number of variables and the internal clause list, hence exactly the internal models.
(The ProbLog-text export `to_prolog` is checked by re-evaluation in the harness, not modelled.)
-/
import ProbLogProofs.Lemmas.ExportDimacs

namespace ProbLogProofs.C25
open ProbLogModel.Clark ProbLogModel.Export ProbLogProofs.Export

/-- digits of a natural number -/
def tokN (n : Nat) : List Char := (toString n).toList

theorem tokN_chars (n : Nat) : ∀ c ∈ tokN n, c.isDigit = true := by
  intro c hc
  unfold tokN at hc
  have : toString n = Nat.repr n := rfl
  rw [this, Nat.toList_repr] at hc
  exact Nat.isDigit_of_mem_toDigits (by omega) (by omega) hc

theorem tokN_toNat (n : Nat) : (String.ofList (tokN n)).toNat? = some n := by
  unfold tokN
  rw [String.ofList_toList]
  exact Nat.toNat?_repr n

/-- the header line -/
def headerC (a n : Nat) : List Char := [' '].intercalate [['p'], ['c', 'n', 'f'], tokN a, tokN n]

theorem toDimacs_toList (c : CNF) :
    (toDimacs c).toList = headerC c.atomcount c.clauses.length ++ ['\n'] ++ ['\n'].intercalate (c.clauses.map lineC) := by
  unfold toDimacs headerC
  simp only [String.toList_append, String.toList_intercalate, List.map_map]
  have h1 : "p cnf ".toList = ['p', ' ', 'c', 'n', 'f', ' '] := rfl
  have h2 : " ".toList = [' '] := rfl
  have h3 : "\n".toList = ['\n'] := rfl
  have h4 : (String.toList ∘ fun cl : Clause => " ".intercalate (cl.map toString) ++ " 0") = lineC := by
    funext cl; exact lineC_eq cl
  rw [h1, h2, h3, h4]
  simp [List.intercalate_cons_cons, List.intercalate, tokN]

theorem headerC_no_newline (a n : Nat) : '\n' ∉ headerC a n := by
  intro h
  unfold headerC at h
  rcases mem_intercalate _ _ _ h with h | ⟨t, ht, hx⟩
  · revert h; decide
  · simp only [List.mem_cons, List.mem_nil_iff, or_false] at ht
    rcases ht with rfl | rfl | rfl | rfl
    · revert hx; decide
    · revert hx; decide
    · have := tokN_chars a _ hx; revert this; decide
    · have := tokN_chars n _ hx; revert this; decide

theorem headerVars_headerC (a n : Nat) : headerVars (headerC a n) = a := by
  unfold headerVars headerC
  rw [List.splitOn_intercalate ' ' (by
    intro l hl
    simp only [List.mem_cons, List.mem_nil_iff, or_false] at hl
    rcases hl with rfl | rfl | rfl | rfl
    · decide
    · decide
    · intro h; have := tokN_chars a _ h; revert this; decide
    · intro h; have := tokN_chars n _ h; revert this; decide) (by simp)]
  simp [tokN_toNat]

/-- reading back the text of any CNF: the header's variable count and every clause line parsed -/
theorem readDimacs_toDimacs (c : CNF) :
    readDimacs (toDimacs c) = (c.atomcount, c.clauses.map (fun cl => parseClause (lineC cl))) := by
  unfold readDimacs
  rw [toDimacs_toList]
  -- the text is the lines joined by newlines
  have hjoin : headerC c.atomcount c.clauses.length ++ ['\n'] ++ ['\n'].intercalate (c.clauses.map lineC) =
      ['\n'].intercalate (headerC c.atomcount c.clauses.length ::
        (if c.clauses = [] then [[]] else c.clauses.map lineC)) := by
    cases hc : c.clauses with
    | nil => simp [List.intercalate_cons_cons, List.intercalate]
    | cons a t => simp [List.intercalate_cons_cons]
  rw [hjoin, List.splitOn_intercalate '\n' (by
    intro l hl
    rcases List.mem_cons.mp hl with rfl | hl
    · exact headerC_no_newline _ _
    · split at hl
      · simp only [List.mem_singleton] at hl; subst hl; simp
      · obtain ⟨cl, _, rfl⟩ := List.mem_map.mp hl
        exact lineC_no_newline cl) (by simp)]
  simp only [headerVars_headerC]
  congr 1
  by_cases hc : c.clauses = []
  · simp [hc]
  · simp only [hc, if_false]
    rw [List.filter_eq_self.mpr (by
      intro l hl
      obtain ⟨cl, _, rfl⟩ := List.mem_map.mp hl
      exact lineC_keep cl)]
    rw [List.map_map]
    rfl

/-- The DIMACS text of a CNF whose clauses do not contain the literal 0 reads back as the announced number of variables
    and exactly the internal clauses (so the exported CNF has exactly the models of the internal CNF). -/
theorem C25_dimacs_roundtrip (c : CNF) (h0 : ∀ cl ∈ c.clauses, ∀ k ∈ cl, k ≠ 0) :
    readDimacs (toDimacs c) = (c.atomcount, c.clauses) := by
  rw [readDimacs_toDimacs]
  congr 1
  conv => rhs; rw [← List.map_id c.clauses]
  apply List.map_congr_left
  intro cl hcl
  exact parseClause_lineC cl (h0 cl hcl)

/-- the same models: a corollary of reading back the same clauses -/
theorem C25_dimacs_models (c : CNF) (h0 : ∀ cl ∈ c.clauses, ∀ k ∈ cl, k ≠ 0) (v : Nat → Bool) :
    satCNF v (readDimacs (toDimacs c)).2 = satCNF v c.clauses := by
  rw [C25_dimacs_roundtrip c h0]

/-- non-vacuity -/
example : readDimacs (toDimacs { atomcount := 3, clauses := [[1, -2], [3], [-1, 2, -3]], weights := [], names := [], ads := [] })
    = (3, [[1, -2], [3], [-1, 2, -3]]) :=
  C25_dimacs_roundtrip _ (by decide)

/-- the hypothesis is needed: a literal 0 (never produced by `clarks_completion` on a LogicDAG) ends the clause early -/
theorem C25_dimacs_zero_literal_refuted :
    ∃ c : CNF, readDimacs (toDimacs c) ≠ (c.atomcount, c.clauses) := by
  refine ⟨{ atomcount := 1, clauses := [[0, 1]], weights := [], names := [], ads := [] }, ?_⟩
  rw [readDimacs_toDimacs]
  intro h
  have h2 := congrArg (fun p => p.2.map List.length) h
  simp only [List.map_cons, List.map_nil, parseClause, lineInts_lineC] at h2
  simp at h2

end ProbLogProofs.C25
