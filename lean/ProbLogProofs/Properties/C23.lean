/-
C23 — k-best anytime bounds are sound and tight on completion.

The k-best evaluator asks a MaxSAT solver for assignments of the *partial* encoding of the CNF (every variable split in
"possibly true" / "certainly true"), translates an answer to a conjunction of literals of the probabilistic atoms
(`from_partial`), adds its probability to the border's value and blocks it.  The solver is an arbitrary oracle here.

* `C23_partial_sound` — the certain values of a satisfying assignment of the partial encoding of an acyclic Clark
  completion hold in every total model of the completion that agrees with them on the atoms; in particular the query
  (forced certainly true) holds in every world extending the returned solution.
  (The literal reading "every total extension satisfies the original CNF" is false: undecided internal nodes are
  unconstrained in the encoding; what holds is the statement about the models of the completion.)
* `C23_disjoint` — a solution found after the blocking clause of an earlier one contains the negation of one of its
  literals: no world extends both.
* `C23_bounds`, `C23_complete` — for pairwise exclusive proofs of `q` (lower border) and of `¬q` (upper border):
  `lower ≤ P(q) ≤ 1 − upper`, with equality for an exhausted border.
* `C23_loop_sound` — `KBestEvaluator.evaluate`'s loop returns `P(q)` (single value) or an interval containing it, for
  every oracle whose answers are valid (each solution proves the border's goal, has the probability it is counted with,
  excludes the earlier ones; "unsatisfiable" only when the goal is covered) and every number of solver calls.
-/
import ProbLogProofs.Lemmas.KBestLoop
import ProbLogProofs.Lemmas.Clark

namespace ProbLogProofs.C23
open ProbLogModel.KBest ProbLogModel.Clark ProbLogModel.Formula ProbLogProofs.KBest

/-- `defClauses` are the clauses `Clark.nodeClauses` (the model of `clarks_completion`) emits -/
theorem defClauses_conj (i : Nat) (ls : List Int) (nm : Option Name) :
    nodeClauses i (.conj (ls.map some) nm) = .ok (defClauses i (.conj ls)) := by
  simp [nodeClauses, ProbLogProofs.Lemmas.Clark.childLits_of_map, defClauses, bind, Except.bind]

theorem defClauses_disj (i : Nat) (ls : List Int) (nm : Option Name) :
    nodeClauses i (.disj (ls.map some) nm) = .ok (defClauses i (.disj ls)) := by
  simp [nodeClauses, ProbLogProofs.Lemmas.Clark.childLits_of_map, defClauses, bind, Except.bind]

/-- Soundness of the partial encoding. `D` describes an acyclic and/or DAG (children refer to smaller indices);
    `b` assigns the doubled variables and satisfies `pt ∨ ¬ct` for every node and the hard clause
    (`partialOfClause`) of every clause of the completion; `v` is a total model of the completion that agrees with
    the certain values of `b` on the atoms.  Then `v` agrees with the certain values of `b` on every node. -/
theorem C23_partial_sound (D : Nat → Def) (hacyc : ∀ i, ∀ c ∈ (D i).lits, c ≠ 0 ∧ c.natAbs < i)
    (b v : Nat → Bool) (hcons : ∀ i, b (ct i) = true → b (pt i) = true)
    (hb : ∀ i, 0 < i → ∀ c ∈ defClauses i (D i), satClause b (partialOfClause c) = true)
    (hv : ∀ i, DefOK v i (D i)) (hat : ∀ i, (D i).lits = [] → Agree b v i) :
    ∀ i, (b (ct i) = true → v i = true) ∧ (b (pt i) = false → v i = false) :=
  partial_sound D hacyc b v hcons hb hv hat

/-- non-vacuity: node 3 = 1 ∧ 2, everything certainly true -/
example : ∃ (D : Nat → Def) (b v : Nat → Bool),
    (∀ i, ∀ c ∈ (D i).lits, c ≠ 0 ∧ c.natAbs < i) ∧ (∀ i, b (ct i) = true → b (pt i) = true) ∧
    (∀ i, 0 < i → ∀ c ∈ defClauses i (D i), satClause b (partialOfClause c) = true) ∧
    (∀ i, DefOK v i (D i)) ∧ (∀ i, (D i).lits = [] → Agree b v i) ∧ (D 3).lits ≠ [] := by
  refine ⟨fun i => if i = 3 then .conj [1, 2] else .atom, fun _ => true, fun _ => true, ?_, ?_, ?_, ?_, ?_, ?_⟩
  · intro i c hc
    by_cases h : i = 3
    · subst h; simp [Def.lits] at hc; rcases hc with rfl | rfl <;> decide
    · simp [h, Def.lits] at hc
  · intro i _; rfl
  · intro i hi c hc
    by_cases h : i = 3
    · subst h
      simp [defClauses] at hc
      rcases hc with rfl | rfl | rfl <;> decide
    · simp [h, defClauses] at hc
  · intro i
    by_cases h : i = 3
    · subst h; simp [DefOK, litVal]
    · simp [h, DefOK]
  · intro i _; exact ⟨fun _ => rfl, fun h => by cases h⟩
  · simp [Def.lits]

/-- Disjointness: if the solver's (complete) answer `sol` satisfies the blocking clause of an earlier solution `s`
    (literals of weighted atoms), no assignment extends both `s` and `from_partial(sol)`. -/
theorem C23_disjoint (weighted : Nat → Bool) (sol s : List Int)
    (hcomplete : ∀ k : Nat, 0 < k → ((k : Int) ∈ sol ∨ -(k : Int) ∈ sol))
    (hs : ∀ x ∈ s, x ≠ 0 ∧ weighted x.natAbs = true)
    (hsat : satClause (fun k => sol.contains (k : Int)) (blockingLits s) = true) (α : Nat → Bool) :
    ¬ (ext s α = true ∧ ext (fromPartial weighted sol) α = true) := by
  obtain ⟨x, hx, hneg⟩ := blocking_gives_negation weighted sol s hcomplete hs hsat
  exact ext_exclusive s _ x (hs x hx).1 hx hneg α

/-- non-vacuity: atom 1 weighted, earlier solution `[1]`, the answer decides "1 certainly false" -/
example : satClause (fun k => [(-1 : Int), -2].contains (k : Int)) (blockingLits [1]) = true ∧
    fromPartial (fun _ => true) [-1, -2] = [-1] := by decide

/-- Bounds: borders satisfying the invariant (pairwise exclusive solutions, each proving the border's goal, the value is
    the sum of their probabilities) bracket the probability of the query. -/
theorem C23_bounds (Ω : Space) (Q : (Nat → Bool) → Bool) (lb ub : Border)
    (hl : Inv Ω Q lb) (hu : Inv Ω (fun α => !Q α) ub) :
    lb.value ≤ Ω.P Q ∧ Ω.P Q ≤ 1 - ub.value := by
  have a := inv_le Ω Q lb hl
  have b := inv_le Ω _ ub hu
  have hnot : Ω.P (fun α => !Q α) = 1 - Ω.P Q := by
    have := Pr_not Ω.w Ω.ws Q
    rw [Ω.total] at this
    exact this
  rw [hnot] at b
  exact ⟨a, by linarith⟩

/-- Completion: when every world of the goal extends one of the border's solutions (the solver rightly reports the
    blocked encoding unsatisfiable), the border's value is the probability of its goal. -/
theorem C23_complete (Ω : Space) (Q : (Nat → Bool) → Bool) (bd : Border) (h : Inv Ω Q bd)
    (hcov : ∀ α ∈ Ω.ws, Q α = true → ∃ s ∈ bd.sols, ext s α = true) : bd.value = Ω.P Q :=
  inv_eq Ω Q bd h hcov

/-- The evaluate loop, for any oracle with valid answers and any number of solver calls. -/
theorem C23_loop_sound (Ω : Space) (weighted : Nat → Bool) (pw : Nat → Rat × Rat) (conv : Rat) (lowerOnly : Bool)
    (oracle : Bool → Border → Option (List Int)) (Q : (Nat → Bool) → Bool)
    (hlo : ∀ bd, Inv Ω Q bd → AnsOK Ω weighted pw Q bd (oracle false bd))
    (hup : ∀ bd, Inv Ω (fun α => !Q α) bd → AnsOK Ω weighted pw (fun α => !Q α) bd (oracle true bd)) (fuel : Nat) :
    match (evalLoop weighted pw conv lowerOnly oracle fuel Border.init Border.init).1 with
    | .single v => v = Ω.P Q
    | .interval lo hi => lo ≤ Ω.P Q ∧ Ω.P Q ≤ hi := by
  have := loop_sound Ω weighted pw conv lowerOnly oracle Q hlo hup fuel Border.init Border.init
    (inv_init Ω Q) (inv_init Ω _)
  cases h : (evalLoop weighted pw conv lowerOnly oracle fuel Border.init Border.init).1 with
  | single v => rw [h] at this; exact this
  | interval lo hi => rw [h] at this; exact this

/-- non-vacuity of the probability space and the invariant: one fact `0.3::a` (atom 1), query `a`, the lower border
    holds the proof `[1]`. -/
example : ∃ (Ω : Space) (Q : (Nat → Bool) → Bool) (bd : Border), Inv Ω Q bd ∧ bd.sols = [[1]] ∧ Ω.P Q = 3 / 10 := by
  let wT : Nat → Bool := fun _ => true
  let wF : Nat → Bool := fun _ => false
  refine ⟨⟨[wT, wF], fun α => if α 1 then 3 / 10 else 7 / 10, ?_, ?_⟩, fun α => α 1, ⟨3 / 10, some (3 / 10), [[1]]⟩, ?_, rfl, ?_⟩
  · intro α _; show (0 : Rat) ≤ if α 1 then 3 / 10 else 7 / 10; split <;> norm_num
  · simp [Pr, wT, wF]; norm_num
  · refine ⟨?_, by simp, ?_⟩
    · simp [Space.P, Pr, ext, litVal, wT, wF]
    · intro s hs α _ he
      simp only [List.mem_singleton] at hs
      subst hs
      simpa [ext, litVal] using he
  · simp [Space.P, Pr, wT, wF]

end ProbLogProofs.C23
