import ProbLogProofs.Lemmas.UnifyMgu
import ProbLogProofs.Lemmas.UnifyModel
/-!
# C14 — unification is sound and complete syntactic unification (property theorems only)

Reference: `mguFuel n E` — Robinson's algorithm on a list of equations with explicit fuel (`none` = out of fuel; the
harness checks per instance that the fuel was not exhausted). A result `unifier σ` is a triangular substitution;
`σ.apply t` is the instance of `t`, `σ.fn` the substitution as a function. `θ` ranges over *all* substitutions
`Int → Tm` (also those with infinite support).
-/
namespace ProbLogProofs.C14
open ProbLogModel.Unify ProbLogProofs.UnifyLemmas

/-- **Soundness**: a returned substitution unifies every equation of the system. -/
theorem C14_mguSys_sound (n : Nat) (E : Eqs) (σ : Subst) (h : mguFuel n E = some (.unifier σ)) :
    ∀ p ∈ E, σ.apply p.1 = σ.apply p.2 := by
  intro p hp
  rw [apply_eq_subst, apply_eq_subst]
  exact (mguFuel_unifier n E σ h).1 p hp

theorem C14_mgu_sound (n : Nat) (s t : Tm) (σ : Subst) (h : mguFuel n [(s, t)] = some (.unifier σ)) :
    σ.apply s = σ.apply t :=
  C14_mguSys_sound n [(s, t)] σ h (s, t) (by simp)

/-- **Most general**: every unifier `θ` of the system factors through the result: `θ = θ ∘ σ`. -/
theorem C14_mguSys_mostGeneral (n : Nat) (E : Eqs) (σ : Subst) (h : mguFuel n E = some (.unifier σ))
    (θ : Int → Tm) (hθ : ∀ p ∈ E, p.1.subst θ = p.2.subst θ) :
    (∀ v : Int, (σ.fn v).subst θ = θ v) ∧ (∀ t : Tm, (σ.apply t).subst θ = t.subst θ) := by
  have h2 := (mguFuel_unifier n E σ h).2.1 θ hθ
  exact ⟨fun v => by simpa [Subst.fn] using h2 (.var v), h2⟩

theorem C14_mgu_mostGeneral (n : Nat) (s t : Tm) (σ : Subst) (h : mguFuel n [(s, t)] = some (.unifier σ))
    (θ : Int → Tm) (hθ : s.subst θ = t.subst θ) :
    (∀ v : Int, (σ.fn v).subst θ = θ v) ∧ (∀ u : Tm, (σ.apply u).subst θ = u.subst θ) :=
  C14_mguSys_mostGeneral n [(s, t)] σ h θ (by simpa using hθ)

/-- **Completeness, clash**: the outcome `clash` means that no substitution unifies the terms. -/
theorem C14_mgu_complete_clash (n : Nat) (s t : Tm) (h : mguFuel n [(s, t)] = some .clash) :
    ∀ θ : Int → Tm, s.subst θ ≠ t.subst θ := by
  intro θ e
  exact mguFuel_fail n [(s, t)] (Or.inl h) θ (by simpa [Unifies] using e)

/-- **Completeness, occurs check**: the outcome `occurs` means that no (finite) substitution unifies the terms. -/
theorem C14_mgu_complete_occurs (n : Nat) (s t : Tm) (h : mguFuel n [(s, t)] = some .occurs) :
    ∀ θ : Int → Tm, s.subst θ ≠ t.subst θ := by
  intro θ e
  exact mguFuel_fail n [(s, t)] (Or.inr h) θ (by simpa [Unifies] using e)

theorem C14_mguSys_complete (n : Nat) (E : Eqs)
    (h : mguFuel n E = some .clash ∨ mguFuel n E = some .occurs) :
    ∀ θ : Int → Tm, ¬ ∀ p ∈ E, p.1.subst θ = p.2.subst θ :=
  fun θ hθ => mguFuel_fail n E h θ hθ

/-- Consequently: if the terms are unifiable and the fuel suffices, the result is a most general unifier. -/
theorem C14_mgu_complete (n : Nat) (s t : Tm) (θ : Int → Tm) (hθ : s.subst θ = t.subst θ)
    (r : Outcome) (h : mguFuel n [(s, t)] = some r) : ∃ σ, r = .unifier σ ∧ σ.apply s = σ.apply t := by
  cases r with
  | unifier σ => exact ⟨σ, rfl, C14_mgu_sound n s t σ h⟩
  | clash => exact absurd hθ (C14_mgu_complete_clash n s t h θ)
  | occurs => exact absurd hθ (C14_mgu_complete_occurs n s t h θ)

/-- **No cyclic binding**: (1) no binding made binds a variable to a term containing it; (2) the result is
    idempotent; (3) as a function, it maps a variable either to itself or to a term not containing it — in fact
    (4) no variable of its range is moved. -/
theorem C14_no_cyclic_binding (n : Nat) (E : Eqs) (σ : Subst) (h : mguFuel n E = some (.unifier σ)) :
    (∀ b ∈ σ, b.2.occ b.1 = false) ∧
    (∀ t : Tm, σ.apply (σ.apply t) = σ.apply t) ∧
    (∀ v : Int, σ.fn v = .var v ∨ (σ.fn v).occ v = false) ∧
    (∀ v y : Int, (σ.fn v).occ y = true → σ.fn y = .var y) := by
  obtain ⟨h1, h2, h3⟩ := mguFuel_unifier n E σ h
  have idem : ∀ t : Tm, σ.apply (σ.apply t) = σ.apply t := by
    intro t
    rw [apply_eq_subst σ (σ.apply t), h2 σ.fn h1 t, ← apply_eq_subst]
  have range : ∀ v y : Int, (σ.fn v).occ y = true → σ.fn y = .var y := by
    intro v y hy
    apply fixed_vars σ.fn (σ.fn v) _ y hy
    have := idem (.var v)
    rw [apply_eq_subst σ (σ.apply (.var v))] at this
    exact this
  refine ⟨h3, idem, ?_, range⟩
  intro v
  cases hv : (σ.fn v).occ v with
  | false => exact Or.inr rfl
  | true => exact Or.inl (range v v hv)

/-- Composition of triangular substitutions is concatenation. -/
theorem C14_comp_apply (σ τ : Subst) (t : Tm) : (σ.comp τ).apply t = τ.apply (σ.apply t) :=
  apply_append σ τ t

/-! Non-vacuity: concrete runs (X = 1, Y = 2, Z = 3). -/
private def a : Tm := .app "a" []
private def f (t : Tm) : Tm := .app "f" [t]
private def g (s t : Tm) : Tm := .app "g" [s, t]
example : mguFuel 10 [(g (.var 1) (f (.var 1)), g (.var 2) (.var 3))]
    = some (.unifier [(1, .var 2), (3, f (.var 2))]) := by rfl
example : Subst.apply [(1, .var 2), (3, f (.var 2))] (g (.var 1) (.var 3)) = g (.var 2) (f (.var 2)) := by rfl
example : mguFuel 10 [(g (.var 1) (.var 1), g (.var 2) (f (.var 2)))] = some .occurs := by rfl
example : mguFuel 10 [(g a (.var 1), g (.const (.int 1)) (.var 2))] = some .clash := by rfl
example : mguFuel 10 [(.const (.int 1), .const (.flt "1.0"))] = some .clash := by rfl

/-!
## The model of ProbLog's own functions

Full statement wanted (C14 for the code): for all terms `T1 T2` over the variables `V1…Vn` of a clause
`q(V1,…,Vn) :- T1 = T2`,
  `eqBuiltin fuel [T1, T2] [V1,…,Vn] = .ok outs` implies
    `outs = [ctx]` with `ctx` a variant of `[σ V1, …, σ Vn]` when `mgu T1 T2 = unifier σ`, and
    `outs = []` when `mgu T1 T2 = clash`,
  and an `.error .occurs` or `outs = []` when `mgu T1 T2 = occurs`.
This is **false** for the current code; see `C14_eqBuiltin_sharing_refuted` and `C14_eqBuiltin_cyclic_refuted`.
What is proved for the model: the *completeness half* at the level of success/failure, for all inputs
(`C14_unifyValue_complete_partial`, `C14_builtinEq_complete_partial`, `C14_unifyValue_fail_agrees_mgu_partial`).
-/

/-- **Model of `unify_value`, completeness half** (partial): if `θ` unifies the two values and respects the
    bindings already in `source_values`, the model of `unify_value` raises neither `UnifyError` nor `OccursCheck`
    (it can only run out of the model's fuel), the updated dictionary is still respected by `θ`, and the returned
    value has the same `θ`-instance as the inputs.  (`None` is a constant for `subst`; on terms without anonymous
    variables `hθ` says exactly "θ is a unifier".) -/
theorem C14_unifyValue_complete_partial (n : Nat) (s t : Tm) (sv : Dict) (θ : Int → Tm)
    (hθ : s.subst θ = t.subst θ)
    (hsv : ∀ x v, sv.find (some x) = some v → v.isAnon = false → θ x = v.subst θ) :
    unifyValue n s t sv ≠ .error .unify ∧ unifyValue n s t sv ≠ .error .occurs ∧
    ∀ r sv', unifyValue n s t sv = .ok (r, sv') →
      (∀ x v, sv'.find (some x) = some v → v.isAnon = false → θ x = v.subst θ) ∧
      (s.isAnon = false → r.subst θ = s.subst θ) ∧ (t.isAnon = false → r.subst θ = t.subst θ) := by
  have h := (uv_good θ n).1 s t sv (Or.inr (Or.inr hθ)) hsv
  cases hr : unifyValue n s t sv with
  | error e =>
    rw [hr] at h
    have : e = .fuel := h
    subst this
    refine ⟨by simp, by simp, by simp⟩
  | ok p =>
    obtain ⟨r, sv'⟩ := p
    rw [hr] at h
    refine ⟨by simp, by simp, ?_⟩
    intro r' sv'' e
    simp only [Except.ok.injEq, Prod.mk.injEq] at e
    obtain ⟨rfl, rfl⟩ := e
    exact ⟨h.1, h.2.2.2.1, h.2.2.2.2⟩

/-- **`_builtin_eq` / `_builtin_neq`, completeness half** (partial): on unifiable arguments `=`/2 has exactly one
    result (never the empty list, never `OccursCheck`) whose `θ`-instance is that of the arguments, and `\=`/2 is
    false — up to the model's fuel. -/
theorem C14_builtinEq_complete_partial (n : Nat) (s t : Tm) (θ : Int → Tm) (hθ : s.subst θ = t.subst θ) :
    ((∃ r, builtinEq n s t = .ok [[r, r]] ∧ (s.isAnon = false → r.subst θ = s.subst θ)) ∨
      builtinEq n s t = .error .fuel) ∧
    (builtinNeq n s t = .ok false ∨ builtinNeq n s t = .error .fuel) := by
  have h := (uv_good θ n).1 s t [] (Or.inr (Or.inr hθ)) (by intro x v hf; simp [Dict.find] at hf)
  unfold builtinEq builtinNeq
  cases hr : unifyValue n s t [] with
  | error e =>
    rw [hr] at h
    have : e = .fuel := h
    subst this
    exact ⟨Or.inr rfl, Or.inr rfl⟩
  | ok p =>
    obtain ⟨r, sv'⟩ := p
    rw [hr] at h
    exact ⟨Or.inl ⟨r, rfl, h.2.2.2.1⟩, Or.inl rfl⟩

/-- Consequently (partial agreement with the reference): whenever the model of `unify_value` fails or raises
    `OccursCheck`, the reference does not return a unifier, whatever its fuel. -/
theorem C14_unifyValue_fail_agrees_mgu_partial (n m : Nat) (s t : Tm)
    (h : unifyValue n s t [] = .error .unify ∨ unifyValue n s t [] = .error .occurs) (σ : Subst) :
    mguFuel m [(s, t)] ≠ some (.unifier σ) := by
  intro hm
  have hs := C14_mgu_sound m s t σ hm
  rw [apply_eq_subst, apply_eq_subst] at hs
  have := C14_unifyValue_complete_partial n s t [] σ.fn hs (by intro x v hf; simp [Dict.find] at hf)
  rcases h with h | h
  · exact this.1 h
  · exact this.2.1 h

example : unifyValue 10 (g (.var (-1)) (f (.var (-1)))) (g (.var (-2)) (.var (-3))) []
    = .ok (g (.var (-1)) (f (.var (-1))), [(some (-2), .var (-1)), (some (-3), f (.var (-1)))]) := by rfl
example : unifyValue 10 (g (.var (-2)) (.var (-2))) (g (.var (-1)) (f (.var (-1)))) [] = .error .occurs := by rfl
example : unifyValue 10 (.const (.int 1)) (.const (.flt "1.0")) [] = .error .unify := by rfl

/-- Refutation (lost variable sharing in `unify_call_return`): for `q(V1,V2,V3) :- g(V3,f(V1)) = g(V1,V2)` the
    model of the engine answers `q(A, f(B), A)` although the most general unifier gives `q(X, f(X), X)`. -/
theorem C14_eqBuiltin_sharing_refuted :
    eqBuiltin 100 [g (.var 2) (f (.var 0)), g (.var 0) (.var 1)] [.var (-1), .var (-2), .var (-3)]
      = .ok [[.var (-4), f (.var (-1)), .var (-4)]] ∧
    mguFuel 100 [(g (.var 3) (f (.var 1)), g (.var 1) (.var 2))] = some (.unifier [(3, .var 1), (2, f (.var 1))]) ∧
    [Tm.var 1, .var 2, .var 3].map (Subst.apply [(3, .var 1), (2, f (.var 1))]) = [.var 1, f (.var 1), .var 1] := by
  refine ⟨by rfl, by rfl, by rfl⟩

/-- Refutation (indirect cycle): for `q(X,Y) :- g(X,Y) = g(f(Y),f(X))` the model of the engine succeeds although the
    terms need an occurs-check violation. -/
theorem C14_eqBuiltin_cyclic_refuted :
    eqBuiltin 100 [g (.var 0) (.var 1), g (f (.var 1)) (f (.var 0))] [.var (-1), .var (-2)]
      = .ok [[f (f (.var (-1))), f (f (.var (-2)))]] ∧
    mguFuel 100 [(g (.var 1) (.var 2), g (f (.var 2)) (f (.var 1)))] = some .occurs := by
  refine ⟨by rfl, by rfl⟩

end ProbLogProofs.C14
