import ProbLogModel.SemFO
import ProbLogProofs.Lemmas.SemFOGround
import ProbLogProofs.Lemmas.SemFOVars
import ProbLogProofs.Lemmas.SemFOReindex
import ProbLogProofs.Lemmas.SemFOBody
/-!
# C01 (first-order level) — `SemFO.ground` is the full Herbrand instantiation

The specification the pipeline properties compare the real inference with is `SemFO.run = Sem.run ∘ SemFO.ground`.
These theorems characterise `ground P` for an arbitrary first-order program `P` (no bound on anything):

* the ground rules are exactly the instances of the statements' heads / alternative bodies under all assignments of
  constants to the statement's variables (`C01FO_ground_rules_spec`, `C01FO_ground_complete`, `C01FO_assignments_spec`,
  `C01FO_alternatives_spec`, `C01FO_vars_spec`, `C01FO_subst_spec`);
* the choice groups are exactly one group per (probabilistic statement, assignment), carrying the statement's head
  probabilities in order, and different (statement, assignment, head) triples have different choice ids, all below
  `nchoices` (`C01FO_groups_spec`, `C01FO_group_probs`, `C01FO_choice_ids_disjoint`, `C01FO_choice_ids_bound`);
* the atom numbering is injective on the Herbrand base (`C01FO_atomId_injective`).
-/
namespace ProbLogProofs.C01FO
open ProbLogModel ProbLogModel.SemFO ProbLogProofs.SemFOGround

/-- first choice id of statement number `si` of `P` -/
def offset (P : FOProgram) (si : Nat) : Nat := offsetIn P.consts 0 P.stmts si

/-- The ground rule obtained from statement `s` (number `si`): head number `hi` (`ph`), the alternative body `alt`,
    the `k`-th assignment `vals` of constants to `s.vars`. -/
def instance_ (P : FOProgram) (si : Nat) (s : Stmt) (k : Nat) (vals : List String) (hi : Nat) (ph : Rat × Atom)
    (alt : List (Bool × Atom)) : Sem.Rule :=
  { head := atomId P (ph.2.subst (s.vars.zip vals))
    pos := (alt.filter (fun l => l.1)).map (fun l => atomId P (l.2.subst (s.vars.zip vals)))
    neg := (alt.filter (fun l => !l.1)).map (fun l => atomId P (l.2.subst (s.vars.zip vals)))
    choice := if s.isProb then some (cidOf s (offset P si) k hi) else none }

theorem toRule_instRule (P : FOProgram) (si : Nat) (s : Stmt) (k : Nat) (vals : List String) (hi : Nat)
    (ph : Rat × Atom) (alt : List (Bool × Atom)) :
    SRule.toRule (atomId P) (instRule s vals ph alt (if s.isProb then some (cidOf s (offset P si) k hi) else none)) =
      instance_ P si s k vals hi ph alt := by
  simp only [SRule.toRule, instRule, instance_, List.filter_map, List.map_map]
  rfl

/-- **Soundness and completeness of the instantiation loop.** A ground rule belongs to `ground P` iff it is the
    instance of some head `hi` and some alternative body `alt` (one disjunct selected for every `or` literal) of some
    statement `si` under the `k`-th assignment `vals` of constants to the statement's variables. -/
theorem C01FO_ground_rules_spec (P : FOProgram) (r : Sem.Rule) :
    r ∈ (ground P).rules ↔
      ∃ si s k vals hi ph alt, P.stmts[si]? = some s ∧ (tuples P.consts s.vars.length)[k]? = some vals ∧
        s.heads[hi]? = some ph ∧ List.Forall₂ LitSel s.body alt ∧ r = instance_ P si s k vals hi ph alt := by
  rw [ground_rules]
  unfold groundSym
  simp only [List.mem_map, mem_groundStmts_rules, mem_groundStmt_rules, mem_groundInst, mem_expandOr]
  constructor
  · rintro ⟨sr, ⟨si, s, hs, k, vals, hv, hi, ph, alt, hh, halt, rfl⟩, rfl⟩
    exact ⟨si, s, k, vals, hi, ph, alt, hs, hv, hh, halt, toRule_instRule P si s k vals hi ph alt⟩
  · rintro ⟨si, s, k, vals, hi, ph, alt, hs, hv, hh, halt, rfl⟩
    exact ⟨_, ⟨si, s, hs, k, vals, hv, hi, ph, alt, hh, halt, rfl⟩, toRule_instRule P si s k vals hi ph alt⟩

/-- The assignments enumerated for a statement with `n` variables are exactly the lists of `n` constants. -/
theorem C01FO_assignments_spec (cs : List String) (n : Nat) (vals : List String) :
    (∃ k : Nat, (tuples cs n)[k]? = some vals) ↔ vals.length = n ∧ ∀ v ∈ vals, v ∈ cs := by
  rw [← mem_tuples, List.mem_iff_getElem?]

/-- The alternative bodies are exactly the selections of one disjunct per `or` literal (other literals kept). -/
theorem C01FO_alternatives_spec (body : List Lit) (alt : List (Bool × Atom)) :
    alt ∈ expandOr body ↔ List.Forall₂ LitSel body alt := mem_expandOr body alt

/-- Completeness, spelled out: every head of every statement, instantiated by ANY assignment of constants to the
    statement's variables, with ANY selection of disjuncts, is a rule of `ground P`. -/
theorem C01FO_ground_complete (P : FOProgram) {si : Nat} {s : Stmt} (hs : P.stmts[si]? = some s)
    {vals : List String} (hl : vals.length = s.vars.length) (hc : ∀ v ∈ vals, v ∈ P.consts)
    {hi : Nat} {ph : Rat × Atom} (hh : s.heads[hi]? = some ph)
    {alt : List (Bool × Atom)} (halt : List.Forall₂ LitSel s.body alt) :
    ∃ k, (tuples P.consts s.vars.length)[k]? = some vals ∧ instance_ P si s k vals hi ph alt ∈ (ground P).rules := by
  obtain ⟨k, hk⟩ := (C01FO_assignments_spec P.consts s.vars.length vals).2 ⟨hl, hc⟩
  exact ⟨k, hk, (C01FO_ground_rules_spec P _).2 ⟨si, s, k, vals, hi, ph, alt, hs, hk, hh, halt, rfl⟩⟩

/-- The variables a statement is instantiated over: every variable occurring in a head or in the body (as an argument
    of one of its atoms), each once. -/
theorem C01FO_vars_spec (s : Stmt) :
    s.vars.Nodup ∧ ∀ v, v ∈ s.vars ↔ ∃ a ∈ s.atoms, Term.var v ∈ a.args := by
  refine ⟨SemFOBody.nodup_dedup _, fun v => ?_⟩
  unfold Stmt.vars
  rw [SemFOVars.mem_dedup]
  simp only [List.mem_flatMap, Atom.vars]
  constructor
  · rintro ⟨a, ha, t, ht, hv⟩
    cases t with
    | var w => simp only [Term.vars, List.mem_singleton] at hv; subst hv; exact ⟨a, ha, ht⟩
    | const c => simp [Term.vars] at hv
  · rintro ⟨a, ha, ht⟩
    exact ⟨a, ha, _, ht, by simp [Term.vars]⟩

/-- The assignment `vals` gives the `i`-th variable of the statement the `i`-th value: the substitution used for an
    instance maps the list of the statement's variables to `vals`. -/
theorem C01FO_subst_spec (s : Stmt) (vals : List String) (hl : vals.length = s.vars.length) :
    s.vars.map (fun v => Term.subst (s.vars.zip vals) (.var v)) = vals := by
  conv_rhs => rw [← SemFOReindex.map_lookup_zip s.vars (SemFOBody.nodup_dedup _) vals hl]
  apply List.map_congr_left
  intro v hv
  obtain ⟨x, hx⟩ := SemFOVars.lookup_zip_some s.vars vals hl v hv
  simp only [Term.subst, hx, Option.getD_some]

/-- The atom numbering is injective on the Herbrand base of the signature, and no atom outside it shares an id with
    an atom inside. -/
theorem C01FO_atomId_injective (P : FOProgram) {a b : GAtom} (ha : a ∈ herbrand P) (h : atomId P a = atomId P b) :
    a = b := atomId_inj P ha h

/-- The Herbrand base: declared predicate with the right number of arguments, all arguments constants of `P`. -/
theorem C01FO_herbrand_spec (P : FOProgram) (a : GAtom) :
    a ∈ herbrand P ↔ (a.pred, a.args.length) ∈ P.preds ∧ ∀ x ∈ a.args, x ∈ P.consts := mem_herbrand P a

/-- **Choice groups.** The groups of `ground P` are exactly: one group per probabilistic statement `si` and per
    assignment (number `k`) of constants to ALL its variables (head and body). -/
theorem C01FO_groups_spec (P : FOProgram) (g : Sem.Group) :
    g ∈ (ground P).groups ↔
      ∃ si s k vals, P.stmts[si]? = some s ∧ s.isProb = true ∧
        (tuples P.consts s.vars.length)[k]? = some vals ∧ g = groupInst s (offset P si) k := by
  rw [ground_groups]
  unfold groundSym
  simp only [mem_groundStmts_groups, mem_groundStmt_groups]
  constructor
  · rintro ⟨si, s, hs, hp, k, vals, hv, rfl⟩; exact ⟨si, s, k, vals, hs, hp, hv, rfl⟩
  · rintro ⟨si, s, k, vals, hs, hp, hv, rfl⟩; exact ⟨si, s, hs, hp, k, vals, hv, rfl⟩

/-- The group of an instance has one alternative per head of the statement: the head probabilities, in order, with
    the choice ids of the heads of this instance. -/
theorem C01FO_group_probs (s : Stmt) (c0 k : Nat) :
    (groupInst s c0 k).alts.map (·.1) = s.heads.map (·.1) ∧
    (groupInst s c0 k).alts.map (·.2) = (List.range s.heads.length).map (cidOf s c0 k) := by
  unfold groupInst
  constructor
  · simp only [List.map_map]
    conv_rhs => rw [← List.zipIdx_map_fst 0 s.heads, List.map_map]
    rfl
  · simp only [List.map_map]
    rw [List.range_eq_range', ← List.zipIdx_map_snd 0 s.heads, List.map_map]
    rfl

/-- Distinct (statement, assignment, head) triples have distinct choice ids: the choices of different probabilistic
    facts (even textually identical ones), of different instances of a clause / annotated disjunction, and of
    different heads are different (independent / mutually exclusive as `Sem.worlds` prescribes). -/
theorem C01FO_choice_ids_disjoint (P : FOProgram) {si si' : Nat} {s s' : Stmt}
    (hs : P.stmts[si]? = some s) (hs' : P.stmts[si']? = some s') (hp : s.isProb = true) (hp' : s'.isProb = true)
    {k k' hi hi' : Nat} (hk : k < (tuples P.consts s.vars.length).length)
    (hk' : k' < (tuples P.consts s'.vars.length).length) (hh : hi < s.heads.length) (hh' : hi' < s'.heads.length)
    (h : cidOf s (offset P si) k hi = cidOf s' (offset P si') k' hi') : si = si' ∧ k = k' ∧ hi = hi' := by
  have b := cidOf_lt P.consts s (offset P si) k hi hp hk hh
  have b' := cidOf_lt P.consts s' (offset P si') k' hi' hp' hk' hh'
  have hsi : si = si' := by
    rcases Nat.lt_trichotomy si si' with hlt | heq | hgt
    · have := offsetIn_mono P.consts 0 P.stmts hs hlt
      unfold offset at b b' h; omega
    · exact heq
    · have := offsetIn_mono P.consts 0 P.stmts hs' hgt
      unfold offset at b b' h; omega
  subst hsi
  have : s = s' := by rw [hs] at hs'; exact Option.some.inj hs'
  subst this
  exact ⟨rfl, cidOf_inj s _ k hi k' hi' hh hh' h⟩

/-- Every choice id of `ground P` is below `nchoices` (so `Sem.run`'s bit array of selected choices covers it). -/
theorem C01FO_choice_ids_bound (P : FOProgram) {si : Nat} {s : Stmt} (hs : P.stmts[si]? = some s)
    (hp : s.isProb = true) {k hi : Nat} (hk : k < (tuples P.consts s.vars.length).length)
    (hh : hi < s.heads.length) : cidOf s (offset P si) k hi < (ground P).nchoices := by
  have b := cidOf_lt P.consts s (offset P si) k hi hp hk hh
  have := offsetIn_le_total P.consts 0 P.stmts hs
  unfold offset at b ⊢
  show cidOf s (offsetIn P.consts 0 P.stmts si) k hi < totalChoices P.consts P.stmts
  omega

/-! ### non-vacuity: `0.3::f(a). 0.5::p(X) :- f(X). q :- (p(Y) ; f(Y)), \+p(b). query(p(_)). query(q).` over `{a, b}` -/

def exP : FOProgram :=
  { consts := ["a", "b"]
    preds := [("f", 1), ("p", 1), ("q", 0)]
    stmts := [.pf (3/10) ⟨"f", [.const "a"]⟩,
              .prule (1/2) ⟨"p", [.var "X"]⟩ [.pos ⟨"f", [.var "X"]⟩],
              .rule ⟨"q", []⟩ [.or ⟨"p", [.var "Y"]⟩ ⟨"f", [.var "Y"]⟩, .neg ⟨"p", [.const "b"]⟩]]
    queries := [⟨"p", [.var "_"]⟩, ⟨"q", []⟩]
    evidence := [(⟨"f", [.const "a"]⟩, true)] }

-- atoms: f(a)=0 f(b)=1 p(a)=2 p(b)=3 q=4; choices: 0 = the fact, 1 = p(a) :- f(a), 2 = p(b) :- f(b)
example : (ground exP).rules =
    [⟨0, [], [], some 0⟩, ⟨2, [0], [], some 1⟩, ⟨3, [1], [], some 2⟩,
     ⟨4, [2], [3], none⟩, ⟨4, [0], [3], none⟩, ⟨4, [3], [3], none⟩, ⟨4, [1], [3], none⟩] := by decide
example : (ground exP).natoms = 5 ∧ (ground exP).nchoices = 3 := by decide
example : (ground exP).groups.map (·.alts) = [[(3/10, 0)], [(1/2, 1)], [(1/2, 2)]] := by decide +kernel
example : queryInstances exP = [⟨"p", ["a"]⟩, ⟨"p", ["b"]⟩, ⟨"q", []⟩] := by decide
example : wellFormed exP = true := by decide
-- the third statement, assignment number 1 (`Y = b`), second disjunct: `q :- f(b), \+p(b)`
example : exP.stmts[2]? = some (.rule ⟨"q", []⟩ [.or ⟨"p", [.var "Y"]⟩ ⟨"f", [.var "Y"]⟩, .neg ⟨"p", [.const "b"]⟩]) ∧
    (tuples exP.consts 1)[1]? = some ["b"] ∧
    List.Forall₂ LitSel [.or ⟨"p", [.var "Y"]⟩ ⟨"f", [.var "Y"]⟩, .neg ⟨"p", [.const "b"]⟩]
      [(true, ⟨"f", [.var "Y"]⟩), (false, ⟨"p", [.const "b"]⟩)] :=
  ⟨rfl, by decide, .cons (Or.inr rfl) (.cons rfl .nil)⟩
example : instance_ exP 2 (.rule ⟨"q", []⟩ [.or ⟨"p", [.var "Y"]⟩ ⟨"f", [.var "Y"]⟩, .neg ⟨"p", [.const "b"]⟩]) 1 ["b"] 0
    (1, ⟨"q", []⟩) [(true, ⟨"f", [.var "Y"]⟩), (false, ⟨"p", [.const "b"]⟩)] = ⟨4, [1], [3], none⟩ := by decide
example : (Stmt.rule ⟨"q", [.var "X"]⟩ [.pos ⟨"p", [.var "Y", .var "X"]⟩]).vars = ["X", "Y"] := by decide
-- the groups of the probabilistic clause: offsets 1, assignments 0 and 1
example : offset exP 1 = 1 ∧ (groupInst (.prule (1/2) ⟨"p", [.var "X"]⟩ [.pos ⟨"f", [.var "X"]⟩]) 1 1).alts.map (·.2) = [2] := by
  decide
-- hypotheses of `C01FO_choice_ids_disjoint` / `C01FO_choice_ids_bound`: the probabilistic clause (statement 1) has two
-- assignments and one head; the probabilistic fact (statement 0) one assignment (the empty one) and one head
example : (Stmt.prule (1/2) ⟨"p", [.var "X"]⟩ [.pos ⟨"f", [.var "X"]⟩]).isProb = true ∧
    1 < (tuples exP.consts (Stmt.prule (1/2) ⟨"p", [.var "X"]⟩ [.pos ⟨"f", [.var "X"]⟩]).vars.length).length ∧
    0 < (Stmt.prule (1/2) ⟨"p", [.var "X"]⟩ [.pos ⟨"f", [.var "X"]⟩]).heads.length ∧
    cidOf (.prule (1/2) ⟨"p", [.var "X"]⟩ [.pos ⟨"f", [.var "X"]⟩]) (offset exP 1) 1 0 = 2 ∧
    cidOf (.pf (3/10) ⟨"f", [.const "a"]⟩) (offset exP 0) 0 0 = 0 := by decide
-- `C01FO_atomId_injective` / `C01FO_herbrand_spec`: `p(a)` is in the Herbrand base, `r(a)` and `p(c)` are not
example : (⟨"p", ["a"]⟩ : GAtom) ∈ herbrand exP ∧ (⟨"r", ["a"]⟩ : GAtom) ∉ herbrand exP ∧
    (⟨"p", ["c"]⟩ : GAtom) ∉ herbrand exP := by decide
-- `C01FO_subst_spec`: the assignment `["b", "a"]` to the variables `["X", "Y"]`
example : (Stmt.rule ⟨"q", [.var "X"]⟩ [.pos ⟨"p", [.var "Y", .var "X"]⟩]).vars.map
    (fun v => Term.subst ((Stmt.rule ⟨"q", [.var "X"]⟩ [.pos ⟨"p", [.var "Y", .var "X"]⟩]).vars.zip ["b", "a"]) (.var v)) =
    ["b", "a"] := by decide
example : (SemFO.run exP).z = 3/10 ∧ (SemFO.run exP).num = [3/20, 0, 3/10] := by decide +kernel

end ProbLogProofs.C01FO
