import ProbLogModel.Sem
/-!
# C04 — property theorems only (specification-level statements; see harness/props/c04.py for the tie to the code)
-/
namespace ProbLogProofs.C04
open ProbLogModel.Sem

/-- The specification's result for the empty choice space: a single world of weight 1 (first obligation). -/
theorem C04_spec_base : (worlds []).map (·.weight) = [1] := rfl

end ProbLogProofs.C04
