import ProbLogProofs.Properties.C01GroundFOFull
/-!
# Second instance of the first-order correctness theorem: negation and an annotated disjunction

`0.3::f(a). 0.4::f(b). h(a). g(X) :- f(X), \+ h(X). 0.5::c(X); 0.5::d(X) :- f(X).`
(the AD as the engine model sees it: an auxiliary body predicate `aux(X) :- f(X)` and one clause with a choice per head).
`SpecOK` by evaluation of `specOKb`; the model returns on a history with non-ground calls (so the theorem's premise
"`groundAll … = .ok …`" is satisfiable here), and the theorem gives the truth of every reported key in EVERY world and
for every schedule.
-/
namespace ProbLogProofs.C01GroundFO
open ProbLogModel ProbLogModel.Formula ProbLogModel.GroundFO ProbLogProofs.GroundInv ProbLogProofs.GroundFOSem

def exN : Prog :=
  { nconsts := 2
    defs := [(0, [.fact [0] 0 (some (3/10)), .fact [1] 1 (some (2/5))]),
             (1, [.fact [0] 2 none]),
             (2, [.rule [.var 0] 1 [.pos ⟨0, [.var 0]⟩, .neg ⟨1, [.var 0]⟩] none]),
             (3, [.rule [.var 0] 1 [.pos ⟨5, [.var 0]⟩] (some ⟨3, 0, 1/2, 10⟩)]),
             (4, [.rule [.var 0] 1 [.pos ⟨5, [.var 0]⟩] (some ⟨5, 0, 1/2, 12⟩)]),
             (5, [.rule [.var 0] 1 [.pos ⟨0, [.var 0]⟩] none])]
    nameBase := [(0, 0), (1, 2), (2, 4), (3, 6), (4, 8), (5, 14)] }

def exNAr : List (Pred × Nat) := [(0, 1), (1, 1), (2, 1), (3, 1), (4, 1), (5, 1)]
def exNRk (a : Nat) : Nat := if a < 4 then 0 else if a < 6 then 1 else if a < 10 then 2 else 1

theorem exN_specOK : SpecOK exN 16 (lookup exNAr) exNRk := specOKb_sound (by decide +kernel)

def exNCalls : List Call := [⟨2, [.v 0], .query, 90⟩, ⟨3, [.v 0], .query, 91⟩, ⟨4, [.c 0], .query, 8⟩]

/-- the model returns on this history: `g(b)`; `c(a)`, `c(b)`; `d(a)` -/
theorem exN_runs :
    (match groundAll exN (fun _ => []) 6 exNCalls {} with
     | .ok (rss, _) => rss.map (fun rs => rs.map (·.1)) == [[[1]], [[0], [1]], [[0]]]
     | .error _ => false) = true := by decide +kernel

theorem C01_groundFO_correct_wfm_exN (sched : Sched) (fuel : Nat) (calls : List Call) (rss : List Results) (st' : St)
    (h : groundAll exN sched fuel calls {} = .ok (rss, st')) (chosen : Array Bool) (i : Nat) (hc : i < calls.length)
    (hr : i < rss.length) (har : lookup exNAr calls[i].pred = some calls[i].args.length) :
    (∀ r ∈ rss[i], Fits calls[i].args r.1 ∧ ∀ ρ, Consistent st'.store ρ → Agree chosen st'.store ρ →
      keyVal ρ r.2 = truthFO exN 16 chosen (exN.atomName calls[i].pred r.1)) ∧
    (∀ a ∈ tuples 2 calls[i].args.length, Fits calls[i].args a → a ∉ rss[i].map (·.1) →
      truthFO exN 16 chosen (exN.atomName calls[i].pred a) = false) :=
  C01_groundFO_correct_truthFO_partial exN_specOK sched fuel calls {} rfl rss st' h chosen i hc hr har

end ProbLogProofs.C01GroundFO
