import ProbLogProofs.Lemmas.C17Refute
import ProbLogProofs.Lemmas.C17RoundTrip
import ProbLogProofs.Lemmas.C17Total
/-!
# C17 — the parser is total and printing round-trips (property theorems)

Full statements (DESIGN §6 C17):
  `C17_roundtrip  : WellFormed t → parseString (reprTop t ++ ".") = ok [t]` for every AST over the operator table;
  `C17_fold_total : collapse toks` is `ok` or a ProbLog error, never `Err.internal`.
Both are **false** for the current code; the refutations below give the witnesses (each is a term the parser builds from
a source text), the `_partial` theorems give the classes for which the statements are proved.
-/
namespace ProbLogProofs.C17
open ProbLogModel.Parser ProbLogModel.Syntax ProbLogModel.Lexer ProbLogModel.Printer ProbLogModel.PrintTokens

/-- **Round trip, operator-free class** (partial; the full statement `∀ t over the operator table` is refuted below).
    For every surface term `s` built from variables, numbers, strings, plain/quoted atoms, `[]`, compound terms and
    lists with an optional `| tail`, nested arbitrarily: the modelled `collapse` (bracket matching, `label_tokens`,
    `fold`, `_build_operator_free`, the factory) applied to the token list of its printed form returns exactly the term
    it denotes. `s.valid` only says that the text of every integer token converts to its value (`int()` is not
    modelled). That `s.toks` *is* the token list of the text printed for `s.tm` is checked by the driver for every
    generated term of the class (`tokenize (reprTop s.tm ++ ".") = s.toks ++ [end]`, harness obligation). -/
theorem C17_roundtrip_partial (s : S) (h : s.valid = true) : collapse s.toks = .ok s.tm :=
  collapse_toks s h

/-- non-vacuity: `f(a, [X, "s" | T], g([]))` is in the class, and its printed text is tokenized to `s.toks` -/
example : let s : S := .app "f" (.atom "a") [.lst (.var "X") [.str "\"s\""] (some (.var "T")), .app "g" .nil []]
    s.valid = true ∧ tokenize "f(a,[X, \"s\" | T],g([]))." = .ok (s.toks ++ [tEnd]) := by
  refine ⟨rfl, rfl⟩

/-- An `Or` as operand of an operator is printed without parentheses: `q(X) :- X = (a;b), true.` -/
theorem C17_roundtrip_refuted_or_operand :
    parseString "q(X) :- X = (a;b), true." = .ok [wOr] ∧ ¬ RoundTrips wOr := by
  refine ⟨wOr_src, fun h => ?_⟩
  unfold RoundTrips at h; rw [wOr_print, wOr_reparse] at h; simp [wOr] at h

/-- The operand of a prefix operator is never parenthesised: `x(- (a+b)).` is printed `x(-a+b)`. -/
theorem C17_roundtrip_refuted_prefix_operand :
    parseString "x(- (a+b))." = .ok [wPrefix] ∧ ¬ RoundTrips wPrefix := by
  refine ⟨wPrefix_src, fun h => ?_⟩
  unfold RoundTrips at h; rw [wPrefix_print, wPrefix_reparse] at h; simp [wPrefix, Tm.app] at h

/-- `And.__repr__`/`Or.__repr__` flatten a left-nested conjunction: `a :- (b, c), d.` is printed `a :- b, c, d`. -/
theorem C17_roundtrip_refuted_left_nested_and :
    parseString "a :- (b, c), d." = .ok [wLeftAnd] ∧ ¬ RoundTrips wLeftAnd := by
  refine ⟨wLeftAnd_src, fun h => ?_⟩
  unfold RoundTrips at h; rw [wLeftAnd_print, wLeftAnd_reparse] at h; simp [wLeftAnd, Tm.atom] at h

/-- No space between a symbolic operator and an operand that starts with a symbol: `p(a:(-b)).` is printed `p(a:-b)`. -/
theorem C17_roundtrip_refuted_symbol_glue :
    parseString "p(a:(-b))." = .ok [wGlue] ∧ ¬ RoundTrips wGlue := by
  refine ⟨wGlue_src, fun h => ?_⟩
  unfold RoundTrips at h; rw [wGlue_print, wGlue_reparse] at h; cases h

/-- A negative number has no priority for the printer: `p(2.0**(-1.5)).` is printed `p(2.0**-1.5)` (priority clash). -/
theorem C17_roundtrip_refuted_negative_number :
    parseString "p(2.0**(-1.5))." = .ok [wNeg] ∧ ¬ RoundTrips wNeg := by
  refine ⟨wNeg_src, fun h => ?_⟩
  unfold RoundTrips at h; rw [wNeg_print, wNeg_reparse] at h; cases h

/-- `fold` takes the *leftmost* operator of maximal priority unless the current maximum is `yfx`: `(a^b)*c`, printed
    `a^b*c` (correct for a standard reader), is read as `a^(b*c)`. -/
theorem C17_roundtrip_refuted_mixed_associativity :
    parseString "p((a^b)*c)." = .ok [wMixed] ∧ ¬ RoundTrips wMixed := by
  refine ⟨wMixed_src, fun h => ?_⟩
  unfold RoundTrips at h; rw [wMixed_print, wMixed_reparse] at h; simp [wMixed, Tm.app, Tm.atom] at h

/-- Argument positions do not enforce priority 999: `p((a->b)).` is printed `p(a->b)`. -/
theorem C17_roundtrip_refuted_high_priority_argument :
    parseString "p((a->b))." = .ok [wHigh] ∧ ¬ RoundTrips wHigh := by
  refine ⟨wHigh_src, fun h => ?_⟩
  unfold RoundTrips at h; rw [wHigh_print, wHigh_reparse] at h; cases h

/-- A nested clause is printed without parentheses: `a :- b, (c :- d).` -/
theorem C17_roundtrip_refuted_nested_clause :
    parseString "a :- b, (c :- d)." = .ok [wClause] ∧ ¬ RoundTrips wClause := by
  refine ⟨wClause_src, fun h => ?_⟩
  unfold RoundTrips at h; rw [wClause_print, wClause_reparse] at h; cases h

/-- A `Not` below a term is printed by the generic branch: `not q(X)` becomes the compound term `not(q(X))`. -/
theorem C17_roundtrip_refuted_nested_not :
    parseString "p :- findall(X, not q(X), L)." = .ok [wNot] ∧ ¬ RoundTrips wNot := by
  refine ⟨wNot_src, fun h => ?_⟩
  unfold RoundTrips at h; rw [wNot_print, wNot_reparse] at h; simp [wNot, Tm.app] at h

/-- **Totality of the modelled `collapse`/`label_tokens`/`fold`** (partial: token lists without a `<` token; the full
    statement is refuted by the three witnesses below). For every token list whose tokens have the flags the tokenizer
    gives them (`aggregate` unset, no `functor` flag without `atom`, `,` and `|` are not atoms) the model returns a
    term, a `ParseError`, a factory outcome — or one of the two internal errors of `_build_clause`; in particular
    `tokens[i + 1]` in `label_tokens`, `enum_tokens()` of a non-list in `_build_operator_free`, `tokens[-1]` of an
    empty list and the recursion bound of `fold` are never reached. -/
theorem C17_fold_total_partial (toks : List Tok)
    (h : ∀ t ∈ toks, t.aggregate = false ∧ (t.atom = false → t.functor = false) ∧
        (t.special = some .comma ∨ t.special = some .pipe → t.atom = false) ∧ t.special ≠ some .sharpOpen) :
    ∀ k, collapse toks = .error (.internal k) → k = "AttributeError:_build_clause" ∨ k = "IndexError:_build_clause" := by
  intro k hk
  refine collapse_noBad toks (fun t ht => ?_) k hk
  obtain ⟨h1, h2, h3, h4⟩ := h t ht
  exact ⟨⟨h1, rfl, h2, h3⟩, by simpa using h4⟩

/-- non-vacuity: the tokens `p ( X , [ a | T ] ) , \\+` (as the tokenizer builds them) satisfy the hypothesis -/
example : ∀ t ∈ ([tk "p" none true, tLP, tk "X" (some .variable), tComma, tLB, tk "a", tPipe, tk "T" (some .variable), tRB, tRP,
      tComma, { tk "\\+" with unop := some ⟨900, .fy, .not_⟩ }] : List Tok),
    t.aggregate = false ∧ (t.atom = false → t.functor = false) ∧
      (t.special = some .comma ∨ t.special = some .pipe → t.atom = false) ∧ t.special ≠ some .sharpOpen := by
  decide

/-- `collapse` reads `tokens[token_i + 1]` before checking the length: a statement ending in `<` is an `IndexError`. -/
theorem C17_fold_total_refuted_sharp : parseString "a <." = .error (.internal "IndexError:collapse") := rfl

/-- `_build_clause` reads `current.functor` of `None` when the head is `()`. -/
theorem C17_fold_total_refuted_empty_head : parseString "() :- a." = .error (.internal "AttributeError:_build_clause") := rfl

/-- `_build_clause` indexes `current.args` of a `;` atom. -/
theorem C17_fold_total_refuted_semicolon_head : parseString "; :- a." = .error (.internal "IndexError:_build_clause") := rfl

end ProbLogProofs.C17
