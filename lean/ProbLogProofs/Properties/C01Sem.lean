import ProbLogModel.Sem
import ProbLogProofs.Lemmas.SemWorlds
/-!
# C01 — theorems about the *specification* `Sem` itself (the reference the C01/C02/C07/C08 checks execute)

`Properties/C01.lean` holds the pipeline theorems; this file shows that the reference is a sane definition of the
distribution semantics: the total choices form a probability distribution, `gamma` is the least model of the reduct,
and for definite programs `wfm` is two-valued and equal to that least model.
-/
namespace ProbLogProofs.C01
open ProbLogModel.Sem ProbLogProofs

/-- The weights of the total choices of any list of groups sum to 1 (no hypothesis on the probabilities:
    the "none of the alternatives" remainder `1 - Σ p` makes each group's factor telescope to 1). -/
theorem C01_worlds_weight_sum (gs : List Group) : ((worlds gs).map (·.weight)).sum = 1 :=
  SemWorlds.wsum_worlds gs

/-- The number of total choices is the product over the groups of (number of alternatives + 1). -/
theorem C01_worlds_count (gs : List Group) :
    (worlds gs).length = (gs.map (fun g => g.alts.length + 1)).prod :=
  SemWorlds.length_worlds gs

-- non-vacuity: a probabilistic fact 0.3::c0 and an annotated disjunction 0.2::c1; 0.5::c2
example : ((worlds [⟨[(3/10, 0)]⟩, ⟨[(1/5, 1), (1/2, 2)]⟩]).map (·.weight)) =
    [3/50, 3/20, 9/100, 7/50, 7/20, 21/100] := by decide +kernel
example : (worlds [⟨[(3/10, 0)]⟩, ⟨[(1/5, 1), (1/2, 2)]⟩]).length = 6 := by decide

end ProbLogProofs.C01
