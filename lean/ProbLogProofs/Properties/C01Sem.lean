import ProbLogModel.Sem
import ProbLogProofs.Lemmas.SemWorlds
import ProbLogProofs.Lemmas.SemGamma
import ProbLogProofs.Lemmas.SemRules
import ProbLogProofs.Lemmas.SemDefinite
import ProbLogProofs.Lemmas.SemWfm
/-!
# C01 — theorems about the *specification* `Sem` itself (the reference the C01/C02/C07/C08 checks execute)

`Properties/C01.lean` holds the pipeline theorems; this file shows that the reference is a sane definition of the
distribution semantics: the total choices form a probability distribution, `gamma` is the least model of the reduct,
and for definite programs `wfm` is two-valued and equal to that least model.
-/
namespace ProbLogProofs.C01
open ProbLogModel.Sem ProbLogProofs ProbLogProofs.SemGamma ProbLogProofs.SemRules ProbLogProofs.SemDefinite

/-- The weights of the total choices of any list of groups sum to 1 (no hypothesis on the probabilities:
    the "none of the alternatives" remainder `1 - Σ p` makes each group's factor telescope to 1). -/
theorem C01_worlds_weight_sum (gs : List Group) : ((worlds gs).map (·.weight)).sum = 1 :=
  SemWorlds.wsum_worlds gs

/-- The number of total choices is the product over the groups of (number of alternatives + 1). -/
theorem C01_worlds_count (gs : List Group) :
    (worlds gs).length = (gs.map (fun g => g.alts.length + 1)).prod :=
  SemWorlds.length_worlds gs

-- non-vacuity: a probabilistic fact 0.3::c0 and an annotated disjunction 0.2::c1; 0.5::c2
example : ((worlds [⟨[(3/10, 0)]⟩, ⟨[(1/5, 1), (1/2, 2)]⟩]).map (·.weight)) =
    [3/50, 3/20, 9/100, 7/50, 7/20, 21/100] := by decide +kernel
example : (worlds [⟨[(3/10, 0)]⟩, ⟨[(1/5, 1), (1/2, 2)]⟩]).length = 6 := by decide

/-! ## `gamma` is the least model of the reduct

`Closed rules chosen ctx M` (`Lemmas/SemGamma.lean`): `M : Nat → Bool` contains the head of every rule whose choice
is selected (`chOk`), whose positive body lies in `M` and whose negative body is false in `ctx`. -/

/-- The fuel `natoms + 1` is sufficient: the result of `gamma` is a fixpoint of the pass `tpPass`
    (every pass that is not the last one adds at least one of the `natoms` atoms). -/
theorem C01_gamma_fixpoint (rules : List Rule) (chosen : Array Bool) (natoms : Nat) (ctx : Array Bool) :
    tpPass rules chosen ctx (gamma rules chosen natoms ctx) = gamma rules chosen natoms ctx :=
  (gamma_spec rules chosen natoms ctx).2.1

/-- `gamma` is closed under the rules (heads must be atoms `< natoms`; nothing is asked of body atoms). -/
theorem C01_gamma_closed (rules : List Rule) (chosen : Array Bool) (natoms : Nat) (ctx : Array Bool)
    (hwf : wfHeads natoms rules = true) :
    Closed rules chosen ctx (getB (gamma rules chosen natoms ctx)) :=
  (gamma_closedBelow rules chosen natoms ctx).closed hwf

/-- ... and it is below every closed set: it is the least model of the reduct. No hypothesis. -/
theorem C01_gamma_least (rules : List Rule) (chosen : Array Bool) (natoms : Nat) (ctx : Array Bool)
    (M : Nat → Bool) (hM : Closed rules chosen ctx M) (i : Nat)
    (hi : getB (gamma rules chosen natoms ctx) i = true) : M i = true :=
  gamma_least rules chosen natoms ctx M (hM.below natoms) i hi

/-- Hypothesis-free form: `gamma` is the least set closed under the rules with head `< natoms`
    (rules with a head `≥ natoms` are ignored by `tpPass`), and it only contains atoms `< natoms`. -/
theorem C01_gamma_least_below (rules : List Rule) (chosen : Array Bool) (natoms : Nat) (ctx : Array Bool) :
    ClosedBelow natoms rules chosen ctx (getB (gamma rules chosen natoms ctx)) ∧
    (∀ M, ClosedBelow natoms rules chosen ctx M → ∀ i, getB (gamma rules chosen natoms ctx) i = true → M i = true) ∧
    (∀ i, getB (gamma rules chosen natoms ctx) i = true → i < natoms) :=
  ⟨gamma_closedBelow rules chosen natoms ctx, gamma_least rules chosen natoms ctx, fun _ h => gamma_lt h⟩

-- non-vacuity: `c0::a1. a0 :- a1. a2 :- \+a0.` with c0 selected, read in the context {a0}
example : wfHeads 3 [⟨0, [1], [], none⟩, ⟨1, [], [], some 0⟩, ⟨2, [], [0], none⟩] = true := by decide
example : wfProg 3 [⟨0, [1], [], none⟩, ⟨1, [], [], some 0⟩, ⟨2, [], [0], none⟩] = true := by decide
example : (gamma [⟨0, [1], [], none⟩, ⟨1, [], [], some 0⟩, ⟨2, [], [0], none⟩] #[true] 3
    #[true, false, false]).toList = [true, true, false] := by decide
-- a closed set exists (the hypothesis of `C01_gamma_least` is satisfiable): everything
example : Closed [⟨0, [1], [], none⟩, ⟨1, [], [], some 0⟩, ⟨2, [], [0], none⟩] #[true] #[true, false, false]
    (fun _ => true) := fun _ _ _ _ _ => rfl

/-! ## relevant atoms = atoms reachable from the roots -/

/-- `relevantAtoms` is exactly reachability from the roots through positive and negative body atoms, inside the atoms
    `< natoms` (`Reach` in `Lemmas/SemRules.lean`). No hypothesis. -/
theorem C01_relevant_iff_reach (rules : List Rule) (natoms : Nat) (roots : List Nat) (a : Nat) :
    getB (relevantAtoms rules natoms roots) a = true ↔ Reach natoms rules roots a :=
  relevant_iff_reach rules natoms roots a

/-- Why `relevantAtoms` is no longer the worklist algorithm: its fuel `natoms * (|rules| + 1) + |roots| + 1` does
    not bound the number of pops. Witness `a0 :- a1 (×20), a2.`: atom 2 is reachable from 0 but not marked. -/
theorem C01_worklist_fuel_insufficient :
    let rules : List Rule := [⟨0, List.replicate 20 1 ++ [2], [], none⟩, ⟨1, [], [], none⟩, ⟨2, [], [], none⟩]
    getB (relevantAtomsWorklist rules 3 [0]) 2 = false ∧ getB (relevantAtoms rules 3 [0]) 2 = true ∧
    wfProg 3 rules = true := by decide +kernel

example : (relevantAtoms [⟨0, [1], [2], none⟩, ⟨3, [0], [], none⟩] 4 [0]).toList = [true, true, true, false] := by
  decide
example : Reach 4 [⟨0, [1], [2], none⟩, ⟨3, [0], [], none⟩] [0] 2 :=
  .step (r := ⟨0, [1], [2], none⟩) (.root (by decide) (by decide)) (by decide) (by decide) (by decide)

/-! ## the alternating fixpoint -/

/-- The fuel `natoms + 1` of `wfm` is sufficient: the result `(T, U)` satisfies `U = Γ(T)` and `T = Γ(U)`, `T ⊆ U`,
    and `T` is reached by iterating `Γ²` from the empty set (so it is the least fixpoint of `Γ²`: the well-founded
    model). No hypothesis. -/
theorem C01_wfm_fixpoint (rules : List Rule) (chosen : Array Bool) (natoms : Nat) :
    (wfm rules chosen natoms).2 = gamma rules chosen natoms (wfm rules chosen natoms).1 ∧
    (wfm rules chosen natoms).1 = gamma rules chosen natoms (wfm rules chosen natoms).2 ∧
    (∃ m, (wfm rules chosen natoms).1 = SemWfm.tseq rules chosen natoms m) ∧
    (∀ X : Array Bool, X.size = natoms → gamma rules chosen natoms (gamma rules chosen natoms X) = X →
      Le (wfm rules chosen natoms).1 X) ∧
    Le (wfm rules chosen natoms).1 (wfm rules chosen natoms).2 := by
  obtain ⟨m, e, f⟩ := SemWfm.wfm_spec rules chosen natoms
  rw [e]
  have hleast : ∀ X : Array Bool, X.size = natoms → gamma rules chosen natoms (gamma rules chosen natoms X) = X →
      Le (SemWfm.tseq rules chosen natoms m) X := by
    intro X hX hfix
    generalize m = k
    induction k with
    | zero => intro i hi; simp [SemWfm.tseq, getB_replicate] at hi
    | succ k ih =>
      rw [← hfix]
      exact SemWfm.gamma_antimono _ _ _ (SemWfm.gamma_antimono _ _ _ ih)
  have f' : gamma rules chosen natoms (gamma rules chosen natoms (SemWfm.tseq rules chosen natoms m)) =
      SemWfm.tseq rules chosen natoms m := f
  refine ⟨rfl, f'.symm, ⟨m, rfl⟩, hleast, hleast _ (gamma_size _ _ _ _) ?_⟩
  show gamma rules chosen natoms (gamma rules chosen natoms (gamma rules chosen natoms _)) = _
  rw [f']

-- non-vacuity: `a0 :- \\+a1. a1 :- \\+a0. a2 :- \\+a2, a0. a3.`: a3 true, the rest undefined
example : ((wfm [⟨0, [], [1], none⟩, ⟨1, [], [0], none⟩, ⟨2, [0], [2], none⟩, ⟨3, [], [], none⟩] #[] 4).1.toList,
    (wfm [⟨0, [], [1], none⟩, ⟨1, [], [0], none⟩, ⟨2, [0], [2], none⟩, ⟨3, [], [], none⟩] #[] 4).2.toList) =
    ([false, false, false, true], [true, true, true, true]) := by decide

/-! ## definite programs -/

/-- For a definite program (no negative body atom anywhere) the well-founded model is two-valued (`T = U`) and both
    components are `gamma` (whose context is then irrelevant), i.e. the least model:
    closed under the rules (heads `< natoms`) and below every closed set. -/
theorem C01_wfm_two_valued_definite (rules : List Rule) (chosen : Array Bool) (natoms : Nat)
    (hdef : definite rules = true) :
    (wfm rules chosen natoms).1 = (wfm rules chosen natoms).2 ∧
    (∀ ctx, (wfm rules chosen natoms).1 = gamma rules chosen natoms ctx) ∧
    (wfHeads natoms rules = true → ∀ ctx, Closed rules chosen ctx (getB (wfm rules chosen natoms).1)) ∧
    (∀ ctx M, Closed rules chosen ctx M → ∀ i, getB (wfm rules chosen natoms).1 i = true → M i = true) := by
  refine ⟨by rw [wfm_definite hdef chosen natoms #[]], fun ctx => by rw [wfm_definite hdef chosen natoms ctx], ?_, ?_⟩
  · intro hwf ctx
    rw [wfm_definite hdef chosen natoms ctx]
    exact C01_gamma_closed rules chosen natoms ctx hwf
  · intro ctx M hM i hi
    rw [wfm_definite hdef chosen natoms ctx] at hi
    exact C01_gamma_least rules chosen natoms ctx M hM i hi

-- non-vacuity: positive cycle `a0 :- a1. a1 :- a0. a1 :- c0. a2 :- a2.`
example : definite [⟨0, [1], [], none⟩, ⟨1, [0], [], none⟩, ⟨1, [], [], some 0⟩, ⟨2, [2], [], none⟩] = true := by
  decide
example : (wfm [⟨0, [1], [], none⟩, ⟨1, [0], [], none⟩, ⟨1, [], [], some 0⟩, ⟨2, [2], [], none⟩] #[true] 3).1.toList
    = [true, true, false] := by decide

end ProbLogProofs.C01
