import ProbLogModel.Sem
import ProbLogModel.GroundAcyclic
import ProbLogProofs.Lemmas.GroundSem
import ProbLogProofs.Lemmas.GroundInv
import ProbLogProofs.Lemmas.GroundEval
/-!
# C01 / C03 / C08 on ground programs without positive recursion — the tabled grounding engine (property theorems only)

Model: `ProbLogModel/GroundAcyclic.lean` (`groundAll P sched fuel calls st` = successive `engine.ground` calls on one
target whose table persists; `sched` = the order in which the clauses of every goal are explored).  Tied to
`problog/engine_stack.py`, `eval_nodes.py`, `engine.py` by exact equality of the ground program and of the table on
generated programs (`harness/ground_util.py`, checks C01, C03, C08).

Reading of the statements:
* `WfP P natoms rk` (`Lemmas/GroundSem.lean`): distinct goals in `P.defs`, goals `< natoms`, every body atom of a clause
  has a smaller rank than its head (no recursion), no empty body.  Decidable (`wfB`, checked by the driver per input).
* `toSem P`: the program as `Sem.Rule`s (the identifier of a probabilistic fact / AD choice is its choice id); a world
  is a `chosen : Array Bool` over choice ids, exactly the argument of `Sem.wfm` in `Sem.run`.  Whether the worlds are
  restricted by AD groups plays no role: the statements hold for EVERY `chosen`.
* `Agree chosen S ρ`: the valuation `ρ` of node ids gives every atom node `Ident.user c` the value `chosen[c]`;
  `Consistent S ρ` (model file `Formula.lean`): every compound node is the AND / OR of its children.  The final store is
  `Acyclic` (C11), so for every world such a `ρ` exists and all of them agree on every key
  (`C11_acyclic_exists_unique`): "the value of key `k` in world `chosen`" is well defined.
* The hypothesis on the fuel is `rank < fuel`; with it `groundAll` does NOT fail (`∃ ks st, ... = .ok`).
-/
namespace ProbLogProofs.C01Ground
open ProbLogModel ProbLogModel.Formula ProbLogModel.GroundAcyclic
open ProbLogProofs.GroundSem ProbLogProofs.GroundInv ProbLogProofs.GroundEval
open ProbLogModel.Sem (getB wfm)

/-- The truth value of atom `a` in the world `chosen`: the well-founded model of `Sem`. -/
def truth (P : Prog) (natoms : Nat) (chosen : Array Bool) (a : Atom) : Bool :=
  getB (wfm (toSem P) chosen natoms).1 a

/-- For acyclic programs the well-founded model is total, and it is THE solution of the completion equations
    (so `truth` is the perfect / stratified model: an atom is true iff one of its clauses has a true body). -/
theorem C01_ground_truth_spec {P : Prog} {natoms : Nat} {rk : Atom → Nat} (hw : WfP P natoms rk)
    (chosen : Array Bool) :
    (∀ a, getB (wfm (toSem P) chosen natoms).1 a = getB (wfm (toSem P) chosen natoms).2 a) ∧
    IsModel P chosen (truth P natoms chosen) ∧
    ∀ M, IsModel P chosen M → ∀ a, M a = truth P natoms chosen a :=
  ⟨wfm_two_valued hw chosen, wfm_isModel hw chosen,
   fun _ hM a => isModel_unique hw chosen hM (wfm_isModel hw chosen) a⟩

/-- State invariant, for all worlds at once: the store satisfies the builder invariants and is acyclic; every
    tabled goal's key, and every key stored under a query / evidence name, denotes the truth value of its atom in
    every world. -/
def TableOK (P : Prog) (natoms : Nat) (st : St) : Prop :=
  SInv st.store ∧
  (∀ chosen : Array Bool, ∀ a k, lookup st.table a = some k →
    keyBelow st.store.nodes.length k ∧
    ∀ ρ, Consistent st.store ρ → Agree chosen st.store ρ → keyVal ρ k = truth P natoms chosen a) ∧
  (∀ chosen : Array Bool, ∀ l n k, (l, n, k) ∈ st.store.names → l ≠ Label.named →
    ∃ a, n = Name.pos a ∧ keyBelow st.store.nodes.length k ∧
      ∀ ρ, Consistent st.store ρ → Agree chosen st.store ρ → keyVal ρ k = truth P natoms chosen a)

theorem tableOK_inv {P : Prog} {natoms : Nat} {st : St} (h : TableOK P natoms st) (chosen : Array Bool) :
    Inv chosen (truth P natoms chosen) st ∧ NInv chosen (truth P natoms chosen) st.store :=
  ⟨⟨h.1, fun a k hl => ⟨(h.2.1 chosen a k hl).1, fun ρ hρ => (h.2.1 chosen a k hl).2 ρ hρ.1 hρ.2⟩⟩,
   fun l n k hm hl => by
     obtain ⟨a, rfl, hb, hv⟩ := h.2.2 chosen l n k hm hl
     exact ⟨a, rfl, hb, fun ρ hρ => hv ρ hρ.1 hρ.2⟩⟩

/-- The empty target (any options without `keep_all`) with the empty table. -/
theorem tableOK_init (P : Prog) (natoms : Nat) (o : Opts) (ho : o.keepAll = false) :
    TableOK P natoms { store := { opts := o } } :=
  ⟨⟨⟨fun _ _ h => (by cases h), fun _ _ h => (by cases h), fun _ _ h => (by cases h)⟩,
    fun _ _ h => (by cases h), ho⟩, fun _ _ _ h => (by cases h), fun _ _ _ _ h => (by cases h)⟩

/-- **(d) Table invariant.**  From any state that satisfies it, any sequence of `ground` calls (every schedule, fuel
    above the ranks of the called atoms) succeeds and keeps the invariant: every tabled goal's key - and every key
    stored under a query / evidence name - denotes the goal's truth value in every world; the store only grows
    (`Grows`, C11), every table entry is kept, every named (label, atom) pair keeps an entry. -/
theorem Ground_table_inv {P : Prog} {natoms : Nat} {rk : Atom → Nat} (hw : WfP P natoms rk) (sched : Sched)
    (fuel : Nat) (calls : List Call) (hf : ∀ c ∈ calls, rk c.atom < fuel)
    (hlab : ∀ c ∈ calls, c.label ≠ Label.named) (st : St) (h0 : TableOK P natoms st) :
    ∃ ks st', groundAll P sched fuel calls st = .ok (ks, st') ∧ TableOK P natoms st' ∧
      Grows st.store st'.store ∧ (∀ a k, lookup st.table a = some k → lookup st'.table a = some k) ∧
      (∀ l n k, (l, n, k) ∈ st.store.names → l ≠ Label.named → ∃ k', (l, n, k') ∈ st'.store.names) ∧
      ks.length = calls.length := by
  obtain ⟨ks, st', he, hi, hx, hlen, _, _, hkeep, _⟩ := groundAll_spec sched hw (wfm_isModel hw #[]) fuel calls hf hlab st
      (tableOK_inv h0 #[]).1 (tableOK_inv h0 #[]).2
  refine ⟨ks, st', he, ⟨hi.s, fun chosen a k hl => ?_, fun chosen l n k hm hl => ?_⟩, hx.grows, hx.table, hkeep, hlen⟩
  · obtain ⟨ks', st'', he', hi', _⟩ := groundAll_spec sched hw (wfm_isModel hw chosen) fuel calls hf hlab st
      (tableOK_inv h0 chosen).1 (tableOK_inv h0 chosen).2
    rw [he] at he'
    cases he'
    exact ⟨(hi'.t a k hl).1, fun ρ h1 h2 => (hi'.t a k hl).2 ρ ⟨h1, h2⟩⟩
  · obtain ⟨ks', st'', he', _, _, _, _, hnm', _⟩ := groundAll_spec sched hw (wfm_isModel hw chosen) fuel calls hf hlab st
      (tableOK_inv h0 chosen).1 (tableOK_inv h0 chosen).2
    rw [he] at he'
    cases he'
    obtain ⟨a, rfl, hb, hv⟩ := hnm' l n k hm hl
    exact ⟨a, rfl, hb, fun ρ h1 h2 => hv ρ ⟨h1, h2⟩⟩

/-- **(a) The grounder is correct on ground programs without recursion.**  For every program of the fragment, every
    schedule, every history of `ground` calls on one target (starting from the empty target or from any state with
    the table invariant): `groundAll` succeeds; the final ground program is well formed and acyclic; for EVERY world
    `chosen` a valuation of the final store exists, and under every such valuation
    * the key computed for the `i`-th call, and
    * the key stored in the final name table under (label, atom) of every call
    have the truth value of the called atom in the well-founded model `Sem.wfm` of that world (which is total).
    An atom without proofs gets the key FALSE whose value is `false` = its truth value. -/
theorem C01_ground_acyclic_correct {P : Prog} {natoms : Nat} {rk : Atom → Nat} (hw : WfP P natoms rk)
    (sched : Sched) (fuel : Nat) (calls : List Call) (hf : ∀ c ∈ calls, rk c.atom < fuel)
    (hlab : ∀ c ∈ calls, c.label ≠ Label.named) (st : St) (h0 : TableOK P natoms st) :
    ∃ ks st', groundAll P sched fuel calls st = .ok (ks, st') ∧ ks.length = calls.length ∧
      WF st'.store ∧ Acyclic st'.store ∧
      (∀ c ∈ calls, ∃ k, (c.label, Name.pos c.atom, k) ∈ st'.store.names) ∧
      ∀ chosen : Array Bool,
        (∃ ρ, Consistent st'.store ρ ∧ Agree chosen st'.store ρ) ∧
        (∀ a, getB (wfm (toSem P) chosen natoms).1 a = getB (wfm (toSem P) chosen natoms).2 a) ∧
        ∀ ρ, Consistent st'.store ρ → Agree chosen st'.store ρ →
          (∀ i (hc : i < calls.length) (hk : i < ks.length),
            keyBelow st'.store.nodes.length ks[i] ∧
            keyVal ρ ks[i] = getB (wfm (toSem P) chosen natoms).1 calls[i].atom) ∧
          (∀ c ∈ calls, ∀ k, (c.label, Name.pos c.atom, k) ∈ st'.store.names →
            keyVal ρ k = getB (wfm (toSem P) chosen natoms).1 c.atom) := by
  obtain ⟨ks, st', he, hi, _, hlen, _, _, _, hcalls⟩ := groundAll_spec sched hw (wfm_isModel hw #[]) fuel calls hf hlab st
      (tableOK_inv h0 #[]).1 (tableOK_inv h0 #[]).2
  refine ⟨ks, st', he, hlen, hi.s.wf, hi.s.acyc, hcalls, fun chosen => ⟨val_exists hi.s.acyc chosen,
    wfm_two_valued hw chosen, fun ρ h1 h2 => ?_⟩⟩
  obtain ⟨ks', st'', he', _, _, _, hd, hnm', _⟩ := groundAll_spec sched hw (wfm_isModel hw chosen) fuel calls hf hlab st
      (tableOK_inv h0 chosen).1 (tableOK_inv h0 chosen).2
  rw [he] at he'
  cases he'
  refine ⟨fun i hc hk => ⟨(hd i hc hk).1, (hd i hc hk).2 ρ ⟨h1, h2⟩⟩, fun c hc k hm => ?_⟩
  obtain ⟨a, ha, _, hv⟩ := hnm' c.label (Name.pos c.atom) k hm (hlab c hc)
  cases ha
  exact hv ρ ⟨h1, h2⟩

/-- The same from the empty target. -/
theorem C01_ground_acyclic_correct_init {P : Prog} {natoms : Nat} {rk : Atom → Nat} (hw : WfP P natoms rk)
    (sched : Sched) (fuel : Nat) (calls : List Call) (hf : ∀ c ∈ calls, rk c.atom < fuel)
    (hlab : ∀ c ∈ calls, c.label ≠ Label.named) (o : Opts) (ho : o.keepAll = false) :
    ∃ ks st', groundAll P sched fuel calls { store := { opts := o } } = .ok (ks, st') ∧ ks.length = calls.length ∧
      WF st'.store ∧ Acyclic st'.store ∧
      (∀ c ∈ calls, ∃ k, (c.label, Name.pos c.atom, k) ∈ st'.store.names) ∧
      ∀ chosen : Array Bool,
        (∃ ρ, Consistent st'.store ρ ∧ Agree chosen st'.store ρ) ∧
        ∀ ρ, Consistent st'.store ρ → Agree chosen st'.store ρ →
          (∀ i (hc : i < calls.length) (hk : i < ks.length),
            keyVal ρ ks[i] = getB (wfm (toSem P) chosen natoms).1 calls[i].atom) ∧
          (∀ c ∈ calls, ∀ k, (c.label, Name.pos c.atom, k) ∈ st'.store.names →
            keyVal ρ k = getB (wfm (toSem P) chosen natoms).1 c.atom) := by
  obtain ⟨ks, st', he, hlen, hwf, hac, hn, h⟩ :=
    C01_ground_acyclic_correct hw sched fuel calls hf hlab _ (tableOK_init P natoms o ho)
  exact ⟨ks, st', he, hlen, hwf, hac, hn, fun chosen => ⟨(h chosen).1, fun ρ h1 h2 =>
    ⟨fun i hc hk => (((h chosen).2.2 ρ h1 h2).1 i hc hk).2, ((h chosen).2.2 ρ h1 h2).2⟩⟩⟩

/-- Two runs - any two schedules, any two histories, any two fuels above the ranks, any two start states with the
    table invariant - give an atom the same value in every world, wherever it is called. -/
theorem ground_value_unique {P : Prog} {natoms : Nat} {rk : Atom → Nat} (hw : WfP P natoms rk)
    (sched1 sched2 : Sched) (fuel1 fuel2 : Nat) (calls1 calls2 : List Call)
    (hf1 : ∀ c ∈ calls1, rk c.atom < fuel1) (hf2 : ∀ c ∈ calls2, rk c.atom < fuel2)
    (hl1 : ∀ c ∈ calls1, c.label ≠ Label.named) (hl2 : ∀ c ∈ calls2, c.label ≠ Label.named) (st1 st2 : St)
    (h1 : TableOK P natoms st1) (h2 : TableOK P natoms st2) :
    ∃ ks1 st1' ks2 st2', groundAll P sched1 fuel1 calls1 st1 = .ok (ks1, st1') ∧
      groundAll P sched2 fuel2 calls2 st2 = .ok (ks2, st2') ∧
      ks1.length = calls1.length ∧ ks2.length = calls2.length ∧
      ∀ chosen ρ1 ρ2, Consistent st1'.store ρ1 → Agree chosen st1'.store ρ1 →
        Consistent st2'.store ρ2 → Agree chosen st2'.store ρ2 →
        ∀ i j (hi : i < calls1.length) (hj : j < calls2.length) (hki : i < ks1.length) (hkj : j < ks2.length),
          calls1[i].atom = calls2[j].atom → keyVal ρ1 ks1[i] = keyVal ρ2 ks2[j] := by
  obtain ⟨ks1, st1', he1, hlen1, _, _, _, hv1⟩ := C01_ground_acyclic_correct hw sched1 fuel1 calls1 hf1 hl1 st1 h1
  obtain ⟨ks2, st2', he2, hlen2, _, _, _, hv2⟩ := C01_ground_acyclic_correct hw sched2 fuel2 calls2 hf2 hl2 st2 h2
  refine ⟨ks1, st1', ks2, st2', he1, he2, hlen1, hlen2, fun chosen ρ1 ρ2 a1 b1 a2 b2 i j hi hj hki hkj hat => ?_⟩
  rw [(((hv1 chosen).2.2 ρ1 a1 b1).1 i hi hki).2, (((hv2 chosen).2.2 ρ2 a2 b2).1 j hj hkj).2, hat]

/-- **(b) C03: the result does not depend on the order in which sibling goals are explored.**  The same history
    grounded under any two schedules: every call gets the same value in every world (the keys and the node numbering
    may differ). -/
theorem C03_ground_schedule_independent {P : Prog} {natoms : Nat} {rk : Atom → Nat} (hw : WfP P natoms rk)
    (sched1 sched2 : Sched) (fuel : Nat) (calls : List Call) (hf : ∀ c ∈ calls, rk c.atom < fuel)
    (hlab : ∀ c ∈ calls, c.label ≠ Label.named) (o : Opts) (ho : o.keepAll = false) :
    ∃ ks1 st1 ks2 st2, groundAll P sched1 fuel calls { store := { opts := o } } = .ok (ks1, st1) ∧
      groundAll P sched2 fuel calls { store := { opts := o } } = .ok (ks2, st2) ∧
      ks1.length = calls.length ∧ ks2.length = calls.length ∧
      ∀ chosen ρ1 ρ2, Consistent st1.store ρ1 → Agree chosen st1.store ρ1 →
        Consistent st2.store ρ2 → Agree chosen st2.store ρ2 →
        ∀ i (h1 : i < ks1.length) (h2 : i < ks2.length), keyVal ρ1 ks1[i] = keyVal ρ2 ks2[i] := by
  obtain ⟨ks1, st1, ks2, st2, he1, he2, hl1, hl2, h⟩ := ground_value_unique hw sched1 sched2 fuel fuel calls calls
    hf hf hlab hlab _ _ (tableOK_init P natoms o ho) (tableOK_init P natoms o ho)
  exact ⟨ks1, st1, ks2, st2, he1, he2, hl1, hl2, fun chosen ρ1 ρ2 a1 b1 a2 b2 i h1 h2 =>
    h chosen ρ1 ρ2 a1 b1 a2 b2 i i (by omega) (by omega) h1 h2 rfl⟩

/-- **(c) C08: a call's answer does not depend on what was grounded before (or after) it.**  The `i`-th call of any
    history (any schedule; earlier calls have filled the table, later calls have extended the store) has in every
    world the value it gets when it is grounded alone into an empty target (under any schedule). -/
theorem C08_ground_history_independent {P : Prog} {natoms : Nat} {rk : Atom → Nat} (hw : WfP P natoms rk)
    (sched sched' : Sched) (fuel : Nat) (calls : List Call) (hf : ∀ c ∈ calls, rk c.atom < fuel)
    (hlab : ∀ c ∈ calls, c.label ≠ Label.named) (o : Opts) (ho : o.keepAll = false) (i : Nat)
    (hi : i < calls.length) :
    ∃ ks st k' st', groundAll P sched fuel calls { store := { opts := o } } = .ok (ks, st) ∧
      groundAll P sched' fuel [calls[i]] { store := { opts := o } } = .ok ([k'], st') ∧
      ∃ hk : i < ks.length,
      ∀ chosen ρ ρ', Consistent st.store ρ → Agree chosen st.store ρ →
        Consistent st'.store ρ' → Agree chosen st'.store ρ' → keyVal ρ ks[i] = keyVal ρ' k' := by
  obtain ⟨ks, st, ks', st', he, he', hl, hl', h⟩ := ground_value_unique hw sched sched' fuel fuel calls [calls[i]]
    hf (fun c hc => by rw [List.mem_singleton.1 hc]; exact hf _ (List.getElem_mem hi))
    hlab (fun c hc => by rw [List.mem_singleton.1 hc]; exact hlab _ (List.getElem_mem hi)) _ _
    (tableOK_init P natoms o ho) (tableOK_init P natoms o ho)
  match ks', hl' with
  | [k'], _ =>
    exact ⟨ks, st, k', st', he, he', by omega, fun chosen ρ ρ' a1 b1 a2 b2 =>
      h chosen ρ ρ' a1 b1 a2 b2 i 0 hi (by simp) (by omega) (by simp) rfl⟩

/-! ### non-vacuity: a concrete program of the fragment

`0.3::f.  0.4::g.  p :- f, \+g.  p :- g.  q :- p, f.  0.2::a ; 0.3::b :- p.`  (goal ids f=0 g=1 p=2 q=3 a=4 b=5,
AD body goal 6; choice ids f=0 g=1 a=2 b=3). -/

def exP : Prog :=
  { defs := [(0, [.fact 0 (some (3/10)) 0]), (1, [.fact 1 (some (2/5)) 1]),
             (2, [.rule [.pos 0, .neg 1] none, .rule [.pos 1] none]),
             (3, [.rule [.pos 2, .pos 0] none]),
             (6, [.rule [.pos 2] none]),
             (4, [.rule [.pos 6] (some ⟨2, 1, 1/5, 7⟩)]),
             (5, [.rule [.pos 6] (some ⟨3, 1, 3/10, 8⟩)])] }

def exRank : Atom → Nat := fun a => [0, 0, 1, 2, 3, 3, 2].getD a 0

theorem exP_wf : WfP exP 7 exRank := wfB_sound (by decide)

def exCalls : List Call := [⟨3, .query⟩, ⟨4, .evPos⟩, ⟨5, .query⟩, ⟨2, .evNeg⟩]

-- the hypotheses of all theorems above are satisfiable, and the model really builds the ground program:
-- `q = (f ∧ ¬g ∨ g) ∧ f` (node 5), `a = p ∧ choice` (node 7), `p` (node 4) looked up in the table for `a`
example : (∀ c ∈ exCalls, exRank c.atom < 4) ∧ ∀ c ∈ exCalls, c.label ≠ Label.named := by decide
example : (match groundAll exP (fun _ => []) 4 [⟨3, .query⟩, ⟨4, .evPos⟩] {} with
    | .ok (ks, st) => (ks, st.store.nodes.length, st.table.map (·.1))
    | .error _ => ([], 0, [])) = ([some 5, some 7], 7, [4, 6, 3, 2, 1, 0]) := by decide +kernel
-- another schedule (second clause of `p` first): other node order / disjunct order, same values by
-- `C03_ground_schedule_independent`
example : (match groundAll exP (fun a => if a = 2 then [1] else []) 4 [⟨2, .query⟩] {} with
    | .ok (ks, st) => (ks, st.store.nodes[3]?)
    | .error _ => ([], none)) = ([some 4], some (.disj [some 1, some 3] (some (.pos 2)))) := by decide +kernel
example : (match groundAll exP (fun _ => []) 4 [⟨2, .query⟩] {} with
    | .ok (ks, st) => (ks, st.store.nodes[3]?)
    | .error _ => ([], none)) = ([some 4], some (.disj [some 3, some 2] (some (.pos 2)))) := by decide +kernel
-- too little fuel is reported, never papered over
example : (match groundAll exP (fun _ => []) 1 [⟨2, .query⟩] {} with
    | .error .fuel => true
    | _ => false) = true := by decide +kernel

end ProbLogProofs.C01Ground
