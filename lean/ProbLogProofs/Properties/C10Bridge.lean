/-
# C10 (bridge) — from the verified circuit evaluation `evalC` to what is executed and to the evaluator on the loaded store

Property theorems only. Model: `ProbLogModel.DDNNF` (`evalCArr`, `loadNnf`, `nodeWeights`, `rootWeight`, `prepare`,
`evaluate`). Helper lemmas: `ProbLogProofs/Lemmas/DDNNFBridge*.lean`. Vocabulary (all in `ProbLogProofs.DDNNF`):

* `litsNormal cnf c` (decidable): the CNF weight of the variable of every `L` line is neither `None` (`.tt`) nor
  `False` (`.ff`), so `add_atom` creates/reuses an atom node for every `L` line. REAL restriction of the theorems:
  with such weights `_load_nnf` maps the line to the constant key 0 / `None` and creates no node. Always true for
  the standard pipeline (`LogicFormula.add_atom` never stores these weights unless `keep_all=True`).
* `isCompound nd`: the line is an `A`/`O` line. Since the repair of `_load_nnf` (repo commit 9dc9464, explicit root
  node `conj [key of the last line]` when the file ends with a literal line) the root theorems hold for EVERY
  circuit; before it the root weight of the one-line circuit `L -x` was the positive weight of the atom.
* `atomOf S x` = `(lookup S.idxAtom (.user x)).getD x`: the atom node of the loaded store that stands for CNF
  variable `x` (the `rename` of `_load_nnf`); `atomLit S l` = `±atomOf S |l|`: the store literal of a CNF literal.
* `circW S w l = litW w (atomLit S l)`: the circuit-literal weights induced by an evaluator table `w` (indexed by
  store atoms); `tableWt S w V T = ∏ x ∈ V, if x ∈ T then (w (atomOf S x)).1 else (w (atomOf S x)).2`.
* `childW S w acc k` — the evaluator's `_get_weight(k)`: `None ↦ 0`, `0 ↦ 1`, `±atom ↦ w`'s positive / negative
  entry, compound node `m ↦ acc[m-1]`.
-/
import ProbLogProofs.Properties.C10
import ProbLogProofs.Lemmas.DDNNFBridgeArr
import ProbLogProofs.Lemmas.DDNNFBridgeFinal
import ProbLogProofs.Lemmas.DDNNFBridgeTable
import ProbLogProofs.Lemmas.DDNNFBridgeAD
import ProbLogProofs.Lemmas.DDNNFBridgeAtoms
import Mathlib.Order.Interval.Finset.Nat

open Finset

namespace ProbLogProofs.C10
open ProbLogModel.DDNNF ProbLogModel.Formula ProbLogModel.Clark ProbLogProofs.DDNNF

/-- The Array-based evaluation run by the driver is the List-based `evalC` of the C10 theorems
(every circuit, every semiring record, no validity needed). -/
theorem C10_evalCArr_eq {R : Type} (sr : SR R) (w : Int → R) (c : Circuit) : evalCArr sr w c = evalC sr w c :=
  evalCArr_eq_evalC sr w c

example : evalCArr natSR (fun l => if l = 1 then 2 else if l = 2 then 3 else 1) exC = 7 := by decide

/-! ### the loaded store -/

/-- CNF for `exC` (`x1 ↔ x2`): two weighted variables, a query on `x1` and one on `¬x2` -/
def exCnf : CNF :=
  { atomcount := 2, clauses := [[1, -2], [-1, 2]], weights := [(1, .prob (3/10)), (2, .prob (1/2))],
    names := [(.query, .pos 1, some 1), (.query, .pos 2, some (-2))], ads := [] }

/-- `x1 ∨ x2` as a d-DNNF with decision variable 1: `(x1 ∧ (x2 ∨ ¬x2)) ∨ (¬x1 ∧ x2)` -/
def exOr : Circuit :=
  [.lit 1, .lit 2, .lit (-2), .or 2 [1, 2], .and [0, 3], .lit (-1), .and [5, 1], .or 1 [4, 6]]

/-- CNF `x1 ∨ x2` with a query on `x2` and evidence `x1 = true` -/
def exCnfEv : CNF :=
  { atomcount := 2, clauses := [[1, 2]], weights := [(1, .prob (3/10)), (2, .prob (1/2))],
    names := [(.query, .pos 2, some 2), (.evPos, .pos 1, some 1)], ads := [] }

example : validate exOr = .ok ∧ litsNormal exCnfEv exOr = true := by decide

example : validate exC = .ok ∧ litsNormal exCnf exC = true := by decide

/-- **`L` lines ↦ shared atoms.** The key of an `L l` line is the store literal `atomLit l = ±atomOf |l|`; the
atom node exists (index ≥ 1, an `atom`), `L x` and `L -x` share it, different variables get different atoms. -/
theorem C10_line2node_literal (c : Circuit) (cnf : CNF) (ns : List (Label × Name × Key))
    (hv : validate c = .ok) (hn : litsNormal cnf c = true) (j : Nat) (l : Int) (hj : c[j]? = some (NNode.lit l)) :
    (loadNnf c cnf ns).line2node[j]? = some (some (atomLit (loadNnf c cnf ns).store l)) ∧
    1 ≤ atomOf (loadNnf c cnf ns).store l.natAbs ∧
    (∃ a g e n, (loadNnf c cnf ns).store.nodes[atomOf (loadNnf c cnf ns).store l.natAbs - 1]? =
        some (.atom a g e n)) ∧
    (∀ (j' : Nat) (l' : Int), c[j']? = some (NNode.lit l') →
        atomOf (loadNnf c cnf ns).store l'.natAbs = atomOf (loadNnf c cnf ns).store l.natAbs →
        l'.natAbs = l.natAbs) := by
  have hrep := loadNnf_rep c cnf ns hn
  have hz := (validate_valid hv).litsNonzero
  obtain ⟨h1, h2⟩ := hrep.atomOf_lit hj
  refine ⟨hrep.line2node_lit hz hj, h1, ?_, ?_⟩
  · obtain ⟨_, a, g, e, h3⟩ := hrep.idx _ _ h2
    obtain ⟨n, h4⟩ := shapes_get_atom h3
    exact ⟨a, g, e, n, h4⟩
  · intro j' l' hj' he
    obtain ⟨_, h2'⟩ := hrep.atomOf_lit hj'
    rw [he] at h2'
    have := hrep.inj _ _ _ h2' h2
    injection this with this
    omega

/-- **Line by line.** For a validated circuit all of whose literal lines create atoms, the evaluator's value
(`_get_weight`, model `childW` over the bottom-up table `nodeWeights`) of the key `line2node[j]` equals the value
`evalLines` computes for line `j`, for EVERY weight table `w` over the store atoms. -/
theorem C10_nodeWeights_eq_evalLines (c : Circuit) (cnf : CNF) (ns : List (Label × Name × Key))
    (hv : validate c = .ok) (hn : litsNormal cnf c = true) (w : Nat → Rat × Rat) (j : Nat) (hj : j < c.length) :
    childW (loadNnf c cnf ns).store w (nodeWeights (loadNnf c cnf ns).store w)
        ((loadNnf c cnf ns).line2node.getD j none) =
      (evalLines ratSR (circW (loadNnf c cnf ns).store w) c).getD j 0 :=
  nodeWeights_eq_evalLines (loadNnf_rep c cnf ns hn) (validate_valid hv).forward (validate_valid hv).litsNonzero w j hj

/-- … in particular an `A`/`O` line `j` is a conj/disj node `m` of the store (`line2node[j] = m`) and entry `m` of
`nodeWeights` is the circuit value of line `j`. -/
theorem C10_nodeWeights_compound (c : Circuit) (cnf : CNF) (ns : List (Label × Name × Key))
    (hv : validate c = .ok) (hn : litsNormal cnf c = true) (w : Nat → Rat × Rat) (j : Nat) (hj : j < c.length)
    (hc : isCompound c[j] = true) :
    ∃ m : Nat, 1 ≤ m ∧ (loadNnf c cnf ns).line2node[j]? = some (some (m : Int)) ∧
      (nodeWeights (loadNnf c cnf ns).store w).getD (m - 1) 0 =
        (evalLines ratSR (circW (loadNnf c cnf ns).store w) c).getD j 0 := by
  have hrep := loadNnf_rep c cnf ns hn
  have hz := (validate_valid hv).litsNonzero
  have hmain := C10_nodeWeights_eq_evalLines c cnf ns hv hn w j hj
  rcases hrep.key_cases hz j hj with ⟨l, i, a, g, e, n, hl, _⟩ | ⟨m, _, hm1, hk, hget, hnode⟩
  · rw [List.getElem?_eq_getElem hj] at hl
    rw [Option.some.inj hl] at hc
    simp [isCompound] at hc
  · refine ⟨m, hm1, hget, ?_⟩
    rw [← hmain]
    have hne : (m : Int) ≠ 0 := by omega
    have habs : (m : Int).natAbs = m := by omega
    show _ = childW _ w _ (lineKey _ j)
    rw [hk]
    rcases hnode with ⟨cs, n, _, hnd⟩ | ⟨d, cs, n, _, hnd⟩
    · rw [childW_conj _ _ _ _ hne (by rw [habs]; exact hnd), habs]
    · rw [childW_disj _ _ _ _ hne (by rw [habs]; exact hnd), habs]

/-- **Root.** The evaluator's root weight (weight of the LAST STORE NODE) is the circuit value `evalC` (value of the
LAST LINE) under the induced literal weights — every validated circuit (empty, ending with an `A`/`O` line, or ending
with a literal line: `_load_nnf` then appends the root `conj [key of that line]`). -/
theorem C10_rootWeight_eq_evalC (c : Circuit) (cnf : CNF) (ns : List (Label × Name × Key))
    (hv : validate c = .ok) (hn : litsNormal cnf c = true) (ws : List (Nat × (Rat × Rat))) :
    rootWeight (loadNnf c cnf ns).store ws = evalC ratSR (circW (loadNnf c cnf ns).store (wfun ws)) c :=
  loadNnf_rootWeight c cnf ns (validate_valid hv) hn ws

example : rootWeight (loadNnf exC exCnf exCnf.names).store [(1, (3/10, 7/10)), (2, (1/2, 1/2))] = 1/2 := by
  decide +kernel

/-- … hence it is the weighted model count of the circuit, every variable `x` weighted by the table entry of its
atom `atomOf x`. -/
theorem C10_rootWeight_is_wmc (c : Circuit) (cnf : CNF) (ns : List (Label × Name × Key))
    (hv : validate c = .ok) (hn : litsNormal cnf c = true) (ws : List (Nat × (Rat × Rat))) :
    rootWeight (loadNnf c cnf ns).store ws =
      ∑ T ∈ models c, tableWt (loadNnf c cnf ns).store (wfun ws) (rootVarsF c) T := by
  have hvalid := validate_valid hv
  rw [C10_rootWeight_eq_evalC c cnf ns hv hn ws, ← srOf_rat, evalC_is_wmc hvalid, wmc_eq_sum_models]
  apply Finset.sum_congr rfl
  intro T _
  exact wt_circW (loadNnf_rep c cnf ns hn) hvalid.forward hvalid.litsNonzero _ T

/-- **One-line circuit `L l`.** The root weight is the weight of the literal WITH its sign: the positive entry of
atom 1 for `l > 0`, the negative entry for `l < 0` (the store is `[atom, conj [±1]]`). -/
theorem C10_rootWeight_single_literal (cnf : CNF) (ns : List (Label × Name × Key)) (l : Int) (hl : l ≠ 0)
    (hn : litNormal cnf l = true) (ws : List (Nat × (Rat × Rat))) :
    rootWeight (loadNnf [.lit l] cnf ns).store ws =
      litW (wfun ws) (atomLit (loadNnf [.lit l] cnf ns).store l) := by
  have hv : validate [NNode.lit l] = .ok := by
    simp [validate, ProbLogModel.Clark.enumFrom, checkLine, hl]
  exact C10_rootWeight_eq_evalC [.lit l] cnf ns hv (by simp [litsNormal, hn]) ws

/-- The witness of the former defect, now correct: the circuit `L -1` (the d-DNNF dsharp emits for the CNF `¬x1`)
with `P(x1) = 3/10` has root weight `7/10` = its weighted model count. (Before repo commit 9dc9464 the loaded
store was the single atom node, read positively: root weight `3/10`, `Z = 0.3`, query `¬x1 ↦ 0.0` on the real
`_load_nnf` / `SimpleDDNNFEvaluator`.) -/
theorem C10_rootWeight_single_negative :
    validate [.lit (-1)] = .ok ∧ litsNormal { exCnf with names := [] } [.lit (-1)] = true ∧
    (loadNnf [.lit (-1)] { exCnf with names := [] } []).store.nodes =
      [.atom (.user 1) none false none, .conj [some (-1)] none] ∧
    rootWeight (loadNnf [.lit (-1)] { exCnf with names := [] } []).store [(1, (3/10, 7/10))] = 7/10 ∧
    evalC ratSR (circW (loadNnf [.lit (-1)] { exCnf with names := [] } []).store
      (wfun [(1, (3/10, 7/10))])) [.lit (-1)] = 7/10 := by
  decide +kernel

/-! ### the evaluator -/

/-- **What a successful `prepare` returns.** `P.ws` is the table of `extractWeights` after the evidence literals
`evidenceLits` (store literals `±atom`) were applied by `setEvidence`, `P.z` its root weight (non-zero). -/
theorem C10_prepare_ok (S : Store) (P : Prepared) (h : prepare S = .ok P) :
    ∃ ws0, extractWeights S.weights S.ads = .ok ws0 ∧
      (evidenceLits S).foldlM setEvidence ws0 = .ok P.ws ∧
      P.store = S ∧ P.z = rootWeight S P.ws ∧ isZero P.z = false ∧
      P.hasEvidence = !(evidenceLits S).isEmpty :=
  prepare_ok h

/-- **"Evidence fixed".** After the evidence literals `evi` were applied successfully, an atom without evidence
keeps its pair and an atom with evidence literal `e` carries `evPair e` = `(1, 0)` (`e > 0`) / `(0, 1)` (`e < 0`):
the weight of the assignments contradicting the evidence becomes 0, the evidence atom itself contributes factor 1. -/
theorem C10_evidence_weights (evi : List Int) (ws0 ws : List (Nat × (Rat × Rat)))
    (h : evi.foldlM setEvidence ws0 = .ok ws) :
    (∀ i, (∀ e ∈ evi, e.natAbs ≠ i) → wfun ws i = wfun ws0 i) ∧
    (∀ e ∈ evi, e ≠ 0 → wfun ws e.natAbs = evPair e) :=
  foldlM_setEvidence_spec evi ws0 ws h

example : [(2 : Int), -1].foldlM setEvidence [(1, (3/10, 7/10)), (2, (1/2, 1/2))] =
    .ok [(1, (0, 1)), (2, (1, 0))] := by decide +kernel

/-- **`evaluate` is the conditional weighted model count.** Validated circuit, every literal
line an atom, `prepare` succeeded with table `P.ws`, `q` a literal over a variable of the circuit. Then
`evaluate P (atomLit q)` is the weighted count of the circuit's models containing `q` — divided by the weighted
count of all models iff there is evidence — where assignment `T` weighs `tableWt … (wfun P.ws) … T` (for the shape of
`P.ws` see `C10_prepare_ok`, `C10_evidence_weights`). -/
theorem C10_evaluate_is_conditional_wmc (c : Circuit) (cnf : CNF) (ns : List (Label × Name × Key)) (P : Prepared)
    (q : Int) (hv : validate c = .ok) (hn : litsNormal cnf c = true)
    (hP : prepare (loadNnf c cnf ns).store = .ok P) (hq : q ≠ 0) (hmem : q.natAbs ∈ rootVarsF c) :
    evaluate P (some (atomLit (loadNnf c cnf ns).store q)) =
      if P.hasEvidence then
        (∑ T ∈ models c with litTrue (assign T) q = true,
            tableWt (loadNnf c cnf ns).store (wfun P.ws) (rootVarsF c) T) /
          (∑ T ∈ models c, tableWt (loadNnf c cnf ns).store (wfun P.ws) (rootVarsF c) T)
      else
        ∑ T ∈ models c with litTrue (assign T) q = true,
            tableWt (loadNnf c cnf ns).store (wfun P.ws) (rootVarsF c) T := by
  have hrep := loadNnf_rep c cnf ns hn
  have hroot := loadNnf_rootOK c cnf ns hn
  have hvalid := validate_valid hv
  obtain ⟨ws0, _, _, hstore, hzeq, _, _⟩ := prepare_ok hP
  obtain ⟨j, l, hj, hl⟩ := rootVar_has_lit hvalid.forward _ hmem
  have hq' : c[j]? = some (NNode.lit q) ∨ c[j]? = some (NNode.lit (-q)) := by
    have : l = q ∨ l = -q := by omega
    rcases this with rfl | rfl
    · exact Or.inl hj
    · exact Or.inr hj
  have hk0 : atomLit (loadNnf c cnf ns).store q ≠ 0 := hrep.atomLit_ne_zero hq'
  have hr := rootWeight_setValue_eq_wmc hrep hvalid hroot P.ws q hq hmem
  have hz := C10_rootWeight_is_wmc c cnf ns hv hn P.ws
  simp only [evaluate, hk0, if_false, hstore, hzeq]
  rw [hr, hz]

example : ∃ P, prepare (loadNnf exC exCnf exCnf.names).store = .ok P ∧ P.hasEvidence = false ∧
    evaluate P (some 1) = 3/20 := by
  have h : (prepare (loadNnf exC exCnf exCnf.names).store).toBool = true := by decide +kernel
  cases hP : prepare (loadNnf exC exCnf exCnf.names).store with
  | error e => rw [hP] at h; cases h
  | ok P =>
    have h2 : ((prepare (loadNnf exC exCnf exCnf.names).store).toOption.map
        (fun P => (P.hasEvidence, evaluate P (some 1)))) = some (false, 3/20) := by decide +kernel
    rw [hP] at h2
    simp only [Except.toOption, Option.map_some, Option.some.injEq, Prod.mk.injEq] at h2
    exact ⟨P, rfl, h2.1, h2.2⟩

/-- with evidence `x1`: `P(x2 | x1) = 1/2`; the evidence atom's pair is `(1, 0)`, so `Z = 1` (not `P(x1)`) -/
example : ∃ P, prepare (loadNnf exOr exCnfEv exCnfEv.names).store = .ok P ∧ P.hasEvidence = true ∧
    P.z = 1 ∧ evaluate P (some 2) = 1/2 := by
  have h : (prepare (loadNnf exOr exCnfEv exCnfEv.names).store).toBool = true := by decide +kernel
  cases hP : prepare (loadNnf exOr exCnfEv exCnfEv.names).store with
  | error e => rw [hP] at h; cases h
  | ok P =>
    have h2 : ((prepare (loadNnf exOr exCnfEv exCnfEv.names).store).toOption.map
        (fun P => (P.hasEvidence, P.z, evaluate P (some 2)))) = some (true, 1, 1/2) := by decide +kernel
    rw [hP] at h2
    simp only [Except.toOption, Option.map_some, Option.some.injEq, Prod.mk.injEq] at h2
    exact ⟨P, rfl, h2.1, h2.2.1, h2.2.2⟩

example : atomLit (loadNnf exC exCnf exCnf.names).store 1 = 1 ∧ (1 : Int).natAbs ∈ rootVarsF exC ∧
    atomLit (loadNnf exOr exCnfEv exCnfEv.names).store 2 = 2 ∧ (2 : Int).natAbs ∈ rootVarsF exOr := by decide

/-! ### C01, downstream of the grounder: ground program `D` → Clark CNF → validated circuit → loaded store → evaluator -/

/-- **Weight bookkeeping of `extractWeights`** (`extract_weights` + `ConstraintAD.update_weights`) for constraints with
pairwise disjoint, duplicate-free member lists `adMembers a = a.nodes ++ extra`: a key outside every constraint with
≥ 2 members carries `pairOf` of its stored weight (`True ↦ (1,1)`, `False ↦ (0,1)`, `None ↦ (1,0)`, `p ↦ (p, 1-p)`;
`(1,1)` without stored weight); a member `n` carries `(p_n, 1)`; the extra node `(1 - Σ p_n, 1)`. -/
theorem C01_extractWeights_spec (weights : List (Nat × Weight)) (ads : List ADC) (ws : List (Nat × (Rat × Rat)))
    (h : extractWeights weights ads = .ok ws) (hnd : ∀ a ∈ ads, (adMembers a).Nodup)
    (hpw : ads.Pairwise (fun a b => ∀ x, x ∈ adMembers a → x ∉ adMembers b)) :
    (∀ x, (∀ a ∈ ads, 2 ≤ a.nodes.length → x ∉ adMembers a) →
        wfun ws x = pairOf ((lookup weights x).getD .neutral)) ∧
    (∀ a ∈ ads, 2 ≤ a.nodes.length → ∃ e, a.extra = some e ∧
      (∀ n ∈ a.nodes, wfun ws n = ((pairOf ((lookup weights n).getD .neutral)).1, 1)) ∧
      wfun ws e = (1 - (a.nodes.map (fun n => (pairOf ((lookup weights n).getD .neutral)).1)).foldl (· + ·) 0, 1)) :=
  extractWeights_spec weights ads ws h hnd hpw

example : ∃ ws, extractWeights [(1, .prob (3/10)), (2, .prob (1/2)), (3, .neutral), (4, .prob (1/4))]
      [⟨0, [1, 2], some 3⟩] = .ok ws ∧
    wfun ws 1 = (3/10, 1) ∧ wfun ws 2 = (1/2, 1) ∧ wfun ws 3 = (1/5, 1) ∧ wfun ws 4 = (1/4, 3/4) := by
  have h : ((extractWeights [(1, .prob (3/10)), (2, .prob (1/2)), (3, .neutral), (4, .prob (1/4))]
      [⟨0, [1, 2], some 3⟩]).toOption.map (fun ws => (wfun ws 1, wfun ws 2, wfun ws 3, wfun ws 4))) =
      some ((3/10, 1), (1/2, 1), (1/5, 1), (1/4, 3/4)) := by decide +kernel
  cases hw : extractWeights [(1, .prob (3/10)), (2, .prob (1/2)), (3, .neutral), (4, .prob (1/4))]
      [⟨0, [1, 2], some 3⟩] with
  | error e => rw [hw] at h; cases h
  | ok ws =>
    rw [hw] at h
    simp only [Except.toOption, Option.map_some, Option.some.injEq, Prod.mk.injEq] at h
    exact ⟨ws, rfl, h.1, h.2.1, h.2.2.1, h.2.2.2⟩

/-- **Carry-over by `_load_nnf`**: the stored weight of the atom of variable `x` is the CNF's weight of `x`
(`weights.get(x, True)`), and the AD constraints are the CNF's with members renamed by `atomOf`. -/
theorem C10_loadNnf_carry (c : Circuit) (cnf : CNF) (ns : List (Label × Name × Key)) (hv : validate c = .ok)
    (hn : litsNormal cnf c = true) :
    (∀ x ∈ rootVarsF c, lookup (loadNnf c cnf ns).store.weights (atomOf (loadNnf c cnf ns).store x) =
        some ((lookup cnf.weights x).getD .neutral)) ∧
    (loadNnf c cnf ns).store.ads = cnf.ads.map (renAD (atomOf (loadNnf c cnf ns).store)) := by
  refine ⟨?_, loadNnf_ads c cnf ns⟩
  intro x hx
  obtain ⟨⟨i, hi⟩, _⟩ := (loadNnf_rep c cnf ns hn).rootVar_isVar (validate_valid hv).forward x hx
  have e1 : atomOf (loadNnf c cnf ns).store x = i := by unfold atomOf; rw [hi]; rfl
  rw [e1]
  exact loadNnf_repW c cnf ns hn x i hi

/-- **The evaluator's table is the CNF's table** (`extractWeights` on the CNF's own weights and constraints, then
the CNF-level evidence literals `eviD`), read through `atomOf`: provided the loaded store's evidence literals are
the renamed `eviD` (`eviD = []`: no evidence) and all constraint members / evidence variables are circuit
variables. -/
theorem C01_loaded_table (c : Circuit) (cnf : CNF) (ns : List (Label × Name × Key)) (P : Prepared)
    (wsD W : List (Nat × (Rat × Rat))) (eviD : List Int)
    (hv : validate c = .ok) (hn : litsNormal cnf c = true)
    (hP : prepare (loadNnf c cnf ns).store = .ok P)
    (hads : ∀ a ∈ cnf.ads, (∀ n ∈ a.nodes, n ∈ rootVarsF c) ∧ (∀ e, a.extra = some e → e ∈ rootVarsF c))
    (hD : extractWeights cnf.weights cnf.ads = .ok wsD)
    (hevi : evidenceLits (loadNnf c cnf ns).store = eviD.map (atomLit (loadNnf c cnf ns).store))
    (hevars : ∀ e ∈ eviD, e.natAbs ∈ rootVarsF c)
    (hW : eviD.foldlM setEvidence wsD = .ok W) :
    ∀ x ∈ rootVarsF c, wfun P.ws (atomOf (loadNnf c cnf ns).store x) = wfun W x := by
  have hrep := loadNnf_rep c cnf ns hn
  have hvalid := validate_valid hv
  obtain ⟨ws0, h0, hfold, _⟩ := prepare_ok hP
  have hbase := loadNnf_extractWeights c cnf ns hvalid hn hads h0 hD
  rw [hevi] at hfold
  have hrel := foldlM_setEvidence_rel (fun x y hx hy he => hrep.isVar_inj x y hx hy he) eviD ws0 wsD P.ws W
    (fun e he => hrep.rootVar_isVar hvalid.forward _ (hevars e he)) hbase hfold hW
  intro x hx
  exact hrel x (hrep.rootVar_isVar hvalid.forward x hx).1

/-- **C01 downstream of the grounder.** `D` an acyclic ground program (store), `cnf` its Clark completion, `c` a
validated circuit with the CNF's models over all node ids `1..n` (`hequiv` is the conclusion of `C10_equiv`),
loaded by `_load_nnf` and prepared by the evaluator; `W` a table over the node ids of `D` that the evaluator's
table equals along `atomOf` (`C01_loaded_table`; its entries: `C01_extractWeights_spec`, `C10_evidence_weights`).
Then `evaluate` returns the propositional distribution semantics of `D`: the `W`-weight of the bottom-up consistent
total valuations `T` of `D` (each node true iff the program derives it from `T`'s atoms; AD constraints hold —
`dagConsistent`; one per admissible atom assignment by `C09_clark_unique`) in which the query key `q` evaluates to
true, divided by the weight of all of them iff there is evidence. -/
theorem C01_pipeline_downstream (D : Store) (cnf : CNF) (c : Circuit) (ns : List (Label × Name × Key))
    (P : Prepared) (q : Int) (W : List (Nat × (Rat × Rat)))
    (hac : acyclic D = true) (hcl : clark D = .ok cnf)
    (hv : validate c = .ok) (hn : litsNormal cnf c = true)
    (h0 : ∀ κ ∈ cnf.clauses, (0 : Int) ∉ κ)
    (hequiv : models c = cnfModels cnf.clauses (rootVarsF c))
    (hvars : rootVarsF c = Finset.Icc 1 D.nodes.length)
    (hP : prepare (loadNnf c cnf ns).store = .ok P) (hq : q ≠ 0) (hqn : q.natAbs ≤ D.nodes.length)
    (hW : ∀ x ∈ rootVarsF c, wfun P.ws (atomOf (loadNnf c cnf ns).store x) = wfun W x) :
    evaluate P (some (atomLit (loadNnf c cnf ns).store q)) =
      if P.hasEvidence then
        (∑ T ∈ (Finset.Icc 1 D.nodes.length).powerset with
            (dagConsistent D T = true ∧ dagEval D (assign T) (some q) = true),
            nodeWt W (Finset.Icc 1 D.nodes.length) T) /
          (∑ T ∈ (Finset.Icc 1 D.nodes.length).powerset with dagConsistent D T = true,
            nodeWt W (Finset.Icc 1 D.nodes.length) T)
      else
        ∑ T ∈ (Finset.Icc 1 D.nodes.length).powerset with
            (dagConsistent D T = true ∧ dagEval D (assign T) (some q) = true),
            nodeWt W (Finset.Icc 1 D.nodes.length) T := by
  have hmem : q.natAbs ∈ rootVarsF c := by
    rw [hvars, Finset.mem_Icc]; omega
  rw [C10_evaluate_is_conditional_wmc c cnf ns P q hv hn hP hq hmem,
    models_eq_dagModels D cnf c hac hcl h0 hequiv, Finset.filter_filter, hvars]
  have hwt : ∀ T, tableWt (loadNnf c cnf ns).store (wfun P.ws) (Finset.Icc 1 D.nodes.length) T =
      nodeWt W (Finset.Icc 1 D.nodes.length) T := by
    intro T
    exact tableWt_eq_nodeWt _ _ _ _ _ (fun x hx => hW x (by rw [hvars]; exact hx))
  have hfilter : (Finset.Icc 1 D.nodes.length).powerset.filter
        (fun T => dagConsistent D T = true ∧ litTrue (assign T) q = true) =
      (Finset.Icc 1 D.nodes.length).powerset.filter
        (fun T => dagConsistent D T = true ∧ dagEval D (assign T) (some q) = true) := by
    apply Finset.filter_congr
    intro T _
    constructor
    · rintro ⟨h1, h2⟩; exact ⟨h1, by rw [← litTrue_eq_dagEval D T q hq hqn h1]; exact h2⟩
    · rintro ⟨h1, h2⟩; exact ⟨h1, by rw [litTrue_eq_dagEval D T q hq hqn h1]; exact h2⟩
  rw [hfilter]
  simp only [hwt]

/-- **… as a sum over atom assignments.** If moreover the AD members are atoms of `D` and `W` gives the neutral pair
`(1, 1)` to every non-atom node (derived nodes carry no weight), the sums run over the assignments `α` of the atoms
`atomsF D` that satisfy the AD constraints (`adOK`: exactly one of members + extra per constraint), each weighing the
product of its atoms' table entries `atomWt`, the numerator over those `α` whose bottom-up evaluation makes the query
key `q` true: `evaluate = Σ_{α ⊨ AD, dagEval D α q} Π_atoms W / Σ_{α ⊨ AD} Π_atoms W` (denominator iff evidence). -/
theorem C01_pipeline_downstream_atoms (D : Store) (cnf : CNF) (c : Circuit) (ns : List (Label × Name × Key))
    (P : Prepared) (q : Int) (W : List (Nat × (Rat × Rat)))
    (hac : acyclic D = true) (hcl : clark D = .ok cnf)
    (hv : validate c = .ok) (hn : litsNormal cnf c = true)
    (h0 : ∀ κ ∈ cnf.clauses, (0 : Int) ∉ κ)
    (hequiv : models c = cnfModels cnf.clauses (rootVarsF c))
    (hvars : rootVarsF c = Finset.Icc 1 D.nodes.length)
    (hP : prepare (loadNnf c cnf ns).store = .ok P) (hq : q ≠ 0) (hqn : q.natAbs ≤ D.nodes.length)
    (hW : ∀ x ∈ rootVarsF c, wfun P.ws (atomOf (loadNnf c cnf ns).store x) = wfun W x)
    (hmemAD : ∀ a ∈ D.ads, ∀ x ∈ adMembers a, x ∈ atomsF D)
    (hW1 : ∀ x ∈ Finset.Icc 1 D.nodes.length, x ∉ atomsF D → wfun W x = (1, 1)) :
    evaluate P (some (atomLit (loadNnf c cnf ns).store q)) =
      if P.hasEvidence then
        (∑ α ∈ (atomsF D).powerset with (adOK D α = true ∧ dagEval D (assign α) (some q) = true),
            atomWt W (atomsF D) α) /
          (∑ α ∈ (atomsF D).powerset with adOK D α = true, atomWt W (atomsF D) α)
      else
        ∑ α ∈ (atomsF D).powerset with (adOK D α = true ∧ dagEval D (assign α) (some q) = true),
            atomWt W (atomsF D) α := by
  rw [C01_pipeline_downstream D cnf c ns P q W hac hcl hv hn h0 hequiv hvars hP hq hqn hW,
    sum_consistent_query D W q hmemAD hW1, sum_consistent_all D W hmemAD hW1]

/-- ground program `n3 = a1 ∨ a2` (query), `P(a1) = 3/10`, `P(a2) = 1/2` -/
def exD : Store :=
  { nodes := [.atom (.user 1) none false none, .atom (.user 2) none false none,
              .disj [some 1, some 2] (some (.pos 7))],
    weights := [(1, .prob (3/10)), (2, .prob (1/2))],
    names := [(.query, .pos 7, some 3)], atomcount := 2 }

/-- its Clark completion -/
def exDcnf : CNF :=
  { atomcount := 3, clauses := [[-3, 1, 2], [3, -1], [3, -2]], weights := exD.weights, names := exD.names, ads := [] }

/-- a d-DNNF of `x3 ↔ x1 ∨ x2` (decision variables 1, then 2) -/
def exDc : Circuit :=
  [.lit 1, .lit 3, .lit 2, .lit (-2), .or 2 [2, 3], .and [0, 1, 4], .lit (-1), .and [2, 1], .lit (-3),
   .and [3, 8], .or 2 [7, 9], .and [6, 10], .or 1 [5, 11]]

example : acyclic exD = true ∧ validate exDc = .ok ∧ litsNormal exDcnf exDc = true ∧
    (∀ κ ∈ exDcnf.clauses, (0 : Int) ∉ κ) ∧
    rootVarsF exDc = Finset.Icc 1 exD.nodes.length ∧
    atomLit (loadNnf exDc exDcnf exDcnf.names).store 3 = 2 := by decide

example : clark exD = .ok exDcnf := rfl

example : models exDc = cnfModels exDcnf.clauses (rootVarsF exDc) :=
  C10_equiv exDc exDcnf.clauses (by decide) (by decide) (by decide) (by decide)

/-- the pipeline's answer for the query node 3: `P(a1 ∨ a2) = 13/20`, and the table is the CNF's -/
example : ∃ P wsD, prepare (loadNnf exDc exDcnf exDcnf.names).store = .ok P ∧
    extractWeights exDcnf.weights exDcnf.ads = .ok wsD ∧
    evidenceLits (loadNnf exDc exDcnf exDcnf.names).store = [] ∧
    P.hasEvidence = false ∧ evaluate P (some 2) = 13/20 := by
  have h : (prepare (loadNnf exDc exDcnf exDcnf.names).store).toBool = true := by decide +kernel
  have h' : (extractWeights exDcnf.weights exDcnf.ads).toBool = true := by decide +kernel
  cases hP : prepare (loadNnf exDc exDcnf exDcnf.names).store with
  | error e => rw [hP] at h; cases h
  | ok P =>
    cases hD : extractWeights exDcnf.weights exDcnf.ads with
    | error e => rw [hD] at h'; cases h'
    | ok wsD =>
      have h2 : ((prepare (loadNnf exDc exDcnf exDcnf.names).store).toOption.map
          (fun P => (P.hasEvidence, evaluate P (some 2)))) = some (false, 13/20) := by decide +kernel
      rw [hP] at h2
      simp only [Except.toOption, Option.map_some, Option.some.injEq, Prod.mk.injEq] at h2
      exact ⟨P, wsD, rfl, rfl, by decide, h2.1, h2.2⟩

/-- all hypotheses of `C01_pipeline_downstream` + `C01_loaded_table` hold together on the example -/
example : ∃ P wsD, prepare (loadNnf exDc exDcnf exDcnf.names).store = .ok P ∧
    extractWeights exDcnf.weights exDcnf.ads = .ok wsD ∧
    evaluate P (some (atomLit (loadNnf exDc exDcnf exDcnf.names).store 3)) =
      if P.hasEvidence then
        (∑ T ∈ (Finset.Icc 1 exD.nodes.length).powerset with
            (dagConsistent exD T = true ∧ dagEval exD (assign T) (some 3) = true),
            nodeWt wsD (Finset.Icc 1 exD.nodes.length) T) /
          (∑ T ∈ (Finset.Icc 1 exD.nodes.length).powerset with dagConsistent exD T = true,
            nodeWt wsD (Finset.Icc 1 exD.nodes.length) T)
      else
        ∑ T ∈ (Finset.Icc 1 exD.nodes.length).powerset with
            (dagConsistent exD T = true ∧ dagEval exD (assign T) (some 3) = true),
            nodeWt wsD (Finset.Icc 1 exD.nodes.length) T := by
  have h : (prepare (loadNnf exDc exDcnf exDcnf.names).store).toBool = true := by decide +kernel
  have h' : (extractWeights exDcnf.weights exDcnf.ads).toBool = true := by decide +kernel
  cases hP : prepare (loadNnf exDc exDcnf exDcnf.names).store with
  | error e => rw [hP] at h; cases h
  | ok P =>
    cases hD : extractWeights exDcnf.weights exDcnf.ads with
    | error e => rw [hD] at h'; cases h'
    | ok wsD =>
      have hequiv : models exDc = cnfModels exDcnf.clauses (rootVarsF exDc) :=
        C10_equiv exDc exDcnf.clauses (by decide) (by decide) (by decide) (by decide)
      refine ⟨P, wsD, rfl, rfl, ?_⟩
      exact C01_pipeline_downstream exD exDcnf exDc exDcnf.names P 3 wsD (by decide) rfl (by decide) (by decide)
        (by decide) hequiv (by decide) hP (by decide) (by decide)
        (C01_loaded_table exDc exDcnf exDcnf.names P wsD wsD [] (by decide) (by decide) hP
          (by intro a ha; simp [exDcnf] at ha) hD (by decide) (by intro e he; simp at he) rfl)

/-- the extra hypotheses of `C01_pipeline_downstream_atoms` on the example: atoms `{1, 2}`, no AD constraint, the
derived node 3 carries `(1, 1)` in the CNF's table -/
example : atomsF exD = {1, 2} ∧ (∀ a ∈ exD.ads, ∀ x ∈ adMembers a, x ∈ atomsF exD) := by decide

example : ∃ wsD, extractWeights exDcnf.weights exDcnf.ads = .ok wsD ∧
    ∀ x ∈ Finset.Icc 1 exD.nodes.length, x ∉ atomsF exD → wfun wsD x = (1, 1) := by
  have h : ((extractWeights exDcnf.weights exDcnf.ads).toOption.map (fun ws => wfun ws 3)) = some (1, 1) := by
    decide +kernel
  cases hD : extractWeights exDcnf.weights exDcnf.ads with
  | error e => rw [hD] at h; cases h
  | ok wsD =>
    rw [hD] at h
    simp only [Except.toOption, Option.map_some, Option.some.injEq] at h
    refine ⟨wsD, rfl, ?_⟩
    have hatoms : atomsF exD = {1, 2} := by decide
    intro x hx hxa
    rw [hatoms] at hxa
    have hx' : x ∈ ({1, 2, 3} : Finset Nat) := by
      have : Finset.Icc 1 exD.nodes.length = {1, 2, 3} := by decide
      rw [this] at hx; exact hx
    have : x = 3 := by
      simp only [Finset.mem_insert, Finset.mem_singleton] at hx' hxa
      omega
    subst this; exact h

end ProbLogProofs.C10
