/-
# C10 (bridge) — from the verified circuit evaluation `evalC` to what is executed and to the evaluator on the loaded store

Property theorems only. Model: `ProbLogModel.DDNNF` (`evalCArr`, `loadNnf`, `nodeWeights`, `rootWeight`, `prepare`,
`evaluate`). Helper lemmas: `ProbLogProofs/Lemmas/DDNNFBridge*.lean`. Vocabulary (all in `ProbLogProofs.DDNNF`):

* `litsNormal cnf c` (decidable): the CNF weight of the variable of every `L` line is neither `None` (`.tt`) nor
  `False` (`.ff`), so `add_atom` creates/reuses an atom node for every `L` line. REAL restriction of the theorems:
  with such weights `_load_nnf` maps the line to the constant key 0 / `None` and creates no node. Always true for
  the standard pipeline (`LogicFormula.add_atom` never stores these weights unless `keep_all=True`).
* `isCompound nd`: the line is an `A`/`O` line. "the last line is compound" is a REAL restriction (see
  `C10_rootWeight_single_literal` / `C10_rootWeight_single_negative_refuted` for the one-line circuit `L l`).
* `atomOf S x` = `(lookup S.idxAtom (.user x)).getD x`: the atom node of the loaded store that stands for CNF
  variable `x` (the `rename` of `_load_nnf`); `atomLit S l` = `±atomOf S |l|`: the store literal of a CNF literal.
* `circW S w l = litW w (atomLit S l)`: the circuit-literal weights induced by an evaluator table `w` (indexed by
  store atoms); `tableWt S w V T = ∏ x ∈ V, if x ∈ T then (w (atomOf S x)).1 else (w (atomOf S x)).2`.
* `childW S w acc k` — the evaluator's `_get_weight(k)`: `None ↦ 0`, `0 ↦ 1`, `±atom ↦ w`'s positive / negative
  entry, compound node `m ↦ acc[m-1]`.
-/
import ProbLogProofs.Properties.C10
import ProbLogProofs.Lemmas.DDNNFBridgeArr
import ProbLogProofs.Lemmas.DDNNFBridgeFinal

open Finset

namespace ProbLogProofs.C10
open ProbLogModel.DDNNF ProbLogModel.Formula ProbLogModel.Clark ProbLogProofs.DDNNF

/-- The Array-based evaluation run by the driver is the List-based `evalC` of the C10 theorems
(every circuit, every semiring record, no validity needed). -/
theorem C10_evalCArr_eq {R : Type} (sr : SR R) (w : Int → R) (c : Circuit) : evalCArr sr w c = evalC sr w c :=
  evalCArr_eq_evalC sr w c

example : evalCArr natSR (fun l => if l = 1 then 2 else if l = 2 then 3 else 1) exC = 7 := by decide

/-! ### the loaded store -/

/-- CNF for `exC` (`x1 ↔ x2`): two weighted variables, a query on `x1` and one on `¬x2` -/
def exCnf : CNF :=
  { atomcount := 2, clauses := [[1, -2], [-1, 2]], weights := [(1, .prob (3/10)), (2, .prob (1/2))],
    names := [(.query, .pos 1, some 1), (.query, .pos 2, some (-2))], ads := [] }

/-- `x1 ∨ x2` as a d-DNNF with decision variable 1: `(x1 ∧ (x2 ∨ ¬x2)) ∨ (¬x1 ∧ x2)` -/
def exOr : Circuit :=
  [.lit 1, .lit 2, .lit (-2), .or 2 [1, 2], .and [0, 3], .lit (-1), .and [5, 1], .or 1 [4, 6]]

/-- CNF `x1 ∨ x2` with a query on `x2` and evidence `x1 = true` -/
def exCnfEv : CNF :=
  { atomcount := 2, clauses := [[1, 2]], weights := [(1, .prob (3/10)), (2, .prob (1/2))],
    names := [(.query, .pos 2, some 2), (.evPos, .pos 1, some 1)], ads := [] }

example : validate exOr = .ok ∧ litsNormal exCnfEv exOr = true ∧
    (∃ nd, exOr.getLast? = some nd ∧ isCompound nd = true) := by decide

example : validate exC = .ok ∧ litsNormal exCnf exC = true ∧
    (∃ nd, exC.getLast? = some nd ∧ isCompound nd = true) := by decide

/-- **`L` lines ↦ shared atoms.** The key of an `L l` line is the store literal `atomLit l = ±atomOf |l|`; the
atom node exists (index ≥ 1, an `atom`), `L x` and `L -x` share it, different variables get different atoms. -/
theorem C10_line2node_literal (c : Circuit) (cnf : CNF) (ns : List (Label × Name × Key))
    (hv : validate c = .ok) (hn : litsNormal cnf c = true) (j : Nat) (l : Int) (hj : c[j]? = some (NNode.lit l)) :
    (loadNnf c cnf ns).line2node[j]? = some (some (atomLit (loadNnf c cnf ns).store l)) ∧
    1 ≤ atomOf (loadNnf c cnf ns).store l.natAbs ∧
    (∃ a g e n, (loadNnf c cnf ns).store.nodes[atomOf (loadNnf c cnf ns).store l.natAbs - 1]? =
        some (.atom a g e n)) ∧
    (∀ (j' : Nat) (l' : Int), c[j']? = some (NNode.lit l') →
        atomOf (loadNnf c cnf ns).store l'.natAbs = atomOf (loadNnf c cnf ns).store l.natAbs →
        l'.natAbs = l.natAbs) := by
  have hrep := loadNnf_rep c cnf ns hn
  have hz := (validate_valid hv).litsNonzero
  obtain ⟨h1, h2⟩ := hrep.atomOf_lit hj
  refine ⟨hrep.line2node_lit hz hj, h1, ?_, ?_⟩
  · obtain ⟨_, a, g, e, h3⟩ := hrep.idx _ _ h2
    obtain ⟨n, h4⟩ := shapes_get_atom h3
    exact ⟨a, g, e, n, h4⟩
  · intro j' l' hj' he
    obtain ⟨_, h2'⟩ := hrep.atomOf_lit hj'
    rw [he] at h2'
    have := hrep.inj _ _ _ h2' h2
    injection this with this
    omega

/-- **Line by line.** For a validated circuit all of whose literal lines create atoms, the evaluator's value
(`_get_weight`, model `childW` over the bottom-up table `nodeWeights`) of the key `line2node[j]` equals the value
`evalLines` computes for line `j`, for EVERY weight table `w` over the store atoms. -/
theorem C10_nodeWeights_eq_evalLines (c : Circuit) (cnf : CNF) (ns : List (Label × Name × Key))
    (hv : validate c = .ok) (hn : litsNormal cnf c = true) (w : Nat → Rat × Rat) (j : Nat) (hj : j < c.length) :
    childW (loadNnf c cnf ns).store w (nodeWeights (loadNnf c cnf ns).store w)
        ((loadNnf c cnf ns).line2node.getD j none) =
      (evalLines ratSR (circW (loadNnf c cnf ns).store w) c).getD j 0 :=
  nodeWeights_eq_evalLines (loadNnf_rep c cnf ns hn) (validate_valid hv).forward (validate_valid hv).litsNonzero w j hj

/-- … in particular an `A`/`O` line `j` is a conj/disj node `m` of the store (`line2node[j] = m`) and entry `m` of
`nodeWeights` is the circuit value of line `j`. -/
theorem C10_nodeWeights_compound (c : Circuit) (cnf : CNF) (ns : List (Label × Name × Key))
    (hv : validate c = .ok) (hn : litsNormal cnf c = true) (w : Nat → Rat × Rat) (j : Nat) (hj : j < c.length)
    (hc : isCompound c[j] = true) :
    ∃ m : Nat, 1 ≤ m ∧ (loadNnf c cnf ns).line2node[j]? = some (some (m : Int)) ∧
      (nodeWeights (loadNnf c cnf ns).store w).getD (m - 1) 0 =
        (evalLines ratSR (circW (loadNnf c cnf ns).store w) c).getD j 0 := by
  have hrep := loadNnf_rep c cnf ns hn
  have hz := (validate_valid hv).litsNonzero
  have hmain := C10_nodeWeights_eq_evalLines c cnf ns hv hn w j hj
  rcases hrep.key_cases hz j hj with ⟨l, i, a, g, e, n, hl, _⟩ | ⟨m, _, hm1, hk, hget, hnode⟩
  · rw [List.getElem?_eq_getElem hj] at hl
    rw [Option.some.inj hl] at hc
    simp [isCompound] at hc
  · refine ⟨m, hm1, hget, ?_⟩
    rw [← hmain]
    have hne : (m : Int) ≠ 0 := by omega
    have habs : (m : Int).natAbs = m := by omega
    show _ = childW _ w _ (lineKey _ j)
    rw [hk]
    rcases hnode with ⟨cs, n, _, hnd⟩ | ⟨d, cs, n, _, hnd⟩
    · rw [childW_conj _ _ _ _ hne (by rw [habs]; exact hnd), habs]
    · rw [childW_disj _ _ _ _ hne (by rw [habs]; exact hnd), habs]

/-- **Root.** If the last line is an `A`/`O` line, the evaluator's root weight (weight of the LAST STORE NODE) is
the circuit value `evalC` under the induced literal weights. -/
theorem C10_rootWeight_eq_evalC (c : Circuit) (cnf : CNF) (ns : List (Label × Name × Key))
    (hv : validate c = .ok) (hn : litsNormal cnf c = true)
    (hroot : ∃ nd, c.getLast? = some nd ∧ isCompound nd = true) (ws : List (Nat × (Rat × Rat))) :
    rootWeight (loadNnf c cnf ns).store ws = evalC ratSR (circW (loadNnf c cnf ns).store (wfun ws)) c := by
  obtain ⟨nd, h1, h2⟩ := hroot
  exact rootWeight_eq_evalC (loadNnf_rep c cnf ns hn) (validate_valid hv).forward
    (validate_valid hv).litsNonzero ws nd h1 h2

example : rootWeight (loadNnf exC exCnf exCnf.names).store [(1, (3/10, 7/10)), (2, (1/2, 1/2))] = 1/2 := by
  decide +kernel

/-- … hence it is the weighted model count of the circuit, every variable `x` weighted by the table entry of its
atom `atomOf x`. -/
theorem C10_rootWeight_is_wmc (c : Circuit) (cnf : CNF) (ns : List (Label × Name × Key))
    (hv : validate c = .ok) (hn : litsNormal cnf c = true)
    (hroot : ∃ nd, c.getLast? = some nd ∧ isCompound nd = true) (ws : List (Nat × (Rat × Rat))) :
    rootWeight (loadNnf c cnf ns).store ws =
      ∑ T ∈ models c, tableWt (loadNnf c cnf ns).store (wfun ws) (rootVarsF c) T := by
  obtain ⟨nd, h1, h2⟩ := hroot
  exact rootWeight_eq_wmc (loadNnf_rep c cnf ns hn) (validate_valid hv) ws nd h1 h2

/-- **One-line circuit `L l`.** The store is the single atom node 1 and the root weight is its POSITIVE weight,
whatever the sign of `l` … -/
theorem C10_rootWeight_single_literal (cnf : CNF) (ns : List (Label × Name × Key)) (l : Int)
    (hn : litNormal cnf l = true) (ws : List (Nat × (Rat × Rat))) :
    atomOf (loadNnf [.lit l] cnf ns).store l.natAbs = 1 ∧
      rootWeight (loadNnf [.lit l] cnf ns).store ws = (wfun ws 1).1 :=
  rootWeight_single_lit cnf ns l hn ws

/-- … so for `L l` with `l > 0` it is `evalC`, -/
theorem C10_rootWeight_single_positive (cnf : CNF) (ns : List (Label × Name × Key)) (l : Int) (hl : l > 0)
    (hn : litNormal cnf l = true) (ws : List (Nat × (Rat × Rat))) :
    rootWeight (loadNnf [.lit l] cnf ns).store ws =
      evalC ratSR (circW (loadNnf [.lit l] cnf ns).store (wfun ws)) [.lit l] := by
  obtain ⟨h1, h2⟩ := rootWeight_single_lit cnf ns l hn ws
  rw [h2]
  show _ = litW (wfun ws) (atomLit _ l)
  unfold atomLit litW
  rw [if_pos hl, h1]
  simp

/-- … and for `L -1` it is NOT: the circuit `L -1` (the d-DNNF dsharp emits for the CNF `¬x1`) with `P(x1) = 3/10`
has weighted model count `7/10`, the evaluator's root weight is `3/10` (the last STORE node is the atom, read
positively). Replayed on the real `_load_nnf` / `SimpleDDNNFEvaluator`: Z = 0.3, query `¬x1` ↦ 0.0. -/
theorem C10_rootWeight_single_negative_refuted :
    validate [.lit (-1)] = .ok ∧ litsNormal { exCnf with names := [] } [.lit (-1)] = true ∧
    rootWeight (loadNnf [.lit (-1)] { exCnf with names := [] } []).store [(1, (3/10, 7/10))] = 3/10 ∧
    evalC ratSR (circW (loadNnf [.lit (-1)] { exCnf with names := [] } []).store
      (wfun [(1, (3/10, 7/10))])) [.lit (-1)] = 7/10 := by
  decide +kernel

/-! ### the evaluator -/

/-- **What a successful `prepare` returns.** `P.ws` is the table of `extractWeights` after the evidence literals
`evidenceLits` (store literals `±atom`) were applied by `setEvidence`, `P.z` its root weight (non-zero). -/
theorem C10_prepare_ok (S : Store) (P : Prepared) (h : prepare S = .ok P) :
    ∃ ws0, extractWeights S.weights S.ads = .ok ws0 ∧
      (evidenceLits S).foldlM setEvidence ws0 = .ok P.ws ∧
      P.store = S ∧ P.z = rootWeight S P.ws ∧ isZero P.z = false ∧
      P.hasEvidence = !(evidenceLits S).isEmpty :=
  prepare_ok h

/-- **"Evidence fixed".** After the evidence literals `evi` were applied successfully, an atom without evidence
keeps its pair and an atom with evidence literal `e` carries `evPair e` = `(1, 0)` (`e > 0`) / `(0, 1)` (`e < 0`):
the weight of the assignments contradicting the evidence becomes 0, the evidence atom itself contributes factor 1. -/
theorem C10_evidence_weights (evi : List Int) (ws0 ws : List (Nat × (Rat × Rat)))
    (h : evi.foldlM setEvidence ws0 = .ok ws) :
    (∀ i, (∀ e ∈ evi, e.natAbs ≠ i) → wfun ws i = wfun ws0 i) ∧
    (∀ e ∈ evi, e ≠ 0 → wfun ws e.natAbs = evPair e) :=
  foldlM_setEvidence_spec evi ws0 ws h

example : [(2 : Int), -1].foldlM setEvidence [(1, (3/10, 7/10)), (2, (1/2, 1/2))] =
    .ok [(1, (0, 1)), (2, (1, 0))] := by decide +kernel

/-- **`evaluate` is the conditional weighted model count.** Validated circuit, last line compound, every literal
line an atom, `prepare` succeeded with table `P.ws`, `q` a literal over a variable of the circuit. Then
`evaluate P (atomLit q)` is the weighted count of the circuit's models containing `q` — divided by the weighted
count of all models iff there is evidence — where assignment `T` weighs `tableWt … (wfun P.ws) … T` (for the shape of
`P.ws` see `C10_prepare_ok`, `C10_evidence_weights`). -/
theorem C10_evaluate_is_conditional_wmc (c : Circuit) (cnf : CNF) (ns : List (Label × Name × Key)) (P : Prepared)
    (q : Int) (hv : validate c = .ok) (hn : litsNormal cnf c = true)
    (hroot : ∃ nd, c.getLast? = some nd ∧ isCompound nd = true)
    (hP : prepare (loadNnf c cnf ns).store = .ok P) (hq : q ≠ 0) (hmem : q.natAbs ∈ rootVarsF c) :
    evaluate P (some (atomLit (loadNnf c cnf ns).store q)) =
      if P.hasEvidence then
        (∑ T ∈ models c with litTrue (assign T) q = true,
            tableWt (loadNnf c cnf ns).store (wfun P.ws) (rootVarsF c) T) /
          (∑ T ∈ models c, tableWt (loadNnf c cnf ns).store (wfun P.ws) (rootVarsF c) T)
      else
        ∑ T ∈ models c with litTrue (assign T) q = true,
            tableWt (loadNnf c cnf ns).store (wfun P.ws) (rootVarsF c) T := by
  obtain ⟨nd, h1, h2⟩ := hroot
  have hrep := loadNnf_rep c cnf ns hn
  have hvalid := validate_valid hv
  obtain ⟨ws0, _, _, hstore, hzeq, _, _⟩ := prepare_ok hP
  obtain ⟨j, l, hj, hl⟩ := rootVar_has_lit hvalid.forward _ hmem
  have hq' : c[j]? = some (NNode.lit q) ∨ c[j]? = some (NNode.lit (-q)) := by
    have : l = q ∨ l = -q := by omega
    rcases this with rfl | rfl
    · exact Or.inl hj
    · exact Or.inr hj
  have hk0 : atomLit (loadNnf c cnf ns).store q ≠ 0 := hrep.atomLit_ne_zero hq'
  have hr := rootWeight_setValue_eq_wmc hrep hvalid P.ws nd h1 h2 q hq hmem
  have hz := rootWeight_eq_wmc hrep hvalid P.ws nd h1 h2
  simp only [evaluate, hk0, if_false, hstore, hzeq]
  rw [hr, hz]

example : ∃ P, prepare (loadNnf exC exCnf exCnf.names).store = .ok P ∧ P.hasEvidence = false ∧
    evaluate P (some 1) = 3/20 := by
  have h : (prepare (loadNnf exC exCnf exCnf.names).store).toBool = true := by decide +kernel
  cases hP : prepare (loadNnf exC exCnf exCnf.names).store with
  | error e => rw [hP] at h; cases h
  | ok P =>
    have h2 : ((prepare (loadNnf exC exCnf exCnf.names).store).toOption.map
        (fun P => (P.hasEvidence, evaluate P (some 1)))) = some (false, 3/20) := by decide +kernel
    rw [hP] at h2
    simp only [Except.toOption, Option.map_some, Option.some.injEq, Prod.mk.injEq] at h2
    exact ⟨P, rfl, h2.1, h2.2⟩

/-- with evidence `x1`: `P(x2 | x1) = 1/2`; the evidence atom's pair is `(1, 0)`, so `Z = 1` (not `P(x1)`) -/
example : ∃ P, prepare (loadNnf exOr exCnfEv exCnfEv.names).store = .ok P ∧ P.hasEvidence = true ∧
    P.z = 1 ∧ evaluate P (some 2) = 1/2 := by
  have h : (prepare (loadNnf exOr exCnfEv exCnfEv.names).store).toBool = true := by decide +kernel
  cases hP : prepare (loadNnf exOr exCnfEv exCnfEv.names).store with
  | error e => rw [hP] at h; cases h
  | ok P =>
    have h2 : ((prepare (loadNnf exOr exCnfEv exCnfEv.names).store).toOption.map
        (fun P => (P.hasEvidence, P.z, evaluate P (some 2)))) = some (true, 1, 1/2) := by decide +kernel
    rw [hP] at h2
    simp only [Except.toOption, Option.map_some, Option.some.injEq, Prod.mk.injEq] at h2
    exact ⟨P, rfl, h2.1, h2.2.1, h2.2.2⟩

example : atomLit (loadNnf exC exCnf exCnf.names).store 1 = 1 ∧ (1 : Int).natAbs ∈ rootVarsF exC ∧
    atomLit (loadNnf exOr exCnfEv exCnfEv.names).store 2 = 2 ∧ (2 : Int).natAbs ∈ rootVarsF exOr := by decide

end ProbLogProofs.C10
