/-
# C10 (bridge) — from the verified circuit evaluation `evalC` to what is executed and to the evaluator on the loaded store

Property theorems only. Model: `ProbLogModel.DDNNF` (`evalCArr`, `loadNnf`, `nodeWeights`, `rootWeight`, `prepare`,
`evaluate`). Helper lemmas: `ProbLogProofs/Lemmas/DDNNFBridge*.lean`.
-/
import ProbLogProofs.Properties.C10
import ProbLogProofs.Lemmas.DDNNFBridgeArr

open Finset

namespace ProbLogProofs.C10
open ProbLogModel.DDNNF ProbLogModel.Formula ProbLogProofs.DDNNF

/-- The Array-based evaluation run by the driver is the List-based `evalC` of the C10 theorems
(every circuit, every semiring record, no validity needed). -/
theorem C10_evalCArr_eq {R : Type} (sr : SR R) (w : Int → R) (c : Circuit) : evalCArr sr w c = evalC sr w c :=
  evalCArr_eq_evalC sr w c

example : evalCArr natSR (fun l => if l = 1 then 2 else if l = 2 then 3 else 1) exC = 7 := by decide

end ProbLogProofs.C10
