import ProbLogModel.Formula
/-!
# C11 — the ground-program builder preserves Boolean meaning (property theorems only)
-/
namespace ProbLogProofs.C11
open ProbLogModel.Formula

theorem negate_some (k : Int) (h0 : k ≠ 0) : negate (some k) = some (-k) := by
  unfold negate; split <;> simp_all

/-- `negate` denotes Boolean negation under every valuation. -/
theorem C11_negate (ρ : Nat → Bool) (k : Key) : keyVal ρ (negate k) = !(keyVal ρ k) := by
  rcases k with _ | k
  · rfl
  · by_cases h0 : k = 0
    · subst h0; rfl
    · rw [negate_some k h0]; unfold keyVal
      have h1 : -k ≠ 0 := by omega
      simp only [h0, h1, if_false]
      by_cases hk : k < 0
      · have : ¬ (-k < 0) := by omega
        simp [hk, Int.natAbs_neg]; omega
      · have : -k < 0 := by omega
        simp [hk, Int.natAbs_neg]; omega

theorem C11_negate_involutive (k : Key) : negate (negate k) = k := by
  rcases k with _ | k
  · rfl
  · by_cases h0 : k = 0
    · subst h0; rfl
    · rw [negate_some k h0, negate_some (-k) (by omega)]; simp

example : keyVal (fun i => i == 2) (negate (some (-2))) = true := by decide

end ProbLogProofs.C11
