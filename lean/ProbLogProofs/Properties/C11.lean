import ProbLogModel.Formula
import ProbLogProofs.Lemmas.FormulaBasic
import ProbLogProofs.Lemmas.FormulaOps
import ProbLogProofs.Lemmas.FormulaAcyclic
import ProbLogProofs.Lemmas.FormulaAtom
import ProbLogProofs.Lemmas.FormulaDisjunct
/-!
# C11 — the ground-program builder preserves Boolean meaning (property theorems only)
-/
namespace ProbLogProofs.C11
open ProbLogModel.Formula

theorem negate_some (k : Int) (h0 : k ≠ 0) : negate (some k) = some (-k) := by
  unfold negate; split <;> simp_all

/-- `negate` denotes Boolean negation under every valuation. -/
theorem C11_negate (ρ : Nat → Bool) (k : Key) : keyVal ρ (negate k) = !(keyVal ρ k) := by
  rcases k with _ | k
  · rfl
  · by_cases h0 : k = 0
    · subst h0; rfl
    · rw [negate_some k h0]; unfold keyVal
      have h1 : -k ≠ 0 := by omega
      simp only [h0, h1, if_false]
      by_cases hk : k < 0
      · have : ¬ (-k < 0) := by omega
        simp [hk, Int.natAbs_neg]; omega
      · have : -k < 0 := by omega
        simp [hk, Int.natAbs_neg]; omega

theorem C11_negate_involutive (k : Key) : negate (negate k) = k := by
  rcases k with _ | k
  · rfl
  · by_cases h0 : k = 0
    · subst h0; rfl
    · rw [negate_some k h0, negate_some (-k) (by omega)]; simp

example : keyVal (fun i => i == 2) (negate (some (-2))) = true := by decide


/-!
## The builder operations

Definitions used below (in `ProbLogProofs/Lemmas/FormulaBasic.lean`):
* `Node.erase` drops the name of a node; `Grows S S' := ∃ ext, S'.nodes.map Node.erase = S.nodes.map Node.erase ++ ext`
  (the node array only grows; names of existing nodes may change);
* `WF S`: whatever `lookup` finds in `idxConj` / `idxDisj` / `idxAtom` is a 1-based index of a node of that
  shape with exactly these children / this identifier (the hash-consing invariant);
* `Consistent S ρ` (model file): every compound node's value under `ρ` is the AND / OR of its children.
All theorems hold for every option record `S.opts`.
-/

/-! ### 1. earlier keys keep their meaning -/

theorem C11_grows_consistent {S S' : Store} {ρ : Nat → Bool} (hg : Grows S S') (hc : Consistent S' ρ) :
    Consistent S ρ := hg.consistent hc

/-- If key `k` equals the Boolean expression `e ρ` in every valuation consistent with `S`, the same holds for every
    valuation consistent with a later store `S'`. -/
theorem C11_earlier_keys_keep_meaning {S S' : Store} (hg : Grows S S') (k : Key) (e : (Nat → Bool) → Bool)
    (h : ∀ ρ, Consistent S ρ → keyVal ρ k = e ρ) : ∀ ρ, Consistent S' ρ → keyVal ρ k = e ρ :=
  fun ρ hc => h ρ (hg.consistent hc)

theorem C11_grows_refl (S : Store) : Grows S S := Grows.refl S

theorem C11_grows_trans {S S' S'' : Store} (h1 : Grows S S') (h2 : Grows S' S'') : Grows S S'' := h1.trans h2

/-! ### 2. `_add_compound`, `add_and`, `add_or` -/

/-- `_add_compound` for every option record, store and argument list: the invariant is kept, the store only grows,
    and the returned key denotes the AND / OR of the given children in every valuation consistent with the new store
    (TRUE/FALSE folding, duplicate elimination or `keepDuplicates`, opposite literals, single-child collapse with and
    without `avoidNameClash`, hash-consing reuse, `keepAll`, `compact = some false`, placeholders). -/
theorem C11_addCompound_spec {S S' : Store} {kind : Kind} {content : List Key} {readonly : Bool}
    {name : Option Name} {placeholder : Bool} {compact : Option Bool} {k : Key} (hw : WF S)
    (h : addCompound S kind content readonly name placeholder compact = .ok (S', k)) :
    WF S' ∧ Grows S S' ∧
    (∀ ρ, Consistent S' ρ → keyVal ρ k =
      (match kind with
       | .conj => content.all (keyVal ρ)
       | .disj => content.any (keyVal ρ))) ∧
    S'.opts = S.opts := by
  have hc := addCompound_cres _ _ _ _ _ _ _ _ _ h
  refine ⟨hc.wf hw, hc.grows, fun ρ hcons => ?_, hc.opts⟩
  have := hc.sem hw ρ hcons
  cases kind <;> exact this

/-- The only failure of `_add_compound` is Python's `assert content`. -/
theorem C11_addCompound_error {S : Store} {kind : Kind} {content : List Key} {readonly : Bool}
    {name : Option Name} {placeholder : Bool} {compact : Option Bool} {e : Err}
    (h : addCompound S kind content readonly name placeholder compact = .error e) :
    e = .assertion ∧ placeholder = false ∧ content = [] := by
  exact addCompound_error h

theorem C11_addAnd {S S' : Store} {cs : List Key} {name : Option Name} {compact : Option Bool} {k : Key}
    (hw : WF S) (h : S.addAnd cs name compact = .ok (S', k)) :
    WF S' ∧ Grows S S' ∧ (∀ ρ, Consistent S' ρ → keyVal ρ k = cs.all (keyVal ρ)) ∧ S'.opts = S.opts :=
  C11_addCompound_spec hw h

theorem C11_addOr {S S' : Store} {cs : List Key} {readonly : Bool} {name : Option Name} {placeholder : Bool}
    {compact : Option Bool} {k : Key} (hw : WF S)
    (h : S.addOr cs readonly name placeholder compact = .ok (S', k)) :
    WF S' ∧ Grows S S' ∧ (∀ ρ, Consistent S' ρ → keyVal ρ k = cs.any (keyVal ρ)) ∧ S'.opts = S.opts :=
  C11_addCompound_spec (kind := .disj) (readonly := readonly && !placeholder) hw h

/-! ### 3. `add_atom`, `add_name` -/

/-- `add_atom` (including the AD-constraint path that may append the extra atom): invariant kept, store only grows.
    Atoms are free, so there is no semantic equation. -/
theorem C11_addAtom_grows {S S' : Store} {ident : Ident} {pc : PClass} {w : Weight} {group : Option Nat}
    {name : Option Name} {crExtra isExtra : Bool} {k : Key} (hw : WF S)
    (h : S.addAtom ident pc w group name crExtra isExtra = (S', k)) : WF S' ∧ Grows S S' := by
  have hs := addAtom_step S ident pc w group name crExtra isExtra
  rw [h] at hs
  exact ⟨hs.1 hw, hs.2.1⟩

/-- The key returned by `add_atom`: either a constant with the store untouched, or a positive key `i` that the
    atom table of the new store maps `ident` to - with `WF S'` (previous theorem) node `i` is an atom with this
    identifier, and the entries of the atom table are never overwritten, so the same identifier keeps its key. -/
theorem C11_addAtom_key {S S' : Store} {ident : Ident} {pc : PClass} {w : Weight} {group : Option Nat}
    {name : Option Name} {crExtra isExtra : Bool} {k : Key}
    (h : S.addAtom ident pc w group name crExtra isExtra = (S', k)) :
    (S' = S ∧ (k = TRUE ∨ k = FALSE)) ∨
    (∃ i : Nat, k = some (i : Int) ∧ lookup S'.idxAtom ident = some i) ∧
      ∀ id v, lookup S.idxAtom id = some v → lookup S'.idxAtom id = some v := by
  have hk := addAtom_key S ident pc w group name crExtra isExtra
  have hs := addAtom_step S ident pc w group name crExtra isExtra
  rw [h] at hk hs
  rcases hk with h1 | h2
  · exact Or.inl h1
  · exact Or.inr ⟨h2, hs.2.2.1⟩

theorem C11_addName_preserves {S : Store} (hw : WF S) (n : Name) (k : Key) (l : Label) (keep : Bool)
    (ρ : Nat → Bool) :
    WF (S.addName n k l keep) ∧ Grows S (S.addName n k l keep) ∧
    (Consistent (S.addName n k l keep) ρ ↔ Consistent S ρ) :=
  ⟨addName_wf hw n k l keep, addName_grows S n k l keep,
   ⟨(addName_grows S n k l keep).consistent, (addName_grows' S n k l keep).consistent⟩⟩

/-! ### 4. `add_disjunct` -/

/-- `add_disjunct` on a mutable disjunction `k` (a node no hash-consing entry points to): it returns `k`, the node's
    equation gains exactly the new disjunct, the node array is the old one with at most one node appended (the
    `maxArity` split) and node `k` replaced by a disjunction with the same name - every other node is literally
    unchanged -, and `k` is still mutable afterwards.  The hypothesis `hmut` is exactly what makes the `maxArity`
    path sound: the inner `add_or(children)` can only return an existing compound node through `idxDisj`, hence
    never `k` itself (see `C11_addDisjunct_hashconsed_refuted`). -/
theorem C11_addDisjunct {S S' : Store} {k : Int} {children : List Key} {nm : Option Name} {comp r : Key}
    (hw : WF S) (hnode : S.getNode? k = some (.disj children nm)) (hk : 0 < k)
    (hmut : ∀ cs, lookup S.idxDisj cs ≠ some k.toNat)
    (h : S.addDisjunct (some k) comp = .ok (S', r)) :
    r = some k ∧ WF S' ∧
    (∀ ρ, Consistent S' ρ → keyVal ρ (some k) = (children.any (keyVal ρ) || keyVal ρ comp)) ∧
    (∃ (ext : List Node) (newch : List Key), ext.length ≤ 1 ∧
      S'.nodes = (S.nodes ++ ext).set (k.toNat - 1) (.disj newch nm)) ∧
    (∀ cs, lookup S'.idxDisj cs ≠ some k.toNat) ∧ S'.opts = S.opts := by
  obtain ⟨n, rfl⟩ := Int.eq_ofNat_of_zero_le (Int.le_of_lt hk)
  have hn : 1 ≤ n := by omega
  simp only [Int.toNat_natCast] at hmut ⊢
  have hnode' : S.nodes[n - 1]? = some (Node.disj children nm) := by
    unfold Store.getNode? at hnode; rwa [Int.natAbs_natCast] at hnode
  obtain ⟨hr, hres⟩ := addDisjunct_nat S n hn children nm comp S' r hw hnode' hmut h
  refine ⟨hr, hres.wf, fun ρ hc => ?_, hres.nodes, hres.notIdx, hres.opts⟩
  rw [keyVal_pos ρ n hn]; exact hres.sem ρ hc

/-- Reading of the node-array clause of `C11_addDisjunct`: all other nodes are unchanged, at most one is appended. -/
theorem C11_addDisjunct_others_unchanged {S S' : Store} {k : Int} {children : List Key} {nm : Option Name}
    {comp r : Key} (hw : WF S) (hnode : S.getNode? k = some (.disj children nm)) (hk : 0 < k)
    (hmut : ∀ cs, lookup S.idxDisj cs ≠ some k.toNat)
    (h : S.addDisjunct (some k) comp = .ok (S', r)) :
    S'.nodes.length ≤ S.nodes.length + 1 ∧
    ∀ j, j < S.nodes.length → j ≠ k.toNat - 1 → S'.nodes[j]? = S.nodes[j]? := by
  obtain ⟨_, _, _, ⟨ext, newch, hext, hnodes⟩, _, _⟩ := C11_addDisjunct hw hnode hk hmut h
  refine ⟨by rw [hnodes]; simp; omega, fun j hj hne => ?_⟩
  rw [hnodes, List.getElem?_set_ne (Ne.symm hne), List.getElem?_append_left hj]


/-! ### 5. acyclic stores: the hypothesis `Consistent S' ρ` above is satisfiable, and pins the meaning down

`Acyclic S`: every compound node's children are constants or refer to strictly earlier nodes; `keyBelow n k`: the key
is a constant or refers to one of the first `n` nodes.  Everything the builder makes without `add_disjunct` is
acyclic (`add_disjunct` is how cycles are made; for those the intended meaning is the least fixpoint, not covered
here). -/

/-- In an acyclic store every assignment `α` of the atoms extends to a consistent valuation, and any two consistent
    valuations that agree on the atoms agree on every node: each key denotes exactly one Boolean function of the
    atoms, so the equations of the theorems above determine the key's meaning. -/
theorem C11_acyclic_exists_unique {S : Store} (ha : Acyclic S) :
    (∀ α : Nat → Bool, ∃ ρ, Consistent S ρ ∧
      (∀ i nd, S.nodes[i]? = some nd → nd.isAtom = true → ρ (i + 1) = α (i + 1)) ∧
      (∀ j, S.nodes.length < j → ρ j = α j) ∧ ρ 0 = α 0) ∧
    (∀ ρ1 ρ2, Consistent S ρ1 → Consistent S ρ2 →
      (∀ i nd, S.nodes[i]? = some nd → nd.isAtom = true → ρ1 (i + 1) = ρ2 (i + 1)) →
      ∀ k, keyBelow S.nodes.length k → keyVal ρ1 k = keyVal ρ2 k) := by
  refine ⟨fun α => acyclic_exists ha α, fun ρ1 ρ2 h1 h2 hat k hk => ?_⟩
  cases k with
  | none => rfl
  | some i =>
    by_cases h0 : i = 0
    · subst h0; rfl
    · -- index 0 is never looked at for a non-zero key; patch ρ2 there
      let ρ2' : Nat → Bool := fun j => if j = 0 then ρ1 0 else ρ2 j
      have hkv : ∀ c : Key, keyVal ρ2' c = keyVal ρ2 c := by
        intro c
        cases c with
        | none => rfl
        | some j =>
          by_cases hj : j = 0
          · subst hj; rfl
          · have : j.natAbs ≠ 0 := by omega
            simp only [keyVal, hj, if_false, ρ2', this]
      have hfun : keyVal ρ2' = keyVal ρ2 := funext hkv
      have h2' : Consistent S ρ2' := by
        intro n
        have hn : n + 1 ≠ 0 := by omega
        refine ⟨fun cs nm h => ?_, fun cs nm h => ?_⟩
        · show (if n + 1 = 0 then _ else ρ2 (n + 1)) = _
          rw [if_neg hn, (h2 n).1 cs nm h, hfun]
        · show (if n + 1 = 0 then _ else ρ2 (n + 1)) = _
          rw [if_neg hn, (h2 n).2 cs nm h, hfun]
      have hall := acyclic_unique ha h1 h2' (fun n nd h hat' => by
        show _ = (if n + 1 = 0 then _ else ρ2 (n + 1))
        rw [if_neg (by omega)]; exact hat n nd h hat') (by show ρ1 0 = (if 0 = 0 then ρ1 0 else _); rfl)
      rw [← hkv (some i)]
      exact keyVal_congr (n := S.nodes.length) hall hk

theorem C11_acyclic_empty (o : Opts) : Acyclic { opts := o } := fun _ _ h => by cases h

/-- `_add_compound` on arguments that refer to existing nodes keeps the store acyclic and returns such a key. -/
theorem C11_addCompound_acyclic {S S' : Store} {kind : Kind} {content : List Key} {readonly : Bool}
    {name : Option Name} {placeholder : Bool} {compact : Option Bool} {k : Key} (hw : WF S) (ha : Acyclic S)
    (hcontent : ∀ c ∈ content, keyBelow S.nodes.length c)
    (h : addCompound S kind content readonly name placeholder compact = .ok (S', k)) :
    Acyclic S' ∧ keyBelow S'.nodes.length k :=
  have hc := addCompound_cres _ _ _ _ _ _ _ _ _ h
  ⟨hc.acyclic ha hcontent, hc.key_below hw hcontent⟩

theorem C11_addAtom_acyclic {S S' : Store} {ident : Ident} {pc : PClass} {w : Weight} {group : Option Nat}
    {name : Option Name} {crExtra isExtra : Bool} {k : Key} (hw : WF S) (ha : Acyclic S)
    (h : S.addAtom ident pc w group name crExtra isExtra = (S', k)) :
    Acyclic S' ∧ keyBelow S'.nodes.length k := by
  have hs := addAtom_step S ident pc w group name crExtra isExtra
  have hk := addAtom_key S ident pc w group name crExtra isExtra
  rw [h] at hs hk
  refine ⟨hs.2.2.2 ha, ?_⟩
  rcases hk with ⟨_, rfl | rfl⟩ | ⟨i, rfl, hl⟩
  · show (0 : Int).natAbs ≤ _; simp
  · trivial
  · obtain ⟨hi, g, e, nm, hn⟩ := (hs.1 hw).atom ident i hl
    have hlt : i - 1 < S'.nodes.length := lt_of_get hn
    show (i : Int).natAbs ≤ _
    rw [Int.natAbs_natCast]; omega

theorem C11_addName_acyclic {S : Store} (ha : Acyclic S) (n : Name) (k : Key) (l : Label) (keep : Bool) :
    Acyclic (S.addName n k l keep) ∧ (S.addName n k l keep).nodes.length = S.nodes.length :=
  ⟨addName_acyclic ha n k l keep, addName_length S n k l keep⟩

theorem C11_keyBelow_negate (n : Nat) (k : Key) (h : keyBelow n k) : keyBelow n (negate k) := keyBelow_negate n k h

theorem C11_keyBelow_grows {S S' : Store} (hg : Grows S S') {k : Key} (h : keyBelow S.nodes.length k) :
    keyBelow S'.nodes.length k := by
  obtain ⟨ext, he⟩ := hg
  have := congrArg List.length he
  simp only [List.length_map, List.length_append] at this
  exact keyBelow_mono (by omega) h

/-! ### 6. non-vacuity: concrete stores built with the model's own functions -/

theorem C11_wf_empty (o : Opts) : WF { opts := o } :=
  ⟨fun _ _ h => (by cases h), fun _ _ h => (by cases h), fun _ _ h => (by cases h)⟩

theorem wf_addAtom {S : Store} (hw : WF S) (ident : Ident) (pc : PClass) (w : Weight) (group : Option Nat)
    (name : Option Name) (crExtra isExtra : Bool) : WF (S.addAtom ident pc w group name crExtra isExtra).1 :=
  (C11_addAtom_grows hw (k := (S.addAtom ident pc w group name crExtra isExtra).2) rfl).1

/-- three atoms, default options -/
def exE3 : Store :=
  ((((({} : Store).addAtom (.user 1) .normal .neutral).1.addAtom (.user 2) .normal .neutral (name := some (.pos 7))).1).addAtom
    (.user 3) .normal .neutral (group := some 1)).1

theorem exE3_wf : WF exE3 :=
  wf_addAtom (wf_addAtom (wf_addAtom (C11_wf_empty {}) _ _ _ _ _ _ _) _ _ _ _ _ _ _) _ _ _ _ _ _ _

def okStore (r : Except Err (Store × Key)) : Store :=
  match r with
  | .ok (S, _) => S
  | .error _ => {}

/-- A WF store reached by a few operations (atoms incl. a named one and an AD member, a shared conjunction,
    a renamed single child, a mutable disjunction). -/
def exE4 : Store := okStore (exE3.addAnd [some 1, some (-2), some 1, some 0])
def exE5 : Store := okStore (exE4.addOr [some 3, none] (name := some (.pos 5)))
def exE6 : Store := okStore (exE5.addOr [some 4, some 2] (readonly := false))

example : exE6.nodes.length = 5 ∧ exE6.idxConj = [([some 1, some (-2)], 4)] ∧ exE6.idxDisj = [] := by decide

theorem exE4_spec : WF exE4 ∧ Grows exE3 exE4 ∧
    (∀ ρ, Consistent exE4 ρ → keyVal ρ (some 4) = [some 1, some (-2), some 1, some 0].all (keyVal ρ)) ∧
    exE4.opts = exE3.opts := C11_addAnd (S := exE3) (S' := exE4) (cs := [some 1, some (-2), some 1, some 0]) (name := none)
  (compact := none) (k := some 4) exE3_wf rfl
theorem exE5_spec : WF exE5 ∧ Grows exE4 exE5 ∧
    (∀ ρ, Consistent exE5 ρ → keyVal ρ (some 3) = [some 3, none].any (keyVal ρ)) ∧
    exE5.opts = exE4.opts := C11_addOr (S := exE4) (S' := exE5) (cs := [some 3, none]) (readonly := true)
  (name := some (.pos 5)) (placeholder := false) (compact := none) (k := some 3) exE4_spec.1 rfl
theorem exE6_spec : WF exE6 ∧ Grows exE5 exE6 ∧
    (∀ ρ, Consistent exE6 ρ → keyVal ρ (some 5) = [some 4, some 2].any (keyVal ρ)) ∧
    exE6.opts = exE5.opts := C11_addOr (S := exE5) (S' := exE6) (cs := [some 4, some 2]) (readonly := false)
  (name := none) (placeholder := false) (compact := none) (k := some 5) exE5_spec.1 rfl
theorem exE6_wf : WF exE6 := exE6_spec.1

theorem exE3_acyclic : Acyclic exE3 :=
  (addAtom_step _ _ _ _ _ _ _ _).2.2.2 ((addAtom_step _ _ _ _ _ _ _ _).2.2.2
    ((addAtom_step _ _ _ _ _ _ _ _).2.2.2 (C11_acyclic_empty {})))

-- `exE4` (three atoms and the conjunction `1 ∧ ¬2`) is acyclic, so consistent valuations exist for every atom
-- assignment and the conclusion of `C11_addAnd` is not vacuous there.
example : Acyclic exE4 ∧ keyBelow exE4.nodes.length (some 4) :=
  C11_addCompound_acyclic (S := exE3) (S' := exE4) (kind := .conj) (content := [some 1, some (-2), some 1, some 0])
    (readonly := true) (name := none) (placeholder := false) (compact := none) exE3_wf exE3_acyclic (by decide) rfl

-- Theorem 1: the premises hold for a concrete pair of stores, and the conclusion is informative.
example : Grows exE3 exE6 ∧ ∀ ρ, Consistent exE6 ρ → keyVal ρ (some 4) = (ρ 1 && !ρ 2) := by
  refine ⟨exE4_spec.2.1.trans (exE5_spec.2.1.trans exE6_spec.2.1), ?_⟩
  refine C11_earlier_keys_keep_meaning (exE5_spec.2.1.trans exE6_spec.2.1) (some 4) (fun ρ => ρ 1 && !ρ 2)
    (fun ρ hc => ?_)
  rw [exE4_spec.2.2.1 ρ hc]
  simp [keyVal]
  cases ρ 1 <;> cases ρ 2 <;> rfl

-- Theorem 2: hypotheses met by concrete calls (hash-consing hit, fold to FALSE, single-child rename, placeholder).
example : ∃ S', exE6.addAnd [some (-2), some 1] = .ok (S', some 6) ∧ S'.nodes.length = 6 := ⟨_, rfl, by decide⟩
example : exE6.addAnd [some 0, some 1, some (-2)] = .ok (exE6, some 4) := rfl
example : exE6.addAnd [some 1, some 2, some (-1)] = .ok (exE6, none) := rfl
example : ∃ S', exE6.addOr [none, some 1] (name := some (.pos 9)) = .ok (S', some 1) ∧
    S'.nodes[0]? = some (.atom (.user 1) none false (some (.pos 9))) := ⟨_, rfl, by decide⟩
example : ∃ S', exE6.addOr [] (placeholder := true) = .ok (S', some 6) ∧ S'.nodes[5]? = some (.disj [] none) :=
  ⟨_, rfl, by decide⟩
/-- `exE6` under other options (name clash avoidance on, sharing off, compaction requested per call). -/
def exK6 : Store := { exE6 with opts := { avoidNameClash := true, keepAll := true, autoCompact := false } }
example : WF exK6 := ⟨exE6_wf.conj, exE6_wf.disj, exE6_wf.atom⟩
example : ∃ S', exK6.addOr [some 2] (name := some (.pos 9)) (compact := some true) = .ok (S', some 6) ∧
    S'.nodes[5]? = some (.disj [some 2] (some (.pos 9))) := ⟨_, rfl, by decide⟩

-- Theorem 3: `exE3_wf` above uses `C11_addAtom_grows` three times; the AD path that appends the extra atom:
example : ∃ S' k, exE3.addAtom (.user 4) .normal .neutral (group := some 1) = (S', k) ∧ k = some 4 ∧
    S'.nodes.length = 5 ∧ S'.nodes[4]? = some (.atom (.extra 1) (some 1) true (some (.extra 1))) :=
  ⟨_, _, rfl, by decide, by decide, by decide⟩
example : WF (exE6.addName (.pos 3) (some (-5)) .query) := (C11_addName_preserves exE6_wf _ _ _ _ (fun _ => true)).1

-- Theorem 4: node 5 of `exE6` is a mutable disjunction `[4, 2]`.
example : exE6.getNode? 5 = some (.disj [some 4, some 2] none) ∧ (∀ cs, lookup exE6.idxDisj cs ≠ some (5 : Int).toNat) ∧
    ∃ S', exE6.addDisjunct (some 5) (some (-3)) = .ok (S', some 5) ∧
      S'.nodes[4]? = some (.disj [some 4, some 2, some (-3)] none) :=
  ⟨rfl, fun _ h => (by cases h), _, rfl, by decide⟩

def exM3 : Store :=
  ((((({ opts := { maxArity := 2 } } : Store).addAtom (.user 1) .normal .neutral).1.addAtom (.user 2) .normal
      .neutral).1).addAtom (.user 3) .normal .neutral).1

theorem exM3_wf : WF exM3 :=
  wf_addAtom (wf_addAtom (wf_addAtom (C11_wf_empty { maxArity := 2 }) _ _ _ _ _ _ _) _ _ _ _ _ _ _) _ _ _ _ _ _ _

/-- `maxArity = 2`, three atoms and a mutable disjunction `[1, 2]` (node 4). -/
def exM4 : Store := okStore (exM3.addOr [some 1, some 2] (readonly := false))

theorem exM4_wf : WF exM4 :=
  (C11_addOr (S := exM3) (S' := exM4) (cs := [some 1, some 2]) (readonly := false) (name := none)
    (placeholder := false) (compact := none) (k := some 4) exM3_wf rfl).1

-- the `maxArity` split: a new shared node 5 = `[1, 2]`, node 4 becomes `[5, 3]`
example : exM4.getNode? 4 = some (.disj [some 1, some 2] none) ∧ (∀ cs, lookup exM4.idxDisj cs ≠ some (4 : Int).toNat) ∧
    ∃ S', exM4.addDisjunct (some 4) (some 3) = .ok (S', some 4) ∧
      S'.nodes[3]? = some (.disj [some 5, some 3] none) ∧ S'.nodes[4]? = some (.disj [some 1, some 2] none) :=
  ⟨rfl, fun _ h => (by cases h), _, rfl, by decide, by decide⟩

/-- Same, but node 4 = `[1, 2]` is a *read-only* (hash-consed) disjunction. -/
def exH4 : Store := okStore (exM3.addOr [some 1, some 2])

theorem exH4_wf : WF exH4 :=
  (C11_addOr (S := exM3) (S' := exH4) (cs := [some 1, some 2]) (readonly := true) (name := none)
    (placeholder := false) (compact := none) (k := some 4) exM3_wf rfl).1

/-- The hypothesis `hmut` of `C11_addDisjunct` cannot be dropped: `add_disjunct` on a hash-consed disjunction with
    `max_arity` reached makes the inner `add_or(children)` return the node itself; node 4 becomes `[4, 3]`, and the
    valuation "all atoms false, node 4 true" is consistent although `(ρ 1 || ρ 2) || ρ 3 = false`.
    (Same on the real code: `LogicFormula(max_arity=2)`, `k = add_or([a, b])`, `add_disjunct(k, c)` gives
    `disj(children=(4, 3))`; the builder's callers only pass mutable nodes.) -/
theorem C11_addDisjunct_hashconsed_refuted :
    ∃ (S S' : Store) (k : Int) (children : List Key) (nm : Option Name) (comp r : Key) (ρ : Nat → Bool),
      WF S ∧ S.getNode? k = some (.disj children nm) ∧ 0 < k ∧ S.addDisjunct (some k) comp = .ok (S', r) ∧
      Consistent S' ρ ∧ keyVal ρ (some k) ≠ (children.any (keyVal ρ) || keyVal ρ comp) := by
  refine ⟨exH4, _, 4, [some 1, some 2], none, some 3, _, fun i => i == 4, exH4_wf, rfl, by decide, rfl, ?_, by decide⟩
  intro i
  match i with
  | 0 | 1 | 2 => exact ⟨fun cs nm h => (by cases h), fun cs nm h => (by cases h)⟩
  | 3 =>
    refine ⟨fun cs nm h => (by cases h), fun cs nm h => ?_⟩
    have : cs = [some 4, some 3] := by cases h; rfl
    subst this; decide
  | i + 4 => exact ⟨fun cs nm h => (by cases h), fun cs nm h => (by cases h)⟩

end ProbLogProofs.C11
