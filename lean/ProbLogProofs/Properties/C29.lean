import ProbLogProofs.Lemmas.ClauseDB
/-!
# C29 — extending a prepared database is equivalent to preparing the union (property theorems only)

Model: `ProbLogModel/ClauseDB.lean` (node table, heads, parent/offset, node redirects of `problog/clausedb.py`).
`WF` (Lemmas/ClauseDB.lean) is the invariant of every database built from an empty root by `extend` and the
statement-level operations `Op` (facts, clauses, annotated disjunctions, lone bodies) — `C29_wf_reachable`.
`defs db s` = the clause ids of predicate `s` as seen through `find` + `get_node`.

The model's `getNode` is the *repaired* `get_node` (repo_patches/C29_grandchild_redirect.diff); `getNodeV0` is
`get_node` as written before the repair, for which redirect consistency is refuted (`C29_redirect_consistent_V0_refuted`).
-/
namespace ProbLogProofs.C29
open ProbLogModel.ClauseDB ProbLogProofs.ClauseDBLemmas

/-- Every database reachable from an empty root by `run` and `extend` is well-formed. -/
theorem C29_wf_reachable :
    (∀ b, WF (.root { builtins := b })) ∧
    (∀ db, WF db → WF (extend db)) ∧
    (∀ db ops db' log, WF db → run db ops = .ok (db', log) → WF db') := by
  refine ⟨WF_root_empty, fun _ h => WF_extend h, ?_⟩
  intro db ops db' log h hr
  have := run_Good h ops
  rw [hr] at this
  exact Spec.wf this

/-- **Refinement.** For a child obtained by `extend` from any well-formed parent followed by any sequence of adds,
    the clauses of every predicate are the parent's clauses followed by the ids of the clauses added for it, in order. -/
theorem C29_refines (parent child : DB) (ops : List Op) (log : Log) (s : Sig)
    (hp : WF parent) (hr : run (extend parent) ops = .ok (child, log)) :
    defs child s = defs parent s ++ Log.ids log s := by
  have := run_Good (WF_extend hp) ops
  rw [hr] at this
  have h : Spec (extend parent) child log := this
  rw [h.defs, defs_extend hp]

/-- The same from any well-formed database (root, child, grandchild …), not only directly after `extend`. -/
theorem C29_refines_any (db db' : DB) (ops : List Op) (log : Log) (s : Sig)
    (h : WF db) (hr : run db ops = .ok (db', log)) : defs db' s = defs db s ++ Log.ids log s := by
  have := run_Good h ops
  rw [hr] at this
  exact Spec.defs this s

/-- The logged ids are what they claim to be: new nodes (index ≥ the parent's length, so they lie in the child's own
    node array) that are fact / clause nodes of the logged signature. -/
theorem C29_log_sound (parent child : DB) (ops : List Op) (log : Log) (hp : WF parent)
    (hr : run (extend parent) ops = .ok (child, log)) :
    ∀ e, e ∈ log → parent.len ≤ e.2 ∧
      (rawNode child e.2 = .ok (.fact e.1) ∨ ∃ b, rawNode child e.2 = .ok (.clause e.1 b)) := by
  have := run_Good (WF_extend hp) ops
  rw [hr] at this
  have h : Spec (extend parent) child log := this
  intro e he
  obtain ⟨h1, h2⟩ := h.fresh e he
  refine ⟨?_, h2⟩
  have : (extend parent).len = parent.len := by simp [extend, DB.len, DB.layer, DB.offset]
  omega

/-- **The parent is unchanged.** In the functional model the parent is a field of the child:
    (1) no sequence of child operations changes that field or the offset;
    (2) `_set_node` never writes below the offset — it returns the explicit IndexError instead;
    (3) on well-formed databases no operation ever *attempts* such a write: the only possible failure is the
        AccessError of a builtin head (no "Can't update node in parent.", no silent write into a parent's list). -/
theorem C29_parent_unchanged :
    (∀ parent child ops log, WF parent → run (extend parent) ops = .ok (child, log) →
        child.parent? = some parent ∧ child.offset = parent.len) ∧
    (∀ db i n, i < db.offset → setNode db i n = .error .indexErrorParent) ∧
    (∀ db i n db', setNode db i n = .ok db' → db.offset ≤ i ∧ db'.parent? = db.parent? ∧ db'.offset = db.offset) ∧
    (∀ db ops e, WF db → run db ops = .error e → e = .accessError) := by
  refine ⟨?_, ?_, ?_, ?_⟩
  · intro parent child ops log hp hr
    have := run_Good (WF_extend hp) ops
    rw [hr] at this
    have h : Spec (extend parent) child log := this
    exact ⟨by rw [h.same.parent]; rfl, by rw [h.same.offset]; rfl⟩
  · intro db i n hi
    simp [setNode, hi]
  · intro db i n db' hs
    unfold setNode at hs
    split at hs
    · cases hs
    · split at hs
      · cases hs
        exact ⟨by omega, by simp, by simp⟩
      · cases hs
  · intro db ops e h hr
    have := run_Good h ops
    rw [hr] at this
    exact this

/-- **Redirect consistency** (any depth). Every index `d` that is the head of `s` in the database or in one of its
    ancestors — i.e. every `defnode` a call node for `s` can have been compiled with — resolves, in the database, to
    the database's own current definition of `s`. -/
theorem C29_redirect_consistent_chain (a db : DB) (s : Sig) (d : Nat)
    (h : WF db) (ha : Anc a db) (hd : find a s = some d) :
    ∃ i, find db s = some i ∧ resolve db d = i ∧ getNode db d = getNode db i := by
  obtain ⟨i, hi⟩ := find_mono h ha hd
  exact ⟨i, hi, resolve_anc h ha hd hi, getNode_anc h ha hd hi⟩

/-- **Redirect consistency** for a child after any adds: a call node compiled in the parent (or an ancestor `a`) with
    defnode `d` for `s` reads, in the child, a define node holding the parent's clauses followed by the added ones —
    the child's definition when it added clauses for `s`, the parent's otherwise — or the `()` placeholder when `s`
    has no clause at all. -/
theorem C29_redirect_consistent (parent child a : DB) (ops : List Op) (log : Log) (s : Sig) (d : Nat)
    (hp : WF parent) (hr : run (extend parent) ops = .ok (child, log))
    (ha : Anc a parent) (hd : find a s = some d) :
    getNode child d = .ok (.define s (defs parent s ++ Log.ids log s)) ∨
    (getNode child d = .ok .empty ∧ defs parent s ++ Log.ids log s = []) := by
  have hg := run_Good (WF_extend hp) ops
  rw [hr] at hg
  have hs : Spec (extend parent) child log := hg
  have hac : Anc a child := by
    obtain ⟨l, hl, _⟩ := hs.same
    rw [hl]
    exact Anc.step ha
  obtain ⟨i, hi, _, hgn⟩ := C29_redirect_consistent_chain a child s d hs.wf hac hd
  rw [hgn, getNode_head hs.wf hi, ← C29_refines parent child ops log s hp hr]
  obtain ⟨n, hn, hk⟩ := head_node hs.wf hi
  rcases hk with hk | ⟨ch, hk⟩
  · subst hk
    exact Or.inr ⟨hn, defs_of_empty hs.wf hi hn⟩
  · subst hk
    rw [defs_of_define hs.wf hi hn]
    exact Or.inl hn

/-- **Refutation for `get_node` as written before the repair**: a root with one clause for `p` (head index 1), a child
    that adds a clause for `p`, a grandchild that adds another one. Through the unrepaired `get_node` the index 1
    (the defnode of every call to `p` compiled in the root) reads the *child's* definition `[0, 2]` in the grandchild,
    not the grandchild's `[0, 2, 4]`. Replayed against the real code by the harness (`witness_grandchild`). -/
theorem C29_redirect_consistent_V0_refuted :
    ∃ root child gc l0 l1 l2,
      run (.root {}) [.fact (.user 0)] = .ok (root, l0) ∧
      run (extend root) [.fact (.user 0)] = .ok (child, l1) ∧
      run (extend child) [.fact (.user 0)] = .ok (gc, l2) ∧
      find root (.user 0) = some 1 ∧
      defs gc (.user 0) = [0, 2, 4] ∧
      getNode gc 1 = .ok (.define (.user 0) [0, 2, 4]) ∧
      getNodeV0 gc 1 = .ok (.define (.user 0) [0, 2]) :=
  ⟨_, _, _, _, _, _, rfl, rfl, rfl, rfl, rfl, rfl, rfl⟩

/-- Every choice node's group id is smaller than the node's own index (so: it is the index of an older node). -/
def GroupsBelow (db : DB) : Prop := ∀ j g, rawNode db j = .ok (.other tagChoice [g]) → g < j

/-- **Group ids of annotated disjunctions are fresh along the whole chain**: the invariant `GroupsBelow` holds for the
    empty root, is kept by `extend` and by every sequence of adds, and under it the group id `adGroup db = len(db)`
    that the next annotated disjunction receives differs from the group id of every choice node the database or any
    of its ancestors already contains (the engine keys ground choices by (group, arguments, choice index)). -/
theorem C29_groups_fresh :
    (∀ b, GroupsBelow (.root { builtins := b })) ∧
    (∀ db, GroupsBelow db → GroupsBelow (extend db)) ∧
    (∀ db ops db' log, WF db → GroupsBelow db → run db ops = .ok (db', log) → GroupsBelow db') ∧
    (∀ db, WF db → GroupsBelow db → ∀ j g, rawNode db j = .ok (.other tagChoice [g]) → g ≠ adGroup db) := by
  refine ⟨?_, ?_, ?_, ?_⟩
  · intro b j g h
    simp [rawNode] at h
  · intro db hg j g h
    apply hg j g
    simp only [extend, rawNode] at h
    split at h
    · exact h
    · simp at h
  · intro db ops db' log hw hg hr j g h
    have := run_Good hw ops
    rw [hr] at this
    have hs : Spec db db' log := this
    rcases hs.choices j g h with h1 | ⟨_, h2⟩
    · exact hg j g h1
    · exact h2
  · intro db hw hg j g h
    have h1 := hg j g h
    have h2 := rawNode_lt hw h
    simp only [adGroup]
    omega

/-- **Refutation for the group id as written before the repair** (`len(self.__nodes)`): a root whose first statement is
    an annotated disjunction has a choice node with group id 0, and the first annotated disjunction compiled into an
    extension of it would get group id 0 again (the repaired id is the root's length, 15). -/
theorem C29_groups_fresh_V0_refuted :
    ∃ root l0,
      run (.root { builtins := [(.user 9, 1)] }) [.ad [.user 0, .user 1] (.call (.user 9))] = .ok (root, l0) ∧
      rawNode root 3 = .ok (.other tagChoice [0]) ∧
      adGroupV0 (extend root) = 0 ∧ adGroup (extend root) = 15 :=
  ⟨_, _, rfl, rfl, rfl, rfl⟩

/-! ### Non-vacuity -/

/-- A parent with a clause `p :- q` and a fact `q`; the child adds a fact for `p`, an annotated disjunction with head
    `p` and a clause calling `p`: the hypotheses of the theorems are met and the result is what one expects. -/
example :
    ∃ parent child l0 log,
      run (.root { builtins := [(.user 9, 1)] }) [.clause (.user 0) (.call (.user 1)), .fact (.user 1)] = .ok (parent, l0) ∧
      WF parent ∧
      run (extend parent) [.fact (.user 0), .ad [.user 0, .user 2] (.neg (.call (.user 9))),
        .clause (.user 3) (.call (.user 0))] = .ok (child, log) ∧
      defs parent (.user 0) = [2] ∧ defs child (.user 0) = [2, 5, 15] ∧ Log.ids log (.user 0) = [5, 15] ∧
      find parent (.user 0) = some 3 ∧ getNode child 3 = .ok (.define (.user 0) [2, 5, 15]) := by
  refine ⟨_, _, _, _, rfl, ?_, rfl, rfl, rfl, rfl, rfl, rfl⟩
  exact C29_wf_reachable.2.2 (.root { builtins := [(.user 9, 1)] })
    [.clause (.user 0) (.call (.user 1)), .fact (.user 1)] _ _ (WF_root_empty _) rfl

/-- The AccessError outcome exists (a clause for a builtin head) … -/
example : run (.root { builtins := [(.user 9, 1)] }) [.fact (.user 9)] = .error .accessError := rfl

/-- … and so does the explicit IndexError of `_set_node` below the offset. -/
example : setNode (extend (.root { nodes := [.empty] })) 0 (.fact (.user 0)) = .error .indexErrorParent := rfl

end ProbLogProofs.C29
