import ProbLogProofs.Lemmas.UnrollDag
import ProbLogProofs.Properties.C09Cycles
/-!
# C09 — cycle breaking, algorithm side: the symbolic unrolling commutes with cut evaluation (property theorems only)

`Cycles.breakSimpleNode` (model file `ProbLogModel/CyclesSimple.lean`) is `_break_cycles` of `problog/cycles.py`
without the `translation` reuse table: it BUILDS an acyclic target store through the simplifying, hash-consing
builder of C11.  `Cycles.cutEval` is the concrete reading of the same recursion ("false for a node found among its
ancestors").  The theorems below close the gap between the two, and - with `C09Cycles` - conclude that the built DAG
evaluates every translated root to its value in the least model (perfect model, for stratified negation) of the cyclic
source, for every atom assignment.

Side conditions (definitions in the model file / `Lemmas/UnrollMain.lean`):
* `Stratified src lvl`: no cycle through a negative edge to a compound node.  Needed because `_break_cycles` returns
  FALSE for an ancestor hit *regardless of the sign of the edge* while `cutEval` negates
  (see `C09_unroll_needs_stratified` below);
* `AncOK src lvl anc node`: the ancestor list consists of compound nodes on levels `≥` the current one (`>` for a
  negated compound reference).  `AncOK.nil`: trivial for `[]`; maintained by the descent;
* `DetOK src α`: atoms stored with weight `None` / `False` are true / false under `α` (`add_atom` folds them to the
  constants unless `keep_all`);
* `Carries src T' α ρ`: `ρ` gives each target atom the `α`-value of the source atom with the same identifier;
* `SrcOK src` (decidable): children are TRUE or existing nodes, no empty compound, pairwise distinct atom identifiers -
  used for totality and for the existence of a valuation that `Carries` `α` (not for soundness).
-/
namespace ProbLogProofs.C09
open ProbLogModel.Formula ProbLogModel.Cycles ProbLogProofs.Cycles ProbLogProofs.Unroll
open ProbLogModel.Clark (dagEval)

/-- **The symbolic DFS commutes with the concrete one.**  Whatever `breakSimpleNode` returns for `node` under the
    ancestors `anc` - for any target store `T` satisfying the hash-consing invariant, any builder options, any fuel for
    which the call succeeds - the invariant is kept, the target only grows, and in every valuation `ρ` consistent with
    the new target that carries the atom assignment `α`, the returned key has the value of the cut evaluation of the
    source (whose own fuel `f` only has to exceed the number of nodes outside `anc`: termination is not assumed). -/
theorem C09_unroll {src : Store} {lvl : Nat → Nat} (hst : Stratified src lvl) {α : Nat → Bool} (hdet : DetOK src α)
    {fuel : Nat} {T T' : Store} {node : Int} {anc : List Nat} {k : Key} (hw : WF T)
    (hanc : AncOK src lvl anc node) (h : breakSimpleNode src fuel T node anc = .ok (T', k)) :
    WF T' ∧ Grows T T' ∧
    ∀ ρ, Consistent T' ρ → Carries src T' α ρ → ∀ f, free src anc < f →
      keyVal ρ k = cutEval src α f anc (some node) := by
  obtain ⟨hs, _, hsem⟩ := unroll_node hst hdet fuel T node anc T' k hw hanc h
  exact ⟨hs.1 hw, hs.2.1, hsem⟩

/-- The call made by `break_cycles` for a query / evidence root: empty ancestor list, fuel of `cutEval` as in the
    executable definition. -/
theorem C09_unroll_root {src : Store} {lvl : Nat → Nat} (hst : Stratified src lvl) {α : Nat → Bool}
    (hdet : DetOK src α) {fuel : Nat} {T T' : Store} {node : Int} {k : Key} (hw : WF T)
    (h : breakSimpleNode src fuel T node [] = .ok (T', k)) :
    WF T' ∧ Grows T T' ∧
    ∀ ρ, Consistent T' ρ → Carries src T' α ρ →
      keyVal ρ k = cutEval src α (src.nodes.length + 1) [] (some node) := by
  obtain ⟨h1, h2, h3⟩ := C09_unroll hst hdet hw (AncOK.nil src lvl node) h
  exact ⟨h1, h2, fun ρ hc hcar => h3 ρ hc hcar _ (by rw [free_nil]; omega)⟩

/-- Termination and absence of errors: on a well-formed source the translation succeeds as soon as its fuel exceeds
    the number of source nodes outside the ancestor list - `|nodes| + 1` at top level. -/
theorem C09_breakSimple_total {src : Store} (hok : SrcOK src) {fuel : Nat} (T : Store) {node : Int}
    {anc : List Nat} (hf : free src anc < fuel) (hn : node.natAbs ≤ src.nodes.length) :
    ∃ T' k, breakSimpleNode src fuel T node anc = .ok (T', k) :=
  breakSimpleNode_total hok fuel T node anc hf hn

/-- **Cycle breaking (without the reuse table) is correct.**  Starting from an acyclic target (e.g. the empty one),
    the target stays acyclic, so bottom-up evaluation `dagEval` is its meaning (`C11_acyclic_exists_unique`), and
    under the atom assignment induced by `α` the translated root evaluates to the value of `node` in the perfect model
    of the cyclic source: the least model of the reduct w.r.t. the unique stable model `cutν`
    (`C09_cut_stable_model`, `C09_stable_model_unique`). -/
theorem C09_breakSimple_correct {src : Store} {lvl : Nat → Nat} (hok : SrcOK src) (hst : Stratified src lvl)
    {α : Nat → Bool} (hdet : DetOK src α) {fuel : Nat} {T T' : Store} {node : Int} {k : Key} (hw : WF T)
    (ha : Acyclic T) (h : breakSimpleNode src fuel T node [] = .ok (T', k)) :
    WF T' ∧ Acyclic T' ∧ keyBelow T'.nodes.length k ∧
    dagEval T' (pullback src T' α) k = lfp (reduct src (cutν src α)) α (some node) := by
  obtain ⟨hs, hkb, hsem⟩ := unroll_node hst hdet fuel T node [] T' k hw (AncOK.nil src lvl node) h
  have hw' := hs.1 hw
  have ha' := hs.2.2.2 ha
  refine ⟨hw', ha', hkb, ?_⟩
  rw [← keyVal_dagρ, hsem _ (dagρ_consistent ha' _) (carries_pullback hok hw' α) (src.nodes.length + 1)
    (by rw [free_nil]; omega)]
  exact C09_cutEval_eq_reduct_lfp hst α (some node)

/-- For a source without negated compound children (a definite program over the atoms and their complements) this is
    the least fixpoint of the immediate-consequence operator itself. -/
theorem C09_breakSimple_correct_positive {src : Store} (hok : SrcOK src) (hpos : Positive src) {α : Nat → Bool}
    (hdet : DetOK src α) {fuel : Nat} {T T' : Store} {node : Int} {k : Key} (hw : WF T) (ha : Acyclic T)
    (h : breakSimpleNode src fuel T node [] = .ok (T', k)) :
    Acyclic T' ∧ dagEval T' (pullback src T' α) k = lfp src α (some node) := by
  obtain ⟨_, h2, _, h4⟩ := C09_breakSimple_correct hok (stratified_of_positive hpos) hdet hw ha h
  refine ⟨h2, ?_⟩
  rw [h4, (C09_positive_is_stratified hpos _).2]

/-- All roots of a program (queries, evidence), translated one after the other into the same target as `break_cycles`
    does: every returned key evaluates, in the final DAG, to the perfect-model value of its root. -/
theorem C09_breakSimple_roots {src : Store} {lvl : Nat → Nat} (hok : SrcOK src) (hst : Stratified src lvl)
    {α : Nat → Bool} (hdet : DetOK src α) {fuel : Nat} {T T' : Store} {roots ks : List Key} (hw : WF T)
    (ha : Acyclic T) (h : breakSimple src fuel T roots = .ok (T', ks)) :
    WF T' ∧ Acyclic T' ∧
    ks.map (dagEval T' (pullback src T' α)) = roots.map (lfp (reduct src (cutν src α)) α) := by
  obtain ⟨hs, _, hsem⟩ := childrenWith_spec (src := src) (α := α) (anc := [])
    (fun T c => breakSimpleNode src fuel T c []) (fun _ => True)
    (fun T c T1 k hw _ _ hf => unroll_node hst hdet fuel T c [] T1 k hw (AncOK.nil src lvl c) hf)
    roots T T' ks hw (fun _ _ => trivial) h
  have hw' := hs.1 hw
  have ha' := hs.2.2.2 ha
  refine ⟨hw', ha', ?_⟩
  have := hsem _ (dagρ_consistent ha' _) (carries_pullback hok hw' α) (src.nodes.length + 1)
    (by rw [free_nil]; omega)
  rw [show (keyVal (dagρ T' (pullback src T' α))) = dagEval T' (pullback src T' α) from
    funext (keyVal_dagρ T' _)] at this
  rw [this]
  exact List.map_congr_left (fun c _ => C09_cutEval_eq_reduct_lfp hst α c)

/-! ### non-vacuity -/

/-- `exStore` (C09Cycles): 1, 2 atoms; 3 = disj [1, 4]; 4 = conj [3, 2] - a positive cycle 3 ↔ 4.
    Translating node 4 into the empty target gives atoms 1, 2 and `conj [1, 2]` (the cut removes the disjunct 4). -/
def exTarget : Store :=
  match breakSimpleNode exStore 5 {} 4 [] with
  | .ok (T, _) => T
  | .error _ => {}

example : SrcOK exStore ∧ Stratified exStore (fun _ => 0) ∧ Positive exStore := by decide
theorem exStore_det (α : Nat → Bool) : DetOK exStore α := fun i id g e nm h => by
  have : (lookup exStore.weights (i + 1)).getD Weight.neutral = .neutral := rfl
  rw [this]; exact ⟨fun h => (by cases h), fun h => (by cases h)⟩
theorem wf_empty : WF ({} : Store) :=
  ⟨fun _ _ h => (by cases h), fun _ _ h => (by cases h), fun _ _ h => (by cases h)⟩
theorem acyclic_empty : Acyclic ({} : Store) := fun _ _ h => by cases h
-- the hypotheses of the theorems are met by a concrete cyclic source and the empty target
example : dagEval exTarget (pullback exStore exTarget exα) (some 3) = lfp exStore exα (some 4) :=
  (C09_breakSimple_correct_positive (fuel := 5) (T := {}) (T' := exTarget) (by decide) (by decide) (exStore_det exα) wf_empty
    acyclic_empty rfl).2
example : ∀ ρ, Consistent exTarget ρ → Carries exStore exTarget exβ ρ →
    keyVal ρ (some 3) = cutEval exStore exβ 5 [] (some 4) :=
  (C09_unroll_root (lvl := fun _ => 0) (fuel := 5) (T := {}) (T' := exTarget) (by decide) (exStore_det exβ) wf_empty rfl).2.2
example : ∃ T' k, breakSimpleNode exStore 5 {} 4 [] = .ok (T', k) :=
  C09_breakSimple_total (by decide) {} (by decide) (by decide)
example : ∃ T', breakSimpleNode exStore 5 {} 4 [] = .ok (T', some 3) ∧
    T'.nodes = [.atom (.user 1) none false none, .atom (.user 2) none false none, .conj [some 1, some 2] none] :=
  ⟨_, rfl, by decide⟩
example : dagEval exTarget (pullback exStore exTarget exα) (some 3) = true ∧
    lfp exStore exα (some 4) = true := by decide
example : dagEval exTarget (pullback exStore exTarget exβ) (some 3) = false ∧
    lfp exStore exβ (some 4) = false := by decide

/-- `exStrat` (C09Cycles, stratified negation over two positive cycles): translating node 6. -/
example : Stratified exStrat exLvl ∧ SrcOK exStrat ∧ ¬ Positive exStrat := by decide
example : (match breakSimpleNode exStrat 8 {} 6 [] with
    | .ok (T, k) => some (T.nodes, k)
    | .error _ => none) =
    some ([.atom (.user 1) none false none, .atom (.user 2) none false none,
           .conj [some (-1), some 2] none, .conj [some 1, some 2] none], some 3) := by decide
example : (match breakSimple exStrat 8 {} [some 6, some (-3), some 7] with
    | .ok (T, ks) => some (T.nodes.length, ks)
    | .error _ => none) = some (5, [some 3, some (-1), some 5]) := by decide

def exTarget2 : Store :=
  match breakSimple exStrat 8 {} [some 6, some (-3), some 7] with
  | .ok (T, _) => T
  | .error _ => {}

example : [some 3, some (-1), some 5].map (dagEval exTarget2 (pullback exStrat exTarget2 exβ)) = [true, true, true] ∧
    [some 6, some (-3), some 7].map (lfp (reduct exStrat (cutν exStrat exβ)) exβ) = [true, true, true] := by decide
example : [some 3, some (-1), some 5].map (dagEval exTarget2 (pullback exStrat exTarget2 exα)) = [false, false, false] ∧
    [some 6, some (-3), some 7].map (lfp (reduct exStrat (cutν exStrat exα)) exα) = [false, false, false] := by
  decide

/-- The stratification hypothesis cannot be dropped: for `p :- \+p` (`exNeg`, node 1 = conj [¬1]) the translation
    returns FALSE for the ancestor hit under the negative edge, hence FALSE for node 1, whereas `cutEval` negates the
    cut and gives `true`. (No model of the completion exists there; ProbLog rejects such programs earlier.) -/
theorem C09_unroll_needs_stratified :
    breakSimpleNode exNeg 3 {} 1 [] = .ok ({}, none) ∧ cutEval exNeg (fun _ => false) 2 [] (some 1) = true := by
  constructor
  · rfl
  · decide

end ProbLogProofs.C09
