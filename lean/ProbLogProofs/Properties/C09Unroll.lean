import ProbLogProofs.Lemmas.UnrollDag
import ProbLogProofs.Lemmas.UnrollReuseNode
import ProbLogProofs.Lemmas.UnrollEqS
import ProbLogProofs.Lemmas.UnrollCycles
import ProbLogProofs.Properties.C09Cycles
/-!
# C09 — cycle breaking, algorithm side: the symbolic unrolling commutes with cut evaluation (property theorems only)

Stage 1.  `Cycles.breakSimpleNode` (model file `ProbLogModel/CyclesSimple.lean`) is `_break_cycles` of
`problog/cycles.py` without the `translation` reuse table: it BUILDS an acyclic target store through the simplifying,
hash-consing builder of C11.  `Cycles.cutEval` is the concrete reading of the same recursion ("false for a node found
among its ancestors").  `C09_unroll` closes the gap between the two, and - with `C09Cycles` -
`C09_breakSimple_correct` concludes that the built DAG evaluates every translated root to its value in the least model
(perfect model, for stratified negation) of the cyclic source, for every atom assignment.

Stage 2 (second half of the file).  The real `Cycles.breakNode` / `Cycles.breakCycles` with the reuse table:
`C09_breakNode_valid`, `C09_breakNode_root`, `C09_breakNode_correct`, `C09_breakCycles_correct`.

Side conditions (definitions in the model file / `Lemmas/UnrollMain.lean`):
* `Stratified src lvl`: no cycle through a negative edge to a compound node.  Needed because `_break_cycles` returns
  FALSE for an ancestor hit *regardless of the sign of the edge* while `cutEval` negates
  (see `C09_unroll_needs_stratified` below);
* `AncOK src lvl anc node`: the ancestor list consists of compound nodes on levels `≥` the current one (`>` for a
  negated compound reference).  `AncOK.nil`: trivial for `[]`; maintained by the descent;
* `DetOK src α`: atoms stored with weight `None` / `False` are true / false under `α` (`add_atom` folds them to the
  constants unless `keep_all`);
* `Carries src T' α ρ`: `ρ` gives each target atom the `α`-value of the source atom with the same identifier;
* `SrcOK src` (decidable): children are TRUE or existing nodes, no empty compound, pairwise distinct atom identifiers -
  used for totality and for the existence of a valuation that `Carries` `α` (not for soundness).
-/
namespace ProbLogProofs.C09
open ProbLogModel.Formula ProbLogModel.Cycles ProbLogProofs.Cycles ProbLogProofs.Unroll
open ProbLogModel.Clark (dagEval)

/-- **The symbolic DFS commutes with the concrete one.**  Whatever `breakSimpleNode` returns for `node` under the
    ancestors `anc` - for any target store `T` satisfying the hash-consing invariant, any builder options, any fuel for
    which the call succeeds - the invariant is kept, the target only grows, and in every valuation `ρ` consistent with
    the new target that carries the atom assignment `α`, the returned key has the value of the cut evaluation of the
    source (whose own fuel `f` only has to exceed the number of nodes outside `anc`: termination is not assumed). -/
theorem C09_unroll {src : Store} {lvl : Nat → Nat} (hst : Stratified src lvl) {α : Nat → Bool} (hdet : DetOK src α)
    {fuel : Nat} {T T' : Store} {node : Int} {anc : List Nat} {k : Key} (hw : WF T)
    (hanc : AncOK src lvl anc node) (h : breakSimpleNode src fuel T node anc = .ok (T', k)) :
    WF T' ∧ Grows T T' ∧
    ∀ ρ, Consistent T' ρ → Carries src T' α ρ → ∀ f, free src anc < f →
      keyVal ρ k = cutEval src α f anc (some node) := by
  obtain ⟨hs, _, hsem⟩ := unroll_node hst hdet fuel T node anc T' k hw hanc h
  exact ⟨hs.1 hw, hs.2.1, hsem⟩

/-- The call made by `break_cycles` for a query / evidence root: empty ancestor list, fuel of `cutEval` as in the
    executable definition. -/
theorem C09_unroll_root {src : Store} {lvl : Nat → Nat} (hst : Stratified src lvl) {α : Nat → Bool}
    (hdet : DetOK src α) {fuel : Nat} {T T' : Store} {node : Int} {k : Key} (hw : WF T)
    (h : breakSimpleNode src fuel T node [] = .ok (T', k)) :
    WF T' ∧ Grows T T' ∧
    ∀ ρ, Consistent T' ρ → Carries src T' α ρ →
      keyVal ρ k = cutEval src α (src.nodes.length + 1) [] (some node) := by
  obtain ⟨h1, h2, h3⟩ := C09_unroll hst hdet hw (AncOK.nil src lvl node) h
  exact ⟨h1, h2, fun ρ hc hcar => h3 ρ hc hcar _ (by rw [free_nil]; omega)⟩

/-- Termination and absence of errors: on a well-formed source the translation succeeds as soon as its fuel exceeds
    the number of source nodes outside the ancestor list - `|nodes| + 1` at top level. -/
theorem C09_breakSimple_total {src : Store} (hok : SrcOK src) {fuel : Nat} (T : Store) {node : Int}
    {anc : List Nat} (hf : free src anc < fuel) (hn : node.natAbs ≤ src.nodes.length) :
    ∃ T' k, breakSimpleNode src fuel T node anc = .ok (T', k) :=
  breakSimpleNode_total hok fuel T node anc hf hn

/-- **Cycle breaking (without the reuse table) is correct.**  Starting from an acyclic target (e.g. the empty one),
    the target stays acyclic, so bottom-up evaluation `dagEval` is its meaning (`C11_acyclic_exists_unique`), and
    under the atom assignment induced by `α` the translated root evaluates to the value of `node` in the perfect model
    of the cyclic source: the least model of the reduct w.r.t. the unique stable model `cutν`
    (`C09_cut_stable_model`, `C09_stable_model_unique`). -/
theorem C09_breakSimple_correct {src : Store} {lvl : Nat → Nat} (hok : SrcOK src) (hst : Stratified src lvl)
    {α : Nat → Bool} (hdet : DetOK src α) {fuel : Nat} {T T' : Store} {node : Int} {k : Key} (hw : WF T)
    (ha : Acyclic T) (h : breakSimpleNode src fuel T node [] = .ok (T', k)) :
    WF T' ∧ Acyclic T' ∧ keyBelow T'.nodes.length k ∧
    dagEval T' (pullback src T' α) k = lfp (reduct src (cutν src α)) α (some node) := by
  obtain ⟨hs, hkb, hsem⟩ := unroll_node hst hdet fuel T node [] T' k hw (AncOK.nil src lvl node) h
  have hw' := hs.1 hw
  have ha' := hs.2.2.2 ha
  refine ⟨hw', ha', hkb, ?_⟩
  rw [← keyVal_dagρ, hsem _ (dagρ_consistent ha' _) (carries_pullback hok hw' α) (src.nodes.length + 1)
    (by rw [free_nil]; omega)]
  exact C09_cutEval_eq_reduct_lfp hst α (some node)

/-- For a source without negated compound children (a definite program over the atoms and their complements) this is
    the least fixpoint of the immediate-consequence operator itself. -/
theorem C09_breakSimple_correct_positive {src : Store} (hok : SrcOK src) (hpos : Positive src) {α : Nat → Bool}
    (hdet : DetOK src α) {fuel : Nat} {T T' : Store} {node : Int} {k : Key} (hw : WF T) (ha : Acyclic T)
    (h : breakSimpleNode src fuel T node [] = .ok (T', k)) :
    Acyclic T' ∧ dagEval T' (pullback src T' α) k = lfp src α (some node) := by
  obtain ⟨_, h2, _, h4⟩ := C09_breakSimple_correct hok (stratified_of_positive hpos) hdet hw ha h
  refine ⟨h2, ?_⟩
  rw [h4, (C09_positive_is_stratified hpos _).2]

/-- All roots of a program (queries, evidence), translated one after the other into the same target as `break_cycles`
    does: every returned key evaluates, in the final DAG, to the perfect-model value of its root. -/
theorem C09_breakSimple_roots {src : Store} {lvl : Nat → Nat} (hok : SrcOK src) (hst : Stratified src lvl)
    {α : Nat → Bool} (hdet : DetOK src α) {fuel : Nat} {T T' : Store} {roots ks : List Key} (hw : WF T)
    (ha : Acyclic T) (h : breakSimple src fuel T roots = .ok (T', ks)) :
    WF T' ∧ Acyclic T' ∧
    ks.map (dagEval T' (pullback src T' α)) = roots.map (lfp (reduct src (cutν src α)) α) := by
  obtain ⟨hs, _, hsem⟩ := childrenWith_spec (src := src) (α := α) (anc := [])
    (fun T c => breakSimpleNode src fuel T c []) (fun _ => True)
    (fun T c T1 k hw _ _ hf => unroll_node hst hdet fuel T c [] T1 k hw (AncOK.nil src lvl c) hf)
    roots T T' ks hw (fun _ _ => trivial) h
  have hw' := hs.1 hw
  have ha' := hs.2.2.2 ha
  refine ⟨hw', ha', ?_⟩
  have := hsem _ (dagρ_consistent ha' _) (carries_pullback hok hw' α) (src.nodes.length + 1)
    (by rw [free_nil]; omega)
  rw [show (keyVal (dagρ T' (pullback src T' α))) = dagEval T' (pullback src T' α) from
    funext (keyVal_dagρ T' _)] at this
  rw [this]
  exact List.map_congr_left (fun c _ => C09_cutEval_eq_reduct_lfp hst α c)

/-! ### non-vacuity -/

/-- `exStore` (C09Cycles): 1, 2 atoms; 3 = disj [1, 4]; 4 = conj [3, 2] - a positive cycle 3 ↔ 4.
    Translating node 4 into the empty target gives atoms 1, 2 and `conj [1, 2]` (the cut removes the disjunct 4). -/
def exTarget : Store :=
  match breakSimpleNode exStore 5 {} 4 [] with
  | .ok (T, _) => T
  | .error _ => {}

example : SrcOK exStore ∧ Stratified exStore (fun _ => 0) ∧ Positive exStore := by decide
theorem exStore_det (α : Nat → Bool) : DetOK exStore α := fun i id g e nm h => by
  have : (lookup exStore.weights (i + 1)).getD Weight.neutral = .neutral := rfl
  rw [this]; exact ⟨fun h => (by cases h), fun h => (by cases h)⟩
theorem wf_empty : WF ({} : Store) :=
  ⟨fun _ _ h => (by cases h), fun _ _ h => (by cases h), fun _ _ h => (by cases h)⟩
theorem acyclic_empty : Acyclic ({} : Store) := fun _ _ h => by cases h
-- the hypotheses of the theorems are met by a concrete cyclic source and the empty target
example : dagEval exTarget (pullback exStore exTarget exα) (some 3) = lfp exStore exα (some 4) :=
  (C09_breakSimple_correct_positive (fuel := 5) (T := {}) (T' := exTarget) (by decide) (by decide) (exStore_det exα) wf_empty
    acyclic_empty rfl).2
example : ∀ ρ, Consistent exTarget ρ → Carries exStore exTarget exβ ρ →
    keyVal ρ (some 3) = cutEval exStore exβ 5 [] (some 4) :=
  (C09_unroll_root (lvl := fun _ => 0) (fuel := 5) (T := {}) (T' := exTarget) (by decide) (exStore_det exβ) wf_empty rfl).2.2
example : ∃ T' k, breakSimpleNode exStore 5 {} 4 [] = .ok (T', k) :=
  C09_breakSimple_total (by decide) {} (by decide) (by decide)
example : ∃ T', breakSimpleNode exStore 5 {} 4 [] = .ok (T', some 3) ∧
    T'.nodes = [.atom (.user 1) none false none, .atom (.user 2) none false none, .conj [some 1, some 2] none] :=
  ⟨_, rfl, by decide⟩
example : dagEval exTarget (pullback exStore exTarget exα) (some 3) = true ∧
    lfp exStore exα (some 4) = true := by decide
example : dagEval exTarget (pullback exStore exTarget exβ) (some 3) = false ∧
    lfp exStore exβ (some 4) = false := by decide

/-- `exStrat` (C09Cycles, stratified negation over two positive cycles): translating node 6. -/
example : Stratified exStrat exLvl ∧ SrcOK exStrat ∧ ¬ Positive exStrat := by decide
example : (match breakSimpleNode exStrat 8 {} 6 [] with
    | .ok (T, k) => some (T.nodes, k)
    | .error _ => none) =
    some ([.atom (.user 1) none false none, .atom (.user 2) none false none,
           .conj [some (-1), some 2] none, .conj [some 1, some 2] none], some 3) := by decide
example : (match breakSimple exStrat 8 {} [some 6, some (-3), some 7] with
    | .ok (T, ks) => some (T.nodes.length, ks)
    | .error _ => none) = some (5, [some 3, some (-1), some 5]) := by decide

def exTarget2 : Store :=
  match breakSimple exStrat 8 {} [some 6, some (-3), some 7] with
  | .ok (T, _) => T
  | .error _ => {}

example : [some 3, some (-1), some 5].map (dagEval exTarget2 (pullback exStrat exTarget2 exβ)) = [true, true, true] ∧
    [some 6, some (-3), some 7].map (lfp (reduct exStrat (cutν exStrat exβ)) exβ) = [true, true, true] := by decide
example : [some 3, some (-1), some 5].map (dagEval exTarget2 (pullback exStrat exTarget2 exα)) = [false, false, false] ∧
    [some 6, some (-3), some 7].map (lfp (reduct exStrat (cutν exStrat exα)) exα) = [false, false, false] := by
  decide

/-- The stratification hypothesis cannot be dropped: for `p :- \+p` (`exNeg`, node 1 = conj [¬1]) the translation
    returns FALSE for the ancestor hit under the negative edge, hence FALSE for node 1, whereas `cutEval` negates the
    cut and gives `true`. (No model of the completion exists there; ProbLog rejects such programs earlier.) -/
theorem C09_unroll_needs_stratified :
    breakSimpleNode exNeg 3 {} 1 [] = .ok ({}, none) ∧ cutEval exNeg (fun _ => false) 2 [] (some 1) = true := by
  constructor
  · rfl
  · decide

/-! ## Stage 2: the real `_break_cycles`, with the `translation` reuse table

`Cycles.breakNode` (model file `ProbLogModel/Cycles.lean`, tied to `problog/cycles.py` by the C09 correspondence
check) keeps, per source node, the list of `(newnode, cycles broken, content − cycles broken)` of its earlier
translations and reuses one when `cb ⊆ ancestors ∪ {node}` and `(ancestors ∪ {node}) ∩ cn = ∅`.

The invariant of the table (`TransOK`, `Lemmas/UnrollReuse.lean`) is a *sandwich*: in every consistent valuation of
the target that carries `α`, an entry `(newnode, cb, cn)` of node `n` satisfies
* `Up`:  `keyVal ρ newnode ≤ Pv n` (the perfect-model value `Pv n = cutEval src α (|nodes|+1) [] n`), and
* `Low`: `cutEval src α f A n ≤ keyVal ρ newnode` for every ancestor list `A` (levels as in `AncOK`) with
  `cb ⊆ A ∪ {n}`.
An *equation* `keyVal ρ newnode = cutEval src α f A n` for the ancestor lists accepted by the reuse test is false
(`C09_reuse_not_cutEval`), but the sandwich is preserved, needs only the first half of the reuse test, and collapses to
an equation at every root and under every negative edge - which is what correctness of `break_cycles` needs. -/

/-- **The reuse table invariant is preserved by `_break_cycles`**, and the returned key is sandwiched between the cut
    evaluation (under the call's own ancestors, and under every ancestor list containing the reported `cycles_broken`)
    and the perfect-model value.  `ev = none` (no evidence table); both values of `is_evidence`. -/
theorem C09_breakNode_valid {src : Store} {lvl : Nat → Nat} (hst : Stratified src lvl) {α : Nat → Bool}
    (hdet : DetOK src α) {fuel : Nat} {st : BC} {node : Int} {anc : List Nat} {isEv : Bool} {r : Res}
    (h0 : node ≠ 0) (hw : WF st.target) (htr : TransOK src lvl α st.target st.trans)
    (hanc : AncOK src lvl anc node) (h : breakNode src none fuel st node anc isEv = .ok r) :
    WF r.st.target ∧ Grows st.target r.st.target ∧ (Acyclic st.target → Acyclic r.st.target) ∧
    TransOK src lvl α r.st.target r.st.trans ∧ keyBelow r.st.target.nodes.length r.key ∧
    ∀ ρ, Consistent r.st.target ρ → Carries src r.st.target α ρ →
      (keyVal ρ r.key = true → Pv src α (some node) = true) ∧
      (∀ A f, ((∀ x, x ∈ A ↔ x ∈ anc) ∨ ∀ x ∈ r.cb, x ∈ A) → AncOK src lvl A node → free src A < f →
        cutEval src α f A (some node) = true → keyVal ρ r.key = true) := by
  have hc := node_valid hst hdet fuel st node anc isEv r h0 hw htr hanc h
  exact ⟨hc.step.1 hw, hc.step.2.1, hc.step.2.2.2, hc.trans, hc.kb, hc.sem⟩

/-- At a root (the calls made by `break_cycles`: empty ancestor list, any table satisfying the invariant - in
    particular the table left by the previous queries) the returned key has exactly the perfect-model value. -/
theorem C09_breakNode_root {src : Store} {lvl : Nat → Nat} (hst : Stratified src lvl) {α : Nat → Bool}
    (hdet : DetOK src α) {fuel : Nat} {st : BC} {node : Int} {isEv : Bool} {r : Res}
    (h0 : node ≠ 0) (hw : WF st.target) (htr : TransOK src lvl α st.target st.trans)
    (h : breakNode src none fuel st node [] isEv = .ok r) :
    ∀ ρ, Consistent r.st.target ρ → Carries src r.st.target α ρ →
      keyVal ρ r.key = cutEval src α (src.nodes.length + 1) [] (some node) :=
  root_exact (node_valid hst hdet fuel st node [] isEv r h0 hw htr (AncOK.nil src lvl node) h)

/-- ... hence the DAG built by `_break_cycles` with reuse evaluates the root to its perfect-model value. -/
theorem C09_breakNode_correct {src : Store} {lvl : Nat → Nat} (hok : SrcOK src) (hst : Stratified src lvl)
    {α : Nat → Bool} (hdet : DetOK src α) {fuel : Nat} {st : BC} {node : Int} {isEv : Bool} {r : Res}
    (h0 : node ≠ 0) (hw : WF st.target) (ha : Acyclic st.target) (htr : TransOK src lvl α st.target st.trans)
    (h : breakNode src none fuel st node [] isEv = .ok r) :
    Acyclic r.st.target ∧
    dagEval r.st.target (pullback src r.st.target α) r.key = lfp (reduct src (cutν src α)) α (some node) := by
  have hc := node_valid hst hdet fuel st node [] isEv r h0 hw htr (AncOK.nil src lvl node) h
  have ha' := hc.step.2.2.2 ha
  refine ⟨ha', ?_⟩
  rw [← keyVal_dagρ, root_exact hc _ (dagρ_consistent ha' _) (carries_pullback hok (hc.step.1 hw) α)]
  exact C09_cutEval_eq_reduct_lfp hst α (some node)

/-- The empty table satisfies the invariant. -/
theorem C09_transOK_nil (src : Store) (lvl : Nat → Nat) (α : Nat → Bool) (T : Store) : TransOK src lvl α T [] :=
  TransOK.nil src lvl α T

/-- `exReuse`: atoms 1..4 = a, b, c, d; 5 = n = disj [6, c]; 6 = m = disj [a, 7, 8]; 7 = conj [6, b];
    8 = conj [5, d].  After the query `n`, the table entry of `n` is `(a ∨ c, cb = {6, 5}, cn = ∅)`. -/
def exReuse : Store :=
  { nodes := [.atom (.user 1) none false none, .atom (.user 2) none false none, .atom (.user 3) none false none,
              .atom (.user 4) none false none,
              .disj [some 6, some 3] none, .disj [some 1, some 7, some 8] none,
              .conj [some 6, some 2] none, .conj [some 5, some 4] none] }

/-- The state (target + table) after the first query `n` (computed with the structurally recursive copy
    `breakNodeS = breakNode`, `C09_breakNode_eq_S`, so that `decide` can run it). -/
def exReuseSt : BC :=
  match breakNodeS exReuse none 10 ⟨{}, []⟩ 5 [] false with
  | .ok r => r.st
  | .error _ => default

/-- `breakNode` (mutual, compiled by well-founded recursion) equals its structurally recursive copy. -/
theorem C09_breakNode_eq_S (src : Store) (ev : Option (List (Nat × Key))) (fuel : Nat) (st : BC) (node : Int)
    (anc : List Nat) (isEv : Bool) :
    breakNode src ev fuel st node anc isEv = breakNodeS src ev fuel st node anc isEv :=
  breakNode_eq_S src ev fuel st node anc isEv

/-- **The table entries are not equal to the cut evaluation**: in `exReuse`, while translating the second query `m`,
    node `n` is met under the ancestors `{m, 8}`; its entry passes the reuse test and `disj [a, c]` (target node 5)
    is returned, whose value under `a = true, c = false` is `true`, while the cut evaluation of `n` under these
    ancestors is `c`, i.e. `false`.  (Same on the real code: `LogicDAG.create_from` gives `6: conj(5, d)` with
    `5: disj(a, c)`.)  The query itself is still translated correctly (`C09_breakNode_correct`):
    `m = a ∨ ((a ∨ c) ∧ d) ≡ a ∨ (c ∧ d)`. -/
theorem C09_reuse_not_cutEval :
    (match breakNode exReuse none 10 exReuseSt 5 [6, 8] false with
      | .ok r => r.key == some 5 && r.cb == [6, 5] &&
          r.st.target.nodes[4]? == some (.disj [some 1, some 4] none) &&
          r.st.target.nodes[0]? == some (.atom (.user 1) none false none) &&
          r.st.target.nodes[3]? == some (.atom (.user 3) none false none) &&
          dagEval r.st.target (pullback exReuse r.st.target (fun i => i == 1)) r.key
      | .error _ => false) = true ∧
    cutEval exReuse (fun i => i == 1) 9 [6, 8] (some 5) = false := by
  rw [breakNode_eq_S]
  decide

example : SrcOK exReuse ∧ Stratified exReuse (fun _ => 0) := by decide
-- the second query of `exReuse`, translated with the table left by the first one (node 8 reuses the entry of node 5)
example : (match breakNode exReuse none 10 exReuseSt 6 [] false with
    | .ok r => some (r.st.target.nodes.drop 4, r.key)
    | .error _ => none) =
    some ([.disj [some 1, some 4] none, .conj [some 5, some 3] none, .disj [some 1, some 6] none], some 7) := by
  rw [breakNode_eq_S]
  decide

/-- The state left by the first query of `exReuse` satisfies the hypotheses of `C09_breakNode_valid` /
    `C09_breakNode_correct` (obtained from `C09_breakNode_valid` itself, started on the empty target and table). -/
theorem exReuseSt_inv (α : Nat → Bool) (hdet : DetOK exReuse α) :
    WF exReuseSt.target ∧ Acyclic exReuseSt.target ∧
    TransOK exReuse (fun _ => 0) α exReuseSt.target exReuseSt.trans := by
  have hok : (match breakNodeS exReuse none 10 ⟨{}, []⟩ 5 [] false with
      | .ok _ => true
      | .error _ => false) = true := by decide
  cases h : breakNodeS exReuse none 10 ⟨{}, []⟩ 5 [] false with
  | error e => rw [h] at hok; cases hok
  | ok r =>
    have hst : exReuseSt = r.st := by unfold exReuseSt; rw [h]
    rw [hst]
    have h' : breakNode exReuse none 10 ⟨{}, []⟩ 5 [] false = .ok r := by rw [breakNode_eq_S]; exact h
    obtain ⟨h1, _, h3, h4, _⟩ := C09_breakNode_valid (lvl := fun _ => 0) (by decide) hdet (by decide) wf_empty
      (TransOK.nil _ _ _ _) (AncOK.nil _ _ _) h'
    exact ⟨h1, h3 acyclic_empty, h4⟩

/-- Sources without stored weights (all atoms `neutral`) satisfy `DetOK` for every assignment. -/
theorem C09_detOK_no_weights {src : Store} (h : src.weights = []) (α : Nat → Bool) : DetOK src α := by
  intro i id g e nm _
  have : (lookup src.weights (i + 1)).getD Weight.neutral = .neutral := by rw [h]; rfl
  rw [this]
  exact ⟨fun h => (by cases h), fun h => (by cases h)⟩

-- the second query of `exReuse` (its translation reuses a table entry inside a cycle): correct for every `α`
example (α : Nat → Bool) (r : Res) (h : breakNode exReuse none 10 exReuseSt 6 [] false = .ok r) :
    dagEval r.st.target (pullback exReuse r.st.target α) r.key =
      lfp (reduct exReuse (cutν exReuse α)) α (some 6) :=
  have hi := exReuseSt_inv α (C09_detOK_no_weights rfl α)
  (C09_breakNode_correct (lvl := fun _ => 0) (by decide) (by decide) (C09_detOK_no_weights rfl α) (by decide)
    hi.1 hi.2.1 hi.2.2 h).2

/-- **`break_cycles` is correct** (model `Cycles.breakCycles`, no evidence table - i.e. a formula without propagated
    evidence values; any target options; `keep_named` on or off): the produced target is an acyclic store satisfying
    the hash-consing invariant, and every query / evidence entry `(label, name, key)` of its name table comes from a
    source entry `(label, name, n)` and evaluates, in the produced DAG under the atom assignment induced by `α`, to
    the value of `n` in the perfect model (least model of the reduct w.r.t. the unique stable model) of the cyclic
    source - for every atom assignment `α`.  Covers both loops: queries with the shared reuse table, evidence nodes
    with `is_evidence = True`, the table reset and the sign applied afterwards.  Not covered: the evidence table
    (`ev = some _`, evidence short-cut `get_evidence_value`), entries labelled `named`, and the converse "every source
    entry appears in the output". -/
theorem C09_breakCycles_correct {src : Store} {lvl : Nat → Nat} (hok : SrcOK src) (hst : Stratified src lvl)
    {α : Nat → Bool} (hdet : DetOK src α) {opts : Opts} {keepNamed : Bool} {T' : Store}
    (h : breakCycles src none opts keepNamed = .ok T') :
    WF T' ∧ Acyclic T' ∧
    ∀ l q k, (l, q, k) ∈ T'.names → l ≠ Label.named →
      ∃ n, (l, q, n) ∈ src.names ∧ keyBelow T'.nodes.length k ∧
        dagEval T' (pullback src T' α) k = lfp (reduct src (cutν src α)) α n := by
  obtain ⟨hw, ha, hnm⟩ := breakCycles_inv hst hdet h
  refine ⟨hw, ha, fun l q k hmem hl => ?_⟩
  have hNN : (l, q, k) ∈ NN T' := List.mem_filter.2 ⟨hmem, by simpa [nnf] using hl⟩
  obtain ⟨n, h1, h2, h3⟩ := hnm _ hNN
  refine ⟨n, h1, h2, ?_⟩
  rw [← keyVal_dagρ, h3 _ (dagρ_consistent ha _) (carries_pullback hok hw α)]
  exact Pv_eq_lfp hst α n

/-- `exReuse` with two queries (`n`, then `m`: the second one reuses the table entry of `n` inside a cycle) and a
    negative evidence literal `¬m`. -/
def exReuseQ : Store :=
  { exReuse with names := [(.query, .pos 1, some 5), (.query, .pos 2, some 6), (.evNeg, .pos 3, some (-6))] }

/-- `breakCycles` with `breakNode` replaced by its structurally recursive copy (so that `decide` can run it). -/
def bcStep1S (src : Store) (fuel : Nat) (acc : Except CErr BC) (e : Label × Name × Key) : Except CErr BC :=
  match acc with
  | .error x => .error x
  | .ok st =>
    let (l, q, n) := e
    if isProbabilistic n then
      match n with
      | some i =>
        match breakNodeS src none fuel st i [] false with
        | .error x => .error x
        | .ok r => .ok ⟨r.st.target.addName q r.key l, r.st.trans⟩
      | none => .ok st
    else .ok ⟨st.target.addName q n l, st.trans⟩

def bcStep2S (src : Store) (fuel : Nat) (acc : Except CErr BC) (e : Label × Name × Key) : Except CErr BC :=
  match acc with
  | .error x => .error x
  | .ok st =>
    let (l, q, n) := e
    if isProbabilistic n then
      match n with
      | some i =>
        match breakNodeS src none fuel st (i.natAbs : Int) [] true with
        | .error x => .error x
        | .ok r =>
          let k := if i < 0 then negate r.key else r.key
          .ok ⟨r.st.target.addName q k l, r.st.trans⟩
      | none => .ok st
    else .ok ⟨st.target.addName q n l, st.trans⟩

def breakCyclesS (src : Store) (opts : Opts) (keepNamed : Bool) : Except CErr Store :=
  match (bcLabeled src keepNamed).foldl (bcStep1S src (src.nodes.length + 2)) (.ok ⟨{ opts := opts }, []⟩) with
  | .error x => .error x
  | .ok st1 =>
    match (bcEvs src).foldl (bcStep2S src (src.nodes.length + 2)) (.ok ⟨st1.target, []⟩) with
    | .error x => .error x
    | .ok st2 => .ok st2.target

theorem C09_breakCycles_eq_S (src : Store) (opts : Opts) (keepNamed : Bool) :
    breakCycles src none opts keepNamed = breakCyclesS src opts keepNamed := by
  have h1 : ∀ fuel, bcStep1 src none fuel = bcStep1S src fuel := by
    intro fuel
    funext acc e
    unfold bcStep1 bcStep1S
    simp only [breakNode_eq_S]
    cases acc <;> rfl
  have h2 : ∀ fuel, bcStep2 src none fuel = bcStep2S src fuel := by
    intro fuel
    funext acc e
    unfold bcStep2 bcStep2S
    simp only [breakNode_eq_S]
    cases acc <;> rfl
  rw [breakCycles_eq, h1, h2]
  rfl

-- the run of `break_cycles` on `exReuseQ`: node 7 = `m` built with the reused entry of `n` (node 5); the evidence
-- loop starts from an empty table and builds `m` again (nodes 8, 9) without reuse; the literal `¬m` becomes key `-9`
theorem C09_exReuseQ_run :
    (match breakCycles exReuseQ none {} false with
      | .ok T => some (T.nodes.drop 4, T.names)
      | .error _ => none) =
    some ([.disj [some 1, some 4] (some (.pos 1)), .conj [some 5, some 3] none,
           .disj [some 1, some 6] (some (.pos 2)), .conj [some 4, some 3] none,
           .disj [some 1, some 8] (some (.neg 3))],
          [(.query, .pos 1, some 5), (.query, .pos 2, some 7), (.evNeg, .pos 3, some (-9))]) := by
  rw [C09_breakCycles_eq_S]
  decide

example : SrcOK exReuseQ ∧ Stratified exReuseQ (fun _ => 0) := by decide

-- `C09_breakCycles_correct` applies to it, for every atom assignment
example (α : Nat → Bool) (T' : Store) (h : breakCycles exReuseQ none {} false = .ok T') :
    ∀ l q k, (l, q, k) ∈ T'.names → l ≠ Label.named →
      ∃ n, (l, q, n) ∈ exReuseQ.names ∧ keyBelow T'.nodes.length k ∧
        dagEval T' (pullback exReuseQ T' α) k = lfp (reduct exReuseQ (cutν exReuseQ α)) α n :=
  (C09_breakCycles_correct (lvl := fun _ => 0) (by decide) (by decide) (C09_detOK_no_weights rfl α) h).2.2

end ProbLogProofs.C09
