import ProbLogModel.SemFO
import ProbLogProofs.Lemmas.SemFOGround
import ProbLogProofs.Lemmas.SemFORename
import ProbLogProofs.Lemmas.SemFOPerm
import ProbLogProofs.Lemmas.SemFOVars
import ProbLogProofs.Lemmas.SemFOBody
import ProbLogProofs.Lemmas.SemRules
import ProbLogProofs.Properties.C07
/-!
# C07 (first-order level) — the specification does not depend on the order of the statements

`SemFO.ground` of a program whose statements are permuted is the same ground program up to a permutation of the
rules, a permutation of the choice groups and an injective renaming of the choice ids; together with the
ground-level theorems of `C07.lean` (`C07_perm_clauses_run`, `C07_perm_groups_run`) and the invariance of `Sem.run`
under injective renaming of the choice ids (`C07FO_run_rename_choices`) the specification value `SemFO.run` is
unchanged.
-/
namespace ProbLogProofs.C07FO
open ProbLogModel ProbLogModel.SemFO ProbLogProofs.SemFOGround ProbLogProofs.SemFORename ProbLogProofs.SemFOPerm
open ProbLogProofs.SemFOVars ProbLogProofs.SemFOBody ProbLogProofs.SemRules

/-- `Sem.run` does not depend on the names of the choices: an injective renaming `σ` of the choice ids (in the rules
    and in the groups) that respects the bound `nchoices` leaves every component of the result unchanged. -/
theorem C07FO_run_rename_choices {σ : Nat → Nat} (hinj : Function.Injective σ) (P : Sem.Prog)
    (hb : ∀ c, σ c < P.nchoices ↔ c < P.nchoices) (queries : List Nat) (evidence : List (Nat × Bool)) :
    Sem.run (renProg σ P) queries evidence = Sem.run P queries evidence :=
  run_ren hinj P hb queries evidence

/-- **Permuting the statements**: the Herbrand instantiation changes only by a permutation of the rules, a
    permutation of the groups and an injective renaming `σ` of the choice ids (the atoms, their numbering, the number
    of choices, the queries and the evidence are untouched). -/
theorem C07FO_stmt_perm (P : FOProgram) {stmts' : List Stmt} (h : P.stmts.Perm stmts') :
    ∃ σ : Nat → Nat, Function.Injective σ ∧ (∀ c, σ c < (ground P).nchoices ↔ c < (ground P).nchoices) ∧
      ((ground P).rules.map (renRule σ)).Perm (ground { P with stmts := stmts' }).rules ∧
      ((ground P).groups.map (renGroup σ)).Perm (ground { P with stmts := stmts' }).groups ∧
      (ground { P with stmts := stmts' }).natoms = (ground P).natoms ∧
      (ground { P with stmts := stmts' }).nchoices = (ground P).nchoices ∧
      queryIds { P with stmts := stmts' } = queryIds P ∧ evidenceIds { P with stmts := stmts' } = evidenceIds P := by
  obtain ⟨σ, hinj, hfix, hr, hg⟩ := groundStmts_perm P.consts h 0
  refine ⟨σ, hinj, ?_, ?_, hg, rfl, (totalChoices_perm P.consts h).symm, rfl, rfl⟩
  · refine lt_iff_of_fix hinj (fun c hc => hfix c (Or.inr ?_))
    have : totalChoices P.consts P.stmts ≤ c := hc
    omega
  · have := hr.map (SRule.toRule (atomId P))
    rw [List.map_map] at this
    show (((groundStmts P.consts 0 P.stmts).1.map (SRule.toRule (atomId P))).map (renRule σ)).Perm
      ((groundStmts P.consts 0 stmts').1.map (SRule.toRule (atomId P)))
    rw [List.map_map]
    exact this

/-- **The specification value does not depend on the order of the statements.** -/
theorem C07FO_stmt_perm_run (P : FOProgram) {stmts' : List Stmt} (h : P.stmts.Perm stmts') :
    SemFO.run { P with stmts := stmts' } = SemFO.run P := by
  obtain ⟨σ, hinj, hb, hr, hg, _, hn, hq, he⟩ := C07FO_stmt_perm P h
  unfold SemFO.run
  rw [hq, he]
  have e : ground { P with stmts := stmts' } =
      { { renProg σ (ground P) with rules := (ground { P with stmts := stmts' }).rules } with
        groups := (ground { P with stmts := stmts' }).groups } := by
    show Sem.Prog.mk _ _ _ _ = Sem.Prog.mk _ _ _ _
    congr 1
  rw [e, C07.C07_perm_groups_run _ hg, C07.C07_perm_clauses_run _ hr]
  exact C07FO_run_rename_choices hinj (ground P) hb _ _

/-- **Renaming the variables of one statement** by an injective map leaves the Herbrand instantiation unchanged
    (literally: same rules in the same order, same groups, same choice ids), hence also the specification value. -/
theorem C07FO_var_rename (P : FOProgram) {l₁ l₂ : List Stmt} {s : Stmt} (hs : P.stmts = l₁ ++ s :: l₂)
    {f : String → String} (hf : Function.Injective f) :
    ground { P with stmts := l₁ ++ renStmt f s :: l₂ } = ground P ∧
    SemFO.run { P with stmts := l₁ ++ renStmt f s :: l₂ } = SemFO.run P := by
  have hg : groundStmts P.consts 0 (l₁ ++ renStmt f s :: l₂) = groundStmts P.consts 0 P.stmts := by
    rw [hs]
    exact groundStmts_congr_at P.consts l₁ l₂ s (renStmt f s) (fun c0 => groundStmt_renStmt hf _ c0 s)
      (nchoices_renStmt hf _ s) 0
  have hn : totalChoices P.consts (l₁ ++ renStmt f s :: l₂) = totalChoices P.consts P.stmts := by
    rw [hs, totalChoices_append, totalChoices_append, totalChoices_cons, totalChoices_cons, nchoices_renStmt hf]
  have e : ground { P with stmts := l₁ ++ renStmt f s :: l₂ } = ground P := by
    show (⟨(herbrand P).length, totalChoices P.consts (l₁ ++ renStmt f s :: l₂),
      (groundStmts P.consts 0 (l₁ ++ renStmt f s :: l₂)).1.map (SRule.toRule (atomId P)),
      (groundStmts P.consts 0 (l₁ ++ renStmt f s :: l₂)).2⟩ : Sem.Prog) = _
    rw [hg, hn]
    rfl
  refine ⟨e, ?_⟩
  unfold SemFO.run
  rw [e]
  rfl

/-- **Permuting the literals inside the body of one statement** (constants pairwise distinct): the Herbrand
    instantiation changes only by the order of the atoms inside rule bodies and the order of the rules (`REqv`: the same
    set of rules, each read up to the set of its positive / negative body atoms), a permutation of the groups and an
    injective renaming `σ` of the choice ids (the order of first occurrence of the variables, hence the enumeration order
    of the assignments, may change). -/
theorem C07FO_body_perm (P : FOProgram) (hc : P.consts.Nodup) {l₁ l₂ : List Stmt} {s : Stmt}
    (hs : P.stmts = l₁ ++ s :: l₂) {body' : List Lit} (hb : s.body.Perm body') :
    ∃ σ : Nat → Nat, Function.Injective σ ∧ (∀ c, σ c < (ground P).nchoices ↔ c < (ground P).nchoices) ∧
      REqv ((ground P).rules.map (renRule σ)) (ground { P with stmts := l₁ ++ withBody s body' :: l₂ }).rules ∧
      ((ground P).groups.map (renGroup σ)).Perm (ground { P with stmts := l₁ ++ withBody s body' :: l₂ }).groups ∧
      (ground { P with stmts := l₁ ++ withBody s body' :: l₂ }).natoms = (ground P).natoms ∧
      (ground { P with stmts := l₁ ++ withBody s body' :: l₂ }).nchoices = (ground P).nchoices ∧
      queryIds { P with stmts := l₁ ++ withBody s body' :: l₂ } = queryIds P ∧
      evidenceIds { P with stmts := l₁ ++ withBody s body' :: l₂ } = evidenceIds P := by
  have hb' : s.body.Perm (withBody s body').body := by rw [body_withBody s body' hb]; exact hb
  obtain ⟨hn, σ, hinj, hfix, hr, hg⟩ :=
    groundStmts_body P.consts hc (heads_withBody s body') (isProb_withBody s body') hb' l₁ l₂
  rw [← hs] at hn hfix hr hg
  refine ⟨σ, hinj, lt_iff_of_fix hinj hfix, ?_, hg, rfl, hn, rfl, rfl⟩
  have := (hr.toRule (atomId P))
  rw [List.map_map] at this
  show REqv (((groundStmts P.consts 0 P.stmts).1.map (SRule.toRule (atomId P))).map (renRule σ))
    ((groundStmts P.consts 0 (l₁ ++ withBody s body' :: l₂)).1.map (SRule.toRule (atomId P)))
  rw [List.map_map]
  exact this

/-- **The specification value does not depend on the order of the literals in a body.** -/
theorem C07FO_body_perm_run (P : FOProgram) (hc : P.consts.Nodup) {l₁ l₂ : List Stmt} {s : Stmt}
    (hs : P.stmts = l₁ ++ s :: l₂) {body' : List Lit} (hb : s.body.Perm body') :
    SemFO.run { P with stmts := l₁ ++ withBody s body' :: l₂ } = SemFO.run P := by
  obtain ⟨σ, hinj, hbd, hr, hg, _, hn, hq, he⟩ := C07FO_body_perm P hc hs hb
  unfold SemFO.run
  rw [hq, he]
  have e : ground { P with stmts := l₁ ++ withBody s body' :: l₂ } =
      { { renProg σ (ground P) with rules := (ground { P with stmts := l₁ ++ withBody s body' :: l₂ }).rules } with
        groups := (ground { P with stmts := l₁ ++ withBody s body' :: l₂ }).groups } := by
    show Sem.Prog.mk _ _ _ _ = Sem.Prog.mk _ _ _ _
    congr 1
  rw [e, C07.C07_perm_groups_run _ hg, run_congr_rules (renProg σ (ground P)) hr]
  exact C07FO_run_rename_choices hinj (ground P) hbd _ _

/-! ### non-vacuity -/

def exP : FOProgram :=
  { consts := ["a", "b"]
    preds := [("f", 1), ("p", 1), ("q", 0)]
    stmts := [.pf (3/10) ⟨"f", [.const "a"]⟩,
              .prule (1/2) ⟨"p", [.var "X"]⟩ [.pos ⟨"f", [.var "X"]⟩],
              .rule ⟨"q", []⟩ [.or ⟨"p", [.var "Y"]⟩ ⟨"f", [.var "Y"]⟩, .neg ⟨"p", [.const "b"]⟩]]
    queries := [⟨"p", [.var "_"]⟩, ⟨"q", []⟩]
    evidence := [(⟨"f", [.const "a"]⟩, true)] }

def exStmts' : List Stmt :=
  [.prule (1/2) ⟨"p", [.var "X"]⟩ [.pos ⟨"f", [.var "X"]⟩],
   .rule ⟨"q", []⟩ [.or ⟨"p", [.var "Y"]⟩ ⟨"f", [.var "Y"]⟩, .neg ⟨"p", [.const "b"]⟩],
   .pf (3/10) ⟨"f", [.const "a"]⟩]

example : exP.stmts.Perm exStmts' :=
  (List.perm_append_comm (l₁ := [exP.stmts[0]]) (l₂ := [exP.stmts[1], exP.stmts[2]]))
-- the choice ids really are renamed: the fact has id 0 in `exP` and id 2 after the permutation
example : (ground exP).rules.map (·.choice) = [some 0, some 1, some 2, none, none, none, none] ∧
    (ground { exP with stmts := exStmts' }).rules.map (·.choice) = [some 0, some 1, none, none, none, none, some 2] := by
  decide
example : (SemFO.run exP).num = [3/20, 0, 3/10] ∧ (SemFO.run { exP with stmts := exStmts' }).num = [3/20, 0, 3/10] := by
  decide +kernel
-- a renaming as in `C07FO_run_rename_choices`
example : Function.Injective (swapBlocks 0 1 2) ∧ ∀ c, swapBlocks 0 1 2 c < 3 ↔ c < 3 :=
  ⟨swapBlocks_inj 0 1 2, fun c => by unfold swapBlocks; split_ifs <;> omega⟩

/-- exchange the variable names `X` and `Y` -/
def swapXY (v : String) : String := if v = "X" then "Y" else if v = "Y" then "X" else v

theorem swapXY_inj : Function.Injective swapXY := by
  intro a b h
  unfold swapXY at h
  split_ifs at h <;> simp_all

example : exP.stmts = [exP.stmts[0]] ++ exP.stmts[1] :: [exP.stmts[2]] := rfl
example : renStmt swapXY (.prule (1/2) ⟨"p", [.var "X"]⟩ [.pos ⟨"f", [.var "X"]⟩]) =
    .prule (1/2) ⟨"p", [.var "Y"]⟩ [.pos ⟨"f", [.var "Y"]⟩] := rfl

-- body permutation: `q :- \+p(b), (p(Y) ; f(Y)).`
def exBody' : List Lit := [.neg ⟨"p", [.const "b"]⟩, .or ⟨"p", [.var "Y"]⟩ ⟨"f", [.var "Y"]⟩]
example : exP.consts.Nodup := by decide
example : exP.stmts = [exP.stmts[0], exP.stmts[1]] ++ exP.stmts[2] :: [] := rfl
example : (exP.stmts[2]).body.Perm exBody' := List.Perm.swap _ _ _
example : withBody (exP.stmts[2]) exBody' = .rule ⟨"q", []⟩ exBody' := rfl
example : (SemFO.run { exP with stmts := [exP.stmts[0], exP.stmts[1]] ++ withBody (exP.stmts[2]) exBody' :: [] }).num =
    [3/20, 0, 3/10] := by decide +kernel

end ProbLogProofs.C07FO
