import ProbLogModel.SemFO
import ProbLogProofs.Lemmas.SemFOGround
import ProbLogProofs.Lemmas.SemFORename
import ProbLogProofs.Lemmas.SemFOPerm
import ProbLogProofs.Lemmas.SemFOVars
import ProbLogProofs.Properties.C07
/-!
# C07 (first-order level) — the specification does not depend on the order of the statements

`SemFO.ground` of a program whose statements are permuted is the same ground program up to a permutation of the
rules, a permutation of the choice groups and an injective renaming of the choice ids; together with the
ground-level theorems of `C07.lean` (`C07_perm_clauses_run`, `C07_perm_groups_run`) and the invariance of `Sem.run`
under injective renaming of the choice ids (`C07FO_run_rename_choices`) the specification value `SemFO.run` is
unchanged.
-/
namespace ProbLogProofs.C07FO
open ProbLogModel ProbLogModel.SemFO ProbLogProofs.SemFOGround ProbLogProofs.SemFORename ProbLogProofs.SemFOPerm
open ProbLogProofs.SemFOVars

/-- `Sem.run` does not depend on the names of the choices: an injective renaming `σ` of the choice ids (in the rules
    and in the groups) that respects the bound `nchoices` leaves every component of the result unchanged. -/
theorem C07FO_run_rename_choices {σ : Nat → Nat} (hinj : Function.Injective σ) (P : Sem.Prog)
    (hb : ∀ c, σ c < P.nchoices ↔ c < P.nchoices) (queries : List Nat) (evidence : List (Nat × Bool)) :
    Sem.run (renProg σ P) queries evidence = Sem.run P queries evidence :=
  run_ren hinj P hb queries evidence

/-- **Permuting the statements**: the Herbrand instantiation changes only by a permutation of the rules, a
    permutation of the groups and an injective renaming `σ` of the choice ids (the atoms, their numbering, the number
    of choices, the queries and the evidence are untouched). -/
theorem C07FO_stmt_perm (P : FOProgram) {stmts' : List Stmt} (h : P.stmts.Perm stmts') :
    ∃ σ : Nat → Nat, Function.Injective σ ∧ (∀ c, σ c < (ground P).nchoices ↔ c < (ground P).nchoices) ∧
      ((ground P).rules.map (renRule σ)).Perm (ground { P with stmts := stmts' }).rules ∧
      ((ground P).groups.map (renGroup σ)).Perm (ground { P with stmts := stmts' }).groups ∧
      (ground { P with stmts := stmts' }).natoms = (ground P).natoms ∧
      (ground { P with stmts := stmts' }).nchoices = (ground P).nchoices ∧
      queryIds { P with stmts := stmts' } = queryIds P ∧ evidenceIds { P with stmts := stmts' } = evidenceIds P := by
  obtain ⟨σ, hinj, hfix, hr, hg⟩ := groundStmts_perm P.consts h 0
  refine ⟨σ, hinj, ?_, ?_, hg, rfl, (totalChoices_perm P.consts h).symm, rfl, rfl⟩
  · refine lt_iff_of_fix hinj (fun c hc => hfix c (Or.inr ?_))
    have : totalChoices P.consts P.stmts ≤ c := hc
    omega
  · have := hr.map (SRule.toRule (atomId P))
    rw [List.map_map] at this
    show (((groundStmts P.consts 0 P.stmts).1.map (SRule.toRule (atomId P))).map (renRule σ)).Perm
      ((groundStmts P.consts 0 stmts').1.map (SRule.toRule (atomId P)))
    rw [List.map_map]
    exact this

/-- **The specification value does not depend on the order of the statements.** -/
theorem C07FO_stmt_perm_run (P : FOProgram) {stmts' : List Stmt} (h : P.stmts.Perm stmts') :
    SemFO.run { P with stmts := stmts' } = SemFO.run P := by
  obtain ⟨σ, hinj, hb, hr, hg, _, hn, hq, he⟩ := C07FO_stmt_perm P h
  unfold SemFO.run
  rw [hq, he]
  have e : ground { P with stmts := stmts' } =
      { { renProg σ (ground P) with rules := (ground { P with stmts := stmts' }).rules } with
        groups := (ground { P with stmts := stmts' }).groups } := by
    show Sem.Prog.mk _ _ _ _ = Sem.Prog.mk _ _ _ _
    congr 1
  rw [e, C07.C07_perm_groups_run _ hg, C07.C07_perm_clauses_run _ hr]
  exact C07FO_run_rename_choices hinj (ground P) hb _ _

/-- **Renaming the variables of one statement** by an injective map leaves the Herbrand instantiation unchanged
    (literally: same rules in the same order, same groups, same choice ids), hence also the specification value. -/
theorem C07FO_var_rename (P : FOProgram) {l₁ l₂ : List Stmt} {s : Stmt} (hs : P.stmts = l₁ ++ s :: l₂)
    {f : String → String} (hf : Function.Injective f) :
    ground { P with stmts := l₁ ++ renStmt f s :: l₂ } = ground P ∧
    SemFO.run { P with stmts := l₁ ++ renStmt f s :: l₂ } = SemFO.run P := by
  have hg : groundStmts P.consts 0 (l₁ ++ renStmt f s :: l₂) = groundStmts P.consts 0 P.stmts := by
    rw [hs]
    exact groundStmts_congr_at P.consts l₁ l₂ s (renStmt f s) (fun c0 => groundStmt_renStmt hf _ c0 s)
      (nchoices_renStmt hf _ s) 0
  have hn : totalChoices P.consts (l₁ ++ renStmt f s :: l₂) = totalChoices P.consts P.stmts := by
    rw [hs, totalChoices_append, totalChoices_append, totalChoices_cons, totalChoices_cons, nchoices_renStmt hf]
  have e : ground { P with stmts := l₁ ++ renStmt f s :: l₂ } = ground P := by
    show (⟨(herbrand P).length, totalChoices P.consts (l₁ ++ renStmt f s :: l₂),
      (groundStmts P.consts 0 (l₁ ++ renStmt f s :: l₂)).1.map (SRule.toRule (atomId P)),
      (groundStmts P.consts 0 (l₁ ++ renStmt f s :: l₂)).2⟩ : Sem.Prog) = _
    rw [hg, hn]
    rfl
  refine ⟨e, ?_⟩
  unfold SemFO.run
  rw [e]
  rfl

/-! ### non-vacuity -/

def exP : FOProgram :=
  { consts := ["a", "b"]
    preds := [("f", 1), ("p", 1), ("q", 0)]
    stmts := [.pf (3/10) ⟨"f", [.const "a"]⟩,
              .prule (1/2) ⟨"p", [.var "X"]⟩ [.pos ⟨"f", [.var "X"]⟩],
              .rule ⟨"q", []⟩ [.or ⟨"p", [.var "Y"]⟩ ⟨"f", [.var "Y"]⟩, .neg ⟨"p", [.const "b"]⟩]]
    queries := [⟨"p", [.var "_"]⟩, ⟨"q", []⟩]
    evidence := [(⟨"f", [.const "a"]⟩, true)] }

def exStmts' : List Stmt :=
  [.prule (1/2) ⟨"p", [.var "X"]⟩ [.pos ⟨"f", [.var "X"]⟩],
   .rule ⟨"q", []⟩ [.or ⟨"p", [.var "Y"]⟩ ⟨"f", [.var "Y"]⟩, .neg ⟨"p", [.const "b"]⟩],
   .pf (3/10) ⟨"f", [.const "a"]⟩]

example : exP.stmts.Perm exStmts' :=
  (List.perm_append_comm (l₁ := [exP.stmts[0]]) (l₂ := [exP.stmts[1], exP.stmts[2]]))
-- the choice ids really are renamed: the fact has id 0 in `exP` and id 2 after the permutation
example : (ground exP).rules.map (·.choice) = [some 0, some 1, some 2, none, none, none, none] ∧
    (ground { exP with stmts := exStmts' }).rules.map (·.choice) = [some 0, some 1, none, none, none, none, some 2] := by
  decide
example : (SemFO.run exP).num = [3/20, 0, 3/10] ∧ (SemFO.run { exP with stmts := exStmts' }).num = [3/20, 0, 3/10] := by
  decide +kernel
-- a renaming as in `C07FO_run_rename_choices`
example : Function.Injective (swapBlocks 0 1 2) ∧ ∀ c, swapBlocks 0 1 2 c < 3 ↔ c < 3 :=
  ⟨swapBlocks_inj 0 1 2, fun c => by unfold swapBlocks; split_ifs <;> omega⟩

/-- exchange the variable names `X` and `Y` -/
def swapXY (v : String) : String := if v = "X" then "Y" else if v = "Y" then "X" else v

theorem swapXY_inj : Function.Injective swapXY := by
  intro a b h
  unfold swapXY at h
  split_ifs at h <;> simp_all

example : exP.stmts = [exP.stmts[0]] ++ exP.stmts[1] :: [exP.stmts[2]] := rfl
example : renStmt swapXY (.prule (1/2) ⟨"p", [.var "X"]⟩ [.pos ⟨"f", [.var "X"]⟩]) =
    .prule (1/2) ⟨"p", [.var "Y"]⟩ [.pos ⟨"f", [.var "Y"]⟩] := rfl

end ProbLogProofs.C07FO
