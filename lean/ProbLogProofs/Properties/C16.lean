import ProbLogModel.Generated.ArithTable
import ProbLogModel.IsoArith
import ProbLogModel.Builtins
import ProbLogProofs.Lemmas.Arith
import ProbLogProofs.Lemmas.BuiltinsC16
/-!
# C16 — arithmetic and term-inspection builtins match Yap/SWI semantics (property theorems only)

`py_<name>_<arity>` are the definitions **generated** from `problog/logic.py: _arithmetic_functions`
(`ProbLogModel/Generated/ArithTable.lean`, regenerated on every run); `Iso.*` is the specification written from
ISO 13211-1 / SWI-7 / YAP-6 (`ProbLogModel/IsoArith.lean`).
-/
namespace ProbLogProofs.C16
open ProbLogModel ProbLogModel.PyNum ProbLogModel.Generated.ArithTable ProbLogProofs.ArithLemmas

/-- Spec results as Python results: `none` (evaluation_error(zero_divisor)) ↦ ZeroDivisionError, which
    `compute_function` reports as ArithmeticError (`mappedErrors`). -/
def ofOpt : Option Int → PyRes
  | some v => .ok (.int v)
  | none => .error .zeroDivision

/-! ## division family -/

/-- `//` truncates toward zero (ISO `toward_zero`, SWI, YAP), for **all** integers, zero divisor included. -/
theorem C16_intdiv (a b : Int) : py_intdiv_2 (.int a) (.int b) = ofOpt (Iso.intdiv a b) := by
  unfold py_intdiv_2 Iso.intdiv Iso.truncDiv
  by_cases hb : b = 0
  · subst hb; simp [PyNum.lt, PyNum.neg, PyNum.floordiv, ofOpt, bind, Except.bind]
  · simp only [PyNum.lt, PyNum.neg, PyNum.floordiv, hb, if_false, ofOpt, bind, Except.bind]
    have := tdiv_of_fdiv a b hb
    split at this <;> simp_all

/-- Error mapping: a zero divisor is ZeroDivisionError for every integer division functor, and that class is one
    `compute_function` turns into ArithmeticError. -/
theorem C16_intdiv_error (a : Int) :
    py_intdiv_2 (.int a) (.int 0) = .error .zeroDivision ∧ py_div_2 (.int a) (.int 0) = .error .zeroDivision ∧
    py_mod_2 (.int a) (.int 0) = .error .zeroDivision ∧ py_rem_2 (.int a) (.int 0) = .error .zeroDivision ∧
    py_slash_2 (.int a) (.int 0) = .error .zeroDivision ∧ "ZeroDivisionError" ∈ mappedErrors := by
  refine ⟨?_, ?_, ?_, ?_, ?_, by decide⟩
  · have := C16_intdiv a 0; simpa [Iso.intdiv, ofOpt] using this
  · simp [py_div_2, PyNum.mod, bind, Except.bind]
  · simp [py_mod_2, PyNum.mod]
  · simp [py_rem_2, PyNum.mod]
  · simp [py_slash_2, PyNum.truediv, PyNum.toRat]

/-- `div` floors. -/
theorem C16_div (a b : Int) : py_div_2 (.int a) (.int b) = ofOpt (Iso.div a b) := by
  unfold py_div_2 Iso.div Iso.floorDiv
  by_cases hb : b = 0
  · subst hb; simp [PyNum.mod, ofOpt, bind, Except.bind]
  · simp [PyNum.mod, PyNum.sub, PyNum.floordiv, hb, ofOpt, bind, Except.bind, fdiv_sub_fmod a b hb]

/-- `mod`: `x − ⌊x/y⌋·y`. -/
theorem C16_mod (a b : Int) : py_mod_2 (.int a) (.int b) = ofOpt (Iso.mod a b) := by
  unfold py_mod_2 Iso.mod Iso.floorDiv
  by_cases hb : b = 0
  · subst hb; simp [PyNum.mod, ofOpt]
  · simp only [PyNum.mod, hb, if_false, ofOpt]
    have := Int.fmod_def a b
    have h2 : b * a.fdiv b = a.fdiv b * b := Int.mul_comm _ _
    congr 2; omega

/-- … and the result of `mod` has the sign of the divisor. -/
theorem C16_mod_sign (a b r : Int) (h : py_mod_2 (.int a) (.int b) = .ok (.int r)) :
    (0 < b → 0 ≤ r ∧ r < b) ∧ (b < 0 → b < r ∧ r ≤ 0) := by
  unfold py_mod_2 at h
  by_cases hb : b = 0
  · subst hb; simp [PyNum.mod] at h
  · simp only [PyNum.mod, hb, if_false] at h
    injection h with h; injection h with h; subst h
    rw [Int.fmod_eq_emod]
    constructor
    · intro hp
      have h1 := Int.emod_nonneg a hb
      have h2 := Int.emod_lt_of_pos a hp
      have : 0 ≤ b := Int.le_of_lt hp
      simp [this]; omega
    · intro hn
      have h1 := Int.emod_nonneg a hb
      have h2 : a % b < -b := by
        have := Int.emod_lt_of_pos a (show 0 < -b by omega)
        rwa [Int.emod_neg] at this
      by_cases hd : b ∣ a
      · have : a % b = 0 := Int.emod_eq_zero_of_dvd hd
        simp [hd]; omega
      · have h3 : ¬ (0 ≤ b) := by omega
        have h4 : a % b ≠ 0 := fun e => hd (Int.dvd_of_emod_eq_zero e)
        simp [hd, h3]; omega

/-- Documented deviation (docs/source/prolog.rst: "`X rem Y` (currently same as mod)"): accepted. -/
theorem C16_rem_is_mod (a b : PyNum) : py_rem_2 a b = py_mod_2 a b := rfl

/-- ISO `rem` (sign of the dividend) is *not* what the code computes … -/
theorem C16_rem_refuted : py_rem_2 (.int 5) (.int (-3)) = .ok (.int (-1)) ∧ Iso.rem 5 (-3) = some 2 := by
  constructor
  · rfl
  · decide

/-- … but the two agree exactly when the division is exact or the operands have the same sign. -/
theorem C16_rem_guarded (a b : Int) (hb : b ≠ 0) :
    py_rem_2 (.int a) (.int b) = ofOpt (Iso.rem a b) ↔ (b ∣ a ∨ (0 ≤ a ∧ 0 < b) ∨ (a ≤ 0 ∧ b < 0)) := by
  unfold py_rem_2 Iso.rem Iso.truncDiv
  simp only [PyNum.mod, hb, if_false, ofOpt]
  have h1 := Int.fmod_def a b
  have h2 := Int.fdiv_eq_tdiv (a := a) (b := b)
  have hc : a.tdiv b * b = b * a.tdiv b := Int.mul_comm _ _
  constructor
  · intro h
    injection h with h; injection h with h
    by_cases hd : b ∣ a
    · exact Or.inl hd
    · right
      rw [if_neg hd] at h2
      have hmul : b * a.fdiv b = b * a.tdiv b := by omega
      have heq : a.fdiv b = a.tdiv b := Int.eq_of_mul_eq_mul_left hb hmul
      rw [heq] at h2
      by_cases ha : 0 ≤ a <;> by_cases hb' : 0 ≤ b <;> simp only [ha, hb', if_true, if_false] at h2
      · left; omega
      · omega
      · have := Int.sign_eq_one_of_pos (show 0 < b by omega); omega
      · right; constructor <;> omega
  · intro h
    have heq : a.fdiv b = a.tdiv b := by
      rcases h with hd | ⟨ha, hb'⟩ | ⟨ha, hb'⟩
      · rw [h2, if_pos hd]; omega
      · exact fdiv_same_sign a b (Or.inr ⟨ha, hb'⟩)
      · by_cases h0 : a = 0
        · subst h0; simp
        · exact fdiv_same_sign a b (Or.inl ⟨by omega, hb'⟩)
    rw [h1, heq]
    congr 2; omega

/-- `/` on integers: the float quotient (ISO, YAP, SWI with iso=true) … -/
theorem C16_slash_int (a b : Int) :
    py_slash_2 (.int a) (.int b) = (match Iso.divFloat a b with | some q => .ok (.flt q) | none => .error .zeroDivision) := by
  unfold py_slash_2 Iso.divFloat PyNum.truediv
  by_cases hb : b = 0
  · subst hb; simp [PyNum.toRat]
  · have : ((b : Int) : Rat) ≠ 0 := by exact_mod_cast hb
    simp [PyNum.toRat, hb, this]

/-- … which, when the division is exact, denotes the same number as SWI's default (iso=false) integer result;
    only the type differs (the property accepts either reading). -/
theorem C16_slash_int_exact (a b : Int) (hb : b ≠ 0) (hd : a % b = 0) :
    ∃ q, py_slash_2 (.int a) (.int b) = .ok (.flt q) ∧ Iso.divSwi a b = some (.inl (a / b)) ∧ q = ((a / b : Int) : Rat) := by
  refine ⟨(a : Rat) / (b : Rat), ?_, ?_, ?_⟩
  · have : ((b : Int) : Rat) ≠ 0 := by exact_mod_cast hb
    simp [py_slash_2, PyNum.truediv, PyNum.toRat, this]
  · simp [Iso.divSwi, hb, hd]
  · have hb' : ((b : Int) : Rat) ≠ 0 := by exact_mod_cast hb
    have hm : a = b * (a / b) := by
      have := Int.mul_ediv_add_emod a b; omega
    have : (a : Rat) = (b : Rat) * ((a / b : Int) : Rat) := by exact_mod_cast hm
    rw [this, Rat.mul_comm, Rat.mul_div_cancel hb']

/-- The type *does* differ from SWI's default: `4 / 2` is the float 2.0 here, the integer 2 there. -/
theorem C16_slash_int_not_swi :
    (∃ q, py_slash_2 (.int 4) (.int 2) = .ok (.flt q)) ∧ Iso.divSwi 4 2 = some (.inl 2) := by
  constructor
  · exact ⟨_, (C16_slash_int_exact 4 2 (by decide) (by decide)).choose_spec.1⟩
  · decide

/-! ## ring operations, sign, abs, min, max -/
theorem C16_plus (a b : Int) : py_plus_2 (.int a) (.int b) = .ok (.int (Iso.add a b)) := rfl
theorem C16_minus (a b : Int) : py_minus_2 (.int a) (.int b) = .ok (.int (Iso.sub a b)) := rfl
theorem C16_times (a b : Int) : py_times_2 (.int a) (.int b) = .ok (.int (Iso.mul a b)) := rfl
theorem C16_neg (a : Int) : py_minus_1 (.int a) = .ok (.int (Iso.neg a)) ∧ py_plus_1 (.int a) = .ok (.int a) := ⟨rfl, rfl⟩

theorem C16_abs (a : Int) : py_abs_1 (.int a) = .ok (.int (Iso.abs a)) := by
  simp only [py_abs_1, PyNum.abs, Iso.abs]
  congr 2; split <;> omega

theorem C16_sign (a : Int) : py_sign_1 (.int a) = .ok (.int (Iso.sign a)) := by
  unfold py_sign_1 Iso.sign
  rcases Int.lt_trichotomy a 0 with h | h | h
  · have h1 : ¬ (0 < a) := by omega
    simp [PyNum.gt, PyNum.lt, PyNum.castLike, PyNum.toInt, bind, Except.bind, pure, Except.pure, h, h1, Int.sign_eq_neg_one_of_neg h]
  · subst h; simp [PyNum.gt, PyNum.lt, PyNum.castLike, PyNum.toInt, bind, Except.bind, pure, Except.pure]
  · have h1 : ¬ (a < 0) := by omega
    simp [PyNum.gt, PyNum.lt, PyNum.castLike, PyNum.toInt, bind, Except.bind, pure, Except.pure, h, Int.sign_eq_one_of_pos h]

theorem C16_min (a b : Int) : py_min_2 (.int a) (.int b) = .ok (.int (Iso.min a b)) := by
  simp only [py_min_2, PyNum.min, PyNum.lt, Iso.min]
  by_cases h : b < a
  · have : ¬ a ≤ b := by omega
    simp [h, this]
  · have : a ≤ b := by omega
    simp [h, this]

theorem C16_max (a b : Int) : py_max_2 (.int a) (.int b) = .ok (.int (Iso.max a b)) := by
  simp only [py_max_2, PyNum.max, PyNum.gt, PyNum.lt, Iso.max]
  by_cases h : a < b
  · have : a ≤ b := by omega
    simp [h, this]
  · by_cases e : a = b
    · subst e; simp
    · have : ¬ a ≤ b := by omega
      simp [h, this]

/-! ## shifts, complement, powers -/
/-- `>>` is the arithmetic shift `⌊a / 2^n⌋` for every non-negative count (negative counts: ValueError →
    ArithmeticError; unspecified in the standard). -/
theorem C16_shr (a : Int) (n : Nat) : py_shr_2 (.int a) (.int n) = .ok (.int (Iso.shr a n)) := by
  have h : ¬ ((n : Int) < 0) := by omega
  simp only [py_shr_2, PyNum.shr, h, if_false, Iso.shr, Iso.floorDiv, Int.toNat_natCast]
  rw [Int.shiftRight_eq_div_pow, Int.fdiv_eq_ediv_of_nonneg]
  · simp
  · exact Int.le_of_lt (Int.pow_pos (by decide))

theorem C16_shl (a : Int) (n : Nat) : py_shl_2 (.int a) (.int n) = .ok (.int (Iso.shl a n)) := by
  have h : ¬ ((n : Int) < 0) := by omega
  simp [py_shl_2, PyNum.shl, h, Iso.shl]

theorem C16_bitnot (a : Int) : py_bitnot_1 (.int a) = .ok (.int (Iso.bitnot a)) := rfl

/-- `**` and `^` on integers with a non-negative exponent: the integer power (ISO `^`, SWI-7 `**`). -/
theorem C16_caret (a : Int) (n : Nat) : py_caret_2 (.int a) (.int n) = .ok (.int (Iso.pow a n)) := by
  have h : (0 : Int) ≤ n := by omega
  simp [py_caret_2, PyNum.pow, h, Iso.pow]
theorem C16_pow (a : Int) (n : Nat) : py_starstar_2 (.int a) (.int n) = .ok (.int (Iso.pow a n)) := by
  have h : (0 : Int) ≤ n := by omega
  simp [py_starstar_2, PyNum.pow, h, Iso.pow]

/-- `integer truncate floor ceiling round` are the identity on integers. -/
theorem C16_int_roundings_id (a : Int) :
    py_integer_1 (.int a) = .ok (.int a) ∧ py_truncate_1 (.int a) = .ok (.int a) ∧ py_floor_1 (.int a) = .ok (.int a) ∧
    py_ceiling_1 (.int a) = .ok (.int a) ∧ py_round_1 (.int a) = .ok (.int a) := ⟨rfl, rfl, rfl, rfl, rfl⟩

/-- `#` and `><` are `xor` (YAP). -/
theorem C16_xor_aliases (a b : PyNum) : py_hash_2 a b = py_xor_2 a b ∧ py_gtlt_2 a b = py_xor_2 a b := ⟨rfl, rfl⟩

/-! ## bit operations: two's complement of unbounded width (SWI, YAP), characterised bit by bit -/
theorem C16_bitand (a b : Int) :
    ∃ r, py_bitand_2 (.int a) (.int b) = .ok (.int r) ∧ ∀ i, Iso.bit r i = (Iso.bit a i && Iso.bit b i) :=
  ⟨_, rfl, bit_land a b⟩
theorem C16_bitor (a b : Int) :
    ∃ r, py_bitor_2 (.int a) (.int b) = .ok (.int r) ∧ ∀ i, Iso.bit r i = (Iso.bit a i || Iso.bit b i) :=
  ⟨_, rfl, bit_lor a b⟩
theorem C16_xor (a b : Int) :
    ∃ r, py_xor_2 (.int a) (.int b) = .ok (.int r) ∧ ∀ i, Iso.bit r i = (Iso.bit a i ^^ Iso.bit b i) :=
  ⟨_, rfl, bit_xor a b⟩
/-- non-vacuity / sanity of `Iso.bit`: −3 = …11101₂ -/
example : (List.range 4).map (Iso.bit (-3)) = [true, false, true, true] := by decide

/-! ## float arguments (floats = exact rationals, see PyNum.lean) -/
/-- `sign/1` keeps the float type. -/
theorem C16_sign_float (q : Rat) : py_sign_1 (.flt q) = .ok (.flt (Iso.signF q)) := by
  unfold py_sign_1 Iso.signF
  by_cases h1 : 0 < q
  · simp [PyNum.gt, PyNum.lt, PyNum.toRat, PyNum.castLike, PyNum.toFloat, bind, Except.bind, pure, Except.pure, h1]
  · by_cases h2 : q < 0
    · simp [PyNum.gt, PyNum.lt, PyNum.toRat, PyNum.castLike, PyNum.toFloat, bind, Except.bind, pure, Except.pure, h1, h2]
    · simp [PyNum.gt, PyNum.lt, PyNum.toRat, PyNum.castLike, PyNum.toFloat, bind, Except.bind, pure, Except.pure, h1, h2]

theorem C16_floor_float (q : Rat) : py_floor_1 (.flt q) = .ok (.int (Iso.floor q)) := rfl
theorem C16_ceiling_float (q : Rat) : py_ceiling_1 (.flt q) = .ok (.int (Iso.ceiling q)) := rfl
/-- YAP reading of `round/1` (C `rint`: halves to even); SWI rounds halves away from zero — either is accepted. -/
theorem C16_round_float_yap (q : Rat) : py_round_1 (.flt q) = .ok (.int (Iso.roundEven q)) := rfl
/-- `truncate/1` on a float: toward zero. -/
theorem C16_truncate_float (q : Rat) : py_truncate_1 (.flt q) = .ok (.int (Iso.truncate q)) := by
  simp [py_truncate_1, PyNum.trunc, PyNum.toInt, bind, Except.bind, ratTrunc_eq]
/-- YAP reading of `integer/1` ("the integer between X and 0 closest to X"); SWI rounds to nearest — either is accepted. -/
theorem C16_integer_float_yap (q : Rat) : py_integer_1 (.flt q) = .ok (.int (Iso.truncate q)) := by
  simp [py_integer_1, PyNum.toInt, ratTrunc_eq]
/-- `float_integer_part/1` is a float. -/
theorem C16_float_integer_part (q : Rat) : py_float_integer_part_1 (.flt q) = .ok (.flt (Iso.floatIntegerPart q)) := by
  simp [py_float_integer_part_1, PyNum.toInt, PyNum.toFloat, PyNum.toRat, bind, Except.bind, ratTrunc_eq, Iso.floatIntegerPart]

open ProbLogModel.Builtins ProbLogProofs.BuiltinLemmas


/-! ## builtins: the model's solution list is the Prolog solution list -/

/-- `between(+L, +H, -X)`: exactly the integers `L ≤ k ≤ H`, in ascending order, each once. -/
theorem C16_between_enum (l h v : Int) :
    ∃ ks : List Int, between (.int l) (.int h) (.var v) = .ok (ks.map fun k => [.int l, .int h, .int k]) ∧
      (∀ k, k ∈ ks ↔ l ≤ k ∧ k ≤ h) ∧ ks.Pairwise (· < ·) := by
  refine ⟨(List.range (h + 1 - l).toNat).map (fun (k : Nat) => l + (k : Int)), ?_, ?_, ?_⟩
  · have hm : checkMode [Tm.int l, Tm.int h, Tm.var v] (modesOf "between") 0 = .ok 1 := rfl
    simp [between, hm, bind, Except.bind, pure, Except.pure, intVal, List.map_map, Function.comp_def]
  · intro k
    simp only [List.mem_map, List.mem_range]
    constructor
    · rintro ⟨j, hj, rfl⟩; omega
    · intro ⟨h1, h2⟩; exact ⟨(k - l).toNat, by omega, by omega⟩
  · rw [List.pairwise_map]
    exact List.Pairwise.imp (by intro a b hab; omega) List.pairwise_lt_range

/-- `between(+L, +H, +X)` succeeds (once) iff `L ≤ X ≤ H`. -/
theorem C16_between_check (l h x : Int) :
    between (.int l) (.int h) (.int x) = .ok (if l ≤ x ∧ x ≤ h then [[.int l, .int h, .int x]] else []) := by
  have hm : checkMode [Tm.int l, Tm.int h, Tm.int x] (modesOf "between") 0 = .ok 0 := rfl
  by_cases h1 : l ≤ x <;> by_cases h2 : x ≤ h <;>
    simp [between, hm, bind, Except.bind, pure, Except.pure, intVal, h1, h2]

/-- `succ/2` on natural numbers: the solutions are exactly the pairs with `0 ≤ a ∧ b = a + 1` (three modes). -/
theorem C16_succ (a b v : Int) :
    succ (.var v) (.int b) = .ok (if 0 < b then [[.int (b - 1), .int b]] else []) ∧
    succ (.int a) (.var v) = .ok (if 0 ≤ a then [[.int a, .int (a + 1)]] else []) ∧
    succ (.int a) (.int b) = .ok (if 0 ≤ a ∧ b = a + 1 then [[.int a, .int b]] else []) := by
  have h0 : checkMode [Tm.var v, Tm.int b] (modesOf "succ") 0 = .ok 0 := rfl
  have h1 : checkMode [Tm.int a, Tm.var v] (modesOf "succ") 0 = .ok 1 := rfl
  have h2 : checkMode [Tm.int a, Tm.int b] (modesOf "succ") 0 = .ok 2 := rfl
  refine ⟨?_, ?_, ?_⟩
  · by_cases c : 0 < b
    · have : ¬ b ≤ 0 := by omega
      simp [succ, h0, bind, Except.bind, pure, Except.pure, intVal, c, this]
    · have : b ≤ 0 := by omega
      simp [succ, h0, bind, Except.bind, pure, Except.pure, intVal, c, this]
  · by_cases c : 0 ≤ a
    · have : ¬ a < 0 := by omega
      simp [succ, h1, bind, Except.bind, pure, Except.pure, intVal, c, this]
    · have : a < 0 := by omega
      simp [succ, h1, bind, Except.bind, pure, Except.pure, intVal, c, this]
  · simp only [succ, h2, bind, Except.bind]
    by_cases c1 : 0 ≤ a <;> by_cases c2 : b = a + 1 <;> simp [pure, Except.pure, intVal, c1, c2]

/-- `plus/3`: in each mode the unique solution of `a + b = c` (or the check). -/
theorem C16_plus3 (a b c v : Int) :
    plus (.int a) (.int b) (.int c) = .ok (if a + b = c then [[.int a, .int b, .int c]] else []) ∧
    plus (.int a) (.int b) (.var v) = .ok [[.int a, .int b, .int (a + b)]] ∧
    plus (.int a) (.var v) (.int c) = .ok [[.int a, .int (c - a), .int c]] ∧
    plus (.var v) (.int b) (.int c) = .ok [[.int (c - b), .int b, .int c]] := by
  have h0 : checkMode [Tm.int a, Tm.int b, Tm.int c] (modesOf "plus") 0 = .ok 0 := rfl
  have h1 : checkMode [Tm.int a, Tm.int b, Tm.var v] (modesOf "plus") 0 = .ok 1 := rfl
  have h2 : checkMode [Tm.int a, Tm.var v, Tm.int c] (modesOf "plus") 0 = .ok 2 := rfl
  have h3 : checkMode [Tm.var v, Tm.int b, Tm.int c] (modesOf "plus") 0 = .ok 3 := rfl
  refine ⟨?_, ?_, ?_, ?_⟩
  · by_cases e : a + b = c <;> simp [plus, h0, bind, Except.bind, pure, Except.pure, intVal, e]
  · simp [plus, h1, bind, Except.bind, pure, Except.pure, intVal]
  · simp [plus, h2, bind, Except.bind, pure, Except.pure, intVal]
  · simp [plus, h3, bind, Except.bind, pure, Except.pure, intVal]
/-- `length(+ProperList, -N)`: N is the number of elements. -/
theorem C16_length_fixed (xs : List Tm) (v mv : Int) :
    length (mkList xs nil) (.var v) mv = .ok [[mkList xs nil, .int xs.length]] := by
  have hm : checkMode [mkList xs nil, Tm.var v] (modesOf "length") 0 = .ok 1 := by
    have := isFixedList_mkList xs
    simp [show modesOf "length" = ["LI", "Lv", "lI", "vI"] from by decide, checkMode, modeOk, modeTest, this, isIntegerPos, isVar]
  simp [length, hm, bind, Except.bind, pure, Except.pure, listElements_mkList, unifySimple, isVar]

/-- `length(-L, +N)`, `N ≥ 0`: L is a list of N pairwise distinct fresh variables. -/
theorem C16_length_open (v mv : Int) (n : Nat) :
    ∃ vs : List Tm, length (.var v) (.int n) mv = .ok [[mkList vs nil, .int n]] ∧ vs.length = n ∧
      (∀ t ∈ vs, isVar t = true) ∧ vs.Pairwise (· ≠ ·) := by
  refine ⟨(List.range n).map (fun (k : Nat) => Tm.var (mv - (k : Int))), ?_, by simp, ?_, ?_⟩
  · have hm : checkMode [Tm.var v, Tm.int n] (modesOf "length") 0 = .ok 3 := rfl
    have h : ¬ ((n : Int) < 0) := by omega
    simp [length, hm, bind, Except.bind, pure, Except.pure, intVal, h]
  · intro t ht
    simp only [List.mem_map] at ht
    obtain ⟨k, _, rfl⟩ := ht
    rfl
  · rw [List.pairwise_map]
    refine List.Pairwise.imp ?_ List.pairwise_lt_range
    intro a b hab e
    injection e with e
    omega

/-- `functor(+T, -F, -A)`: name and arity of a compound; an atomic term is its own name with arity 0. -/
theorem C16_functor_decompose (f : String) (as : List Tm) (c x y : Int) :
    functor (.cmp f as) (.var x) (.var y) = .ok [[.cmp f as, .cmp f [], .int as.length]] ∧
    functor (.int c) (.var x) (.var y) = .ok [[.int c, .int c, .int 0]] := by
  constructor
  · have hm : checkMode [Tm.cmp f as, Tm.var x, Tm.var y] (modesOf "functor") 0 = .ok 1 := rfl
    simp [functor, hm, bind, Except.bind, pure, Except.pure, unifySimple, isVar, arity]
  · have hm : checkMode [Tm.int c, Tm.var x, Tm.var y] (modesOf "functor") 0 = .ok 1 := rfl
    simp [functor, hm, bind, Except.bind, pure, Except.pure, unifySimple, isVar, arity]

/-- `functor(-T, +Name, +N)`: the most general term `Name(_, …, _)` with N arguments. -/
theorem C16_functor_construct (f : String) (x : Int) (n : Nat) :
    functor (.var x) (.cmp f []) (.int n) = .ok [[.cmp f (List.replicate n .anon), .cmp f [], .int n]] := by
  have hm : checkMode [Tm.var x, Tm.cmp f [], Tm.int n] (modesOf "functor") 0 = .ok 0 := rfl
  simp [functor, hm, bind, Except.bind, pure, Except.pure, intVal]

/-- `arg(+N, +T, -A)`: the N-th argument (1-based) when `1 ≤ N ≤ arity`, no solution otherwise. -/
theorem C16_arg (k : Int) (f : String) (as : List Tm) (x : Int) :
    arg (.int k) (.cmp f as) (.var x) =
      .ok (if 1 ≤ k ∧ k ≤ as.length then (match as[(k - 1).toNat]? with | some t => [[.int k, .cmp f as, t]] | none => []) else []) := by
  have hm : checkMode [Tm.int k, Tm.cmp f as, Tm.var x] (modesOf "arg") 0 = .ok 0 := rfl
  simp only [arg, hm, bind, Except.bind, intVal, args]
  by_cases c1 : 1 ≤ k <;> by_cases c2 : k ≤ as.length
  · have h1 : 0 ≤ k - 1 := by omega
    have h2 : k - 1 < as.length := by omega
    simp only [c1, c2, h1, h2, decide_true, Bool.and_self, if_true, and_self]
    cases as[(k - 1).toNat]? <;> simp [pure, Except.pure, unifySimple, isVar]
  · have h2 : ¬ (k - 1 < as.length) := by omega
    simp [c1, c2, h2, pure, Except.pure]
  · have h1 : ¬ (0 ≤ k - 1) := by omega
    simp [c1, c2, pure, Except.pure]
  · have h1 : ¬ (0 ≤ k - 1) := by omega
    simp [c1, c2, pure, Except.pure]

/-- `+T =.. -L`: `[Name | Args]`. -/
theorem C16_univ_decompose (f : String) (as : List Tm) (x : Int) :
    univ (.cmp f as) (.var x) = .ok [[.cmp f as, mkList (.cmp f [] :: as) nil]] := by
  have hm : checkMode [Tm.cmp f as, Tm.var x] (modesOf "split_call") 0 = .ok 1 := rfl
  simp [univ, hm, bind, Except.bind, pure, Except.pure, unifySimple, isVar, args]

/-- `-T =.. +[Name | Args]` rebuilds the term that `=..` decomposes (for a compound). -/
theorem C16_univ_roundtrip (f : String) (a : Tm) (as : List Tm) (x : Int) :
    univ (.var x) (mkList (.cmp f [] :: a :: as) nil) = .ok [[.cmp f (a :: as), mkList (.cmp f [] :: a :: as) nil]] := by
  have hf := isFixedList_mkList (.cmp f [] :: a :: as)
  have hm : checkMode [Tm.var x, mkList (.cmp f [] :: a :: as) nil] (modesOf "split_call") 0 = .ok 0 := by
    simp [show modesOf "split_call" = ["vL", "nv", "nl"] from by decide, checkMode, modeOk, modeTest, hf, isVar]
  have he := listElements_mkList (.cmp f [] :: a :: as)
  simp [univ, hm, bind, Except.bind, pure, Except.pure, he, isAtom, isTerm, isVar, isConstant, isConstantT, arity]
/-- The type tests classify terms as Prolog does (strings, which ISO Prolog does not have, only for `atomic`). -/
theorem C16_typetests (t : Tm) (h : quotedMinus t = false) :
    tVar t = decide (Spec.kind t = .variable) ∧ tNonvar t = decide (Spec.kind t ≠ .variable) ∧
    tAtom t = decide (Spec.kind t = .atom) ∧ tInteger t = decide (Spec.kind t = .integer) ∧
    tFloat t = decide (Spec.kind t = .float) ∧
    tNumber t = decide (Spec.kind t = .integer ∨ Spec.kind t = .float) ∧
    tCompound t = decide (Spec.kind t = .compound) ∧
    tCallable t = decide (Spec.kind t = .atom ∨ Spec.kind t = .compound) ∧
    (Spec.kind t ≠ .string → tAtomic t = decide (Spec.kind t = .atom ∨ Spec.kind t = .integer ∨ Spec.kind t = .float)) := by
  obtain ⟨h1, h2⟩ := negs_false t h
  cases t with
  | var n => simp [tVar, tNonvar, tAtom, tInteger, tFloat, tNumber, tCompound, tCallable, tAtomic, isVar, isAtom, isTerm, isInteger, isFloat, isNumber, isIntegerPos, isFloatPos, isCompound, isConstant, isConstantT, Spec.kind, h1, h2, arity]
  | anon => simp [tVar, tNonvar, tAtom, tInteger, tFloat, tNumber, tCompound, tCallable, tAtomic, isVar, isAtom, isTerm, isInteger, isFloat, isNumber, isIntegerPos, isFloatPos, isCompound, isConstant, isConstantT, Spec.kind, h1, h2, arity]
  | int i => simp [tVar, tNonvar, tAtom, tInteger, tFloat, tNumber, tCompound, tCallable, tAtomic, isVar, isAtom, isTerm, isInteger, isFloat, isNumber, isIntegerPos, isFloatPos, isCompound, isConstant, isConstantT, Spec.kind, h1, h2, arity]
  | flt q => simp [tVar, tNonvar, tAtom, tInteger, tFloat, tNumber, tCompound, tCallable, tAtomic, isVar, isAtom, isTerm, isInteger, isFloat, isNumber, isIntegerPos, isFloatPos, isCompound, isConstant, isConstantT, Spec.kind, h1, h2, arity]
  | str s => simp [tVar, tNonvar, tAtom, tInteger, tFloat, tNumber, tCompound, tCallable, tAtomic, isVar, isAtom, isTerm, isInteger, isFloat, isNumber, isIntegerPos, isFloatPos, isCompound, isConstant, isConstantT, Spec.kind, h1, h2, arity]
  | cmp f as =>
    cases as with
    | nil => simp [tVar, tNonvar, tAtom, tInteger, tFloat, tNumber, tCompound, tCallable, tAtomic, isVar, isAtom, isTerm, isInteger, isFloat, isNumber, isIntegerPos, isFloatPos, isCompound, isConstant, isConstantT, Spec.kind, h1, h2, arity]
    | cons a as => simp [tVar, tNonvar, tAtom, tInteger, tFloat, tNumber, tCompound, tCallable, tAtomic, isVar, isAtom, isTerm, isInteger, isFloat, isNumber, isIntegerPos, isFloatPos, isCompound, isConstant, isConstantT, Spec.kind, h1, h2, arity]

/-- `is_list/1` also accepts partial lists (pinned by test/00_builtins.pl `is_list_002`): a known finding. -/
theorem C16_is_list_refuted :
    tIsList (.cmp "." [.cmp "a" [], .var 0]) = true ∧ Spec.properList (.cmp "." [.cmp "a" [], .var 0]) = false := by
  constructor <;> decide

example : quotedMinus (.cmp "-" [.int 1]) = false := by decide
example : (between (.int 1) (.int 3) (.var 0)) = .ok [[.int 1, .int 3, .int 1], [.int 1, .int 3, .int 2], [.int 1, .int 3, .int 3]] := rfl
example : succ (.var 0) (.int 0) = .ok [] := rfl
example : py_intdiv_2 (.int (-7)) (.int 2) = .ok (.int (-3)) := rfl
example : ∃ q, py_sign_1 (.flt (-2)) = .ok (.flt q) ∧ q = -1 := ⟨_, C16_sign_float _, by decide⟩
end ProbLogProofs.C16
