import ProbLogProofs.Lemmas.OrderSort
/-!
# C15 — term comparison and sort/2 follow the standard order of terms (property theorems only)

Model: `ProbLogModel/Order.lean` (`structCmp` = `struct_cmp` with repo_patches/C15_number_order and C15_atom_quotes
applied; `structCmpOrig` = the code before them).  Specification: `stdCompare`; `stdLe a b := stdCompare a b ≠ .gt`.
`unq t` is `t` with the quotes of every functor removed (the *text* of the atoms); the order is a total order on
terms up to redundant quoting (`'abc'` and `abc` are the same atom).
-/
set_option linter.unusedSimpArgs false
namespace ProbLogProofs.C15
open ProbLogModel ProbLogModel.Order Term ProbLogProofs.OrderLemmas

/-! ## The standard order is a total order -/

theorem C15_std_refl (a : Term) : stdLe a a := by unfold stdLe; rw [std_refl]; simp

theorem C15_std_antisymm (a b : Term) (h1 : stdLe a b) (h2 : stdLe b a) : unq a = unq b := by
  apply (std_eq_iff a b).mp
  unfold stdLe at h1 h2
  rw [std_swap a b] at h2
  cases h : stdCompare a b <;> simp_all

theorem C15_std_trans (a b c : Term) (h1 : stdLe a b) (h2 : stdLe b c) : stdLe a c := stdLe_trans h1 h2

theorem C15_std_total (a b : Term) : stdLe a b ∨ stdLe b a := stdLe_total a b

/-- The three-way comparison is consistent with `stdLe`: `=` exactly on equal terms (up to quoting), `<`/`>` mirror
    each other, `<` is transitive. -/
theorem C15_std_compare_consistent :
    (∀ a b, stdCompare a b = .eq ↔ unq a = unq b) ∧
    (∀ a b, stdCompare b a = (stdCompare a b).swap) ∧
    (∀ a b c, stdCompare a b = .lt → stdCompare b c = .lt → stdCompare a c = .lt) :=
  ⟨std_eq_iff, std_swap, fun _ _ _ => std_trans_lt⟩

/-- Var < Number < (String <) Atom < Compound. -/
theorem C15_std_classes :
    (∀ v i, stdCompare (.var v) (.int i) = .lt) ∧ (∀ v q, stdCompare (.var v) (.float q) = .lt) ∧
    (∀ i s, stdCompare (.int i) (.str s) = .lt) ∧ (∀ q s, stdCompare (.float q) (.str s) = .lt) ∧
    (∀ i f as, stdCompare (.int i) (.app f as) = .lt) ∧ (∀ q f as, stdCompare (.float q) (.app f as) = .lt) ∧
    (∀ s f as, stdCompare (.str s) (.app f as) = .lt) ∧
    (∀ f g b bs, stdCompare (.app f []) (.app g (b :: bs)) = .lt) := by
  refine ⟨?_, ?_, ?_, ?_, ?_, ?_, ?_, ?_⟩ <;> intros <;>
    simp [stdCompare, unq, mapFunctor, mapFunctorList, stdCore, stdFlat, stdNumKey, rank, Nat.compare_eq_lt]
  rename_i f g b bs
  have : compare 0 ((mapFunctorList unquoteName bs).length + 1) = .lt := Nat.compare_eq_lt.mpr (by omega)
  rw [this]; rfl

/-- Numbers by value; of an integer and a float with the same value the float comes first. -/
theorem C15_std_numbers :
    (∀ i j : Int, stdCompare (.int i) (.int j) = compare i j) ∧
    (∀ p q : Rat, stdCompare (.float p) (.float q) = cmpRat p q) ∧
    (∀ i : Int, stdCompare (.float (i : Rat)) (.int i) = .lt) ∧
    (∀ (i : Int) (q : Rat), q ≠ i → stdCompare (.float q) (.int i) = cmpRat q i ∧
      stdCompare (.int i) (.float q) = cmpRat i q) := by
  refine ⟨?_, ?_, ?_, ?_⟩
  · intro i j
    simp only [stdCompare, unq, mapFunctor, stdCore, stdFlat, stdNumKey, stdNum]
    cases h : compare i j
    · have : cmpRat i j = .lt := cmpRat_lt.mpr (Rat.intCast_lt_intCast.mpr (Int.compare_eq_lt.mp h)); simp [this]
    · have : i = j := Int.compare_eq_eq.mp h
      subst this; simp [lawRat.refl]
    · have : cmpRat i j = .gt := cmpRat_gt.mpr (Rat.intCast_lt_intCast.mpr (Int.compare_eq_gt.mp h)); simp [this]
  · intro p q
    simp only [stdCompare, unq, mapFunctor, stdCore, stdFlat, stdNumKey, stdNum]
    cases cmpRat p q <;> simp
  · intro i
    simp [stdCompare, unq, mapFunctor, stdCore, stdFlat, stdNumKey, stdNum, lawRat.refl]; rfl
  · intro i q h
    simp only [stdCompare, unq, mapFunctor, stdCore, stdFlat, stdNumKey, stdNum]
    have h1 : cmpRat q i ≠ .eq := fun e => h (cmpRat_eq_iff.mp e)
    have h2 : cmpRat i q ≠ .eq := fun e => h (cmpRat_eq_iff.mp e).symm
    constructor
    · cases h' : cmpRat q i <;> simp_all
    · cases h' : cmpRat i q <;> simp_all

/-- Atoms alphabetically by their text; compound terms by arity, then name, then arguments left to right. -/
theorem C15_std_compound :
    (∀ f g, stdCompare (.app f []) (.app g []) = compare (unquoteName f) (unquoteName g)) ∧
    (∀ f g as bs, as.length ≠ bs.length → stdCompare (.app f as) (.app g bs) = compare as.length bs.length) ∧
    (∀ f g as bs, as.length = bs.length → unquoteName f ≠ unquoteName g →
      stdCompare (.app f as) (.app g bs) = compare (unquoteName f) (unquoteName g)) ∧
    (∀ f a b as bs, as.length = bs.length → stdCompare a b ≠ .eq →
      stdCompare (.app f (a :: as)) (.app f (b :: bs)) = stdCompare a b) ∧
    (∀ f a as bs, stdCompare (.app f (a :: as)) (.app f (a :: bs)) = stdCompare (.app f as) (.app f bs)) := by
  refine ⟨?_, ?_, ?_, ?_, ?_⟩
  · intro f g
    simp [stdCompare, unq_app, stdCore_app, mapFunctorList, stdCoreArgs]
  · intro f g as bs h
    simp only [stdCompare, unq_app, stdCore_app, mapFunctorList_length]
    cases h' : compare as.length bs.length <;> simp
    exact absurd (Nat.compare_eq_eq.mp h') h
  · intro f g as bs h hn
    simp only [stdCompare, unq_app, stdCore_app, mapFunctorList_length, h, lawNat.refl, Ordering.eq_then]
    cases h' : compare (unquoteName f) (unquoteName g) <;> simp
    exact absurd (lawString.eq _ _ h') hn
  · intro f a b as bs h hn
    simp only [stdCompare, unq_app, stdCore_app, mapFunctorList_length, mapFunctorList, List.length_cons, h,
      lawNat.refl, lawString.refl, Ordering.eq_then, stdCoreArgs]
    unfold stdCompare unq at *
    cases h' : stdCore (mapFunctor unquoteName a) (mapFunctor unquoteName b) <;> simp_all
  · intro f a as bs
    simp only [stdCompare, unq_app, stdCore_app, mapFunctorList_length, mapFunctorList, List.length_cons,
      lawString.refl, Ordering.eq_then, stdCoreArgs, stdCore_refl]
    congr 1
    generalize (mapFunctorList unquoteName as).length = m
    generalize (mapFunctorList unquoteName bs).length = n
    simp only [compare, compareOfLessAndEq]
    by_cases h1 : m < n <;> by_cases h2 : m = n <;> simp [h1, h2] <;> omega

/-! ## The (patched) code computes the standard order -/

/-- `struct_cmp` with the two proposed patches is the standard order on all terms without the legacy
    negative-number shape `'-'(N)` (which the code treats as the number `-N`). Not restricted to ground terms. -/
theorem C15_structCmp_eq_std (a b : Term) (ha : plain a = true) (hb : plain b = true) :
    structCmp a b = stdCompare a b := structCmp_eq_std a b ha hb

/-- The code before the patches does **not**: `10` is put before `9` (numbers that differ fall through and are
    compared as strings), `'hello world'` before `abc` and the string `"a b"` before `"a"` (the quote characters
    take part in the comparison). -/
theorem C15_structCmp_orig_refuted (fl : Rat → String) :
    structCmpOrig fl (.int 10) (.int 9) = .lt ∧ stdCompare (.int 10) (.int 9) = .gt ∧
    structCmpOrig fl (.app "'hello world'" []) (.app "abc" []) = .lt ∧
    stdCompare (.app "'hello world'" []) (.app "abc" []) = .gt ∧
    structCmpOrig fl (.str "a b") (.str "a") = .lt ∧ stdCompare (.str "a b") (.str "a") = .gt := by
  refine ⟨?_, by decide, ?_, by decide, ?_, by decide⟩
  · have h : cmpHeadOrig (.int 10) (.int 9) = none := by decide
    simp only [structCmpOrig, h, functorText, Term.arity]; decide
  · have h : cmpHeadOrig (.app "'hello world'" []) (.app "abc" []) = none := by decide
    simp only [structCmpOrig, h, structCmpOrigArgs]; decide
  · have h : cmpHeadOrig (.str "a b") (.str "a") = some .lt := by decide
    simp only [structCmpOrig, h]

/-- The legacy shape really is outside the standard order (why `plain` is needed): `'-'(3)` is a compound term,
    the code orders it before the atom `a`. -/
theorem C15_negform_not_std :
    structCmp (.app "'-'" [.int 3]) (.app "a" []) = .lt ∧ stdCompare (.app "'-'" [.int 3]) (.app "a" []) = .gt := by
  decide

/-! ## sort/2 -/

/-- Quoting is used consistently in the list: two elements that are the same term up to quotes are identical
    (ProbLog keeps `'abc'` and `abc` apart as terms; see known finding C15-redundant-quotes). -/
def QuoteConsistent (l : List Term) : Prop := ∀ a ∈ l, ∀ b ∈ l, unq a = unq b → a = b

/-- `sort/2` returns exactly the elements of its input … -/
theorem C15_sort_mem (l : List Term) (t : Term) : t ∈ sortModel l ↔ t ∈ l := by
  unfold sortModel
  rw [(sortList_perm (dedup l)).mem_iff, mem_dedup]

/-- … without duplicates … -/
theorem C15_sort_nodup (l : List Term) : (sortModel l).Nodup := by
  unfold sortModel
  rw [(sortList_perm (dedup l)).nodup_iff]; exact dedup_nodup l

/-- … in strictly ascending standard order. -/
theorem C15_sort_strictly_ascending (l : List Term) (hp : ∀ t ∈ l, plain t = true) (hq : QuoteConsistent l) :
    (sortModel l).Pairwise (fun a b => stdCompare a b = .lt) := by
  have hc : ∀ x ∈ dedup l, ∀ y ∈ dedup l, structCmp x y = stdCompare x y := fun x hx y hy =>
    structCmp_eq_std x y (hp x ((mem_dedup l x).mp hx)) (hp y ((mem_dedup l y).mp hy))
  have hs := (sortList_spec (dedup l) hc).1
  have hn : (sortList (dedup l)).Pairwise (· ≠ ·) := C15_sort_nodup l
  have := (List.Pairwise.and_mem.mp (hs.and hn))
  refine this.imp ?_
  rintro a b ⟨ha, hb, hle, hne⟩
  have ha' := (C15_sort_mem l a).mp ha
  have hb' := (C15_sort_mem l b).mp hb
  unfold stdLe at hle
  cases h : stdCompare a b
  · rfl
  · exact absurd (hq a ha' b hb' ((std_eq_iff a b).mp h)) hne
  · exact absurd h hle

/-! ## The comparison builtins -/

/-- `@<`, `@=<`, `@>`, `@>=` decide the standard order. -/
theorem C15_compare_ops (a b : Term) (ha : plain a = true) (hb : plain b = true) :
    (structLt a b = true ↔ stdCompare a b = .lt) ∧ (structLe a b = true ↔ stdLe a b) ∧
    (structGt a b = true ↔ stdCompare a b = .gt) ∧ (structGe a b = true ↔ stdLe b a) := by
  unfold structLt structLe structGt structGe stdLe
  rw [structCmp_eq_std a b ha hb, std_swap a b]
  cases stdCompare a b <;> simp

/-- `==` / `\==` decide identity, which is `compare(=)` whenever quoting is consistent. -/
theorem C15_same (a b : Term) : (same a b = true ↔ a = b) ∧ (notSame a b = true ↔ a ≠ b) := by
  simp [same, notSame]

theorem C15_same_iff_std_eq (a b : Term) (hq : unq a = unq b → a = b) : same a b = true ↔ stdCompare a b = .eq := by
  rw [std_eq_iff]; simp only [same, decide_eq_true_eq]
  exact ⟨fun h => by rw [h], hq⟩

/-- The symbol `compare/3` reports. -/
def orderSymbol : Ordering → String
  | .lt => "<"
  | .eq => "="
  | .gt => ">"

/-- `compare(O, A, B)` with `O` unbound binds `O` to the symbol of the standard order. -/
theorem C15_compare3_unbound (v : Int) (a b : Term) (ha : plain a = true) (hb : plain b = true) :
    ∃ c, builtinCompare (.var v) a b = .succeed (.app c []) ∧ unquoteName c = orderSymbol (stdCompare a b) := by
  refine ⟨cmpToken (stdCompare a b), by simp [builtinCompare, structCmp_eq_std a b ha hb], ?_⟩
  cases stdCompare a b <;> decide

/-- `compare(O, A, B)` with `O` one of `<`, `=`, `>` (quoted or not) succeeds iff `O` is that symbol, and fails
    otherwise; any other bound first argument is a mode error. -/
theorem C15_compare3_bound (f : String) (a b : Term) (ha : plain a = true) (hb : plain b = true) :
    builtinCompare (.app f []) a b =
      if unquoteName f = "<" ∨ unquoteName f = "=" ∨ unquoteName f = ">" then
        (if unquoteName f = orderSymbol (stdCompare a b) then .succeed (.app f []) else .fail)
      else .callModeError := by
  have tok : ∀ o, unquoteName (cmpToken o) = orderSymbol o := by intro o; cases o <;> decide
  simp only [builtinCompare, isCompareAtom, structCmp_eq_std a b ha hb, tok, Bool.or_eq_true, beq_iff_eq, or_assoc]
  split
  · split <;> rename_i h
    · simp [h]
    · rw [if_neg (fun e => h e.symm)]
  · rfl

/-! ## Non-vacuity -/
example : plain (.app "f" [.int (-3), .float 2, .str "s", .app "'hello world'" [], .var 1]) = true := by decide
example : QuoteConsistent [.app "'hello world'" [], .app "abc" [], .int 10] := by
  intro a ha b hb; simp at ha hb
  rcases ha with rfl | rfl | rfl <;> rcases hb with rfl | rfl | rfl <;> decide
example : sortModel [.int 10, .int 9, .float 2, .int 2, .int (-3), .int 9] =
    [.int (-3), .float 2, .int 2, .int 9, .int 10] := by decide
example : sortModel [.app "b" [], .app "'hello world'" [], .app "abc" [], .app "f" [.int 1], .str "z", .var 0] =
    [.var 0, .str "z", .app "abc" [], .app "b" [], .app "'hello world'" [], .app "f" [.int 1]] := by decide
example : builtinCompare (.app "<" []) (.int 9) (.int 10) = .succeed (.app "<" []) := by decide
example : builtinCompare (.app "'>'" []) (.int 9) (.int 10) = .fail := by decide
example : builtinCompare (.app "a" []) (.int 9) (.int 10) = .callModeError := by decide
example : stdLe (.int 9) (.int 10) ∧ ¬ stdLe (.int 10) (.int 9) := by unfold stdLe; decide

end ProbLogProofs.C15
