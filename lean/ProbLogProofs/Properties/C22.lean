import ProbLogModel.Tasks.Sample
import ProbLogProofs.Lemmas.Sample
import ProbLogProofs.Lemmas.SampleHeads
import ProbLogProofs.Lemmas.Rejection
/-!
# C22 — sampling draws from the program's distribution (property theorems only)

The sampler is a function of the stream of uniforms.  "Measure of a set of streams" is the product of the interval
lengths of a box `I₁ × I₂ × …` (the uniforms are independent and uniform on `[0,1)` — that, the PRNG and the law of
large numbers are outside the model).
-/
namespace ProbLogProofs.C22
open ProbLogModel.Tasks.Sample ProbLogProofs.Sample

/-- **Simple fact**: a fact that has no value yet consumes exactly one uniform `u`, is true iff `u < p` — the interval
    `[0, p)` of length `p` — and multiplies the printed probability by `p` (true) or `1 - p` (false). -/
theorem C22_fact_threshold (s : SState) (id : Nat) (p u : Rat) (us : List Rat)
    (h : lookupFact s (.fact id) = none) :
    ∃ s', addFact s id p (u :: us) = .ok (decide (u < p)) s' us ∧
      s'.prob = s.prob * (if u < p then p else 1 - p) ∧ lookupFact s' (.fact id) = some (decide (u < p)) := by
  refine ⟨_, by simp only [addFact, h]; rfl, ?_, ?_⟩
  · by_cases hu : u < p <;> simp [hu]
  · simp only [lookupFact]
    have : ∀ (l : List (Ident × Bool)), (l.find? (fun e => e.1 == Ident.fact id)).map (·.2) = none →
        ((l ++ [(Ident.fact id, decide (u < p))]).find? (fun e => e.1 == Ident.fact id)).map (·.2)
          = some (decide (u < p)) := by
      intro l
      induction l with
      | nil => simp
      | cons e l ih =>
        intro hl
        by_cases he : (e.1 == Ident.fact id) = true
        · simp [List.find?_cons, he] at hl
        · have he' : (e.1 == Ident.fact id) = false := by simpa using he
          simp only [List.cons_append, List.find?_cons, he'] at hl ⊢
          exact ih hl
    exact this s.facts h

/-- A fact that already has a value is not sampled again (no uniform consumed, state unchanged). -/
theorem C22_fact_memo (s : SState) (id : Nat) (p : Rat) (us : List Rat) (v : Bool)
    (h : lookupFact s (.fact id) = some v) : addFact s id p us = .ok v s us := by
  simp [addFact, h]

/-- **AD heads, sequentially** (group open with remaining mass `r`, heads not sampled yet, the `1e-8` guard not
    reached, enough uniforms): the state machine chooses exactly the head given by the threshold function `firstHit`
    (head `j` is tried with threshold `p_j / r_j`, `r_j = r - Σ_{k<j} p_k`; the group is closed after a hit and the
    later heads are false without consuming uniforms), and `firstHit` returns head `i` exactly on the box
    `u_j ∈ (p_j/r_j, 1) (j < i), u_i ∈ [0, p_i/r_i]`. -/
theorem C22_ad_threshold (o : Nat) (ps : List Rat) (s : SState) (us : List Rat) (r : Rat)
    (ho : OpenWith s o r) (hf : FreshFrom s o 0) (hg : GuardOK ps r) (hlen : ps.length ≤ us.length) :
    (∃ s' us', sampleHeads o ps 0 s us = some (firstHit ps r us 0, s', us')) ∧
    (∀ i, firstHit ps r us 0 = some i ↔ InBox ps r us i) ∧
    (firstHit ps r us 0 = none ↔ InNoneBox ps r us) := by
  obtain ⟨s', us', h, _⟩ := sampleHeads_open o ps 0 s us r ho hf hg hlen
  refine ⟨⟨s', us', h⟩, ?_, firstHit_none_box ps r us 0 hlen⟩
  intro i
  have := firstHit_box ps r us 0 i
  simpa using this

/-- **AD marginal** (telescoping product): the measure of the set of uniform streams that choose head `i` — the product
    `Π_{j<i} (1 - p_j/r_j) · p_i/r_i` of the interval lengths of that box — is exactly `p_i`, and the measure of
    "no head" is `1 - Σ p` (fresh group: `r = 1`). -/
theorem C22_ad_marginal (ps : List Rat) (hg : GuardOK ps 1) :
    (∀ i (hi : i < ps.length), volChoose ps 1 i = ps[i]) ∧ volNone ps 1 = 1 - total ps := by
  constructor
  · intro i hi
    rw [volChoose_eq ps 1 i hi hg]; grind
  · rcases volNone_eq ps 1 hg with h | h
    · grind
    · subst h; simp [volNone, total]; grind

/-- **Conditioning on evidence-fixed heads** (the behaviour of the proposed `add_evidence_atom`): when heads of total
    mass `q` have been fixed false by evidence the group starts with remaining mass `r = 1 - q`, and the other heads are
    then chosen with the conditional probabilities `p_i / (1 - q)`; none with `(1 - q - Σ p) / (1 - q)`. -/
theorem C22_ad_conditional (ps : List Rat) (r : Rat) (hg : GuardOK ps r) (hne : ps ≠ []) :
    (∀ i (hi : i < ps.length), volChoose ps r i = ps[i] / r) ∧ volNone ps r * r = r - total ps := by
  refine ⟨fun i hi => volChoose_eq ps r i hi hg, ?_⟩
  rcases volNone_eq ps r hg with h | h
  · exact h
  · exact absurd h hne

/-- **Refutation for the unpatched evidence propagation** (sample.py:493 at the base commit, finding of DESIGN §9): a head
    fixed false by evidence is entered through `add_atom` with probability `0.0`, so the remaining mass stays 1 and the
    next head `3/10` of `0.3::h0; 0.2::h1; 0.3::h2` with evidence `\+h2` is drawn with probability `3/10` instead of
    the conditional probability `(3/10) / (1 - 3/10) = 3/7`. -/
theorem C22_propagation_unpatched_refuted :
    volChoose [0, 3/10, 2/10] 1 1 = 3/10 ∧ (3/10 : Rat) ≠ (3/10) / (1 - 3/10) ∧
    volChoose [3/10, 2/10] (1 - 3/10) 0 = (3/10) / (1 - 3/10) := by decide +kernel

/-- `volChoose`/`volNone` are the products of the interval lengths of the boxes of `C22_ad_threshold`
    (length of `[0,t]` is `t`, of `(t,1)` is `1 - t`): the defining equations, restated. -/
theorem C22_ad_box_volume (p : Rat) (ps : List Rat) (r : Rat) (i : Nat) :
    volChoose (p :: ps) r 0 = p / r ∧
    volChoose (p :: ps) r (i + 1) = (1 - p / r) * volChoose ps (r - p) i ∧
    volNone (p :: ps) r = (1 - p / r) * volNone ps (r - p) ∧ volNone [] r = 1 := ⟨rfl, rfl, rfl, rfl⟩

/-- **Printed probability, AD part**: after the heads of a fresh group have been sampled,
    `self.probability × (remaining mass compute_probability will multiply in for this group)` has been multiplied by
    the probability of the choice made: `p_i` if head `i` was chosen, `1 - Σ p` if none was. -/
theorem C22_printed_prob_ad (o : Nat) (ps : List Rat) (s : SState) (us : List Rat)
    (ho : lookupGroup s o = none) (hf : FreshFrom s o 0) (hg : GuardOK ps 1) (hlen : ps.length ≤ us.length) :
    ∃ c s' us', sampleHeads o ps 0 s us = some (c, s', us') ∧
      s'.prob * groupFactor s' o = s.prob * (match c with | some i => ps.getD i 0 | none => 1 - total ps) := by
  obtain ⟨s', us', h, hp⟩ := sampleHeads_open o ps 0 s us 1 (Or.inr ⟨ho, rfl⟩) hf hg hlen
  refine ⟨_, s', us', h, ?_⟩
  rw [hp]
  cases hc : firstHit ps 1 us 0 with
  | none =>
    have := (firstHit_none_box ps 1 us 0 hlen).mp hc
    rw [hitFactor_none ps 1 us this]
  | some i =>
    have hb : InBox ps 1 us i := by
      have := (firstHit_box ps 1 us 0 i).mp (by simpa using hc)
      exact this
    obtain ⟨hi, he⟩ := hitFactor_box ps 1 us i hb
    rw [he]
    simp [List.getD_eq_getElem?_getD, hi]

/-- **Printed probability, `compute_probability`**: the final probability is `self.probability` times the remaining
    mass of every group in which no head was chosen. -/
theorem C22_printed_prob (s : SState) :
    (computeProbability s).prob =
      s.groups.foldl (fun acc e => acc * (match e.2 with | some g => g | none => 1)) s.prob ∧
    (computeProbability s).groups = [] := by
  constructor
  · simp only [computeProbability]
    have : ∀ (l : List (Nat × Option Rat)) (a : Rat),
        l.foldl (fun acc e => match e.2 with | some p => acc * p | none => acc) a =
        l.foldl (fun acc e => acc * (match e.2 with | some g => g | none => 1)) a := by
      intro l
      induction l with
      | nil => intro a; rfl
      | cons e l ih =>
        intro a
        simp only [List.foldl_cons]
        rw [ih]
        congr 1
        cases e.2 <;> grind
    exact this s.groups s.prob
  · rfl

/-- **Rejection on evidence**: for a finite distribution `D` of worlds and evidence `ev`, the probability that the
    sampler (at most `n` rounds) returns an accepted world in the event `f` is `(1 + q + … + q^(n-1)) · D(f ∧ ev)` with
    `q = D(¬ev)`; hence, conditionally on returning a sample at all, the law is the conditional law
    `D(f ∧ ev) / D(ev)`, for every number of rounds (cross-multiplied form). -/
theorem C22_rejection {α : Type} (D : Dist α) (ev f : α → Bool) (n : Nat) :
    mass (rejection D ev n) (onSome f) = geom (mass D (fun a => !ev a)) n * mass D (fun a => f a && ev a) ∧
    mass (rejection D ev n) (onSome f) * mass D (fun a => true && ev a) =
      mass (rejection D ev n) (onSome (fun _ => true)) * mass D (fun a => f a && ev a) := by
  refine ⟨rejection_mass D ev f n, ?_⟩
  rw [rejection_mass D ev f n, rejection_mass D ev (fun _ => true) n]
  grind

/-- The rejection loop returns the first candidate that satisfies the evidence: every returned sample satisfies it. -/
theorem C22_accepted_satisfies_evidence {α : Type} (ev : α → Bool) (l : List α) (a : α)
    (h : firstAccepted ev l = some a) : ev a = true ∧ a ∈ l := by
  induction l with
  | nil => simp [firstAccepted] at h
  | cons b l ih =>
    simp only [firstAccepted] at h
    by_cases hb : ev b = true
    · simp only [hb, if_true] at h
      injection h with h; subst h
      exact ⟨hb, by simp⟩
    · simp only [hb] at h
      have := ih h
      exact ⟨this.1, by simp [this.2]⟩

/-! Non-vacuity: the witness of the known finding (DESIGN §9 C22) in the threshold model: heads 3/10, 2/10, 3/10. -/
example : GuardOK [3/10, 2/10, 3/10] 1 := by
  refine ⟨by decide +kernel, by decide +kernel, by decide +kernel, trivial⟩
example : volChoose [3/10, 2/10, 3/10] 1 2 = 3/10 ∧ volNone [3/10, 2/10, 3/10] 1 = 2/10 := by decide +kernel
example : (sampleHeads 7 [3/10, 2/10, 3/10] 0 {} [1/2, 1/4, 9/10]).map (·.1) = some (some 1) := by decide +kernel
/-- rejection with evidence "not world 2": conditional law 3/7 : 2/7 : 2/7 -/
example : mass (rejection [((0 : Nat), (3/10 : Rat)), (1, 2/10), (2, 3/10), (3, 2/10)] (fun a => a != 2) 1)
    (onSome (fun a => a == 0)) = 3/10 := by decide +kernel

end ProbLogProofs.C22
