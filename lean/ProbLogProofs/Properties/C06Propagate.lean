import ProbLogProofs.Lemmas.PropagateSound
import ProbLogProofs.Lemmas.PropagateAD
/-!
# C06 — evidence propagation (`LogicFormula.propagate` and the lookups that use its result): property theorems only

Model: `ProbLogModel.Propagate` (tied to `problog/formula.py` by harness/c06_propagate.py on every run).
`pick : Nat → List Int → Nat` is the order in which the Python `set` hands out its elements: every theorem holds for
every `pick`.  `Consistent S ρ` (ProbLogModel/Formula.lean): every compound node has the AND / OR value of its children
(so for cyclic formulas: every supported model, in particular the least/stable ones).
-/
namespace ProbLogProofs.C06
open ProbLogModel.Formula ProbLogModel.Propagate

/-- **Soundness of propagation, every processing order.** If `ρ` is a consistent valuation of the store that makes all
    evidence literals true (and agrees with the initial dict), then every entry `n ↦ v` of the dict returned by
    `propagate` has `v ∈ {TRUE, FALSE}` and holds in `ρ`. -/
theorem C06_propagate_sound (S : Store) (pick : Nat → List Int → Nat) (ev : List Int) (cur0 : Cur) (ρ : Nat → Bool)
    (hS : Consistent S ρ) (hev : ∀ e, e ∈ ev → keyVal ρ (some e) = true) (h0 : CurOK ρ cur0)
    (res : Cur) (h : propagate S pick ev cur0 = .ok res) :
    ∀ n v, lookup res n = some v → (v = TRUE ∧ ρ n = true) ∨ (v = FALSE ∧ ρ n = false) := by
  have := run_sound S ρ hS pick (fuelBound S) ⟨mkQueue ev, cur0, []⟩ h0 (fun x hx => hev x (mem_mkQueue hx))
  unfold propagate at h
  rw [h] at this
  exact this.val

/-- The same for the call made by the grounder (`current = {}`), stated on the entries of the returned dict. -/
theorem C06_propagate_sound_mem (S : Store) (pick : Nat → List Int → Nat) (ev : List Int) (ρ : Nat → Bool)
    (hS : Consistent S ρ) (hev : ∀ e, e ∈ ev → keyVal ρ (some e) = true)
    (res : Cur) (h : propagate S pick ev [] = .ok res) :
    ∀ n v, (n, v) ∈ res → (v = TRUE ∧ ρ n = true) ∨ (v = FALSE ∧ ρ n = false) := by
  intro n v hm
  have hk : (keys res).Nodup := run_keys S pick (fuelBound S) ⟨mkQueue ev, [], []⟩ res List.nodup_nil h
  exact C06_propagate_sound S pick ev [] ρ hS hev (CurOK.nil ρ) res h n v (lookup_of_mem hk hm)

/-- **InconsistentEvidenceError is never a false alarm** (any store, cyclic or not; any order): if propagation raises,
    no consistent valuation satisfies the evidence (and the initial dict). -/
theorem C06_propagate_inconsistent_sound (S : Store) (pick : Nat → List Int → Nat) (ev : List Int) (cur0 : Cur)
    (h : propagate S pick ev cur0 = .error .inconsistent) :
    ¬ ∃ ρ, Consistent S ρ ∧ (∀ e, e ∈ ev → keyVal ρ (some e) = true) ∧ CurOK ρ cur0 := by
  rintro ⟨ρ, hS, hev, h0⟩
  have := run_sound S ρ hS pick (fuelBound S) ⟨mkQueue ev, cur0, []⟩ h0 (fun x hx => hev x (mem_mkQueue hx))
  unfold propagate at h
  rw [h] at this
  exact this

/-- **Termination** (fuel sufficiency, every order): with `(N+1)(2N+1)` iterations the loop has always finished
    (`N` = number of nodes); the model's `fuel` error is unreachable. Evidence literals are arbitrary integers. -/
theorem C06_propagate_terminates (S : Store) (pick : Nat → List Int → Nat) (ev : List Int) (cur0 : Cur)
    (h0 : ∀ k v, lookup cur0 k = some v → 1 ≤ k ∧ k ≤ S.nodes.length) :
    propagate S pick ev cur0 ≠ .error .fuel := by
  unfold propagate
  apply run_no_fuel S pick (fuelBound S) ⟨mkQueue ev, cur0, []⟩ (mkQueue_nodup ev) h0
  have h1 := unset_le cur0 S.nodes.length
  have h2 := qc_le cur0 S.nodes.length h0 (mkQueue ev) (mkQueue_nodup ev)
  unfold mu fuelBound
  simp only
  have : unset cur0 S.nodes.length * (2 * S.nodes.length + 1) ≤ S.nodes.length * (2 * S.nodes.length + 1) :=
    Nat.mul_le_mul_right _ h1
  rw [Nat.add_mul]
  omega

/-- Each node enters the result once: the returned dict has pairwise different keys. -/
theorem C06_propagate_keys_once (S : Store) (pick : Nat → List Int → Nat) (ev : List Int) (cur0 : Cur)
    (h0 : (cur0.map Prod.fst).Nodup) (res : Cur) (h : propagate S pick ev cur0 = .ok res) :
    (res.map Prod.fst).Nodup :=
  run_keys S pick (fuelBound S) ⟨mkQueue ev, cur0, []⟩ res h0 h

/-- What `ground_evidence(..., propagate_evidence=True)` stores in `lookup_evidence` is implied by the labelled evidence
    (`LogicFormula.evidence()`: positive labels as they are, negative labels negated). -/
theorem C06_propagateEvidence_sound (S : Store) (pick : Nat → List Int → Nat) (ρ : Nat → Bool)
    (hS : Consistent S ρ) (hev : ∀ k, k ∈ evidenceOf S → keyVal ρ k = true)
    (res : Cur) (h : propagateEvidence S pick = .ok res) :
    ∀ n v, (n, v) ∈ res → (v = TRUE ∧ ρ n = true) ∨ (v = FALSE ∧ ρ n = false) := by
  apply C06_propagate_sound_mem S pick (evNodes S) ρ hS _ res h
  intro e he
  exact hev _ ((mem_nondet _ _).1 he).1

/-- `get_evidence_value`: replacing a key by its propagated value does not change its truth value. -/
theorem C06_evValue_sound (ρ : Nat → Bool) (tbl : Cur) (h : CurOK ρ tbl) (k : Key) :
    keyVal ρ (evValue (some tbl) k) = keyVal ρ k ∧ evValue none k = k := by
  refine ⟨evValue_sound h k, ?_⟩
  cases k with
  | none => rfl
  | some i =>
    unfold evValue
    by_cases h0 : i = 0
    · subst h0; rfl
    · simp [h0]

/-- The engine's lookup for results of cached calls (`StackBasedEngine.propagate_evidence`). -/
theorem C06_engineLookup_sound (ρ : Nat → Bool) (tbl : Cur) (h : CurOK ρ tbl) (k : Key) :
    keyVal ρ (engineLookup (some tbl) k) = keyVal ρ k ∧ engineLookup none k = k :=
  ⟨engineLookup_sound h k, rfl⟩

/-- Substituting the propagated values into the formula keeps every valuation that satisfies them consistent
    (so the substituted formula has the same models given the evidence). -/
theorem C06_substitute_consistent (S : Store) (ρ : Nat → Bool) (tbl : Cur) (h : CurOK ρ tbl) (hS : Consistent S ρ) :
    Consistent (substitute S tbl) ρ :=
  substitute_consistent h hS

/-- `ConstraintAD.add` with evidence values: under the AD's mutual exclusion (`node` is not true together with a member)
    returning FALSE for the new node, returning early, and setting the other members to FALSE are all sound. -/
theorem C06_adAddEv_sound (ρ : Nat → Bool) (tbl : Cur) (h : CurOK ρ tbl) (members : List Nat) (node : Nat)
    (hm0 : ∀ m, m ∈ members → m ≠ 0) (hn0 : node ≠ 0)
    (hex : ∀ m, m ∈ members → ¬ (ρ m = true ∧ ρ node = true)) :
    match adAddEv tbl members node with
    | .retFalse => ρ node = false
    | .retNode t => t = tbl ∧ ρ node = false
    | .continue_ t => CurOK ρ t := by
  have := adAddEv_sound h members node hm0 hn0 hex
  cases hr : adAddEv tbl members node <;> rw [hr] at this <;> exact this

/-- Evidence spellings: `evidence(a)` / `evidence(a,true)` and `evidence(\+a)` / `evidence(a,false)` ground the same atom
    with the same label, hence give the same evidence literal whatever the atom is grounded to. -/
theorem C06_evidence_spelling (a : Nat) (g : Nat → Key) :
    evLabel (.ev1 false a) = evLabel (.ev2 a .true_) ∧ evLabel (.ev1 true a) = evLabel (.ev2 a .false_) ∧
    evLiteral g (.ev1 false a) = evLiteral g (.ev2 a .true_) ∧ evLiteral g (.ev1 true a) = evLiteral g (.ev2 a .false_) ∧
    evLiteral g (.ev1 true a) = some (negate (g a)) :=
  ⟨rfl, rfl, rfl, rfl, rfl⟩

/-! ### non-vacuity -/

/-- atoms 1, 2; 3 = 1 ∧ 2; 4 = 3 ∨ ¬1; 5 = 4 ∧ 2 -/
def exS : Store :=
  { nodes := [.atom (.user 1) none false none, .atom (.user 2) none false none, .conj [some 1, some 2] none,
              .disj [some 3, some (-1)] none, .conj [some 4, some 2] none] }

def pickFirst : Nat → List Int → Nat := fun _ _ => 0
def pickLast : Nat → List Int → Nat := fun _ q => q.length - 1

/-- evidence `3` (the conjunction is true): both atoms are derived. -/
example : propagate exS pickFirst [3] = .ok [(3, TRUE), (1, TRUE), (2, TRUE)] := by decide
/-- evidence `5, 1`: 4 and 2 follow from 5; then 4 = 3 ∨ ¬1 with 1 true leaves 3. Same set of entries in another order. -/
example : propagate exS pickFirst [5, 1] = .ok [(5, TRUE), (1, TRUE), (4, TRUE), (2, TRUE), (3, TRUE)] := by decide
example : propagate exS pickLast [5, 1] = .ok [(1, TRUE), (5, TRUE), (2, TRUE), (4, TRUE), (3, TRUE)] := by decide
/-- evidence `¬4` (the disjunction is false): 3 false, 1 true; 3 = 1 ∧ 2 false with 1 true gives 2 false. -/
example : propagate exS pickFirst [-4] = .ok [(4, FALSE), (3, FALSE), (1, TRUE), (2, FALSE)] := by decide
/-- a raise: 3 true and 1 false -/
example : propagate exS pickLast [3, -1] = .error .inconsistent := by decide
/-- the hypotheses of the soundness theorem are satisfiable on this store: the all-true valuation is consistent and
    satisfies the evidence `[5, 1]`. -/
example : Consistent exS (fun _ => true) ∧ ∀ e, e ∈ [(5 : Int), 1] → keyVal (fun _ => true) (some e) = true := by
  refine ⟨?_, by decide⟩
  intro i
  match i with
  | 0 | 1 | 2 | 3 | 4 =>
    constructor <;> intro cs nm h <;> simp [exS] at h <;> try (obtain ⟨rfl, rfl⟩ := h; decide)
  | n + 5 => constructor <;> intro cs nm h <;> simp [exS] at h

/-- Documented incompleteness (not a soundness issue): with *unsatisfiable* evidence the outcome depends on the pop
    order — the same call raises in one order and returns a dict in another (the second pop of node 1 overwrites its
    value without a check, formula.py:1012). -/
theorem C06_propagate_unsat_order_dependent :
    propagate exS pickLast [3, -1] = .error .inconsistent ∧
    propagate exS pickFirst [3, -1] = .ok [(3, TRUE), (1, TRUE), (2, TRUE)] := by decide

end ProbLogProofs.C06
