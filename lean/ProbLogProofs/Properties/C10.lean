import ProbLogModel.DDNNF
/-!
# C10 — compiled d-DNNF is a valid, equivalent circuit (property theorems only)
-/
namespace ProbLogProofs.C10
open ProbLogModel.DDNNF

/-- A literal line evaluates to the literal's weight (placeholder first obligation; the WMC theorems follow). -/
theorem C10_evalLine_lit {R} (sr : SR R) (w : Int → R) (acc : List R) (l : Int) :
    evalLine sr w acc (.lit l) = w l := rfl

end ProbLogProofs.C10
