/-
# C10 — a circuit accepted by the d-DNNF validator evaluates to its weighted model count (property theorems only)

Model: `ProbLogModel.DDNNF` (`Circuit`, `evalC`, `validate`, `rootVars`), semantics `ProbLogModel.DDNNF.satC`
(`ProbLogModel/DDNNFSem.lean`).  Finset-level wrappers (`ProbLogProofs.DDNNF`): `assign T x = (x ∈ T)`,
`rootVarsF c = (rootVars c).toFinset`, `satRoot c T = satC (assign T) c`,
`models c = {T ⊆ rootVarsF c | satRoot c T}`, `cnfModels N V = {T ⊆ V | every clause of N true under T}`,
`srOf R = ⟨0, 1, (+), (*)⟩` for a Mathlib `CommSemiring R`.
All theorems hold for every circuit, all weights and every commutative semiring.
-/
import ProbLogProofs.Lemmas.DDNNFRoot
import ProbLogProofs.Lemmas.DDNNFWeights
import Mathlib.Algebra.Ring.Rat

open Finset

namespace ProbLogProofs.C10
open ProbLogModel.DDNNF ProbLogProofs.DDNNF

variable {R : Type} [CommSemiring R]

/-- the example circuit `(x1 ∧ x2) ∨ (¬x1 ∧ ¬x2)` with decision variable 1 -/
def exC : Circuit :=
  [.lit 1, .lit (-1), .lit 2, .lit (-2), .and [0, 2], .and [1, 3], .or 1 [4, 5]]

/-- Evaluation of a validated circuit in any commutative semiring is the weighted model count over the
circuit's own variables. -/
theorem C10_eval_is_wmc (c : Circuit) (w : Int → R) (h : validate c = .ok) :
    evalC (srOf R) w c =
      ∑ T ∈ (rootVarsF c).powerset with satRoot c T = true,
        ∏ x ∈ rootVarsF c, (if x ∈ T then w (x : Int) else w (-(x : Int))) := by
  rw [evalC_is_wmc (validate_valid h) w, wmc_eq_sum_models]
  rfl

example : validate exC = .ok := by decide
example : rootVars exC = [1, 2] := by decide
example : evalC natSR (fun l => if l = 1 then 2 else if l = 2 then 3 else 1) exC = 7 := by decide

/-- every line, not only the root: value of line `i` = weighted model count of line `i` over `vars c i` -/
theorem C10_line_is_wmc (c : Circuit) (w : Int → R) (h : validate c = .ok) (i : Nat) (hi : i < c.length) :
    (evalLines (srOf R) w c).getD i 0 =
      ∑ T ∈ (vars c i).powerset with sat c i T = true,
        ∏ x ∈ vars c i, (if x ∈ T then w (x : Int) else w (-(x : Int))) := by
  have := val_is_wmc (validate_valid h) w i hi
  unfold valAt wmc at this
  rw [this, Finset.sum_filter]
  rfl

/-- the syntactic determinism check is sound -/
theorem C10_impliesLit_sound (c : Circuit) (h : validate c = .ok) (T : Finset Nat) (fuel i : Nat) (l : Int)
    (himp : impliesLit c fuel i l = true) (hs : sat c i T = true) : litTrue (assign T) l = true :=
  impliesLit_sound (validate_valid h).forward (assign T) fuel i l himp hs

/-! ### what acceptance by the validator means semantically (the three d-DNNF conditions of the property text) -/

/-- AND lines are decomposable: children have pairwise disjoint variable sets. -/
theorem C10_decomposable (c : Circuit) (h : validate c = .ok) (i : Nat) (hi : i < c.length) (cs : List Nat)
    (hnd : c[i] = .and cs) : cs.Pairwise (fun a b => Disjoint (vars c a) (vars c b)) := by
  have := (validate_valid h).and_decomposable hi hnd
  rw [pairwise_iff, List.pairwise_map] at this
  exact this.imp (fun hab => (disjointVars_iff _ _).mp hab)

/-- OR lines are smooth and deterministic: any two children have the same variables and are never true together. -/
theorem C10_smooth_deterministic (c : Circuit) (h : validate c = .ok) (i : Nat) (hi : i < c.length) (j : Nat)
    (cs : List Nat) (hnd : c[i] = .or j cs) :
    cs.Pairwise (fun a b => vars c a = vars c b ∧ ∀ T, ¬ (sat c a T = true ∧ sat c b T = true)) := by
  have hv := validate_valid h
  rcases hv.or_cases hi hnd with rfl | ⟨a, rfl⟩ | ⟨a, b, rfl, hsm, _, l, hl, ha, hb⟩
  · exact List.Pairwise.nil
  · exact List.pairwise_singleton _ _
  · rw [List.pairwise_pair]
    exact ⟨by unfold vars; rw [hsm], fun T => hv.or_exclusive (assign T) hl ha hb⟩

/-- the validator does reject: an OR of two independent literals (not deterministic), an OR of children with
different variables (not smooth), an AND of a variable with itself (not decomposable), a forward reference -/
example : validate [.lit 1, .lit 2, .or 1 [0, 1]] ≠ .ok := by decide
example : validate [.lit 1, .lit (-1), .lit 2, .and [1, 2], .or 1 [0, 3]] ≠ .ok := by decide
example : validate [.lit 1, .lit 1, .and [0, 1]] ≠ .ok := by decide
example : validate [.and [1], .lit 1] ≠ .ok := by decide

/-- Model counting: with `R = ℕ` and all weights 1 the value is the number of models. -/
theorem C10_count (c : Circuit) (h : validate c = .ok) :
    evalC natSR (fun _ => 1) c = (models c).card := by
  have := C10_eval_is_wmc (R := ℕ) c (fun _ => 1) h
  rw [srOf_nat] at this
  rw [this]
  simp [models]

example : evalC natSR (fun _ => 1) exC = 2 := by decide

/-- Conditioning on the negation of a clause: if the count with weight 0 on the literals of `κ` is 0, every model
of the circuit satisfies `κ`. -/
theorem C10_entails (c : Circuit) (κ : List Int) (h : validate c = .ok) (h0 : (0 : Int) ∉ κ)
    (hz : evalC natSR (fun l => if l ∈ κ then 0 else 1) c = 0) :
    ∀ T ∈ models c, clauseTrue (assign T) κ = true := by
  intro T hT
  have he := evalC_is_wmc (R := ℕ) (validate_valid h) (fun l => if l ∈ κ then 0 else 1)
  rw [srOf_nat, hz, wmc_eq_sum_models] at he
  exact wt_cond_zero κ h0 _ T (nat_sum_eq_zero _ _ he.symm T hT)

example : evalC natSR (fun l => if l ∈ [1, -2] then 0 else 1) exC = 0 := by decide

/-- finite sets: inclusion + equal cardinality ⇒ equality -/
theorem C10_equiv_sets {α : Type} (A B : Finset α) (hsub : A ⊆ B) (hcard : A.card = B.card) : A = B :=
  Finset.eq_of_subset_of_card_le hsub (by omega)

/-- "entails every clause + equal model count ⇒ same models as the CNF" (over the circuit's variables). -/
theorem C10_equiv (c : Circuit) (N : List (List Int)) (h : validate c = .ok)
    (h0 : ∀ κ ∈ N, (0 : Int) ∉ κ)
    (hent : ∀ κ ∈ N, evalC natSR (fun l => if l ∈ κ then 0 else 1) c = 0)
    (hcount : evalC natSR (fun _ => 1) c = (cnfModels N (rootVarsF c)).card) :
    models c = cnfModels N (rootVarsF c) := by
  apply C10_equiv_sets
  · intro T hT
    have hsub : T ∈ (rootVarsF c).powerset := (Finset.mem_filter.mp hT).1
    unfold cnfModels
    rw [Finset.mem_filter]
    refine ⟨hsub, ?_⟩
    rw [List.all_eq_true]
    intro κ hκ
    exact C10_entails c κ h (h0 κ hκ) (hent κ hκ) T hT
  · rw [← C10_count c h, hcount]

example : models exC = cnfModels [[1, -2], [-1, 2]] (rootVarsF exC) :=
  C10_equiv exC [[1, -2], [-1, 2]] (by decide) (by decide) (by decide) (by decide)

/-- The query trick of `SimpleDDNNFEvaluator.evaluate` (`_set_value`): zeroing the weight of `¬q` and evaluating
the root gives the weighted count of the models in which `q` is true. -/
theorem C10_query_trick (c : Circuit) (w : Int → R) (q : Int) (h : validate c = .ok) (hq : q ≠ 0)
    (hmem : q.natAbs ∈ rootVarsF c) :
    evalC (srOf R) (fun l => if l = -q then 0 else w l) c =
      ∑ T ∈ models c with litTrue (assign T) q = true,
        ∏ x ∈ rootVarsF c, (if x ∈ T then w (x : Int) else w (-(x : Int))) := by
  rw [evalC_is_wmc (validate_valid h), wmc_eq_sum_models, Finset.sum_filter]
  apply Finset.sum_congr rfl
  intro T _
  exact wt_query w _ T hq hmem

example : (2 : Int).natAbs ∈ rootVarsF exC := by decide

/-- `SimpleDDNNFEvaluator._set_value(|k|, k > 0)` (model `setValue`) on the evaluator's weight table is exactly the
weight change of `C10_query_trick`: the weight of the literal `-k` becomes 0, nothing else changes. -/
theorem C10_setValue_weights (ws : List (Nat × (Rat × Rat))) (k : Int) (hk : k ≠ 0) :
    litWeight (setValue ws k.natAbs (decide (k > 0))) = fun l => if l = -k then 0 else litWeight ws l :=
  litWeight_setValue ws k hk

/-- … hence evaluating the circuit with the table after `_set_value` gives the weighted count of the models with `k`
(probability semiring, exact rationals). -/
theorem C10_query_trick_setValue (c : Circuit) (ws : List (Nat × (Rat × Rat))) (k : Int) (h : validate c = .ok)
    (hk : k ≠ 0) (hmem : k.natAbs ∈ rootVarsF c) :
    evalC ratSR (litWeight (setValue ws k.natAbs (decide (k > 0)))) c =
      ∑ T ∈ models c with litTrue (assign T) k = true,
        ∏ x ∈ rootVarsF c, (if x ∈ T then litWeight ws (x : Int) else litWeight ws (-(x : Int))) := by
  rw [C10_setValue_weights ws k hk]
  exact C10_query_trick (R := ℚ) c (litWeight ws) k h hk hmem

/-- A homomorphism of semiring records commutes with circuit evaluation (no validity needed). -/
theorem C05_hom {A B : Type} (sr : SR A) (sr' : SR B) (f : A → B) (hf : SRHom sr sr' f)
    (w : Int → A) (c : Circuit) : f (evalC sr w c) = evalC sr' (f ∘ w) c :=
  evalC_hom hf w c

/-- … in particular every Mathlib ring homomorphism between commutative semirings. -/
theorem C05_hom_ring {S : Type} [CommSemiring S] (f : R →+* S) (w : Int → R) (c : Circuit) :
    f (evalC (srOf R) w c) = evalC (srOf S) (f ∘ w) c :=
  evalC_hom (ringHom_srHom f) w c

example : SRHom natSR ratSR (fun n : Nat => (n : Rat)) :=
  ⟨rfl, rfl, fun a b => by simp [natSR, ratSR], fun a b => by simp [natSR, ratSR]⟩

end ProbLogProofs.C10
