import ProbLogProofs.Lemmas.C17Total
import ProbLogModel.Lexer
/-!
# C27 — user errors surface as ProbLog errors, never as crashes (the modelled component: the parser)

Only the parser is modelled (lean/ProbLogModel/Parser.lean: `collapse`, `label_tokens`, `fold`, `_build_operator_free`,
`_build_clause`, and the factory of program.py statement by statement). Python exceptions are explicit results there:
`Err.internal k` = a non-ProbLog exception raised by parser.py's own code, `Err.crash k` = one raised inside the
factory. No model of the engine, the builtins, the clause database or the evaluator is available: for those components
C27 is exploration only (harness/props/c27.py).
-/
namespace ProbLogProofs.C27
open ProbLogModel.Parser ProbLogModel.Syntax ProbLogProofs.C17

/-- **Parser fold model** (partial: token lists without `<`): the only internal (non-ProbLog) exceptions the modelled
    `collapse` can end in are the two raise sites of `_build_clause` (`() :- a.`, `; :- a.` — both with a proposed fix). -/
theorem C27_parser_no_internal_partial (toks : List Tok)
    (h : ∀ t ∈ toks, t.aggregate = false ∧ (t.atom = false → t.functor = false) ∧
        (t.special = some .comma ∨ t.special = some .pipe → t.atom = false) ∧ t.special ≠ some .sharpOpen) :
    ∀ k, collapse toks = .error (.internal k) → k = "AttributeError:_build_clause" ∨ k = "IndexError:_build_clause" := by
  intro k hk
  refine collapse_noBad toks (fun t ht => ?_) k hk
  obtain ⟨h1, h2, h3, h4⟩ := h t ht
  exact ⟨⟨h1, rfl, h2, h3⟩, by simpa using h4⟩

/-- `label_tokens` on any token list: `tokens[i + 1]` is never out of range (no hypothesis needed). -/
theorem C27_label_no_internal (items : List Item) : ∀ k, label items ≠ .error (.internal k) :=
  labelGo_noInt items none

/-- The factory builders of program.py as modelled never produce a *parser-internal* error: their crashes are the
    separate `Err.crash` outcomes (`AttributeError` on a `None` operand, `IndexError` on `':'(a) :- b`, `TypeError` on
    `0.5::\+1`), each reproduced on the real code by the C17 harness. -/
theorem C27_factory_no_internal (heads : List Tm) (body p t : Tm) (f : String) (n : Nat) (s : Spec) :
    (∀ k, Factory.clause heads body ≠ .error (.internal k)) ∧
    (∀ k, Factory.probabilistic p t ≠ .error (.internal k)) ∧
    (∀ k, Factory.unop f t n s ≠ .error (.internal k)) :=
  ⟨clause_noInt heads body, probabilistic_noInt p t, unop_noInt f t n s⟩

/-- non-vacuity of the hypothesis: see `ProbLogProofs.C17`; the refutation of the unrestricted statement: -/
theorem C27_parser_no_internal_refuted : ProbLogModel.Lexer.parseString "a <." = .error (.internal "IndexError:collapse") := rfl

end ProbLogProofs.C27
