import ProbLogProofs.Lemmas.SLD
import ProbLogProofs.Lemmas.ClauseIndex
/-!
# C13 — deterministic programs agree with standard Prolog, including findall order (property theorems only)

The reference for "standard Prolog" is the Lean SLD interpreter `ProbLogModel.SLD.solveSt`/`solve` (no Prolog system
is available to the check).  It is proved sound for the inductive least-model semantics `Derivable`; the model of
`ClauseIndex.find` (the clause selection of the engine) returns the candidate clauses in program order.
-/
namespace ProbLogProofs.C13
open ProbLogModel.SLD ProbLogModel.ClauseIndex ProbLogModel.Containers
open ProbLogProofs.SLDLemmas ProbLogProofs.ClauseIndexLemmas

/-- **Soundness of SLD search**: every computed answer of `solve` makes the goal derivable in the least-model
    semantics — and so does every instance of the answer. -/
theorem C13_sld_sound (P : Program) (g : Goal) (n : Nat) (as : List Subst) (h : solve P g n = some as) :
    ∀ a ∈ as, Derivable P (g.subst a) ∧ ∀ γ : Subst, Derivable P ((g.subst a).subst γ) := by
  intro a ha
  unfold solve at h
  cases hs : solveSt P n g ⟨[], g.maxVar⟩ with
  | none => simp [hs] at h
  | some sts =>
    simp only [hs, Option.map_some, Option.some.injEq] at h
    subst h
    obtain ⟨st, hst, rfl⟩ := List.mem_map.1 ha
    obtain ⟨_, d⟩ := solveSt_sound P n g _ sts hs st hst
    refine ⟨?_, d⟩
    have := d []
    rwa [G.subst_nil] at this

/-- Answers only instantiate: the answer substitution of a sub-search extends the substitution it started from. -/
theorem C13_sld_answers_extend (P : Program) (n : Nat) (g : Goal) (s : St) (as : List St)
    (h : solveSt P n g s = some as) : ∀ a ∈ as, ∃ θ : Subst, ∀ t : Tm, t.subst a.σ = (t.subst s.σ).subst θ :=
  fun a ha => (solveSt_sound P n g s as h a ha).1

/-- The unifier used by the search unifies. -/
theorem C13_unify_sound (n : Nat) (a b : Tm) (θ : Subst) (h : unifyF n a b = some (some θ)) :
    a.subst θ = b.subst θ := unifyF_sound n a b θ h

/-- **Bottom-up evaluation is sound**: for a positive program every atom produced by the naive T_P iteration is a
    ground atom of the least model (the answer-set semantics used for tabled, recursive programs). -/
theorem C13_bottomup_sound (P : Program) (hpos : ∀ c ∈ P, c.body.positive = true) (fuel rounds : Nat) (F : List Tm)
    (h : bottomUp P fuel rounds [] = some F) : ∀ f ∈ F, f.ground = true ∧ Derivable P (.call f) :=
  bottomUp_sound P hpos fuel rounds [] F (by intro f hf; simp at hf) h

/-- **Completeness, ground case** (`_partial`): for a ground (propositional) positive program, a derivable ground
    positive goal has an answer whenever the search terminates.  The full statement — not proved here; it needs the
    lifting lemma and most-generality of `unifyF` — is
    `solve P g n = some as → Derivable P ((g.subst γ)) → ∃ a ∈ as, ∃ γ', (g.subst a).subst γ' = g.subst γ`. -/
theorem C13_sld_complete_partial (P : Program)
    (hP : ∀ c ∈ P, c.head.ground = true ∧ c.body.ground = true ∧ c.body.positive = true)
    (g : Goal) (hg : g.ground = true) (hp : g.positive = true) (hd : Derivable P g)
    (n : Nat) (as : List Subst) (h : solve P g n = some as) : as ≠ [] := by
  unfold solve at h
  cases hs : solveSt P n g ⟨[], g.maxVar⟩ with
  | none => simp [hs] at h
  | some sts =>
    simp only [hs, Option.map_some, Option.some.injEq] at h
    subst h
    have := ground_complete P hP g hd hg hp n _ sts hs
    simpa using this

/-- **Negation as failure is sound, ground case** (`_partial`): for a ground positive program, a ground positive goal
    whose SLD search fails finitely is not derivable — what justifies the `neg` rule of `Derivable`. -/
theorem C13_naf_sound_partial (P : Program)
    (hP : ∀ c ∈ P, c.head.ground = true ∧ c.body.ground = true ∧ c.body.positive = true)
    (g : Goal) (hg : g.ground = true) (hp : g.positive = true) (n : Nat) (h : solve P g n = some []) :
    ¬ Derivable P g :=
  fun hd => C13_sld_complete_partial P hP g hg hp hd n [] h rfl

/-- **Clause selection in program order**: for a predicate whose clauses `(id, head keys)` were appended in program
    order (distinct ids, keys of the predicate's arity), `find` returns exactly the clauses whose head may match the
    call — every call argument is non-ground, or the head argument is non-ground, or both are the same ground term —
    in program order. -/
theorem C13_index_order (arity : Nat) (cls : List (Int × List Key)) (hnd : (cls.map (·.1)).Nodup)
    (hlen : ∀ c ∈ cls, c.2.length = arity) (args : List Key) (hargs : args.length ≤ arity) :
    ∃ ci, build arity cls = some ci ∧
      find ci args = .ok ((cls.filter (fun c => mayMatch c.2 args)).map (·.1)) := by
  obtain ⟨ci, hb, inv⟩ := build_spec arity cls hnd hlen
  refine ⟨ci, hb, ?_⟩
  have hspec := findLoop_spec ci.position cls hnd inv.pos args ci.index 0 (fun _ => true) none inv.wf
    (by rw [inv.len]; exact hargs) (by intro c hc; rw [inv.len, hlen c hc]; simp) (by intro c _; rfl)
  simp only [List.drop_zero, Bool.true_and] at hspec
  unfold find
  cases hl : findLoop ci.position ci.index args none with
  | earlyEmpty => rw [hl] at hspec; simp only [LoopOK] at hspec; simp [hspec]
  | done r =>
    rw [hl] at hspec
    cases r with
    | none => simp only [LoopOK] at hspec; simp [inv.erased, inv.items, hspec]
    | some r => simp only [LoopOK] at hspec; simp [inv.erased, hspec]
  | indexError => rw [hl] at hspec; exact absurd hspec (by simp [LoopOK])
  | keyError => rw [hl] at hspec; exact absurd hspec (by simp [LoopOK])

/-- The code before the fix (`curr |= none` in place, `results & curr`) does *not* return the clauses in program
    order, and it modifies the index: `p(X,1). p(a,2). p(b,3). p(Y,4).` called as `p(a,_)`. -/
theorem C13_index_order_unfixed_refuted :
    ∃ (cls : List (Int × List Key)) (args : List Key) (ci : CIndex), build 2 cls = some ci ∧
      (findOld ci args).1 = [1, 0, 3] ∧
      (cls.filter (fun c => mayMatch c.2 args)).map (·.1) = [0, 1, 3] ∧
      (findOld ci args).2.index ≠ ci.index := by
  refine ⟨[(0, [none, some "1"]), (1, [some "a", some "2"]), (2, [some "b", some "3"]), (3, [none, some "4"])],
    [some "a", none], _, rfl, ?_, ?_, ?_⟩ <;> decide

/-! Non-vacuity -/
example : solve [⟨.app (.sym "p") (.sym "a"), .tt, 0⟩, ⟨.app (.sym "p") (.sym "b"), .tt, 0⟩]
    (.call (.app (.sym "p") (.var 0))) 5 = some [[(0, .sym "a")], [(0, .sym "b")]] := by decide

/-- The witness of the defect, on the fixed model: the hypotheses of `C13_index_order` are satisfiable and the
    result is the Prolog order `[0, 1, 3]`. -/
example : ∃ ci, build 2 [(0, [none, some "1"]), (1, [some "a", some "2"]), (2, [some "b", some "3"]), (3, [none, some "4"])] = some ci ∧
    find ci [some "a", none] = .ok [0, 1, 3] := by
  have h := C13_index_order 2 [(0, [none, some "1"]), (1, [some "a", some "2"]), (2, [some "b", some "3"]), (3, [none, some "4"])]
    (by decide) (by decide) [some "a", none] (by decide)
  have e : (([(0, [none, some "1"]), (1, [some "a", some "2"]), (2, [some "b", some "3"]), (3, [none, some "4"])] :
      List (Int × List Key)).filter (fun c => mayMatch c.2 [some "a", none])).map (·.1) = [0, 1, 3] := by decide
  rw [e] at h
  exact h

example : solve [⟨.sym "a", .call (.sym "b"), 0⟩, ⟨.sym "b", .tt, 0⟩] (.call (.sym "a")) 6 = some [[]] := by decide
example : solve [⟨.sym "a", .call (.sym "b"), 0⟩] (.call (.sym "a")) 6 = some [] := by decide

example : bottomUp [⟨.app (.sym "e") (.sym "a"), .tt, 0⟩,
    ⟨.app (.sym "r") (.var 0), .call (.app (.sym "e") (.var 0)), 1⟩] 5 5 [] =
    some [.app (.sym "e") (.sym "a"), .app (.sym "r") (.sym "a")] := by decide

end ProbLogProofs.C13
