import ProbLogModel.Sem
import ProbLogModel.GroundAcyclic
import ProbLogProofs.Lemmas.GroundSem
import ProbLogProofs.Lemmas.GroundInline
/-!
# C01 on ground acyclic programs: the auxiliary AD-body goals do not change the specification value (property theorems only)

The grounding-engine model (and ClauseDB) gives every annotated disjunction / probabilistic rule an auxiliary body goal
(`h :- body_g, choice.  body_g :- Body.`); `C01Ground.C01_ground_acyclic_correct` speaks about `Sem.wfm (toSem P)` of
that program.  The harness sends the INLINED program (`h :- Body` guarded by the choice, `spine.reference`) to `Sem`.
`inline P isAux` is that inlining on the model program; both programs give every non-auxiliary atom the same value in
every world.  (Not covered: the renumbering of atoms and choices between `inline P` and `spine.sem_line`.)
-/
namespace ProbLogProofs.C01Ground
open ProbLogModel ProbLogModel.GroundAcyclic ProbLogProofs.GroundSem ProbLogProofs.GroundInline
open ProbLogModel.Sem (getB wfm)

/-- `P` acyclic and well formed, its inlining too (both decidable: `wfB`), auxiliary goals of the ClauseDB shape
    (`AuxOK`, decidable: `auxOKB`): the well-founded models agree on all non-auxiliary atoms, in every world. -/
theorem C01_ground_inline_same_truth {P : Prog} {isAux : Atom → Bool} {natoms : Nat} {rk rk' : Atom → Nat}
    (hw : WfP P natoms rk) (hw' : WfP (inline P isAux) natoms rk') (hok : AuxOK P isAux) (chosen : Array Bool)
    (a : Atom) (ha : isAux a = false) :
    getB (wfm (toSem (inline P isAux)) chosen natoms).1 a = getB (wfm (toSem P) chosen natoms).1 a := by
  have h := isModel_unique hw' chosen (wfm_isModel hw' chosen) (inline_isModel hok (wfm_isModel hw chosen)) a
  rw [h]
  simp [drop, ha]

/-- ... and the auxiliary atoms are simply absent (false) in the inlined program. -/
theorem C01_ground_inline_aux_false {P : Prog} {isAux : Atom → Bool} {natoms : Nat} {rk' : Atom → Nat}
    (hw' : WfP (inline P isAux) natoms rk') (chosen : Array Bool) (a : Atom) (ha : isAux a = true) :
    getB (wfm (toSem (inline P isAux)) chosen natoms).1 a = false := by
  have h := wfm_isModel hw' chosen a
  rw [h, clausesOf_inline, ha]; rfl

/-- the example program of `C01Ground.lean`: goal 6 is the body goal of the AD `0.2::a ; 0.3::b :- p` -/
def exP2 : Prog :=
  { defs := [(0, [.fact 0 (some (3/10)) 0]), (1, [.fact 1 (some (2/5)) 1]),
             (2, [.rule [.pos 0, .neg 1] none, .rule [.pos 1] none]),
             (3, [.rule [.pos 2, .pos 0] none]),
             (6, [.rule [.pos 2] none]),
             (4, [.rule [.pos 6] (some ⟨2, 1, 1/5, 7⟩)]),
             (5, [.rule [.pos 6] (some ⟨3, 1, 3/10, 8⟩)])] }

def exRank2 : Atom → Nat := fun a => [0, 0, 1, 2, 3, 3, 2].getD a 0

example : WfP exP2 7 exRank2 ∧ WfP (inline exP2 (· == 6)) 7 exRank2 ∧ AuxOK exP2 (· == 6) :=
  ⟨wfB_sound (by decide), wfB_sound (by decide), auxOKB_sound (by decide)⟩
example : (inline exP2 (· == 6)).clausesOf 4 = [.rule [.pos 2] (some ⟨2, 1, 1/5, 7⟩)] := by decide +kernel

end ProbLogProofs.C01Ground
