import ProbLogModel.PyPl
import ProbLogProofs.Lemmas.PyPl
import ProbLogModel.Extern
import ProbLogProofs.Lemmas.Extern
/-!
# C28 — Python and Prolog values convert losslessly (property theorems only)

`pl2py ∘ py2pl` is the identity exactly on the values described by `good dec` (decidable, also computed by the
driver to classify failures on the real code):

* ints; floats with at most 15 decimals (`Constant` rounds to 15 decimals);
* strings that the string decoder `dec` restores — all strings for the proposed fix (`stripPair`),
  strings without `"` and `'` for the current code (`stripAll`);
* lists of such values; tuples of length ≠ 1 of such values whose last element is not a tuple of length ≥ 2.

The property text includes strings with quotes, all floats and all nested tuples of length ≠ 1: the three
refutations below give the witnesses (replayed on the real code by the harness).
-/
namespace ProbLogProofs.C28
open ProbLogModel.PyPl ProbLogProofs.PyPlLemmas

theorem notComma_py2pl (dec : String → String) (v : PyVal) (hg : good dec v = true)
    (hl : isLongTup v = false) : notComma (py2pl v) = true := by
  cases v with
  | int i => simp [py2pl, notComma]
  | flt q => simp [py2pl, notComma]
  | str s => simp [py2pl, notComma]
  | list xs => rw [py2pl_list]; exact notComma_foldr_list _
  | tup xs =>
    cases xs with
    | nil => rw [py2pl_tup_nil]; rfl
    | cons x xs =>
      cases xs with
      | nil => simp [good] at hg
      | cons y ys => simp [isLongTup] at hl
  | term t => simp [good] at hg

theorem goodAll_append (dec : String → String) (xs ys : List PyVal) :
    goodAll dec (xs ++ ys) = (goodAll dec xs && goodAll dec ys) := by
  induction xs with
  | nil => simp [goodAll]
  | cons x xs ih => simp [goodAll, ih, Bool.and_assoc]

mutual
/-- **Round trip** on the domain `good dec`. -/
theorem roundtrip (dec : String → String) : (v : PyVal) → good dec v = true →
    pl2pyWith dec (py2pl v) = v
  | .int i, _ => by simp [py2pl, pl2pyWith]
  | .flt q, h => by
    have : round15 q = q := by simpa [good] using h
    simp [py2pl, pl2pyWith, this]
  | .str s, h => by
    have : dec (quoteStr s) = s := by simpa [good] using h
    simp [py2pl, pl2pyWith, this]
  | .list xs, h => by
    have hx : goodAll dec xs = true := by simpa [good] using h
    rw [py2pl_list, pl2py_foldr_list, roundtripAll dec xs hx]
  | .tup xs, h => by
    have h' : (xs.length != 1 && goodAll dec xs && lastOk xs) = true := by simpa [good] using h
    simp only [Bool.and_eq_true] at h'
    obtain ⟨⟨hlen, hx⟩, hlast⟩ := h'
    have ih := roundtripAll dec xs hx
    rcases List.eq_nil_or_concat xs with he | ⟨init, last, he⟩
    · subst he
      rw [py2pl_tup_nil]; simp [pl2pyWith, nonSeq]
    · rw [List.concat_eq_append] at he
      subst he
      rw [py2pl_tup_concat]
      have hgl : good dec last = true := by
        rw [goodAll_append] at hx
        simp only [Bool.and_eq_true, goodAll] at hx
        exact hx.2.1
      have hnl : isLongTup last = false := by
        simp [lastOk, List.getLast?_concat] at hlast
        exact hlast
      have hnc := notComma_py2pl dec last hgl hnl
      have hmap : py2plAll (init ++ [last]) = py2plAll init ++ [py2pl last] := by
        simp [py2plAll_eq_map]
      rw [hmap] at ih
      cases hi : py2plAll init with
      | nil =>
        -- then init = [] and the tuple has length one: excluded
        have : init = [] := by
          rw [py2plAll_eq_map] at hi
          simpa using hi
        subst this
        simp at hlen
      | cons t ts =>
        rw [pl2py_foldr_tup, tupRest_notComma dec _ hnc]
        rw [hi] at ih
        simp only [List.map_append, List.map_cons, List.map_nil] at ih
        simp only [List.map_cons]
        rw [ih]
  | .term t, h => by simp [good] at h
theorem roundtripAll (dec : String → String) : (xs : List PyVal) → goodAll dec xs = true →
    (py2plAll xs).map (pl2pyWith dec) = xs
  | [], _ => by simp [py2plAll]
  | x :: xs, h => by
    have h' : (good dec x && goodAll dec xs) = true := by simpa [goodAll] using h
    simp only [Bool.and_eq_true] at h'
    simp [py2plAll, roundtrip dec x h'.1, roundtripAll dec xs h'.2]
end

/-- Round trip for the code with the proposed fix: every string is restored. -/
theorem C28_roundtrip_fix (v : PyVal) (h : good stripPair v = true) : pl2pyFix (py2pl v) = v :=
  roundtrip stripPair v h

theorem C28_fix_strings_good (s : String) : good stripPair (.str s) = true := by
  simp [good, stripPair_quoteStr]

/-- Round trip for the current code: strings must not contain quote characters. -/
theorem C28_roundtrip_current (v : PyVal) (h : good stripAll v = true) : pl2pyCur (py2pl v) = v :=
  roundtrip stripAll v h

theorem C28_current_strings_good (s : String) (h : ∀ c ∈ s.toList, c ≠ '"' ∧ c ≠ '\'') :
    good stripAll (.str s) = true := by
  simp [good, stripAll_quoteStr s h]

/-- `list2term` / `term2list` (the `list` arguments of `problog_export`) round-trip on the same domain. -/
theorem C28_export_list_roundtrip (dec : String → String) (xs : List PyVal) (h : goodAll dec xs = true) :
    term2list dec (list2term xs) = some xs := by
  have hm := roundtripAll dec xs h
  unfold list2term
  rw [← List.foldr_reverse (f := fun e tail => Pl.app2 "." e tail), List.reverse_reverse]
  generalize py2plAll xs = ts at hm
  induction ts generalizing xs with
  | nil => simp at hm; subst hm; simp [term2list]
  | cons t ts ih =>
    cases xs with
    | nil => simp at hm
    | cons x xs =>
      simp only [List.map_cons, List.cons.injEq] at hm
      have h' : goodAll dec xs = true := by
        have : (good dec x && goodAll dec xs) = true := by simpa [goodAll] using h
        simp only [Bool.and_eq_true] at this
        exact this.2
      simp [term2list, ih xs h' hm.2, hm.1]

mutual
/-- The driver's classifier is sound: "ok" means inside the round-trip domain. -/
theorem why_ok (dec : String → String) : (v : PyVal) → why dec v = "ok" → good dec v = true
  | .int _, _ => by simp [good]
  | .flt q, h => by
    simp only [why] at h
    split at h
    · rename_i hq; simpa [good] using hq
    · simp at h
  | .str s, h => by
    simp only [why] at h
    split at h
    · rename_i hq; simpa [good] using hq
    · simp at h
  | .list xs, h => by
    simp only [why] at h
    simp [good, whyAll_ok dec xs h]
  | .tup xs, h => by
    simp only [why] at h
    split at h
    · simp at h
    · rename_i hlen
      split at h
      · rename_i hw; simp [h] at hw
      · rename_i hw
        have hw : whyAll dec xs = "ok" := by simpa using hw
        split at h
        · rename_i hl
          simp only [good, Bool.and_eq_true]
          exact ⟨⟨by simpa using hlen, whyAll_ok dec xs hw⟩, hl⟩
        · simp at h
  | .term _, h => by simp [why] at h
theorem whyAll_ok (dec : String → String) : (xs : List PyVal) → whyAll dec xs = "ok" → goodAll dec xs = true
  | [], _ => by simp [goodAll]
  | x :: xs, h => by
    simp only [whyAll] at h
    split at h
    · rename_i hw; simp [h] at hw
    · rename_i hw
      have hw : why dec x = "ok" := by simpa using hw
      simp [goodAll, why_ok dec x hw, whyAll_ok dec xs h]
end

theorem C28_why_ok_roundtrip (dec : String → String) (v : PyVal) (h : why dec v = "ok") :
    pl2pyWith dec (py2pl v) = v := roundtrip dec v (why_ok dec v h)

/-! ## Refutations (shapes the property text includes but the code loses) -/

/-- Current code: a string containing a quote character never survives. -/
theorem C28_quotes_refuted (s : String) (h : ∃ c ∈ s.toList, c = '"' ∨ c = '\'') :
    pl2pyCur (py2pl (.str s)) ≠ .str s := by
  simp only [py2pl, pl2pyCur, pl2pyWith]
  intro e
  exact stripAll_quoteStr_ne s h (PyVal.str.inj e)

/-- Witness: `'a"b'` comes back as `'ab'`. -/
theorem C28_quotes_witness : pl2pyCur (py2pl (.str "a\"b")) = .str "ab" := by
  rfl

/-- A tuple whose last element is a tuple of length ≥ 2 is flattened (any string decoder):
    `(1, (2, 3))` comes back as `(1, 2, 3)`. -/
theorem C28_trailing_tuple_refuted (dec : String → String) :
    pl2pyWith dec (py2pl (.tup [.int 1, .tup [.int 2, .int 3]])) = .tup [.int 1, .int 2, .int 3] := by
  rfl

/-- In general: the elements of a trailing tuple are spliced into the outer tuple. -/
theorem C28_trailing_tuple_flattened (dec : String → String) (x : PyVal) (init : List PyVal)
    (y1 : PyVal) (ys : List PyVal) (yl : PyVal)
    (hi : goodAll dec (x :: init) = true) (hy : good dec (.tup (y1 :: ys ++ [yl])) = true) :
    pl2pyWith dec (py2pl (.tup ((x :: init) ++ [.tup (y1 :: ys ++ [yl])])))
      = .tup ((x :: init) ++ (y1 :: ys ++ [yl])) := by
  have hy' := roundtrip dec _ hy
  have e1 : y1 :: ys ++ [yl] = (y1 :: ys) ++ [yl] := rfl
  rw [py2pl_tup_concat, e1, py2pl_tup_concat] at *
  have hmi := roundtripAll dec (x :: init) hi
  simp only [py2plAll] at hmi ⊢
  rw [pl2py_foldr_tup, tupRest_foldr]
  simp only [py2plAll] at hy'
  rw [pl2py_foldr_tup] at hy'
  have := PyVal.tup.inj hy'
  rw [hmi, this]

/-- Floats with more than 15 decimals are rounded: `1e-16` comes back as `0.0`. -/
theorem C28_float_precision_refuted (dec : String → String) :
    pl2pyWith dec (py2pl (.flt (1 / 10000000000000000))) = .flt 0 := by
  simp only [py2pl, pl2pyWith]
  congr 1
  decide +kernel

/-- Outside the property (length-one tuples): `(1,)` comes back as `1`. -/
theorem C28_singleton_tuple (dec : String → String) : pl2pyWith dec (py2pl (.tup [.int 1])) = .int 1 := by
  rfl

/-! Non-vacuity: a nested value with all shapes inside the domain. -/
example : good stripPair (.list [.int 1, .flt (1 / 4), .str "it's \"x\"", .tup [], .tup [.int 1, .list [.tup [.int 2, .int 3]]]]) = true := by
  decide +kernel
example : good stripAll (.tup [.str "ab", .tup [.int 1, .int 2], .int 3]) = true := by decide +kernel

/-! ## The wrapper of `problog_export` (ProbLogModel/Extern.lean): which calls succeed

"A function exported with problog_export is seen from ProbLog as returning exactly its Python result": a call whose
bound output arguments have the declared types never raises CallModeError, and it has an answer iff every bound output
equals the corresponding converted result; the answer carries exactly the converted results.  The proof does not use
that `check_mode` finds the *intended* mode index, only that whatever accepted mode it returns has the bit of every
bound output set — which is where the bit order of `_extract_callmode` and of the wrapper's loop have to agree. -/
section Export
open ProbLogModel.Extern ProbLogProofs.ExternLemmas

/-- **Decision rule of `problog_export`.** -/
theorem C28_export_decision (targs : List (Ty × Arg)) (rs : List Pl)
    (hlen : rs.length = targs.length) (hty : wellTyped targs = true) :
    exportCall targs rs = if allMatch targs rs then .ok rs else .fail := by
  obtain ⟨b, hb, hm⟩ := checkMode_some targs hty
  simp only [exportCall, hb, wrapLoop_of_matches b targs rs hlen hm]
  by_cases h : allMatch targs rs = true <;> simp [h]

/-- **Decision rule of `problog_export_nondet` / `problog_export_raw`**: the answers are exactly the result tuples all
    of whose components equal the bound arguments, in the order returned by the Python function. -/
theorem C28_export_nondet_decision (targs : List (Ty × Arg)) (rss : List (List Pl))
    (hlen : ∀ rs ∈ rss, rs.length = targs.length) (hty : wellTyped targs = true) :
    exportCallNondet targs rss = some (rss.filter (allMatch targs)) := by
  obtain ⟨b, hb, hm⟩ := checkMode_some targs hty
  simp only [exportCallNondet, hb, Option.some.injEq]
  induction rss with
  | nil => rfl
  | cons rs rest ih =>
    have h1 := wrapLoop_of_matches b targs rs (hlen rs (by simp)) hm
    have ih' := ih (fun r hr => hlen r (by simp [hr]))
    simp only [List.filterMap_cons, List.filter_cons, h1]
    by_cases h : allMatch targs rs = true <;> simp [h, ih']

/-- The bit order matters: with the loop's test `bound & (1 << i)` (the code of `problog_export_raw` before
    repo_patches/C28_raw_bound_bit.diff, and the seeded defect C28_3 in `problog_export`) the call
    `f(Q, 5)` succeeds although the function returned `(3, 2)`. -/
theorem C28_export_reversed_bit_refuted :
    exportCallRev [(.int, .unbound), (.int, .bound (.cint 5))] [.cint 3, .cint 2] = .ok [.cint 3, .cint 2]
    ∧ allMatch [(.int, .unbound), (.int, .bound (.cint 5))] [.cint 3, .cint 2] = false := by
  decide

/-! Non-vacuity: a well-typed call that succeeds, one that fails, and a nondeterministic one that keeps one of two. -/
example : wellTyped [(.int, .unbound), (.str, .bound (.atom "ab")), (.list, .bound (.app2 "." (.cint 1) (.atom "[]")))] = true
    ∧ exportCall [(.int, .unbound), (.str, .bound (.atom "ab")), (.list, .bound (.app2 "." (.cint 1) (.atom "[]")))]
        [.cint 7, .atom "ab", .app2 "." (.cint 1) (.atom "[]")] = .ok [.cint 7, .atom "ab", .app2 "." (.cint 1) (.atom "[]")] := by
  decide
example : exportCall [(.int, .unbound), (.int, .bound (.cint 5))] [.cint 3, .cint 2] = .fail := by decide
example : exportCallNondet [(.int, .bound (.cint 3)), (.term, .unbound)] [[.cint 3, .atom "a"], [.cint 4, .atom "b"]]
    = some [[.cint 3, .atom "a"]] := by decide
/-- An ill-typed bound output is a CallModeError (outside the theorems' hypothesis). -/
example : exportCall [(.int, .bound (.atom "x"))] [.cint 3] = .modeError := by decide

end Export

end ProbLogProofs.C28
