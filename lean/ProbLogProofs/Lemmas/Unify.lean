import ProbLogModel.Unify
/-!
Helper lemmas for C14: terms, substitutions, the step classification of Robinson's algorithm.
-/
namespace ProbLogProofs.UnifyLemmas
open ProbLogModel.Unify

/-- Induction principle for the nested inductive `Tm`. -/
theorem Tm.ind {P : Tm → Prop} (hvar : ∀ v, P (.var v)) (hanon : P .anon) (hconst : ∀ c, P (.const c))
    (happ : ∀ f as, (∀ a ∈ as, P a) → P (.app f as)) : ∀ t, P t := by
  intro t
  exact Tm.rec (motive_1 := P) (motive_2 := fun l => ∀ a ∈ l, P a)
    hvar hanon hconst (fun f as ih => happ f as ih)
    (by intro a h; cases h)
    (fun hd tl ih1 ih2 a h => by
      cases h with
      | head => exact ih1
      | tail _ h => exact ih2 a h) t

theorem substL_eq_map (θ : Int → Tm) (as : List Tm) : substL θ as = as.map (Tm.subst θ) := by
  induction as with
  | nil => simp [substL]
  | cons a as ih => simp [substL, ih]

theorem occL_eq_any (x : Int) (as : List Tm) : occL x as = as.any (Tm.occ x) := by
  induction as with
  | nil => simp [occL]
  | cons a as ih => simp [occL, ih]

theorem sizeL_eq_sum (as : List Tm) : sizeL as = (as.map Tm.size).sum := by
  induction as with
  | nil => simp [sizeL]
  | cons a as ih => simp [sizeL, ih]

@[simp] theorem subst_var (θ : Int → Tm) (v : Int) : (Tm.var v).subst θ = θ v := by simp [Tm.subst]
@[simp] theorem subst_anon (θ : Int → Tm) : Tm.anon.subst θ = .anon := by simp [Tm.subst]
@[simp] theorem subst_const (θ : Int → Tm) (c : Const) : (Tm.const c).subst θ = .const c := by simp [Tm.subst]
@[simp] theorem subst_app (θ : Int → Tm) (f : String) (as : List Tm) :
    (Tm.app f as).subst θ = .app f (as.map (Tm.subst θ)) := by simp [Tm.subst, substL_eq_map]

@[simp] theorem occ_var (x v : Int) : (Tm.var v).occ x = (v == x) := by simp [Tm.occ]
@[simp] theorem occ_anon (x : Int) : Tm.anon.occ x = false := by simp [Tm.occ]
@[simp] theorem occ_const (x : Int) (c : Const) : (Tm.const c).occ x = false := by simp [Tm.occ]
@[simp] theorem occ_app (x : Int) (f : String) (as : List Tm) :
    (Tm.app f as).occ x = as.any (Tm.occ x) := by simp [Tm.occ, occL_eq_any]

/-- Composition law: substituting `τ` then `θ` is substituting `y ↦ θ(τ y)`. -/
theorem subst_subst (θ τ : Int → Tm) : ∀ t : Tm, (t.subst τ).subst θ = t.subst (fun y => (τ y).subst θ) := by
  apply Tm.ind
  · intro v; simp
  · simp
  · intro c; simp
  · intro f as ih
    simp only [subst_app, List.map_map, Tm.app.injEq, true_and]
    apply List.map_congr_left
    intro a ha
    exact ih a ha

/-- Substitutions that agree on the variables of `t` agree on `t`. -/
theorem subst_congr (θ θ' : Int → Tm) : ∀ t : Tm, (∀ y, t.occ y = true → θ y = θ' y) → t.subst θ = t.subst θ' := by
  apply Tm.ind
  · intro v h; simp; exact h v (by simp)
  · simp
  · intro c; simp
  · intro f as ih h
    simp only [subst_app, Tm.app.injEq, true_and]
    apply List.map_congr_left
    intro a ha
    apply ih a ha
    intro y hy
    apply h
    simp only [occ_app, List.any_eq_true]
    exact ⟨a, ha, hy⟩

theorem subst_id : ∀ t : Tm, t.subst Tm.var = t := by
  apply Tm.ind
  · intro v; simp
  · simp
  · intro c; simp
  · intro f as ih
    simp only [subst_app, Tm.app.injEq, true_and]
    conv => rhs; rw [← List.map_id as]
    apply List.map_congr_left
    intro a ha
    simpa using ih a ha

/-- Eliminating a variable that does not occur changes nothing. -/
theorem elim_of_not_occ (x : Int) (u t : Tm) (h : t.occ x = false) : t.elim x u = t := by
  unfold Tm.elim
  have := subst_congr (single x u) Tm.var t (by
    intro y hy
    unfold single
    split
    · rename_i e; subst e; rw [h] at hy; cases hy
    · rfl)
  rw [this, subst_id]

/-- A substitution that solves `x ≐ u` does not see the elimination of `x` by `u`. -/
theorem subst_elim (θ : Int → Tm) (x : Int) (u t : Tm) (h : θ x = u.subst θ) :
    (t.elim x u).subst θ = t.subst θ := by
  unfold Tm.elim
  rw [subst_subst]
  congr 1
  funext y
  unfold single
  split
  · rename_i e; subst e; exact h.symm
  · simp

@[simp] theorem size_app (f : String) (as : List Tm) : (Tm.app f as).size = 1 + (as.map Tm.size).sum := by
  simp [Tm.size, sizeL_eq_sum]

theorem size_pos (t : Tm) : 0 < t.size := by
  cases t <;> simp [Tm.size] <;> omega

theorem le_sum_of_mem {l : List Nat} {n : Nat} (h : n ∈ l) : n ≤ l.sum := by
  induction l with
  | nil => cases h
  | cons a l ih =>
    simp only [List.mem_cons] at h
    simp only [List.sum_cons]
    rcases h with rfl | h
    · omega
    · have := ih h; omega

/-- If `x` occurs in `t` then `θ x` is no larger than `θ t`. -/
theorem size_le_of_occ (θ : Int → Tm) (x : Int) : ∀ t : Tm, t.occ x = true → (θ x).size ≤ (t.subst θ).size := by
  apply Tm.ind
  · intro v h; simp at h; subst h; simp
  · simp
  · intro c; simp
  · intro f as ih h
    simp only [occ_app, List.any_eq_true] at h
    obtain ⟨a, ha, hx⟩ := h
    have h1 := ih a ha hx
    simp only [subst_app, size_app, List.map_map]
    have : (a.subst θ).size ∈ List.map (Tm.size ∘ Tm.subst θ) as := by
      simp only [List.mem_map, Function.comp]
      exact ⟨a, ha, rfl⟩
    have := le_sum_of_mem this
    omega

/-- … and strictly smaller when `t` is a compound term: the occurs-check argument. -/
theorem size_lt_of_occ_app (θ : Int → Tm) (x : Int) (f : String) (as : List Tm)
    (h : (Tm.app f as).occ x = true) : (θ x).size < ((Tm.app f as).subst θ).size := by
  simp only [occ_app, List.any_eq_true] at h
  obtain ⟨a, ha, hx⟩ := h
  have h1 := size_le_of_occ θ x a hx
  simp only [subst_app, size_app, List.map_map]
  have : (a.subst θ).size ∈ List.map (Tm.size ∘ Tm.subst θ) as := by
    simp only [List.mem_map, Function.comp]
    exact ⟨a, ha, rfl⟩
  have := le_sum_of_mem this
  omega

/-- No substitution solves `x ≐ t` when `x` occurs in the non-variable `t`. -/
theorem no_unifier_of_occ (θ : Int → Tm) (x : Int) (t : Tm) (hocc : t.occ x = true)
    (hnv : ∀ y, t ≠ .var y) : θ x ≠ t.subst θ := by
  intro h
  cases t with
  | var y => exact hnv y rfl
  | anon => simp at hocc
  | const c => simp at hocc
  | app f as =>
    have := size_lt_of_occ_app θ x f as hocc
    rw [← h] at this
    omega

/-- A term fixed by `θ` has only variables fixed by `θ`. -/
theorem fixed_vars (θ : Int → Tm) : ∀ t : Tm, t.subst θ = t → ∀ y, t.occ y = true → θ y = .var y := by
  apply Tm.ind
  · intro v h y hy; simp at hy; subst hy; simpa using h
  · simp
  · intro c; simp
  · intro f as ih h y hy
    simp only [subst_app, Tm.app.injEq, true_and] at h
    simp only [occ_app, List.any_eq_true] at hy
    obtain ⟨a, ha, hya⟩ := hy
    apply ih a ha _ y hya
    have : ∀ (l : List Tm), List.map (Tm.subst θ) l = l → ∀ a ∈ l, a.subst θ = a := by
      intro l
      induction l with
      | nil => intro _ a h; cases h
      | cons b l ihl =>
        intro hl a ha
        simp only [List.map_cons, List.cons.injEq] at hl
        simp only [List.mem_cons] at ha
        rcases ha with rfl | ha
        · exact hl.1
        · exact ihl hl.2 a ha
    exact this as h a ha

end ProbLogProofs.UnifyLemmas
