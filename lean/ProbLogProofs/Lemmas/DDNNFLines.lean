/-
Core-only bookkeeping for the line-array DAG of `ProbLogModel.DDNNF`:
generic bottom-up tables `linesOf`, the fixed-point equation for a line whose children are earlier lines,
what `validate c = .ok` says line by line, and soundness of the syntactic `impliesLit`.
-/
import ProbLogModel.DDNNFSem
namespace ProbLogProofs.DDNNF
open ProbLogModel.DDNNF ProbLogModel.Clark

theorem snoc_induction {α} {P : List α → Prop} (nil : P [])
    (snoc : ∀ l a, P l → P (l ++ [a])) : ∀ l, P l := by
  intro l
  have key : ∀ n, ∀ l : List α, l.length = n → P l := by
    intro n
    induction n with
    | zero =>
      intro l h
      have := List.eq_nil_of_length_eq_zero h
      subst this; exact nil
    | succ n ih =>
      intro l h
      have hne : l ≠ [] := by intro h'; subst h'; simp at h
      rw [← List.dropLast_concat_getLast hne]
      apply snoc; apply ih; simp [h]
  exact key _ l rfl

/-- generic bottom-up table: line `i` is computed from the table of the earlier lines -/
def linesOf {α} (F : List α → NNode → α) (c : Circuit) : List α :=
  c.foldl (fun acc nd => acc ++ [F acc nd]) []

theorem evalLines_eq {R} (sr : SR R) (w : Int → R) (c : Circuit) :
    evalLines sr w c = linesOf (evalLine sr w) c := rfl

theorem satLines_eq (ρ : Nat → Bool) (c : Circuit) : satLines ρ c = linesOf (satLine ρ) c := rfl

theorem varsLines_eq (c : Circuit) : varsLines c = linesOf varsLine c := by
  unfold varsLines linesOf
  congr 1

variable {α : Type}

theorem linesOf_nil (F : List α → NNode → α) : linesOf F [] = [] := rfl

theorem linesOf_snoc (F : List α → NNode → α) (c : Circuit) (nd : NNode) :
    linesOf F (c ++ [nd]) = linesOf F c ++ [F (linesOf F c) nd] := by
  simp [linesOf, List.foldl_append]

theorem linesOf_length (F : List α → NNode → α) (c : Circuit) : (linesOf F c).length = c.length := by
  induction c using snoc_induction with
  | nil => rfl
  | snoc l a ih => rw [linesOf_snoc]; simp [ih]

/-- `F` looks at the table only through `getD ch d` for the children `ch` of the line -/
def Local (d : α) (F : List α → NNode → α) : Prop :=
  ∀ acc acc' nd, (∀ ch ∈ nd.children, acc.getD ch d = acc'.getD ch d) → F acc nd = F acc' nd

theorem linesOf_fix {d : α} {F : List α → NNode → α} (hF : Local d F) (c : Circuit) :
    ∀ i (h : i < c.length), (∀ ch ∈ c[i].children, ch < i) →
      (linesOf F c).getD i d = F (linesOf F c) c[i] := by
  induction c using snoc_induction with
  | nil => intro i h; simp at h
  | snoc l a ih =>
    intro i h hch
    rw [linesOf_snoc]
    have hlen := linesOf_length F l
    by_cases hi : i < l.length
    · have e1 : (l ++ [a])[i] = l[i] := List.getElem_append_left hi
      rw [e1] at hch ⊢
      have e2 : (linesOf F l ++ [F (linesOf F l) a]).getD i d = (linesOf F l).getD i d := by
        simp [List.getD_eq_getElem?_getD, List.getElem?_append_left (hlen ▸ hi)]
      rw [e2, ih i hi hch]
      apply hF
      intro ch hc
      have := hch ch hc
      simp [List.getD_eq_getElem?_getD, List.getElem?_append_left (show ch < (linesOf F l).length by omega)]
    · have hil : i = l.length := by simp at h; omega
      subst hil
      have e1 : (l ++ [a])[l.length] = a := by simp
      rw [e1] at hch ⊢
      have e2 : (linesOf F l ++ [F (linesOf F l) a]).getD l.length d = F (linesOf F l) a := by
        simp [List.getD_eq_getElem?_getD, ← hlen]
      rw [e2]
      apply hF
      intro ch hc
      have := hch ch hc
      simp [List.getD_eq_getElem?_getD, List.getElem?_append_left (show ch < (linesOf F l).length by omega)]

theorem linesOf_getLast? (d : α) (F : List α → NNode → α) (c : Circuit) (h : c ≠ []) :
    (linesOf F c).getLast? = some ((linesOf F c).getD (c.length - 1) d) := by
  have hl := linesOf_length F c
  have hpos : 0 < c.length := List.length_pos_iff.mpr h
  rw [List.getLast?_eq_getElem?, hl, List.getD_eq_getElem?_getD]
  have : c.length - 1 < (linesOf F c).length := by omega
  simp [List.getElem?_eq_getElem this]

/-! ### locality of the three per-line functions -/

theorem foldl_congr_mem {β γ} (f g : β → γ → β) (l : List γ) (b : β)
    (h : ∀ x ∈ l, ∀ b, f b x = g b x) : l.foldl f b = l.foldl g b := by
  induction l generalizing b with
  | nil => rfl
  | cons x xs ih =>
    simp only [List.foldl_cons]
    rw [h x (by simp)]
    exact ih _ (fun y hy b => h y (by simp [hy]) b)

theorem evalLine_local {R} (sr : SR R) (w : Int → R) : Local sr.zero (evalLine sr w) := by
  intro acc acc' nd h
  cases nd with
  | lit l => rfl
  | and cs =>
    simp only [evalLine]
    apply foldl_congr_mem
    intro x hx b; rw [h x hx]
  | or j cs =>
    simp only [evalLine]
    apply foldl_congr_mem
    intro x hx b; rw [h x hx]

theorem varsLine_local : Local ([] : List Nat) varsLine := by
  intro acc acc' nd h
  cases nd with
  | lit l => rfl
  | and cs =>
    simp only [varsLine]
    apply foldl_congr_mem
    intro x hx b; rw [h x hx]
  | or j cs =>
    simp only [varsLine]
    apply foldl_congr_mem
    intro x hx b; rw [h x hx]

theorem satLine_local (ρ : Nat → Bool) : Local false (satLine ρ) := by
  intro acc acc' nd h
  cases nd with
  | lit l => rfl
  | and cs =>
    simp only [satLine]
    rw [Bool.eq_iff_iff]
    simp only [List.all_eq_true]
    constructor
    · intro H x hx; rw [← h x hx]; exact H x hx
    · intro H x hx; rw [h x hx]; exact H x hx
  | or j cs =>
    simp only [satLine]
    rw [Bool.eq_iff_iff]
    simp only [List.any_eq_true]
    constructor
    · rintro ⟨x, hx, H⟩; exact ⟨x, hx, by rw [← h x hx]; exact H⟩
    · rintro ⟨x, hx, H⟩; exact ⟨x, hx, by rw [h x hx]; exact H⟩

/-! ### what `validate c = .ok` says -/

/-- every line passes `checkLine` -/
def Valid (c : Circuit) : Prop := ∀ i (h : i < c.length), checkLine c (varsLines c) i c[i] = .ok

theorem foldl_check_ok (f : Nat → NNode → Verdict) (l : List NNode) :
    ∀ (n : Nat) (v : Verdict),
      (enumFrom n l).foldl (fun v (p : Nat × NNode) => match v with
        | .ok => f p.1 p.2
        | other => other) v = .ok →
      v = .ok ∧ ∀ k (h : k < l.length), f (n + k) l[k] = .ok := by
  induction l with
  | nil => intro n v h; simp [enumFrom] at h; exact ⟨h, fun k hk => by simp at hk⟩
  | cons x xs ih =>
    intro n v h
    simp only [enumFrom, List.foldl_cons] at h
    obtain ⟨h1, h2⟩ := ih _ _ h
    cases v with
    | ok =>
      refine ⟨rfl, ?_⟩
      intro k hk
      cases k with
      | zero => simpa using h1
      | succ k =>
        have := h2 k (by simpa using hk)
        simpa [Nat.add_assoc, Nat.add_comm 1 k] using this
    | bad a b => simp at h1
    | undecided a b => simp at h1

theorem validate_valid {c : Circuit} (h : validate c = .ok) : Valid c := by
  intro i hi
  have := (foldl_check_ok (fun i nd => checkLine c (varsLines c) i nd) c 0 .ok h).2 i hi
  simpa using this

/-- all children are earlier lines -/
def Forward (c : Circuit) : Prop := ∀ i (h : i < c.length), ∀ ch ∈ c[i].children, ch < i

theorem Valid.forward {c : Circuit} (h : Valid c) : Forward c := by
  intro i hi ch hch
  have hv := h i hi
  cases hnd : c[i] with
  | lit l => rw [hnd] at hch; simp [NNode.children] at hch
  | and cs =>
    rw [hnd] at hch hv
    simp only [NNode.children] at hch
    simp only [checkLine] at hv
    by_cases hall : cs.all (· < i) = true
    · exact of_decide_eq_true (List.all_eq_true.mp hall ch hch)
    · simp [hall] at hv
  | or j cs =>
    rw [hnd] at hch hv
    simp only [NNode.children] at hch
    simp only [checkLine] at hv
    by_cases hall : cs.all (· < i) = true
    · exact of_decide_eq_true (List.all_eq_true.mp hall ch hch)
    · simp [hall] at hv

theorem Valid.and_decomposable {c : Circuit} (h : Valid c) {i : Nat} (hi : i < c.length) {cs : List Nat}
    (hnd : c[i] = .and cs) :
    pairwise disjointVars (cs.map (fun ch => (varsLines c).getD ch [])) = true := by
  have hv := h i hi
  rw [hnd] at hv
  simp only [checkLine] at hv
  split at hv
  · simp at hv
  · split at hv
    · assumption
    · simp at hv

/-- an OR line accepted by the validator has ≤ 2 children; two children are smooth and disagree on a literal -/
theorem Valid.or_cases {c : Circuit} (h : Valid c) {i : Nat} (hi : i < c.length) {j : Nat} {cs : List Nat}
    (hnd : c[i] = .or j cs) :
    cs = [] ∨ (∃ a, cs = [a]) ∨
    ∃ a b, cs = [a, b] ∧ (varsLines c).getD a [] = (varsLines c).getD b [] ∧ j ≠ 0 ∧
      ∃ l : Int, l ≠ 0 ∧ impliesLit c (i + 1) a l = true ∧ impliesLit c (i + 1) b (-l) = true := by
  have hv := h i hi
  rw [hnd] at hv
  simp only [checkLine] at hv
  split at hv
  · simp at hv
  · match cs, hv with
    | [], _ => exact Or.inl rfl
    | [a], _ => exact Or.inr (Or.inl ⟨a, rfl⟩)
    | [a, b], hv =>
      refine Or.inr (Or.inr ⟨a, b, rfl, ?_⟩)
      simp only at hv
      split at hv
      · simp at hv
      · rename_i hsm
        split at hv
        · simp at hv
        · rename_i hj
          split at hv
          · rename_i himp
            have hj' : j ≠ 0 := by simpa using hj
            refine ⟨by simpa using hsm, hj', ?_⟩
            simp only [Bool.or_eq_true, Bool.and_eq_true] at himp
            rcases himp with ⟨h1, h2⟩ | ⟨h1, h2⟩
            · exact ⟨(j : Int), by omega, h1, h2⟩
            · exact ⟨-(j : Int), by omega, h1, by simpa using h2⟩
          · simp at hv
    | _ :: _ :: _ :: _, hv => simp at hv

/-! ### truth of a line from the truth of its children -/

/-- truth of line `i` under `ρ` -/
def satAt (ρ : Nat → Bool) (c : Circuit) (i : Nat) : Bool := (satLines ρ c).getD i false

theorem satAt_eq {c : Circuit} (hf : Forward c) (ρ : Nat → Bool) {i : Nat} (hi : i < c.length) :
    satAt ρ c i = match c[i] with
      | .lit l => litTrue ρ l
      | .and cs => cs.all (fun ch => satAt ρ c ch)
      | .or _ cs => cs.any (fun ch => satAt ρ c ch) := by
  unfold satAt
  rw [satLines_eq, linesOf_fix (satLine_local ρ) c i hi (hf i hi)]
  cases c[i] <;> rfl

theorem litTrue_neg (ρ : Nat → Bool) {l : Int} (hl : l ≠ 0) : litTrue ρ (-l) = !litTrue ρ l := by
  unfold litTrue
  by_cases h : l > 0
  · have : ¬ (-l > 0) := by omega
    simp only [gt_iff_lt, h, this, if_true, if_false, Int.natAbs_neg]
  · have : -l > 0 := by omega
    simp only [gt_iff_lt, h, this, if_true, if_false, Int.natAbs_neg, Bool.not_not]

/-- the syntactic check `impliesLit` is sound: a line that "visibly implies" literal `l` is only true when `l` is -/
theorem impliesLit_sound {c : Circuit} (hf : Forward c) (ρ : Nat → Bool) :
    ∀ fuel i l, impliesLit c fuel i l = true → satAt ρ c i = true → litTrue ρ l = true := by
  intro fuel
  induction fuel with
  | zero => intro i l h; simp [impliesLit] at h
  | succ fuel ih =>
    intro i l h hs
    unfold impliesLit at h
    by_cases hi : i < c.length
    · rw [satAt_eq hf ρ hi] at hs
      rw [List.getElem?_eq_getElem hi] at h
      cases hnd : c[i] with
      | lit l' =>
        rw [hnd] at h hs
        simp only [beq_iff_eq] at h
        subst h; exact hs
      | and cs =>
        rw [hnd] at h hs
        simp only [List.any_eq_true, Bool.and_eq_true] at h
        obtain ⟨ch, hch, _, himp⟩ := h
        exact ih ch l himp (List.all_eq_true.mp hs ch hch)
      | or j cs => rw [hnd] at h; simp at h
    · rw [List.getElem?_eq_none (by omega)] at h
      simp at h

/-- determinism: the two children of an accepted binary OR are never true together -/
theorem Valid.or_exclusive {c : Circuit} (h : Valid c) (ρ : Nat → Bool) {i a b : Nat} {l : Int} (hl : l ≠ 0)
    (ha : impliesLit c (i + 1) a l = true) (hb : impliesLit c (i + 1) b (-l) = true) :
    ¬ (satAt ρ c a = true ∧ satAt ρ c b = true) := by
  rintro ⟨sa, sb⟩
  have h1 := impliesLit_sound h.forward ρ _ _ _ ha sa
  have h2 := impliesLit_sound h.forward ρ _ _ _ hb sb
  rw [litTrue_neg ρ hl, h1] at h2
  simp at h2

end ProbLogProofs.DDNNF
