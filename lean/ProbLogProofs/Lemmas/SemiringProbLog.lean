import Mathlib.Analysis.SpecialFunctions.Log.Basic
import Mathlib.Tactic.Ring
import Mathlib.Tactic.Linarith
import ProbLogModel.Generated.Semirings
import ProbLogProofs.Lemmas.SemiringLogVal
/-!
# Facts about the generated probability / log-probability semirings shared by C12 and C30

(`value`, `ad_complement`, log `plus` / `negate`): stated once here so that C30 does not depend on the parts of C12
that speak about the symbolic semiring and the base-class defaults.
-/
namespace ProbLogProofs.Semiring
open ProbLogModel.Generated ProbLogModel.SemiringPrelude ProbLogProofs ProbLogProofs.LogVal

theorem foldl_plus (ws : List Rat) (s : Rat) :
    List.foldl (fun s w => SemiringProbability.plus s w) s ws = s + ws.sum := by
  induction ws generalizing s with
  | nil => simp
  | cons w ws ih => rw [List.foldl_cons, ih, List.sum_cons, SemiringProbability.plus, add_assoc]

theorem prob_ad_complement (ws : List Rat) (key : Int) :
    SemiringProbability.ad_complement ws key = 1 - ws.sum := by
  simp [SemiringProbability.ad_complement, foldl_plus, SemiringProbability.zero, SemiringProbability.negate]

theorem prob_value_in_band (v : Rat) (h0 : -(1/1000000000) ≤ v) (h1 : v ≤ 1 + 1/1000000000) :
    SemiringProbability.value v = .ok v ∧ SemiringProbability.in_domain v = true := by
  have h : (decide ((0:Rat) - 1/1000000000 ≤ v) && decide (v ≤ 1 + 1/1000000000)) = true := by
    simp only [Bool.and_eq_true, decide_eq_true_eq]; constructor <;> linarith
  constructor
  · simp only [SemiringProbability.value, h]; rfl
  · simp only [SemiringProbability.in_domain, h]

theorem prob_value_outside (v : Rat) (h : v < -(1/1000000000) ∨ 1 + 1/1000000000 < v) :
    SemiringProbability.value v = .error PyErr.InvalidValue ∧ SemiringProbability.in_domain v = false := by
  have h : (decide ((0:Rat) - 1/1000000000 ≤ v) && decide (v ≤ 1 + 1/1000000000)) = false := by
    rw [Bool.and_eq_false_iff]; simp only [decide_eq_false_iff_not, not_le]
    rcases h with h | h
    · left; linarith
    · right; exact h
  constructor
  · simp only [SemiringProbability.value, h]; rfl
  · simp only [SemiringProbability.in_domain, h]

/-- `exp (plus a b) = exp a + exp b`, including `a = −∞` / `b = −∞`. -/
theorem log_plus (a b : LogVal) (p q : ℝ) (ha : toProb a = some p) (hb : toProb b = some q) :
    ∃ r, SemiringLogProbability.plus a b = .ok r ∧ toProb r = some (p + q) := by
  rcases toProb_eq_some ha with ⟨rfl, rfl⟩ | ⟨x, rfl, rfl⟩ <;>
  rcases toProb_eq_some hb with ⟨rfl, rfl⟩ | ⟨y, rfl, rfl⟩
  · refine ⟨ninf, ?_, by simp [toProb]⟩
    simp [SemiringLogProbability.plus, beq]; rfl
  · refine ⟨fin y, ?_, by simp [toProb]⟩
    simp [SemiringLogProbability.plus, beq]; rfl
  · refine ⟨fin x, ?_, by simp [toProb]⟩
    simp [SemiringLogProbability.plus, beq]; rfl
  · by_cases h : x < y
    · refine ⟨fin (y + Real.log (1 + Real.exp (x - y))), ?_, ?_⟩
      · have : (-1:ℝ) < Real.exp (x - y) := by have := Real.exp_pos (x - y); linarith
        simp [SemiringLogProbability.plus, beq, h, pyLog1p, sub, exp, log1p, add, this]; rfl
      · simp [toProb, log_sum_exp]
    · refine ⟨fin (x + Real.log (1 + Real.exp (y - x))), ?_, ?_⟩
      · have : (-1:ℝ) < Real.exp (y - x) := by have := Real.exp_pos (y - x); linarith
        simp [SemiringLogProbability.plus, beq, h, pyLog1p, sub, exp, log1p, add, this]; rfl
      · simp [toProb, log_sum_exp, add_comm]

/-- Above `1e-12` (probability > 1): InvalidValue. -/
theorem log_negate_invalid (a : LogVal) (h : ¬ a ≤ (LogNum.ofRat (1/1000000000000) : LogVal)) :
    SemiringLogProbability.negate a = .error PyErr.InvalidValue := by
  simp at h
  simp [SemiringLogProbability.negate, SemiringLogProbability.in_domain, h]; rfl

theorem lv_unfold (v : ℝ) : SemiringLogProbability.value (fin v) =
    (if (((-1/1000000000 : ℚ) : ℝ) ≤ v ∧ v < ((1/1000000000 : ℚ) : ℝ)) then .ok ninf
     else if (((0:ℚ):ℝ) - ((1/1000000000 : ℚ):ℝ) ≤ v ∧ v ≤ ((1:ℚ):ℝ) + ((1/1000000000 : ℚ):ℝ)) then
       (if 0 < v then .ok (fin (Real.log v)) else .error PyErr.ValueError)
     else .error PyErr.InvalidValue) := by
  simp only [SemiringLogProbability.value, SemiringLogProbability.zero, ofRat_def, ninf_def, sub_def, sub, add_def,
    add, fin_le_fin, fin_lt_fin, Bool.and_eq_true, decide_eq_true_eq, pyLog, log_def, log, Rat.cast_zero]
  split_ifs <;> rfl

/-- `value` on `[1e-9, 1+1e-9]`: the logarithm; the probability semiring accepts the same annotation unchanged. -/
theorem log_value (v : ℚ) (h0 : 1/1000000000 ≤ v) (h1 : v ≤ 1 + 1/1000000000) :
    SemiringProbability.value v = .ok v ∧
    ∃ r, SemiringLogProbability.value (LogNum.ofRat v : LogVal) = .ok r ∧ toProb r = some (v : ℝ) := by
  have hq : (0:ℚ) < v := by linarith
  have hv : (0:ℝ) < v := by exact_mod_cast hq
  refine ⟨(prob_value_in_band v (by linarith) h1).1, fin (Real.log v), ?_, by simp [toProb, Real.exp_log hv]⟩
  have c1 : ¬ ((((-1/1000000000 : ℚ) : ℝ) ≤ v ∧ (v:ℝ) < ((1/1000000000 : ℚ) : ℝ))) := by
    rintro ⟨_, h⟩; exact absurd (Rat.cast_lt.mp h) (by linarith)
  have c2 : (((0:ℚ):ℝ) - ((1/1000000000 : ℚ):ℝ) ≤ v ∧ (v:ℝ) ≤ ((1:ℚ):ℝ) + ((1/1000000000 : ℚ):ℝ)) := by
    rw [← Rat.cast_sub, ← Rat.cast_add]; exact ⟨Rat.cast_le.mpr (by linarith), Rat.cast_le.mpr (by linarith)⟩
  rw [ofRat_def, lv_unfold, if_neg c1, if_pos c2, if_pos hv]

/-- The clipped band `-1e-9 ≤ v < 1e-9`: log space returns `zero` (the probability semiring keeps `v`, |v| ≤ 1e-9). -/
theorem log_value_clip (v : ℚ) (h0 : -(1/1000000000) ≤ v) (h1 : v < 1/1000000000) :
    SemiringProbability.value v = .ok v ∧
    SemiringLogProbability.value (LogNum.ofRat v : LogVal) = .ok (SemiringLogProbability.zero (α := LogVal)) := by
  refine ⟨(prob_value_in_band v h0 (by linarith)).1, ?_⟩
  have c1 : ((((-1/1000000000 : ℚ) : ℝ) ≤ v ∧ (v:ℝ) < ((1/1000000000 : ℚ) : ℝ))) :=
    ⟨Rat.cast_le.mpr (by linarith), Rat.cast_lt.mpr h1⟩
  rw [ofRat_def, lv_unfold, if_pos c1]; rfl

/-- Outside `[-1e-9, 1+1e-9]` both semirings raise InvalidValue. -/
theorem log_value_invalid (v : ℚ) (h : v < -(1/1000000000) ∨ 1 + 1/1000000000 < v) :
    SemiringProbability.value v = .error PyErr.InvalidValue ∧
    SemiringLogProbability.value (LogNum.ofRat v : LogVal) = .error PyErr.InvalidValue := by
  refine ⟨(prob_value_outside v h).1, ?_⟩
  have c1 : ¬ ((((-1/1000000000 : ℚ) : ℝ) ≤ v ∧ (v:ℝ) < ((1/1000000000 : ℚ) : ℝ))) := by
    rintro ⟨h1, h2⟩
    have := Rat.cast_le.mp h1; have := Rat.cast_lt.mp h2
    rcases h with h | h <;> linarith
  have c2 : ¬ (((0:ℚ):ℝ) - ((1/1000000000 : ℚ):ℝ) ≤ v ∧ (v:ℝ) ≤ ((1:ℚ):ℝ) + ((1/1000000000 : ℚ):ℝ)) := by
    rw [← Rat.cast_sub, ← Rat.cast_add]
    rintro ⟨h1, h2⟩
    have := Rat.cast_le.mp h1; have := Rat.cast_le.mp h2
    rcases h with h | h <;> linarith
  rw [ofRat_def, lv_unfold, if_neg c1, if_neg c2]

theorem foldlM_plus (ws : List LogVal) (ps : List ℝ) (h : List.Forall₂ (fun w p => toProb w = some p) ws ps)
    (s : LogVal) (p0 : ℝ) (hs : toProb s = some p0) :
    ∃ r, List.foldlM (fun s w => do pure (← SemiringLogProbability.plus (α := LogVal) s w)) s ws = .ok r ∧
      toProb r = some (p0 + ps.sum) := by
  induction h generalizing s p0 with
  | nil => exact ⟨s, rfl, by simpa using hs⟩
  | cons hw _ ih =>
    obtain ⟨r1, e1, t1⟩ := log_plus s _ p0 _ hs hw
    obtain ⟨r, e, t⟩ := ih r1 _ t1
    refine ⟨r, ?_, by rw [t, List.sum_cons, add_assoc]⟩
    simp only [List.foldlM_cons, e1]
    exact e

/-- `ad_complement ws` is `negate` of a value denoting `Σ exp wᵢ` (then `C12_log_negate*` apply); the probability
    semiring computes `1 − Σ` (`prob_ad_complement`). -/
theorem log_ad_complement (ws : List LogVal) (ps : List ℝ) (key : Int)
    (h : List.Forall₂ (fun w p => toProb w = some p) ws ps) :
    ∃ s, toProb s = some ps.sum ∧
      SemiringLogProbability.ad_complement ws key = SemiringLogProbability.negate s := by
  obtain ⟨r, e, t⟩ := foldlM_plus ws ps h (SemiringLogProbability.zero (α := LogVal)) 0
    (by simp [SemiringLogProbability.zero, toProb])
  refine ⟨r, by simpa using t, ?_⟩
  simp only [SemiringLogProbability.ad_complement, e]
  rfl

end ProbLogProofs.Semiring
