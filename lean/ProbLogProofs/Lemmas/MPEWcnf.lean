/-
The weighted CNF of `CNF._contents(weighted=int)`: cost of an assignment = minus the quantised objective;
quantisation error of `wt` on log-probabilities.
-/
import Mathlib.Algebra.Order.Ring.Rat
import Mathlib.Tactic.Linarith
import Mathlib.Tactic.Ring
import ProbLogModel.Tasks.MPE

namespace ProbLogProofs.MPE
open ProbLogModel.MPE ProbLogModel.Clark

/-! ### Python's `int()` -/

theorem truncInt_small (q : Rat) (h1 : -1 < q) (h2 : q < 1) : truncInt q = 0 := by
  unfold truncInt
  split
  · rename_i h0
    have a := Rat.floor_le q
    have b := Rat.lt_floor_add_one q
    have a' : (q.floor : Rat) < 1 := lt_of_le_of_lt a h2
    have b' : (0 : Rat) < ((q.floor + 1 : Int) : Rat) := lt_of_le_of_lt h0 b
    have a'' : q.floor < 1 := by exact_mod_cast a'
    have b'' : 0 < q.floor + 1 := by exact_mod_cast b'
    omega
  · rename_i h0
    have hq : 0 < -q := by linarith
    have a := Rat.floor_le (-q)
    have b := Rat.lt_floor_add_one (-q)
    have a' : ((-q).floor : Rat) < 1 := lt_of_le_of_lt a (by linarith)
    have b' : (0 : Rat) < (((-q).floor + 1 : Int) : Rat) := lt_trans hq b
    have a'' : (-q).floor < 1 := by exact_mod_cast a'
    have b'' : 0 < (-q).floor + 1 := by exact_mod_cast b'
    omega

/-- truncation of a non-positive number rounds up, by less than one -/
theorem truncInt_nonpos (q : Rat) (h : q ≤ 0) : q ≤ (truncInt q : Rat) ∧ (truncInt q : Rat) < q + 1 := by
  unfold truncInt
  split
  · rename_i h0
    have : q = 0 := le_antisymm h h0
    subst this
    have a := Rat.floor_le (0 : Rat)
    have b := Rat.lt_floor_add_one (0 : Rat)
    constructor
    · have b' : (0 : Int) < (0 : Rat).floor + 1 := by exact_mod_cast b
      have : (0 : Int) ≤ (0 : Rat).floor := by omega
      exact_mod_cast this
    · have : ((0 : Rat).floor : Rat) ≤ 0 := a
      linarith
  · have a := Rat.floor_le (-q)
    have b := Rat.lt_floor_add_one (-q)
    push_cast at b ⊢
    constructor <;> linarith

theorem clampW_ge (w : LogW) : wMin ≤ clampW w := by
  unfold clampW
  cases w with
  | none => exact le_refl _
  | some q =>
    simp only
    split
    · exact le_refl _
    · rename_i h; exact not_lt.mp h

theorem wt_isOne (inv : Bool) (w : LogW) (h : isOneLog w = true) : wt inv w = 0 := by
  cases w with
  | none => simp [isOneLog] at h
  | some q =>
    simp only [isOneLog, Bool.and_eq_true, decide_eq_true_eq] at h
    obtain ⟨h1, h2⟩ := h
    have hq1 : (-1 : Rat) / 10000 < q := by
      have : (-1 : Rat) / 10000 < (-1 : Rat) / 1000000000000 := by norm_num
      linarith
    have hq2 : q < (1 : Rat) / 10000 := by
      have : (1 : Rat) / 1000000000000 < (1 : Rat) / 10000 := by norm_num
      linarith
    cases inv with
    | false =>
      have hc : clampW (some q) = q := by
        unfold clampW
        have : ¬ q < wMin := by unfold wMin; intro h'; linarith
        simp [this]
      simp only [wt, Bool.false_eq_true, if_false, wt1, hc]
      apply truncInt_small <;> unfold wMult <;> linarith
    | true =>
      have hc : clampW (some (-q)) = -q := by
        unfold clampW
        have : ¬ -q < wMin := by unfold wMin; intro h'; linarith
        simp [this]
      simp only [wt, if_true, negW, wt1, hc]
      apply truncInt_small <;> unfold wMult <;> linarith

/-! ### cost and objective as sums -/

theorem litVal_pos (v : Nat → Bool) (a : Nat) : litVal v (a : Int) = v a := by
  unfold litVal
  have : ¬ ((a : Int) < 0) := by omega
  simp [this]

theorem litVal_negpos (v : Nat → Bool) (a : Nat) (h : 0 < a) : litVal v (-(a : Int)) = !(v a) := by
  unfold litVal
  have : (-(a : Int) < 0) := by omega
  have h0 : a ≠ 0 := by omega
  simp [h0]

theorem cost_fold (v : Nat → Bool) (l : List (Int × Clause)) : ∀ s : Int,
    l.foldl (fun s (k, cl) => if satClause v cl then s else s + k) s =
      s + l.foldl (fun s (k, cl) => if satClause v cl then s else s + k) 0 := by
  induction l with
  | nil => intro s; simp
  | cons x l ih =>
    intro s
    simp only [List.foldl_cons]
    rw [ih, ih (if satClause v x.2 = true then 0 else 0 + x.1)]
    split <;> omega

theorem cost_append (v : Nat → Bool) (a b : List (Int × Clause)) : cost v (a ++ b) = cost v a + cost v b := by
  unfold cost
  rw [List.foldl_append, cost_fold]

/-- the term of atom `a` in the quantised objective -/
def objTerm (inv : Bool) (ws : List (Nat × LogW × LogW)) (v : Nat → Bool) (a : Nat) : Int :=
  if v a then wt inv (lookupLW ws a).1 else wt inv (lookupLW ws a).2

theorem cost_softOf (inv : Bool) (ws : List (Nat × LogW × LogW)) (v : Nat → Bool) (a : Nat) (ha : 0 < a) :
    cost v (softOf inv ws a) = -(objTerm inv ws v a) := by
  unfold softOf objTerm
  have hp := wt_isOne inv (lookupLW ws a).1
  have hn := wt_isOne inv (lookupLW ws a).2
  by_cases o1 : isOneLog (lookupLW ws a).1 = true <;> by_cases o2 : isOneLog (lookupLW ws a).2 = true <;>
    by_cases hv : v a = true <;>
    simp [o1, o2, hv, cost, satClause, litVal_pos, litVal_negpos v a ha, hp, hn]

theorem sum_fold (f : Nat → Int) (l : List Nat) : ∀ s : Int,
    l.foldl (fun s a => s + f a) s = s + l.foldl (fun s a => s + f a) 0 := by
  induction l with
  | nil => intro s; simp
  | cons x l ih =>
    intro s
    simp only [List.foldl_cons]
    rw [ih, ih (0 + f x)]
    omega

theorem cost_flatMap (inv : Bool) (ws : List (Nat × LogW × LogW)) (v : Nat → Bool) (l : List Nat)
    (hl : ∀ a ∈ l, 0 < a) :
    cost v (l.flatMap (softOf inv ws)) = -(l.foldl (fun s a => s + objTerm inv ws v a) 0) := by
  induction l with
  | nil => simp [cost]
  | cons a l ih =>
    simp only [List.flatMap_cons, List.foldl_cons]
    rw [cost_append, cost_softOf inv ws v a (hl a (List.mem_cons_self)), ih (fun b hb => hl b (List.mem_cons_of_mem _ hb)),
      sum_fold _ l (0 + _)]
    omega

theorem atoms_pos (n : Nat) : ∀ a ∈ (List.range n).map (· + 1), 0 < a := by
  intro a ha
  obtain ⟨b, _, rfl⟩ := List.mem_map.mp ha
  omega

/-! ### quantisation -/

/-- the (clamped) log-weight of atom `a`'s literal under `v` -/
def logTerm (ws : List (Nat × LogW × LogW)) (v : Nat → Bool) (a : Nat) : Rat :=
  if v a then clampW (lookupLW ws a).1 else clampW (lookupLW ws a).2

/-- exact log-space objective `Σ_a log w(literal of a under v)` (weights clamped at `w_min`) -/
def logObj (ws : List (Nat × LogW × LogW)) (n : Nat) (v : Nat → Bool) : Rat :=
  ((List.range n).map (· + 1)).foldl (fun s a => s + logTerm ws v a) 0

theorem sumQ_fold (f : Nat → Rat) (l : List Nat) : ∀ s : Rat,
    l.foldl (fun s a => s + f a) s = s + l.foldl (fun s a => s + f a) 0 := by
  induction l with
  | nil => intro s; simp
  | cons x l ih =>
    intro s
    simp only [List.foldl_cons]
    rw [ih, ih (0 + f x)]
    ring

theorem quant_bounds (f : Nat → Int) (g : Nat → Rat) (l : List Nat)
    (h : ∀ a ∈ l, g a * 10000 ≤ (f a : Rat) ∧ (f a : Rat) ≤ g a * 10000 + 1) :
    (l.foldl (fun s a => s + g a) 0) * 10000 ≤ ((l.foldl (fun s a => s + f a) 0 : Int) : Rat) ∧
    ((l.foldl (fun s a => s + f a) 0 : Int) : Rat) ≤ (l.foldl (fun s a => s + g a) 0) * 10000 + l.length := by
  induction l with
  | nil => simp
  | cons a l ih =>
    have ha := h a (List.mem_cons_self)
    have ih' := ih (fun b hb => h b (List.mem_cons_of_mem _ hb))
    simp only [List.foldl_cons, List.length_cons]
    rw [sum_fold f l (0 + f a), sumQ_fold g l (0 + g a)]
    push_cast
    constructor <;> nlinarith [ha.1, ha.2, ih'.1, ih'.2]

end ProbLogProofs.MPE
