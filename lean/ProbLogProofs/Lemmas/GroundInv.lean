import ProbLogModel.GroundAcyclic
import ProbLogProofs.Lemmas.GroundSem
import ProbLogProofs.Lemmas.FormulaBasic
import ProbLogProofs.Lemmas.FormulaOps
import ProbLogProofs.Lemmas.FormulaAcyclic
import ProbLogProofs.Lemmas.FormulaAtom
import ProbLogProofs.Lemmas.GroundNames
/-!
# Ground acyclic programs: invariants of the grounding-engine model (1) — definitions and builder steps

`Val chosen S ρ`: `ρ` is a valuation of the node ids that is consistent with the store and gives every atom node
`Ident.user c` the value of choice `c` in the total choice `chosen`.  `Den chosen S k v`: key `k` exists in `S` and has
the value `v` under every such valuation.
-/
namespace ProbLogProofs.GroundInv
open ProbLogModel ProbLogModel.Formula ProbLogModel.GroundAcyclic ProbLogProofs.GroundSem ProbLogProofs.GroundNames
open ProbLogModel.Sem (getB)

/-! ### valuations that agree with a total choice -/

def Agree (chosen : Array Bool) (S : Store) (ρ : Nat → Bool) : Prop :=
  ∀ i z g e nm, S.nodes[i]? = some (Node.atom (Ident.user z) g e nm) → ρ (i + 1) = getB chosen z.toNat

theorem Agree.of_grows {chosen : Array Bool} {S S' : Store} {ρ : Nat → Bool} (hg : Grows S S')
    (h : Agree chosen S' ρ) : Agree chosen S ρ := by
  intro i z g e nm hi
  obtain ⟨nm', h'⟩ := hg.get_atom hi
  exact h i z g e nm' h'

def Val (chosen : Array Bool) (S : Store) (ρ : Nat → Bool) : Prop := Consistent S ρ ∧ Agree chosen S ρ

theorem Val.of_grows {chosen : Array Bool} {S S' : Store} {ρ : Nat → Bool} (hg : Grows S S')
    (h : Val chosen S' ρ) : Val chosen S ρ := ⟨hg.consistent h.1, h.2.of_grows hg⟩

theorem grows_length {S S' : Store} (hg : Grows S S') : S.nodes.length ≤ S'.nodes.length := by
  obtain ⟨ext, he⟩ := hg
  have := congrArg List.length he
  simp only [List.length_map, List.length_append] at this
  omega

/-- Every total choice has a valuation on an acyclic store. -/
theorem val_exists {S : Store} (ha : Acyclic S) (chosen : Array Bool) : ∃ ρ, Val chosen S ρ := by
  let α : Nat → Bool := fun j => match S.nodes[j - 1]? with
    | some (Node.atom (Ident.user z) _ _ _) => getB chosen z.toNat
    | _ => false
  obtain ⟨ρ, hc, hat, _, _⟩ := acyclic_exists ha α
  refine ⟨ρ, hc, fun i z g e nm hi => ?_⟩
  rw [hat i _ hi rfl]
  show (match S.nodes[i + 1 - 1]? with
    | some (Node.atom (Ident.user z) _ _ _) => getB chosen z.toNat
    | _ => false) = _
  rw [Nat.add_sub_cancel, hi]

/-! ### keys that denote a truth value -/

def Den (chosen : Array Bool) (S : Store) (k : Key) (v : Bool) : Prop :=
  keyBelow S.nodes.length k ∧ ∀ ρ, Val chosen S ρ → keyVal ρ k = v

theorem Den.mono {chosen : Array Bool} {S S' : Store} {k : Key} {v : Bool} (hg : Grows S S')
    (h : Den chosen S k v) : Den chosen S' k v :=
  ⟨keyBelow_mono (grows_length hg) h.1, fun ρ hρ => h.2 ρ (hρ.of_grows hg)⟩

def optVal (ρ : Nat → Bool) : Option Key → Bool
  | none => false
  | some k => keyVal ρ k

/-- the same for the optional result of a conjunct / clause (`none` = no result = false) -/
def ODen (chosen : Array Bool) (S : Store) (r : Option Key) (v : Bool) : Prop :=
  (∀ k, r = some k → keyBelow S.nodes.length k) ∧ ∀ ρ, Val chosen S ρ → optVal ρ r = v

theorem ODen.mono {chosen : Array Bool} {S S' : Store} {r : Option Key} {v : Bool} (hg : Grows S S')
    (h : ODen chosen S r v) : ODen chosen S' r v :=
  ⟨fun k hk => keyBelow_mono (grows_length hg) (h.1 k hk), fun ρ hρ => h.2 ρ (hρ.of_grows hg)⟩

/-- dropping a FALSE key: `if isFalse k then none else some k` means the same as `k` -/
theorem ODen.of_den {chosen : Array Bool} {S : Store} {k : Key} {v : Bool} (h : Den chosen S k v) :
    ODen chosen S (if isFalse k then none else some k) v := by
  cases k with
  | none => exact ⟨fun k hk => (by cases hk), fun ρ hρ => h.2 ρ hρ⟩
  | some i =>
    have : isFalse (some i) = false := rfl
    rw [this]
    exact ⟨fun k hk => (by cases hk; exact h.1), fun ρ hρ => h.2 ρ hρ⟩

/-! ### store / state invariants -/

structure SInv (S : Store) : Prop where
  wf : WF S
  acyc : Acyclic S
  keepAll : S.opts.keepAll = false

/-- every tabled goal's key denotes the goal's truth value `M a` -/
def TInv (chosen : Array Bool) (M : Atom → Bool) (st : St) : Prop :=
  ∀ a k, lookup st.table a = some k → Den chosen st.store k (M a)

structure Inv (chosen : Array Bool) (M : Atom → Bool) (st : St) : Prop where
  s : SInv st.store
  t : TInv chosen M st

/-- the store only grows and table entries are kept -/
structure Ext0 (st st' : St) : Prop where
  grows : Grows st.store st'.store
  table : ∀ a k, lookup st.table a = some k → lookup st'.table a = some k

theorem Ext0.refl (st : St) : Ext0 st st := ⟨Grows.refl _, fun _ _ h => h⟩

theorem Ext0.trans {a b c : St} (h1 : Ext0 a b) (h2 : Ext0 b c) : Ext0 a c :=
  ⟨h1.grows.trans h2.grows, fun x k h => h2.table x k (h1.table x k h)⟩

/-- ... and the query / evidence names are untouched (evaluation of a goal; `ground` itself then adds a name) -/
structure Ext (st st' : St) : Prop extends Ext0 st st' where
  names : NEq st.store st'.store

theorem Ext.refl (st : St) : Ext st st := ⟨Ext0.refl st, NEq.refl _⟩

theorem Ext.trans {a b c : St} (h1 : Ext a b) (h2 : Ext b c) : Ext a c :=
  ⟨h1.toExt0.trans h2.toExt0, h1.names.trans h2.names⟩

/-- A store step that keeps the table. -/
theorem Inv.store_step {chosen : Array Bool} {M : Atom → Bool} {st : St} {S' : Store} (h : Inv chosen M st)
    (hs : SInv S') (hg : Grows st.store S') (hn : NEq st.store S') :
    Inv chosen M { st with store := S' } ∧ Ext st { st with store := S' } :=
  ⟨⟨hs, fun a k hl => (h.t a k hl).mono hg⟩, ⟨⟨hg, fun _ _ hl => hl⟩, hn⟩⟩

/-! ### builder steps -/

theorem addOr_step {S : Store} (hs : SInv S) (cs : List Key) (hne : cs ≠ [])
    (hb : ∀ c ∈ cs, keyBelow S.nodes.length c) :
    ∃ S' k, S.addOr cs = .ok (S', k) ∧ SInv S' ∧ Grows S S' ∧ NEq S S' ∧ keyBelow S'.nodes.length k ∧
      ∀ ρ, Consistent S' ρ → keyVal ρ k = cs.any (keyVal ρ) := by
  cases h : S.addOr cs with
  | error e =>
    have := addCompound_error (kind := .disj) h
    exact absurd this.2.2 hne
  | ok r =>
    obtain ⟨S', k⟩ := r
    have hc := addCompound_cres _ _ _ _ _ _ _ _ _ h
    exact ⟨S', k, rfl, ⟨hc.wf hs.wf, hc.acyclic hs.acyc hb, by rw [hc.opts]; exact hs.keepAll⟩, hc.grows,
      NEq.of_names_eq (addCompound_names_none h), hc.key_below hs.wf hb, fun ρ hρ => hc.sem hs.wf ρ hρ⟩

theorem addAnd_step {S : Store} (hs : SInv S) (cs : List Key) (hne : cs ≠ [])
    (hb : ∀ c ∈ cs, keyBelow S.nodes.length c) :
    ∃ S' k, S.addAnd cs = .ok (S', k) ∧ SInv S' ∧ Grows S S' ∧ NEq S S' ∧ keyBelow S'.nodes.length k ∧
      ∀ ρ, Consistent S' ρ → keyVal ρ k = cs.all (keyVal ρ) := by
  cases h : S.addAnd cs with
  | error e =>
    have := addCompound_error (kind := .conj) h
    exact absurd this.2.2 hne
  | ok r =>
    obtain ⟨S', k⟩ := r
    have hc := addCompound_cres _ _ _ _ _ _ _ _ _ h
    exact ⟨S', k, rfl, ⟨hc.wf hs.wf, hc.acyclic hs.acyc hb, by rw [hc.opts]; exact hs.keepAll⟩, hc.grows,
      NEq.of_names_eq (addCompound_names_none h), hc.key_below hs.wf hb, fun ρ hρ => hc.sem hs.wf ρ hρ⟩

theorem addName_sinv {S : Store} (hs : SInv S) (n : Name) (k : Key) (l : Label) :
    SInv (S.addName n k l) :=
  ⟨addName_wf hs.wf n k l false, addName_acyclic hs.acyc n k l false,
   by rw [(addName_spec S n k l false).2.2.2.2]; exact hs.keepAll⟩

/-! #### `add_atom` keeps the options -/

theorem addAtomNode_opts (S : Store) (ident : Ident) (nd : Node) : (S.addAtomNode ident nd).1.opts = S.opts := by
  unfold Store.addAtomNode
  split <;> rfl

theorem addName_opts (S : Store) (n : Name) (k : Key) (l : Label) (keep : Bool) :
    (S.addName n k l keep).opts = S.opts := (addName_spec S n k l keep).2.2.2.2

theorem addExtra_opts (S : Store) (g : Nat) : (S.addExtra g).1.opts = S.opts := by
  unfold Store.addExtra
  simp only
  split <;> simp [addName_opts, addAtomNode_opts]

theorem constraintAdd_opts (S : Store) (g node : Nat) (isExtra crExtra : Bool) :
    (S.constraintAdd g node isExtra crExtra).opts = S.opts := by
  unfold Store.constraintAdd
  simp only
  repeat' split
  all_goals first | rfl | simp [addExtra_opts]

theorem addAtom_main_opts (S : Store) (ident : Ident) (w : Weight) (group : Option Nat)
    (name : Option Name) (crExtra isExtra : Bool) :
      (let nd := Node.atom ident group isExtra name
       let lenBefore := S.nodes.length
       let (S1, i) := S.addAtomNode ident nd
       let S2 := { S1 with weights := assocSet S1.weights i w }
       let S3 := match name with
         | some n => S2.addName n (some (i : Int)) .named
         | none => S2
       if S3.nodes.length != lenBefore then
         let S4 := { S3 with atomcount := S3.atomcount + 1 }
         match group with
         | none => (S4, some (i : Int))
         | some g => (S4.constraintAdd g i isExtra crExtra, some (i : Int))
       else (S3, some (i : Int)) : Store × Key).1.opts = S.opts := by
  simp only
  generalize hr : S.addAtomNode ident (Node.atom ident group isExtra name) = r
  obtain ⟨S1, i⟩ := r
  have h1 : S1.opts = S.opts := by
    have := addAtomNode_opts S ident (Node.atom ident group isExtra name)
    rw [hr] at this; exact this
  simp only
  generalize hS3 : (match name with
       | some n => Store.addName { S1 with weights := assocSet S1.weights i w } n (some (i : Int)) Label.named
       | none => { S1 with weights := assocSet S1.weights i w }) = S3
  have h3 : S3.opts = S.opts := by
    subst hS3
    cases name with
    | none => exact h1
    | some n => rw [addName_opts]; exact h1
  split
  · cases group with
    | none => exact h3
    | some g => simp only; rw [constraintAdd_opts]; exact h3
  · exact h3

theorem addAtom_opts (S : Store) (ident : Ident) (pc : PClass) (w : Weight) (group : Option Nat)
    (name : Option Name) (crExtra isExtra : Bool) :
    (S.addAtom ident pc w group name crExtra isExtra).1.opts = S.opts := by
  unfold Store.addAtom
  split
  · rfl
  · rfl
  · rfl
  · rfl
  · exact addAtom_main_opts S ident w group name crExtra isExtra

/-- `add_atom` of an ordinary weight: the key is a node that carries the identifier. -/
theorem addAtom_normal (S : Store) (ident : Ident) (w : Weight) (group : Option Nat)
    (name : Option Name) (crExtra isExtra : Bool) :
    AtomKey ident (S.addAtom ident .normal w group name crExtra isExtra) := by
  unfold Store.addAtom
  split <;> first | contradiction | exact (addAtom_main S ident w group name crExtra isExtra).2

theorem addAtom_pNone {S : Store} (hk : S.opts.keepAll = false) (ident : Ident) (w : Weight) (group : Option Nat)
    (name : Option Name) (crExtra isExtra : Bool) :
    S.addAtom ident .pNone w group name crExtra isExtra = (S, TRUE) := by
  unfold Store.addAtom
  rw [hk]

/-- `add_atom(ident, p, ...)` for a number `p`: a positive key whose node is the atom `ident`; its value under a
    valuation that agrees with `chosen` is the value of choice `c`. -/
theorem addAtom_step {S : Store} (hs : SInv S) (chosen : Array Bool) (c : Nat) (w : Weight) (group : Option Nat)
    (name : Option Name) :
    SInv (S.addAtom (.user c) .normal w group name).1 ∧ Grows S (S.addAtom (.user c) .normal w group name).1 ∧
    NEq S (S.addAtom (.user c) .normal w group name).1 ∧
    isFalse (S.addAtom (.user c) .normal w group name).2 = false ∧
    Den chosen (S.addAtom (.user c) .normal w group name).1 (S.addAtom (.user c) .normal w group name).2
      (getB chosen c) := by
  have hst := Formula.addAtom_step S (.user c) .normal w group name true false
  have hk := addAtom_normal S (.user c) w group name true false
  have ho := addAtom_opts S (.user c) .normal w group name true false
  have hne := addAtom_neq S (.user c) .normal w group name true false
  generalize S.addAtom (.user c) .normal w group name = R at hst hk ho hne
  obtain ⟨S', k⟩ := R
  obtain ⟨i, hi, hl⟩ := hk
  simp only at hi hl ho hst hne ⊢
  subst hi
  have hw' : WF S' := hst.1 hs.wf
  obtain ⟨h1, g, e, nm, hn⟩ := hw'.atom _ _ hl
  have hlt : i - 1 < S'.nodes.length := by
    rcases Nat.lt_or_ge (i - 1) S'.nodes.length with hlt | hge
    · exact hlt
    · rw [List.getElem?_eq_none hge] at hn; cases hn
  refine ⟨⟨hw', hst.2.2.2 hs.acyc, by rw [ho]; exact hs.keepAll⟩, hst.2.1, hne, rfl, ?_, fun ρ hρ => ?_⟩
  · show ((i : Nat) : Int).natAbs ≤ _
    rw [Int.natAbs_natCast]; omega
  · rw [keyVal_pos ρ i h1]
    have := hρ.2 (i - 1) (c : Int) g e nm hn
    rw [Nat.sub_add_cancel h1] at this
    rw [this]; simp

end ProbLogProofs.GroundInv
