import Mathlib.Tactic.Ring
import Mathlib.Tactic.FieldSimp
import Mathlib.Algebra.Field.Rat
import ProbLogModel.SymbolicEval
/-!
# The symbolic evaluator computes the value of every derivation of the emitted grammar

`Der false ts v` : the token list `ts` is a factor  F ::= numeral | ( T ) | ( T + T ) | ( T - T )  with value `v`
`Der true  ts v` : `ts` is a product  T ::= F | T * F | T / F  (division by a non-zero value only)

Main results: `evalToks_of_der` (the stack machine returns `v`), `der_mul` (juxtaposition `a * b` of two products is
a product with the product value: `a*b1/b2` read left-associatively equals `a*(b1/b2)` in a field), `der_single`
(a one-numeral string has exactly its numeral value), and the lexer lemmas `lex_cat`, `lex_delim`, `lex_numeral`.
-/
namespace ProbLogProofs.Sym
open ProbLogModel.SymbolicEval

inductive Der : Bool → List Tok → Rat → Prop
  | num (q : Rat) : Der false [.num q] q
  | paren {ts v} : Der true ts v → Der false (.lp :: ts ++ [.rp]) v
  | add {a b x y} : Der true a x → Der true b y → Der false (.lp :: a ++ .plus :: b ++ [.rp]) (x + y)
  | sub {a b x y} : Der true a x → Der true b y → Der false (.lp :: a ++ .minus :: b ++ [.rp]) (x - y)
  | ofF {ts v} : Der false ts v → Der true ts v
  | mul {a b x y} : Der true a x → Der false b y → Der true (a ++ .star :: b) (x * y)
  | div {a b x y} : Der true a x → Der false b y → y ≠ 0 → Der true (a ++ .slash :: b) (x / y)

/-- A product may arrive where an operand is expected, except directly after `/`. -/
def feedT (f : Frame) (v : Rat) : Option Frame :=
  match f.prod, f.pend with
  | none, none => some { f with prod := some v }
  | some p, some false => some { f with prod := some (p * v), pend := none }
  | _, _ => none

theorem feed_of_feedT {f f' : Frame} {v : Rat} (h : feedT f v = some f') : feed f v = some f' := by
  rcases f with ⟨lhs, prod, pend⟩
  cases prod <;> cases pend <;> simp [feedT] at h
  · simpa [feed] using h
  · rename_i p b
    cases b <;> simp at h
    simpa [feed] using h

theorem run_append (s : St) (a b : List Tok) : run s (a ++ b) = (run s a).bind (fun s' => run s' b) := by
  induction a generalizing s with
  | nil => simp [run]
  | cons t ts ih =>
    simp only [List.cons_append, run]
    cases step s t with
    | none => simp
    | some s' => simpa using ih s'

theorem run_der {lvl : Bool} {ts : List Tok} {v : Rat} (h : Der lvl ts v) :
    ∀ (s : St) (rest : List Tok) (f' : Frame),
      (if lvl then feedT s.cur v else feed s.cur v) = some f' → run s (ts ++ rest) = run ⟨f', s.stack⟩ rest := by
  induction h with
  | num q =>
    intro s rest f' hf
    simp only [Bool.false_eq_true, if_false] at hf
    simp [run, step, hf]
  | @paren ts v _ ih =>
    intro s rest f' hf
    simp only [Bool.false_eq_true, if_false] at hf
    have h1 := ih ⟨Frame.empty, s.cur :: s.stack⟩ (.rp :: rest) ⟨none, some v, none⟩ (by simp [feedT, Frame.empty])
    have e : (Tok.lp :: ts ++ [Tok.rp]) ++ rest = Tok.lp :: (ts ++ (Tok.rp :: rest)) := by simp
    rw [e]
    simp only [run, step, Option.bind_some]
    rw [h1]
    simp [run, step, Frame.close, hf]
  | @add a b x y _ _ iha ihb =>
    intro s rest f' hf
    simp only [Bool.false_eq_true, if_false] at hf
    have h1 := iha ⟨Frame.empty, s.cur :: s.stack⟩ (.plus :: (b ++ (.rp :: rest))) ⟨none, some x, none⟩ (by simp [feedT, Frame.empty])
    have h2 := ihb ⟨⟨some (x, false), none, none⟩, s.cur :: s.stack⟩ (.rp :: rest) ⟨some (x, false), some y, none⟩ (by simp [feedT])
    have e : (Tok.lp :: a ++ Tok.plus :: b ++ [Tok.rp]) ++ rest = Tok.lp :: (a ++ (Tok.plus :: (b ++ (Tok.rp :: rest)))) := by simp
    rw [e]
    simp only [run, step, Option.bind_some]
    rw [h1]
    simp only [run, step, Option.bind_some]
    rw [h2]
    simp [run, step, Frame.close, hf]
  | @sub a b x y _ _ iha ihb =>
    intro s rest f' hf
    simp only [Bool.false_eq_true, if_false] at hf
    have h1 := iha ⟨Frame.empty, s.cur :: s.stack⟩ (.minus :: (b ++ (.rp :: rest))) ⟨none, some x, none⟩ (by simp [feedT, Frame.empty])
    have h2 := ihb ⟨⟨some (x, true), none, none⟩, s.cur :: s.stack⟩ (.rp :: rest) ⟨some (x, true), some y, none⟩ (by simp [feedT])
    have e : (Tok.lp :: a ++ Tok.minus :: b ++ [Tok.rp]) ++ rest = Tok.lp :: (a ++ (Tok.minus :: (b ++ (Tok.rp :: rest)))) := by simp
    rw [e]
    simp only [run, step, Option.bind_some]
    rw [h1]
    simp only [run, step, Option.bind_some]
    rw [h2]
    simp [run, step, Frame.close, hf]
  | ofF _ ih =>
    intro s rest f' hf
    simp only [if_true] at hf
    exact ih s rest f' (by simpa using feed_of_feedT hf)
  | @mul a b x y _ _ iha ihb =>
    intro s rest f' hf
    simp only [if_true] at hf
    have e : (a ++ Tok.star :: b) ++ rest = a ++ (Tok.star :: (b ++ rest)) := by simp
    rw [e]
    rcases s with ⟨⟨lhs, prod, pend⟩, stack⟩
    cases prod <;> cases pend <;> simp [feedT] at hf
    · subst hf
      have h1 := iha ⟨⟨lhs, none, none⟩, stack⟩ (.star :: (b ++ rest)) ⟨lhs, some x, none⟩ (by simp [feedT])
      have h2 := ihb ⟨⟨lhs, some x, some false⟩, stack⟩ rest ⟨lhs, some (x * y), none⟩ (by simp [feed])
      rw [h1]
      simp only [run, step, Option.bind_some]
      exact h2
    · rename_i p bb
      cases bb <;> simp at hf
      subst hf
      have h1 := iha ⟨⟨lhs, some p, some false⟩, stack⟩ (.star :: (b ++ rest)) ⟨lhs, some (p * x), none⟩ (by simp [feedT])
      have h2 := ihb ⟨⟨lhs, some (p * x), some false⟩, stack⟩ rest ⟨lhs, some (p * x * y), none⟩ (by simp [feed])
      rw [h1]
      simp only [run, step, Option.bind_some]
      rw [h2, mul_assoc]
  | @div a b x y _ _ hy iha ihb =>
    intro s rest f' hf
    simp only [if_true] at hf
    have e : (a ++ Tok.slash :: b) ++ rest = a ++ (Tok.slash :: (b ++ rest)) := by simp
    rw [e]
    rcases s with ⟨⟨lhs, prod, pend⟩, stack⟩
    cases prod <;> cases pend <;> simp [feedT] at hf
    · subst hf
      have h1 := iha ⟨⟨lhs, none, none⟩, stack⟩ (.slash :: (b ++ rest)) ⟨lhs, some x, none⟩ (by simp [feedT])
      have h2 := ihb ⟨⟨lhs, some x, some true⟩, stack⟩ rest ⟨lhs, some (x / y), none⟩ (by simp [feed, hy])
      rw [h1]
      simp only [run, step, Option.bind_some]
      exact h2
    · rename_i p bb
      cases bb <;> simp at hf
      subst hf
      have h1 := iha ⟨⟨lhs, some p, some false⟩, stack⟩ (.slash :: (b ++ rest)) ⟨lhs, some (p * x), none⟩ (by simp [feedT])
      have h2 := ihb ⟨⟨lhs, some (p * x), some true⟩, stack⟩ rest ⟨lhs, some (p * x / y), none⟩ (by simp [feed, hy])
      rw [h1]
      simp only [run, step, Option.bind_some]
      rw [h2, mul_div_assoc]

/-- The machine computes the value of every product derivation. -/
theorem evalToks_of_der {ts : List Tok} {v : Rat} (h : Der true ts v) : evalToks ts = some v := by
  have := run_der h ⟨Frame.empty, []⟩ [] ⟨none, some v, none⟩ (by simp [feedT, Frame.empty])
  simp only [List.append_nil] at this
  simp [evalToks, this, run, finish, Frame.close]

theorem der_ne_nil {lvl : Bool} {ts : List Tok} {v : Rat} (h : Der lvl ts v) : 0 < ts.length := by
  induction h <;> first | assumption | simp

/-- A single numeral has exactly its own value. -/
theorem der_single {lvl : Bool} {ts : List Tok} {v q : Rat} (h : Der lvl ts v) (e : ts = [.num q]) : v = q := by
  induction h with
  | num q' => simpa using e
  | paren _ _ => simp at e
  | add _ _ _ _ => simp at e
  | sub _ _ _ _ => simp at e
  | ofF _ ih => exact ih e
  | mul ha _ _ _ =>
    have := der_ne_nil ha
    have := congrArg List.length e
    simp at this; omega
  | div ha _ _ _ _ =>
    have := der_ne_nil ha
    have := congrArg List.length e
    simp at this; omega

/-- `a*b` for two products: a product with the product of the values. -/
theorem der_mul {lvl : Bool} {b : List Tok} {y : Rat} (hb : Der lvl b y) :
    ∀ {a : List Tok} {x : Rat}, Der true a x → Der true (a ++ .star :: b) (x * y) := by
  induction hb with
  | num q => intro a x ha; exact Der.mul ha (Der.num q)
  | paren h _ => intro a x ha; exact Der.mul ha (Der.paren h)
  | add h1 h2 _ _ => intro a x ha; exact Der.mul ha (Der.add h1 h2)
  | sub h1 h2 _ _ => intro a x ha; exact Der.mul ha (Der.sub h1 h2)
  | ofF _ ih => intro a x ha; exact ih ha
  | mul _ h2 ih1 _ =>
    intro a x ha
    have := Der.mul (ih1 ha) h2
    simpa [List.append_assoc, mul_assoc] using this
  | div _ h2 hy ih1 _ =>
    intro a x ha
    have := Der.div (ih1 ha) h2 hy
    simpa [List.append_assoc, mul_div_assoc] using this

/-! ### Lexer -/

theorem lexAux_append (a : List Char) : ∀ (acc : List Char) (d : Char) (r : List Char), isNumChar d = false →
    lexAux acc (a ++ d :: r) = (lexAux acc a).bind (fun ta => (lexAux [] (d :: r)).map (fun tr => ta ++ tr)) := by
  induction a with
  | nil =>
    intro acc d r hd
    simp only [List.nil_append, lexAux, hd, Bool.false_eq_true, if_false, flush, List.isEmpty_nil, if_true]
    cases delim d <;> cases (if acc.isEmpty = true then some [] else Option.map (fun q => [Tok.num q]) (numVal acc.reverse))
      <;> cases lexAux [] r <;> simp
  | cons c a ih =>
    intro acc d r hd
    have ih1 := ih (c :: acc) d r hd
    have ih2 := ih [] d r hd
    generalize lexAux [] (d :: r) = X at ih1 ih2 ⊢
    simp only [List.cons_append, lexAux]
    by_cases hc : isNumChar c = true
    · simp only [hc, if_true]; exact ih1
    · simp only [hc, Bool.false_eq_true, if_false]
      rw [ih2]
      cases delim c <;> cases flush acc <;> cases lexAux [] a <;> cases X <;> simp

/-- Tokens of `a d r` where `d` is a delimiter character: those of `a`, of `d`, of `r`. -/
theorem lex_cat {a r : List Char} {d : Char} {ta dd tr : List Tok} (ha : lexChars a = some ta)
    (hd : delim d = some dd) (hn : isNumChar d = false) (hr : lexChars r = some tr) :
    lexChars (a ++ d :: r) = some (ta ++ dd ++ tr) := by
  unfold lexChars at *
  rw [lexAux_append a [] d r hn, ha]
  simp [lexAux, hn, hd, hr, flush]

theorem lex_delim {r : List Char} {d : Char} {dd tr : List Tok}
    (hd : delim d = some dd) (hn : isNumChar d = false) (hr : lexChars r = some tr) :
    lexChars (d :: r) = some (dd ++ tr) := by
  unfold lexChars at *
  simp [lexAux, hn, hd, hr, flush]

theorem lex_nil : lexChars [] = some [] := by simp [lexChars, lexAux, flush]

theorem lexAux_numeral (cs : List Char) : ∀ acc, (∀ c ∈ cs, isNumChar c = true) →
    lexAux acc cs = flush (cs.reverse ++ acc) := by
  induction cs with
  | nil => intro acc _; simp [lexAux]
  | cons c cs ih =>
    intro acc h
    have hc : isNumChar c = true := h c (by simp)
    simp only [lexAux, hc, if_true]
    rw [ih (c :: acc) (fun x hx => h x (by simp [hx]))]
    simp

/-- A non-empty run of numeral characters with a value is one numeral token. -/
theorem lex_numeral {cs : List Char} {q : Rat} (hne : cs ≠ []) (hnum : ∀ c ∈ cs, isNumChar c = true)
    (hv : numVal cs = some q) : lexChars cs = some [.num q] := by
  unfold lexChars
  rw [lexAux_numeral cs [] hnum]
  simp [flush, hne, hv]

/-! ### Strings -/

/-- `s` belongs to the emitted language and denotes `v`. -/
def InLang (s : String) (v : Rat) : Prop := ∃ ts, lexChars s.toList = some ts ∧ Der true ts v

/-- A plain decimal numeral (`str` of a probability constant) with value `q`. -/
def IsNumeral (s : String) (q : Rat) : Prop :=
  s.toList ≠ [] ∧ (∀ c ∈ s.toList, isNumChar c = true) ∧ numVal s.toList = some q

theorem lex_zero : lexChars "0".toList = some [.num 0] := by
  rw [show "0".toList = ['0'] from rfl]; decide
theorem lex_one : lexChars "1".toList = some [.num 1] := by
  rw [show "1".toList = ['1'] from rfl]; decide

theorem inLang_zero : InLang "0" 0 := ⟨_, lex_zero, Der.ofF (Der.num 0)⟩
theorem inLang_one : InLang "1" 1 := ⟨_, lex_one, Der.ofF (Der.num 1)⟩

theorem val_of_zero {s : String} {x : Rat} (h : InLang s x) (e : (s == "0") = true) : x = 0 := by
  have : s = "0" := by simpa using e
  subst this
  obtain ⟨ts, hl, hd⟩ := h
  rw [lex_zero] at hl
  exact der_single hd (by simpa using hl.symm)

theorem val_of_one {s : String} {x : Rat} (h : InLang s x) (e : (s == "1") = true) : x = 1 := by
  have : s = "1" := by simpa using e
  subst this
  obtain ⟨ts, hl, hd⟩ := h
  rw [lex_one] at hl
  exact der_single hd (by simpa using hl.symm)

theorem isNumeral_02 : IsNumeral "0.2" (1/5) := by
  rw [IsNumeral, show "0.2".toList = ['0', '.', '2'] from rfl]
  refine ⟨by decide, by decide, ?_⟩
  simp [numVal, digitsVal] <;> norm_num
theorem isNumeral_09 : IsNumeral "0.9" (9/10) := by
  rw [IsNumeral, show "0.9".toList = ['0', '.', '9'] from rfl]
  refine ⟨by decide, by decide, ?_⟩
  simp [numVal, digitsVal] <;> norm_num
end ProbLogProofs.Sym
