/-
The partial (pt/ct) encoding: a satisfying assignment of the doubled variables is a three-valued assignment whose
certain values are justified; blocking clauses and `from_partial`.
-/
import Mathlib.Tactic.Linarith
import ProbLogModel.Tasks.KBest

namespace ProbLogProofs.KBest
open ProbLogModel.KBest ProbLogModel.Clark

/-- the literal `l` is certainly true in the three-valued assignment encoded by `b` -/
def certLit (b : Nat → Bool) (l : Int) : Bool := litVal b (cpt l)

theorem litVal_nat (v : Nat → Bool) (a : Nat) : litVal v ((a : Nat) : Int) = v a := by
  unfold litVal
  have : ¬ (((a : Nat) : Int) < 0) := by omega
  simp [this]

theorem litVal_negnat (v : Nat → Bool) (a : Nat) (h : 0 < a) : litVal v (-((a : Nat) : Int)) = !(v a) := by
  unfold litVal
  have h0 : a ≠ 0 := by omega
  simp [h0]

theorem pt_pos (a : Nat) (h : 0 < a) : 0 < pt a := by unfold pt; omega

theorem certLit_pos (b : Nat → Bool) (l : Int) (h : 0 < l) : certLit b l = b (ct l.natAbs) := by
  unfold certLit cpt
  have : ¬ l < 0 := by omega
  simp only [this, if_false]
  exact litVal_nat b _

theorem certLit_neg (b : Nat → Bool) (l : Int) (h : l < 0) : certLit b l = !(b (pt l.natAbs)) := by
  unfold certLit cpt
  simp only [h, if_true]
  exact litVal_negnat b _ (pt_pos _ (by omega))

/-- three-valued agreement at node `i`: certainly true ⇒ true in `v`, not possibly true ⇒ false in `v` -/
def Agree (b v : Nat → Bool) (i : Nat) : Prop := (b (ct i) = true → v i = true) ∧ (b (pt i) = false → v i = false)

/-- a certain literal over an agreeing node is true in `v` -/
theorem cert_sound (b v : Nat → Bool) (l : Int) (hl : l ≠ 0) (ha : Agree b v l.natAbs) (hc : certLit b l = true) :
    litVal v l = true := by
  by_cases h : l < 0
  · rw [certLit_neg b l h] at hc
    have hf := ha.2 (by simpa using hc)
    unfold litVal; simp [h, hf]
  · have hp : 0 < l := by omega
    rw [certLit_pos b l hp] at hc
    have ht := ha.1 hc
    unfold litVal; simp [h, ht]

theorem satClause_append (v : Nat → Bool) (a c : Clause) :
    satClause v (a ++ c) = (satClause v a || satClause v c) := by
  unfold satClause; simp [List.any_append]

/-- hard clause of a clause with positive head `i`: if `i` is not possibly true, some body literal is certain -/
theorem partial_pos_head (b : Nat → Bool) (i : Nat) (hi : 0 < i) (body : List Int)
    (hs : satClause b (partialLits (i : Int) body) = true) (hpt : b (pt i) = false) (hct : b (ct i) = false) :
    ∃ c ∈ body, certLit b c = true := by
  unfold partialLits at hs
  have : ¬ ((i : Int) < 0) := by omega
  simp only [this, if_false, Int.natAbs_natCast] at hs
  rw [satClause_append] at hs
  have h1 : satClause b [((ct i : Nat) : Int), ((pt i : Nat) : Int)] = false := by
    simp [satClause, litVal_nat, hpt, hct]
  rw [h1, Bool.false_or] at hs
  simp only [satClause, List.any_map, List.any_eq_true] at hs
  obtain ⟨c, hc, hv⟩ := hs
  exact ⟨c, hc, hv⟩

/-- hard clause of a clause with negative head `-i`: if `i` is certainly true, some body literal is certain -/
theorem partial_neg_head (b : Nat → Bool) (i : Nat) (hi : 0 < i) (body : List Int)
    (hs : satClause b (partialLits (-(i : Int)) body) = true) (hpt : b (pt i) = true) (hct : b (ct i) = true) :
    ∃ c ∈ body, certLit b c = true := by
  unfold partialLits at hs
  have : (-(i : Int) < 0) := by omega
  simp only [this, if_true, Int.natAbs_neg, Int.natAbs_natCast] at hs
  rw [satClause_append] at hs
  have h1 : satClause b [-((ct i : Nat) : Int), -((pt i : Nat) : Int)] = false := by
    have hc0 : 0 < ct i := by unfold ct; omega
    simp [satClause, litVal_negnat b _ hc0, litVal_negnat b _ (pt_pos i hi), hpt, hct]
  rw [h1, Bool.false_or] at hs
  simp only [satClause, List.any_map, List.any_eq_true] at hs
  obtain ⟨c, hc, hv⟩ := hs
  exact ⟨c, hc, hv⟩

/-! ### definitional DAG (the clauses of Clark's completion, `Clark.nodeClauses`, over literal lists) -/

inductive Def where
  | atom
  | conj (ls : List Int)
  | disj (ls : List Int)

def Def.lits : Def → List Int
  | .atom => []
  | .conj ls => ls
  | .disj ls => ls

/-- the clauses `clarks_completion` emits for node `i` (head first) -/
def defClauses (i : Nat) : Def → List Clause
  | .atom => []
  | .conj ls => ((i : Int) :: ls.map (fun x => -x)) :: ls.map (fun c => [-(i : Int), c])
  | .disj ls => (-(i : Int) :: ls) :: ls.map (fun c => [(i : Int), -c])

/-- `v` is a model of the completion at node `i` -/
def DefOK (v : Nat → Bool) (i : Nat) : Def → Prop
  | .atom => True
  | .conj ls => v i = ls.all (litVal v)
  | .disj ls => v i = ls.any (litVal v)

theorem litVal_neg' (v : Nat → Bool) (c : Int) (h : c ≠ 0) : litVal v (-c) = !(litVal v c) := by
  unfold litVal
  by_cases hc : c < 0
  · have h1 : ¬ (-c < 0) := by omega
    simp [hc, Int.natAbs_neg]; omega
  · have h1 : -c < 0 := by omega
    simp [hc, Int.natAbs_neg]; omega

/-- The certain values of a satisfying assignment of the partial encoding are justified downwards: every total model of
    the completion that agrees with them on the atoms agrees with them on every node. -/
theorem partial_sound (D : Nat → Def) (hacyc : ∀ i, ∀ c ∈ (D i).lits, c ≠ 0 ∧ c.natAbs < i)
    (b v : Nat → Bool) (hcons : ∀ i, b (ct i) = true → b (pt i) = true)
    (hb : ∀ i, 0 < i → ∀ c ∈ defClauses i (D i), satClause b (partialOfClause c) = true)
    (hv : ∀ i, DefOK v i (D i))
    (hat : ∀ i, (D i).lits = [] → Agree b v i) :
    ∀ i, Agree b v i := by
  intro i
  induction i using Nat.strongRecOn with
  | ind i ih =>
    by_cases hi : i = 0
    · subst hi
      apply hat
      have := hacyc 0
      cases h : (D 0).lits with
      | nil => rfl
      | cons c cs =>
        have := (this c (by rw [h]; exact List.mem_cons_self)).2
        omega
    have hipos : 0 < i := by omega
    have hchild : ∀ c ∈ (D i).lits, c ≠ 0 ∧ Agree b v c.natAbs := fun c hc =>
      ⟨(hacyc i c hc).1, ih c.natAbs (hacyc i c hc).2⟩
    cases hD : D i with
    | atom => exact hat i (by rw [hD]; rfl)
    | conj ls =>
      have hbi := hb i hipos
      have hvi := hv i
      rw [hD] at hbi hvi hchild
      simp only [Def.lits] at hchild
      simp only [DefOK] at hvi
      constructor
      · intro hct
        have hpt := hcons i hct
        rw [hvi, List.all_eq_true]
        intro c hc
        have hcl := hbi [-(i : Int), c] (by
          simp only [defClauses, List.mem_cons, List.mem_map]; exact Or.inr ⟨c, hc, rfl⟩)
        simp only [partialOfClause] at hcl
        obtain ⟨c', hc', hcert⟩ := partial_neg_head b i hipos [c] hcl hpt hct
        simp only [List.mem_singleton] at hc'
        subst hc'
        exact cert_sound b v c' (hchild c' hc).1 (hchild c' hc).2 hcert
      · intro hpt
        have hct : b (ct i) = false := by
          cases h : b (ct i) with
          | false => rfl
          | true => have := hcons i h; rw [hpt] at this; cases this
        have hcl := hbi ((i : Int) :: ls.map (fun x => -x)) (by simp [defClauses])
        simp only [partialOfClause] at hcl
        obtain ⟨c', hc', hcert⟩ := partial_pos_head b i hipos _ hcl hpt hct
        obtain ⟨c, hc, rfl⟩ := List.mem_map.mp hc'
        have hnz := (hchild c hc).1
        have hag : Agree b v (-c).natAbs := by rw [Int.natAbs_neg]; exact (hchild c hc).2
        have := cert_sound b v (-c) (by omega) hag hcert
        rw [litVal_neg' v c hnz] at this
        rw [hvi]
        apply Bool.eq_false_iff.mpr
        intro hall
        have := List.all_eq_true.mp hall c hc
        simp_all
    | disj ls =>
      have hbi := hb i hipos
      have hvi := hv i
      rw [hD] at hbi hvi hchild
      simp only [Def.lits] at hchild
      simp only [DefOK] at hvi
      constructor
      · intro hct
        have hpt := hcons i hct
        have hcl := hbi (-(i : Int) :: ls) (by simp [defClauses])
        simp only [partialOfClause] at hcl
        obtain ⟨c, hc, hcert⟩ := partial_neg_head b i hipos ls hcl hpt hct
        rw [hvi, List.any_eq_true]
        exact ⟨c, hc, cert_sound b v c (hchild c hc).1 (hchild c hc).2 hcert⟩
      · intro hpt
        have hct : b (ct i) = false := by
          cases h : b (ct i) with
          | false => rfl
          | true => have := hcons i h; rw [hpt] at this; cases this
        rw [hvi]
        apply Bool.eq_false_iff.mpr
        intro hany
        obtain ⟨c, hc, hvc⟩ := List.any_eq_true.mp hany
        have hcl := hbi [(i : Int), -c] (by
          simp only [defClauses, List.mem_cons, List.mem_map]; exact Or.inr ⟨c, hc, rfl⟩)
        simp only [partialOfClause] at hcl
        obtain ⟨c', hc', hcert⟩ := partial_pos_head b i hipos [-c] hcl hpt hct
        simp only [List.mem_singleton] at hc'
        subst hc'
        have hnz := (hchild c hc).1
        have hag : Agree b v (-c).natAbs := by rw [Int.natAbs_neg]; exact (hchild c hc).2
        have := cert_sound b v (-c) (by omega) hag hcert
        rw [litVal_neg' v c hnz, hvc] at this
        cases this

end ProbLogProofs.KBest
