import ProbLogProofs.Lemmas.UnrollNamesBreak
import ProbLogProofs.Lemmas.UnrollReuseNode
import ProbLogProofs.Lemmas.UnrollDag
/-!
Helper lemmas for C09Unroll (11): the two loops of `break_cycles` (queries with a shared table; evidence nodes with a
fresh table, `is_evidence = True`, sign applied afterwards) keep the invariant "every query / evidence entry of the
target's name table denotes the perfect-model value of a source entry with the same label and name".
-/
namespace ProbLogProofs.Unroll
open ProbLogModel.Formula ProbLogModel.Cycles ProbLogProofs.Cycles

/-- The query / evidence entries of the target's name table are right. -/
def NamesOK (src : Store) (α : Nat → Bool) (T : Store) : Prop :=
  ∀ e ∈ NN T, ∃ n, (e.1, e.2.1, n) ∈ src.names ∧ keyBelow T.nodes.length e.2.2 ∧
    ∀ ρ, Consistent T ρ → Carries src T α ρ → keyVal ρ e.2.2 = Pv src α n

theorem NamesOK.mono {src : Store} {α : Nat → Bool} {T T' : Store} (hs : Step T T') (hnn : NN T' = NN T)
    (h : NamesOK src α T) : NamesOK src α T' := by
  intro e he
  rw [hnn] at he
  obtain ⟨n, h1, h2, h3⟩ := h e he
  exact ⟨n, h1, keyBelow_step hs h2, fun ρ hc hcar => h3 ρ (hs.2.1.consistent hc) (Carries.mono hs hcar)⟩

/-- `target.add_name(q, key, label)` with a key of the right meaning. -/
theorem NamesOK.addName {src : Store} {α : Nat → Bool} {T : Store} (h : NamesOK src α T) {l : Label} {q : Name}
    {k n : Key} (hsrc : (l, q, n) ∈ src.names) (hkb : keyBelow T.nodes.length k)
    (hsem : ∀ ρ, Consistent T ρ → Carries src T α ρ → keyVal ρ k = Pv src α n) :
    NamesOK src α (T.addName q k l) := by
  have hs := addName_step T q k l false
  intro e he
  unfold NN at he
  rw [addName_names, List.mem_filter] at he
  rcases mem_setNames he.1 with hold | rfl
  · obtain ⟨n', h1, h2, h3⟩ := h e (List.mem_filter.2 ⟨hold, he.2⟩)
    exact ⟨n', h1, keyBelow_step hs h2, fun ρ hc hcar => h3 ρ (hs.2.1.consistent hc) (Carries.mono hs hcar)⟩
  · exact ⟨n, hsrc, keyBelow_step hs hkb,
      fun ρ hc hcar => hsem ρ (hs.2.1.consistent hc) (Carries.mono hs hcar)⟩

theorem mem_namesByLabel {ns : List (Label × Name × Key)} {e : Label × Name × Key} (h : e ∈ namesByLabel ns) :
    e ∈ ns := by
  unfold namesByLabel at h
  simp only [List.mem_flatMap, List.mem_filter] at h
  obtain ⟨_, _, h2, _⟩ := h
  exact h2

theorem const_of_not_prob {n : Key} (h : ¬ isProbabilistic n = true) : n = none ∨ n = some 0 := by
  cases n with
  | none => exact Or.inl rfl
  | some i =>
    by_cases hi : i = 0
    · exact Or.inr (by rw [hi])
    · exfalso; apply h
      simp [isProbabilistic, ProbLogModel.Formula.isTrue, ProbLogModel.Formula.isFalse, hi]

theorem ne_zero_of_prob {i : Int} (h : isProbabilistic (some i) = true) : i ≠ 0 := by
  intro hi
  subst hi
  simp [isProbabilistic, ProbLogModel.Formula.isTrue] at h

theorem const_sem (src : Store) (α ρ : Nat → Bool) {n : Key} (h : n = none ∨ n = some 0) :
    keyVal ρ n = Pv src α n := by
  rcases h with rfl | rfl <;> rfl

theorem keyBelow_const (m : Nat) {n : Key} (h : n = none ∨ n = some 0) : keyBelow m n := by
  rcases h with rfl | rfl
  · trivial
  · show (0 : Int).natAbs ≤ _; simp

/-! ### the loops -/

/-- One iteration of the first loop of `break_cycles` (queries and other labelled nodes). -/
def bcStep1 (src : Store) (ev : Option (List (Nat × Key))) (fuel : Nat) (acc : Except CErr BC)
    (e : Label × Name × Key) : Except CErr BC :=
  match acc with
  | .error x => .error x
  | .ok st =>
    let (l, q, n) := e
    if isProbabilistic n then
      match n with
      | some i =>
        match breakNode src ev fuel st i [] false with
        | .error x => .error x
        | .ok r => .ok ⟨r.st.target.addName q r.key l, r.st.trans⟩
      | none => .ok st
    else .ok ⟨st.target.addName q n l, st.trans⟩

/-- One iteration of the second loop (evidence). -/
def bcStep2 (src : Store) (ev : Option (List (Nat × Key))) (fuel : Nat) (acc : Except CErr BC)
    (e : Label × Name × Key) : Except CErr BC :=
  match acc with
  | .error x => .error x
  | .ok st =>
    let (l, q, n) := e
    if isProbabilistic n then
      match n with
      | some i =>
        match breakNode src ev fuel st (i.natAbs : Int) [] true with
        | .error x => .error x
        | .ok r =>
          let k := if i < 0 then negate r.key else r.key
          .ok ⟨r.st.target.addName q k l, r.st.trans⟩
      | none => .ok st
    else .ok ⟨st.target.addName q n l, st.trans⟩

/-- The input lists of the two loops. -/
def bcLabeled (src : Store) (keepNamed : Bool) : List (Label × Name × Key) :=
  (namesByLabel src.names).filter (fun e => isQueryLike e.1) ++
    (if keepNamed then (namesByLabel src.names).filter (fun e => e.1 == .named) else [])

def bcEvs (src : Store) : List (Label × Name × Key) :=
  ((namesByLabel src.names).filter (fun e => e.1 == .evPos)) ++
    ((namesByLabel src.names).filter (fun e => e.1 == .evNeg)) ++
    ((namesByLabel src.names).filter (fun e => e.1 == .evMaybe))

theorem breakCycles_eq (src : Store) (ev : Option (List (Nat × Key))) (opts : Opts) (keepNamed : Bool) :
    breakCycles src ev opts keepNamed =
      match (bcLabeled src keepNamed).foldl (bcStep1 src ev (src.nodes.length + 2)) (.ok ⟨{ opts := opts }, []⟩) with
      | .error x => .error x
      | .ok st1 =>
        match (bcEvs src).foldl (bcStep2 src ev (src.nodes.length + 2)) (.ok ⟨st1.target, []⟩) with
        | .error x => .error x
        | .ok st2 => .ok st2.target := by
  rfl

theorem foldl_error {β} (step : Except CErr BC → β → Except CErr BC)
    (herr : ∀ x b, step (.error x) b = .error x) (l : List β) (x : CErr) :
    l.foldl step (.error x) = .error x := by
  induction l with
  | nil => rfl
  | cons b l ih => rw [List.foldl_cons, herr, ih]

theorem foldl_inv {β} (step : Except CErr BC → β → Except CErr BC) (I : BC → Prop)
    (herr : ∀ x b, step (.error x) b = .error x) :
    ∀ (l : List β), (∀ st b st', b ∈ l → I st → step (.ok st) b = .ok st' → I st') →
      ∀ st st', I st → l.foldl step (.ok st) = .ok st' → I st' := by
  intro l
  induction l with
  | nil =>
    intro _ st st' hI h
    simp only [List.foldl_nil, Except.ok.injEq] at h
    subst h; exact hI
  | cons b l ih =>
    intro hstep st st' hI h
    rw [List.foldl_cons] at h
    cases hs : step (.ok st) b with
    | error x => rw [hs, foldl_error step herr] at h; cases h
    | ok st1 =>
      rw [hs] at h
      exact ih (fun st b st' hb => hstep st b st' (List.mem_cons_of_mem _ hb)) st1 st'
        (hstep st b st1 List.mem_cons_self hI hs) h

/-- The loop invariant. -/
structure CycInv (src : Store) (lvl : Nat → Nat) (α : Nat → Bool) (st : BC) : Prop where
  wf : WF st.target
  acyc : Acyclic st.target
  trans : TransOK src lvl α st.target st.trans
  names : NamesOK src α st.target

theorem CycInv.addName {src : Store} {lvl : Nat → Nat} {α : Nat → Bool} {T : Store} {tr : Trans}
    (hw : WF T) (ha : Acyclic T) (htr : TransOK src lvl α T tr) (hnm : NamesOK src α T) {l : Label} {q : Name}
    {k n : Key} (hsrc : (l, q, n) ∈ src.names) (hkb : keyBelow T.nodes.length k)
    (hsem : ∀ ρ, Consistent T ρ → Carries src T α ρ → keyVal ρ k = Pv src α n) :
    CycInv src lvl α ⟨T.addName q k l, tr⟩ :=
  ⟨addName_wf hw _ _ _ _, addName_acyclic ha _ _ _ _, htr.mono (addName_step T q k l false),
    hnm.addName hsrc hkb hsem⟩

theorem bcStep1_inv {src : Store} {lvl : Nat → Nat} (hst : Stratified src lvl) {α : Nat → Bool}
    (hdet : DetOK src α) {fuel : Nat} {st st' : BC} {e : Label × Name × Key} (he : e ∈ src.names)
    (hI : CycInv src lvl α st) (h : bcStep1 src none fuel (.ok st) e = .ok st') : CycInv src lvl α st' := by
  obtain ⟨l, q, n⟩ := e
  unfold bcStep1 at h
  simp only at h
  by_cases hp : isProbabilistic n = true
  · rw [if_pos hp] at h
    cases n with
    | none => simp only [Except.ok.injEq] at h; subst h; exact hI
    | some i =>
      simp only at h
      cases hr : breakNode src none fuel st i [] false with
      | error x => rw [hr] at h; cases h
      | ok r =>
        rw [hr] at h
        simp only [Except.ok.injEq] at h
        subst h
        have hc := node_valid hst hdet fuel st i [] false r (ne_zero_of_prob hp) hI.wf hI.trans
          (AncOK.nil src lvl i) hr
        exact CycInv.addName (hc.step.1 hI.wf) (hc.step.2.2.2 hI.acyc) hc.trans
          (hI.names.mono hc.step (breakNode_NN src none fuel st i [] false r hr)) he hc.kb
          (fun ρ hcons hcar => root_exact hc ρ hcons hcar)
  · rw [if_neg hp] at h
    simp only [Except.ok.injEq] at h
    subst h
    have hcst := const_of_not_prob hp
    exact CycInv.addName hI.wf hI.acyc hI.trans hI.names he (keyBelow_const _ hcst)
      (fun ρ _ _ => const_sem src α ρ hcst)

theorem bcStep2_inv {src : Store} {lvl : Nat → Nat} (hst : Stratified src lvl) {α : Nat → Bool}
    (hdet : DetOK src α) {fuel : Nat} {st st' : BC} {e : Label × Name × Key} (he : e ∈ src.names)
    (hI : CycInv src lvl α st) (h : bcStep2 src none fuel (.ok st) e = .ok st') : CycInv src lvl α st' := by
  obtain ⟨l, q, n⟩ := e
  unfold bcStep2 at h
  simp only at h
  by_cases hp : isProbabilistic n = true
  · rw [if_pos hp] at h
    cases n with
    | none => simp only [Except.ok.injEq] at h; subst h; exact hI
    | some i =>
      simp only at h
      cases hr : breakNode src none fuel st (i.natAbs : Int) [] true with
      | error x => rw [hr] at h; cases h
      | ok r =>
        rw [hr] at h
        simp only [Except.ok.injEq] at h
        subst h
        have hi0 := ne_zero_of_prob hp
        have hc := node_valid hst hdet fuel st (i.natAbs : Int) [] true r (by omega) hI.wf hI.trans
          (AncOK.nil src lvl _) hr
        refine CycInv.addName (k := sgn i r.key) (hc.step.1 hI.wf) (hc.step.2.2.2 hI.acyc) hc.trans
          (hI.names.mono hc.step (breakNode_NN src none fuel st _ [] true r hr)) he
          (keyBelow_sgn _ _ _ hc.kb) (fun ρ hcons hcar => ?_)
        rw [keyVal_sgn, root_exact hc ρ hcons hcar]
        by_cases hneg : i < 0
        · have e1 : (i.natAbs : Int) = -i := by omega
          rw [if_pos hneg, e1, Pv_neg src α i hi0, Bool.not_not]
        · have e1 : (i.natAbs : Int) = i := by omega
          rw [if_neg hneg, e1]
  · rw [if_neg hp] at h
    simp only [Except.ok.injEq] at h
    subst h
    have hcst := const_of_not_prob hp
    exact CycInv.addName hI.wf hI.acyc hI.trans hI.names he (keyBelow_const _ hcst)
      (fun ρ _ _ => const_sem src α ρ hcst)

theorem mem_bcLabeled {src : Store} {keepNamed : Bool} {e : Label × Name × Key}
    (h : e ∈ bcLabeled src keepNamed) : e ∈ src.names := by
  unfold bcLabeled at h
  rcases List.mem_append.1 h with h | h
  · exact mem_namesByLabel (List.mem_filter.1 h).1
  · cases keepNamed
    · cases h
    · exact mem_namesByLabel (List.mem_filter.1 h).1

theorem mem_bcEvs {src : Store} {e : Label × Name × Key} (h : e ∈ bcEvs src) : e ∈ src.names := by
  unfold bcEvs at h
  simp only [List.mem_append, List.mem_filter] at h
  rcases h with (h | h) | h <;> exact mem_namesByLabel h.1

/-- `break_cycles` (no evidence table): the resulting target satisfies the loop invariant. -/
theorem breakCycles_inv {src : Store} {lvl : Nat → Nat} (hst : Stratified src lvl) {α : Nat → Bool}
    (hdet : DetOK src α) {opts : Opts} {keepNamed : Bool} {T' : Store}
    (h : breakCycles src none opts keepNamed = .ok T') :
    WF T' ∧ Acyclic T' ∧ NamesOK src α T' := by
  rw [breakCycles_eq] at h
  have hI0 : CycInv src lvl α ⟨{ opts := opts }, []⟩ :=
    ⟨⟨fun _ _ h => (by cases h), fun _ _ h => (by cases h), fun _ _ h => (by cases h)⟩,
     fun _ _ h => (by cases h), TransOK.nil _ _ _ _, fun e he => (by cases he)⟩
  cases h1 : (bcLabeled src keepNamed).foldl (bcStep1 src none (src.nodes.length + 2))
      (.ok ⟨{ opts := opts }, []⟩) with
  | error x => rw [h1] at h; cases h
  | ok st1 =>
    rw [h1] at h
    simp only at h
    have hI1 := foldl_inv (bcStep1 src none (src.nodes.length + 2)) (CycInv src lvl α) (fun _ _ => rfl)
      (bcLabeled src keepNamed) (fun st b st' hb hI hs => bcStep1_inv hst hdet (mem_bcLabeled hb) hI hs)
      _ st1 hI0 h1
    cases h2 : (bcEvs src).foldl (bcStep2 src none (src.nodes.length + 2)) (.ok ⟨st1.target, []⟩) with
    | error x => rw [h2] at h; cases h
    | ok st2 =>
      rw [h2] at h
      simp only [Except.ok.injEq] at h
      subst h
      have hI2 := foldl_inv (bcStep2 src none (src.nodes.length + 2)) (CycInv src lvl α) (fun _ _ => rfl)
        (bcEvs src) (fun st b st' hb hI hs => bcStep2_inv hst hdet (mem_bcEvs hb) hI hs)
        ⟨st1.target, []⟩ st2 ⟨hI1.wf, hI1.acyc, TransOK.nil _ _ _ _, hI1.names⟩ h2
      exact ⟨hI2.wf, hI2.acyc, hI2.names⟩

end ProbLogProofs.Unroll
