/-
Round trip `readDimacs (toDimacs c)`: character-level lemmas.
-/
import Std.Data.String.ToInt
import Std.Data.String.ToNat
import ProbLogModel.Tasks.Export

namespace ProbLogProofs.Export
open ProbLogModel.Clark ProbLogModel.Export

/-- characters of the decimal rendering of an integer -/
def tokI (k : Int) : List Char := (toString k).toList

theorem tokI_chars (k : Int) : ∀ c ∈ tokI k, c.isDigit = true ∨ c = '-' := by
  intro c hc
  unfold tokI at hc
  have : toString k = Int.repr k := rfl
  rw [this, Int.repr_eq_if] at hc
  split at hc
  · left
    rw [Nat.toList_repr] at hc
    exact Nat.isDigit_of_mem_toDigits (by omega) (by omega) hc
  · rw [String.toList_append, List.mem_append] at hc
    rcases hc with hc | hc
    · right
      have : "-".toList = ['-'] := rfl
      rw [this] at hc
      simpa using hc
    · left
      rw [Nat.toList_repr] at hc
      exact Nat.isDigit_of_mem_toDigits (by omega) (by omega) hc

theorem tokI_no (k : Int) (x : Char) (hx : x.isDigit = false) (hx' : x ≠ '-') : x ∉ tokI k := by
  intro h
  rcases tokI_chars k x h with h1 | h1
  · rw [hx] at h1; cases h1
  · exact hx' h1

theorem toInt_empty : (String.ofList []).toInt? = none := by
  rw [String.toInt?_eq_none_iff]
  cases h : (String.ofList []).isInt with
  | false => rfl
  | true =>
    exfalso
    rcases String.isInt_iff.mp h with h1 | ⟨t, ht, _⟩
    · exact (String.isNat_iff.mp h1).1 rfl
    · have := congrArg String.toList ht
      rw [String.toList_append] at this
      have h2 : "-".toList = ['-'] := rfl
      rw [h2, String.toList_ofList] at this
      cases this

theorem toInt_zero : (String.ofList ['0']).toInt? = some 0 := by
  have h : String.ofList ['0'] = Nat.repr 0 := by
    apply String.toList_inj.mp
    rw [String.toList_ofList, Nat.toList_repr]
    rfl
  rw [h]
  exact Nat.toInt?_repr 0

theorem toInt_empty' : ("" : String).toInt? = none := toInt_empty
theorem toInt_zero' : ("0" : String).toInt? = some 0 := toInt_zero

theorem tokI_ne_nil (k : Int) : tokI k ≠ [] := by
  intro h
  have h1 : String.ofList (tokI k) = toString k := String.ofList_toList
  rw [h] at h1
  have h2 : (toString k).toInt? = some k := Int.toInt?_repr k
  rw [← h1] at h2
  rw [toInt_empty] at h2
  cases h2

theorem tokI_head (k : Int) : (tokI k).head? ≠ some 'c' := by
  intro h
  cases hl : tokI k with
  | nil => rw [hl] at h; cases h
  | cons a t =>
    rw [hl] at h
    simp only [List.head?_cons, Option.some.injEq] at h
    have := tokI_chars k a (by rw [hl]; exact List.mem_cons_self)
    rw [h] at this
    rcases this with h1 | h1
    · revert h1; decide
    · revert h1; decide

theorem tokI_toInt (k : Int) : (String.ofList (tokI k)).toInt? = some k := by
  unfold tokI
  rw [String.ofList_toList]
  exact Int.toInt?_repr k

/-- characters of a clause line -/
def lineC (cl : Clause) : List Char := [' '].intercalate (cl.map tokI) ++ [' ', '0']

theorem lineC_eq (cl : Clause) : (" ".intercalate (cl.map toString) ++ " 0").toList = lineC cl := by
  unfold lineC
  rw [String.toList_append, String.toList_intercalate, List.map_map]
  rfl

theorem intercalate_snoc {α} (sep : List α) (x : List α) : ∀ (l : List (List α)), l ≠ [] →
    sep.intercalate (l ++ [x]) = sep.intercalate l ++ sep ++ x := by
  intro l
  induction l with
  | nil => intro h; exact absurd rfl h
  | cons a t ih =>
    intro _
    cases t with
    | nil => simp [List.intercalate_cons_cons, List.intercalate]
    | cons b t' =>
      have := ih (by simp)
      simp only [List.cons_append, List.intercalate_cons_cons] at this ⊢
      rw [this]
      simp [List.append_assoc]

theorem mem_intercalate {α} (sep : List α) (x : α) : ∀ (l : List (List α)),
    x ∈ sep.intercalate l → x ∈ sep ∨ ∃ t ∈ l, x ∈ t := by
  intro l
  induction l with
  | nil => intro h; simp [List.intercalate] at h
  | cons a t ih =>
    intro h
    cases t with
    | nil =>
      have : sep.intercalate [a] = a := by simp [List.intercalate]
      rw [this] at h
      exact Or.inr ⟨a, List.mem_cons_self, h⟩
    | cons b t' =>
      rw [List.intercalate_cons_cons, List.mem_append, List.mem_append] at h
      rcases h with (h | h) | h
      · exact Or.inr ⟨a, List.mem_cons_self, h⟩
      · exact Or.inl h
      · rcases ih h with h' | ⟨t, ht, hx⟩
        · exact Or.inl h'
        · exact Or.inr ⟨t, List.mem_cons_of_mem _ ht, hx⟩

/-- integer tokens of a clause line: the literals and the terminating 0 -/
theorem lineInts_lineC (cl : Clause) : lineInts (lineC cl) = cl ++ [0] := by
  unfold lineInts lineC
  cases cl with
  | nil =>
    have : ([' '].intercalate (List.map tokI []) ++ [' ', '0']) = [' ', '0'] := by simp [List.intercalate]
    rw [this]
    have hs : List.splitOn ' ' [' ', '0'] = [[], ['0']] := by decide
    rw [hs]
    simp [List.filterMap_cons, toInt_empty', toInt_zero']
  | cons a t =>
    have h1 : [' '].intercalate ((a :: t).map tokI) ++ [' ', '0'] =
        [' '].intercalate ((a :: t).map tokI ++ [['0']]) := by
      rw [intercalate_snoc [' '] ['0'] ((a :: t).map tokI) (by simp)]
      simp [List.append_assoc]
    rw [h1, List.splitOn_intercalate ' ' (by
      intro l hl
      rw [List.mem_append] at hl
      rcases hl with hl | hl
      · obtain ⟨k, _, rfl⟩ := List.mem_map.mp hl
        exact tokI_no k ' ' (by decide) (by decide)
      · simp only [List.mem_singleton] at hl
        subst hl; decide) (by simp)]
    rw [List.filterMap_append, List.filterMap_map]
    have h2 : List.filterMap ((fun tok => (String.ofList tok).toInt?) ∘ tokI) (a :: t) = a :: t := by
      have : ((fun tok => (String.ofList tok).toInt?) ∘ tokI) = some := by
        funext k; exact tokI_toInt k
      rw [this]; simp
    rw [h2]
    have h3 : List.filterMap (fun tok => (String.ofList tok).toInt?) [['0']] = [0] := by
      simp [List.filterMap_cons, toInt_zero']
    rw [h3]

theorem takeWhile_snoc (cl : Clause) (h : ∀ k ∈ cl, k ≠ 0) : (cl ++ [0]).takeWhile (fun k => k != 0) = cl := by
  induction cl with
  | nil => simp
  | cons a t ih =>
    have ha := h a List.mem_cons_self
    simp only [List.cons_append, List.takeWhile_cons, bne_iff_ne, ne_eq, ha, not_false_eq_true, if_true]
    rw [ih (fun k hk => h k (List.mem_cons_of_mem _ hk))]

theorem parseClause_lineC (cl : Clause) (h : ∀ k ∈ cl, k ≠ 0) : parseClause (lineC cl) = cl := by
  unfold parseClause
  rw [lineInts_lineC, takeWhile_snoc cl h]

theorem lineC_chars (cl : Clause) : ∀ c ∈ lineC cl, c.isDigit = true ∨ c = '-' ∨ c = ' ' := by
  intro c hc
  unfold lineC at hc
  rw [List.mem_append] at hc
  rcases hc with hc | hc
  · rcases mem_intercalate _ c _ hc with h | ⟨t, ht, hx⟩
    · simp only [List.mem_singleton] at h; exact Or.inr (Or.inr h)
    · obtain ⟨k, _, rfl⟩ := List.mem_map.mp ht
      rcases tokI_chars k c hx with h | h
      · exact Or.inl h
      · exact Or.inr (Or.inl h)
  · simp only [List.mem_cons, List.mem_nil_iff, or_false] at hc
    rcases hc with rfl | rfl
    · exact Or.inr (Or.inr rfl)
    · exact Or.inl (by decide)

theorem lineC_no_newline (cl : Clause) : '\n' ∉ lineC cl := by
  intro h
  rcases lineC_chars cl _ h with h | h | h <;> revert h <;> decide

theorem lineC_keep (cl : Clause) : (!(lineC cl).isEmpty && (lineC cl).head? != some 'c') = true := by
  have hne : lineC cl ≠ [] := by unfold lineC; simp
  cases hl : lineC cl with
  | nil => exact absurd hl hne
  | cons a t =>
    have := lineC_chars cl a (by rw [hl]; exact List.mem_cons_self)
    have hac : a ≠ 'c' := by
      rintro rfl
      rcases this with h | h | h <;> revert h <;> decide
    simp [hac]

end ProbLogProofs.Export
