/-
The evaluator's table on the loaded store versus the table computed on the CNF itself (variables = node ids of the
ground program): equal along `atomOf`, without evidence and with corresponding evidence literals.
-/
import ProbLogProofs.Lemmas.DDNNFBridgeExtract
import ProbLogProofs.Lemmas.DDNNFBridgeClark

open Finset

namespace ProbLogProofs.DDNNF
open ProbLogModel.DDNNF ProbLogModel.Formula ProbLogModel.Clark

/-- `x` is a variable with an atom in the loaded store -/
def IsVar (S : Store) (x : Nat) : Prop := ∃ i, lookup S.idxAtom (.user (x : Int)) = some i

theorem Rep.isVar_inj {c : Circuit} {ld : Loaded} (h : Rep c ld) (x y : Nat) (hx : IsVar ld.store x)
    (hy : IsVar ld.store y) (he : atomOf ld.store x = atomOf ld.store y) : x = y := by
  obtain ⟨i, hi⟩ := hx
  obtain ⟨j, hj⟩ := hy
  have e1 : atomOf ld.store x = i := by unfold atomOf; rw [hi]; rfl
  have e2 : atomOf ld.store y = j := by unfold atomOf; rw [hj]; rfl
  rw [e1, e2] at he
  subst he
  have := h.inj _ _ _ hi hj
  injection this with this
  omega

theorem Rep.rootVar_isVar {c : Circuit} {ld : Loaded} (h : Rep c ld) (hf : Forward c) (x : Nat)
    (hx : x ∈ rootVarsF c) : IsVar ld.store x ∧ 1 ≤ atomOf ld.store x := by
  obtain ⟨j, l, hj, hl⟩ := rootVar_has_lit hf x hx
  obtain ⟨h1, h2⟩ := h.atomOf_lit hj
  rw [hl] at h1 h2
  exact ⟨⟨_, h2⟩, h1⟩

/-- the base relation: the loaded store's weights along `atomOf` are the CNF's -/
theorem RepW.rel {cnf : CNF} {S : Store} (hw : RepW cnf S) (x : Nat) (hx : IsVar S x) :
    (lookup S.weights (atomOf S x)).getD .neutral = (lookup cnf.weights x).getD .neutral := by
  obtain ⟨i, hi⟩ := hx
  have e1 : atomOf S x = i := by unfold atomOf; rw [hi]; rfl
  rw [e1, hw x i hi]; rfl

/-- **the evaluator's initial table is the CNF's table, renamed** -/
theorem loadNnf_extractWeights (c : Circuit) (cnf : CNF) (ns : List (Label × Name × Key))
    (hv : Valid c) (hn : litsNormal cnf c = true)
    (hads : ∀ a ∈ cnf.ads, (∀ n ∈ a.nodes, n ∈ rootVarsF c) ∧ (∀ e, a.extra = some e → e ∈ rootVarsF c))
    {ws0 wsD : List (Nat × (Rat × Rat))}
    (h0 : extractWeights (loadNnf c cnf ns).store.weights (loadNnf c cnf ns).store.ads = .ok ws0)
    (hD : extractWeights cnf.weights cnf.ads = .ok wsD) :
    RelW (atomOf (loadNnf c cnf ns).store) (IsVar (loadNnf c cnf ns).store) ws0 wsD := by
  have hrep := loadNnf_rep c cnf ns hn
  have hw := loadNnf_repW c cnf ns hn
  rw [loadNnf_ads] at h0
  exact extractWeights_rename (fun x y hx hy he => hrep.isVar_inj x y hx hy he) _ _ cnf.ads
    (fun x hx => hw.rel x hx)
    (fun a ha => ⟨fun n hn' => (hrep.rootVar_isVar hv.forward n ((hads a ha).1 n hn')).1,
      fun e he => (hrep.rootVar_isVar hv.forward e ((hads a ha).2 e he)).1⟩)
    h0 hD

/-- evidence steps preserve the relation (corresponding literals, both sides succeeding) -/
theorem foldlM_setEvidence_rel {ρ : Nat → Nat} {V : Nat → Prop} (hinj : ∀ x y, V x → V y → ρ x = ρ y → x = y)
    (evi : List Int) :
    ∀ (ws' ws wsF' wsF : List (Nat × (Rat × Rat))),
      (∀ e ∈ evi, V e.natAbs ∧ 1 ≤ ρ e.natAbs) → RelW ρ V ws' ws →
      (evi.map (fun e => if e > 0 then (ρ e.natAbs : Int) else -(ρ e.natAbs : Int))).foldlM setEvidence ws' = .ok wsF' →
      evi.foldlM setEvidence ws = .ok wsF → RelW ρ V wsF' wsF := by
  induction evi with
  | nil =>
    intro ws' ws wsF' wsF _ hR h' h
    simp [List.foldlM, pure, Except.pure] at h h'
    subst h; subst h'; exact hR
  | cons e r ih =>
    intro ws' ws wsF' wsF hV hR h' h
    simp only [List.map_cons, List.foldlM, bind, Except.bind] at h h'
    cases h1 : setEvidence ws e with
    | error x => rw [h1] at h; cases h
    | ok ws1 =>
      cases h1' : setEvidence ws' (if e > 0 then (ρ e.natAbs : Int) else -(ρ e.natAbs : Int)) with
      | error x => rw [h1'] at h'; cases h'
      | ok ws1' =>
        rw [h1] at h; rw [h1'] at h'
        obtain ⟨hve, hρ⟩ := hV e List.mem_cons_self
        apply ih ws1' ws1 wsF' wsF (fun b hb => hV b (List.mem_cons_of_mem _ hb)) _ h' h
        rw [(setEvidence_ok h1).1, (setEvidence_ok h1').1]
        have habs : (if e > 0 then (ρ e.natAbs : Int) else -(ρ e.natAbs : Int)).natAbs = ρ e.natAbs := by
          split <;> omega
        have hpair : evPair (if e > 0 then (ρ e.natAbs : Int) else -(ρ e.natAbs : Int)) = evPair e := by
          unfold evPair
          by_cases hp : e > 0
          · have h2 : (ρ e.natAbs : Int) > 0 := by omega
            rw [if_pos hp, if_pos h2, if_pos hp]
          · have h2 : ¬ (-(ρ e.natAbs : Int) > 0) := by omega
            rw [if_neg hp, if_neg h2, if_neg hp]
        rw [habs, hpair]
        exact RelW_assocSet hinj hR e.natAbs hve _

/-- weight of the total valuation `T` of the node ids `1..n` under the table `W` over node ids -/
def nodeWt (W : List (Nat × (Rat × Rat))) (V T : Finset Nat) : Rat :=
  ∏ x ∈ V, if x ∈ T then (wfun W x).1 else (wfun W x).2

theorem tableWt_eq_nodeWt (S : Store) (ws W : List (Nat × (Rat × Rat))) (V T : Finset Nat)
    (hW : ∀ x ∈ V, wfun ws (atomOf S x) = wfun W x) : tableWt S (wfun ws) V T = nodeWt W V T := by
  unfold tableWt nodeWt
  apply Finset.prod_congr rfl
  intro x hx
  rw [hW x hx]

end ProbLogProofs.DDNNF
