import ProbLogModel.ClauseIndex
import ProbLogProofs.Properties.C34
/-!
Lemmas for `C13_index_order`: the per-argument index built by `append` lists, for every key, the clauses with that
key in program order; `merge` of two such columns is the column of the union; the `find` loop filters in order.
-/
namespace ProbLogProofs.ClauseIndexLemmas
open ProbLogModel.Containers ProbLogModel.ClauseIndex

abbrev Cl := Int × List Key

/-- May the head key `k` match the call argument `a`? (`none` = not ground on either side.) -/
def okKey (k a : Key) : Bool := a == none || k == none || k == a

/-- May a clause with head keys `ks` match a call with arguments `as`? -/
def mayMatch : List Key → List Key → Bool
  | k :: ks, a :: as => okKey k a && mayMatch ks as
  | _, _ => true

def colOf (cls : List Cl) (j : Nat) (k : Key) : List Int := (cls.filter (fun c => c.2[j]? == some k)).map (·.1)

abbrev itemsOf (o : Option OSet) : List Int := optItems o

/-- Column `j`, `j+1`, … of the index list the clauses by key, in program order. -/
def WFidx : List Dict → List Cl → Nat → Prop
  | [], _, _ => True
  | d :: ds, cls, j => (∀ k, itemsOf (dget d k) = colOf cls j k) ∧ WFidx ds cls (j + 1)

/-! ### dictionaries -/

theorem dget_dadd (d : Dict) (k k' : Key) (item : Int) :
    itemsOf (dget (dadd d k item) k') =
      if k = k' then (OSet.add ⟨itemsOf (dget d k')⟩ item).items else itemsOf (dget d k') := by
  induction d with
  | nil =>
    by_cases h : k = k'
    · subst h; simp [dadd, dget, itemsOf, optItems, OSet.empty]
    · simp [dadd, dget, itemsOf, optItems, h]
  | cons p r ih =>
    obtain ⟨k0, s⟩ := p
    by_cases h0 : k0 = k
    · subst h0
      by_cases h : k0 = k'
      · subst h; simp [dadd, dget, itemsOf, optItems]
      · simp [dadd, dget, h]
    · by_cases h1 : k0 = k'
      · subst h1
        have : ¬ k = k0 := fun e => h0 e.symm
        simp [dadd, dget, h0, this, itemsOf, optItems]
      · simp only [dadd, h0, if_false, dget, h1]
        exact ih

theorem add_items_not_mem (l : List Int) (x : Int) (h : x ∉ l) : (OSet.add ⟨l⟩ x).items = l ++ [x] := by
  unfold OSet.add
  simp [h]

/-! ### columns -/

theorem colOf_append (pre : List Cl) (c : Cl) (j : Nat) (k : Key) :
    colOf (pre ++ [c]) j k = colOf pre j k ++ (if c.2[j]? == some k then [c.1] else []) := by
  unfold colOf
  simp only [List.filter_append, List.map_append, List.filter_cons, List.filter_nil]
  split <;> simp

theorem colOf_subset (cls : List Cl) (j : Nat) (k : Key) : ∀ x ∈ colOf cls j k, x ∈ cls.map (·.1) := by
  intro x hx
  unfold colOf at hx
  simp only [List.mem_map, List.mem_filter] at hx ⊢
  obtain ⟨c, ⟨hc, _⟩, rfl⟩ := hx
  exact ⟨c, hc, rfl⟩

/-- Adding the keys of a new clause keeps the columns well formed. -/
theorem addKeys_WF : ∀ (ds : List Dict) (pre : List Cl) (c : Cl) (j : Nat),
    WFidx ds pre j → c.1 ∉ pre.map (·.1) → ds.length + j = c.2.length →
    ∃ ds', addKeys ds (c.2.drop j) c.1 = some ds' ∧ ds'.length = ds.length ∧ WFidx ds' (pre ++ [c]) j := by
  intro ds
  induction ds with
  | nil =>
    intro pre c j _ _ hlen
    have : c.2.drop j = [] := by
      apply List.drop_eq_nil_of_le; simp at hlen; omega
    exact ⟨[], by simp [this, addKeys], rfl, trivial⟩
  | cons d ds ih =>
    intro pre c j hwf hnew hlen
    have hj : j < c.2.length := by simp at hlen; omega
    have hdrop : c.2.drop j = c.2[j] :: c.2.drop (j + 1) := List.drop_eq_getElem_cons hj
    obtain ⟨hcol, hrest⟩ := hwf
    obtain ⟨ds', h1, h2, h3⟩ := ih pre c (j + 1) hrest hnew (by simp at hlen ⊢; omega)
    refine ⟨dadd d c.2[j] c.1 :: ds', ?_, by simp [h2], ?_, h3⟩
    · rw [hdrop]; simp only [addKeys, h1, Option.map_some]
    · intro k
      rw [dget_dadd, colOf_append, hcol k]
      have hget : c.2[j]? = some c.2[j] := List.getElem?_eq_getElem hj
      by_cases hk : c.2[j] = k
      · subst hk
        have hnm : c.1 ∉ colOf pre j c.2[j] := fun hm => hnew (colOf_subset pre j _ _ hm)
        simp [hget, add_items_not_mem _ _ hnm]
      · simp [hget, hk]

/-! ### positions -/

theorem posOf_setPos (p : List (Int × Nat)) (i x : Int) (n : Nat) :
    posOf (setPos p i n) x = if i = x then some n else posOf p x := by
  induction p with
  | nil => by_cases h : i = x <;> simp [setPos, posOf, h]
  | cons q r ih =>
    obtain ⟨i0, q0⟩ := q
    by_cases h0 : i0 = i
    · subst h0
      by_cases h : i0 = x <;> simp [setPos, posOf, h]
    · by_cases h1 : i0 = x
      · subst h1
        have : ¬ i = i0 := fun e => h0 e.symm
        simp [setPos, posOf, h0, this]
      · simp only [setPos, h0, if_false, posOf, h1]
        exact ih

/-- Every item has its list position recorded. -/
def PosOK (pos : List (Int × Nat)) (ids : List Int) : Prop :=
  ∀ (i : Nat) (h : i < ids.length), posOf pos ids[i] = some i

theorem PosOK_append (pos : List (Int × Nat)) (ids : List Int) (item : Int) (h : PosOK pos ids) (hnew : item ∉ ids) :
    PosOK (setPos pos item ids.length) (ids ++ [item]) := by
  intro i hi
  rw [posOf_setPos]
  by_cases hlt : i < ids.length
  · have e : (ids ++ [item])[i] = ids[i] := List.getElem_append_left hlt
    have hne : ¬ item = ids[i] := fun e => hnew (e ▸ List.getElem_mem hlt)
    rw [e]; simp [hne, h i hlt]
  · have hi' : i = ids.length := by simp at hi; omega
    subst hi'
    simp

theorem PosOK_pairwise (pos : List (Int × Nat)) (ids : List Int) (h : PosOK pos ids) :
    ids.Pairwise (fun a b => (posOf pos a).getD 0 < (posOf pos b).getD 0) := by
  rw [List.pairwise_iff_getElem]
  intro i j hi hj hij
  rw [h i hi, h j hj]
  simpa using hij

theorem PosOK_isSome (pos : List (Int × Nat)) (ids : List Int) (h : PosOK pos ids) : ∀ x ∈ ids, (posOf pos x).isSome := by
  intro x hx
  obtain ⟨i, hi, rfl⟩ := List.getElem_of_mem hx
  simp [h i hi]

/-! ### merge -/

theorem merge_nil_right (pos : Int → Nat) (a : List Int) : merge pos a [] = a := by
  cases a <;> simp [merge]

theorem merge_filter (pos : Int → Nat) (f : Cl → Int) : ∀ (l : List Cl) (p q : Cl → Bool),
    l.Pairwise (fun a b => pos (f a) < pos (f b)) → (∀ x, ¬ (p x = true ∧ q x = true)) →
    merge pos ((l.filter p).map f) ((l.filter q).map f) = (l.filter (fun x => p x || q x)).map f := by
  intro l
  induction l with
  | nil => intro p q _ _; simp [merge]
  | cons x l ih =>
    intro p q hpw hdisj
    have hpw' := (List.pairwise_cons.1 hpw)
    have ihl := ih p q hpw'.2 hdisj
    by_cases hp : p x = true
    · have hq : q x = false := by
        cases hqx : q x with
        | false => rfl
        | true => exact absurd ⟨hp, hqx⟩ (hdisj x)
      simp only [List.filter_cons, hp, hq, if_true, Bool.true_or, List.map_cons, Bool.false_eq_true, if_false]
      cases hB : (l.filter q).map f with
      | nil =>
        rw [hB, merge_nil_right] at ihl
        simp [merge, ihl]
      | cons y B =>
        have hy : y ∈ (l.filter q).map f := by rw [hB]; simp
        obtain ⟨c, hc, rfl⟩ := List.mem_map.1 hy
        have hlt := hpw'.1 c (List.mem_filter.1 hc).1
        rw [merge]
        simp only [Nat.le_of_lt hlt, if_true]
        rw [← hB, ihl]
    · have hp' : p x = false := by simpa using hp
      by_cases hq : q x = true
      · simp only [List.filter_cons, hp', hq, if_true, Bool.false_or, List.map_cons, Bool.false_eq_true, if_false]
        cases hA : (l.filter p).map f with
        | nil =>
          rw [hA] at ihl
          simp only [merge] at ihl ⊢
          rw [ihl]
        | cons a A =>
          have ha : a ∈ (l.filter p).map f := by rw [hA]; simp
          obtain ⟨c, hc, rfl⟩ := List.mem_map.1 ha
          have hlt := hpw'.1 c (List.mem_filter.1 hc).1
          rw [merge]
          have : ¬ pos (f c) ≤ pos (f x) := by omega
          simp only [this, if_false]
          rw [← hA, ihl]
      · have hq' : q x = false := by simpa using hq
        simp only [List.filter_cons, hp', hq', Bool.false_eq_true, if_false, Bool.or_self]
        exact ihl

/-! ### membership in a column -/

theorem inj_of_nodup_map (cls : List Cl) (hnd : (cls.map (·.1)).Nodup) :
    ∀ a ∈ cls, ∀ b ∈ cls, a.1 = b.1 → a = b := by
  induction cls with
  | nil => intro a ha; simp at ha
  | cons x xs ih =>
    simp only [List.map_cons, List.nodup_cons] at hnd
    intro a ha b hb e
    rcases List.mem_cons.1 ha with rfl | ha' <;> rcases List.mem_cons.1 hb with rfl | hb'
    · rfl
    · exact absurd (List.mem_map.2 ⟨b, hb', e.symm⟩) hnd.1
    · exact absurd (List.mem_map.2 ⟨a, ha', e⟩) hnd.1
    · exact ih hnd.2 a ha' b hb' e

theorem mem_filter_map_fst (cls : List Cl) (hnd : (cls.map (·.1)).Nodup) (P : Cl → Bool) (c : Cl) (hc : c ∈ cls) :
    c.1 ∈ (cls.filter P).map (·.1) ↔ P c = true := by
  constructor
  · intro h
    obtain ⟨c', hc', e⟩ := List.mem_map.1 h
    have hm := List.mem_filter.1 hc'
    have : c' = c := inj_of_nodup_map cls hnd c' hm.1 c hc e
    rw [← this]; exact hm.2
  · intro h
    exact List.mem_map.2 ⟨c, List.mem_filter.2 ⟨hc, h⟩, rfl⟩

theorem ofList_nodup (l : List Int) (h : l.Nodup) : (OSet.ofList l).items = l := by
  have := ProbLogProofs.C34.C34_oset_first_insertion_order l
  simp only [OSet.iter] at this
  rw [this]
  clear this
  induction l with
  | nil => rfl
  | cons x xs ih =>
    have hx := List.nodup_cons.1 h
    simp only [ProbLogProofs.C34.firstOcc, ih hx.2]
    congr 1
    apply List.filter_eq_self.2
    intro a ha
    have : a ≠ x := fun e => hx.1 (e ▸ ha)
    simpa using this

theorem filter_map_nodup (cls : List Cl) (hnd : (cls.map (·.1)).Nodup) (P : Cl → Bool) : ((cls.filter P).map (·.1)).Nodup :=
  (List.filter_sublist.map _).nodup hnd


/-! ### the loop of `find` -/

/-- May clause `c` match the call argument `a` at column `j`? (A missing column does not restrict.) -/
def okAt (j : Nat) (a : Key) (c : Cl) : Bool :=
  match c.2[j]? with
  | some k => okKey k a
  | none => true

def LoopOK (res : LoopRes) (target all : List Int) : Prop :=
  match res with
  | .earlyEmpty => target = []
  | .done none => target = all
  | .done (some r) => r.items = target
  | .indexError => False
  | .keyError => False

def ResOK (results : Option OSet) (cls : List Cl) (P : Cl → Bool) : Prop :=
  match results with
  | none => ∀ c ∈ cls, P c = true
  | some r => r.items = (cls.filter P).map (·.1)

theorem mayMatch_nil_right (ks : List Key) : mayMatch ks [] = true := by
  cases ks <;> rfl

theorem mayMatch_drop (c : Cl) (j : Nat) (a : Key) (as : List Key) (hj : j < c.2.length) :
    mayMatch (c.2.drop j) (a :: as) = (okAt j a c && mayMatch (c.2.drop (j + 1)) as) := by
  rw [List.drop_eq_getElem_cons hj]
  simp [mayMatch, okAt, List.getElem?_eq_getElem hj]

theorem filter_map_eq_nil_and {α β : Type} (l : List α) (f : α → β) (p q : α → Bool)
    (h : (l.filter p).map f = []) : (l.filter (fun x => p x && q x)).map f = [] := by
  simp only [List.map_eq_nil_iff, List.filter_eq_nil_iff] at h ⊢
  intro a ha hpq
  simp only [Bool.and_eq_true] at hpq
  exact h a ha hpq.1

theorem truthy_iff (o : Option OSet) : truthy o = !(optItems o).isEmpty := by
  cases o <;> rfl

theorem optSet_items (o : Option OSet) : (optSet o).items = optItems o := by
  cases o <;> rfl

theorem inOpt_iff (o : Option OSet) (x : Int) : inOpt o x = (optItems o).contains x := by
  cases o with
  | none => simp [inOpt, optItems]
  | some s => simp [inOpt, optItems, OSet.contains]

theorem colOf_mem (cls : List Cl) (hnd : (cls.map (·.1)).Nodup) (j : Nat) (k : Key) (c : Cl) (hc : c ∈ cls) :
    c.1 ∈ colOf cls j k ↔ c.2[j]? = some k := by
  unfold colOf
  rw [mem_filter_map_fst cls hnd _ c hc]
  simp

theorem okAt_some (j : Nat) (k : String) (c : Cl) (hj : j < c.2.length) :
    okAt j (some k) c = (c.2[j]? == some (some k) || c.2[j]? == some none) := by
  simp only [okAt, List.getElem?_eq_getElem hj, okKey]
  cases h : c.2[j] with
  | none => simp
  | some s => by_cases e : s = k <;> simp [e]

theorem okAt_none (j : Nat) (c : Cl) : okAt j none c = true := by
  unfold okAt
  cases c.2[j]? <;> simp [okKey]

theorem findLoop_spec (pos : List (Int × Nat)) (cls : List Cl) (hnd : (cls.map (·.1)).Nodup)
    (hpos : PosOK pos (cls.map (·.1))) :
    ∀ (args : List Key) (ds : List Dict) (j : Nat) (P : Cl → Bool) (results : Option OSet),
      WFidx ds cls j → args.length ≤ ds.length → (∀ c ∈ cls, c.2.length = j + ds.length) →
      ResOK results cls P →
      LoopOK (findLoop pos ds args results)
        ((cls.filter (fun c => P c && mayMatch (c.2.drop j) args)).map (·.1)) (cls.map (·.1)) := by
  intro args
  induction args with
  | nil =>
    intro ds j P results _ _ _ hres
    have e : (fun c : Cl => P c && mayMatch (c.2.drop j) []) = P := by
      funext c; simp [mayMatch_nil_right]
    rw [e]
    cases results with
    | none =>
      simp only [findLoop, LoopOK]
      congr 1
      exact List.filter_eq_self.2 hres
    | some r => simpa [findLoop, LoopOK, ResOK] using hres
  | cons a as ih =>
    intro ds j P results hwf hlen hklen hres
    cases ds with
    | nil => simp at hlen
    | cons d ds =>
      obtain ⟨hcol, hrest⟩ := hwf
      have hlen' : as.length ≤ ds.length := by simp at hlen; omega
      have hklen' : ∀ c ∈ cls, c.2.length = (j + 1) + ds.length := by
        intro c hc; have := hklen c hc; simp at this; omega
      have hj : ∀ c ∈ cls, j < c.2.length := by
        intro c hc; have := hklen c hc; simp at this; omega
      -- the target, rewritten one column further
      have htarget : ∀ (Q : Cl → Bool), (∀ c ∈ cls, Q c = (P c && okAt j a c)) →
          (cls.filter (fun c => P c && mayMatch (c.2.drop j) (a :: as))).map (·.1) =
          (cls.filter (fun c => Q c && mayMatch (c.2.drop (j + 1)) as)).map (·.1) := by
        intro Q hQ
        congr 1
        apply List.filter_congr
        intro c hc
        rw [mayMatch_drop c j a as (hj c hc), hQ c hc, Bool.and_assoc]
      cases a with
      | none =>
        have hQ : ∀ c ∈ cls, P c = (P c && okAt j none c) := by
          intro c _; simp [okAt_none]
        rw [htarget P hQ]
        cases results with
        | none =>
          simp only [findLoop]
          exact ih ds (j + 1) P none hrest hlen' hklen' hres
        | some r =>
          simp only [findLoop]
          by_cases hre : r.items.isEmpty = true
          · simp only [hre, if_true, LoopOK]
            have : (cls.filter P).map (·.1) = [] := by
              rw [← hres]; simpa using hre
            exact filter_map_eq_nil_and cls _ P _ this
          · simp only [hre, Bool.false_eq_true, if_false]
            exact ih ds (j + 1) P (some r) hrest hlen' hklen' hres
      | some k =>
        -- the columns
        have hcurr : optItems (dget d (some k)) = colOf cls j (some k) := hcol _
        have hnon : optItems (dget d none) = colOf cls j none := hcol _
        let Q : Cl → Bool := fun c => P c && okAt j (some k) c
        have hQ : ∀ c ∈ cls, Q c = (P c && okAt j (some k) c) := fun _ _ => rfl
        rw [htarget Q hQ]
        simp only [findLoop]
        -- no KeyError
        have hsome : (optItems (dget d (some k)) ++ optItems (dget d none)).all (fun x => (posOf pos x).isSome) = true := by
          rw [List.all_eq_true]
          intro x hx
          apply PosOK_isSome pos _ hpos
          rcases List.mem_append.1 hx with h | h
          · rw [hcurr] at h; exact colOf_subset _ _ _ _ h
          · rw [hnon] at h; exact colOf_subset _ _ _ _ h
        simp only [hsome, Bool.not_true, Bool.and_false, Bool.false_eq_true, if_false]
        -- the common last step
        have hfin : ∀ r : OSet, r.items = (cls.filter Q).map (·.1) →
            LoopOK (if r.items.isEmpty = true then LoopRes.earlyEmpty else findLoop pos ds as (some r))
              ((cls.filter (fun c => Q c && mayMatch (c.2.drop (j + 1)) as)).map (·.1)) (cls.map (·.1)) := by
          intro r hri
          by_cases hre : r.items.isEmpty = true
          · simp only [hre, if_true, LoopOK]
            have : (cls.filter Q).map (·.1) = [] := by
              rw [← hri]; simpa using hre
            exact filter_map_eq_nil_and cls _ Q _ this
          · simp only [hre, Bool.false_eq_true, if_false]
            exact ih ds (j + 1) Q (some r) hrest hlen' hklen' hri
        cases results with
        | none =>
          have hP : ∀ c ∈ cls, P c = true := hres
          have hQ' : (cls.filter Q) = cls.filter (fun c => c.2[j]? == some (some k) || c.2[j]? == some none) := by
            apply List.filter_congr
            intro c hc
            simp only [Q, hP c hc, Bool.true_and]
            exact okAt_some j k c (hj c hc)
          have hpw : cls.Pairwise (fun a b => (posOf pos a.1).getD 0 < (posOf pos b.1).getD 0) :=
            (List.pairwise_map (f := fun c : Cl => c.1)
              (R := fun a b => (posOf pos a).getD 0 < (posOf pos b).getD 0)).1 (PosOK_pairwise pos _ hpos)
          have hmerge := merge_filter (fun x => (posOf pos x).getD 0) (·.1) cls
            (fun c => c.2[j]? == some (some k)) (fun c => c.2[j]? == some none) hpw
            (by
              intro x ⟨h1, h2⟩
              simp only [beq_iff_eq] at h1 h2
              rw [h1] at h2; simp at h2)
          apply hfin
          rw [hQ']
          by_cases hc0 : truthy (dget d (some k)) = true
          · by_cases hn0 : truthy (dget d none) = true
            · simp only [hc0, hn0, Bool.not_true, Bool.false_eq_true, if_false]
              rw [hcurr, hnon]
              unfold colOf
              rw [hmerge]
              exact ofList_nodup _ (filter_map_nodup cls hnd _)
            · simp only [hc0, hn0, Bool.not_true, Bool.false_eq_true, if_false, Bool.not_false, if_true]
              have hne : colOf cls j none = [] := by
                rw [← hnon]
                have := truthy_iff (dget d none)
                have hn1 : truthy (dget d none) = false := by simpa using hn0
                rw [hn1] at this
                simpa using this.symm
              rw [optSet_items, hcurr, ← hmerge]
              unfold colOf at hne ⊢
              rw [hne, merge_nil_right]
          · simp only [hc0, Bool.not_false, if_true]
            have hce : colOf cls j (some k) = [] := by
              rw [← hcurr]
              have := truthy_iff (dget d (some k))
              have hc1 : truthy (dget d (some k)) = false := by simpa using hc0
              rw [hc1] at this
              simpa using this.symm
            rw [optSet_items, hnon, ← hmerge]
            unfold colOf at hce ⊢
            rw [hce]
            simp [merge]
        | some res =>
          apply hfin
          have hres' : res.items = (cls.filter P).map (·.1) := hres
          simp only
          rw [hres', List.filter_map, List.filter_filter]
          have : (cls.filter (fun c => ((fun x => inOpt (dget d (some k)) x || inOpt (dget d none) x) ∘ (·.1)) c && P c)) =
              cls.filter Q := by
            apply List.filter_congr
            intro c hc
            simp only [Function.comp, inOpt_iff, hcurr, hnon, Q]
            rw [okAt_some j k c (hj c hc), Bool.and_comm]
            congr 1
            have h1 := colOf_mem cls hnd j (some k) c hc
            have h2 := colOf_mem cls hnd j none c hc
            have b1 : (colOf cls j (some k)).contains c.1 = (c.2[j]? == some (some k)) := by
              rw [Bool.eq_iff_iff]; simp [h1]
            have b2 : (colOf cls j none).contains c.1 = (c.2[j]? == some none) := by
              rw [Bool.eq_iff_iff]; simp [h2]
            rw [b1, b2]
          rw [this]
          exact ofList_nodup _ (filter_map_nodup cls hnd _)


/-! ### building the index -/

structure Inv (arity : Nat) (ci : CIndex) (pre : List Cl) : Prop where
  items : ci.items = pre.map (·.1)
  erased : ci.erased = []
  len : ci.index.length = arity
  wf : WFidx ci.index pre 0
  pos : PosOK ci.position (pre.map (·.1))

theorem WFidx_replicate (n j : Nat) : WFidx (List.replicate n []) [] j := by
  induction n generalizing j with
  | zero => trivial
  | succ n ih =>
    refine ⟨?_, ih (j + 1)⟩
    intro k; simp [dget, optItems, colOf]

theorem Inv_empty (arity : Nat) : Inv arity (empty arity) [] :=
  ⟨rfl, rfl, by simp [empty], WFidx_replicate arity 0, by intro i hi; simp at hi⟩

theorem build_fold (arity : Nat) : ∀ (rest pre : List Cl) (ci : CIndex), Inv arity ci pre →
    ((pre ++ rest).map (·.1)).Nodup → (∀ c ∈ rest, c.2.length = arity) →
    ∃ ci', rest.foldl (fun o c => o.bind (fun ci => append ci c.1 c.2)) (some ci) = some ci' ∧
      Inv arity ci' (pre ++ rest) := by
  intro rest
  induction rest with
  | nil => intro pre ci h _ _; exact ⟨ci, rfl, by simpa using h⟩
  | cons c rest ih =>
    intro pre ci h hnd hlen
    have hnew : c.1 ∉ pre.map (·.1) := by
      simp only [List.map_append, List.map_cons] at hnd
      have := (List.nodup_append.1 hnd).2.2
      intro hm
      exact this _ hm _ (List.mem_cons_self) rfl
    have hl : ci.index.length + 0 = c.2.length := by
      rw [h.len, hlen c (List.mem_cons_self)]; rfl
    obtain ⟨ds', h1, h2, h3⟩ := addKeys_WF ci.index pre c 0 h.wf hnew hl
    simp only [List.drop_zero] at h1
    have happ : append ci c.1 c.2 =
        some ⟨ci.items ++ [c.1], ds', ci.erased, setPos ci.position c.1 ci.items.length⟩ := by
      simp [append, h1]
    have hinv : Inv arity ⟨ci.items ++ [c.1], ds', ci.erased, setPos ci.position c.1 ci.items.length⟩
        (pre ++ [c]) := by
      refine ⟨by simp [h.items], h.erased, by rw [← h.len]; exact h2, h3, ?_⟩
      have := PosOK_append ci.position (pre.map (·.1)) c.1 h.pos hnew
      simpa [h.items] using this
    obtain ⟨ci', hf, hi⟩ := ih (pre ++ [c]) _ hinv (by simpa using hnd)
      (fun x hx => hlen x (List.mem_cons_of_mem _ hx))
    refine ⟨ci', ?_, by simpa using hi⟩
    simp only [List.foldl_cons, Option.bind_some, happ]
    exact hf

theorem build_spec (arity : Nat) (cls : List Cl) (hnd : (cls.map (·.1)).Nodup)
    (hlen : ∀ c ∈ cls, c.2.length = arity) : ∃ ci, build arity cls = some ci ∧ Inv arity ci cls := by
  have := build_fold arity cls [] (empty arity) (Inv_empty arity) (by simpa using hnd) hlen
  simpa [build] using this

end ProbLogProofs.ClauseIndexLemmas
