import ProbLogModel.GroundAcyclic
import ProbLogProofs.Lemmas.GroundSem
/-!
# Ground acyclic programs: inlining the auxiliary AD-body goals (core Lean only)

ClauseDB compiles an annotated disjunction / probabilistic rule `p::h :- Body` to `h :- body_g, choice` and
`body_g :- Body` with an auxiliary goal `body_g`; the harness sends the INLINED rule `h :- Body` (guarded by the
choice) to the specification (`spine.reference`).  `inline P isAux` performs that inlining on a model program; the
well-founded models agree on every atom that is not auxiliary.
-/
namespace ProbLogProofs.GroundInline
open ProbLogModel ProbLogModel.GroundAcyclic ProbLogProofs.GroundSem
open ProbLogModel.Formula (lookup)
open ProbLogModel.Sem (getB wfm)

def inlineClause (P : Prog) (isAux : Atom → Bool) : Clause → Clause
  | .rule [.pos b] (some ch) =>
    if isAux b then
      match P.clausesOf b with
      | [.rule body none] => .rule body (some ch)
      | _ => .rule [.pos b] (some ch)
    else .rule [.pos b] (some ch)
  | c => c

def inline (P : Prog) (isAux : Atom → Bool) : Prog :=
  { defs := (P.defs.filter (fun d => !isAux d.1)).map (fun d => (d.1, d.2.map (inlineClause P isAux))) }

/-- The shape ClauseDB produces: an auxiliary goal has exactly one clause, a plain rule over non-auxiliary atoms; a clause
    of another goal either does not mention auxiliary goals or is `h :- aux, choice`. -/
structure AuxOK (P : Prog) (isAux : Atom → Bool) : Prop where
  aux : ∀ b, isAux b = true → P.clausesOf b ≠ [] →
    ∃ body, P.clausesOf b = [.rule body none] ∧ ∀ x ∈ (Clause.rule body none).bodyAtoms, isAux x = false
  other : ∀ a, isAux a = false → ∀ c ∈ P.clausesOf a,
    (∀ x ∈ c.bodyAtoms, isAux x = false) ∨ ∃ b ch, c = .rule [.pos b] (some ch) ∧ isAux b = true

theorem lookup_map_filter (f : Atom → List Clause → List Clause) (q : Atom → Bool) :
    ∀ (l : List (Atom × List Clause)) (a : Atom),
      lookup ((l.filter (fun d => q d.1)).map (fun d => (d.1, f d.1 d.2))) a =
        if q a then (lookup l a).map (f a) else none
  | [], a => by simp [lookup]
  | (x, cs) :: r, a => by
    have ih := lookup_map_filter f q r a
    by_cases hq : q x = true
    · simp only [List.filter_cons, hq, if_true, List.map_cons]
      unfold lookup
      by_cases hx : (x == a) = true
      · have : x = a := by simpa using hx
        subst this
        simp [hq]
      · rw [if_neg hx, if_neg hx]; exact ih
    · simp only [List.filter_cons, hq, Bool.false_eq_true, if_false]
      rw [ih, show lookup ((x, cs) :: r) a = (if (x == a) = true then some cs else lookup r a) from rfl]
      by_cases hx : (x == a) = true
      · have : x = a := by simpa using hx
        subst this
        simp [hq]
      · rw [if_neg hx]

theorem clausesOf_inline (P : Prog) (isAux : Atom → Bool) (a : Atom) :
    (inline P isAux).clausesOf a = if isAux a then [] else (P.clausesOf a).map (inlineClause P isAux) := by
  unfold Prog.clausesOf inline
  simp only
  rw [lookup_map_filter (fun _ cs => cs.map (inlineClause P isAux)) (fun x => !isAux x)]
  cases h : isAux a <;> cases hl : lookup P.defs a <;> simp

theorem litTrue_congr {M M' : Atom → Bool} {l : Lit} (h : ∀ x, l.atom? = some x → M x = M' x) :
    litTrue M l = litTrue M' l := by
  cases l with
  | pos b => exact h b rfl
  | neg b => simp only [litTrue]; rw [h b rfl]
  | tt => rfl

theorem body_congr {M M' : Atom → Bool} {body : List Lit}
    (h : ∀ x ∈ (Clause.rule body none).bodyAtoms, M x = M' x) : body.all (litTrue M) = body.all (litTrue M') := by
  rw [Bool.eq_iff_iff, List.all_eq_true, List.all_eq_true]
  have hl : ∀ l ∈ body, litTrue M l = litTrue M' l := fun l hl =>
    litTrue_congr (fun x hx => h x (by simp only [Clause.bodyAtoms, List.mem_filterMap]; exact ⟨l, hl, hx⟩))
  exact ⟨fun h1 l hm => by rw [← hl l hm]; exact h1 l hm, fun h1 l hm => by rw [hl l hm]; exact h1 l hm⟩

theorem clauseTrue_congr {chosen : Array Bool} {M M' : Atom → Bool} {c : Clause}
    (h : ∀ x ∈ c.bodyAtoms, M x = M' x) : clauseTrue chosen M c = clauseTrue chosen M' c := by
  cases c with
  | fact i p n => cases p <;> rfl
  | rule body ch =>
    simp only [clauseTrue]
    rw [body_congr (M := M) (M' := M') (body := body) (fun x hx => h x hx)]

/-- the model of the inlined program: the old one, auxiliary atoms false -/
def drop (isAux : Atom → Bool) (M : Atom → Bool) : Atom → Bool := fun a => if isAux a then false else M a

theorem inline_isModel {P : Prog} {isAux : Atom → Bool} (hok : AuxOK P isAux) {chosen : Array Bool}
    {M : Atom → Bool} (hM : IsModel P chosen M) : IsModel (inline P isAux) chosen (drop isAux M) := by
  intro a
  rw [clausesOf_inline]
  by_cases ha : isAux a = true
  · simp [drop, ha]
  · have ha' : isAux a = false := by simpa using ha
    simp only [drop, ha', Bool.false_eq_true, if_false]
    rw [hM a, List.any_map]
    rw [Bool.eq_iff_iff, List.any_eq_true, List.any_eq_true]
    have hcl : ∀ c ∈ P.clausesOf a,
        clauseTrue chosen (drop isAux M) (inlineClause P isAux c) = clauseTrue chosen M c := by
      intro c hc
      rcases hok.other a ha' c hc with h | ⟨b, ch, rfl, hb⟩
      · have hid : inlineClause P isAux c = c := by
          unfold inlineClause
          split
          · rename_i b ch
            have := h b (by simp [Clause.bodyAtoms, Lit.atom?])
            simp [this]
          · rfl
        rw [hid]
        exact clauseTrue_congr (fun x hx => by simp [drop, h x hx])
      · have hne : P.clausesOf b ≠ [] ∨ P.clausesOf b = [] := by
          cases P.clausesOf b <;> simp
        rcases hne with hne | hnil
        · obtain ⟨body, hb1, hb2⟩ := hok.aux b hb hne
          have hin : inlineClause P isAux (.rule [.pos b] (some ch)) = .rule body (some ch) := by
            simp only [inlineClause, hb, if_true, hb1]
          rw [hin]
          have hMb : M b = body.all (litTrue M) := by
            rw [hM b, hb1]; simp [clauseTrue, choiceTrue]
          simp only [clauseTrue, List.all_cons, List.all_nil, Bool.and_true, litTrue, hMb]
          rw [body_congr (M := drop isAux M) (M' := M) (body := body) (fun x hx => by simp [drop, hb2 x hx])]
        · have hin : inlineClause P isAux (.rule [.pos b] (some ch)) = .rule [.pos b] (some ch) := by
            simp only [inlineClause, hb, if_true, hnil]
          rw [hin]
          have hMb : M b = false := by rw [hM b, hnil]; rfl
          simp [clauseTrue, litTrue, drop, hb, hMb]
    exact ⟨fun ⟨c, h1, h2⟩ => ⟨c, h1, by rw [Function.comp_apply, hcl c h1]; exact h2⟩,
      fun ⟨c, h1, h2⟩ => ⟨c, h1, by rw [Function.comp_apply, hcl c h1] at h2; exact h2⟩⟩

/-! ### decidable form of `AuxOK` -/

def isAuxCall (isAux : Atom → Bool) : Clause → Bool
  | .rule [.pos b] (some _) => isAux b
  | _ => false

def auxOKB (P : Prog) (isAux : Atom → Bool) : Bool :=
  P.defs.all (fun d =>
    if isAux d.1 then
      match d.2 with
      | [] => true
      | [.rule body none] => (Clause.rule body none).bodyAtoms.all (fun x => !isAux x)
      | _ => false
    else d.2.all (fun c => c.bodyAtoms.all (fun x => !isAux x) || isAuxCall isAux c))

theorem auxOKB_sound {P : Prog} {isAux : Atom → Bool} (h : auxOKB P isAux = true) : AuxOK P isAux := by
  unfold auxOKB at h
  rw [List.all_eq_true] at h
  constructor
  · intro b hb hne
    unfold Prog.clausesOf at hne ⊢
    cases hl : lookup P.defs b with
    | none => rw [hl] at hne; exact absurd rfl hne
    | some cs =>
      rw [hl] at hne
      have := h (b, cs) (lookup_mem _ _ _ hl)
      simp only [hb, if_true] at this
      show ∃ body, cs = _ ∧ _
      match cs, this, hne with
      | [.rule body none], this, _ =>
        refine ⟨body, rfl, fun x hx => ?_⟩
        rw [List.all_eq_true] at this
        simpa using this x hx
  · intro a ha c hc
    obtain ⟨cs, hd, hc'⟩ := mem_clausesOf hc
    have := h (a, cs) hd
    simp only [ha, Bool.false_eq_true, if_false, List.all_eq_true] at this
    have hcc := this c hc'
    rw [Bool.or_eq_true] at hcc
    rcases hcc with h1 | h2
    · left
      rw [List.all_eq_true] at h1
      intro x hx; simpa using h1 x hx
    · right
      unfold isAuxCall at h2
      split at h2
      · rename_i b ch; exact ⟨b, ch, rfl, h2⟩
      · cases h2

end ProbLogProofs.GroundInline
