import ProbLogProofs.Lemmas.FormulaAcyclic
/-!
# C11 helper lemmas (3): `add_atom` with the AD-constraint path
-/
namespace ProbLogModel.Formula

/-- One building step: the invariant is kept and the node array only grows (modulo names). -/
def Step (S S' : Store) : Prop :=
  (WF S → WF S') ∧ Grows S S' ∧ (∀ id v, lookup S.idxAtom id = some v → lookup S'.idxAtom id = some v) ∧
  (Acyclic S → Acyclic S')

theorem Step.refl (S : Store) : Step S S := ⟨id, Grows.refl S, fun _ _ h => h, id⟩

theorem Step.trans {S S' S'' : Store} (h1 : Step S S') (h2 : Step S' S'') : Step S S'' :=
  ⟨fun hw => h2.1 (h1.1 hw), h1.2.1.trans h2.2.1, fun id v h => h2.2.2.1 id v (h1.2.2.1 id v h),
   fun ha => h2.2.2.2 (h1.2.2.2 ha)⟩

/-- Changing only weights / names / constraints / counters. -/
theorem Step.of_core {S S' : Store} (hn : S'.nodes = S.nodes) (hc : S'.idxConj = S.idxConj)
    (hd : S'.idxDisj = S.idxDisj) (ha : S'.idxAtom = S.idxAtom) : Step S S' :=
  ⟨fun hw => hw.of_grows (Grows.of_nodes_eq hn) hc hd ha, Grows.of_nodes_eq hn, fun _ _ h => by rw [ha]; exact h,
   fun hac => hac.of_erase_eq (by rw [hn])⟩

theorem addName_step (S : Store) (n : Name) (k : Key) (l : Label) (keep : Bool) :
    Step S (S.addName n k l keep) :=
  ⟨fun hw => addName_wf hw n k l keep, addName_grows S n k l keep,
   fun _ _ h => by rw [(addName_spec S n k l keep).2.2.2.1]; exact h,
   fun ha => addName_acyclic ha n k l keep⟩

theorem addAtomNode_step (S : Store) (ident : Ident) (g : Option Nat) (e : Bool) (nm : Option Name)
    (S1 : Store) (i : Nat) (h : S.addAtomNode ident (.atom ident g e nm) = (S1, i)) : Step S S1 := by
  unfold Store.addAtomNode at h
  split at h
  · simp only [Prod.mk.injEq] at h
    obtain ⟨rfl, _⟩ := h
    exact Step.refl _
  · rename_i hnone
    simp only [Prod.mk.injEq] at h
    obtain ⟨rfl, _⟩ := h
    have hg : Grows S { S with nodes := S.nodes ++ [Node.atom ident g e nm],
                               idxAtom := S.idxAtom ++ [(ident, S.nodes.length + 1)] } :=
      Grows.of_append [Node.atom ident g e nm] rfl
    refine ⟨fun hw => ⟨fun cs j hl => ?_, fun cs j hl => ?_, fun id j hl => ?_⟩, hg,
      fun id v hl => by simp only; rw [lookup_append, hl], fun ha => ?_⟩
    · obtain ⟨h1, nm', h2⟩ := hw.conj cs j hl
      exact ⟨h1, hg.get_conj h2⟩
    · obtain ⟨h1, nm', h2⟩ := hw.disj cs j hl
      exact ⟨h1, hg.get_disj h2⟩
    · simp only at hl
      rw [lookup_append] at hl
      cases hl' : lookup S.idxAtom id with
      | some v =>
        rw [hl'] at hl
        simp only [Option.some.injEq] at hl; subst hl
        obtain ⟨h1, g', e', nm', h2⟩ := hw.atom id v hl'
        obtain ⟨nm'', h3⟩ := hg.get_atom h2
        exact ⟨h1, g', e', nm'', h3⟩
      | none =>
        rw [hl'] at hl
        simp only at hl
        split at hl
        · rename_i heq
          have heq : ident = id := by simpa using heq
          simp only [Option.some.injEq] at hl
          subst heq; subst hl
          exact ⟨by omega, g, e, nm, by simp⟩
        · cases hl
    · refine ha.append [Node.atom ident g e nm] rfl fun nd hnd c hc => ?_
      simp only [List.mem_singleton] at hnd
      subst hnd
      cases hc

theorem addAtomNode_key (S : Store) (ident : Ident) (nd : Node) (S1 : Store) (i : Nat)
    (h : S.addAtomNode ident nd = (S1, i)) : lookup S1.idxAtom ident = some i := by
  unfold Store.addAtomNode at h
  split at h
  · rename_i j hj
    simp only [Prod.mk.injEq] at h
    obtain ⟨rfl, rfl⟩ := h
    exact hj
  · rename_i hnone
    simp only [Prod.mk.injEq] at h
    obtain ⟨rfl, rfl⟩ := h
    simp only
    rw [lookup_append, hnone]
    simp

theorem addExtra_step (S : Store) (g : Nat) : Step S (S.addExtra g).1 := by
  unfold Store.addExtra
  simp only
  generalize hr : S.addAtomNode (Ident.extra g) (Node.atom (Ident.extra g) (some g) true (some (Name.extra g))) = r
  obtain ⟨S1, i⟩ := r
  have h1 : Step S S1 := addAtomNode_step S _ _ _ _ S1 i hr
  have h2 : Step S1 { S1 with weights := assocSet S1.weights i Weight.neutral } := Step.of_core rfl rfl rfl rfl
  have h3 := addName_step { S1 with weights := assocSet S1.weights i Weight.neutral } (Name.extra g)
    (some (i : Int)) Label.named false
  have h123 := (h1.trans h2).trans h3
  simp only
  split
  · exact h123.trans (Step.of_core rfl rfl rfl rfl)
  · exact h123

theorem step_ads (S : Store) (a : List ADC) : Step S { S with ads := a } := Step.of_core rfl rfl rfl rfl

theorem step_tail {S S2 S3 : Store} (h : Step S S2) (hn : S3.nodes = S2.nodes) (hc : S3.idxConj = S2.idxConj)
    (hd : S3.idxDisj = S2.idxDisj) (ha : S3.idxAtom = S2.idxAtom) : Step S S3 :=
  h.trans (Step.of_core hn hc hd ha)

theorem constraintAdd_step (S : Store) (g : Nat) (node : Nat) (isExtra crExtra : Bool) :
    Step S (S.constraintAdd g node isExtra crExtra) := by
  unfold Store.constraintAdd
  cases isExtra
  all_goals
    simp only [Bool.false_eq_true, if_false, if_true]
    split
    · exact step_ads S _
    · split
      · exact step_tail (Step.trans (step_ads S _) (addExtra_step _ g)) rfl rfl rfl rfl
      · exact step_ads S _

/-- The key part of `addAtom`'s result: an index that the atom table maps the identifier to. -/
def AtomKey (ident : Ident) (R : Store × Key) : Prop :=
  ∃ i : Nat, R.2 = some (i : Int) ∧ lookup R.1.idxAtom ident = some i

theorem addAtom_main (S : Store) (ident : Ident) (w : Weight) (group : Option Nat)
    (name : Option Name) (crExtra isExtra : Bool) :
    Step S
      (let nd := Node.atom ident group isExtra name
       let lenBefore := S.nodes.length
       let (S1, i) := S.addAtomNode ident nd
       let S2 := { S1 with weights := assocSet S1.weights i w }
       let S3 := match name with
         | some n => S2.addName n (some (i : Int)) .named
         | none => S2
       if S3.nodes.length != lenBefore then
         let S4 := { S3 with atomcount := S3.atomcount + 1 }
         match group with
         | none => (S4, some (i : Int))
         | some g => (S4.constraintAdd g i isExtra crExtra, some (i : Int))
       else (S3, some (i : Int)) : Store × Key).1 ∧
    AtomKey ident
      (let nd := Node.atom ident group isExtra name
       let lenBefore := S.nodes.length
       let (S1, i) := S.addAtomNode ident nd
       let S2 := { S1 with weights := assocSet S1.weights i w }
       let S3 := match name with
         | some n => S2.addName n (some (i : Int)) .named
         | none => S2
       if S3.nodes.length != lenBefore then
         let S4 := { S3 with atomcount := S3.atomcount + 1 }
         match group with
         | none => (S4, some (i : Int))
         | some g => (S4.constraintAdd g i isExtra crExtra, some (i : Int))
       else (S3, some (i : Int)) : Store × Key) := by
  simp only
  generalize hr : S.addAtomNode ident (Node.atom ident group isExtra name) = r
  obtain ⟨S1, i⟩ := r
  have h1 : Step S S1 := addAtomNode_step S _ _ _ _ S1 i hr
  have hkey : lookup S1.idxAtom ident = some i := addAtomNode_key S _ _ S1 i hr
  have h2 : Step S1 { S1 with weights := assocSet S1.weights i w } := Step.of_core rfl rfl rfl rfl
  simp only
  generalize hS3 : (match name with
       | some n => Store.addName { S1 with weights := assocSet S1.weights i w } n (some (i : Int)) Label.named
       | none => { S1 with weights := assocSet S1.weights i w }) = S3
  have h3 : Step { S1 with weights := assocSet S1.weights i w } S3 := by
    subst hS3
    cases name with
    | none => exact Step.refl _
    | some n => exact addName_step _ _ _ _ _
  have h23 := h2.trans h3
  have h123 := h1.trans h23
  split
  · have h4 : Step S3 { S3 with atomcount := S3.atomcount + 1 } := Step.of_core rfl rfl rfl rfl
    cases group with
    | none => exact ⟨h123.trans h4, i, rfl, (h23.trans h4).2.2.1 _ _ hkey⟩
    | some g =>
      have h5 := constraintAdd_step { S3 with atomcount := S3.atomcount + 1 } g i isExtra crExtra
      exact ⟨(h123.trans h4).trans h5, i, rfl, ((h23.trans h4).trans h5).2.2.1 _ _ hkey⟩
  · exact ⟨h123, i, rfl, h23.2.2.1 _ _ hkey⟩

theorem addAtom_step (S : Store) (ident : Ident) (pc : PClass) (w : Weight) (group : Option Nat)
    (name : Option Name) (crExtra isExtra : Bool) :
    Step S (S.addAtom ident pc w group name crExtra isExtra).1 := by
  unfold Store.addAtom
  split
  · exact Step.refl _
  · exact Step.refl _
  · exact Step.refl _
  · exact Step.refl _
  · exact (addAtom_main S ident w group name crExtra isExtra).1

/-- The key `add_atom` returns: TRUE / FALSE with the store untouched (certain atoms), or the index the atom table
    now maps the identifier to. -/
theorem addAtom_key (S : Store) (ident : Ident) (pc : PClass) (w : Weight) (group : Option Nat)
    (name : Option Name) (crExtra isExtra : Bool) :
    ((S.addAtom ident pc w group name crExtra isExtra).1 = S ∧
      ((S.addAtom ident pc w group name crExtra isExtra).2 = TRUE ∨
       (S.addAtom ident pc w group name crExtra isExtra).2 = FALSE)) ∨
    AtomKey ident (S.addAtom ident pc w group name crExtra isExtra) := by
  unfold Store.addAtom
  split
  · exact Or.inl ⟨rfl, Or.inl rfl⟩
  · exact Or.inl ⟨rfl, Or.inr rfl⟩
  · exact Or.inl ⟨rfl, Or.inr rfl⟩
  · exact Or.inl ⟨rfl, Or.inl rfl⟩
  · exact Or.inr (addAtom_main S ident w group name crExtra isExtra).2

end ProbLogModel.Formula
