import ProbLogProofs.Lemmas.FormulaOps
/-!
# C11 helper lemmas (3): `add_atom` with the AD-constraint path
-/
namespace ProbLogModel.Formula

/-- One building step: the invariant is kept and the node array only grows (modulo names). -/
def Step (S S' : Store) : Prop := (WF S → WF S') ∧ Grows S S'

theorem Step.refl (S : Store) : Step S S := ⟨id, Grows.refl S⟩

theorem Step.trans {S S' S'' : Store} (h1 : Step S S') (h2 : Step S' S'') : Step S S'' :=
  ⟨fun hw => h2.1 (h1.1 hw), h1.2.trans h2.2⟩

/-- Changing only weights / names / constraints / counters. -/
theorem Step.of_core {S S' : Store} (hn : S'.nodes = S.nodes) (hc : S'.idxConj = S.idxConj)
    (hd : S'.idxDisj = S.idxDisj) (ha : S'.idxAtom = S.idxAtom) : Step S S' :=
  ⟨fun hw => hw.of_grows (Grows.of_nodes_eq hn) hc hd ha, Grows.of_nodes_eq hn⟩

theorem addName_step (S : Store) (n : Name) (k : Key) (l : Label) (keep : Bool) :
    Step S (S.addName n k l keep) :=
  ⟨fun hw => addName_wf hw n k l keep, addName_grows S n k l keep⟩

theorem addAtomNode_step (S : Store) (ident : Ident) (g : Option Nat) (e : Bool) (nm : Option Name)
    (S1 : Store) (i : Nat) (h : S.addAtomNode ident (.atom ident g e nm) = (S1, i)) : Step S S1 := by
  unfold Store.addAtomNode at h
  split at h
  · simp only [Prod.mk.injEq] at h
    obtain ⟨rfl, _⟩ := h
    exact Step.refl _
  · rename_i hnone
    simp only [Prod.mk.injEq] at h
    obtain ⟨rfl, _⟩ := h
    have hg : Grows S { S with nodes := S.nodes ++ [Node.atom ident g e nm],
                               idxAtom := S.idxAtom ++ [(ident, S.nodes.length + 1)] } :=
      Grows.of_append [Node.atom ident g e nm] rfl
    refine ⟨fun hw => ⟨fun cs j hl => ?_, fun cs j hl => ?_, fun id j hl => ?_⟩, hg⟩
    · obtain ⟨h1, nm', h2⟩ := hw.conj cs j hl
      exact ⟨h1, hg.get_conj h2⟩
    · obtain ⟨h1, nm', h2⟩ := hw.disj cs j hl
      exact ⟨h1, hg.get_disj h2⟩
    · simp only at hl
      rw [lookup_append] at hl
      cases hl' : lookup S.idxAtom id with
      | some v =>
        rw [hl'] at hl
        simp only [Option.some.injEq] at hl; subst hl
        obtain ⟨h1, g', e', nm', h2⟩ := hw.atom id v hl'
        obtain ⟨nm'', h3⟩ := hg.get_atom h2
        exact ⟨h1, g', e', nm'', h3⟩
      | none =>
        rw [hl'] at hl
        simp only at hl
        split at hl
        · rename_i heq
          have heq : ident = id := by simpa using heq
          simp only [Option.some.injEq] at hl
          subst heq; subst hl
          exact ⟨by omega, g, e, nm, by simp⟩
        · cases hl

theorem addExtra_step (S : Store) (g : Nat) : Step S (S.addExtra g).1 := by
  unfold Store.addExtra
  simp only
  generalize hr : S.addAtomNode (Ident.extra g) (Node.atom (Ident.extra g) (some g) true (some (Name.extra g))) = r
  obtain ⟨S1, i⟩ := r
  have h1 : Step S S1 := addAtomNode_step S _ _ _ _ S1 i hr
  have h2 : Step S1 { S1 with weights := assocSet S1.weights i Weight.neutral } := Step.of_core rfl rfl rfl rfl
  have h3 := addName_step { S1 with weights := assocSet S1.weights i Weight.neutral } (Name.extra g)
    (some (i : Int)) Label.named false
  have h123 := (h1.trans h2).trans h3
  simp only
  split
  · exact h123.trans (Step.of_core rfl rfl rfl rfl)
  · exact h123

theorem step_ads (S : Store) (a : List ADC) : Step S { S with ads := a } := Step.of_core rfl rfl rfl rfl

theorem step_tail {S S2 S3 : Store} (h : Step S S2) (hn : S3.nodes = S2.nodes) (hc : S3.idxConj = S2.idxConj)
    (hd : S3.idxDisj = S2.idxDisj) (ha : S3.idxAtom = S2.idxAtom) : Step S S3 :=
  h.trans (Step.of_core hn hc hd ha)

theorem constraintAdd_step (S : Store) (g : Nat) (node : Nat) (isExtra crExtra : Bool) :
    Step S (S.constraintAdd g node isExtra crExtra) := by
  unfold Store.constraintAdd
  cases isExtra
  all_goals
    simp only [Bool.false_eq_true, if_false, if_true]
    split
    · exact step_ads S _
    · split
      · exact step_tail (Step.trans (step_ads S _) (addExtra_step _ g)) rfl rfl rfl rfl
      · exact step_ads S _

theorem addAtom_step (S : Store) (ident : Ident) (pc : PClass) (w : Weight) (group : Option Nat)
    (name : Option Name) (crExtra isExtra : Bool) :
    Step S (S.addAtom ident pc w group name crExtra isExtra).1 := by
  have main : Step S
      (let nd := Node.atom ident group isExtra name
       let lenBefore := S.nodes.length
       let (S1, i) := S.addAtomNode ident nd
       let S2 := { S1 with weights := assocSet S1.weights i w }
       let S3 := match name with
         | some n => S2.addName n (some (i : Int)) .named
         | none => S2
       if S3.nodes.length != lenBefore then
         let S4 := { S3 with atomcount := S3.atomcount + 1 }
         match group with
         | none => (S4, some (i : Int))
         | some g => (S4.constraintAdd g i isExtra crExtra, some (i : Int))
       else (S3, some (i : Int)) : Store × Key).1 := by
    simp only
    generalize hr : S.addAtomNode ident (Node.atom ident group isExtra name) = r
    obtain ⟨S1, i⟩ := r
    have h1 : Step S S1 := addAtomNode_step S _ _ _ _ S1 i hr
    have h2 : Step S1 { S1 with weights := assocSet S1.weights i w } := Step.of_core rfl rfl rfl rfl
    simp only
    generalize hS3 : (match name with
         | some n => Store.addName { S1 with weights := assocSet S1.weights i w } n (some (i : Int)) Label.named
         | none => { S1 with weights := assocSet S1.weights i w }) = S3
    have h3 : Step { S1 with weights := assocSet S1.weights i w } S3 := by
      subst hS3
      cases name with
      | none => exact Step.refl _
      | some n => exact addName_step _ _ _ _ _
    have h123 := (h1.trans h2).trans h3
    split
    · have h4 : Step S3 { S3 with atomcount := S3.atomcount + 1 } := Step.of_core rfl rfl rfl rfl
      cases group with
      | none => exact h123.trans h4
      | some g => exact (h123.trans h4).trans (constraintAdd_step _ _ _ _ _)
    · exact h123
  unfold Store.addAtom
  split
  · exact Step.refl _
  · exact Step.refl _
  · exact Step.refl _
  · exact Step.refl _
  · exact main

end ProbLogModel.Formula
