import ProbLogProofs.Lemmas.CyclesStrat
/-!
Uniqueness of the stable model of a stratified store: the least model of the reduct at a node only depends on the
valuation on strictly lower levels.
-/
namespace ProbLogProofs.Cycles
open ProbLogModel.Formula ProbLogModel.Cycles

theorem lfpEval_none (S : Store) (α : Nat → Bool) (n : Nat) : lfpEval S α n none = false := by
  cases n <;> rfl

theorem lfpEval_true (S : Store) (α : Nat → Bool) (n : Nat) : lfpEval S α n (some 0) = true := by
  cases n <;> rfl

theorem lfpEval_reduct_congr {S : Store} {α : Nat → Bool} {lvl : Nat → Nat} (hst : Stratified S lvl)
    {ν ν' : Nat → Bool} :
    ∀ (n : Nat) (k : Int), (∀ x, 0 < x → lvl x < lvl k.natAbs → ν x = ν' x) →
      lfpEval (reduct S ν) α n (some k) = lfpEval (reduct S ν') α n (some k) := by
  intro n
  induction n with
  | zero =>
    intro k _
    rw [lfpEval_zero, lfpEval_zero]
    simp only [reduct_get]
    cases hn : S.nodes[k.natAbs - 1]? with
    | none => rfl
    | some nd => cases nd <;> rfl
  | succ n ih =>
    intro k hν
    rw [lfpEval_succ, lfpEval_succ]
    by_cases hk0 : k = 0
    · simp only [hk0, ↓reduceIte]
    · simp only [hk0, ↓reduceIte, reduct_get]
      have child : ∀ cs : List Key, (∀ c ∈ cs, stratKey S lvl k.natAbs c = true) → ∀ c ∈ cs,
          lfpEval (reduct S ν) α n (reductKey S ν c) = lfpEval (reduct S ν') α n (reductKey S ν' c) := by
        intro cs hcs c hc
        cases c with
        | none => simp only [reductKey]; rw [lfpEval_none, lfpEval_none]
        | some c' =>
          by_cases hc0 : c' = 0
          · subst hc0
            simp only [reductKey, Int.lt_irrefl, ↓reduceIte]
            rw [lfpEval_true, lfpEval_true]
          · have hle := stratKey_le (hcs _ hc) hc0
            have hlow : ∀ x, 0 < x → lvl x < lvl c'.natAbs → ν x = ν' x :=
              fun x hx hl => hν x hx (Nat.lt_of_lt_of_le hl hle)
            by_cases hneg : c' < 0
            · cases hn : S.nodes[c'.natAbs - 1]? with
              | none =>
                simp only [reductKey, hneg, ↓reduceIte, hn]
                rw [lfpEval_true, lfpEval_true]
              | some nd =>
                cases nd with
                | atom id g e nm =>
                  simp only [reductKey, hneg, ↓reduceIte, hn]
                  exact ih _ hlow
                | conj cs' nm' =>
                  have hl := stratKey_lt (hcs _ hc) hneg (Or.inl ⟨cs', nm', hn⟩)
                  have hv := hν c'.natAbs (by omega) hl
                  simp only [reductKey, hneg, ↓reduceIte, hn, hv]
                  by_cases hb : ν' c'.natAbs = true
                  · simp only [hb, ↓reduceIte]; rw [lfpEval_none, lfpEval_none]
                  · simp only [hb, Bool.false_eq_true, ↓reduceIte]; rw [lfpEval_true, lfpEval_true]
                | disj cs' nm' =>
                  have hl := stratKey_lt (hcs _ hc) hneg (Or.inr ⟨cs', nm', hn⟩)
                  have hv := hν c'.natAbs (by omega) hl
                  simp only [reductKey, hneg, ↓reduceIte, hn, hv]
                  by_cases hb : ν' c'.natAbs = true
                  · simp only [hb, ↓reduceIte]; rw [lfpEval_none, lfpEval_none]
                  · simp only [hb, Bool.false_eq_true, ↓reduceIte]; rw [lfpEval_true, lfpEval_true]
            · simp only [reductKey, hneg, ↓reduceIte]
              exact ih _ hlow
      cases hn : S.nodes[k.natAbs - 1]? with
      | none => rfl
      | some nd =>
        cases nd with
        | atom id g e nm => rfl
        | conj cs nm =>
          simp only [Option.map_some, reductNode, List.all_map]
          rw [all_congr_mem cs ((fun c => lfpEval (reduct S ν) α n c) ∘ reductKey S ν)
            ((fun c => lfpEval (reduct S ν') α n c) ∘ reductKey S ν') (child cs (strat_conj hst (by omega) hn))]
        | disj cs nm =>
          simp only [Option.map_some, reductNode, List.any_map]
          rw [any_congr_mem cs ((fun c => lfpEval (reduct S ν) α n c) ∘ reductKey S ν)
            ((fun c => lfpEval (reduct S ν') α n c) ∘ reductKey S ν') (child cs (strat_disj hst (by omega) hn))]

/-- Two stable models of a stratified store agree (level by level). -/
theorem stable_agree {S : Store} {α : Nat → Bool} {lvl : Nat → Nat} (hst : Stratified S lvl)
    {ν ν' : Nat → Bool} (h : StableModel S α ν) (h' : StableModel S α ν') :
    ∀ (l : Nat) (j : Nat), 0 < j → lvl j < l → ν j = ν' j := by
  intro l
  induction l with
  | zero => intro j _ hl; omega
  | succ l ih =>
    intro j hj hl
    rw [h j hj, h' j hj]
    unfold lfp
    rw [reduct_length, reduct_length]
    apply lfpEval_reduct_congr hst
    intro x hx hlx
    rw [Int.natAbs_natCast] at hlx
    exact ih x hx (by omega)

/-! ### positive stores are the special case -/

theorem reductKey_of_posKey {S : Store} (ν : Nat → Bool) {c : Key} (h : PosKey S c) : reductKey S ν c = c := by
  cases c with
  | none => rfl
  | some k =>
    by_cases hk : k < 0
    · have h0 : ¬ 0 ≤ k := by omega
      simp only [PosKey, posKey, h0, ↓reduceIte] at h
      simp only [reductKey, hk, ↓reduceIte]
      cases hn : S.nodes[k.natAbs - 1]? with
      | none => rw [hn] at h; cases h
      | some nd =>
        cases nd with
        | atom id g e nm => rfl
        | conj cs nm => rw [hn] at h; cases h
        | disj cs nm => rw [hn] at h; cases h
    · simp only [reductKey, hk, ↓reduceIte]

theorem map_eq_self_of_mem {β} (l : List β) (f : β → β) (h : ∀ x ∈ l, f x = x) : l.map f = l := by
  induction l with
  | nil => rfl
  | cons a l ih =>
    rw [List.map_cons, h a (List.mem_cons_self ..), ih (fun x hx => h x (List.mem_cons_of_mem _ hx))]

theorem reduct_of_positive {S : Store} (hS : Positive S) (ν : Nat → Bool) : reduct S ν = S := by
  have : S.nodes.map (reductNode S ν) = S.nodes := by
    apply map_eq_self_of_mem
    intro nd hnd
    have hp : posNode S nd = true := List.all_eq_true.1 hS nd hnd
    cases nd with
    | atom id g e nm => rfl
    | conj cs nm =>
      simp only [reductNode]
      rw [map_eq_self_of_mem cs _ (fun c hc => reductKey_of_posKey ν (List.all_eq_true.1 hp c hc))]
    | disj cs nm =>
      simp only [reductNode]
      rw [map_eq_self_of_mem cs _ (fun c hc => reductKey_of_posKey ν (List.all_eq_true.1 hp c hc))]
  unfold reduct
  rw [this]

theorem stratKey_of_posKey {S : Store} {i : Nat} {c : Key} (h : PosKey S c) : stratKey S (fun _ => 0) i c = true := by
  cases c with
  | none => rfl
  | some k =>
    by_cases hk0 : k = 0
    · simp only [stratKey, hk0, ↓reduceIte]
    · by_cases hk : k < 0
      · have h0 : ¬ 0 ≤ k := by omega
        simp only [PosKey, posKey, h0, ↓reduceIte] at h
        simp only [stratKey, hk0, hk, ↓reduceIte]
        cases hn : S.nodes[k.natAbs - 1]? with
        | none => rw [hn] at h; cases h
        | some nd =>
          cases nd with
          | atom id g e nm => simp
          | conj cs nm => rw [hn] at h; cases h
          | disj cs nm => rw [hn] at h; cases h
      · simp [stratKey, hk0, hk]

theorem stratified_of_positive {S : Store} (hS : Positive S) : Stratified S (fun _ => 0) := by
  unfold Stratified stratifiedBy
  rw [List.all_eq_true]
  intro j _
  cases hn : S.nodes[j]? with
  | none => rfl
  | some nd =>
    cases nd with
    | atom id g e nm => rfl
    | conj cs nm =>
      simp only [List.all_eq_true]
      exact fun c hc => stratKey_of_posKey (posKey_conj hS hn c hc)
    | disj cs nm =>
      simp only [List.all_eq_true]
      exact fun c hc => stratKey_of_posKey (posKey_disj hS hn c hc)

end ProbLogProofs.Cycles
