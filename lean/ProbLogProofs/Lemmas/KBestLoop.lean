/-
`KBestEvaluator.evaluate` with the MaxSAT solver as an arbitrary oracle whose answers are valid: the result is the
exact probability (single value) or an interval containing it.
-/
import ProbLogProofs.Lemmas.KBestProb

namespace ProbLogProofs.KBest
open ProbLogModel.KBest ProbLogModel.Clark

/-- a finite probability space of assignments -/
structure Space where
  ws : List (Nat → Bool)
  w : (Nat → Bool) → Rat
  nonneg : ∀ α ∈ ws, 0 ≤ w α
  total : Pr w ws (fun _ => true) = 1

def Space.P (Ω : Space) (E : (Nat → Bool) → Bool) : Rat := Pr Ω.w Ω.ws E

/-- invariant of a border collecting proofs of the goal `Q` -/
structure Inv (Ω : Space) (Q : (Nat → Bool) → Bool) (bd : Border) : Prop where
  value : bd.value = (bd.sols.map (fun s => Ω.P (ext s))).sum
  excl : bd.sols.Pairwise (fun s s' => ∀ α ∈ Ω.ws, ¬ (ext s α = true ∧ ext s' α = true))
  proves : ∀ s ∈ bd.sols, ∀ α ∈ Ω.ws, ext s α = true → Q α = true

theorem inv_init (Ω : Space) (Q : (Nat → Bool) → Bool) : Inv Ω Q Border.init :=
  ⟨by simp [Border.init], by simp [Border.init], by simp [Border.init]⟩

theorem inv_union (Ω : Space) (Q : (Nat → Bool) → Bool) (bd : Border) (h : Inv Ω Q bd) :
    bd.value = Ω.P (fun α => bd.sols.any (fun s => ext s α)) := by
  rw [h.value]
  have := sum_exclusive Ω.w Ω.ws (bd.sols.map ext) (by
    rw [List.pairwise_map]; exact h.excl)
  simp only [List.map_map, List.any_map] at this
  exact this

/-- the accumulated value never exceeds the probability of the goal -/
theorem inv_le (Ω : Space) (Q : (Nat → Bool) → Bool) (bd : Border) (h : Inv Ω Q bd) : bd.value ≤ Ω.P Q := by
  rw [inv_union Ω Q bd h]
  apply Pr_mono Ω.w Ω.ws Ω.nonneg
  intro α hα hany
  obtain ⟨s, hs, he⟩ := List.any_eq_true.mp hany
  exact h.proves s hs α hα he

/-- … and equals it when every world of the goal extends a solution -/
theorem inv_eq (Ω : Space) (Q : (Nat → Bool) → Bool) (bd : Border) (h : Inv Ω Q bd)
    (hcov : ∀ α ∈ Ω.ws, Q α = true → ∃ s ∈ bd.sols, ext s α = true) : bd.value = Ω.P Q := by
  rw [inv_union Ω Q bd h]
  apply Pr_congr
  intro α hα
  cases hq : Q α with
  | true =>
    obtain ⟨s, hs, he⟩ := hcov α hα hq
    exact List.any_eq_true.mpr ⟨s, hs, he⟩
  | false =>
    apply Bool.eq_false_iff.mpr
    intro hany
    obtain ⟨s, hs, he⟩ := List.any_eq_true.mp hany
    have := h.proves s hs α hα he
    rw [hq] at this; cases this

/-- validity of the solver's answer for a border with goal `Q` -/
def AnsOK (Ω : Space) (weighted : Nat → Bool) (pw : Nat → Rat × Rat) (Q : (Nat → Bool) → Bool) (bd : Border) :
    Option (List Int) → Prop
  | none => ∀ α ∈ Ω.ws, Q α = true → ∃ s ∈ bd.sols, ext s α = true
  | some raw =>
    probOf pw (fromPartial weighted raw) = Ω.P (ext (fromPartial weighted raw)) ∧
    (∀ α ∈ Ω.ws, ext (fromPartial weighted raw) α = true → Q α = true) ∧
    ∀ s' ∈ bd.sols, ∀ α ∈ Ω.ws, ¬ (ext (fromPartial weighted raw) α = true ∧ ext s' α = true)

theorem inv_update (Ω : Space) (weighted : Nat → Bool) (pw : Nat → Rat × Rat) (Q : (Nat → Bool) → Bool) (bd : Border)
    (h : Inv Ω Q bd) (raw : List Int) (hok : AnsOK Ω weighted pw Q bd (some raw)) :
    Inv Ω Q (bd.update weighted pw (some raw)) := by
  obtain ⟨hp, hpr, hex⟩ := hok
  refine ⟨?_, ?_, ?_⟩
  · simp only [Border.update, List.map_cons, List.sum_cons]
    rw [h.value, hp]; ring
  · simp only [Border.update, List.pairwise_cons]
    exact ⟨hex, h.excl⟩
  · intro s hs
    simp only [Border.update, List.mem_cons] at hs
    rcases hs with rfl | hs
    · exact hpr
    · exact h.proves s hs

theorem update_none (weighted : Nat → Bool) (pw : Nat → Rat × Rat) (bd : Border) :
    (bd.update weighted pw none).value = bd.value ∧ (bd.update weighted pw none).sols = bd.sols ∧
    (bd.update weighted pw none).improvement = none := ⟨rfl, rfl, rfl⟩

theorem update_some_improvement (weighted : Nat → Bool) (pw : Nat → Rat × Rat) (bd : Border) (raw : List Int) :
    (bd.update weighted pw (some raw)).improvement.isNone = false := rfl

/-- the result is right: a single value is the probability, an interval contains it -/
def ResOK (p : Rat) : KRes → Prop
  | .single v => v = p
  | .interval lo hi => lo ≤ p ∧ p ≤ hi

theorem loop_sound (Ω : Space) (weighted : Nat → Bool) (pw : Nat → Rat × Rat) (conv : Rat) (lowerOnly : Bool)
    (oracle : Bool → Border → Option (List Int)) (Q : (Nat → Bool) → Bool)
    (hlo : ∀ bd, Inv Ω Q bd → AnsOK Ω weighted pw Q bd (oracle false bd))
    (hup : ∀ bd, Inv Ω (fun α => !Q α) bd → AnsOK Ω weighted pw (fun α => !Q α) bd (oracle true bd)) :
    ∀ (fuel : Nat) (lb ub : Border), Inv Ω Q lb → Inv Ω (fun α => !Q α) ub →
      ResOK (Ω.P Q) (evalLoop weighted pw conv lowerOnly oracle fuel lb ub).1 := by
  have hnot : Ω.P (fun α => !Q α) = 1 - Ω.P Q := by
    have := Pr_not Ω.w Ω.ws Q
    rw [Ω.total] at this
    exact this
  have interval_ok : ∀ lb ub : Border, Inv Ω Q lb → Inv Ω (fun α => !Q α) ub →
      ResOK (Ω.P Q) (.interval lb.value (1 - ub.value)) := by
    intro lb ub hl hu
    have a := inv_le Ω Q lb hl
    have b := inv_le Ω _ ub hu
    rw [hnot] at b
    exact ⟨a, by linarith⟩
  intro fuel
  induction fuel with
  | zero => intro lb ub hl hu; exact interval_ok lb ub hl hu
  | succ fuel ih =>
    intro lb ub hl hu
    unfold evalLoop
    simp only
    split
    · -- the upper border is updated
      split
      · exact interval_ok lb ub hl hu
      · cases hans : oracle true ub with
        | none =>
          have hok := hup ub hu
          rw [hans] at hok
          simp only [Border.update, Option.isNone_none, if_true, ResOK]
          have := inv_eq Ω _ ub hu hok
          rw [hnot] at this
          linarith
        | some raw =>
          have hok := hup ub hu
          rw [hans] at hok
          have hu' := inv_update Ω weighted pw _ ub hu raw hok
          rw [update_some_improvement]
          simp only [Bool.false_eq_true, if_false]
          split
          · exact interval_ok lb _ hl hu'
          · exact ih lb _ hl hu'
    · split
      · exact interval_ok lb ub hl hu
      · cases hans : oracle false lb with
        | none =>
          have hok := hlo lb hl
          rw [hans] at hok
          simp only [Border.update, Option.isNone_none, if_true, ResOK]
          exact inv_eq Ω Q lb hl hok
        | some raw =>
          have hok := hlo lb hl
          rw [hans] at hok
          have hl' := inv_update Ω weighted pw Q lb hl raw hok
          rw [update_some_improvement]
          simp only [Bool.false_eq_true, if_false]
          split
          · exact interval_ok _ ub hl' hu
          · exact ih _ ub hl' hu

end ProbLogProofs.KBest
