/-
Every step of `loadNnf` preserves the representation invariant `Rep`; hence `Rep c (loadNnf c cnf names)` when
every literal line creates an atom node (`litsNormal`). Core only.
-/
import ProbLogProofs.Lemmas.DDNNFBridgeLoad
import ProbLogProofs.Lemmas.DDNNFLines
namespace ProbLogProofs.DDNNF
open ProbLogModel.DDNNF ProbLogModel.Formula ProbLogModel.Clark

theorem foldl_preserve {β γ} (P : Store → γ) (f : Store → β → Store) (hf : ∀ S b, P (f S b) = P S)
    (l : List β) (S : Store) : P (l.foldl f S) = P S := by
  induction l generalizing S with
  | nil => rfl
  | cons b r ih => simp only [List.foldl_cons]; rw [ih, hf]

/-- the literal step, for a literal whose weight is neither `None` nor `False` -/
theorem loadStep_lit (cnf : CNF) (ns : List (Label × Name × Key)) (ld : Loaded) (seen : List Int) (name : Int)
    (hn : litNormal cnf name = true) :
    ∃ S2 : Store,
      (loadStep cnf ns (ld, seen) (.lit name)).1 =
        ⟨S2, ld.line2node ++ [if name < 0 then
            negKey (ld.store.addAtom (.user (name.natAbs : Int)) .normal
              ((lookup cnf.weights name.natAbs).getD .neutral)).2
          else (ld.store.addAtom (.user (name.natAbs : Int)) .normal
              ((lookup cnf.weights name.natAbs).getD .neutral)).2]⟩ ∧
      shapes S2 = shapes (ld.store.addAtom (.user (name.natAbs : Int)) .normal
              ((lookup cnf.weights name.natAbs).getD .neutral)).1 ∧
      S2.idxAtom = (ld.store.addAtom (.user (name.natAbs : Int)) .normal
              ((lookup cnf.weights name.natAbs).getD .neutral)).1.idxAtom ∧
      S2.weights = (ld.store.addAtom (.user (name.natAbs : Int)) .normal
              ((lookup cnf.weights name.natAbs).getD .neutral)).1.weights := by
  unfold litNormal at hn
  simp only [loadStep]
  generalize (lookup cnf.weights name.natAbs).getD .neutral = w at hn ⊢
  cases w
  case tt => simp at hn
  case ff => simp at hn
  all_goals
    simp only
    by_cases hs : seen.contains name = true
    · exact ⟨_, by simp only [hs, if_true], rfl, rfl, rfl⟩
    · refine ⟨_, by simp only [hs]; rfl, ?_, ?_, ?_⟩
      · exact foldl_preserve shapes _ (fun S b => addName_shapes S _ _ _) _ _
      · exact foldl_preserve Store.idxAtom _ (fun S b => addName_idxAtom S _ _ _) _ _
      · exact foldl_preserve Store.weights _ (fun S b => addName_weights S _ _ _) _ _

theorem getElem?_lt_of_some {α} {l : List α} {k : Nat} {x : α} (h : l[k]? = some x) : k < l.length := by
  rcases Nat.lt_or_ge k l.length with hh | hh
  · exact hh
  · rw [List.getElem?_eq_none hh] at h; cases h

theorem Rep_step_lit (cnf : CNF) (ns : List (Label × Name × Key)) (c : Circuit) (ld : Loaded) (seen : List Int)
    (name : Int) (h : Rep c ld) (hn : litNormal cnf name = true) :
    Rep (c ++ [.lit name]) (loadStep cnf ns (ld, seen) (.lit name)).1 := by
  obtain ⟨S2, heq, hsh2, hidx2, _⟩ := loadStep_lit cnf ns ld seen name hn
  rw [heq]
  obtain ⟨i, hkey, hlk, _, hcase⟩ := addAtom_normal ld.store (.user (name.natAbs : Int))
    ((lookup cnf.weights name.natAbs).getD .neutral)
  rw [hkey]
  rw [← hidx2] at hlk
  generalize (ld.store.addAtom (.user (name.natAbs : Int)) .normal
    ((lookup cnf.weights name.natAbs).getD .neutral)).1 = S1 at hsh2 hidx2 hcase
  -- common facts about the new store
  have hfacts : (∃ extra, shapes S2 = shapes ld.store ++ extra) ∧
      (∀ x i, lookup ld.store.idxAtom x = some i → lookup S2.idxAtom x = some i) ∧
      (∀ x i, lookup S2.idxAtom x = some i → 1 ≤ i ∧ ∃ a g e, (shapes S2)[i - 1]? = some (.atom a g e none)) ∧
      (∀ x y i, lookup S2.idxAtom x = some i → lookup S2.idxAtom y = some i → x = y) := by
    rcases hcase with ⟨_, hnodes, hidx1⟩ | ⟨hnone, hi, hnodes, hidx1⟩
    · have e1 : shapes S2 = shapes ld.store := by rw [hsh2]; unfold shapes; rw [hnodes]
      have e2 : S2.idxAtom = ld.store.idxAtom := by rw [hidx2, hidx1]
      refine ⟨⟨[], by simp [e1]⟩, ?_, ?_, ?_⟩
      · intro x i hx; rw [e2]; exact hx
      · intro x i hx; rw [e2] at hx; rw [e1]; exact h.idx x i hx
      · intro x y i hx hy; rw [e2] at hx hy; exact h.inj x y i hx hy
    · have e1 : shapes S2 = shapes ld.store ++ [.atom (.user (name.natAbs : Int)) none false none] := by
        rw [hsh2]; unfold shapes; rw [hnodes]; simp [shape, Node.setName]
      have e2 : S2.idxAtom = ld.store.idxAtom ++ [(.user (name.natAbs : Int), i)] := by rw [hidx2, hidx1]
      have hle : ∀ x i', lookup ld.store.idxAtom x = some i' → i' ≤ ld.store.nodes.length := by
        intro x i' hx
        obtain ⟨h1, a, g, e, h2⟩ := h.idx x i' hx
        have := getElem?_lt_of_some h2
        rw [shapes_length] at this
        omega
      refine ⟨⟨_, e1⟩, ?_, ?_, ?_⟩
      · intro x i' hx; rw [e2]; exact lookup_append_some _ _ _ _ hx
      · intro x i' hx
        rw [e2] at hx
        rcases lookup_snoc _ _ _ _ _ hx with hold | ⟨_, _, hi'⟩
        · obtain ⟨h1, a, g, e, h2⟩ := h.idx x i' hold
          exact ⟨h1, a, g, e, by rw [e1]; exact getElem?_some_of_prefix _ _ _ _ h2⟩
        · subst hi'
          refine ⟨by omega, .user (name.natAbs : Int), none, false, ?_⟩
          rw [e1, hi]
          simp [← shapes_length]
      · intro x y i' hx hy
        rw [e2] at hx hy
        rcases lookup_snoc _ _ _ _ _ hx with hox | ⟨_, hxe, hxi⟩ <;>
          rcases lookup_snoc _ _ _ _ _ hy with hoy | ⟨_, hye, hyi⟩
        · exact h.inj x y i' hox hoy
        · have := hle x i' hox; omega
        · have := hle y i' hoy; omega
        · rw [← hxe, ← hye]
  obtain ⟨f1, f2, f3, f4⟩ := hfacts
  have hi1 : 1 ≤ i := (f3 _ _ hlk).1
  refine Rep_snoc h (.lit name) S2 _ f1 f2 f3 f4 ⟨i, hlk, ?_⟩
  by_cases hneg : name < 0
  · simp only [hneg, if_true]
    exact negKey_some _
  · simp only [hneg, if_false]

theorem Rep_step_and (cnf : CNF) (ns : List (Label × Name × Key)) (c : Circuit) (ld : Loaded) (seen : List Int)
    (cs : List Nat) (h : Rep c ld) :
    Rep (c ++ [.and cs]) (loadStep cnf ns (ld, seen) (.and cs)).1 := by
  have heq : (loadStep cnf ns (ld, seen) (.and cs)).1 =
      ⟨{ ld.store with nodes := ld.store.nodes ++ [.conj (cs.map (fun ch => ld.line2node.getD ch none)) none] },
        ld.line2node ++ [some ((ld.store.nodes.length + 1 : Nat) : Int)]⟩ := by
    simp [loadStep, Store.addConjNode]
  rw [heq]
  have e1 : shapes { ld.store with nodes := ld.store.nodes ++ [.conj (cs.map (fun ch => ld.line2node.getD ch none)) none] } =
      shapes ld.store ++ [.conj (cs.map (fun ch => ld.line2node.getD ch none)) none] := by
    simp [shapes, shape, Node.setName]
  refine Rep_snoc h (.and cs) _ _ ⟨_, e1⟩ (fun x i hx => hx) ?_ (fun x y i hx hy => h.inj x y i hx hy) ⟨?_, ?_, ?_⟩
  · intro x i hx
    obtain ⟨h1, a, g, e, h2⟩ := h.idx x i hx
    exact ⟨h1, a, g, e, by rw [e1]; exact getElem?_some_of_prefix _ _ _ _ h2⟩
  · simp
  · simp
  · rw [e1]; simp [← shapes_length]

theorem Rep_step_or (cnf : CNF) (ns : List (Label × Name × Key)) (c : Circuit) (ld : Loaded) (seen : List Int)
    (d : Nat) (cs : List Nat) (h : Rep c ld) :
    Rep (c ++ [.or d cs]) (loadStep cnf ns (ld, seen) (.or d cs)).1 := by
  have heq : (loadStep cnf ns (ld, seen) (.or d cs)).1 =
      ⟨{ ld.store with nodes := ld.store.nodes ++ [.disj (cs.map (fun ch => ld.line2node.getD ch none)) none] },
        ld.line2node ++ [some ((ld.store.nodes.length + 1 : Nat) : Int)]⟩ := by
    simp [loadStep, Store.addDisjNode]
  rw [heq]
  have e1 : shapes { ld.store with nodes := ld.store.nodes ++ [.disj (cs.map (fun ch => ld.line2node.getD ch none)) none] } =
      shapes ld.store ++ [.disj (cs.map (fun ch => ld.line2node.getD ch none)) none] := by
    simp [shapes, shape, Node.setName]
  refine Rep_snoc h (.or d cs) _ _ ⟨_, e1⟩ (fun x i hx => hx) ?_ (fun x y i hx hy => h.inj x y i hx hy) ⟨?_, ?_, ?_⟩
  · intro x i hx
    obtain ⟨h1, a, g, e, h2⟩ := h.idx x i hx
    exact ⟨h1, a, g, e, by rw [e1]; exact getElem?_some_of_prefix _ _ _ _ h2⟩
  · simp
  · simp
  · rw [e1]; simp [← shapes_length]

/-- the fold over all lines -/
theorem Rep_fold (cnf : CNF) (ns : List (Label × Name × Key)) (c : Circuit) (hn : litsNormal cnf c = true) :
    Rep c (c.foldl (loadStep cnf ns) (⟨loadInit, []⟩, [])).1 := by
  induction c using snoc_induction with
  | nil => exact Rep_nil
  | snoc l nd ih =>
    unfold litsNormal at hn ih
    rw [List.all_append, Bool.and_eq_true] at hn
    have ih' := ih hn.1
    rw [List.foldl_append]
    simp only [List.foldl_cons, List.foldl_nil]
    generalize l.foldl (loadStep cnf ns) (⟨loadInit, []⟩, []) = st at ih' ⊢
    obtain ⟨ld, seen⟩ := st
    cases nd with
    | lit name => exact Rep_step_lit cnf ns l ld seen name ih' (by simpa using hn.2)
    | and cs => exact Rep_step_and cnf ns l ld seen cs ih'
    | or d cs => exact Rep_step_or cnf ns l ld seen d cs ih'

/-- `loadFinish` only adds names of absent literals and installs the renamed AD constraints -/
theorem loadFinish_fields (cnf : CNF) (ns : List (Label × Name × Key)) (st : Loaded × List Int) :
    shapes (loadFinish cnf ns st).store = shapes st.1.store ∧
    (loadFinish cnf ns st).store.idxAtom = st.1.store.idxAtom ∧
    (loadFinish cnf ns st).store.weights = st.1.store.weights ∧
    (loadFinish cnf ns st).line2node = st.1.line2node := by
  obtain ⟨ld, seen⟩ := st
  simp only [loadFinish]
  refine ⟨?_, ?_, ?_, trivial⟩
  · exact foldl_preserve shapes _ (fun S b => addName_shapes S _ _ _) _ _
  · exact foldl_preserve Store.idxAtom _ (fun S b => addName_idxAtom S _ _ _) _ _
  · exact foldl_preserve Store.weights _ (fun S b => addName_weights S _ _ _) _ _

theorem Rep_congr {c : Circuit} {ld ld' : Loaded} (h : Rep c ld) (h1 : shapes ld'.store = shapes ld.store)
    (h2 : ld'.store.idxAtom = ld.store.idxAtom) (h3 : ld'.line2node = ld.line2node) : Rep c ld' := by
  have hl : ld'.store.nodes.length = ld.store.nodes.length := by
    rw [← shapes_length, ← shapes_length, h1]
  exact ⟨by rw [h3]; exact h.len, by rw [h1, h2]; exact h.idx, by rw [h2]; exact h.inj,
    by rw [h2, h3]; exact h.lit, by rw [h1, h3]; exact h.conj, by rw [h1, h3]; exact h.disj,
    by rw [h3]; exact h.mono, by rw [h3, hl]; exact h.last⟩

/-- when the last line is a literal, the last store node is the explicit root `conj [key of the last line]` -/
def RootOK (c : Circuit) (ld : Loaded) : Prop :=
  ∀ l : Int, c.getLast? = some (NNode.lit l) →
    (shapes ld.store).getLast? = some (.conj [ld.line2node.getLast?.getD none] none)

theorem loadRoot_lit (c : Circuit) (ld0 : Loaded) (l : Int) (h : c.getLast? = some (NNode.lit l)) :
    loadRoot c ld0 =
      ⟨{ ld0.store with nodes := ld0.store.nodes ++ [.conj [ld0.line2node.getLast?.getD none] none] },
        ld0.line2node⟩ := by
  unfold loadRoot
  rw [h]
  rfl

theorem loadRoot_other (c : Circuit) (ld0 : Loaded) (h : ∀ l : Int, c.getLast? ≠ some (NNode.lit l)) :
    loadRoot c ld0 = ld0 := by
  unfold loadRoot
  split
  · rename_i l hl; exact absurd hl (h l)
  · rfl

theorem Rep_root {c : Circuit} {ld0 : Loaded} (h : Rep c ld0) :
    Rep c (loadRoot c ld0) ∧ RootOK c (loadRoot c ld0) := by
  by_cases hl : ∃ l : Int, c.getLast? = some (NNode.lit l)
  · obtain ⟨l, hl⟩ := hl
    rw [loadRoot_lit c ld0 l hl]
    have e1 : shapes { ld0.store with nodes := ld0.store.nodes ++ [.conj [ld0.line2node.getLast?.getD none] none] } =
        shapes ld0.store ++ [.conj [ld0.line2node.getLast?.getD none] none] := by
      simp [shapes, shape, Node.setName]
    constructor
    · refine ⟨h.len, ?_, h.inj, h.lit, ?_, ?_, h.mono, ?_⟩
      · intro x i hx
        obtain ⟨h1, a, g, e, h2⟩ := h.idx x i hx
        exact ⟨h1, a, g, e, by rw [e1]; exact getElem?_some_of_prefix _ _ _ _ h2⟩
      · intro j cs hj
        obtain ⟨m, h1, h2, h3⟩ := h.conj j cs hj
        exact ⟨m, h1, h2, by rw [e1]; exact getElem?_some_of_prefix _ _ _ _ h3⟩
      · intro j d cs hj
        obtain ⟨m, h1, h2, h3⟩ := h.disj j d cs hj
        exact ⟨m, h1, h2, by rw [e1]; exact getElem?_some_of_prefix _ _ _ _ h3⟩
      · intro nd hnd hc
        rw [hl] at hnd
        injection hnd with hnd
        subst hnd
        simp [isCompound] at hc
    · intro l' _
      rw [e1]; simp
  · have hno : ∀ l : Int, c.getLast? ≠ some (NNode.lit l) := fun l hh => hl ⟨l, hh⟩
    rw [loadRoot_other c ld0 hno]
    exact ⟨h, fun l hh => absurd hh (hno l)⟩

theorem loadRoot_fields (c : Circuit) (ld0 : Loaded) :
    (loadRoot c ld0).store.idxAtom = ld0.store.idxAtom ∧ (loadRoot c ld0).store.weights = ld0.store.weights ∧
      (loadRoot c ld0).line2node = ld0.line2node := by
  unfold loadRoot
  split
  · exact ⟨rfl, rfl, rfl⟩
  · exact ⟨rfl, rfl, rfl⟩

/-- **the loaded store represents the circuit** -/
theorem loadNnf_rep (c : Circuit) (cnf : CNF) (ns : List (Label × Name × Key)) (hn : litsNormal cnf c = true) :
    Rep c (loadNnf c cnf ns) := by
  rw [loadNnf_eq]
  obtain ⟨h1, h2, _, h4⟩ := loadFinish_fields cnf ns
    (loadRoot c (c.foldl (loadStep cnf ns) (⟨loadInit, []⟩, [])).1, (c.foldl (loadStep cnf ns) (⟨loadInit, []⟩, [])).2)
  exact Rep_congr (Rep_root (Rep_fold cnf ns c hn)).1 h1 h2 h4

/-- … and has an explicit root node when the last line is a literal -/
theorem loadNnf_rootOK (c : Circuit) (cnf : CNF) (ns : List (Label × Name × Key)) (hn : litsNormal cnf c = true) :
    RootOK c (loadNnf c cnf ns) := by
  rw [loadNnf_eq]
  obtain ⟨h1, _, _, h4⟩ := loadFinish_fields cnf ns
    (loadRoot c (c.foldl (loadStep cnf ns) (⟨loadInit, []⟩, [])).1, (c.foldl (loadStep cnf ns) (⟨loadInit, []⟩, [])).2)
  intro l hl
  rw [h1, h4]
  exact (Rep_root (Rep_fold cnf ns c hn)).2 l hl

end ProbLogProofs.DDNNF
