import ProbLogModel.CyclesSem
/-!
Helper lemmas for C09Cycles: the termination measure `free`, unfolding of `cutEval` / `lfpEval`, children of a
`Positive` store, and `cutEval ↔ Der`.
-/
namespace ProbLogProofs.Cycles
open ProbLogModel.Formula ProbLogModel.Cycles

/-! ### the measure -/

theorem length_filter_le_of_imp {β} (p q : β → Bool) (l : List β) (himp : ∀ x, q x = true → p x = true) :
    (l.filter q).length ≤ (l.filter p).length := by
  induction l with
  | nil => simp
  | cons a l ih =>
    simp only [List.filter_cons]
    cases hq : q a with
    | true => rw [himp a hq]; simp only [↓reduceIte, List.length_cons]; omega
    | false =>
      cases hp : p a with
      | true => simp only [↓reduceIte, List.length_cons, Bool.false_eq_true]; omega
      | false => simpa using ih

theorem length_filter_lt_of_imp {β} (p q : β → Bool) (l : List β) (himp : ∀ x, q x = true → p x = true)
    (x : β) (hx : x ∈ l) (hpx : p x = true) (hqx : q x = false) :
    (l.filter q).length < (l.filter p).length := by
  induction l with
  | nil => cases hx
  | cons a l ih =>
    simp only [List.filter_cons]
    rcases List.mem_cons.1 hx with h | h
    · subst h
      have := length_filter_le_of_imp p q l himp
      simp only [hpx, hqx, ↓reduceIte, List.length_cons, Bool.false_eq_true]; omega
    · have := ih h
      cases hq : q a with
      | true => rw [himp a hq]; simp only [↓reduceIte, List.length_cons]; omega
      | false =>
        cases hp : p a with
        | true => simp only [↓reduceIte, List.length_cons, Bool.false_eq_true]; omega
        | false => simpa using this

/-- Entering a fresh existing node strictly decreases the measure. -/
theorem free_cons_lt (S : Store) (A : List Nat) (i : Nat) (hi0 : 0 < i) (hlen : i - 1 < S.nodes.length)
    (hA : i ∉ A) : free S (i :: A) < free S A := by
  unfold free
  apply length_filter_lt_of_imp _ _ _ _ (i - 1) (List.mem_range.2 hlen)
  · have : i - 1 + 1 = i := by omega
    simp [this, hA]
  · have : i - 1 + 1 = i := by omega
    simp [this]
  · intro x hx
    simp only [List.contains_cons, Bool.not_or, Bool.and_eq_true] at hx
    exact hx.2

theorem free_nil (S : Store) : free S [] = S.nodes.length := by
  unfold free
  have : (List.range S.nodes.length).filter (fun j => !([] : List Nat).contains (j + 1)) =
      List.range S.nodes.length := List.filter_eq_self.2 (by intro a _; simp)
  rw [this, List.length_range]

/-! ### unfolding -/

theorem cutEval_succ (S : Store) (α : Nat → Bool) (f : Nat) (A : List Nat) (k : Int) :
    cutEval S α (f + 1) A (some k) =
      if k = 0 then true else
      let v : Bool :=
        match S.nodes[k.natAbs - 1]? with
        | none => false
        | some (.atom ..) => α k.natAbs
        | some (.conj cs _) =>
          if A.contains k.natAbs then false else cs.all (fun c => cutEval S α f (k.natAbs :: A) c)
        | some (.disj cs _) =>
          if A.contains k.natAbs then false else cs.any (fun c => cutEval S α f (k.natAbs :: A) c)
      if k < 0 then !v else v := by
  rfl

theorem lfpEval_zero (S : Store) (α : Nat → Bool) (k : Int) :
    lfpEval S α 0 (some k) =
      if k = 0 then true else
      let v : Bool :=
        match S.nodes[k.natAbs - 1]? with
        | some (.atom ..) => α k.natAbs
        | _ => false
      if k < 0 then !v else v := by
  rfl

theorem lfpEval_succ (S : Store) (α : Nat → Bool) (n : Nat) (k : Int) :
    lfpEval S α (n + 1) (some k) =
      if k = 0 then true else
      let v : Bool :=
        match S.nodes[k.natAbs - 1]? with
        | none => false
        | some (.atom ..) => α k.natAbs
        | some (.conj cs _) => cs.all (fun c => lfpEval S α n c)
        | some (.disj cs _) => cs.any (fun c => lfpEval S α n c)
      if k < 0 then !v else v := by
  rfl

/-! ### positive stores -/

theorem posNode_of_get {S : Store} (hS : Positive S) {j : Nat} {nd : Node} (h : S.nodes[j]? = some nd) :
    posNode S nd = true := by
  have hmem : nd ∈ S.nodes := List.mem_of_getElem? h
  exact List.all_eq_true.1 hS nd hmem

theorem posKey_conj {S : Store} (hS : Positive S) {j : Nat} {cs nm} (h : S.nodes[j]? = some (.conj cs nm)) :
    ∀ c ∈ cs, PosKey S c := by
  have := posNode_of_get hS h
  exact fun c hc => List.all_eq_true.1 this c hc

theorem posKey_disj {S : Store} (hS : Positive S) {j : Nat} {cs nm} (h : S.nodes[j]? = some (.disj cs nm)) :
    ∀ c ∈ cs, PosKey S c := by
  have := posNode_of_get hS h
  exact fun c hc => List.all_eq_true.1 this c hc

/-- A `PosKey` that points to a compound node is positive. -/
theorem pos_of_posKey_conj {S : Store} {k : Int} {cs nm} (hk : PosKey S (some k)) (hk0 : k ≠ 0)
    (h : S.nodes[k.natAbs - 1]? = some (.conj cs nm)) : 0 < k := by
  simp only [PosKey, posKey, h] at hk
  by_cases h0 : 0 ≤ k
  · omega
  · simp [h0] at hk

theorem pos_of_posKey_disj {S : Store} {k : Int} {cs nm} (hk : PosKey S (some k)) (hk0 : k ≠ 0)
    (h : S.nodes[k.natAbs - 1]? = some (.disj cs nm)) : 0 < k := by
  simp only [PosKey, posKey, h] at hk
  by_cases h0 : 0 ≤ k
  · omega
  · simp [h0] at hk

/-! ### negated keys -/

theorem cutEval_neg (S : Store) (α : Nat → Bool) (f : Nat) (A : List Nat) (k : Int) (hk : k ≠ 0) :
    cutEval S α (f + 1) A (some (-k)) = !cutEval S α (f + 1) A (some k) := by
  rw [cutEval_succ, cutEval_succ]
  have h1 : ¬ (-k = 0) := by omega
  simp only [h1, hk, ↓reduceIte, Int.natAbs_neg]
  by_cases h : k < 0
  · have h2 : ¬ (-k < 0) := by omega
    simp only [h, h2, ↓reduceIte, Bool.not_not]
  · have h2 : -k < 0 := by omega
    simp only [h, h2, ↓reduceIte]

theorem lfpEval_neg (S : Store) (α : Nat → Bool) (n : Nat) (k : Int) (hk : k ≠ 0) :
    lfpEval S α n (some (-k)) = !lfpEval S α n (some k) := by
  have h1 : ¬ (-k = 0) := by omega
  cases n with
  | zero =>
    rw [lfpEval_zero, lfpEval_zero]
    simp only [h1, hk, ↓reduceIte, Int.natAbs_neg]
    by_cases h : k < 0
    · have h2 : ¬ (-k < 0) := by omega
      simp only [h, h2, ↓reduceIte, Bool.not_not]
    · have h2 : -k < 0 := by omega
      simp only [h, h2, ↓reduceIte]
  | succ n =>
    rw [lfpEval_succ, lfpEval_succ]
    simp only [h1, hk, ↓reduceIte, Int.natAbs_neg]
    by_cases h : k < 0
    · have h2 : ¬ (-k < 0) := by omega
      simp only [h, h2, ↓reduceIte, Bool.not_not]
    · have h2 : -k < 0 := by omega
      simp only [h, h2, ↓reduceIte]

theorem cutEval_neg' (S : Store) (α : Nat → Bool) (f : Nat) (A : List Nat) (k : Int) (hk : k ≠ 0) :
    cutEval S α (f + 1) A (some k) = !cutEval S α (f + 1) A (some (-k)) := by
  rw [cutEval_neg _ _ _ _ _ hk, Bool.not_not]

theorem lfpEval_neg' (S : Store) (α : Nat → Bool) (n : Nat) (k : Int) (hk : k ≠ 0) :
    lfpEval S α n (some k) = !lfpEval S α n (some (-k)) := by
  rw [lfpEval_neg _ _ _ _ hk, Bool.not_not]

theorem posKey_of_nonneg (S : Store) {k : Int} (h : 0 ≤ k) : PosKey S (some k) := by
  simp only [PosKey, posKey, h, ↓reduceIte]

theorem neg_of_not_posKey {S : Store} {k : Int} (hk : ¬ PosKey S (some k)) : k < 0 := by
  by_cases h0 : 0 ≤ k
  · exact absurd (posKey_of_nonneg S h0) hk
  · omega

end ProbLogProofs.Cycles
