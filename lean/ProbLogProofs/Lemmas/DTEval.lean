import ProbLogModel.Tasks.DT
/-! Helper lemmas for C21: `evaluate` and the MAP utilities (core Lean only). -/
namespace ProbLogProofs.DT
open ProbLogModel.Tasks.DT

theorem foldl_congr_mem {α β} (l : List α) (f g : β → α → β) (a : β)
    (h : ∀ x, x ∈ l → ∀ s, f s x = g s x) : l.foldl f a = l.foldl g a := by
  induction l generalizing a with
  | nil => rfl
  | cons x l ih =>
    simp only [List.foldl_cons]
    rw [h x (by simp)]
    exact ih _ (fun y hy => h y (by simp [hy]))

theorem lookup_none_of_not_mem (l : List (Int × Rat)) (k : Int) (h : k ∉ l.map (·.1)) : lookup l k = none := by
  induction l with
  | nil => rfl
  | cons x l ih =>
    simp only [List.map_cons, List.mem_cons, not_or] at h
    have hx : (x.1 == k) = false := by simpa using fun e => h.1 e.symm
    simp only [lookup, List.find?_cons, hx]
    exact ih h.2

theorem mem_keys_of_lookup_some (l : List (Int × Rat)) (k : Int) (h : (lookup l k).isSome) : k ∈ l.map (·.1) := by
  by_cases hk : k ∈ l.map (·.1)
  · exact hk
  · rw [lookup_none_of_not_mem l k hk] at h; cases h

theorem lookup_isSome_of_mem (l : List (Int × Rat)) (k : Int) (h : k ∈ l.map (·.1)) : (lookup l k).isSome = true := by
  induction l with
  | nil => simp at h
  | cons x l ih =>
    by_cases hx : (x.1 == k) = true
    · simp [lookup, List.find?_cons, hx]
    · have hx' : ¬ (x.1 = k) := by simpa using hx
      have hx'' : (x.1 == k) = false := by simpa using hx'
      simp only [List.map_cons, List.mem_cons] at h
      have hm : k ∈ l.map (·.1) := by
        rcases h with e | e
        · exact absurd e.symm hx'
        · exact e
      simp only [lookup, List.find?_cons, hx'']
      exact ih hm

theorem lookup_of_mem_nodup (l : List (Int × Rat)) (k : Int) (u : Rat) (hnd : (l.map (·.1)).Nodup)
    (hm : (k, u) ∈ l) : lookup l k = some u := by
  induction l with
  | nil => cases hm
  | cons x l ih =>
    simp only [List.map_cons, List.nodup_cons] at hnd
    rcases List.mem_cons.mp hm with e | hm'
    · subst e; simp [lookup]
    · have hne : (x.1 == k) = false := by
        have hk : k ∈ l.map (·.1) := List.mem_map.mpr ⟨(k, u), hm', rfl⟩
        have : ¬ (x.1 = k) := by
          intro e; rw [e] at hnd; exact hnd.1 hk
        simpa using this
      simp only [lookup, List.find?_cons, hne]
      exact ih hnd.2 hm'

theorem evaluate_eq_eu (prob : Int → Rat) (utilities : List (Int × Rat)) (hnd : (utilities.map (·.1)).Nodup) :
    evaluate (utilities.map (fun ku => (ku.1, prob ku.1))) utilities =
      utilities.foldl (fun s ku => s + prob ku.1 * ku.2) 0 := by
  unfold evaluate
  rw [List.foldl_map]
  apply foldl_congr_mem
  intro ku hku s
  congr 1
  obtain ⟨k, u⟩ := ku
  simp only [evalTerm]
  have h1 : getU utilities k = u := by simp [getU, lookup_of_mem_nodup utilities k u hnd hku]
  rw [h1]
  have hkeys : (utilities.map (fun ku => (ku.1, prob ku.1))).map (·.1) = utilities.map (·.1) := by
    rw [List.map_map]; rfl
  split
  · grind
  · rename_i hn
    have hnk : (-k) ∉ utilities.map (·.1) := by
      intro hmem
      apply hn
      exact lookup_isSome_of_mem _ _ (by rw [hkeys]; exact hmem)
    have h2 : getU utilities (-k) = 0 := by simp [getU, lookup_none_of_not_mem utilities (-k) hnk]
    rw [h2]; grind

/-! ### MAP -/

theorem lookup_mapResult_neg (k0 : Nat) (v : List Bool) (m : Nat) (hk : 1 ≤ k0) :
    lookup (mapResult k0 v) (-(m : Int)) = none := by
  induction v generalizing k0 with
  | nil => rfl
  | cons b bs ih =>
    have hne : (((k0 : Int)) == -(m : Int)) = false := by simp; omega
    simp only [mapResult, lookup, List.find?_cons, hne]
    exact ih (k0 + 1) (by omega)

theorem getU_mapUtilities (k0 : Nat) (ps : List Rat) (i : Nat) (hi : i < ps.length) (hk : 1 ≤ k0) :
    getU (mapUtilities k0 ps) ((k0 + i : Nat) : Int) = ps[i] ∧
    getU (mapUtilities k0 ps) (-((k0 + i : Nat) : Int)) = 1 - ps[i] := by
  induction ps generalizing k0 i with
  | nil => simp at hi
  | cons p ps ih =>
    cases i with
    | zero =>
      constructor
      · simp [mapUtilities, getU, lookup]
      · have hne : (((k0 : Int)) == -((k0 + 0 : Nat) : Int)) = false := by simp; omega
        simp only [mapUtilities, getU, lookup, List.find?_cons, hne]
        simp
    | succ i =>
      have h1 : (((k0 : Int)) == ((k0 + (i + 1) : Nat) : Int)) = false := by simp; omega
      have h2 : ((-(k0 : Int)) == ((k0 + (i + 1) : Nat) : Int)) = false := by simp; omega
      have h3 : (((k0 : Int)) == -((k0 + (i + 1) : Nat) : Int)) = false := by simp; omega
      have h4 : ((-(k0 : Int)) == -((k0 + (i + 1) : Nat) : Int)) = false := by simp; omega
      have := ih (k0 + 1) i (by simpa using hi) (by omega)
      have e : k0 + 1 + i = k0 + (i + 1) := by omega
      rw [e] at this
      simp only [mapUtilities, getU, lookup, List.find?_cons, h1, h2, h3, h4, List.getElem_cons_succ]
      exact this

theorem map_fold (Rf Uf : List (Int × Rat)) (hR : ∀ m : Nat, lookup Rf (-(m : Int)) = none)
    (k0 : Nat) (ps : List Rat) (v : List Bool) (hl : v.length = ps.length) (a : Rat)
    (hU : ∀ i (hi : i < ps.length), getU Uf ((k0 + i : Nat) : Int) = ps[i] ∧
                                     getU Uf (-((k0 + i : Nat) : Int)) = 1 - ps[i]) :
    (mapResult k0 v).foldl (fun s rp => s + evalTerm Rf Uf rp) a = a + mapObjective ps v := by
  induction v generalizing k0 ps a with
  | nil =>
    cases ps with
    | nil => simp [mapResult, mapObjective]; grind
    | cons => simp at hl
  | cons b bs ih =>
    cases ps with
    | nil => simp at hl
    | cons p ps =>
      simp only [mapResult, List.foldl_cons, mapObjective]
      have h0 := hU 0 (by simp)
      simp only [Nat.add_zero, List.getElem_cons_zero] at h0
      have hterm : evalTerm Rf Uf ((k0 : Int), if b then 1 else 0) = (if b then p else 1 - p) := by
        simp only [evalTerm, hR k0, Option.isSome_none, Bool.false_eq_true, if_false, h0.1, h0.2]
        cases b <;> simp <;> grind
      rw [hterm]
      rw [ih (k0 + 1) ps (by simpa using hl) _ ?_]
      · grind
      · intro i hi
        have := hU (i + 1) (by simpa using hi)
        have e : k0 + 1 + i = k0 + (i + 1) := by omega
        rw [e]
        simpa using this

theorem mapScore_eq (ps : List Rat) (v : List Bool) (h : v.length = ps.length) :
    mapScore ps v = mapObjective ps v := by
  unfold mapScore evaluate
  rw [map_fold (mapResult 1 v) (mapUtilities 1 ps) (fun m => lookup_mapResult_neg 1 v m (by omega)) 1 ps v h 0
    (fun i hi => getU_mapUtilities 1 ps i hi (by omega))]
  grind

end ProbLogProofs.DT
