import ProbLogProofs.Lemmas.UnrollReuse
/-!
Helper lemmas for C09Unroll (6): `breakNode` / `breakCompound` / `breakChildren` (the real `_break_cycles`, with the
`translation` reuse table; no evidence table: `ev = none`) preserve the table invariant `TransOK` and return keys
that satisfy the sandwich `CallOK`. Induction on the fuel, inner induction on the child list.
-/
namespace ProbLogProofs.Unroll
open ProbLogModel.Formula ProbLogModel.Cycles ProbLogProofs.Cycles

/-- A source child and its translated key, relative to the target reached after the whole child list and the cut set
    accumulated over it. -/
def ChildRel (src : Store) (lvl : Nat → Nat) (α : Nat → Bool) (T' : Store) (ancset cb : List Nat) (c k : Key) :
    Prop :=
  ∃ ci, c = some ci ∧ keyBelow T'.nodes.length k ∧
    ∀ ρ, Consistent T' ρ → Carries src T' α ρ →
      Up src α ρ ci k ∧
      ∀ A f, ((∀ x, x ∈ A ↔ x ∈ ancset) ∨ ∀ x ∈ cb, x ∈ A) → (ci ≠ 0 → AncOK src lvl A ci) → free src A < f →
        cutEval src α f A (some ci) = true → keyVal ρ k = true

theorem ChildRel.mono {src : Store} {lvl : Nat → Nat} {α : Nat → Bool} {T T' : Store} {ancset cb cb' : List Nat}
    {c k : Key} (hs : Step T T') (hcb : ∀ x ∈ cb, x ∈ cb') (h : ChildRel src lvl α T ancset cb c k) :
    ChildRel src lvl α T' ancset cb' c k := by
  obtain ⟨ci, hc, hkb, hsem⟩ := h
  refine ⟨ci, hc, keyBelow_step hs hkb, fun ρ hcons hcar => ?_⟩
  obtain ⟨hu, hl⟩ := hsem ρ (hs.2.1.consistent hcons) (Carries.mono hs hcar)
  exact ⟨hu, fun A f hadm => hl A f (hadm.imp id (fun h x hx => h x (hcb x hx)))⟩

/-- The statement proved by induction on the fuel. -/
def NodeIH (src : Store) (lvl : Nat → Nat) (α : Nat → Bool) (fuel : Nat) : Prop :=
  ∀ (st : BC) (node : Int) (anc : List Nat) (isEv : Bool) (r : Res), node ≠ 0 → WF st.target →
    TransOK src lvl α st.target st.trans → AncOK src lvl anc node →
    breakNode src none fuel st node anc isEv = .ok r → CallOK src lvl α st.target node anc r

theorem children_valid {src : Store} {lvl : Nat → Nat} {α : Nat → Bool} {fuel : Nat} (ih : NodeIH src lvl α fuel)
    {ancset : List Nat} {isEv : Bool} :
    ∀ (children : List Key) (st : BC) (acc : List Key) (cb content : List Nat) (st' : BC) (keys : List Key)
      (cb' content' : List Nat), WF st.target → TransOK src lvl α st.target st.trans →
      (∀ c, some c ∈ children → c ≠ 0 → AncOK src lvl ancset c) →
      breakChildren src none fuel st children ancset isEv acc cb content = .ok (st', keys, cb', content') →
      Step st.target st'.target ∧ TransOK src lvl α st'.target st'.trans ∧ (∀ x ∈ cb, x ∈ cb') ∧
      ∃ ks, keys = acc ++ ks ∧ Forall₂ (ChildRel src lvl α st'.target ancset cb') children ks := by
  intro children
  induction children with
  | nil =>
    intro st acc cb content st' keys cb' content' hw htr _ h
    rw [breakChildren.eq_1] at h
    simp only [Except.ok.injEq, Prod.mk.injEq] at h
    obtain ⟨rfl, rfl, rfl, rfl⟩ := h
    exact ⟨Step.refl _, htr, fun _ hx => hx, [], by simp, .nil⟩
  | cons c rest ihl =>
    intro st acc cb content st' keys cb' content' hw htr hanc h
    have hancr : ∀ c, some c ∈ rest → c ≠ 0 → AncOK src lvl ancset c :=
      fun c hc => hanc c (List.mem_cons_of_mem _ hc)
    cases c with
    | none => rw [breakChildren.eq_2] at h; cases h
    | some c =>
      rw [breakChildren.eq_3] at h
      by_cases hc0 : c = 0
      · rw [if_pos hc0] at h
        subst hc0
        obtain ⟨hs, htr', hsub, ks, hk, hrel⟩ := ihl st _ cb content st' keys cb' content' hw htr hancr h
        refine ⟨hs, htr', hsub, some 0 :: ks, by rw [hk]; simp, .cons ?_ hrel⟩
        exact ⟨0, rfl, by show (0 : Int).natAbs ≤ _; simp, fun ρ _ _ => ⟨fun _ => Pv_true src α, fun _ _ _ _ _ _ => rfl⟩⟩
      · rw [if_neg hc0] at h
        cases hr : breakNode src none fuel st c ancset isEv with
        | error e => rw [hr] at h; cases h
        | ok r =>
          rw [hr] at h
          simp only at h
          have hcall := ih st c ancset isEv r hc0 hw htr (hanc c List.mem_cons_self hc0) hr
          obtain ⟨hs, htr', hsub, ks, hk, hrel⟩ :=
            ihl r.st _ _ _ st' keys cb' content' (hcall.step.1 hw) hcall.trans hancr h
          refine ⟨hcall.step.trans hs, htr', fun x hx => hsub x (mem_union.2 (Or.inl hx)), r.key :: ks,
            by rw [hk]; simp, .cons ?_ hrel⟩
          refine ⟨c, rfl, keyBelow_step hs hcall.kb, fun ρ hcons hcar => ?_⟩
          obtain ⟨hu, hl⟩ := hcall.sem ρ (hs.2.1.consistent hcons) (Carries.mono hs hcar)
          exact ⟨hu, fun A f hadm hA hf hcut =>
            hl A f (hadm.imp id (fun h x hx => h x (hsub x (mem_union.2 (Or.inr hx))))) (hA hc0) hf hcut⟩

theorem compound_aux {r0 : Except Err (Store × Key)} {F : Store → Key → Res} {r : Res}
    (h : (match r0 with
      | .error e => (Except.error (CErr.builder e) : Except CErr Res)
      | .ok (t', k) => .ok (F t' k)) = .ok r) :
    ∃ t' k, r0 = .ok (t', k) ∧ r = F t' k := by
  cases r0 with
  | error e => cases h
  | ok q =>
    obtain ⟨t', k⟩ := q
    simp only [Except.ok.injEq] at h
    exact ⟨t', k, rfl, h.symm⟩

theorem compound_unfold {src : Store} {ev : Option (List (Nat × Key))} {fuel : Nat} {st : BC} {nodeid : Nat}
    {negative : Bool} {kind : Kind} {children : List Key} {name : Option Name} {ancset : List Nat} {isEv : Bool}
    {r : Res} (h : breakCompound src ev fuel st nodeid negative kind children name ancset isEv = .ok r) :
    ∃ st1 keys ccb ccontent nn t' k,
      breakChildren src ev fuel st children ancset isEv [] [] [] = .ok (st1, keys, ccb, ccontent) ∧
      addCompound st1.target kind keys true nn false none = .ok (t', k) ∧
      r = ⟨⟨t', transAppend st1.trans nodeid ⟨k, ccb, diff ccontent ccb⟩⟩,
           if negative = true then negate k else k, ccb,
           union (if isProbabilistic k = true then [nodeid] else []) ccontent⟩ := by
  rw [breakCompound.eq_1] at h
  cases hch : breakChildren src ev fuel st children ancset isEv [] [] [] with
  | error e => rw [hch] at h; cases h
  | ok p =>
    obtain ⟨st1, keys, ccb, ccontent⟩ := p
    rw [hch] at h
    simp only at h
    cases kind with
    | conj =>
      obtain ⟨t', k, hadd, hr⟩ := compound_aux h
      exact ⟨st1, keys, ccb, ccontent, _, t', k, rfl, hadd, hr⟩
    | disj =>
      obtain ⟨t', k, hadd, hr⟩ := compound_aux h
      exact ⟨st1, keys, ccb, ccontent, _, t', k, rfl, hadd, hr⟩

/-- Ancestor condition for a child of `n`, for any list made of admissible ancestors of `n` and `n` itself. -/
theorem ancOK_child {src : Store} {lvl : Nat → Nat} {n : Nat} {ci : Int}
    (hsk : stratKey src lvl n (some ci) = true) (hc0 : ci ≠ 0) (hcomp : IsCompound src n) {A B : List Nat}
    (hA : AncOK src lvl A (n : Int)) (hB : ∀ x ∈ B, x ∈ A ∨ x = n) : AncOK src lvl B ci := by
  intro x hx
  have hle := stratKey_le hsk hc0
  rcases hB x hx with hxA | rfl
  · obtain ⟨h1, h2, _⟩ := hA x hxA
    rw [Int.natAbs_natCast] at h2
    exact ⟨h1, Nat.le_trans hle h2, fun hneg hcc => Nat.lt_of_lt_of_le (stratKey_lt hsk hneg hcc) h2⟩
  · exact ⟨hcomp, hle, fun hneg hcc => stratKey_lt hsk hneg hcc⟩

theorem compound_valid {src : Store} {lvl : Nat → Nat} (hst : Stratified src lvl) {α : Nat → Bool} {fuel : Nat}
    (ih : NodeIH src lvl α fuel) {st : BC} {n : Nat} {negative : Bool} {kind : Kind} {children : List Key}
    {name : Option Name} {anc : List Nat} {isEv : Bool} {r : Res} (hw : WF st.target)
    (htr : TransOK src lvl α st.target st.trans) (hn0 : 0 < n) (hanc : AncOK src lvl anc (n : Int))
    (hn : src.nodes[n - 1]? = some (kind.mk children name))
    (h : breakCompound src none fuel st n negative kind children name (anc ++ [n]) isEv = .ok r) :
    Step st.target r.st.target ∧ TransOK src lvl α r.st.target r.st.trans ∧
    ∃ k0, r.key = (if negative = true then negate k0 else k0) ∧ keyBelow r.st.target.nodes.length k0 ∧
      ∀ ρ, Consistent r.st.target ρ → Carries src r.st.target α ρ →
        Up src α ρ (n : Int) k0 ∧
        Low src lvl α ρ (n : Int) k0 (fun A => (∀ x, x ∈ A ↔ x ∈ anc) ∨ ∀ x ∈ r.cb, x ∈ A ∨ x = n) := by
  obtain ⟨st1, keys, ccb, ccontent, nn, t', k, hch, hadd, rfl⟩ := compound_unfold h
  have hstrat : ∀ c ∈ children, stratKey src lvl n c = true := by
    cases kind
    · exact strat_conj hst hn0 hn
    · exact strat_disj hst hn0 hn
  have hcomp : IsCompound src n := by
    cases kind
    · exact Or.inl ⟨_, _, hn⟩
    · exact Or.inr ⟨_, _, hn⟩
  obtain ⟨hs1, htr1, _, ks, hkeys, hrel⟩ := children_valid ih children st [] [] [] st1 keys ccb ccontent hw htr
    (fun c hc hc0 => ancOK_child (hstrat _ hc) hc0 hcomp hanc (fun x hx => by
      rcases List.mem_append.1 hx with h | h
      · exact Or.inl h
      · exact Or.inr (by simpa using h))) hch
  simp only [List.nil_append] at hkeys
  subst hkeys
  have hwT1 := hs1.1 hw
  have hkb1 : ∀ k ∈ keys, keyBelow st1.target.nodes.length k := by
    intro k hk
    obtain ⟨c, _, ci, _, hkb, _⟩ := forall2_mem_right hrel k hk
    exact hkb
  obtain ⟨hstep2, hkb⟩ := addCompound_step hwT1 hkb1 hadd
  have hrel' := forall2_mem_left hrel
  have hsemk : ∀ ρ, Consistent t' ρ → Carries src t' α ρ →
      Up src α ρ (n : Int) k ∧
      Low src lvl α ρ (n : Int) k (fun A => (∀ x, x ∈ A ↔ x ∈ anc) ∨ ∀ x ∈ ccb, x ∈ A ∨ x = n) := by
    intro ρ hc hcar
    have hc1 := hstep2.2.1.consistent hc
    have hcar1 := Carries.mono hstep2 hcar
    have hsem := (addCompound_cres _ _ _ _ _ _ _ _ _ hadd).sem hwT1 ρ hc
    have hn1 : ¬ ((n : Int) = 0) := by omega
    have hn2 : ¬ ((n : Int) < 0) := by omega
    -- the argument for one child, lower bound
    have lowc : ∀ (A : List Nat) (f : Nat), ((∀ x, x ∈ A ↔ x ∈ anc) ∨ ∀ x ∈ ccb, x ∈ A ∨ x = n) →
        AncOK src lvl A (n : Int) → n ∉ A → free src (n :: A) < f → ∀ c k', (c ∈ children ∧
          ChildRel src lvl α st1.target (anc ++ [n]) ccb c k') →
          cutEval src α f (n :: A) c = true → keyVal ρ k' = true := by
      intro A f hadm hA hnA hf c k' hR hp
      obtain ⟨hmem, ci, rfl, _, hs⟩ := hR
      refine (hs ρ hc1 hcar1).2 (n :: A) f ?_ (fun hci0 => ancOK_child (hstrat _ hmem) hci0 hcomp hA
        (fun x hx => by
          rcases List.mem_cons.1 hx with h | h
          · exact Or.inr h
          · exact Or.inl h)) hf hp
      rcases hadm with hadm | hadm
      · left
        intro x
        rw [mem_snoc_iff_cons, List.mem_cons, List.mem_cons, hadm x]
      · right
        intro x hx
        rcases hadm x hx with h | h
        · exact List.mem_cons_of_mem _ h
        · rw [h]; exact List.mem_cons_self
    refine ⟨fun hk => ?_, fun A f hadm hA hf hcut => ?_⟩
    · rw [hsem] at hk
      cases kind with
      | conj =>
        rw [Pv_conj hst α hn0 hn]
        exact forall2_all' hrel (p := Pv src α) (q := keyVal ρ) (fun c k' hR hq => by
          obtain ⟨ci, rfl, _, hs⟩ := hR
          exact (hs ρ hc1 hcar1).1 hq) hk
      | disj =>
        rw [Pv_disj hst α hn0 hn]
        exact forall2_any' hrel (p := Pv src α) (q := keyVal ρ) (fun c k' hR hq => by
          obtain ⟨ci, rfl, _, hs⟩ := hR
          exact (hs ρ hc1 hcar1).1 hq) hk
    · cases f with
      | zero => omega
      | succ f =>
        rw [cutEval_succ] at hcut
        simp only [hn1, ↓reduceIte, Int.natAbs_natCast, hn2] at hcut
        rw [hsem]
        by_cases hcA : A.contains n = true
        · exfalso
          cases kind with
          | conj =>
            have hn' : src.nodes[n - 1]? = some (.conj children name) := hn
            simp only [hn', hcA, ↓reduceIte] at hcut
            cases hcut
          | disj =>
            have hn' : src.nodes[n - 1]? = some (.disj children name) := hn
            simp only [hn', hcA, ↓reduceIte] at hcut
            cases hcut
        · have hnA : n ∉ A := fun hm => hcA (List.contains_iff_mem.2 hm)
          have hfree : free src (n :: A) < f := by
            have := free_cons_lt src A n hn0 (lt_length_of_get hn) hnA; omega
          cases kind with
          | conj =>
            have hn' : src.nodes[n - 1]? = some (.conj children name) := hn
            simp only [hn', hcA, Bool.false_eq_true, ↓reduceIte] at hcut
            exact forall2_all hrel' (p := fun c => cutEval src α f (n :: A) c) (q := keyVal ρ)
              (lowc A f hadm hA hnA hfree) hcut
          | disj =>
            have hn' : src.nodes[n - 1]? = some (.disj children name) := hn
            simp only [hn', hcA, Bool.false_eq_true, ↓reduceIte] at hcut
            exact forall2_any hrel' (p := fun c => cutEval src α f (n :: A) c) (q := keyVal ρ)
              (lowc A f hadm hA hnA hfree) hcut
  refine ⟨hs1.trans hstep2, ?_, k, rfl, hkb, hsemk⟩
  exact (htr1.mono hstep2).append ⟨hkb, fun ρ hc hcar =>
    ⟨(hsemk ρ hc hcar).1, fun A f hadm => (hsemk ρ hc hcar).2 A f (Or.inr hadm)⟩⟩

end ProbLogProofs.Unroll
