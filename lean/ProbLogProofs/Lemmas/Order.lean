import ProbLogModel.Order
/-!
Lemmas for C15: laws of three-way comparators, of the lexicographic combination, of `stdCore`.
-/
set_option linter.unusedSimpArgs false
set_option linter.unusedVariables false
namespace ProbLogProofs.OrderLemmas
open ProbLogModel ProbLogModel.Order Term

/-- A three-way comparison that is a strict total order with `.eq` = equality. -/
structure Lawful {α : Type} (c : α → α → Ordering) : Prop where
  refl : ∀ a, c a a = .eq
  eq : ∀ a b, c a b = .eq → a = b
  swap : ∀ a b, c b a = (c a b).swap
  trans : ∀ a b d, c a b = .lt → c b d = .lt → c a d = .lt

theorem lawful_of_std {α : Type} (c : α → α → Ordering) [Std.TransCmp c] [Std.LawfulEqCmp c] : Lawful c where
  refl _ := Std.ReflCmp.compare_self
  eq _ _ h := Std.LawfulEqCmp.eq_of_compare h
  swap _ _ := Std.OrientedCmp.eq_swap
  trans _ _ _ h1 h2 := Std.TransCmp.lt_trans h1 h2

theorem lawInt : Lawful (compare : Int → Int → Ordering) := lawful_of_std _
theorem lawNat : Lawful (compare : Nat → Nat → Ordering) := lawful_of_std _
theorem lawString : Lawful (compare : String → String → Ordering) := lawful_of_std _

theorem cmpRat_lt {a b : Rat} : cmpRat a b = .lt ↔ a < b := by
  unfold cmpRat; split <;> simp_all; split <;> simp
theorem cmpRat_gt {a b : Rat} : cmpRat a b = .gt ↔ b < a := by
  unfold cmpRat; split
  · simp; grind
  · split <;> simp_all
theorem cmpRat_eq_iff {a b : Rat} : cmpRat a b = .eq ↔ a = b := by
  unfold cmpRat; split
  · simp; grind
  · split
    · simp; grind
    · simp; grind

theorem lawRat : Lawful cmpRat where
  refl a := cmpRat_eq_iff.mpr rfl
  eq _ _ h := cmpRat_eq_iff.mp h
  swap a b := by
    cases h : cmpRat a b
    · rw [cmpRat_lt] at h; simp [cmpRat_gt.mpr h]
    · rw [cmpRat_eq_iff] at h; subst h; simp [cmpRat_eq_iff.mpr rfl]
    · rw [cmpRat_gt] at h; simp [cmpRat_lt.mpr h]
  trans a b d h1 h2 := by
    rw [cmpRat_lt] at *; grind

/-- `swap` gives the `.gt` view. -/
theorem Lawful.gt_iff {α : Type} {c : α → α → Ordering} (L : Lawful c) {a b : α} : c a b = .gt ↔ c b a = .lt := by
  rw [L.swap a b]; cases c a b <;> simp

/-- Lexicographic combination of two lawful comparisons on a pair. -/
theorem lawLex {α β : Type} {c1 : α → α → Ordering} {c2 : β → β → Ordering} (L1 : Lawful c1) (L2 : Lawful c2) :
    Lawful (fun (x y : α × β) => (c1 x.1 y.1).then (c2 x.2 y.2)) where
  refl a := by simp [L1.refl, L2.refl]
  eq a b h := by
    rw [Ordering.then_eq_eq] at h
    exact Prod.ext (L1.eq _ _ h.1) (L2.eq _ _ h.2)
  swap a b := by
    simp only [L1.swap a.1 b.1, L2.swap a.2 b.2, Ordering.swap_then]
  trans a b d h1 h2 := by
    simp only [Ordering.then_eq_lt] at *
    rcases h1 with h1 | ⟨e1, h1⟩ <;> rcases h2 with h2 | ⟨e2, h2⟩
    · exact Or.inl (L1.trans _ _ _ h1 h2)
    · have := L1.eq _ _ e2; rw [← this]; exact Or.inl h1
    · have := L1.eq _ _ e1; rw [this]; exact Or.inl h2
    · have a1 := L1.eq _ _ e1; have a2 := L1.eq _ _ e2
      refine Or.inr ⟨?_, L2.trans _ _ _ h1 h2⟩
      rw [a1, ← a2]; exact L1.refl _

theorem lawStdNum : Lawful stdNum := lawLex lawRat lawNat

/-! ## `stdCore` -/

theorem stdCore_app (f g : String) (as bs : List Term) :
    stdCore (.app f as) (.app g bs) = (compare as.length bs.length).then ((compare f g).then (stdCoreArgs as bs)) := by
  simp [stdCore]

mutual
theorem stdCore_refl : ∀ a, stdCore a a = .eq
  | .app f as => by rw [stdCore_app]; simp [lawNat.refl, lawString.refl, stdCoreArgs_refl as]
  | .var n => by simp [stdCore, stdFlat, lawInt.refl]
  | .int n => by simp [stdCore, stdFlat, stdNumKey, lawStdNum.refl]
  | .float n => by simp [stdCore, stdFlat, stdNumKey, lawStdNum.refl]
  | .str n => by simp [stdCore, stdFlat, lawString.refl]
theorem stdCoreArgs_refl : ∀ as, stdCoreArgs as as = .eq
  | [] => by simp [stdCoreArgs]
  | a :: as => by simp [stdCoreArgs, stdCore_refl a, stdCoreArgs_refl as]
end


theorem stdNum_eq {ka kb : Rat × Nat} (h : stdNum ka kb = .eq) : ka = kb := lawStdNum.eq _ _ h

mutual
theorem stdCore_eq : ∀ a b, stdCore a b = .eq → a = b
  | .app f as, .app g bs, h => by
    rw [stdCore_app] at h
    simp only [Ordering.then_eq_eq] at h
    rw [lawString.eq _ _ h.2.1, stdCoreArgs_eq as bs h.2.2]
  | .var _, b, h | .int _, b, h | .float _, b, h | .str _, b, h => by
    cases b <;> simp [stdCore, stdFlat, stdNumKey, rank] at h ⊢
    all_goals first | exact h | (have := stdNum_eq h; simp at this; try exact this)
  | .app _ _, .var _, h | .app _ _, .int _, h | .app _ _, .float _, h | .app _ _, .str _, h => by
    simp [stdCore, stdFlat, stdNumKey, rank] at h
theorem stdCoreArgs_eq : ∀ as bs, stdCoreArgs as bs = .eq → as = bs
  | [], [], _ => rfl
  | [], _ :: _, h => by simp [stdCoreArgs] at h
  | _ :: _, [], h => by simp [stdCoreArgs] at h
  | a :: as, b :: bs, h => by
    simp only [stdCoreArgs, Ordering.then_eq_eq] at h
    rw [stdCore_eq a b h.1, stdCoreArgs_eq as bs h.2]
end

theorem stdNum_swap (ka kb : Rat × Nat) : stdNum kb ka = (stdNum ka kb).swap := lawStdNum.swap _ _

mutual
theorem stdCore_swap : ∀ a b, stdCore b a = (stdCore a b).swap
  | .app f as, .app g bs => by
    rw [stdCore_app, stdCore_app, Ordering.swap_then, Ordering.swap_then, ← lawNat.swap, ← lawString.swap,
      ← stdCoreArgs_swap as bs]
  | .var _, b | .int _, b | .float _, b | .str _, b => by
    cases b <;> simp [stdCore, stdFlat, stdNumKey, rank]
    all_goals first | exact lawInt.swap _ _ | exact lawString.swap _ _ | exact stdNum_swap _ _ | exact lawNat.swap _ _
  | .app _ _, .var _ | .app _ _, .int _ | .app _ _, .float _ | .app _ _, .str _ => by
    simp [stdCore, stdFlat, stdNumKey, rank]; exact lawNat.swap _ _
theorem stdCoreArgs_swap : ∀ as bs, stdCoreArgs bs as = (stdCoreArgs as bs).swap
  | [], [] => rfl
  | [], _ :: _ => by simp [stdCoreArgs]
  | _ :: _, [] => by simp [stdCoreArgs]
  | a :: as, b :: bs => by
    simp only [stdCoreArgs, Ordering.swap_then, ← stdCore_swap a b, ← stdCoreArgs_swap as bs]
end

theorem stdNum_trans {ka kb kc : Rat × Nat} (h1 : stdNum ka kb = .lt) (h2 : stdNum kb kc = .lt) : stdNum ka kc = .lt :=
  lawStdNum.trans _ _ _ h1 h2

/-- Lexicographic step shared by the compound case and the argument lists. -/
theorem then_trans {o1 o2 o3 p1 p2 p3 : Ordering}
    (t1 : o1 = .lt → o2 = .lt → o3 = .lt) (e12 : o1 = .eq → o3 = o2) (e23 : o2 = .eq → o3 = o1)
    (tp : o1 = .eq → o2 = .eq → p1 = .lt → p2 = .lt → p3 = .lt)
    (h1 : o1.then p1 = .lt) (h2 : o2.then p2 = .lt) : o3.then p3 = .lt := by
  simp only [Ordering.then_eq_lt] at *
  rcases h1 with h1 | ⟨e1, h1⟩ <;> rcases h2 with h2 | ⟨e2, h2⟩
  · exact Or.inl (t1 h1 h2)
  · exact Or.inl (by rw [e23 e2]; exact h1)
  · exact Or.inl (by rw [e12 e1]; exact h2)
  · exact Or.inr ⟨by rw [e12 e1]; exact e2, tp e1 e2 h1 h2⟩

theorem Lawful.then_trans {α : Type} {c : α → α → Ordering} (L : Lawful c) {a b d : α} {p1 p2 p3 : Ordering}
    (tp : a = b → b = d → p1 = .lt → p2 = .lt → p3 = .lt)
    (h1 : (c a b).then p1 = .lt) (h2 : (c b d).then p2 = .lt) : (c a d).then p3 = .lt :=
  ProbLogProofs.OrderLemmas.then_trans (L.trans a b d)
    (fun e => by rw [L.eq _ _ e]) (fun e => by rw [L.eq _ _ e])
    (fun e1 e2 => tp (L.eq _ _ e1) (L.eq _ _ e2)) h1 h2

mutual
theorem stdCore_trans : ∀ a b c, stdCore a b = .lt → stdCore b c = .lt → stdCore a c = .lt
  | .app f as, .app g bs, .app h cs, h1, h2 => by
    rw [stdCore_app] at *
    refine lawNat.then_trans (fun _ _ => ?_) h1 h2
    intro h1 h2
    refine lawString.then_trans (fun _ _ => ?_) h1 h2
    exact stdCoreArgs_trans as bs cs
  | .app f as, .app g bs, .var _, h1, h2 | .app f as, .app g bs, .int _, h1, h2
  | .app f as, .app g bs, .float _, h1, h2 | .app f as, .app g bs, .str _, h1, h2 => by
    simp [stdCore, stdFlat, stdNumKey, rank, Nat.compare_eq_lt] at h2
  | .app f as, .var _, c, h1, h2 | .app f as, .int _, c, h1, h2
  | .app f as, .float _, c, h1, h2 | .app f as, .str _, c, h1, h2 => by
    simp [stdCore, stdFlat, stdNumKey, rank, Nat.compare_eq_lt] at h1
  | .var _, b, c, h1, h2 | .int _, b, c, h1, h2 | .float _, b, c, h1, h2 | .str _, b, c, h1, h2 => by
    cases b <;> cases c <;> simp [stdCore, stdFlat, stdNumKey, rank, Nat.compare_eq_lt] at h1 h2 ⊢
    all_goals first
      | exact lawInt.trans _ _ _ h1 h2
      | exact lawString.trans _ _ _ h1 h2
      | exact stdNum_trans h1 h2
      | omega
theorem stdCoreArgs_trans : ∀ as bs cs, stdCoreArgs as bs = .lt → stdCoreArgs bs cs = .lt → stdCoreArgs as cs = .lt
  | [], [], _, h1, _ => by simp [stdCoreArgs] at h1
  | [], _ :: _, [], _, h2 => by simp [stdCoreArgs] at h2
  | [], _ :: _, _ :: _, _, _ => by simp [stdCoreArgs]
  | _ :: _, [], _, h1, _ => by simp [stdCoreArgs] at h1
  | _ :: _, _ :: _, [], _, h2 => by simp [stdCoreArgs] at h2
  | a :: as, b :: bs, c :: cs, h1, h2 => by
    simp only [stdCoreArgs] at *
    exact then_trans (stdCore_trans a b c)
      (fun e => by rw [stdCore_eq _ _ e]) (fun e => by rw [stdCore_eq _ _ e])
      (fun _ _ => stdCoreArgs_trans as bs cs) h1 h2
end

theorem lawStdCore : Lawful stdCore where
  refl := stdCore_refl
  eq := stdCore_eq
  swap := stdCore_swap
  trans := stdCore_trans

/-! ## `structCmp` (the patched code) against the specification -/

theorem unq_app (f : String) (as : List Term) : unq (.app f as) = .app (unquoteName f) (mapFunctorList unquoteName as) := by
  simp [unq, mapFunctor]

theorem mapFunctorList_length (g : String → String) : ∀ as : List Term, (mapFunctorList g as).length = as.length
  | [] => by simp [mapFunctorList]
  | a :: as => by simp [mapFunctorList, mapFunctorList_length g as]

theorem cmpNum_eq_stdNum (ka kb : Rat × Nat) (ha : ka.2 ≤ 1) (hb : kb.2 ≤ 1) : cmpNum ka kb = stdNum ka kb := by
  obtain ⟨va, ta⟩ := ka; obtain ⟨vb, tb⟩ := kb
  simp only [cmpNum, stdNum] at *
  cases h : cmpRat va vb <;> simp
  have : ta = 0 ∨ ta = 1 := by omega
  have : tb = 0 ∨ tb = 1 := by omega
  rcases ‹ta = 0 ∨ ta = 1› with rfl | rfl <;> rcases ‹tb = 0 ∨ tb = 1› with rfl | rfl <;> simp <;> rfl

theorem numKey_kind (t : Term) (k : Rat × Nat) (h : numKey t = some k) : k.2 ≤ 1 := by
  unfold numKey at h
  split at h <;> simp at h
  · subst h; simp
  · subst h; simp
  · obtain ⟨_, rfl⟩ := h; simp
  · obtain ⟨_, rfl⟩ := h; simp

theorem then_congr_right {o p q : Ordering} (h : o = .eq → p = q) : o.then p = o.then q := by
  cases o <;> simp_all

end ProbLogProofs.OrderLemmas
