import ProbLogProofs.Lemmas.FormulaOps
/-!
# C11 helper lemmas (4): `add_disjunct` (in-place update of a mutable disjunction, `max_arity` split)
-/
namespace ProbLogModel.Formula

theorem set_self_of_get {α} (l : List α) (j : Nat) (a : α) (h : l[j]? = some a) : l.set j a = l := by
  induction l generalizing j with
  | nil => rfl
  | cons b l ih =>
    cases j with
    | zero => simp only [List.getElem?_cons_zero, Option.some.injEq] at h; subst h; rfl
    | succ j => simp only [List.getElem?_cons_succ] at h; simp only [List.set, ih j h]

theorem lt_of_get {α} {l : List α} {j : Nat} {a : α} (h : l[j]? = some a) : j < l.length := by
  rcases Nat.lt_or_ge j l.length with hlt | hge
  · exact hlt
  · rw [List.getElem?_eq_none hge] at h; cases h

/-- Replacing the child list of a disjunction that no index entry points to keeps the invariant. -/
theorem WF.update_disj {S : Store} (hw : WF S) (n : Nat) (hn : 1 ≤ n) (ch newch : List Key) (nm : Option Name)
    (hj : S.nodes[n - 1]? = some (Node.disj ch nm)) (hmut : ∀ cs, lookup S.idxDisj cs ≠ some n) :
    WF (S.update n (Node.disj newch nm)) := by
  refine ⟨fun cs i hl => ?_, fun cs i hl => ?_, fun id i hl => ?_⟩
  · obtain ⟨h1, nm', h2⟩ := hw.conj cs i hl
    refine ⟨h1, nm', ?_⟩
    have hne : n - 1 ≠ i - 1 := by
      intro heq; rw [heq, h2] at hj; cases hj
    show (S.nodes.set (n - 1) _)[i - 1]? = _
    rw [List.getElem?_set_ne hne]; exact h2
  · obtain ⟨h1, nm', h2⟩ := hw.disj cs i hl
    refine ⟨h1, nm', ?_⟩
    have hne : n - 1 ≠ i - 1 := by
      intro heq
      have : i = n := by omega
      subst this
      exact hmut cs hl
    show (S.nodes.set (n - 1) _)[i - 1]? = _
    rw [List.getElem?_set_ne hne]; exact h2
  · obtain ⟨h1, g, e, nm', h2⟩ := hw.atom id i hl
    refine ⟨h1, g, e, nm', ?_⟩
    have hne : n - 1 ≠ i - 1 := by
      intro heq; rw [heq, h2] at hj; cases hj
    show (S.nodes.set (n - 1) _)[i - 1]? = _
    rw [List.getElem?_set_ne hne]; exact h2

/-- What `add_disjunct` needs to know about the inner `add_or(children)` call (no name given). -/
structure InnerOr (S : Store) (children : List Key) (S1 : Store) (child : Key) : Prop where
  wf : WF S → WF S1
  opts : S1.opts = S.opts
  nodes : ∃ ext : List Node, ext.length ≤ 1 ∧ S1.nodes = S.nodes ++ ext
  idx : ∀ cs j, lookup S1.idxDisj cs = some j → lookup S.idxDisj cs = some j ∨ j = S.nodes.length + 1
  sem : (∀ ρ, keyVal ρ child = children.any (keyVal ρ)) ∨
    ∃ (i : Nat) (c2 : List Key) (nm' : Option Name), child = some (i : Int) ∧ 1 ≤ i ∧
      S1.nodes[i - 1]? = some (Node.disj c2 nm') ∧ (∀ ρ, c2.any (keyVal ρ) = children.any (keyVal ρ)) ∧
      (i = S.nodes.length + 1 ∨ lookup S.idxDisj c2 = some i)

theorem innerOr_of_cres {S : Store} {children : List Key} {S1 : Store} {child : Key}
    (hw : WF S)
    (h : CRes S .disj children none S1 child) : InnerOr S children S1 child := by
  cases h with
  | const h1 h2 _ =>
    subst h1
    exact ⟨id, rfl, ⟨[], by simp, by simp⟩, fun cs j hl => Or.inl hl, Or.inl h2⟩
  | named n h1 _ _ _ => cases h1
  | reuse i c2 h1 h2 h3 h4 =>
    subst h1
    obtain ⟨hi, nm', hn⟩ := hw.disj c2 i h3
    exact ⟨id, rfl, ⟨[], by simp, by simp⟩, fun cs j hl => Or.inl hl,
      Or.inr ⟨i, c2, nm', h2, hi, hn, h4, Or.inr h3⟩⟩
  | fresh c2 h1 hf h4 _ =>
    refine ⟨hf.wf, hf.opts, ⟨[Node.disj c2 none], by simp, hf.nodes⟩, fun cs j hl => ?_,
      Or.inr ⟨S.nodes.length + 1, c2, none, h1, by omega, hf.get, h4, Or.inl rfl⟩⟩
    rcases hf.disj with hd | ⟨_, _, hd⟩
    · rw [hd] at hl; exact Or.inl hl
    · rw [hd, lookup_append] at hl
      cases hl' : lookup S.idxDisj cs with
      | some v => rw [hl'] at hl; simp only [Option.some.injEq] at hl; subst hl; exact Or.inl rfl
      | none =>
        rw [hl'] at hl
        simp only at hl
        split at hl
        · simp only [Option.some.injEq] at hl; exact Or.inr hl.symm
        · cases hl

/-- Outcome of `add_disjunct` on the mutable disjunction `n`. -/
structure DisjRes (S : Store) (n : Nat) (children : List Key) (nm : Option Name) (comp : Key) (S' : Store) :
    Prop where
  wf : WF S'
  sem : ∀ ρ, Consistent S' ρ → ρ n = (children.any (keyVal ρ) || keyVal ρ comp)
  nodes : ∃ (ext : List Node) (newch : List Key), ext.length ≤ 1 ∧
    S'.nodes = (S.nodes ++ ext).set (n - 1) (Node.disj newch nm)
  notIdx : ∀ cs, lookup S'.idxDisj cs ≠ some n
  opts : S'.opts = S.opts

theorem update_sem {S' : Store} {L : List Node} {n : Nat} (hn : 1 ≤ n) {newch : List Key} {nm : Option Name}
    (hS : S'.nodes = L.set (n - 1) (Node.disj newch nm)) (hlt : n - 1 < L.length) {ρ : Nat → Bool}
    (hc : Consistent S' ρ) : ρ n = newch.any (keyVal ρ) := by
  have : S'.nodes[n - 1]? = some (Node.disj newch nm) := by
    rw [hS, List.getElem?_set_self hlt]
  have h := (hc (n - 1)).2 newch nm this
  rwa [Nat.sub_add_cancel hn] at h

theorem addDisjunct_nat (S : Store) (n : Nat) (hn : 1 ≤ n) (children : List Key) (nm : Option Name)
    (comp : Key) (S' : Store) (r : Key) (hw : WF S)
    (hnode : S.nodes[n - 1]? = some (Node.disj children nm))
    (hmut : ∀ cs, lookup S.idxDisj cs ≠ some n)
    (h : S.addDisjunct (some (n : Int)) comp = .ok (S', r)) :
    r = some (n : Int) ∧ DisjRes S n children nm comp S' := by
  have hlt : n - 1 < S.nodes.length := lt_of_get hnode
  unfold Store.addDisjunct at h
  have h1 : isTrue (some (n : Int)) = false := by
    simp only [isTrue, beq_eq_false_iff_ne, ne_eq, Option.some.injEq]; omega
  have h2 : isFalse (some (n : Int)) = false := by simp [isFalse]
  have h3 : ¬ ((n : Int) ≤ 0) := by omega
  have h4 : S.getNode? (n : Int) = some (Node.disj children nm) := by
    unfold Store.getNode?; rw [Int.natAbs_natCast]; exact hnode
  simp only [h1, h2, Bool.false_eq_true, if_false, h3, h4, Int.natAbs_natCast] at h
  have hself : S.nodes = (S.nodes ++ []).set (n - 1) (Node.disj children nm) := by
    rw [List.append_nil, set_self_of_get _ _ _ hnode]
  have hsemS : ∀ ρ, Consistent S ρ → ρ n = children.any (keyVal ρ) := fun ρ hc => by
    have h := (hc (n - 1)).2 children nm hnode
    rwa [Nat.sub_add_cancel hn] at h
  split at h
  · -- component FALSE
    simp only [Except.ok.injEq, Prod.mk.injEq] at h
    obtain ⟨rfl, rfl⟩ := h
    exact ⟨rfl, hw, fun ρ hc => by rw [hsemS ρ hc]; simp [keyVal], ⟨[], children, by simp, hself⟩, hmut, rfl⟩
  · -- component TRUE
    simp only [Except.ok.injEq, Prod.mk.injEq] at h
    obtain ⟨rfl, rfl⟩ := h
    refine ⟨rfl, hw.update_disj n hn children _ nm hnode hmut, fun ρ hc => ?_,
      ⟨[], [some 0], by simp, by simp [Store.update]⟩, hmut, rfl⟩
    rw [update_sem hn (L := S.nodes) rfl hlt hc]
    simp [keyVal]
  · rename_i c hc0
    split at h
    · -- already a child
      rename_i hcont
      simp only [Except.ok.injEq, Prod.mk.injEq] at h
      obtain ⟨rfl, rfl⟩ := h
      refine ⟨rfl, hw, fun ρ hc => ?_, ⟨[], children, by simp, hself⟩, hmut, rfl⟩
      rw [hsemS ρ hc]
      simp only [Bool.and_eq_true, List.contains_eq_mem, decide_eq_true_eq] at hcont
      cases hv : keyVal ρ (some c)
      · simp
      · have : children.any (keyVal ρ) = true := List.any_eq_true.2 ⟨some c, hcont.1, hv⟩
        simp [this]
    · split at h
      · -- max_arity split
        generalize hr : S.addOr children = res at h
        cases res with
        | error e => simp at h
        | ok p =>
          obtain ⟨S1, child⟩ := p
          simp only [Except.ok.injEq, Prod.mk.injEq] at h
          obtain ⟨rfl, rfl⟩ := h
          unfold Store.addOr at hr
          have hI := innerOr_of_cres hw (addCompound_cres _ _ _ _ _ _ _ _ _ hr)
          obtain ⟨ext, hext, hnodes⟩ := hI.nodes
          have hnode1 : S1.nodes[n - 1]? = some (Node.disj children nm) := by
            rw [hnodes, List.getElem?_append_left hlt]; exact hnode
          have hlt1 : n - 1 < S1.nodes.length := lt_of_get hnode1
          have hmut1 : ∀ cs, lookup S1.idxDisj cs ≠ some n := by
            intro cs hl
            rcases hI.idx cs n hl with h' | h'
            · exact hmut cs h'
            · omega
          refine ⟨rfl, (hI.wf hw).update_disj n hn children _ nm hnode1 hmut1, fun ρ hc => ?_,
            ⟨ext, [child, some c], hext, by simp [Store.update, hnodes]⟩, hmut1, hI.opts⟩
          rw [update_sem hn (L := S1.nodes) rfl hlt1 hc]
          simp only [List.any_cons, List.any_nil, Bool.or_false]
          congr 1
          rcases hI.sem with hs | ⟨i, c2, nm', rfl, hi, hget, hc2, hwhere⟩
          · exact hs ρ
          · have hne : n - 1 ≠ i - 1 := by
              rcases hwhere with rfl | hl
              · omega
              · intro heq
                have : i = n := by omega
                subst this
                exact hmut c2 hl
            have hget' : (S1.update n (Node.disj [some (i : Int), some c] nm)).nodes[i - 1]? =
                some (Node.disj c2 nm') := by
              show (S1.nodes.set (n - 1) _)[i - 1]? = _
              rw [List.getElem?_set_ne hne]; exact hget
            have h := (hc (i - 1)).2 c2 nm' hget'
            rw [Nat.sub_add_cancel hi] at h
            rw [keyVal_pos ρ i hi, h, hc2 ρ]
      · -- plain append
        simp only [Except.ok.injEq, Prod.mk.injEq] at h
        obtain ⟨rfl, rfl⟩ := h
        refine ⟨rfl, hw.update_disj n hn children _ nm hnode hmut, fun ρ hc => ?_,
          ⟨[], children ++ [some c], by simp, by simp [Store.update]⟩, hmut, rfl⟩
        rw [update_sem hn (L := S.nodes) rfl hlt hc]
        simp

end ProbLogModel.Formula
