import ProbLogModel.CyclesSimple
import ProbLogProofs.Lemmas.FormulaAtom
import ProbLogProofs.Lemmas.CyclesStrat
/-!
Helper lemmas for C09Unroll (1): builder steps as `Step`s, the atom case, unfolding of `breakSimpleNode`, signs,
ancestor lists as sets.
-/
namespace ProbLogProofs.Unroll
open ProbLogModel.Formula ProbLogModel.Cycles ProbLogProofs.Cycles

/-! ### builder steps -/

theorem CRes.idxAtom {S kind content name S' k} (h : CRes S kind content name S' k) : S'.idxAtom = S.idxAtom := by
  cases h with
  | const h1 _ _ => subst h1; rfl
  | named n _ h2 _ _ => subst h2; exact (addName_spec _ _ _ _ _).2.2.2.1
  | reuse i c2 h1 _ _ _ => subst h1; rfl
  | fresh c2 _ hf _ _ => exact hf.atom

/-- `_add_compound` on keys that exist is a `Step`, and returns a key that exists. -/
theorem addCompound_step {S S' : Store} {kind : Kind} {content : List Key} {readonly : Bool} {name : Option Name}
    {placeholder : Bool} {compact : Option Bool} {k : Key} (hw : WF S)
    (hcontent : ∀ c ∈ content, keyBelow S.nodes.length c)
    (h : addCompound S kind content readonly name placeholder compact = .ok (S', k)) :
    Step S S' ∧ keyBelow S'.nodes.length k := by
  have hc := addCompound_cres _ _ _ _ _ _ _ _ _ h
  exact ⟨⟨fun hw => hc.wf hw, hc.grows, fun id v hl => by rw [CRes.idxAtom hc]; exact hl,
    fun ha => hc.acyclic ha hcontent⟩, hc.key_below hw hcontent⟩

theorem keyBelow_step {S S' : Store} (hs : Step S S') {k : Key} (h : keyBelow S.nodes.length k) :
    keyBelow S'.nodes.length k := by
  obtain ⟨ext, he⟩ := hs.2.1
  have := congrArg List.length he
  simp only [List.length_map, List.length_append] at this
  exact keyBelow_mono (by omega) h

theorem Carries.mono {src T T' : Store} {α ρ : Nat → Bool} (hs : Step T T') (h : Carries src T' α ρ) :
    Carries src T α ρ :=
  fun i id g e nm j hi hj => h i id g e nm j hi (hs.2.2.1 id j hj)

/-- The three outcomes of `add_atom` as `_break_cycles` calls it (`probability = node.probability`). -/
theorem addAtom_cases (S : Store) (ident : Ident) (w : Weight) (group : Option Nat) (name : Option Name)
    (crExtra isExtra : Bool) :
    ((S.addAtom ident (weightClass w) w group name crExtra isExtra) = (S, TRUE) ∧ w = .tt) ∨
    ((S.addAtom ident (weightClass w) w group name crExtra isExtra) = (S, FALSE) ∧ w = .ff) ∨
    AtomKey ident (S.addAtom ident (weightClass w) w group name crExtra isExtra) := by
  unfold Store.addAtom
  split
  · rename_i h1 _
    refine Or.inl ⟨rfl, ?_⟩
    cases w <;> simp [weightClass] at h1 ⊢
  · rename_i h1 _
    refine Or.inr (Or.inl ⟨rfl, ?_⟩)
    cases w <;> simp [weightClass] at h1 ⊢
  · rename_i h1
    cases w <;> simp [weightClass] at h1
  · rename_i h1
    cases w <;> simp [weightClass] at h1
  · exact Or.inr (Or.inr (addAtom_main S ident w group name crExtra isExtra).2)

/-! ### signs -/

theorem keyVal_sgn (ρ : Nat → Bool) (node : Int) (k : Key) :
    keyVal ρ (sgn node k) = if node < 0 then !(keyVal ρ k) else keyVal ρ k := by
  unfold sgn
  by_cases h : node < 0
  · simp only [h, ↓reduceIte]
    cases k with
    | none => rfl
    | some i =>
      by_cases h0 : i = 0
      · subst h0; rfl
      · have : negate (some i) = some (-i) := by unfold negate; split <;> simp_all
        rw [this, keyVal_neg ρ i h0]
  · simp only [h, ↓reduceIte]

theorem keyBelow_sgn (n : Nat) (node : Int) (k : Key) (h : keyBelow n k) : keyBelow n (sgn node k) := by
  unfold sgn
  split
  · exact keyBelow_negate n k h
  · exact h

/-! ### unfolding -/

theorem breakSimpleNode_succ (src : Store) (fuel : Nat) (T : Store) (node : Int) (anc : List Nat) :
    breakSimpleNode src (fuel + 1) T node anc =
      if node = 0 then .ok (T, some 0)
      else if anc.contains node.natAbs then .ok (T, none)
      else
        match src.nodes[node.natAbs - 1]? with
        | none => .error (.badNode node)
        | some (.atom ident group isExtra name) =>
          .ok ((T.addAtom ident (weightClass ((lookup src.weights node.natAbs).getD .neutral))
                ((lookup src.weights node.natAbs).getD .neutral) group name true isExtra).1,
               sgn node (T.addAtom ident (weightClass ((lookup src.weights node.natAbs).getD .neutral))
                ((lookup src.weights node.natAbs).getD .neutral) group name true isExtra).2)
        | some (.conj children name) =>
          finishCompound .conj node name
            (childrenWith (fun T c => breakSimpleNode src fuel T c (anc ++ [node.natAbs])) T children)
        | some (.disj children name) =>
          finishCompound .disj node name
            (childrenWith (fun T c => breakSimpleNode src fuel T c (anc ++ [node.natAbs])) T children) := by
  rfl

theorem finish_aux {node : Int} {r0 : Except Err (Store × Key)} {T' : Store} {k : Key}
    (h : (match r0 with
      | .error e => (Except.error (CErr.builder e) : Except CErr (Store × Key))
      | .ok (T', k) => .ok (T', sgn node k)) = .ok (T', k)) :
    ∃ k0, r0 = .ok (T', k0) ∧ k = sgn node k0 := by
  cases r0 with
  | error e => cases h
  | ok q =>
    obtain ⟨T2, k0⟩ := q
    simp only [Except.ok.injEq, Prod.mk.injEq] at h
    obtain ⟨rfl, rfl⟩ := h
    exact ⟨k0, rfl, rfl⟩

theorem finishCompound_ok {kind : Kind} {node : Int} {name : Option Name} {r : Except CErr (Store × List Key)}
    {T' : Store} {k : Key} (h : finishCompound kind node name r = .ok (T', k)) :
    ∃ T1 keys k0, r = .ok (T1, keys) ∧ addCompound T1 kind keys true name false none = .ok (T', k0) ∧
      k = sgn node k0 := by
  unfold finishCompound at h
  cases r with
  | error e => cases h
  | ok p =>
    obtain ⟨T1, keys⟩ := p
    cases kind with
    | conj =>
      obtain ⟨k0, h1, h2⟩ := finish_aux h
      exact ⟨T1, keys, k0, rfl, h1, h2⟩
    | disj =>
      obtain ⟨k0, h1, h2⟩ := finish_aux h
      exact ⟨T1, keys, k0, rfl, h1, h2⟩

/-! ### ancestor lists as sets -/

theorem free_congr (S : Store) {A B : List Nat} (h : ∀ x, x ∈ A ↔ x ∈ B) : free S A = free S B := by
  unfold free
  have : (fun j => !A.contains (j + 1)) = (fun j => !B.contains (j + 1)) := by
    funext j
    have : A.contains (j + 1) = B.contains (j + 1) := by
      rw [Bool.eq_iff_iff]; simp only [List.contains_iff_mem]; exact h _
    rw [this]
  rw [this]

theorem mem_snoc_iff_cons (A : List Nat) (i x : Nat) : x ∈ A ++ [i] ↔ x ∈ i :: A := by
  simp only [List.mem_append, List.mem_cons, List.not_mem_nil, or_false]
  exact Or.comm

/-- `cutEval` reads the ancestor list as a set. -/
theorem cutEval_anc_congr {S : Store} {α : Nat → Bool} :
    ∀ (f : Nat) (A B : List Nat) (k : Key), (∀ x, x ∈ A ↔ x ∈ B) → cutEval S α f A k = cutEval S α f B k := by
  intro f
  induction f with
  | zero => intro A B k _; cases k <;> rfl
  | succ f ih =>
    intro A B k hAB
    cases k with
    | none => rfl
    | some k =>
      rw [cutEval_succ, cutEval_succ]
      have hcont : A.contains k.natAbs = B.contains k.natAbs := by
        rw [Bool.eq_iff_iff]; simp only [List.contains_iff_mem]; exact hAB _
      have hch : ∀ c, cutEval S α f (k.natAbs :: A) c = cutEval S α f (k.natAbs :: B) c := fun c =>
        ih _ _ c (fun x => by simp only [List.mem_cons]; rw [hAB x])
      simp only [hcont, hch]

/-! ### list helpers -/

theorem all_of_map_eq {β γ} {l : List β} {l' : List γ} {f : β → Bool} {g : γ → Bool} (h : l.map f = l'.map g) :
    l.all f = l'.all g := by
  have := congrArg (fun x => List.all x id) h
  simpa [List.all_map] using this

theorem any_of_map_eq {β γ} {l : List β} {l' : List γ} {f : β → Bool} {g : γ → Bool} (h : l.map f = l'.map g) :
    l.any f = l'.any g := by
  have := congrArg (fun x => List.any x id) h
  simpa [List.any_map] using this

end ProbLogProofs.Unroll
