/-
Weighted model counts over subsets `T ⊆ V` (assignment "x is true iff x ∈ T") in an arbitrary commutative
semiring, and the three algebraic facts behind d-DNNF evaluation:
product over disjoint variable sets (decomposable AND, n-ary), sum over exclusive alternatives on the same
variable set (smooth deterministic OR), and a single literal.
-/
import Mathlib.Algebra.BigOperators.Ring.Finset
import Mathlib.Algebra.BigOperators.Group.Finset.Sigma
import Mathlib.Data.Finset.Powerset
import Mathlib.Data.Finset.Union

open Finset

namespace ProbLogProofs.DDNNF

variable {R : Type} [CommSemiring R]

/-- weight of the assignment `T` restricted to the variables `V`: `w x` for true, `w (-x)` for false variables -/
def wt (w : Int → R) (V T : Finset Nat) : R := ∏ x ∈ V, if x ∈ T then w (x : Int) else w (-(x : Int))

/-- weighted count of the assignments over `V` satisfying `φ` -/
def wmc (w : Int → R) (V : Finset Nat) (φ : Finset Nat → Bool) : R :=
  ∑ T ∈ V.powerset, if φ T = true then wt w V T else 0

/-- `φ` only looks at the variables in `V` -/
def DependsOn (φ : Finset Nat → Bool) (V : Finset Nat) : Prop := ∀ T, φ (T ∩ V) = φ T

theorem DependsOn.mono {φ : Finset Nat → Bool} {V U : Finset Nat} (h : DependsOn φ V) (hVU : V ⊆ U) :
    DependsOn φ U := by
  intro T
  rw [← h (T ∩ U), ← h T]
  congr 1
  ext x; simp only [mem_inter]
  constructor
  · rintro ⟨⟨h1, _⟩, h3⟩; exact ⟨h1, h3⟩
  · rintro ⟨h1, h3⟩; exact ⟨⟨h1, hVU h3⟩, h3⟩

theorem wt_union (w : Int → R) (A B T : Finset Nat) (h : Disjoint A B) :
    wt w (A ∪ B) T = wt w A T * wt w B T := by
  unfold wt; exact Finset.prod_union h

theorem wt_inter (w : Int → R) (A T : Finset Nat) : wt w A (T ∩ A) = wt w A T := by
  unfold wt
  apply Finset.prod_congr rfl
  intro v hv; simp [hv]

theorem union_inter_left {A B P Q : Finset Nat} (h : Disjoint A B) (h1 : P ⊆ A) (h2 : Q ⊆ B) :
    (P ∪ Q) ∩ A = P := by
  ext x; simp only [mem_inter, mem_union]
  constructor
  · rintro ⟨h' | h', hA⟩
    · exact h'
    · exact absurd hA (Finset.disjoint_right.mp h (h2 h'))
  · intro hx; exact ⟨Or.inl hx, h1 hx⟩

theorem union_inter_right {A B P Q : Finset Nat} (h : Disjoint A B) (h1 : P ⊆ A) (h2 : Q ⊆ B) :
    (P ∪ Q) ∩ B = Q := by
  ext x; simp only [mem_inter, mem_union]
  constructor
  · rintro ⟨h' | h', hB⟩
    · exact absurd hB (Finset.disjoint_left.mp h (h1 h'))
    · exact h'
  · intro hx; exact ⟨Or.inr hx, h2 hx⟩

/-- factorisation over a disjoint union -/
theorem wmc_and (w : Int → R) (A B : Finset Nat) (h : Disjoint A B) (f g : Finset Nat → Bool)
    (hf : DependsOn f A) (hg : DependsOn g B) :
    wmc w (A ∪ B) (fun T => f T && g T) = wmc w A f * wmc w B g := by
  unfold wmc
  rw [Finset.sum_mul_sum]
  rw [← Finset.sum_product']
  symm
  apply Finset.sum_bij' (fun p _ => p.1 ∪ p.2) (fun T _ => (T ∩ A, T ∩ B))
  · intro p hp
    simp only [mem_product, mem_powerset] at hp
    simp only [mem_powerset]
    exact Finset.union_subset_union hp.1 hp.2
  · intro T hT
    simp only [mem_product, mem_powerset]
    exact ⟨inter_subset_right, inter_subset_right⟩
  · intro p hp
    simp only [mem_product, mem_powerset] at hp
    obtain ⟨h1, h2⟩ := hp
    ext <;> simp [union_inter_left h h1 h2, union_inter_right h h1 h2]
  · intro T hT
    simp only [mem_powerset] at hT
    ext x; simp only [mem_union, mem_inter]
    constructor
    · rintro (⟨hx, _⟩ | ⟨hx, _⟩) <;> exact hx
    · intro hx
      have := hT hx
      simp only [mem_union] at this
      rcases this with hA | hB
      · exact Or.inl ⟨hx, hA⟩
      · exact Or.inr ⟨hx, hB⟩
  · intro p hp
    simp only [mem_product, mem_powerset] at hp
    obtain ⟨h1, h2⟩ := hp
    have e1 := union_inter_left h h1 h2
    have e2 := union_inter_right h h1 h2
    have hf' : f (p.1 ∪ p.2) = f p.1 := by rw [← hf (p.1 ∪ p.2), e1]
    have hg' : g (p.1 ∪ p.2) = g p.2 := by rw [← hg (p.1 ∪ p.2), e2]
    have hw : wt w (A ∪ B) (p.1 ∪ p.2) = wt w A p.1 * wt w B p.2 := by
      rw [wt_union _ _ _ _ h, ← wt_inter w A (p.1 ∪ p.2), ← wt_inter w B (p.1 ∪ p.2), e1, e2]
    show _ = if (f (p.1 ∪ p.2) && g (p.1 ∪ p.2)) = true then _ else _
    rw [hf', hg', hw]
    cases f p.1 <;> cases g p.2 <;> simp

theorem wmc_empty_true (w : Int → R) : wmc w ∅ (fun _ => true) = 1 := by
  simp [wmc, wt]

theorem wmc_false (w : Int → R) (V : Finset Nat) : wmc w V (fun _ => false) = 0 := by
  simp [wmc]

theorem wmc_congr (w : Int → R) {V U : Finset Nat} {φ ψ : Finset Nat → Bool} (hV : V = U)
    (h : ∀ T, φ T = ψ T) : wmc w V φ = wmc w U ψ := by
  subst hV
  have : φ = ψ := funext h
  rw [this]

/-- smooth + deterministic OR -/
theorem wmc_or (w : Int → R) (V : Finset Nat) (f g : Finset Nat → Bool)
    (hx : ∀ T, ¬ (f T = true ∧ g T = true)) :
    wmc w V f + wmc w V g = wmc w V (fun T => f T || g T) := by
  unfold wmc
  rw [← Finset.sum_add_distrib]
  apply Finset.sum_congr rfl
  intro T _
  have := hx T
  cases h1 : f T <;> cases h2 : g T <;> simp_all

/-- a single literal on variable `n ≠ ...` (any `n`): positive phase -/
theorem wmc_lit_pos (w : Int → R) (n : Nat) :
    wmc w {n} (fun T => decide (n ∈ T)) = w (n : Int) := by
  have hp : ({n} : Finset Nat).powerset = {∅, {n}} := by
    ext T; simp [Finset.mem_powerset, Finset.subset_singleton_iff]
  have hne : (∅ : Finset Nat) ≠ {n} := (Finset.singleton_ne_empty n).symm
  simp [wmc, wt, hp, Finset.sum_pair hne]

theorem wmc_lit_neg (w : Int → R) (n : Nat) :
    wmc w {n} (fun T => !decide (n ∈ T)) = w (-(n : Int)) := by
  have hp : ({n} : Finset Nat).powerset = {∅, {n}} := by
    ext T; simp [Finset.mem_powerset, Finset.subset_singleton_iff]
  have hne : (∅ : Finset Nat) ≠ {n} := (Finset.singleton_ne_empty n).symm
  simp [wmc, wt, hp, Finset.sum_pair hne]

/-- n-ary decomposable AND: the product of the children's counts is the count of the conjunction over the union -/
theorem wmc_list_and (w : Int → R) (V : Nat → Finset Nat) (φ : Nat → Finset Nat → Bool) :
    ∀ (cs : List Nat) (U : Finset Nat), (∀ x, x ∈ U ↔ ∃ ch ∈ cs, x ∈ V ch) →
      cs.Pairwise (fun a b => Disjoint (V a) (V b)) → (∀ ch ∈ cs, DependsOn (φ ch) (V ch)) →
      (cs.map (fun ch => wmc w (V ch) (φ ch))).prod = wmc w U (fun T => cs.all (fun ch => φ ch T)) := by
  intro cs
  induction cs with
  | nil =>
    intro U hU _ _
    have : U = ∅ := by ext x; simp [hU]
    subst this
    simp [wmc_empty_true]
  | cons ch rest ih =>
    intro U hU hpw hdep
    rw [List.pairwise_cons] at hpw
    obtain ⟨hd, hpw'⟩ := hpw
    let U' : Finset Nat := rest.toFinset.biUnion V
    have hU' : ∀ x, x ∈ U' ↔ ∃ c ∈ rest, x ∈ V c := by
      intro x; simp [U', Finset.mem_biUnion]
    have hUeq : U = V ch ∪ U' := by
      ext x; rw [hU, mem_union, hU']; simp
    have hdisj : Disjoint (V ch) U' := by
      rw [Finset.disjoint_biUnion_right]
      intro c hc; exact hd c (List.mem_toFinset.mp hc)
    have hdep' : ∀ c ∈ rest, DependsOn (φ c) (V c) := fun c hc => hdep c (by simp [hc])
    have hrest : DependsOn (fun T => rest.all (fun c => φ c T)) U' := by
      intro T
      show rest.all _ = rest.all _
      rw [Bool.eq_iff_iff]
      simp only [List.all_eq_true]
      have hc : ∀ c ∈ rest, φ c (T ∩ U') = φ c T := fun c hc =>
        (hdep' c hc).mono (fun x hx => (hU' x).mpr ⟨c, hc, hx⟩) T
      constructor
      · intro H c hcm; rw [← hc c hcm]; exact H c hcm
      · intro H c hcm; rw [hc c hcm]; exact H c hcm
    rw [List.map_cons, List.prod_cons, ih U' hU' hpw' hdep', hUeq,
      ← wmc_and w (V ch) U' hdisj (φ ch) _ (hdep ch (by simp)) hrest]
    apply wmc_congr w rfl
    intro T; simp [List.all_cons]

theorem foldl_mul_eq_prod (f : Nat → R) (cs : List Nat) :
    cs.foldl (fun p ch => p * f ch) 1 = (cs.map f).prod := by
  have : ∀ (a : R), cs.foldl (fun p ch => p * f ch) a = a * (cs.map f).prod := by
    induction cs with
    | nil => intro a; simp
    | cons x xs ih => intro a; simp [ih, mul_assoc]
  simpa using this 1

end ProbLogProofs.DDNNF
