import ProbLogModel.Sem
import ProbLogProofs.Lemmas.SemGamma
/-!
# The alternating fixpoint `Sem.wfm`: fuel sufficiency, and dependence on the relevant part only (core Lean only)
-/
namespace ProbLogProofs.SemWfm
open ProbLogModel.Sem ProbLogProofs.SemGamma

/-- `gamma` is antimonotone in the context -/
theorem gamma_antimono (rules : List Rule) (chosen : Array Bool) (natoms : Nat) {ctx ctx' : Array Bool}
    (h : Le ctx ctx') : Le (gamma rules chosen natoms ctx') (gamma rules chosen natoms ctx) := by
  apply gamma_least
  intro r hr h1 h2 h3 hlt
  apply gamma_closedBelow rules chosen natoms ctx r hr h1 h2 _ hlt
  intro a ha
  have := h3 a ha
  cases hc : getB ctx a
  · rfl
  · rw [h a hc] at this; cases this

/-- the increasing sequence `∅, Γ²(∅), Γ⁴(∅), …` of underestimates -/
def tseq (rules : List Rule) (chosen : Array Bool) (natoms : Nat) : Nat → Array Bool
  | 0 => Array.replicate natoms false
  | k + 1 => gamma rules chosen natoms (gamma rules chosen natoms (tseq rules chosen natoms k))

theorem tseq_size (rules : List Rule) (chosen : Array Bool) (natoms : Nat) (k : Nat) :
    (tseq rules chosen natoms k).size = natoms := by
  cases k with
  | zero => simp [tseq]
  | succ k => simp [tseq, gamma_size]

theorem tseq_mono (rules : List Rule) (chosen : Array Bool) (natoms : Nat) (k : Nat) :
    Le (tseq rules chosen natoms k) (tseq rules chosen natoms (k + 1)) := by
  induction k with
  | zero => intro i hi; simp [tseq, getB_replicate] at hi
  | succ k ih =>
    show Le (gamma _ _ _ (gamma _ _ _ _)) (gamma _ _ _ (gamma _ _ _ _))
    exact gamma_antimono _ _ _ (gamma_antimono _ _ _ ih)

theorem tseq_stable {rules : List Rule} {chosen : Array Bool} {natoms m : Nat}
    (h : tseq rules chosen natoms (m + 1) = tseq rules chosen natoms m) (j : Nat) :
    tseq rules chosen natoms (m + j) = tseq rules chosen natoms m := by
  induction j with
  | zero => rfl
  | succ j ih =>
    show gamma _ _ _ (gamma _ _ _ (tseq rules chosen natoms (m + j))) = _
    rw [ih]; exact h

theorem wfm_go_spec (rules : List Rule) (chosen : Array Bool) (natoms : Nat) :
    ∀ (fuel k : Nat), natoms < fuel + cntN natoms (tseq rules chosen natoms k) →
      ∃ m, wfm.go rules chosen natoms fuel (tseq rules chosen natoms k) =
          (tseq rules chosen natoms m, gamma rules chosen natoms (tseq rules chosen natoms m)) ∧
        tseq rules chosen natoms (m + 1) = tseq rules chosen natoms m := by
  intro fuel
  induction fuel with
  | zero =>
    intro k hf
    have := cntN_le natoms (tseq rules chosen natoms k)
    omega
  | succ fuel ih =>
    intro k hf
    unfold wfm.go
    simp only
    by_cases heq : (gamma rules chosen natoms (gamma rules chosen natoms (tseq rules chosen natoms k)) ==
        tseq rules chosen natoms k) = true
    · rw [if_pos heq]
      refine ⟨k, rfl, ?_⟩
      show gamma rules chosen natoms (gamma rules chosen natoms (tseq rules chosen natoms k)) = _
      simpa using heq
    · rw [if_neg heq]
      have hne : tseq rules chosen natoms k ≠ tseq rules chosen natoms (k + 1) := by
        intro h; apply heq
        show (tseq rules chosen natoms (k + 1) == _) = true
        rw [← h]; simp
      have hlt := cntN_lt_of_ne (by rw [tseq_size, tseq_size]) (tseq_mono rules chosen natoms k) hne
      rw [tseq_size] at hlt
      exact ih (k + 1) (by omega)

/-- The fuel of `wfm` is sufficient: the result is `(T, Γ T)` for a `T = Γ²ᵐ(∅)` that is a fixpoint of `Γ²`. -/
theorem wfm_spec (rules : List Rule) (chosen : Array Bool) (natoms : Nat) :
    ∃ m, wfm rules chosen natoms =
        (tseq rules chosen natoms m, gamma rules chosen natoms (tseq rules chosen natoms m)) ∧
      tseq rules chosen natoms (m + 1) = tseq rules chosen natoms m := by
  unfold wfm
  exact wfm_go_spec rules chosen natoms (natoms + 1) 0 (by omega)

/-! ## dependence on the relevant part only -/

/-- `a` and `b` agree on the atoms in `D` -/
def AgreeOn (D : Nat → Bool) (a b : Array Bool) : Prop := ∀ i, D i = true → getB a i = getB b i

/-- `rules1` is the part of `rules2` with head in `D`; `D` is closed under "body of a rule with head in `D`"
    (body atoms `≥ n` excepted); the selected choices agree on the rules of `rules1`. -/
structure RelPart (n : Nat) (D : Nat → Bool) (rules1 rules2 : List Rule) (ch1 ch2 : Array Bool) : Prop where
  mem : ∀ r, r ∈ rules1 ↔ (r ∈ rules2 ∧ D r.head = true)
  closed : ∀ r ∈ rules2, D r.head = true → ∀ b, (b ∈ r.pos ∨ b ∈ r.neg) → D b = true ∨ n ≤ b
  ch : ∀ r ∈ rules1, chOk ch1 r = chOk ch2 r

theorem gamma_relevant {n : Nat} {D : Nat → Bool} {rules1 rules2 : List Rule} {ch1 ch2 : Array Bool}
    (h : RelPart n D rules1 rules2 ch1 ch2) {ctx1 ctx2 : Array Bool} (hs1 : ctx1.size = n) (hs2 : ctx2.size = n)
    (hc : AgreeOn D ctx1 ctx2) : AgreeOn D (gamma rules1 ch1 n ctx1) (gamma rules2 ch2 n ctx2) := by
  have hout : ∀ (c : Array Bool), c.size = n → ∀ b, n ≤ b → getB c b = false := by
    intro c hcs b hb
    cases hx : getB c b
    · rfl
    · have := getB_lt hx; omega
  have hctx : ∀ r ∈ rules2, D r.head = true → ∀ b ∈ r.neg, getB ctx1 b = getB ctx2 b := by
    intro r hr hD b hb
    rcases h.closed r hr hD b (Or.inr hb) with hb' | hb'
    · exact hc b hb'
    · rw [hout ctx1 hs1 b hb', hout ctx2 hs2 b hb']
  -- 1 ≤ 2
  have h12 : ∀ i, getB (gamma rules1 ch1 n ctx1) i = true → getB (gamma rules2 ch2 n ctx2) i = true := by
    apply gamma_least
    intro r hr h1 h2 h3 hlt
    obtain ⟨hr2, hD⟩ := (h.mem r).1 hr
    apply gamma_closedBelow rules2 ch2 n ctx2 r hr2 _ h2 _ hlt
    · rw [← h.ch r hr]; exact h1
    · intro a ha; rw [← hctx r hr2 hD a ha]; exact h3 a ha
  -- 2 ∩ D ≤ 1
  have h21 : ∀ i, getB (gamma rules2 ch2 n ctx2) i = true →
      (getB (gamma rules1 ch1 n ctx1) i || (decide (i < n) && !D i)) = true := by
    apply gamma_least rules2 ch2 n ctx2 (fun i => getB (gamma rules1 ch1 n ctx1) i || (decide (i < n) && !D i))
    intro r hr2 h1 h2 h3 hlt
    show (getB (gamma rules1 ch1 n ctx1) r.head || (decide (r.head < n) && !D r.head)) = true
    cases hD : D r.head
    · simp [hlt]
    · have hr : r ∈ rules1 := (h.mem r).2 ⟨hr2, hD⟩
      simp only [Bool.not_true, Bool.and_false, Bool.or_false]
      apply gamma_closedBelow rules1 ch1 n ctx1 r hr _ _ _ hlt
      · rw [h.ch r hr]; exact h1
      · intro a ha
        have := h2 a ha
        rcases h.closed r hr2 hD a (Or.inl ha) with ha' | ha'
        · simpa [ha'] using this
        · have hn : ¬ a < n := by omega
          have hg : getB (gamma rules1 ch1 n ctx1) a = false := by
            cases hx : getB (gamma rules1 ch1 n ctx1) a
            · rfl
            · have := gamma_lt hx; omega
          simp [hn, hg] at this
      · intro a ha; rw [hctx r hr2 hD a ha]; exact h3 a ha
  intro i hD
  cases h1 : getB (gamma rules1 ch1 n ctx1) i
  · cases h2 : getB (gamma rules2 ch2 n ctx2) i
    · rfl
    · have := h21 i h2
      simp [h1, hD] at this
  · exact (h12 i h1).symm

theorem tseq_relevant {n : Nat} {D : Nat → Bool} {rules1 rules2 : List Rule} {ch1 ch2 : Array Bool}
    (h : RelPart n D rules1 rules2 ch1 ch2) (k : Nat) :
    AgreeOn D (tseq rules1 ch1 n k) (tseq rules2 ch2 n k) := by
  induction k with
  | zero => intro i _; rfl
  | succ k ih =>
    exact gamma_relevant h (gamma_size _ _ _ _) (gamma_size _ _ _ _)
      (gamma_relevant h (tseq_size _ _ _ _) (tseq_size _ _ _ _) ih)

/-- The well-founded models of the relevant part and of the whole agree on `D`, in both components. -/
theorem wfm_relevant {n : Nat} {D : Nat → Bool} {rules1 rules2 : List Rule} {ch1 ch2 : Array Bool}
    (h : RelPart n D rules1 rules2 ch1 ch2) :
    AgreeOn D (wfm rules1 ch1 n).1 (wfm rules2 ch2 n).1 ∧ AgreeOn D (wfm rules1 ch1 n).2 (wfm rules2 ch2 n).2 := by
  obtain ⟨m1, e1, f1⟩ := wfm_spec rules1 ch1 n
  obtain ⟨m2, e2, f2⟩ := wfm_spec rules2 ch2 n
  have t1 : tseq rules1 ch1 n m1 = tseq rules1 ch1 n (m1 + m2) := (tseq_stable f1 m2).symm
  have t2 : tseq rules2 ch2 n m2 = tseq rules2 ch2 n (m1 + m2) := by
    rw [Nat.add_comm]; exact (tseq_stable f2 m1).symm
  rw [e1, e2, t1, t2]
  exact ⟨tseq_relevant h _, gamma_relevant h (tseq_size _ _ _ _) (tseq_size _ _ _ _) (tseq_relevant h _)⟩

theorem wfm_size (rules : List Rule) (chosen : Array Bool) (natoms : Nat) :
    (wfm rules chosen natoms).1.size = natoms ∧ (wfm rules chosen natoms).2.size = natoms := by
  obtain ⟨m, e, _⟩ := wfm_spec rules chosen natoms
  rw [e]
  exact ⟨tseq_size _ _ _ _, gamma_size _ _ _ _⟩

end ProbLogProofs.SemWfm
