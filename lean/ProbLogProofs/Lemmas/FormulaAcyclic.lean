import ProbLogProofs.Lemmas.FormulaOps
/-!
# C11 helper lemmas (5): acyclic stores have exactly one consistent valuation per atom assignment
-/
namespace ProbLogModel.Formula

def Node.children : Node → List Key
  | .atom _ _ _ _ => []
  | .conj cs _ => cs
  | .disj cs _ => cs

def Node.isAtom : Node → Bool
  | .atom _ _ _ _ => true
  | _ => false

/-- The key is a constant or refers to a node with 1-based index `≤ n`. -/
def keyBelow (n : Nat) : Key → Prop
  | none => True
  | some k => k.natAbs ≤ n

instance (n : Nat) (k : Key) : Decidable (keyBelow n k) := by
  cases k with
  | none => exact Decidable.isTrue trivial
  | some i => exact inferInstanceAs (Decidable (i.natAbs ≤ n))

/-- Every compound node only refers to earlier nodes (what the builder produces without `add_disjunct`). -/
def Acyclic (S : Store) : Prop :=
  ∀ i nd, S.nodes[i]? = some nd → ∀ c ∈ nd.children, keyBelow i c

theorem children_erase (nd : Node) : (Node.erase nd).children = nd.children := by cases nd <;> rfl

theorem children_of_erase_eq {nd nd' : Node} (h : Node.erase nd' = Node.erase nd) : nd'.children = nd.children := by
  rw [← children_erase nd', h, children_erase]

theorem keyBelow_mono {n m : Nat} (h : n ≤ m) {c : Key} (hc : keyBelow n c) : keyBelow m c := by
  cases c with
  | none => trivial
  | some k => exact Nat.le_trans hc h

theorem keyVal_congr {ρ ρ' : Nat → Bool} {n : Nat} (h : ∀ j, j ≤ n → ρ j = ρ' j) {c : Key} (hc : keyBelow n c) :
    keyVal ρ c = keyVal ρ' c := by
  cases c with
  | none => rfl
  | some k => simp only [keyVal, h k.natAbs hc]

theorem all_keyVal_congr {ρ ρ' : Nat → Bool} {n : Nat} (h : ∀ j, j ≤ n → ρ j = ρ' j) (cs : List Key)
    (hc : ∀ c ∈ cs, keyBelow n c) : cs.all (keyVal ρ) = cs.all (keyVal ρ') := by
  induction cs with
  | nil => rfl
  | cons c cs ih =>
    simp only [List.all_cons]
    rw [keyVal_congr h (hc c List.mem_cons_self), ih (fun x hx => hc x (List.mem_cons_of_mem _ hx))]

theorem any_keyVal_congr {ρ ρ' : Nat → Bool} {n : Nat} (h : ∀ j, j ≤ n → ρ j = ρ' j) (cs : List Key)
    (hc : ∀ c ∈ cs, keyBelow n c) : cs.any (keyVal ρ) = cs.any (keyVal ρ') := by
  induction cs with
  | nil => rfl
  | cons c cs ih =>
    simp only [List.any_cons]
    rw [keyVal_congr h (hc c List.mem_cons_self), ih (fun x hx => hc x (List.mem_cons_of_mem _ hx))]

/-! ### existence -/

def nodeVal (α ρ : Nat → Bool) (idx : Nat) : Node → Bool
  | .atom _ _ _ _ => α idx
  | .conj cs _ => cs.all (keyVal ρ)
  | .disj cs _ => cs.any (keyVal ρ)

/-- Evaluate the first `n` nodes bottom-up, starting from the atom assignment `α`. -/
def build (α : Nat → Bool) (nodes : List Node) : Nat → (Nat → Bool)
  | 0 => α
  | n + 1 => fun j =>
    if j = n + 1 then
      match nodes[n]? with
      | some nd => nodeVal α (build α nodes n) (n + 1) nd
      | none => α j
    else build α nodes n j

theorem build_stable (α : Nat → Bool) (nodes : List Node) (n m : Nat) (h : n ≤ m) :
    ∀ j, j ≤ n → build α nodes m j = build α nodes n j := by
  induction m with
  | zero => intro j _; have : n = 0 := by omega
            subst this; rfl
  | succ m ih =>
    intro j hj
    rcases Nat.eq_or_lt_of_le h with heq | hlt
    · subst heq; rfl
    · have hne : j ≠ m + 1 := by omega
      show (if j = m + 1 then _ else build α nodes m j) = _
      rw [if_neg hne]
      exact ih (by omega) j hj

theorem build_above (α : Nat → Bool) (nodes : List Node) (n : Nat) : ∀ j, n < j → build α nodes n j = α j := by
  induction n with
  | zero => intro j _; rfl
  | succ n ih =>
    intro j hj
    have hne : j ≠ n + 1 := by omega
    show (if j = n + 1 then _ else build α nodes n j) = _
    rw [if_neg hne]
    exact ih j (by omega)

theorem build_at (α : Nat → Bool) (nodes : List Node) (i : Nat) (nd : Node) (h : nodes[i]? = some nd) :
    build α nodes nodes.length (i + 1) = nodeVal α (build α nodes i) (i + 1) nd := by
  have hlt : i < nodes.length := by
    rcases Nat.lt_or_ge i nodes.length with hlt | hge
    · exact hlt
    · rw [List.getElem?_eq_none hge] at h; cases h
  rw [build_stable α nodes (i + 1) nodes.length hlt (i + 1) (Nat.le_refl _)]
  show (if i + 1 = i + 1 then _ else _) = _
  rw [if_pos rfl, h]

theorem acyclic_exists {S : Store} (ha : Acyclic S) (α : Nat → Bool) :
    ∃ ρ, Consistent S ρ ∧ (∀ i nd, S.nodes[i]? = some nd → nd.isAtom = true → ρ (i + 1) = α (i + 1)) ∧
      (∀ j, S.nodes.length < j → ρ j = α j) ∧ ρ 0 = α 0 := by
  refine ⟨build α S.nodes S.nodes.length, fun i => ⟨fun cs nm h => ?_, fun cs nm h => ?_⟩,
    fun i nd h hat => ?_, fun j hj => build_above α S.nodes _ j hj, ?_⟩
  · have hlt : i < S.nodes.length := by
      rcases Nat.lt_or_ge i S.nodes.length with hlt | hge
      · exact hlt
      · rw [List.getElem?_eq_none hge] at h; cases h
    rw [build_at α S.nodes i _ h]
    show cs.all (keyVal (build α S.nodes i)) = _
    exact all_keyVal_congr (n := i)
      (fun j hj => (build_stable α S.nodes i S.nodes.length (Nat.le_of_lt hlt) j hj).symm) cs
      (ha i _ h)
  · have hlt : i < S.nodes.length := by
      rcases Nat.lt_or_ge i S.nodes.length with hlt | hge
      · exact hlt
      · rw [List.getElem?_eq_none hge] at h; cases h
    rw [build_at α S.nodes i _ h]
    show cs.any (keyVal (build α S.nodes i)) = _
    exact any_keyVal_congr (n := i)
      (fun j hj => (build_stable α S.nodes i S.nodes.length (Nat.le_of_lt hlt) j hj).symm) cs
      (ha i _ h)
  · rw [build_at α S.nodes i nd h]
    cases nd <;> first | rfl | cases hat
  · exact build_stable α S.nodes 0 S.nodes.length (Nat.zero_le _) 0 (Nat.le_refl _)

/-! ### uniqueness -/

theorem acyclic_unique {S : Store} (ha : Acyclic S) {ρ1 ρ2 : Nat → Bool} (h1 : Consistent S ρ1)
    (h2 : Consistent S ρ2)
    (hat : ∀ i nd, S.nodes[i]? = some nd → nd.isAtom = true → ρ1 (i + 1) = ρ2 (i + 1)) (h0 : ρ1 0 = ρ2 0) :
    ∀ j, j ≤ S.nodes.length → ρ1 j = ρ2 j := by
  intro j
  induction j using Nat.strongRecOn with
  | _ j ih =>
    intro hj
    cases j with
    | zero => exact h0
    | succ i =>
      have hlt : i < S.nodes.length := hj
      have hget : S.nodes[i]? = some S.nodes[i] := List.getElem?_eq_getElem hlt
      have hprev : ∀ j, j ≤ i → ρ1 j = ρ2 j := fun j hj' => ih j (by omega) (by omega)
      generalize S.nodes[i] = nd at hget
      cases nd with
      | atom id g e nm => exact hat i _ hget rfl
      | conj cs nm =>
        rw [(h1 i).1 cs nm hget, (h2 i).1 cs nm hget]
        exact all_keyVal_congr hprev cs (ha i _ hget)
      | disj cs nm =>
        rw [(h1 i).2 cs nm hget, (h2 i).2 cs nm hget]
        exact any_keyVal_congr hprev cs (ha i _ hget)

/-! ### preservation -/

theorem Acyclic.of_erase_eq {S S' : Store} (ha : Acyclic S)
    (h : S'.nodes.map Node.erase = S.nodes.map Node.erase) : Acyclic S' := by
  intro i nd' hi c hc
  have hg : Grows S' S := ⟨[], by simp [h]⟩
  obtain ⟨nd, h1, h2⟩ := hg.get hi
  rw [← children_of_erase_eq h2] at hc
  exact ha i nd h1 c hc

/-- Appending nodes whose children all exist already keeps the store acyclic. -/
theorem Acyclic.append {S S' : Store} (ha : Acyclic S) (ext : List Node) (h : S'.nodes = S.nodes ++ ext)
    (hext : ∀ nd ∈ ext, ∀ c ∈ nd.children, keyBelow S.nodes.length c) : Acyclic S' := by
  intro i nd hi c hc
  rw [h] at hi
  rcases Nat.lt_or_ge i S.nodes.length with hlt | hge
  · rw [List.getElem?_append_left hlt] at hi
    exact ha i nd hi c hc
  · rw [List.getElem?_append_right hge] at hi
    exact keyBelow_mono hge (hext nd (List.mem_of_getElem? hi) c hc)

theorem addName_acyclic {S : Store} (ha : Acyclic S) (n : Name) (k : Key) (l : Label) (keep : Bool) :
    Acyclic (S.addName n k l keep) := ha.of_erase_eq (addName_spec S n k l keep).1

theorem CRes.acyclic {S kind content name S' k} (h : CRes S kind content name S' k) (ha : Acyclic S)
    (hcontent : ∀ c ∈ content, keyBelow S.nodes.length c) : Acyclic S' := by
  cases h with
  | const h1 _ _ => subst h1; exact ha
  | named n _ h2 _ _ => subst h2; exact addName_acyclic ha _ _ _ _
  | reuse i c2 h1 _ _ _ => subst h1; exact ha
  | fresh c2 _ hf _ hsub =>
    refine ha.append [kind.mk c2 name] hf.nodes fun nd hnd c hc => ?_
    simp only [List.mem_singleton] at hnd
    subst hnd
    have : (kind.mk c2 name).children = c2 := by cases kind <;> rfl
    rw [this] at hc
    exact hcontent c (hsub c hc)

theorem keyBelow_negate (n : Nat) (k : Key) (h : keyBelow n k) : keyBelow n (negate k) := by
  cases k with
  | none => show (0 : Int).natAbs ≤ n; simp
  | some i =>
    unfold negate
    split
    · trivial
    · trivial
    · rename_i j _ heq
      cases heq
      show (-i).natAbs ≤ n
      rw [Int.natAbs_neg]; exact h

/-- The returned key refers to an existing node (or is a constant), so it can be used as an argument later. -/
theorem CRes.key_below {S : Store} {kind : Kind} {content : List Key} {name : Option Name} {S' : Store} {k : Key} (h : CRes S kind content name S' k) (hw : WF S)
    (hcontent : ∀ c ∈ content, keyBelow S.nodes.length c) : keyBelow S'.nodes.length k := by
  have hkind : keyBelow S'.nodes.length kind.t ∧ keyBelow S'.nodes.length kind.f := by
    cases kind
    · exact ⟨trivial, by show (0 : Int).natAbs ≤ _; simp⟩
    · exact ⟨by show (0 : Int).natAbs ≤ _; simp, trivial⟩
  cases h with
  | const h1 _ hk =>
    subst h1
    rcases hk with rfl | rfl | hk
    · exact hkind.1
    · exact hkind.2
    · exact hcontent k hk
  | named n _ h2 _ hk =>
    subst h2
    rw [addName_length]; exact hcontent k hk
  | reuse i c2 h1 h2 h3 _ =>
    subst h1; subst h2
    obtain ⟨hi, nm, hn⟩ := idx_get hw kind c2 i h3
    have hlt : i - 1 < S'.nodes.length := by
      rcases Nat.lt_or_ge (i - 1) S'.nodes.length with hlt | hge
      · exact hlt
      · rw [List.getElem?_eq_none hge] at hn; cases hn
    show (i : Int).natAbs ≤ _
    rw [Int.natAbs_natCast]; omega
  | fresh c2 h1 hf _ _ =>
    subst h1
    show ((S.nodes.length + 1 : Nat) : Int).natAbs ≤ _
    rw [Int.natAbs_natCast, hf.nodes]; simp

end ProbLogModel.Formula
