/-
Main correspondence: under the representation invariant, the evaluator's node values equal the circuit's line values
(`nodeWeights_eq_evalLines`), and `rootWeight` equals `evalC` when the last line is an `A`/`O` line. Core only.
-/
import ProbLogProofs.Lemmas.DDNNFBridgeEval
namespace ProbLogProofs.DDNNF
open ProbLogModel.DDNNF ProbLogModel.Formula ProbLogModel.Clark

/-- literal lines are not `L 0` -/
def LitsNonzero (c : Circuit) : Prop := ∀ (j : Nat) (l : Int), c[j]? = some (NNode.lit l) → l ≠ 0

theorem Valid.litsNonzero {c : Circuit} (h : Valid c) : LitsNonzero c := by
  intro j l hj hl
  have hlt : j < c.length := getElem?_lt_of_some hj
  have hv := h j hlt
  have : c[j] = .lit l := by
    rw [List.getElem?_eq_getElem hlt] at hj; exact Option.some.inj hj
  rw [this, hl] at hv
  simp [checkLine] at hv

/-- key of line `j` -/
def lineKey (ld : Loaded) (j : Nat) : Key := ld.line2node.getD j none

theorem lineKey_of_get {ld : Loaded} {j : Nat} {k : Key} (h : ld.line2node[j]? = some k) : lineKey ld j = k := by
  simp [lineKey, List.getD_eq_getElem?_getD, h]

/-- what the key of a line looks like, by kind of the line -/
theorem Rep.key_cases {c : Circuit} {ld : Loaded} (h : Rep c ld) (hz : LitsNonzero c) (j : Nat) (hj : j < c.length) :
    (∃ (l : Int) (i : Nat) (a : Ident) (g : Option Nat) (e : Bool) (n : Option Name),
        c[j]? = some (.lit l) ∧ l ≠ 0 ∧ 1 ≤ i ∧
        lookup ld.store.idxAtom (.user (l.natAbs : Int)) = some i ∧
        lineKey ld j = some (if l < 0 then -(i : Int) else (i : Int)) ∧
        ld.store.nodes[i - 1]? = some (.atom a g e n)) ∨
    (∃ (m : Nat), isCompound c[j] = true ∧ 1 ≤ m ∧ lineKey ld j = some (m : Int) ∧
        ld.line2node[j]? = some (some (m : Int)) ∧
        ((∃ cs n, c[j]? = some (.and cs) ∧ ld.store.nodes[m - 1]? =
            some (.conj (cs.map (fun ch => (ld.line2node.take j).getD ch none)) n)) ∨
         (∃ d cs n, c[j]? = some (.or d cs) ∧ ld.store.nodes[m - 1]? =
            some (.disj (cs.map (fun ch => (ld.line2node.take j).getD ch none)) n)))) := by
  have hcj : c[j]? = some c[j] := List.getElem?_eq_getElem hj
  cases hnd : c[j] with
  | lit l =>
    rw [hnd] at hcj
    obtain ⟨i, h1, h2⟩ := h.lit j l hcj
    obtain ⟨h3, a, g, e, h4⟩ := h.idx _ _ h1
    obtain ⟨n, h5⟩ := shapes_get_atom h4
    exact Or.inl ⟨l, i, a, g, e, n, hcj, hz j l hcj, h3, h1, lineKey_of_get h2, h5⟩
  | and cs =>
    rw [hnd] at hcj
    obtain ⟨m, h1, h2, h3⟩ := h.conj j cs hcj
    obtain ⟨n, h4⟩ := shapes_get_conj h3
    exact Or.inr ⟨m, rfl, h2, lineKey_of_get h1, h1, Or.inl ⟨cs, n, hcj, h4⟩⟩
  | or d cs =>
    rw [hnd] at hcj
    obtain ⟨m, h1, h2, h3⟩ := h.disj j d cs hcj
    obtain ⟨n, h4⟩ := shapes_get_disj h3
    exact Or.inr ⟨m, rfl, h2, lineKey_of_get h1, h1, Or.inr ⟨d, cs, n, hcj, h4⟩⟩

/-- the value the evaluator assigns to the key of an earlier line does not change when the table is cut at a later
compound node -/
theorem Rep.childW_take {c : Circuit} {ld : Loaded} (h : Rep c ld) (hz : LitsNonzero c) (w : Nat → Rat × Rat)
    (NW : List Rat) (j ch m : Nat) (hj : j < c.length) (hch : ch < j) (hcomp : isCompound c[j] = true)
    (hm : ld.line2node[j]? = some (some (m : Int))) :
    childW ld.store w (NW.take (m - 1)) (lineKey ld ch) = childW ld.store w NW (lineKey ld ch) := by
  rcases h.key_cases hz ch (by omega) with ⟨l, i, a, g, e, n, _, _, hi, _, hk, hnode⟩ |
      ⟨m', hcomp', hm1, hk, hget, hnode⟩
  · rw [hk]
    have hne : (if l < 0 then -(i : Int) else (i : Int)) ≠ 0 := by split <;> omega
    have habs : (if l < 0 then -(i : Int) else (i : Int)).natAbs = i := by split <;> omega
    rw [childW_atom _ _ _ _ hne (by rw [habs]; exact hnode), childW_atom _ _ _ _ hne (by rw [habs]; exact hnode)]
  · have hlt : m' < m := h.mono j ch c[j] c[ch] m m' hch (List.getElem?_eq_getElem hj)
      (List.getElem?_eq_getElem (by omega)) hcomp hcomp' hm hget
    rw [hk]
    have hne : (m' : Int) ≠ 0 := by omega
    have habs : (m' : Int).natAbs = m' := by omega
    rcases hnode with ⟨cs, n, _, hn⟩ | ⟨d, cs, n, _, hn⟩
    · rw [childW_conj _ _ _ _ hne (by rw [habs]; exact hn), childW_conj _ _ _ _ hne (by rw [habs]; exact hn), habs]
      exact getD_take _ _ _ _ (by omega)
    · rw [childW_disj _ _ _ _ hne (by rw [habs]; exact hn), childW_disj _ _ _ _ hne (by rw [habs]; exact hn), habs]
      exact getD_take _ _ _ _ (by omega)

theorem foldl_congr_mem' {β γ} (f g : β → γ → β) (l : List γ) (b : β)
    (h : ∀ x ∈ l, ∀ b, f b x = g b x) : l.foldl f b = l.foldl g b :=
  foldl_congr_mem f g l b h

/-- **line by line**: the evaluator's value of the key of line `j` is the circuit value of line `j`, for the circuit
weights `circW` induced by the table `w` through `idxAtom`. -/
theorem nodeWeights_eq_evalLines {c : Circuit} {ld : Loaded} (h : Rep c ld) (hf : Forward c) (hz : LitsNonzero c)
    (w : Nat → Rat × Rat) :
    ∀ j, j < c.length →
      childW ld.store w (nodeWeights ld.store w) (lineKey ld j) =
        (evalLines ratSR (circW ld.store w) c).getD j 0 := by
  intro j
  induction j using Nat.strongRecOn with
  | _ j ih =>
    intro hj
    have hfix : (evalLines ratSR (circW ld.store w) c).getD j 0 =
        evalLine ratSR (circW ld.store w) (evalLines ratSR (circW ld.store w) c) c[j] := by
      have := linesOf_fix (evalLine_local ratSR (circW ld.store w)) c j hj (hf j hj)
      rw [evalLines_eq]; exact this
    rw [hfix]
    have hcj : c[j]? = some c[j] := List.getElem?_eq_getElem hj
    rcases h.key_cases hz j hj with ⟨l, i, a, g, e, n, hl, hl0, hi, hlk, hk, hnode⟩ |
        ⟨m, hcomp, hm1, hk, hget, hnode⟩
    · -- literal line
      have hnd : c[j] = .lit l := by rw [hcj] at hl; exact Option.some.inj hl
      rw [hnd, hk]
      have hne : (if l < 0 then -(i : Int) else (i : Int)) ≠ 0 := by split <;> omega
      have habs : (if l < 0 then -(i : Int) else (i : Int)).natAbs = i := by split <;> omega
      rw [childW_atom _ _ _ _ hne (by rw [habs]; exact hnode), habs]
      simp only [evalLine, circW, litW, atomLit, atomOf, hlk, Option.getD_some]
      by_cases hneg : l < 0
      · have h1 : ¬ l > 0 := by omega
        have h2 : -(i : Int) < 0 := by omega
        have h3 : ¬ (-(i : Int) > 0) := by omega
        have h4 : 0 < i := by omega
        have h5 : ¬ ((i : Int) < 0) := by omega
        simp [hneg, h1, h4, h5]
      · have h1 : l > 0 := by omega
        have h2 : ¬ ((i : Int) < 0) := by omega
        have h3 : (i : Int) > 0 := by omega
        have h4 : i ≠ 0 := by omega
        simp [hneg, h1, h2, h4]
    · -- compound line
      have hne : (m : Int) ≠ 0 := by omega
      have habs : (m : Int).natAbs = m := by omega
      have hmlen : ∀ {x : Node}, ld.store.nodes[m - 1]? = some x → m - 1 < ld.store.nodes.length :=
        fun hx => getElem?_lt_of_some hx
      rw [hk]
      rcases hnode with ⟨cs, n, hc, hn⟩ | ⟨d, cs, n, hc, hn⟩
      · have hnd : c[j] = .and cs := by rw [hcj] at hc; exact Option.some.inj hc
        rw [childW_conj _ _ _ _ hne (by rw [habs]; exact hn), habs]
        have hlt := hmlen hn
        have hg := tbl_get (nodeW ld.store w) ld.store.nodes (m - 1) hlt
        have hnode' : ld.store.nodes[m - 1] = .conj (cs.map (fun ch => (ld.line2node.take j).getD ch none)) n := by
          rw [List.getElem?_eq_getElem hlt] at hn; exact Option.some.inj hn
        rw [List.getD_eq_getElem?_getD, nodeWeights_eq, hg, hnode', hnd]
        simp only [Option.getD_some, nodeW, evalLine, List.foldl_map]
        apply foldl_congr_mem
        intro ch hch p
        have hchj : ch < j := hf j hj ch (by rw [hnd]; exact hch)
        have e1 : (ld.line2node.take j).getD ch none = lineKey ld ch := getD_take _ _ _ _ hchj
        rw [e1, ← nodeWeights_eq, h.childW_take hz w _ j ch m hj hchj hcomp hget, ih ch hchj (by omega)]
        rfl
      · have hnd : c[j] = .or d cs := by rw [hcj] at hc; exact Option.some.inj hc
        rw [childW_disj _ _ _ _ hne (by rw [habs]; exact hn), habs]
        have hlt := hmlen hn
        have hg := tbl_get (nodeW ld.store w) ld.store.nodes (m - 1) hlt
        have hnode' : ld.store.nodes[m - 1] = .disj (cs.map (fun ch => (ld.line2node.take j).getD ch none)) n := by
          rw [List.getElem?_eq_getElem hlt] at hn; exact Option.some.inj hn
        rw [List.getD_eq_getElem?_getD, nodeWeights_eq, hg, hnode', hnd]
        simp only [Option.getD_some, nodeW, evalLine, List.foldl_map]
        apply foldl_congr_mem
        intro ch hch p
        have hchj : ch < j := hf j hj ch (by rw [hnd]; exact hch)
        have e1 : (ld.line2node.take j).getD ch none = lineKey ld ch := getD_take _ _ _ _ hchj
        rw [e1, ← nodeWeights_eq, h.childW_take hz w _ j ch m hj hchj hcomp hget, ih ch hchj (by omega)]
        rfl

end ProbLogProofs.DDNNF
