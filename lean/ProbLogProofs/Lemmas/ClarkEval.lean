import ProbLogProofs.Lemmas.ClarkDag
/-!
Helper lemmas for C09 (Clark half): bottom-up evaluation `dagVals` and the uniqueness of the completion's model.
-/
namespace ProbLogProofs.Lemmas.Clark
open ProbLogModel.Formula ProbLogModel.Clark

theorem rev_ind {α} {P : List α → Prop} (nil : P []) (snoc : ∀ l a, P l → P (l ++ [a])) : ∀ l, P l := by
  intro l
  have : ∀ r : List α, P r.reverse := by
    intro r
    induction r with
    | nil => exact nil
    | cons a r ih => rw [List.reverse_cons]; exact snoc _ _ ih
  simpa using this l.reverse

theorem dagVals_snoc (α : Nat → Bool) (ns : List Node) (nd : Node) :
    dagVals α (ns ++ [nd]) = dagVals α ns ++ [nodeVal α (dagVals α ns) nd] := by
  simp [dagVals, List.foldl_append]

theorem dagVals_length (α : Nat → Bool) (ns : List Node) : (dagVals α ns).length = ns.length := by
  induction ns using rev_ind with
  | nil => rfl
  | snoc l a ih => rw [dagVals_snoc]; simp [ih]

/-- entry `j` of the bottom-up evaluation is the node's value over the entries before it -/
theorem dagVals_get (α : Nat → Bool) (ns : List Node) :
    ∀ (j : Nat) nd, ns[j]? = some nd →
      (dagVals α ns)[j]? = some (nodeVal α ((dagVals α ns).take j) nd) := by
  induction ns using rev_ind with
  | nil => intro j nd h; simp at h
  | snoc l a ih =>
    intro j nd h
    rw [dagVals_snoc]
    have hlen := dagVals_length α l
    by_cases hj : j < l.length
    · rw [List.getElem?_append_left hj] at h
      rw [List.getElem?_append_left (by omega), List.take_append_of_le_length (by omega)]
      exact ih j nd h
    · have hj' : j = l.length := by
        have := (List.getElem?_eq_some_iff.mp h).1
        simp at this; omega
      subst hj'
      rw [List.getElem?_append_right (by omega)] at h
      simp at h; subst h
      rw [List.getElem?_append_right (by omega), ← hlen, List.take_left']
      · simp
      · rfl

theorem all_congr_mem {α} (f g : α → Bool) (l : List α) (h : ∀ c ∈ l, f c = g c) : l.all f = l.all g := by
  induction l with
  | nil => rfl
  | cons a l ih =>
    simp only [List.all_cons]
    rw [h a List.mem_cons_self, ih (fun c hc => h c (List.mem_cons_of_mem _ hc))]

theorem any_congr_mem {α} (f g : α → Bool) (l : List α) (h : ∀ c ∈ l, f c = g c) : l.any f = l.any g := by
  induction l with
  | nil => rfl
  | cons a l ih =>
    simp only [List.any_cons]
    rw [h a List.mem_cons_self, ih (fun c hc => h c (List.mem_cons_of_mem _ hc))]

/-- if `v` agrees with the evaluation `D` on ids `1..j`, a literal below `j+1` has the same value either way -/
theorem keyVal_eq_childVal (v : Nat → Bool) (D : List Bool) (j : Nat)
    (H : ∀ i, 1 ≤ i → i ≤ j → v i = D.getD (i - 1) false) (k : Int) (hk0 : k ≠ 0) (hk : k.natAbs < j + 1) :
    keyVal v (some k) = childVal (D.take j) (some k) := by
  have h1 : 1 ≤ k.natAbs := by omega
  have hget : (D.take j).getD (k.natAbs - 1) false = D.getD (k.natAbs - 1) false := by
    simp only [List.getD_eq_getElem?_getD]
    rw [List.getElem?_take_of_lt (by omega)]
  simp only [keyVal, childVal, hk0, if_false, hget, H k.natAbs h1 (by omega)]

theorem children_vals (v : Nat → Bool) (D : List Bool) (j : Nat)
    (H : ∀ i, 1 ≤ i → i ≤ j → v i = D.getD (i - 1) false) (nd : Node) (hac : acyclicNode (j + 1) nd = true) :
    ∀ c ∈ children nd, keyVal v c = childVal (D.take j) c := by
  intro c hc
  obtain ⟨k, rfl, hk0, hk⟩ := acyclicNode_children (j + 1) nd hac c hc
  exact keyVal_eq_childVal v D j H k hk0 hk

/-- given agreement below, Clark's demand at node `j+1` says `v (j+1)` is the bottom-up value -/
theorem nodeOK_iff_nodeVal (α v : Nat → Bool) (D : List Bool) (j : Nat) (hD : j ≤ D.length)
    (H : ∀ i, 1 ≤ i → i ≤ j → v i = D.getD (i - 1) false) (nd : Node) (hac : acyclicNode (j + 1) nd = true)
    (hat : ∀ a g e n, nd = .atom a g e n → v (j + 1) = α (j + 1)) :
    nodeOK v (j + 1) nd ↔ v (j + 1) = nodeVal α (D.take j) nd := by
  have hch := children_vals v D j H nd hac
  cases nd with
  | atom a g e n =>
    simp only [nodeOK, nodeVal, List.length_take, true_iff]
    rw [Nat.min_eq_left hD]
    exact hat a g e n rfl
  | conj cs nm =>
    simp only [nodeOK, nodeVal]
    rw [all_congr_mem _ _ cs hch]
  | disj cs nm =>
    simp only [nodeOK, nodeVal]
    rw [any_congr_mem _ _ cs hch]

/-- Uniqueness + existence at the level of node lists: `v` meets Clark's demand at every node (and agrees with
    `α` on atoms) iff it is the bottom-up evaluation. -/
theorem nodeOK_all_iff_dagVals (α v : Nat → Bool) (ns : List Node)
    (hac : ∀ (j : Nat) nd, ns[j]? = some nd → acyclicNode (j + 1) nd = true)
    (hat : ∀ (j : Nat) a g e n, ns[j]? = some (.atom a g e n) → v (j + 1) = α (j + 1)) :
    (∀ (j : Nat) nd, ns[j]? = some nd → nodeOK v (j + 1) nd) ↔
      ∀ i, 1 ≤ i → i ≤ ns.length → v i = (dagVals α ns).getD (i - 1) false := by
  have hlen := dagVals_length α ns
  constructor
  · intro Hok i
    induction i using Nat.strongRecOn with
    | ind i ih =>
      intro h1 hi
      obtain ⟨j, rfl⟩ : ∃ j, i = j + 1 := ⟨i - 1, by omega⟩
      have hjlt : j < ns.length := by omega
      have hnd : ns[j]? = some ns[j] := List.getElem?_eq_getElem hjlt
      have H : ∀ i, 1 ≤ i → i ≤ j → v i = (dagVals α ns).getD (i - 1) false :=
        fun i h1 h2 => ih i (by omega) h1 (by omega)
      have hv := (nodeOK_iff_nodeVal α v (dagVals α ns) j (by omega) H ns[j] (hac j _ hnd)
        (fun a g e n hn => hat j a g e n (by rw [hnd, hn]))).mp (Hok j _ hnd)
      rw [hv, Nat.add_sub_cancel, List.getD_eq_getElem?_getD, dagVals_get α ns j _ hnd]
      rfl
  · intro Hall j nd hnd
    have hjlt : j < ns.length := (List.getElem?_eq_some_iff.mp hnd).1
    have H : ∀ i, 1 ≤ i → i ≤ j → v i = (dagVals α ns).getD (i - 1) false :=
      fun i h1 h2 => Hall i h1 (by omega)
    rw [nodeOK_iff_nodeVal α v (dagVals α ns) j (by omega) H nd (hac j nd hnd)
      (fun a g e n hn => hat j a g e n (by rw [hnd, hn]))]
    rw [Hall (j + 1) (by omega) (by omega), Nat.add_sub_cancel, List.getD_eq_getElem?_getD,
      dagVals_get α ns j nd hnd]
    rfl

/-- the bottom-up evaluation gives atoms their `α` value -/
theorem dagVals_atom (α : Nat → Bool) (ns : List Node) (j : Nat) (a : Ident) (g : Option Nat) (e : Bool)
    (n : Option Name) (h : ns[j]? = some (.atom a g e n)) :
    (dagVals α ns).getD j false = α (j + 1) := by
  have hjlt : j < ns.length := (List.getElem?_eq_some_iff.mp h).1
  rw [List.getD_eq_getElem?_getD, dagVals_get α ns j _ h]
  simp only [Option.getD_some, nodeVal, List.length_take, dagVals_length]
  rw [Nat.min_eq_left (by omega)]

end ProbLogProofs.Lemmas.Clark
