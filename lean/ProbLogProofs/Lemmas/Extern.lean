import ProbLogModel.Extern
/-!
Lemmas about the model of the `problog_export` wrapper (ProbLogModel/Extern.lean), used by the C28 theorems:
the binary encoding of the binding pattern is an accepted mode below `2 ^ n`, and for EVERY accepted mode the loop of the
wrapper decides exactly "every bound output equals its result".
-/
namespace ProbLogProofs.ExternLemmas
open ProbLogModel.PyPl ProbLogModel.Extern

/-- The mode index of the binding pattern: bit `n - j - 1` is set iff output `j` is bound. -/
def enc : List (Ty × Arg) → Nat
  | [] => 0
  | (_, a) :: rest => (if a.isBound then 2 ^ rest.length else 0) + enc rest

theorem enc_lt (l : List (Ty × Arg)) : enc l < 2 ^ l.length := by
  induction l with
  | nil => simp [enc]
  | cons x rest ih =>
    obtain ⟨ty, a⟩ := x
    simp only [enc, List.length_cons, Nat.pow_succ]
    split <;> omega

/-- Only the bits below the number of outputs are looked at. -/
theorem modeMatches_add (l : List (Ty × Arg)) (m y : Nat) (h : l.length ≤ m) :
    modeMatches l (2 ^ m + y) = modeMatches l y := by
  induction l with
  | nil => rfl
  | cons x rest ih =>
    obtain ⟨ty, a⟩ := x
    have h' : rest.length < m := by simp at h; omega
    simp only [modeMatches]
    rw [Nat.testBit_two_pow_add_gt h', ih (Nat.le_of_lt h')]

/-- The encoding of the binding pattern is an accepted mode when the bound arguments have the declared types. -/
theorem modeMatches_enc (l : List (Ty × Arg)) (h : wellTyped l = true) : modeMatches l (enc l) = true := by
  induction l with
  | nil => rfl
  | cons x rest ih =>
    obtain ⟨ty, a⟩ := x
    cases a with
    | unbound =>
      have h2 : wellTyped rest = true := by simpa [wellTyped] using h
      simp [modeMatches, enc, Arg.isBound, argMatches, Nat.testBit_lt_two_pow (enc_lt rest), ih h2]
    | bound t =>
      have h2 : typeOk ty t = true ∧ wellTyped rest = true := by simpa [wellTyped] using h
      simp [modeMatches, enc, Arg.isBound, argMatches, Nat.testBit_two_pow_add_eq,
        Nat.testBit_lt_two_pow (enc_lt rest), h2.1, modeMatches_add rest _ _ (Nat.le_refl _), ih h2.2]

/-- `check_mode` finds a mode (no CallModeError) and the mode it finds accepts the arguments. -/
theorem checkMode_some (l : List (Ty × Arg)) (h : wellTyped l = true) :
    ∃ b, checkMode l = some b ∧ modeMatches l b = true := by
  unfold checkMode
  have hs : ((List.range (2 ^ l.length)).find? (modeMatches l)).isSome = true := by
    rw [List.find?_isSome]
    exact ⟨enc l, List.mem_range.mpr (enc_lt l), modeMatches_enc l h⟩
  obtain ⟨b, hb⟩ := Option.isSome_iff_exists.mp hs
  exact ⟨b, hb, List.find?_some hb⟩

/-- For every accepted mode the loop succeeds, with the results unchanged, iff every bound output equals its result. -/
theorem wrapLoop_of_matches (b : Nat) : (l : List (Ty × Arg)) → (rs : List Pl) → rs.length = l.length →
    modeMatches l b = true → wrapLoop b l rs = if allMatch l rs then some rs else none
  | [], [], _, _ => by simp [wrapLoop, allMatch]
  | [], _ :: _, hl, _ => by simp at hl
  | _ :: _, [], hl, _ => by simp at hl
  | (ty, a) :: rest, r :: rs, hl, hm => by
    have hl' : rs.length = rest.length := by simpa using hl
    have hm' : argMatches ty (b.testBit rest.length) a = true ∧ modeMatches rest b = true := by
      simpa [modeMatches] using hm
    have ih := wrapLoop_of_matches b rest rs hl' hm'.2
    cases a with
    | unbound =>
      simp only [wrapLoop, allMatch, ih]
      split <;> split <;> simp_all
    | bound t =>
      have hbit : b.testBit rest.length = true := by
        have := hm'.1
        simp [argMatches] at this
        exact this.1
      simp only [wrapLoop, allMatch, ih, hbit, if_true]
      by_cases hrt : r = t
      · simp only [hrt, if_true, decide_true, Bool.true_and]
        split <;> simp_all
      · simp [hrt]

end ProbLogProofs.ExternLemmas
