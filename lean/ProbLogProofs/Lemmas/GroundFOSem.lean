import ProbLogProofs.Lemmas.GroundFOSemDefs
import ProbLogProofs.Lemmas.GroundEval
/-!
# First-order grounder model: the semantic invariant through the continuation-passing evaluation (core Lean only)

Partial correctness relative to a model `M` of the first-order completion (`IsModelFO`) and to the unification facts
`UnifOK`: table entries and results denote truth values (`ResOK`: every answer is an instance of the goal and its key
has the value of the answer atom; every true instance of the goal is among the answers), and a consumer contract
(`SinkSem`) that says what one reported result adds to the consumer's accumulator.
-/
namespace ProbLogProofs.GroundFOSem
open ProbLogModel ProbLogModel.Formula ProbLogModel.GroundFO ProbLogProofs.GroundInv ProbLogProofs.GroundFOInv
open ProbLogModel.Sem (getB)

section
variable (chosen : Array Bool) (M : Model)

def ResOK (g : Goal) (rs : Results) (S : Store) : Prop :=
  (∀ r ∈ rs, Fits g.args r.1 ∧ Den chosen S r.2 (M g.pred r.1)) ∧
  (∀ a, Fits g.args a → M g.pred a = true → a ∈ rs.map (·.1))

structure SemInv (st : St) : Prop where
  ti : TI st
  g : ∀ e ∈ st.table.ground, Den chosen st.store e.2 (M e.1.1 e.1.2)
  n : ∀ e ∈ st.table.ng, ResOK chosen M e.1 e.2 st.store

def EvalSem (ev : Eval) : Prop :=
  ∀ g st rs st', SemInv chosen M st → ev g st = .ok (rs, st') →
    SemInv chosen M st' ∧ Grows st.store st'.store ∧ ResOK chosen M g rs st'.store

variable {chosen M}

theorem ResOK.mono {g : Goal} {rs : Results} {S S' : Store} (hg : Grows S S') (h : ResOK chosen M g rs S) :
    ResOK chosen M g rs S' :=
  ⟨fun r hr => ⟨(h.1 r hr).1, (h.1 r hr).2.mono hg⟩, h.2⟩

theorem ResOK.keys {g : Goal} {rs : Results} {S : Store} (h : ResOK chosen M g rs S) : KeysBelow S.nodes.length rs :=
  fun r hr => (h.1 r hr).2.1

theorem SemInv.store_step {st : St} {S' : Store} (h : SemInv chosen M st) (hs : SInv S') (hg : Grows st.store S') :
    SemInv chosen M { st with store := S' } :=
  ⟨h.ti.store_step hs hg, fun e he => (h.g e he).mono hg, fun e he => (h.n e he).mono hg⟩

variable (chosen M)

/-- Consumer contract.  `A`: structural predicate on the accumulator; `n`: number of clause variables; `key`: which
    bucket of the accumulator a clause assignment belongs to; `den acc ρ x`: value of bucket `x`; `G`: a guard (the
    conjuncts to the left); `Q`: what else must hold of the assignment (the conjuncts to the right). -/
def SinkSem {α κ : Type} (A : α → Nat → Prop) (n : Nat) (ctx0 : Ctx) (key : List Const → κ) (den : α → (Nat → Bool) → κ → Bool)
    (G : (Nat → Bool) → Bool) (Q : List Const → Prop) (sink : Sink α) : Prop :=
  ∀ ctx k acc st acc' st', ctx.length = n → Refines ctx0 ctx → SemInv chosen M st → A acc st.store.nodes.length →
    keyBelow st.store.nodes.length k → sink ctx k (acc, st) = .ok (acc', st') →
    SemInv chosen M st' ∧ Grows st.store st'.store ∧ A acc' st'.store.nodes.length ∧
    ∀ ρ, Val chosen st'.store ρ → ∀ x, (den acc' ρ x = true ↔
      den acc ρ x = true ∨ (G ρ = true ∧ keyVal ρ k = true ∧ ∃ τ, key (gl τ ctx) = x ∧ Q (gl τ ctx)))

/-- conclusion of the evaluation of a (list of) conjunct(s) with truth value `T` under the context `ctx` -/
def StepSem {α κ : Type} (A : α → Nat → Prop) (key : List Const → κ) (den : α → (Nat → Bool) → κ → Bool)
    (G : (Nat → Bool) → Bool) (Q : List Const → Prop) (T : List Const → Bool) (ctx : Ctx)
    (w w' : α × St) : Prop :=
  SemInv chosen M w'.2 ∧ Grows w.2.store w'.2.store ∧ A w'.1 w'.2.store.nodes.length ∧
  ∀ ρ, Val chosen w'.2.store ρ → ∀ x, (den w'.1 ρ x = true ↔
    den w.1 ρ x = true ∨ (G ρ = true ∧ ∃ τ, key (gl τ ctx) = x ∧ T (gl τ ctx) = true ∧ Q (gl τ ctx)))

variable {chosen M}

/-! ### feeding the results of a call -/

theorem feed_sem {α κ : Type} {A : α → Nat → Prop} (hA : ∀ a n m, n ≤ m → A a n → A a m) {n : Nat}
    {key : List Const → κ} {den : α → (Nat → Bool) → κ → Bool} {G : (Nat → Bool) → Bool} {Q : List Const → Prop}
    {sink : Sink α} (U : UnifOK) {ctx0 : Ctx} (hsink : SinkSem chosen M A n ctx0 key den G Q sink) (args : List Val)
    (ctx : Ctx) (hlen : ctx.length = n) (href : Refines ctx0 ctx) :
    ∀ (rs : Results) (acc : α) (st : St) (acc' : α) (st' : St), SemInv chosen M st → A acc st.store.nodes.length →
      KeysBelow st.store.nodes.length rs → feed sink args ctx rs (acc, st) = .ok (acc', st') →
      SemInv chosen M st' ∧ Grows st.store st'.store ∧ A acc' st'.store.nodes.length ∧
      ∀ ρ, Val chosen st'.store ρ → ∀ x, (den acc' ρ x = true ↔
        den acc ρ x = true ∨ (G ρ = true ∧ ∃ r ∈ rs, keyVal ρ r.2 = true ∧
          ∃ ctx', bindAnswer args r.1 ctx = some ctx' ∧ ∃ τ, key (gl τ ctx') = x ∧ Q (gl τ ctx')))
  | [], acc, st, acc', st', hs, ha, _, h => by
    simp only [feed, pure, Except.pure, Except.ok.injEq, Prod.mk.injEq] at h
    obtain ⟨rfl, rfl⟩ := h
    refine ⟨hs, Grows.refl _, ha, fun ρ _ x => ⟨fun h => Or.inl h, fun h => ?_⟩⟩
    rcases h with h | ⟨_, r, hr, _⟩
    · exact h
    · cases hr
  | (ans, k) :: r, acc, st, acc', st', hs, ha, hk, h => by
    have hkr : KeysBelow st.store.nodes.length r := fun x hx => hk x (List.mem_cons_of_mem _ hx)
    unfold feed at h
    split at h
    · -- FALSE node: no result
      rename_i hf
      obtain ⟨h1, h2, h3, h4⟩ := feed_sem hA U hsink args ctx hlen href r acc st acc' st' hs ha hkr h
      refine ⟨h1, h2, h3, fun ρ hρ x => ?_⟩
      rw [h4 ρ hρ x]
      have hkf : keyVal ρ k = false := by
        have : k = none := by cases k <;> simp_all [Formula.isFalse]
        rw [this]; rfl
      constructor
      · rintro (h | ⟨hG, r', hr', hrest⟩)
        · exact Or.inl h
        · exact Or.inr ⟨hG, r', List.mem_cons_of_mem _ hr', hrest⟩
      · rintro (h | ⟨hG, r', hr', hkv, hrest⟩)
        · exact Or.inl h
        · rcases List.mem_cons.1 hr' with h | h
          · subst h; rw [hkf] at hkv; cases hkv
          · exact Or.inr ⟨hG, r', h, hkv, hrest⟩
    · split at h
      · -- the answer does not fit the call
        rename_i hb
        obtain ⟨h1, h2, h3, h4⟩ := feed_sem hA U hsink args ctx hlen href r acc st acc' st' hs ha hkr h
        refine ⟨h1, h2, h3, fun ρ hρ x => ?_⟩
        rw [h4 ρ hρ x]
        constructor
        · rintro (h | ⟨hG, r', hr', hrest⟩)
          · exact Or.inl h
          · exact Or.inr ⟨hG, r', List.mem_cons_of_mem _ hr', hrest⟩
        · rintro (h | ⟨hG, r', hr', hkv, ctx', hc, hrest⟩)
          · exact Or.inl h
          · rcases List.mem_cons.1 hr' with h | h
            · subst h; rw [hb] at hc; cases hc
            · exact Or.inr ⟨hG, r', h, hkv, ctx', hc, hrest⟩
      · rename_i ctx' hb
        simp only [bind, Except.bind] at h
        cases hsk : sink ctx' k (acc, st) with
        | error e => rw [hsk] at h; cases h
        | ok w1 =>
          obtain ⟨acc1, st1⟩ := w1
          rw [hsk] at h
          have hl' : ctx'.length = n := by rw [U.bind_len _ _ _ _ hb]; exact hlen
          obtain ⟨s1, g1, a1, d1⟩ := hsink ctx' k acc st acc1 st1 hl' (href.trans (fun τ' => (U.bind_fwd _ _ _ _ hb τ').imp (fun _ h => h.2))) hs ha (hk (ans, k) List.mem_cons_self) hsk
          obtain ⟨s2, g2, a2, d2⟩ := feed_sem hA U hsink args ctx hlen href r acc1 st1 acc' st' s1 a1
            (hkr.mono (grows_length g1)) h
          refine ⟨s2, g1.trans g2, a2, fun ρ hρ x => ?_⟩
          rw [d2 ρ hρ x, d1 ρ (hρ.of_grows g2) x]
          constructor
          · rintro ((h | ⟨hG, hkv, hτ⟩) | ⟨hG, r', hr', hrest⟩)
            · exact Or.inl h
            · exact Or.inr ⟨hG, (ans, k), List.mem_cons_self, hkv, ctx', hb, hτ⟩
            · exact Or.inr ⟨hG, r', List.mem_cons_of_mem _ hr', hrest⟩
          · rintro (h | ⟨hG, r', hr', hkv, ctx2, hc, hτ⟩)
            · exact Or.inl (Or.inl h)
            · rcases List.mem_cons.1 hr' with h | h
              · subst h
                rw [hb] at hc; cases hc
                exact Or.inl (Or.inr ⟨hG, hkv, hτ⟩)
              · exact Or.inr ⟨hG, r', h, hkv, ctx2, hc, hτ⟩

/-! ### one conjunct -/

theorem any_const {l : List Key} {ρ : Nat → Bool} {v : Bool} (hne : l ≠ []) (h : ∀ k ∈ l, keyVal ρ k = v) :
    l.any (keyVal ρ) = v := by
  cases l with
  | nil => exact absurd rfl hne
  | cons x xs =>
    cases v with
    | false =>
      rw [Bool.eq_false_iff]
      intro hc
      obtain ⟨k, hk, hkv⟩ := List.any_eq_true.1 hc
      rw [h k hk] at hkv; cases hkv
    | true => exact List.any_eq_true.2 ⟨x, List.mem_cons_self, h x List.mem_cons_self⟩

theorem evalItem_sem {α κ : Type} {A : α → Nat → Prop} (hA : ∀ a n m, n ≤ m → A a n → A a m) {n : Nat}
    {key : List Const → κ} {den : α → (Nat → Bool) → κ → Bool} {G : (Nat → Bool) → Bool} {Q : List Const → Prop}
    {sink : Sink α} (U : UnifOK) (P : Prog) {ev : Eval} (hev : EvalSem chosen M ev) {ctx0 : Ctx}
    (hsink : SinkSem chosen M A n ctx0 key den G Q sink) (i : Item) (ctx : Ctx) (hlen : ctx.length = n)
    (href : Refines ctx0 ctx)
    (hr : Item.inRange n i) (acc : α) (st : St) (acc' : α) (st' : St) (hs : SemInv chosen M st)
    (ha : A acc st.store.nodes.length) (h : evalItem P ev sink i ctx (acc, st) = .ok (acc', st')) :
    StepSem chosen M A key den G Q (fun θ => itemTrueFO P.nconsts chosen M θ i) ctx (acc, st) (acc', st') := by
  cases i with
  | choice c =>
    simp only [evalItem] at h
    split at h
    · cases h
    · rename_i cs hcs
      have hat := addAtom_step hs.ti.s chosen (c.ident + enc P.nconsts cs) (.prob c.prob)
        (some (c.group + enc P.nconsts cs)) (some (.pos (c.name + enc P.nconsts cs)))
      generalize st.store.addAtom (.user ((c.ident + enc P.nconsts cs : Nat) : Int)) .normal (.prob c.prob)
        (some (c.group + enc P.nconsts cs)) (some (.pos (c.name + enc P.nconsts cs))) = R at h hat
      obtain ⟨S1, g⟩ := R
      obtain ⟨hs1, hg1, _, hf1, hd1⟩ := hat
      simp only at h hs1 hg1 hf1 hd1
      rw [hf1] at h
      simp only [Bool.false_eq_true, if_false] at h
      obtain ⟨s2, g2, a2, d2⟩ := hsink ctx g acc { st with store := S1 } acc' st' hlen href (hs.store_step hs1 hg1)
        (hA _ _ _ (grows_length hg1) ha) hd1.1 h
      refine ⟨s2, hg1.trans g2, a2, fun ρ hρ x => ?_⟩
      rw [d2 ρ hρ x]
      have hkv : keyVal ρ g = getB chosen (c.ident + enc P.nconsts cs) := hd1.2 ρ (hρ.of_grows g2)
      constructor
      · rintro (h | ⟨hG, hk, τ, hx, hq⟩)
        · exact Or.inl h
        · refine Or.inr ⟨hG, τ, hx, ?_, hq⟩
          show getB chosen (c.ident + enc P.nconsts (gl τ ctx)) = true
          rw [allConsts_gl hcs τ, ← hkv]; exact hk
      · rintro (h | ⟨hG, τ, hx, ht, hq⟩)
        · exact Or.inl h
        · refine Or.inr ⟨hG, ?_, τ, hx, hq⟩
          have ht' : getB chosen (c.ident + enc P.nconsts (gl τ ctx)) = true := ht
          rw [allConsts_gl hcs τ] at ht'
          rw [hkv]; exact ht'
  | lit l =>
    cases l with
    | tt =>
      simp only [evalItem] at h
      obtain ⟨s2, g2, a2, d2⟩ := hsink ctx TRUE acc st acc' st' hlen href hs ha (Nat.zero_le _) h
      refine ⟨s2, g2, a2, fun ρ hρ x => ?_⟩
      rw [d2 ρ hρ x]
      constructor
      · rintro (h | ⟨hG, _, τ, hx, hq⟩)
        · exact Or.inl h
        · exact Or.inr ⟨hG, τ, hx, rfl, hq⟩
      · rintro (h | ⟨hG, τ, hx, _, hq⟩)
        · exact Or.inl h
        · exact Or.inr ⟨hG, rfl, τ, hx, hq⟩
    | pos a =>
      have hra : ∀ t ∈ a.args, Term.inRange ctx.length t := by rw [hlen]; exact hr
      simp only [evalItem, bind, Except.bind] at h
      cases hev1 : ev ⟨a.pred, (canon (a.args.map (Term.val ctx)) []).1⟩ st with
      | error e => rw [hev1] at h; cases h
      | ok r =>
        obtain ⟨rs, st1⟩ := r
        rw [hev1] at h
        obtain ⟨hs1, hg1, hres⟩ := hev _ _ _ _ hs hev1
        obtain ⟨s2, g2, a2, d2⟩ := feed_sem hA U hsink (a.args.map (Term.val ctx)) ctx hlen href rs acc st1 acc' st' hs1
          (hA _ _ _ (grows_length hg1) ha) hres.keys h
        refine ⟨s2, hg1.trans g2, a2, fun ρ hρ x => ?_⟩
        rw [d2 ρ hρ x]
        have hρ1 : Val chosen st1.store ρ := hρ.of_grows g2
        constructor
        · rintro (h | ⟨hG, r, hr', hkv, ctx', hb, τ', hx, hq⟩)
          · exact Or.inl h
          · obtain ⟨τ, hτa, hτc⟩ := U.bind_fwd _ _ _ _ hb τ'
            refine Or.inr ⟨hG, τ, by rw [hτc]; exact hx, ?_, by rw [hτc]; exact hq⟩
            show M a.pred (a.args.map (Term.ground (gl τ ctx))) = true
            rw [← vals_ground τ ctx a.args hra, hτa, ← (hres.1 r hr').2.2 ρ hρ1]
            exact hkv
        · rintro (h | ⟨hG, τ, hx, ht, hq⟩)
          · exact Or.inl h
          · have ht' : M a.pred (a.args.map (Term.ground (gl τ ctx))) = true := ht
            rw [← vals_ground τ ctx a.args hra] at ht'
            have hfit : Fits (canon (a.args.map (Term.val ctx)) []).1 (gl τ (a.args.map (Term.val ctx))) :=
              (U.canon_fits _ _).2 ⟨τ, rfl⟩
            have hmem := hres.2 _ hfit ht'
            obtain ⟨r, hr', hr1⟩ := List.mem_map.1 hmem
            obtain ⟨ctx', hb, hc⟩ := U.bind_bwd (a.args.map (Term.val ctx)) _ ctx τ rfl
            refine Or.inr ⟨hG, r, hr', ?_, ctx', by rw [hr1]; exact hb, τ, by rw [hc]; exact hx, by rw [hc]; exact hq⟩
            rw [(hres.1 r hr').2.2 ρ hρ1, hr1]; exact ht'
    | neg a =>
      have hra : ∀ t ∈ a.args, Term.inRange ctx.length t := by rw [hlen]; exact hr
      simp only [evalItem] at h
      split at h
      · cases h
      · rename_i cs hcs
        have hargs : ∀ τ, a.args.map (Term.ground (gl τ ctx)) = cs := fun τ => by
          rw [← vals_ground τ ctx a.args hra]; exact allConsts_gl hcs τ
        simp only [bind, Except.bind] at h
        cases hev1 : ev ⟨a.pred, a.args.map (Term.val ctx)⟩ st with
        | error e => rw [hev1] at h; cases h
        | ok r =>
          obtain ⟨rs, st1⟩ := r
          rw [hev1] at h
          obtain ⟨hs1, hg1, hres⟩ := hev _ _ _ _ hs hev1
          have ha1 : A acc st1.store.nodes.length := hA _ _ _ (grows_length hg1) ha
          have hfitcs : ∀ r ∈ rs, r.1 = cs := fun r hr' => by
            obtain ⟨τ, hτ⟩ := (hres.1 r hr').1
            rw [← hτ]; exact allConsts_gl hcs τ
          simp only at h
          generalize hF : rs.filter (fun r => !Formula.isFalse r.2) = F at h
          match F, hF, h with
          | [], hF, h =>
            obtain ⟨s2, g2, a2, d2⟩ := hsink ctx TRUE acc st1 acc' st' hlen href hs1 ha1 (Nat.zero_le _) h
            refine ⟨s2, hg1.trans g2, a2, fun ρ hρ x => ?_⟩
            rw [d2 ρ hρ x]
            have hMf : M a.pred cs = false := by
              rw [Bool.eq_false_iff]
              intro hMt
              have hmem := hres.2 cs ⟨fun _ => 0, allConsts_gl hcs _⟩ hMt
              obtain ⟨r, hr', hr1⟩ := List.mem_map.1 hmem
              have hkv := (hres.1 r hr').2.2 ρ (hρ.of_grows g2)
              rw [hr1, hMt] at hkv
              have hnf : r ∉ rs.filter (fun r => !Formula.isFalse r.2) := by rw [hF]; exact List.not_mem_nil
              have : Formula.isFalse r.2 = true := by
                cases hfb : Formula.isFalse r.2 with
                | true => rfl
                | false => exact absurd (List.mem_filter.2 ⟨hr', by simp [hfb]⟩) hnf
              rw [(GroundEval.isFalse_iff r.2).1 this] at hkv
              cases hkv
            constructor
            · rintro (h | ⟨hG, _, τ, hx, hq⟩)
              · exact Or.inl h
              · refine Or.inr ⟨hG, τ, hx, ?_, hq⟩
                show (!M a.pred (a.args.map (Term.ground (gl τ ctx)))) = true
                rw [hargs τ, hMf]; rfl
            · rintro (h | ⟨hG, τ, hx, _, hq⟩)
              · exact Or.inl h
              · exact Or.inr ⟨hG, rfl, τ, hx, hq⟩
          | y :: ys, hF, h =>
            simp only [bind, Except.bind] at h
            cases hor : st1.store.addOr ((y :: ys).map (·.2)) with
            | error e => rw [hor] at h; simp [liftF] at h
            | ok r2 =>
              obtain ⟨S2, k'⟩ := r2
              rw [hor] at h
              simp only [liftF] at h
              have hsubF : ∀ f ∈ y :: ys, f ∈ rs := fun f hf => by
                have : f ∈ rs.filter (fun r => !Formula.isFalse r.2) := by rw [hF]; exact hf
                exact (List.mem_filter.1 this).1
              have hsub : ∀ c ∈ (y :: ys).map (·.2), keyBelow st1.store.nodes.length c := by
                intro c hc
                obtain ⟨f, hf, rfl⟩ := List.mem_map.1 hc
                exact (hres.1 f (hsubF f hf)).2.1
              have hcr := addCompound_cres _ _ _ _ _ _ _ _ _ hor
              obtain ⟨hs2, hg2, hb2⟩ := addOr_ok hs1.ti.s hsub hor
              have hsem2 : ∀ ρ, Val chosen S2 ρ → keyVal ρ k' = M a.pred cs := by
                intro ρ hρ
                rw [hcr.sem hs1.ti.s.wf ρ hρ.1]
                apply any_const (by simp)
                intro k hk
                obtain ⟨f, hf, rfl⟩ := List.mem_map.1 hk
                rw [(hres.1 f (hsubF f hf)).2.2 ρ (hρ.of_grows hg2), hfitcs f (hsubF f hf)]
              have hst2 : SemInv chosen M { st1 with store := S2 } := hs1.store_step hs2 hg2
              have ha2 : A acc S2.nodes.length := hA _ _ _ (grows_length hg2) ha1
              split at h
              · rename_i hfn
                simp only [pure, Except.pure, Except.ok.injEq, Prod.mk.injEq] at h
                obtain ⟨rfl, rfl⟩ := h
                refine ⟨hst2, hg1.trans hg2, ha2, fun ρ hρ x => ⟨fun h => Or.inl h, fun h => ?_⟩⟩
                rcases h with h | ⟨_, τ, _, ht, _⟩
                · exact h
                · exfalso
                  have ht' : (!M a.pred (a.args.map (Term.ground (gl τ ctx)))) = true := ht
                  rw [hargs τ, ← hsem2 ρ hρ, ← GroundEval.negate_keyVal, (GroundEval.isFalse_iff _).1 hfn] at ht'
                  cases ht'
              · obtain ⟨s3, g3, a3, d3⟩ := hsink ctx (negate k') acc { st1 with store := S2 } acc' st' hlen href hst2 ha2
                  (keyBelow_negate _ _ hb2) h
                refine ⟨s3, (hg1.trans hg2).trans g3, a3, fun ρ hρ x => ?_⟩
                rw [d3 ρ hρ x]
                have hkv : keyVal ρ (negate k') = !M a.pred cs := by
                  rw [GroundEval.negate_keyVal, hsem2 ρ (hρ.of_grows g3)]
                constructor
                · rintro (h | ⟨hG, hk, τ, hx, hq⟩)
                  · exact Or.inl h
                  · refine Or.inr ⟨hG, τ, hx, ?_, hq⟩
                    show (!M a.pred (a.args.map (Term.ground (gl τ ctx)))) = true
                    rw [hargs τ, ← hkv]; exact hk
                · rintro (h | ⟨hG, τ, hx, ht, hq⟩)
                  · exact Or.inl h
                  · refine Or.inr ⟨hG, ?_, τ, hx, hq⟩
                    have ht' : (!M a.pred (a.args.map (Term.ground (gl τ ctx)))) = true := ht
                    rw [hargs τ] at ht'
                    rw [hkv]; exact ht'

/-! ### a right-nested conjunction -/

theorem evalItems_sem {α κ : Type} (U : UnifOK) (P : Prog) {ev : Eval} (hev : EvalSem chosen M ev) {n : Nat}
    {key : List Const → κ} {den : α → (Nat → Bool) → κ → Bool} :
    ∀ (is : List Item) (A : α → Nat → Prop), (∀ a n m, n ≤ m → A a n → A a m) →
      ∀ (G : (Nat → Bool) → Bool) (Q : List Const → Prop) (sink : Sink α) (ctx0 : Ctx),
      SinkSem chosen M A n ctx0 key den G Q sink →
      ∀ (ctx : Ctx), ctx.length = n → Refines ctx0 ctx → (∀ i ∈ is, Item.inRange n i) →
      ∀ (acc : α) (st : St) (acc' : α) (st' : St), SemInv chosen M st → A acc st.store.nodes.length →
        evalItems P ev is sink ctx (acc, st) = .ok (acc', st') →
        StepSem chosen M A key den G Q (fun θ => is.all (itemTrueFO P.nconsts chosen M θ)) ctx (acc, st) (acc', st')
  | [], _, _, _, _, _, _, _, _, _, _, _, _, _, _, _, _, _, h => by simp [evalItems] at h
  | [i], A, hA, G, Q, sink, ctx0, hsink, ctx, hlen, href, hr, acc, st, acc', st', hs, ha, h => by
    simp only [evalItems] at h
    obtain ⟨s1, g1, a1, d1⟩ := evalItem_sem hA U P hev hsink i ctx hlen href (hr i List.mem_cons_self) acc st acc' st' hs ha h
    refine ⟨s1, g1, a1, fun ρ hρ x => ?_⟩
    rw [d1 ρ hρ x]
    simp only [List.all_cons, List.all_nil, Bool.and_true]
  | i :: j :: rest, A, hA, G, Q, sink, ctx0, hsink, ctx, hlen, href, hr, acc, st, acc', st', hs, ha, h => by
    simp only [evalItems] at h
    have hrr : ∀ i' ∈ j :: rest, Item.inRange n i' := fun i' hi' => hr i' (List.mem_cons_of_mem _ hi')
    have hsi : SinkSem chosen M A n ctx0 key den G
        (fun θ => (j :: rest).all (itemTrueFO P.nconsts chosen M θ) = true ∧ Q θ)
        (fun ctx1 k1 w1 =>
          if Formula.isFalse k1 = true then pure w1
          else evalItems P ev (j :: rest) (fun ctx2 k2 (x : α × St) => match x with
            | (acc2, st2) => do
              let (S3, k) ← liftF (st2.store.addAnd [k1, k2])
              sink ctx2 k (acc2, { st2 with store := S3 })) ctx1 w1) := by
      intro ctx1 k1 acc1 st1 acc1' st1' hl1 href1 hs1 ha1 hk1 h1
      simp only at h1
      split at h1
      · rename_i hf
        simp only [pure, Except.pure, Except.ok.injEq, Prod.mk.injEq] at h1
        obtain ⟨rfl, rfl⟩ := h1
        refine ⟨hs1, Grows.refl _, ha1, fun ρ _ x => ⟨fun h => Or.inl h, fun h => ?_⟩⟩
        rcases h with h | ⟨_, hk, _⟩
        · exact h
        · rw [(GroundEval.isFalse_iff k1).1 hf] at hk; cases hk
      · have hinner : SinkSem chosen M (fun a m => A a m ∧ keyBelow m k1) n ctx0 key den
            (fun ρ => G ρ && keyVal ρ k1) Q
            (fun ctx2 k2 (x : α × St) => match x with
              | (acc2, st2) => do
                let (S3, k) ← liftF (st2.store.addAnd [k1, k2])
                sink ctx2 k (acc2, { st2 with store := S3 })) := by
          intro ctx2 k2 acc2 st2 acc2' st2' hl2 href2 hs2 ha2 hk2 h2
          simp only [bind, Except.bind] at h2
          cases hand : st2.store.addAnd [k1, k2] with
          | error e => rw [hand] at h2; simp [liftF] at h2
          | ok r3 =>
            obtain ⟨S3, k⟩ := r3
            rw [hand] at h2
            simp only [liftF] at h2
            have hcr := addCompound_cres _ _ _ _ _ _ _ _ _ hand
            obtain ⟨hs3, hg3, hb3⟩ := addAnd_ok hs2.ti.s (fun c hc => by
              rcases List.mem_cons.1 hc with h | h
              · rw [h]; exact ha2.2
              · rw [List.mem_singleton.1 h]; exact hk2) hand
            obtain ⟨s4, g4, a4, d4⟩ := hsink ctx2 k acc2 { st2 with store := S3 } acc2' st2' hl2 href2
              (hs2.store_step hs3 hg3) (hA _ _ _ (grows_length hg3) ha2.1) hb3 h2
            refine ⟨s4, hg3.trans g4, ⟨a4, keyBelow_mono (grows_length (hg3.trans g4)) ha2.2⟩, fun ρ hρ x => ?_⟩
            rw [d4 ρ hρ x]
            have hk : keyVal ρ k = (keyVal ρ k1 && keyVal ρ k2) := by
              have := hcr.sem hs2.ti.s.wf ρ (hρ.of_grows g4).1
              simpa [Kind.sem] using this
            rw [hk]
            simp only [Bool.and_eq_true]
            constructor
            · rintro (h | ⟨hG, ⟨h1, h2⟩, hτ⟩)
              · exact Or.inl h
              · exact Or.inr ⟨⟨hG, h1⟩, h2, hτ⟩
            · rintro (h | ⟨⟨hG, h1⟩, h2, hτ⟩)
              · exact Or.inl h
              · exact Or.inr ⟨hG, ⟨h1, h2⟩, hτ⟩
        have hA' : ∀ a n m, n ≤ m → (A a n ∧ keyBelow n k1) → (A a m ∧ keyBelow m k1) :=
          fun a n m hnm hh => ⟨hA a n m hnm hh.1, keyBelow_mono hnm hh.2⟩
        obtain ⟨s5, g5, a5, d5⟩ := evalItems_sem U P hev (j :: rest) _ hA' _ Q _ ctx0 hinner ctx1 hl1 href1 hrr acc1 st1 acc1' st1'
          hs1 ⟨ha1, hk1⟩ h1
        refine ⟨s5, g5, a5.1, fun ρ hρ x => ?_⟩
        rw [d5 ρ hρ x]
        simp only [Bool.and_eq_true]
        constructor
        · rintro (h | ⟨⟨hG, hk⟩, τ, hx, ht, hq⟩)
          · exact Or.inl h
          · exact Or.inr ⟨hG, hk, τ, hx, ht, hq⟩
        · rintro (h | ⟨hG, hk, τ, hx, ht, hq⟩)
          · exact Or.inl h
          · exact Or.inr ⟨⟨hG, hk⟩, τ, hx, ht, hq⟩
    obtain ⟨s1, g1, a1, d1⟩ := evalItem_sem hA U P hev hsi i ctx hlen href (hr i List.mem_cons_self) acc st acc' st' hs ha h
    refine ⟨s1, g1, a1, fun ρ hρ x => ?_⟩
    rw [d1 ρ hρ x]
    constructor
    · rintro (h | ⟨hG, τ, hx, ht, hrest, hq⟩)
      · exact Or.inl h
      · refine Or.inr ⟨hG, τ, hx, ?_, hq⟩
        show (i :: j :: rest).all (itemTrueFO P.nconsts chosen M (gl τ ctx)) = true
        rw [List.all_cons, Bool.and_eq_true]; exact ⟨ht, hrest⟩
    · rintro (h | ⟨hG, τ, hx, ht, hq⟩)
      · exact Or.inl h
      · have ht' : (i :: j :: rest).all (itemTrueFO P.nconsts chosen M (gl τ ctx)) = true := ht
        rw [List.all_cons, Bool.and_eq_true] at ht'
        exact Or.inr ⟨hG, τ, hx, ht'.1, ht'.2, hq⟩

end

end ProbLogProofs.GroundFOSem
