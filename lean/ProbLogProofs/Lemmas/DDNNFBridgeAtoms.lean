/-
Re-indexing the sum over bottom-up consistent total valuations of an acyclic store `D` by atom assignments:
`T ↦ T ∩ atoms`, inverse `α ↦ ext α` (the completion of `α` by the program, `C09_clark_unique`).
-/
import ProbLogProofs.Lemmas.DDNNFBridgeTable
import ProbLogProofs.Lemmas.DDNNFBridgeAD
import Mathlib.Order.Interval.Finset.Nat

open Finset

namespace ProbLogProofs.DDNNF
open ProbLogModel.DDNNF ProbLogModel.Formula ProbLogModel.Clark ProbLogProofs.Lemmas.Clark

/-- node `i` (1-based) of `D` is an atom -/
def isAtomAt (D : Store) (i : Nat) : Bool :=
  match D.nodes[i - 1]? with
  | some nd => isAtom nd
  | none => false

/-- the atoms of `D` (probabilistic facts, AD choices, extra nodes) -/
def atomsF (D : Store) : Finset Nat := (Finset.Icc 1 D.nodes.length).filter (fun i => isAtomAt D i = true)

/-- the completion of the atom assignment `α`: the node ids the acyclic program makes true -/
def ext (D : Store) (α : Finset Nat) : Finset Nat :=
  (Finset.Icc 1 D.nodes.length).filter (fun i => dagEval D (assign α) (some (i : Int)) = true)

/-- node part of `dagConsistent` -/
def nodeCons (D : Store) (T : Finset Nat) : Bool :=
  (List.range D.nodes.length).all (fun j =>
    decide ((j + 1) ∈ T) == dagEval D (assign T) (some ((j + 1 : Nat) : Int)))

/-- AD part of `dagConsistent`: the clauses of every AD constraint hold under `T` (exactly one of members + extra,
`C09_clark_constraints`) -/
def adOK (D : Store) (T : Finset Nat) : Bool :=
  D.ads.all (fun a => match adClauses a with
    | .ok cls => satCNF (assign T) cls
    | .error _ => false)

theorem dagConsistent_eq (D : Store) (T : Finset Nat) : dagConsistent D T = (nodeCons D T && adOK D T) := rfl

theorem nodeCons_iff (D : Store) (T : Finset Nat) :
    nodeCons D T = true ↔
      ∀ i : Nat, 1 ≤ i → i ≤ D.nodes.length → assign T i = dagEval D (assign T) (some (i : Int)) := by
  unfold nodeCons
  rw [List.all_eq_true]
  constructor
  · intro h1 i hi1 hi2
    have := h1 (i - 1) (List.mem_range.mpr (by omega))
    rw [show i - 1 + 1 = i by omega] at this
    simpa [assign] using this
  · intro h1 j hj
    have := h1 (j + 1) (by omega) (by have := List.mem_range.mp hj; omega)
    simpa [assign] using this

theorem mem_atomsF_of_get {D : Store} {j : Nat} {a g e n} (h : D.nodes[j]? = some (.atom a g e n)) :
    j + 1 ∈ atomsF D := by
  have hlt : j < D.nodes.length := (List.getElem?_eq_some_iff.mp h).1
  unfold atomsF
  rw [Finset.mem_filter, Finset.mem_Icc]
  refine ⟨⟨by omega, by omega⟩, ?_⟩
  unfold isAtomAt
  rw [Nat.add_sub_cancel, h]; rfl

/-- the program's values depend on the valuation only at the atoms -/
theorem dagEval_congr (D : Store) (v v' : Nat → Bool) (h : ∀ x ∈ atomsF D, v x = v' x) (k : Key) :
    dagEval D v k = dagEval D v' k := by
  unfold dagEval
  rw [dagVals_congr v v' D.nodes (fun j a g e n hj => h _ (mem_atomsF_of_get hj))]

/-- at an atom the program's value is the valuation's -/
theorem dagEval_atom (D : Store) (v : Nat → Bool) (x : Nat) (hx : x ∈ atomsF D) :
    dagEval D v (some (x : Int)) = v x := by
  unfold atomsF at hx
  rw [Finset.mem_filter, Finset.mem_Icc] at hx
  obtain ⟨⟨h1, h2⟩, h3⟩ := hx
  unfold isAtomAt at h3
  cases hnd : D.nodes[x - 1]? with
  | none => rw [hnd] at h3; cases h3
  | some nd =>
    rw [hnd] at h3
    cases nd with
    | atom a g e n =>
      have := dagVals_atom v D.nodes (x - 1) a g e n hnd
      rw [show x - 1 + 1 = x by omega] at this
      have h0 : x ≠ 0 := by omega
      have hneg : ¬ ((x : Int) < 0) := by omega
      rw [List.getD_eq_getElem?_getD] at this
      simp [dagEval, childVal, h0, hneg]
      exact this
    | conj cs nm => simp [isAtom] at h3
    | disj cs nm => simp [isAtom] at h3

theorem mem_ext_atom (D : Store) (α : Finset Nat) (x : Nat) (hx : x ∈ atomsF D) : x ∈ ext D α ↔ x ∈ α := by
  unfold ext
  rw [Finset.mem_filter, dagEval_atom D _ x hx]
  have : x ∈ Finset.Icc 1 D.nodes.length := (Finset.mem_filter.mp hx).1
  simp [assign, this]

theorem ext_subset (D : Store) (α : Finset Nat) : ext D α ⊆ Finset.Icc 1 D.nodes.length :=
  Finset.filter_subset _ _

theorem ext_inter_atoms (D : Store) (α : Finset Nat) (hα : α ⊆ atomsF D) : ext D α ∩ atomsF D = α := by
  ext x
  rw [Finset.mem_inter]
  constructor
  · rintro ⟨h1, h2⟩; exact (mem_ext_atom D α x h2).mp h1
  · intro h; exact ⟨(mem_ext_atom D α x (hα h)).mpr h, hα h⟩

theorem assign_inter_agree (D : Store) (T : Finset Nat) :
    ∀ x ∈ atomsF D, assign (T ∩ atomsF D) x = assign T x := by
  intro x hx; simp [assign, hx]

theorem assign_ext_agree (D : Store) (α : Finset Nat) : ∀ x ∈ atomsF D, assign (ext D α) x = assign α x := by
  intro x hx
  have := mem_ext_atom D α x hx
  simp only [assign]
  exact decide_eq_decide.mpr this

/-- a consistent total valuation is the completion of its atoms -/
theorem ext_inter_of_nodeCons (D : Store) (T : Finset Nat) (hT : T ⊆ Finset.Icc 1 D.nodes.length)
    (hc : nodeCons D T = true) : ext D (T ∩ atomsF D) = T := by
  ext i
  unfold ext
  rw [Finset.mem_filter, dagEval_congr D _ _ (assign_inter_agree D T)]
  constructor
  · rintro ⟨hi, he⟩
    rw [Finset.mem_Icc] at hi
    have := (nodeCons_iff D T).mp hc i hi.1 hi.2
    rw [← this] at he
    simpa [assign] using he
  · intro hi
    have hI := hT hi
    refine ⟨hI, ?_⟩
    rw [Finset.mem_Icc] at hI
    rw [← (nodeCons_iff D T).mp hc i hI.1 hI.2]
    simpa [assign] using hi

/-- the completion of an atom assignment is consistent -/
theorem nodeCons_ext (D : Store) (α : Finset Nat) : nodeCons D (ext D α) = true := by
  rw [nodeCons_iff]
  intro i h1 h2
  rw [dagEval_congr D _ _ (assign_ext_agree D α)]
  have hI : i ∈ Finset.Icc 1 D.nodes.length := Finset.mem_Icc.mpr ⟨h1, h2⟩
  have hm : i ∈ ext D α ↔ dagEval D (assign α) (some (i : Int)) = true := by
    unfold ext; rw [Finset.mem_filter]; exact ⟨fun h => h.2, fun h => ⟨hI, h⟩⟩
  show decide (i ∈ ext D α) = _
  cases hd : dagEval D (assign α) (some (i : Int))
  · rw [hd] at hm; simp [hm]
  · rw [hd] at hm; simp [hm]

/-- the AD clauses only look at the constraint members -/
theorem adOK_congr (D : Store) (T T' : Finset Nat)
    (hmem : ∀ a ∈ D.ads, ∀ x ∈ adMembers a, x ∈ atomsF D)
    (h : ∀ x ∈ atomsF D, assign T x = assign T' x) : adOK D T = adOK D T' := by
  unfold adOK
  apply all_congr_mem
  intro a ha
  cases hcl : adClauses a with
  | error e => rfl
  | ok cls =>
    simp only
    by_cases hlen : a.nodes.length ≤ 1
    · unfold adClauses at hcl
      rw [if_pos hlen] at hcl
      injection hcl with hcl
      subst hcl; rfl
    · cases hex : a.extra with
      | none =>
        unfold adClauses at hcl
        rw [if_neg hlen, hex] at hcl
        cases hcl
      | some e =>
        have hm : ∀ x ∈ a.nodes ++ [e], x ∈ atomsF D := by
          intro x hx
          apply hmem a ha x
          unfold adMembers; rw [hex]; simpa using hx
        have hpos : ∀ x ∈ a.nodes ++ [e], 0 < x := by
          intro x hx
          have := (Finset.mem_filter.mp (hm x hx)).1
          rw [Finset.mem_Icc] at this; omega
        rw [Bool.eq_iff_iff, ProbLogProofs.C09.C09_clark_constraints (assign T) a e cls (by omega) hex hpos hcl,
          ProbLogProofs.C09.C09_clark_constraints (assign T') a e cls (by omega) hex hpos hcl]
        have : (a.nodes ++ [e]).countP (assign T) = (a.nodes ++ [e]).countP (assign T') := by
          apply List.countP_congr
          intro x hx
          rw [h x (hm x hx)]
        rw [this]

/-- weight of an atom assignment -/
def atomWt (W : List (Nat × (Rat × Rat))) (A α : Finset Nat) : Rat :=
  ∏ x ∈ A, if x ∈ α then (wfun W x).1 else (wfun W x).2

theorem atomsF_subset (D : Store) : atomsF D ⊆ Finset.Icc 1 D.nodes.length := Finset.filter_subset _ _

theorem nodeWt_eq_atomWt (D : Store) (W : List (Nat × (Rat × Rat))) (T : Finset Nat)
    (hW1 : ∀ x ∈ Finset.Icc 1 D.nodes.length, x ∉ atomsF D → wfun W x = (1, 1)) :
    nodeWt W (Finset.Icc 1 D.nodes.length) T = atomWt W (atomsF D) (T ∩ atomsF D) := by
  unfold nodeWt atomWt atomsF
  rw [Finset.prod_filter]
  apply Finset.prod_congr rfl
  intro x hx
  by_cases ha : isAtomAt D x = true
  · have hxa : x ∈ atomsF D := Finset.mem_filter.mpr ⟨hx, ha⟩
    unfold atomsF at hxa
    simp [ha, hxa]
  · have hxa : x ∉ atomsF D := fun h => ha (Finset.mem_filter.mp h).2
    rw [if_neg ha, hW1 x hx hxa]
    simp

/-- **re-indexing**: a sum over the consistent total valuations `T` with property `φ` is the sum over the atom
assignments `α` satisfying the AD constraints whose completion has `φ` -/
theorem sum_consistent_eq_sum_atoms (D : Store) (W : List (Nat × (Rat × Rat))) (φ : Finset Nat → Prop)
    [DecidablePred φ]
    (hmem : ∀ a ∈ D.ads, ∀ x ∈ adMembers a, x ∈ atomsF D)
    (hW1 : ∀ x ∈ Finset.Icc 1 D.nodes.length, x ∉ atomsF D → wfun W x = (1, 1)) :
    ∑ T ∈ (Finset.Icc 1 D.nodes.length).powerset with (dagConsistent D T = true ∧ φ T),
        nodeWt W (Finset.Icc 1 D.nodes.length) T =
      ∑ α ∈ (atomsF D).powerset with (adOK D α = true ∧ φ (ext D α)), atomWt W (atomsF D) α := by
  apply Finset.sum_nbij' (fun T => T ∩ atomsF D) (fun α => ext D α)
  · intro T hT
    rw [Finset.mem_filter, Finset.mem_powerset] at hT
    obtain ⟨hsub, hc, hφ⟩ := hT
    rw [dagConsistent_eq, Bool.and_eq_true] at hc
    rw [Finset.mem_filter, Finset.mem_powerset]
    refine ⟨Finset.inter_subset_right, ?_, ?_⟩
    · rw [adOK_congr D _ T hmem (assign_inter_agree D T)]; exact hc.2
    · rw [ext_inter_of_nodeCons D T hsub hc.1]; exact hφ
  · intro α hα
    rw [Finset.mem_filter, Finset.mem_powerset] at hα
    obtain ⟨hsub, hc, hφ⟩ := hα
    rw [Finset.mem_filter, Finset.mem_powerset]
    refine ⟨ext_subset D α, ?_, hφ⟩
    rw [dagConsistent_eq, Bool.and_eq_true]
    exact ⟨nodeCons_ext D α, by rw [adOK_congr D _ α hmem (assign_ext_agree D α)]; exact hc⟩
  · intro T hT
    rw [Finset.mem_filter, Finset.mem_powerset] at hT
    obtain ⟨hsub, hc, _⟩ := hT
    rw [dagConsistent_eq, Bool.and_eq_true] at hc
    exact ext_inter_of_nodeCons D T hsub hc.1
  · intro α hα
    rw [Finset.mem_filter, Finset.mem_powerset] at hα
    exact ext_inter_atoms D α hα.1
  · intro T _
    exact nodeWt_eq_atomWt D W T hW1

theorem sum_consistent_query (D : Store) (W : List (Nat × (Rat × Rat))) (q : Int)
    (hmem : ∀ a ∈ D.ads, ∀ x ∈ adMembers a, x ∈ atomsF D)
    (hW1 : ∀ x ∈ Finset.Icc 1 D.nodes.length, x ∉ atomsF D → wfun W x = (1, 1)) :
    ∑ T ∈ (Finset.Icc 1 D.nodes.length).powerset with
        (dagConsistent D T = true ∧ dagEval D (assign T) (some q) = true),
        nodeWt W (Finset.Icc 1 D.nodes.length) T =
      ∑ α ∈ (atomsF D).powerset with (adOK D α = true ∧ dagEval D (assign α) (some q) = true),
        atomWt W (atomsF D) α := by
  rw [sum_consistent_eq_sum_atoms D W (fun T => dagEval D (assign T) (some q) = true) hmem hW1]
  apply Finset.sum_congr _ (fun _ _ => rfl)
  apply Finset.filter_congr
  intro α _
  rw [dagEval_congr D _ _ (assign_ext_agree D α)]

theorem sum_consistent_all (D : Store) (W : List (Nat × (Rat × Rat)))
    (hmem : ∀ a ∈ D.ads, ∀ x ∈ adMembers a, x ∈ atomsF D)
    (hW1 : ∀ x ∈ Finset.Icc 1 D.nodes.length, x ∉ atomsF D → wfun W x = (1, 1)) :
    ∑ T ∈ (Finset.Icc 1 D.nodes.length).powerset with dagConsistent D T = true,
        nodeWt W (Finset.Icc 1 D.nodes.length) T =
      ∑ α ∈ (atomsF D).powerset with adOK D α = true, atomWt W (atomsF D) α := by
  have h := sum_consistent_eq_sum_atoms D W (fun _ => True) hmem hW1
  simp only [and_true] at h
  exact h

end ProbLogProofs.DDNNF
