/-
`extractWeights` (`extract_weights` + `ConstraintAD.update_weights`) commutes with an injective renaming of the
variables: the table of the loaded store at `ρ x` is the table of the CNF at `x`. Core only.
-/
import ProbLogProofs.Lemmas.DDNNFBridgeWeights
namespace ProbLogProofs.DDNNF
open ProbLogModel.DDNNF ProbLogModel.Formula ProbLogModel.Clark

/-- `extract_weights` for one stored weight: `True ↦ (1,1)`, `False ↦ (0,1)`, `None ↦ (1,0)`, `p ↦ (p, 1-p)` -/
def pairOf : Weight → Rat × Rat
  | .neutral => (1, 1)
  | .ff => (0, 1)
  | .tt => (1, 0)
  | .prob p => (p, 1 - p)

/-- the per-entry step of `extractWeights` (verbatim) -/
def baseStep (kw : Nat × Weight) : Except EvalErr (Nat × (Rat × Rat)) :=
  match kw with
  | (k, w) => match w with
    | .neutral => .ok (k, ((1 : Rat), (1 : Rat)))
    | .ff => .ok (k, ((0 : Rat), (1 : Rat)))
    | .tt => .ok (k, ((1 : Rat), (0 : Rat)))
    | .prob p => if inDomain p then .ok (k, (p, 1 - p)) else .error .invalidValue

/-- the per-constraint step of `extractWeights` (`ConstraintAD.update_weights`, verbatim) -/
def adStep (ws : List (Nat × (Rat × Rat))) (c : ADC) : Except EvalErr (List (Nat × (Rat × Rat))) :=
  if c.nodes.length ≤ 1 then .ok ws
  else
    let ps := c.nodes.map (fun n => ((lookup ws n).getD (1, 1)).1)
    let ws1 := c.nodes.foldl (fun ws n => assocSet ws n (((lookup ws n).getD (1, 1)).1, (1 : Rat))) ws
    let complement := 1 - ps.foldl (· + ·) 0
    if !inDomain complement then .error .invalidValue
    else match c.extra with
      | some e => .ok (assocSet ws1 e (complement, (1 : Rat)))
      | none => .error .badNode

theorem extractWeights_eq (weights : List (Nat × Weight)) (ads : List ADC) :
    extractWeights weights ads = (weights.mapM baseStep).bind (fun base => ads.foldlM adStep base) := rfl

theorem baseStep_ok {kw : Nat × Weight} {r : Nat × (Rat × Rat)} (h : baseStep kw = .ok r) :
    r = (kw.1, pairOf kw.2) := by
  obtain ⟨k, w⟩ := kw
  cases w with
  | neutral => simp [baseStep] at h; exact h.symm
  | ff => simp [baseStep] at h; exact h.symm
  | tt => simp [baseStep] at h; exact h.symm
  | prob p =>
    simp only [baseStep] at h
    split at h
    · injection h with h; exact h.symm
    · cases h

theorem mapM_baseStep_lookup (l : List (Nat × Weight)) :
    ∀ base, l.mapM baseStep = .ok base → ∀ i, lookup base i = (lookup l i).map pairOf := by
  induction l with
  | nil => intro base h i; simp [pure, Except.pure] at h; subst h; rfl
  | cons kw r ih =>
    intro base h i
    rw [List.mapM_cons] at h
    simp only [bind, Except.bind] at h
    cases h1 : baseStep kw with
    | error e => rw [h1] at h; cases h
    | ok b =>
      rw [h1] at h
      simp only at h
      cases h2 : r.mapM baseStep with
      | error e => rw [h2] at h; cases h
      | ok bs =>
        rw [h2] at h
        simp only [pure, Except.pure] at h
        injection h with h
        subst h
        have hb := baseStep_ok h1
        subst hb
        obtain ⟨k, w⟩ := kw
        simp only [lookup]
        by_cases hk : (k == i) = true
        · simp [hk]
        · simp only [hk]
          exact ih bs h2 i

/-- the base table read through `wfun`: the pair of the stored weight, `(1,1)` for a key without weight -/
theorem wfun_base (l : List (Nat × Weight)) (base : List (Nat × (Rat × Rat))) (h : l.mapM baseStep = .ok base)
    (i : Nat) : wfun base i = pairOf ((lookup l i).getD .neutral) := by
  unfold wfun
  rw [mapM_baseStep_lookup l base h i]
  cases lookup l i <;> rfl

/-! ### renaming -/

/-- the two tables agree along `ρ` on the variables `V` -/
def RelW (ρ : Nat → Nat) (V : Nat → Prop) (ws' ws : List (Nat × (Rat × Rat))) : Prop :=
  ∀ x, V x → wfun ws' (ρ x) = wfun ws x

theorem RelW_assocSet {ρ : Nat → Nat} {V : Nat → Prop} (hinj : ∀ x y, V x → V y → ρ x = ρ y → x = y)
    {ws' ws : List (Nat × (Rat × Rat))} (hR : RelW ρ V ws' ws) (n : Nat) (hn : V n) (v : Rat × Rat) :
    RelW ρ V (assocSet ws' (ρ n) v) (assocSet ws n v) := by
  intro x hx
  rw [wfun_assocSet, wfun_assocSet]
  by_cases hxn : x = n
  · subst hxn; simp
  · have : ρ x ≠ ρ n := fun hh => hxn (hinj x n hx hn hh)
    rw [if_neg this, if_neg hxn]
    exact hR x hx

theorem inner_rel {ρ : Nat → Nat} {V : Nat → Prop} (hinj : ∀ x y, V x → V y → ρ x = ρ y → x = y)
    (nodes : List Nat) :
    ∀ (ws' ws : List (Nat × (Rat × Rat))), (∀ n ∈ nodes, V n) → RelW ρ V ws' ws →
      RelW ρ V
        ((nodes.map ρ).foldl (fun ws n => assocSet ws n (((lookup ws n).getD (1, 1)).1, (1 : Rat))) ws')
        (nodes.foldl (fun ws n => assocSet ws n (((lookup ws n).getD (1, 1)).1, (1 : Rat))) ws) := by
  induction nodes with
  | nil => intro ws' ws _ hR; exact hR
  | cons n r ih =>
    intro ws' ws hV hR
    simp only [List.map_cons, List.foldl_cons]
    apply ih _ _ (fun m hm => hV m (List.mem_cons_of_mem _ hm))
    have hn : V n := hV n List.mem_cons_self
    have : ((lookup ws' (ρ n)).getD (1, 1)).1 = ((lookup ws n).getD (1, 1)).1 := by
      have := hR n hn
      unfold wfun at this
      rw [this]
    rw [this]
    exact RelW_assocSet hinj hR n hn _

/-- renamed constraint -/
def renAD (ρ : Nat → Nat) (a : ADC) : ADC := { a with nodes := a.nodes.map ρ, extra := a.extra.map ρ }

theorem adStep_rel {ρ : Nat → Nat} {V : Nat → Prop} (hinj : ∀ x y, V x → V y → ρ x = ρ y → x = y)
    (a : ADC) (hV : ∀ n ∈ a.nodes, V n) (hE : ∀ e, a.extra = some e → V e)
    {ws' ws ws1' ws1 : List (Nat × (Rat × Rat))} (hR : RelW ρ V ws' ws)
    (h' : adStep ws' (renAD ρ a) = .ok ws1') (h : adStep ws a = .ok ws1) : RelW ρ V ws1' ws1 := by
  unfold adStep at h h'
  simp only [renAD, List.length_map] at h'
  by_cases hlen : a.nodes.length ≤ 1
  · rw [if_pos hlen] at h h'
    injection h with h; injection h' with h'
    subst h; subst h'; exact hR
  · rw [if_neg hlen] at h h'
    simp only at h h'
    have hps : (a.nodes.map ρ).map (fun n => ((lookup ws' n).getD (1, 1)).1) =
        a.nodes.map (fun n => ((lookup ws n).getD (1, 1)).1) := by
      rw [List.map_map]
      apply List.map_congr_left
      intro n hn
      have := hR n (hV n hn)
      unfold wfun at this
      simp only [Function.comp]
      rw [this]
    simp only [hps] at h'
    split at h
    · cases h
    · rename_i hdom
      rw [if_neg hdom] at h'
      cases he : a.extra with
      | none => rw [he] at h; cases h
      | some e =>
        rw [he] at h h'
        simp only [Option.map_some] at h h'
        injection h with h; injection h' with h'
        subst h; subst h'
        exact RelW_assocSet hinj (inner_rel hinj a.nodes ws' ws hV hR) e (hE e he) _

theorem foldlM_adStep_rel {ρ : Nat → Nat} {V : Nat → Prop} (hinj : ∀ x y, V x → V y → ρ x = ρ y → x = y)
    (ads : List ADC) :
    ∀ (ws' ws wsF' wsF : List (Nat × (Rat × Rat))),
      (∀ a ∈ ads, (∀ n ∈ a.nodes, V n) ∧ (∀ e, a.extra = some e → V e)) → RelW ρ V ws' ws →
      (ads.map (renAD ρ)).foldlM adStep ws' = .ok wsF' → ads.foldlM adStep ws = .ok wsF →
      RelW ρ V wsF' wsF := by
  induction ads with
  | nil =>
    intro ws' ws wsF' wsF _ hR h' h
    simp [List.foldlM, pure, Except.pure] at h h'
    subst h; subst h'; exact hR
  | cons a r ih =>
    intro ws' ws wsF' wsF hV hR h' h
    simp only [List.map_cons, List.foldlM, bind, Except.bind] at h h'
    cases h1 : adStep ws a with
    | error e => rw [h1] at h; cases h
    | ok ws1 =>
      cases h1' : adStep ws' (renAD ρ a) with
      | error e => rw [h1'] at h'; cases h'
      | ok ws1' =>
        rw [h1] at h; rw [h1'] at h'
        have ha := hV a List.mem_cons_self
        exact ih ws1' ws1 wsF' wsF (fun b hb => hV b (List.mem_cons_of_mem _ hb))
          (adStep_rel hinj a ha.1 ha.2 hR h1' h1) h' h

/-- **`extractWeights` commutes with the renaming** (both sides succeeding) -/
theorem extractWeights_rename {ρ : Nat → Nat} {V : Nat → Prop} (hinj : ∀ x y, V x → V y → ρ x = ρ y → x = y)
    (weights' weights : List (Nat × Weight)) (ads : List ADC)
    (hW : ∀ x, V x → (lookup weights' (ρ x)).getD .neutral = (lookup weights x).getD .neutral)
    (hV : ∀ a ∈ ads, (∀ n ∈ a.nodes, V n) ∧ (∀ e, a.extra = some e → V e))
    {ws' ws : List (Nat × (Rat × Rat))}
    (h' : extractWeights weights' (ads.map (renAD ρ)) = .ok ws') (h : extractWeights weights ads = .ok ws) :
    RelW ρ V ws' ws := by
  rw [extractWeights_eq] at h h'
  cases hb : weights.mapM baseStep with
  | error e => rw [hb] at h; cases h
  | ok base =>
    cases hb' : weights'.mapM baseStep with
    | error e => rw [hb'] at h'; cases h'
    | ok base' =>
      rw [hb] at h; rw [hb'] at h'
      simp only [Except.bind] at h h'
      apply foldlM_adStep_rel hinj ads base' base ws' ws hV _ h' h
      intro x hx
      rw [wfun_base weights' base' hb', wfun_base weights base hb, hW x hx]

end ProbLogProofs.DDNNF
