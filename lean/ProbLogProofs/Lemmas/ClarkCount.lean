import ProbLogProofs.Lemmas.ClarkEval
/-!
Helper lemmas for C09 (Clark half): enumeration of the models of the node clauses (one per atom assignment).
-/
namespace ProbLogProofs.Lemmas.Clark
open ProbLogModel.Formula ProbLogModel.Clark

def isAtom : Node → Bool
  | .atom .. => true
  | _ => false

/-- valuation of node ids `1..` read off a list of values -/
def valOf (l : List Bool) : Nat → Bool := fun i => l.getD (i - 1) false

theorem nodeVal_nonatom (α β : Nat → Bool) (acc : List Bool) (nd : Node) (h : isAtom nd = false) :
    nodeVal α acc nd = nodeVal β acc nd := by
  cases nd <;> simp_all [isAtom, nodeVal]

/-- the evaluation depends on `α` only at the atoms' ids -/
theorem dagVals_congr (α β : Nat → Bool) (ns : List Node) :
    (∀ (j : Nat) a g e n, ns[j]? = some (.atom a g e n) → α (j + 1) = β (j + 1)) →
    dagVals α ns = dagVals β ns := by
  induction ns using rev_ind with
  | nil => intro _; rfl
  | snoc l nd ih =>
    intro H
    have ih' := ih (by
      intro j a g e n hj
      have hjlt : j < l.length := (List.getElem?_eq_some_iff.mp hj).1
      exact H j a g e n (by rw [List.getElem?_append_left hjlt]; exact hj))
    rw [dagVals_snoc, dagVals_snoc, ih']
    congr 2
    cases nd with
    | atom a g e n =>
      simp only [nodeVal, dagVals_length]
      exact H l.length a g e n (by simp)
    | conj cs nm => rfl
    | disj cs nm => rfl

/-- all evaluations, built node by node: an atom doubles the list, a compound node extends each entry uniquely -/
def stepModels (acc : List (List Bool)) (nd : Node) : List (List Bool) :=
  if isAtom nd then acc.flatMap (fun l => [l ++ [false], l ++ [true]])
  else acc.map (fun l => l ++ [nodeVal (fun _ => false) l nd])

def models (ns : List Node) : List (List Bool) := ns.foldl stepModels [[]]

theorem models_snoc (ns : List Node) (nd : Node) : models (ns ++ [nd]) = stepModels (models ns) nd := by
  simp [models, List.foldl_append]

theorem length_flatMap_pair {α β} (f g : α → β) (l : List α) :
    (l.flatMap (fun x => [f x, g x])).length = 2 * l.length := by
  induction l with
  | nil => rfl
  | cons a l ih => simp only [List.flatMap_cons, List.length_append, ih, List.length_cons, List.length_nil]; omega

theorem models_length (ns : List Node) : (models ns).length = 2 ^ ns.countP isAtom := by
  induction ns using rev_ind with
  | nil => rfl
  | snoc l nd ih =>
    rw [models_snoc, List.countP_append]
    unfold stepModels
    by_cases h : isAtom nd = true
    · rw [if_pos h, length_flatMap_pair, ih]
      simp [h, Nat.pow_succ, Nat.mul_comm]
    · rw [if_neg h, List.length_map, ih]
      simp [h]

theorem mem_models (ns : List Node) : ∀ l, l ∈ models ns ↔ ∃ α, l = dagVals α ns := by
  induction ns using rev_ind with
  | nil =>
    intro l
    simp only [models, List.foldl_nil, List.mem_singleton, dagVals]
    exact ⟨fun h => ⟨fun _ => false, h⟩, fun ⟨_, h⟩ => h⟩
  | snoc ns nd ih =>
    intro l
    rw [models_snoc]
    unfold stepModels
    by_cases h : isAtom nd = true
    · rw [if_pos h]
      simp only [List.mem_flatMap, List.mem_cons, List.not_mem_nil, or_false]
      have hval : ∀ α, nodeVal α (dagVals α ns) nd = α (ns.length + 1) := by
        intro α
        cases nd with
        | atom a g e n => simp [nodeVal, dagVals_length]
        | conj => simp [isAtom] at h
        | disj => simp [isAtom] at h
      constructor
      · rintro ⟨l', hl', hl⟩
        obtain ⟨α, rfl⟩ := (ih l').mp hl'
        have key : ∀ b : Bool, ∃ α', dagVals α ns ++ [b] = dagVals α' (ns ++ [nd]) := by
          intro b
          refine ⟨fun i => if i = ns.length + 1 then b else α i, ?_⟩
          rw [dagVals_snoc, hval]
          simp only [if_true]
          rw [dagVals_congr α (fun i => if i = ns.length + 1 then b else α i) ns]
          intro j a g e n hj
          have hjlt : j < ns.length := (List.getElem?_eq_some_iff.mp hj).1
          have : j ≠ ns.length := by omega
          simp [this]
        rcases hl with rfl | rfl
        · exact key false
        · exact key true
      · rintro ⟨α, rfl⟩
        refine ⟨dagVals α ns, (ih _).mpr ⟨α, rfl⟩, ?_⟩
        rw [dagVals_snoc, hval]
        cases α (ns.length + 1) <;> simp
    · have h' : isAtom nd = false := by simpa using h
      rw [if_neg h]
      simp only [List.mem_map]
      constructor
      · rintro ⟨l', hl', rfl⟩
        obtain ⟨α, rfl⟩ := (ih l').mp hl'
        exact ⟨α, by rw [dagVals_snoc, nodeVal_nonatom α (fun _ => false) _ nd h']⟩
      · rintro ⟨α, rfl⟩
        exact ⟨dagVals α ns, (ih _).mpr ⟨α, rfl⟩,
          by rw [dagVals_snoc, nodeVal_nonatom α (fun _ => false) _ nd h']⟩

theorem models_nodup (ns : List Node) : (models ns).Nodup := by
  induction ns using rev_ind with
  | nil => simp [models]
  | snoc ns nd ih =>
    rw [models_snoc]
    unfold stepModels
    by_cases h : isAtom nd = true
    · rw [if_pos h, List.nodup_iff_pairwise_ne, List.pairwise_flatMap]
      constructor
      · intro a _
        simp
      · rw [List.nodup_iff_pairwise_ne] at ih
        refine ih.imp ?_
        intro a b hab x hx y hy hxy
        simp only [List.mem_cons, List.not_mem_nil, or_false] at hx hy
        apply hab
        rcases hx with rfl | rfl <;> rcases hy with rfl | rfl <;>
          exact (List.append_inj' hxy rfl).1
    · rw [if_neg h, List.nodup_iff_pairwise_ne, List.pairwise_map]
      rw [List.nodup_iff_pairwise_ne] at ih
      refine ih.imp ?_
      intro a b hab hxy
      exact hab (List.append_inj' hxy rfl).1

/-- a value list of the right length is a model of Clark's demands iff it is some bottom-up evaluation -/
theorem eq_dagVals_iff (ns : List Node) (l : List Bool) :
    l = dagVals (valOf l) ns ↔ ∃ α, l = dagVals α ns := by
  constructor
  · intro h; exact ⟨_, h⟩
  · rintro ⟨α, hl⟩
    rw [hl]
    apply dagVals_congr
    intro j a g e n hj
    simp only [valOf, Nat.add_sub_cancel]
    rw [← hl, hl]
    exact (dagVals_atom α ns j a g e n hj).symm

theorem pointwise_iff_eq (ns : List Node) (α : Nat → Bool) (l : List Bool) (hlen : l.length = ns.length) :
    (∀ i, 1 ≤ i → i ≤ ns.length → valOf l i = (dagVals α ns).getD (i - 1) false) ↔ l = dagVals α ns := by
  have hD := dagVals_length α ns
  constructor
  · intro H
    apply List.ext_getElem (by omega)
    intro i h1 h2
    have := H (i + 1) (by omega) (by omega)
    simp only [valOf, Nat.add_sub_cancel, List.getD_eq_getElem?_getD] at this
    rw [List.getElem?_eq_getElem h1, List.getElem?_eq_getElem h2] at this
    simpa using this
  · intro h i _ _
    simp only [valOf]
    rw [← h]

end ProbLogProofs.Lemmas.Clark
