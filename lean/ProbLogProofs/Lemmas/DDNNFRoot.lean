/-
Root-level notions (variables, truth, models of the circuit / of a CNF over a variable set), the bridge from
`evalC`/`rootVars`/`satC` to the line tables, semiring homomorphisms of the record `SR`, and the weight lemmas used
for conditioning on a clause and for the query trick.
-/
import ProbLogProofs.Lemmas.DDNNFMain

open Finset

namespace ProbLogProofs.DDNNF
open ProbLogModel.DDNNF

variable {R : Type} [CommSemiring R]

/-- variables of the root line -/
def rootVarsF (c : Circuit) : Finset Nat := (rootVars c).toFinset

/-- truth of the root under the assignment `T` -/
def satRoot (c : Circuit) (T : Finset Nat) : Bool := satC (assign T) c

/-- models of the circuit over its own (root) variables -/
def models (c : Circuit) : Finset (Finset Nat) := (rootVarsF c).powerset.filter (fun T => satRoot c T = true)

/-- models of the CNF `N` (list of clauses of DIMACS literals) over the variables `V` -/
def cnfModels (N : List (List Int)) (V : Finset Nat) : Finset (Finset Nat) :=
  V.powerset.filter (fun T => N.all (fun κ => clauseTrue (assign T) κ) = true)

theorem srOf_nat : srOf ℕ = natSR := rfl

theorem evalC_nil (w : Int → R) : evalC (srOf R) w [] = 1 := rfl
theorem rootVarsF_nil : rootVarsF [] = ∅ := rfl
theorem satRoot_nil (T : Finset Nat) : satRoot [] T = true := rfl

theorem evalC_root (w : Int → R) {c : Circuit} (h : c ≠ []) :
    evalC (srOf R) w c = valAt w c (c.length - 1) := by
  unfold evalC valAt
  rw [evalLines_eq, linesOf_getLast? (0 : R) _ c h]

theorem rootVarsF_root {c : Circuit} (h : c ≠ []) : rootVarsF c = vars c (c.length - 1) := by
  unfold rootVarsF rootVars vars
  rw [varsLines_eq, linesOf_getLast? ([] : List Nat) _ c h]; rfl

theorem satRoot_root {c : Circuit} (h : c ≠ []) (T : Finset Nat) :
    satRoot c T = sat c (c.length - 1) T := by
  unfold satRoot satC sat satAt
  rw [satLines_eq, linesOf_getLast? false _ c h]; rfl

/-- root form of the line theorem -/
theorem evalC_is_wmc {c : Circuit} (hv : Valid c) (w : Int → R) :
    evalC (srOf R) w c = wmc w (rootVarsF c) (satRoot c) := by
  by_cases h : c = []
  · subst h
    rw [evalC_nil, rootVarsF_nil]
    exact (wmc_empty_true w).symm
  · have hpos : 0 < c.length := List.length_pos_iff.mpr h
    rw [evalC_root w h, rootVarsF_root h, val_is_wmc hv w _ (by omega)]
    apply wmc_congr w rfl
    intro T; rw [satRoot_root h]

theorem wmc_eq_sum_models (w : Int → R) (c : Circuit) :
    wmc w (rootVarsF c) (satRoot c) = ∑ T ∈ models c, wt w (rootVarsF c) T := by
  unfold wmc models
  rw [Finset.sum_filter]

/-! ### homomorphisms of semiring records -/

structure SRHom {R S : Type} (sr : SR R) (sr' : SR S) (f : R → S) : Prop where
  zero : f sr.zero = sr'.zero
  one : f sr.one = sr'.one
  plus : ∀ a b, f (sr.plus a b) = sr'.plus (f a) (f b)
  times : ∀ a b, f (sr.times a b) = sr'.times (f a) (f b)

theorem ringHom_srHom {S : Type} [CommSemiring S] (f : R →+* S) : SRHom (srOf R) (srOf S) f :=
  ⟨map_zero f, map_one f, map_add f, map_mul f⟩

section hom
variable {A B : Type} {sr : SR A} {sr' : SR B} {f : A → B}

theorem getD_map_hom (hf : SRHom sr sr' f) (acc : List A) (ch : Nat) :
    (acc.map f).getD ch sr'.zero = f (acc.getD ch sr.zero) := by
  simp only [List.getD_eq_getElem?_getD, List.getElem?_map]
  cases acc[ch]? <;> simp [hf.zero]

theorem foldl_times_hom (hf : SRHom sr sr' f) (acc : List A) (cs : List Nat) (a : A) :
    cs.foldl (fun p c => sr'.times p ((acc.map f).getD c sr'.zero)) (f a) =
      f (cs.foldl (fun p c => sr.times p (acc.getD c sr.zero)) a) := by
  induction cs generalizing a with
  | nil => rfl
  | cons x xs ih => simp only [List.foldl_cons]; rw [getD_map_hom hf, ← hf.times]; exact ih _

theorem foldl_plus_hom (hf : SRHom sr sr' f) (acc : List A) (cs : List Nat) (a : A) :
    cs.foldl (fun p c => sr'.plus p ((acc.map f).getD c sr'.zero)) (f a) =
      f (cs.foldl (fun p c => sr.plus p (acc.getD c sr.zero)) a) := by
  induction cs generalizing a with
  | nil => rfl
  | cons x xs ih => simp only [List.foldl_cons]; rw [getD_map_hom hf, ← hf.plus]; exact ih _

theorem evalLine_hom (hf : SRHom sr sr' f) (w : Int → A) (acc : List A) (nd : NNode) :
    evalLine sr' (f ∘ w) (acc.map f) nd = f (evalLine sr w acc nd) := by
  cases nd with
  | lit l => rfl
  | and cs => simp only [evalLine]; rw [← hf.one]; exact foldl_times_hom hf acc cs _
  | or j cs =>
    simp only [evalLine]
    have := foldl_plus_hom hf acc cs sr.zero
    rw [hf.zero] at this; exact this

theorem evalLines_hom (hf : SRHom sr sr' f) (w : Int → A) (c : Circuit) :
    evalLines sr' (f ∘ w) c = (evalLines sr w c).map f := by
  rw [evalLines_eq, evalLines_eq]
  induction c using snoc_induction with
  | nil => rfl
  | snoc l a ih => rw [linesOf_snoc, linesOf_snoc, ih, evalLine_hom hf]; simp

theorem evalC_hom (hf : SRHom sr sr' f) (w : Int → A) (c : Circuit) :
    f (evalC sr w c) = evalC sr' (f ∘ w) c := by
  unfold evalC
  rw [evalLines_hom hf, List.getLast?_map]
  cases (evalLines sr w c).getLast? with
  | none => exact hf.one
  | some r => rfl
end hom

/-! ### weights for conditioning and for the query trick -/

/-- zero the weight of the complement of `q`: what is left is the weight of the assignments making `q` true -/
theorem wt_query (w : Int → R) (V T : Finset Nat) {q : Int} (hq : q ≠ 0) (hmem : q.natAbs ∈ V) :
    wt (fun l => if l = -q then 0 else w l) V T =
      if litTrue (assign T) q = true then wt w V T else 0 := by
  unfold wt
  split
  · rename_i hl
    apply Finset.prod_congr rfl
    intro x _
    unfold litTrue assign at hl
    by_cases hx : x ∈ T
    · have : (x : Int) ≠ -q := by
        intro h
        have h1 : ¬ q > 0 := by omega
        have h2 : q.natAbs = x := by omega
        simp [h1, h2, hx] at hl
      simp [hx, this]
    · have : (x : Int) ≠ q := by
        intro h
        have h1 : q > 0 := by omega
        have h2 : q.natAbs = x := by omega
        simp [h1, h2, hx] at hl
      simp [hx, this]
  · rename_i hl
    apply Finset.prod_eq_zero hmem
    unfold litTrue assign at hl
    by_cases h1 : q > 0
    · have e : ((q.natAbs : Nat) : Int) = q := by omega
      simp only [h1, if_true, decide_eq_true_eq] at hl
      simp [hl, e]
    · have e : ((q.natAbs : Nat) : Int) = -q := by omega
      simp only [h1, if_false, Bool.not_eq_true', decide_eq_false_iff_not, not_not] at hl
      simp [hl, e]

/-- in ℕ with 0/1 weights "0 on the literals of κ": a zero weight means some literal of κ is true -/
theorem wt_cond_zero (κ : List Int) (h0 : (0 : Int) ∉ κ) (V T : Finset Nat)
    (hz : wt (fun l => if l ∈ κ then (0 : ℕ) else 1) V T = 0) : clauseTrue (assign T) κ = true := by
  unfold wt at hz
  rw [Finset.prod_eq_zero_iff] at hz
  obtain ⟨x, _, hx⟩ := hz
  unfold clauseTrue
  rw [List.any_eq_true]
  by_cases hxT : x ∈ T
  · simp only [hxT, if_true] at hx
    have hk : (x : Int) ∈ κ := by
      by_contra hk; simp [hk] at hx
    have hpos : (x : Int) > 0 := by
      have : (x : Int) ≠ 0 := fun h => h0 (h ▸ hk)
      omega
    have hx0 : 0 < x := by omega
    exact ⟨_, hk, by simp [litTrue, assign, hx0, hxT]⟩
  · simp only [hxT, if_false] at hx
    have hk : (-(x : Int)) ∈ κ := by
      by_contra hk; simp [hk] at hx
    exact ⟨_, hk, by simp [litTrue, assign, hxT]⟩

theorem nat_sum_eq_zero {ι : Type} [DecidableEq ι] (s : Finset ι) (g : ι → ℕ) (h : ∑ i ∈ s, g i = 0) :
    ∀ i ∈ s, g i = 0 := by
  intro i hi
  rw [← Finset.add_sum_erase s g hi] at h
  omega

end ProbLogProofs.DDNNF
