import ProbLogProofs.Lemmas.UnrollBasic
/-!
Helper lemmas for C09Unroll (2): the symbolic depth-first translation `breakSimpleNode` commutes with the concrete
cut evaluation `cutEval` (induction on the fuel of the translation; the fuel of `cutEval` only has to exceed the
number of nodes outside the ancestor list).
-/
namespace ProbLogProofs.Unroll
open ProbLogModel.Formula ProbLogModel.Cycles ProbLogProofs.Cycles

/-- Side condition on the ancestor list of a call (trivial for `[]`, maintained by the descent on a stratified
    store): ancestors are compound nodes on levels at least that of the current node, strictly higher if the current
    reference is a negated compound node - so a cut is never taken under a negative edge. -/
def AncOK (src : Store) (lvl : Nat → Nat) (anc : List Nat) (node : Int) : Prop :=
  ∀ x ∈ anc, IsCompound src x ∧ lvl node.natAbs ≤ lvl x ∧
    (node < 0 → IsCompound src node.natAbs → lvl node.natAbs < lvl x)

theorem AncOK.nil (src : Store) (lvl : Nat → Nat) (node : Int) : AncOK src lvl [] node := fun _ h => by cases h

/-- What one translation call guarantees. -/
def NodeSpec (src : Store) (α : Nat → Bool) (anc : List Nat) (T : Store) (node : Int) (T' : Store) (k : Key) :
    Prop :=
  Step T T' ∧ keyBelow T'.nodes.length k ∧
  ∀ ρ, Consistent T' ρ → Carries src T' α ρ → ∀ f, free src anc < f →
    keyVal ρ k = cutEval src α f anc (some node)

def ChildrenSpec (src : Store) (α : Nat → Bool) (anc : List Nat) (T : Store) (cs : List Key) (T' : Store)
    (ks : List Key) : Prop :=
  Step T T' ∧ (∀ k ∈ ks, keyBelow T'.nodes.length k) ∧
  ∀ ρ, Consistent T' ρ → Carries src T' α ρ → ∀ f, free src anc < f →
    ks.map (keyVal ρ) = cs.map (fun c => cutEval src α f anc c)

theorem childrenWith_cons_some (f : Store → Int → Except CErr (Store × Key)) (T : Store) (c : Int)
    (rest : List Key) :
    childrenWith f T (some c :: rest) =
      if c = 0 then
        match childrenWith f T rest with
        | .error e => .error e
        | .ok (T', ks) => .ok (T', some 0 :: ks)
      else
        match f T c with
        | .error e => .error e
        | .ok (T1, k) =>
          match childrenWith f T1 rest with
          | .error e => .error e
          | .ok (T2, ks) => .ok (T2, k :: ks) := by
  rfl

theorem childrenWith_spec {src : Store} {α : Nat → Bool} {anc : List Nat}
    (f : Store → Int → Except CErr (Store × Key)) (Q : Int → Prop)
    (hf : ∀ T c T1 k, WF T → Q c → c ≠ 0 → f T c = .ok (T1, k) → NodeSpec src α anc T c T1 k) :
    ∀ (cs : List Key) (T T' : Store) (ks : List Key), WF T → (∀ c, some c ∈ cs → Q c) →
      childrenWith f T cs = .ok (T', ks) → ChildrenSpec src α anc T cs T' ks := by
  intro cs
  induction cs with
  | nil =>
    intro T T' ks hw _ h
    simp only [childrenWith, Except.ok.injEq, Prod.mk.injEq] at h
    obtain ⟨rfl, rfl⟩ := h
    exact ⟨Step.refl _, fun _ hk => (by cases hk), fun _ _ _ _ _ => rfl⟩
  | cons c rest ih =>
    intro T T' ks hw hQ h
    cases c with
    | none => simp only [childrenWith] at h; cases h
    | some c =>
      rw [childrenWith_cons_some] at h
      have hQr : ∀ c, some c ∈ rest → Q c := fun c hc => hQ c (List.mem_cons_of_mem _ hc)
      by_cases hc0 : c = 0
      · rw [if_pos hc0] at h
        cases hr : childrenWith f T rest with
        | error e => rw [hr] at h; cases h
        | ok p =>
          obtain ⟨T2, ks2⟩ := p
          rw [hr] at h
          simp only [Except.ok.injEq, Prod.mk.injEq] at h
          obtain ⟨rfl, rfl⟩ := h
          obtain ⟨hs, hkb, hsem⟩ := ih T T2 ks2 hw hQr hr
          refine ⟨hs, fun k hk => ?_, fun ρ hc hcar fl hfl => ?_⟩
          · rcases List.mem_cons.1 hk with rfl | hk
            · show (0 : Int).natAbs ≤ _; simp
            · exact hkb k hk
          · simp only [List.map_cons]
            rw [hsem ρ hc hcar fl hfl, hc0]
            cases fl with
            | zero => omega
            | succ fl => rfl
      · rw [if_neg hc0] at h
        cases hr1 : f T c with
        | error e => rw [hr1] at h; cases h
        | ok p1 =>
          obtain ⟨T1, k1⟩ := p1
          rw [hr1] at h
          simp only at h
          cases hr : childrenWith f T1 rest with
          | error e => rw [hr] at h; cases h
          | ok p =>
            obtain ⟨T2, ks2⟩ := p
            rw [hr] at h
            simp only [Except.ok.injEq, Prod.mk.injEq] at h
            obtain ⟨rfl, rfl⟩ := h
            obtain ⟨hs1, hkb1, hsem1⟩ := hf T c T1 k1 hw (hQ c List.mem_cons_self) hc0 hr1
            obtain ⟨hs, hkb, hsem⟩ := ih T1 T2 ks2 (hs1.1 hw) hQr hr
            refine ⟨hs1.trans hs, fun k hk => ?_, fun ρ hc hcar fl hfl => ?_⟩
            · rcases List.mem_cons.1 hk with rfl | hk
              · exact keyBelow_step hs hkb1
              · exact hkb k hk
            · simp only [List.map_cons]
              rw [hsem ρ hc hcar fl hfl, hsem1 ρ (hs.2.1.consistent hc) (Carries.mono hs hcar) fl hfl]

/-- The compound case of the main induction, for both kinds. -/
theorem compound_case {src : Store} {lvl : Nat → Nat} (hst : Stratified src lvl) {α : Nat → Bool} (fuel : Nat)
    (ih : ∀ (T : Store) (node : Int) (anc : List Nat) (T' : Store) (k : Key), WF T → AncOK src lvl anc node →
      breakSimpleNode src fuel T node anc = .ok (T', k) → NodeSpec src α anc T node T' k)
    {T : Store} {node : Int} {anc : List Nat} {T' : Store} {k : Key} (hw : WF T) (hanc : AncOK src lvl anc node)
    (h0 : node ≠ 0) (hnotin : node.natAbs ∉ anc) (kind : Kind) (children : List Key) (name : Option Name)
    (hn : src.nodes[node.natAbs - 1]? = some (kind.mk children name))
    (h : finishCompound kind node name
      (childrenWith (fun T c => breakSimpleNode src fuel T c (anc ++ [node.natAbs])) T children) = .ok (T', k)) :
    NodeSpec src α anc T node T' k := by
  obtain ⟨T1, keys, k0, hr, hadd, rfl⟩ := finishCompound_ok h
  have hi0 : 0 < node.natAbs := by omega
  have hstrat : ∀ c ∈ children, stratKey src lvl node.natAbs c = true := by
    cases kind
    · exact strat_conj hst hi0 hn
    · exact strat_disj hst hi0 hn
  have hcomp : IsCompound src node.natAbs := by
    cases kind
    · exact Or.inl ⟨_, _, hn⟩
    · exact Or.inr ⟨_, _, hn⟩
  have hch := childrenWith_spec (src := src) (α := α) (anc := anc ++ [node.natAbs])
    (fun T c => breakSimpleNode src fuel T c (anc ++ [node.natAbs]))
    (fun c => stratKey src lvl node.natAbs (some c) = true)
    (fun T c T1 k hw hQ hc0 hf => ih T c _ T1 k hw (by
      intro x hx
      have hle := stratKey_le hQ hc0
      rcases List.mem_append.1 hx with hx | hx
      · obtain ⟨h1, h2, _⟩ := hanc x hx
        exact ⟨h1, Nat.le_trans hle h2, fun hneg hcc => Nat.lt_of_lt_of_le (stratKey_lt hQ hneg hcc) h2⟩
      · simp only [List.mem_singleton] at hx
        subst hx
        exact ⟨hcomp, hle, fun hneg hcc => stratKey_lt hQ hneg hcc⟩) hf)
    children T T1 keys hw (fun c hc => hstrat _ hc) hr
  obtain ⟨hs1, hkb1, hsem1⟩ := hch
  have hwT1 := hs1.1 hw
  obtain ⟨hstep2, hkb⟩ := addCompound_step hwT1 hkb1 hadd
  refine ⟨hs1.trans hstep2, keyBelow_sgn _ _ _ hkb, fun ρ hcons hcar f hf => ?_⟩
  cases f with
  | zero => omega
  | succ f =>
    have hlt := free_cons_lt src anc node.natAbs hi0 (lt_length_of_get hn) hnotin
    have hfree : free src (anc ++ [node.natAbs]) < f := by
      rw [free_congr src (fun x => mem_snoc_iff_cons anc node.natAbs x)]; omega
    have hmap := hsem1 ρ (hstep2.2.1.consistent hcons) (Carries.mono hstep2 hcar) f hfree
    have hfun : (fun c => cutEval src α f (anc ++ [node.natAbs]) c) =
        (fun c => cutEval src α f (node.natAbs :: anc) c) :=
      funext (fun c => cutEval_anc_congr f _ _ c (fun x => mem_snoc_iff_cons anc node.natAbs x))
    rw [hfun] at hmap
    have hsem := (addCompound_cres _ _ _ _ _ _ _ _ _ hadd).sem hwT1 ρ hcons
    have hcontains : anc.contains node.natAbs = false := by
      rw [Bool.eq_false_iff]; intro hc; exact hnotin (List.contains_iff_mem.1 hc)
    rw [keyVal_sgn, hsem, cutEval_succ]
    simp only [h0, ↓reduceIte]
    cases kind with
    | conj =>
      have hn' : src.nodes[node.natAbs - 1]? = some (.conj children name) := hn
      simp only [hn', hcontains, Bool.false_eq_true, ↓reduceIte]
      rw [show Kind.sem .conj keys ρ = keys.all (keyVal ρ) from rfl, all_of_map_eq hmap]
    | disj =>
      have hn' : src.nodes[node.natAbs - 1]? = some (.disj children name) := hn
      simp only [hn', hcontains, Bool.false_eq_true, ↓reduceIte]
      rw [show Kind.sem .disj keys ρ = keys.any (keyVal ρ) from rfl, any_of_map_eq hmap]

/-- Main lemma: on a stratified source, whatever `breakSimpleNode` returns denotes the cut evaluation of the source
    node, in every consistent valuation of the target that carries the atom assignment. -/
theorem unroll_node {src : Store} {lvl : Nat → Nat} (hst : Stratified src lvl) {α : Nat → Bool}
    (hdet : DetOK src α) :
    ∀ (fuel : Nat) (T : Store) (node : Int) (anc : List Nat) (T' : Store) (k : Key), WF T →
      AncOK src lvl anc node → breakSimpleNode src fuel T node anc = .ok (T', k) →
      NodeSpec src α anc T node T' k := by
  intro fuel
  induction fuel with
  | zero => intro T node anc T' k _ _ h; cases h
  | succ fuel ih =>
    intro T node anc T' k hw hanc h
    rw [breakSimpleNode_succ] at h
    by_cases h0 : node = 0
    · rw [if_pos h0] at h
      simp only [Except.ok.injEq, Prod.mk.injEq] at h
      obtain ⟨rfl, rfl⟩ := h
      subst h0
      refine ⟨Step.refl _, by show (0 : Int).natAbs ≤ _; simp, fun ρ _ _ f hf => ?_⟩
      cases f with
      | zero => omega
      | succ f => rfl
    · rw [if_neg h0] at h
      by_cases hc : anc.contains node.natAbs = true
      · rw [if_pos hc] at h
        simp only [Except.ok.injEq, Prod.mk.injEq] at h
        obtain ⟨rfl, rfl⟩ := h
        have hmem : node.natAbs ∈ anc := List.contains_iff_mem.1 hc
        obtain ⟨hcomp, _, hlt⟩ := hanc _ hmem
        have hpos : ¬ node < 0 := fun hn => absurd (hlt hn hcomp) (Nat.lt_irrefl _)
        refine ⟨Step.refl _, trivial, fun ρ _ _ f hf => ?_⟩
        cases f with
        | zero => omega
        | succ f =>
          rw [cutEval_succ]
          simp only [h0, ↓reduceIte, hpos, hc]
          rcases hcomp with ⟨cs, nm, hn⟩ | ⟨cs, nm, hn⟩ <;> simp only [hn] <;> rfl
      · rw [if_neg hc] at h
        have hnotin : node.natAbs ∉ anc := fun hm => hc (List.contains_iff_mem.2 hm)
        cases hn : src.nodes[node.natAbs - 1]? with
        | none => rw [hn] at h; cases h
        | some nd =>
          rw [hn] at h
          cases nd with
          | conj children name => exact compound_case hst fuel ih hw hanc h0 hnotin .conj children name hn h
          | disj children name => exact compound_case hst fuel ih hw hanc h0 hnotin .disj children name hn h
          | atom ident group isExtra name =>
            simp only [Except.ok.injEq, Prod.mk.injEq] at h
            obtain ⟨hT, hk⟩ := h
            have hi : node.natAbs - 1 + 1 = node.natAbs := by omega
            have hd := hdet (node.natAbs - 1) ident group isExtra name hn
            rw [hi] at hd
            generalize (lookup src.weights node.natAbs).getD Weight.neutral = w at hT hk hd
            have hstep := addAtom_step T ident (weightClass w) w group name true isExtra
            rw [hT] at hstep
            have hwT' := hstep.1 hw
            have hcut : ∀ f, free src anc < f → cutEval src α f anc (some node) =
                if node < 0 then !α node.natAbs else α node.natAbs := by
              intro f hf
              cases f with
              | zero => omega
              | succ f => rw [cutEval_succ]; simp only [h0, ↓reduceIte, hn]
            rcases addAtom_cases T ident w group name true isExtra with ⟨he, hwt⟩ | ⟨he, hwf⟩ | ⟨i, hi1, hi2⟩
            · rw [he] at hT hk
              simp only at hT hk
              subst hT; subst hk
              refine ⟨Step.refl _, keyBelow_sgn _ _ _ (by show (0 : Int).natAbs ≤ _; simp),
                fun ρ _ _ f hf => ?_⟩
              rw [keyVal_sgn, hcut f hf, hd.1 hwt]; rfl
            · rw [he] at hT hk
              simp only at hT hk
              subst hT; subst hk
              refine ⟨Step.refl _, keyBelow_sgn _ _ _ trivial, fun ρ _ _ f hf => ?_⟩
              rw [keyVal_sgn, hcut f hf, hd.2 hwf]; rfl
            · rw [hT] at hi2
              rw [hi1] at hk
              subst hk
              obtain ⟨h1, g', e', nm', hnode⟩ := hwT'.atom ident i hi2
              have hlen : i - 1 < T'.nodes.length := lt_length_of_get hnode
              refine ⟨hstep, keyBelow_sgn _ _ _ (by show (i : Int).natAbs ≤ _; rw [Int.natAbs_natCast]; omega),
                fun ρ _ hcar f hf => ?_⟩
              rw [keyVal_sgn, hcut f hf, keyVal_pos ρ i h1,
                hcar (node.natAbs - 1) ident group isExtra name i hn hi2, hi]

end ProbLogProofs.Unroll
