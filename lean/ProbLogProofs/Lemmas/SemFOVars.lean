import ProbLogModel.SemFO
import ProbLogProofs.Lemmas.SemFOGround
import ProbLogProofs.Lemmas.SemFOPerm
/-!
# Renaming the variables of a statement by an injective map does not change its ground instances
-/
namespace ProbLogProofs.SemFOVars
open ProbLogModel ProbLogModel.SemFO ProbLogProofs.SemFOGround ProbLogProofs.SemFOPerm

def renTerm (f : String → String) : Term → Term
  | .var v => .var (f v)
  | .const c => .const c

def renAtom (f : String → String) (a : Atom) : Atom := ⟨a.pred, a.args.map (renTerm f)⟩

def renLit (f : String → String) : Lit → Lit
  | .pos a => .pos (renAtom f a)
  | .neg a => .neg (renAtom f a)
  | .or a b => .or (renAtom f a) (renAtom f b)

/-- rename every variable `v` of the statement to `f v` -/
def renStmt (f : String → String) : Stmt → Stmt
  | .fact a => .fact (renAtom f a)
  | .pf p a => .pf p (renAtom f a)
  | .rule h b => .rule (renAtom f h) (b.map (renLit f))
  | .prule p h b => .prule p (renAtom f h) (b.map (renLit f))
  | .ad hs b => .ad (hs.map (fun ph => (ph.1, renAtom f ph.2))) (b.map (renLit f))

variable {f : String → String}

theorem heads_ren (f : String → String) (s : Stmt) :
    (renStmt f s).heads = s.heads.map (fun ph => (ph.1, renAtom f ph.2)) := by cases s <;> rfl

theorem body_ren (f : String → String) (s : Stmt) : (renStmt f s).body = s.body.map (renLit f) := by cases s <;> rfl

theorem isProb_ren (f : String → String) (s : Stmt) : (renStmt f s).isProb = s.isProb := by cases s <;> rfl

theorem vars_renTerm (f : String → String) (t : Term) : (renTerm f t).vars = t.vars.map f := by cases t <;> rfl

theorem vars_renAtom (f : String → String) (a : Atom) : (renAtom f a).vars = a.vars.map f := by
  unfold Atom.vars renAtom
  simp only [List.flatMap_map, List.map_flatMap, vars_renTerm]

theorem atoms_renLit (f : String → String) (l : Lit) : (renLit f l).atoms = l.atoms.map (renAtom f) := by
  cases l <;> rfl

theorem atoms_renStmt (f : String → String) (s : Stmt) : (renStmt f s).atoms = s.atoms.map (renAtom f) := by
  unfold Stmt.atoms
  rw [heads_ren, body_ren]
  simp only [List.map_map, List.flatMap_map, List.map_flatMap, List.map_append, atoms_renLit, Function.comp_def]

/-! ### `dedup` -/

theorem mem_dedup {α : Type} [DecidableEq α] (l : List α) (a : α) : a ∈ dedup l ↔ a ∈ l := by
  induction l with
  | nil => simp [dedup]
  | cons x l ih =>
    simp only [dedup, List.mem_cons, List.mem_filter, ih, Bool.not_eq_eq_eq_not, Bool.not_true,
      decide_eq_false_iff_not]
    by_cases h : a = x
    · simp [h]
    · simp [h]

theorem dedup_map {α β : Type} [DecidableEq α] [DecidableEq β] {g : α → β} (hg : Function.Injective g)
    (l : List α) : dedup (l.map g) = (dedup l).map g := by
  induction l with
  | nil => rfl
  | cons a l ih =>
    simp only [List.map_cons, dedup, ih, List.filter_map]
    congr 2
    apply List.filter_congr
    intro b _
    simp [hg.eq_iff]

theorem vars_renStmt (hf : Function.Injective f) (s : Stmt) : (renStmt f s).vars = s.vars.map f := by
  unfold Stmt.vars
  rw [atoms_renStmt, ← dedup_map hf]
  congr 1
  simp only [List.flatMap_map, List.map_flatMap, vars_renAtom]

/-! ### substitutions -/

theorem lookup_zip_map (hf : Function.Injective f) (vs vals : List String) (v : String) :
    ((vs.map f).zip vals).lookup (f v) = (vs.zip vals).lookup v := by
  induction vs generalizing vals with
  | nil => rfl
  | cons a vs ih =>
    cases vals with
    | nil => rfl
    | cons x xs =>
      simp only [List.map_cons, List.zip_cons_cons, List.lookup_cons]
      have : (f v == f a) = (v == a) := by
        by_cases h : v = a
        · simp [h]
        · have : f v ≠ f a := fun e => h (hf e)
          simp [h, this]
      rw [this]
      cases (v == a)
      · exact ih xs
      · rfl

theorem lookup_zip_some (vs vals : List String) (hl : vals.length = vs.length) (v : String) (hv : v ∈ vs) :
    ∃ x, (vs.zip vals).lookup v = some x := by
  induction vs generalizing vals with
  | nil => cases hv
  | cons a vs ih =>
    cases vals with
    | nil => simp at hl
    | cons x xs =>
      simp only [List.zip_cons_cons, List.lookup_cons]
      by_cases h : v = a
      · exact ⟨x, by simp [h]⟩
      · have hv' : v ∈ vs := by
          rcases List.mem_cons.1 hv with e | e
          · exact absurd e h
          · exact e
        obtain ⟨y, hy⟩ := ih xs (by simpa using hl) hv'
        have hb : (v == a) = false := by simp [h]
        exact ⟨y, by rw [hb]; exact hy⟩

theorem subst_renTerm (hf : Function.Injective f) (vs vals : List String) (hl : vals.length = vs.length)
    (t : Term) (hv : ∀ v ∈ t.vars, v ∈ vs) :
    Term.subst ((vs.map f).zip vals) (renTerm f t) = Term.subst (vs.zip vals) t := by
  cases t with
  | const c => rfl
  | var v =>
    obtain ⟨x, hx⟩ := lookup_zip_some vs vals hl v (hv v (by simp [Term.vars]))
    simp only [renTerm, Term.subst, lookup_zip_map hf, hx, Option.getD_some]

theorem subst_renAtom (hf : Function.Injective f) (vs vals : List String) (hl : vals.length = vs.length)
    (a : Atom) (hv : ∀ v ∈ a.vars, v ∈ vs) :
    Atom.subst ((vs.map f).zip vals) (renAtom f a) = Atom.subst (vs.zip vals) a := by
  unfold Atom.subst renAtom
  simp only [List.map_map]
  congr 1
  apply List.map_congr_left
  intro t ht
  exact subst_renTerm hf vs vals hl t (fun v hvt => hv v (by
    unfold Atom.vars; exact List.mem_flatMap.2 ⟨t, ht, hvt⟩))

/-! ### alternatives -/

theorem expandOr_ren (f : String → String) (body : List Lit) :
    expandOr (body.map (renLit f)) = (expandOr body).map (List.map (fun l => (l.1, renAtom f l.2))) := by
  induction body with
  | nil => rfl
  | cons l ls ih =>
    cases l <;>
      simp only [List.map_cons, renLit, expandOr, ih, List.map_map, List.map_append, Function.comp_def]

theorem atoms_of_alt (body : List Lit) (alt : List (Bool × Atom)) (h : alt ∈ expandOr body) :
    ∀ l ∈ alt, l.2 ∈ body.flatMap Lit.atoms := by
  rw [mem_expandOr] at h
  induction h with
  | nil => intro l hl; cases hl
  | @cons lit x ls xs hx _ ih =>
    intro l hl
    rw [List.flatMap_cons, List.mem_append]
    rcases List.mem_cons.1 hl with rfl | hl
    · left
      cases lit with
      | pos a => simp only [LitSel] at hx; subst hx; simp [Lit.atoms]
      | neg a => simp only [LitSel] at hx; subst hx; simp [Lit.atoms]
      | or a b => simp only [LitSel] at hx; rcases hx with rfl | rfl <;> simp [Lit.atoms]
    · exact Or.inr (ih l hl)

theorem vars_sub (s : Stmt) (a : Atom) (ha : a ∈ s.atoms) : ∀ v ∈ a.vars, v ∈ s.vars := by
  intro v hv
  unfold Stmt.vars
  rw [mem_dedup]
  exact List.mem_flatMap.2 ⟨a, ha, hv⟩

/-! ### instances -/

theorem cidOf_ren (f : String → String) (s : Stmt) (c0 k hi : Nat) :
    cidOf (renStmt f s) c0 k hi = cidOf s c0 k hi := by
  unfold cidOf; rw [heads_ren, List.length_map]

theorem groundInst_renStmt (hf : Function.Injective f) (s : Stmt) (c0 k : Nat) (vals : List String)
    (hl : vals.length = s.vars.length) :
    groundInst (renStmt f s) c0 k vals = groundInst s c0 k vals := by
  unfold groundInst
  simp only [vars_renStmt hf, heads_ren, body_ren, expandOr_ren, isProb_ren, cidOf_ren, List.zipIdx_map,
    List.flatMap_map, List.map_map]
  apply flatMap_congr'
  rintro ⟨ph, hi⟩ hmem
  have hph : ph ∈ s.heads := by
    have := List.mem_zipIdx_iff_getElem?.1 hmem
    exact List.mem_of_getElem? this
  have hha : ph.2 ∈ s.atoms := by
    unfold Stmt.atoms
    exact List.mem_append_left _ (List.mem_map.2 ⟨ph, hph, rfl⟩)
  apply List.map_congr_left
  intro alt halt
  simp only [Function.comp, Prod.map, id]
  congr 1
  · exact subst_renAtom hf s.vars vals hl ph.2 (vars_sub s ph.2 hha)
  · simp only [List.map_map]
    apply List.map_congr_left
    intro l hlm
    have hla : l.2 ∈ s.atoms := by
      unfold Stmt.atoms
      exact List.mem_append_right _ (atoms_of_alt s.body alt halt l hlm)
    simp only [Function.comp]
    rw [subst_renAtom hf s.vars vals hl l.2 (vars_sub s l.2 hla)]

theorem insts_renStmt (hf : Function.Injective f) (cs : List String) (s : Stmt) :
    (renStmt f s).insts cs = s.insts cs := by
  unfold Stmt.insts; rw [vars_renStmt hf, List.length_map]

theorem nchoices_renStmt (hf : Function.Injective f) (cs : List String) (s : Stmt) :
    (renStmt f s).nchoices cs = s.nchoices cs := by
  unfold Stmt.nchoices; rw [insts_renStmt hf, isProb_ren, heads_ren, List.length_map]

theorem groupInst_renStmt (f : String → String) (s : Stmt) (c0 k : Nat) :
    groupInst (renStmt f s) c0 k = groupInst s c0 k := by
  unfold groupInst
  simp only [heads_ren, cidOf_ren, List.zipIdx_map, List.map_map]
  rfl

theorem groundStmt_renStmt (hf : Function.Injective f) (cs : List String) (c0 : Nat) (s : Stmt) :
    groundStmt cs c0 (renStmt f s) = groundStmt cs c0 s := by
  unfold groundStmt
  rw [insts_renStmt hf, isProb_ren]
  congr 1
  · apply flatMap_congr'
    rintro ⟨vals, k⟩ hmem
    have hv : vals ∈ tuples cs s.vars.length := by
      have := (mem_insts cs s vals k).1 hmem
      exact List.mem_of_getElem? this
    exact groundInst_renStmt hf s c0 k vals ((mem_tuples cs _ vals).1 hv).1
  · simp only [groupInst_renStmt]

/-- replacing a statement by one with the same instances and the same number of choices -/
theorem groundStmts_congr_at (cs : List String) (l₁ l₂ : List Stmt) (s s' : Stmt)
    (hg : ∀ c0, groundStmt cs c0 s' = groundStmt cs c0 s) (hn : s'.nchoices cs = s.nchoices cs) (c0 : Nat) :
    groundStmts cs c0 (l₁ ++ s' :: l₂) = groundStmts cs c0 (l₁ ++ s :: l₂) := by
  induction l₁ generalizing c0 with
  | nil => simp only [List.nil_append, groundStmts, hg, hn]
  | cons x l ih => simp only [List.cons_append, groundStmts, ih]

end ProbLogProofs.SemFOVars
