import ProbLogProofs.Lemmas.UnrollNames
import ProbLogProofs.Lemmas.UnrollReuseMain
/-!
Helper lemmas for C09Unroll (10): `breakNode` never touches the query / evidence entries of the target's name table.
-/
namespace ProbLogProofs.Unroll
open ProbLogModel.Formula ProbLogModel.Cycles

theorem children_NN {src : Store} {ev : Option (List (Nat × Key))} {fuel : Nat}
    (ih : ∀ (st : BC) (node : Int) (anc : List Nat) (isEv : Bool) (r : Res),
      breakNode src ev fuel st node anc isEv = .ok r → NN r.st.target = NN st.target)
    {ancset : List Nat} {isEv : Bool} :
    ∀ (children : List Key) (st : BC) (acc : List Key) (cb content : List Nat) (st' : BC) (keys : List Key)
      (cb' content' : List Nat),
      breakChildren src ev fuel st children ancset isEv acc cb content = .ok (st', keys, cb', content') →
      NN st'.target = NN st.target := by
  intro children
  induction children with
  | nil =>
    intro st acc cb content st' keys cb' content' h
    rw [breakChildren.eq_1] at h
    simp only [Except.ok.injEq, Prod.mk.injEq] at h
    obtain ⟨rfl, _⟩ := h
    rfl
  | cons c rest ihl =>
    intro st acc cb content st' keys cb' content' h
    cases c with
    | none => rw [breakChildren.eq_2] at h; cases h
    | some c =>
      rw [breakChildren.eq_3] at h
      by_cases hc0 : c = 0
      · rw [if_pos hc0] at h
        exact ihl _ _ _ _ _ _ _ _ h
      · rw [if_neg hc0] at h
        cases hr : breakNode src ev fuel st c ancset isEv with
        | error e => rw [hr] at h; cases h
        | ok r =>
          rw [hr] at h
          simp only at h
          rw [ihl _ _ _ _ _ _ _ _ h, ih _ _ _ _ _ hr]

theorem breakNode_NN (src : Store) (ev : Option (List (Nat × Key))) :
    ∀ (fuel : Nat) (st : BC) (node : Int) (anc : List Nat) (isEv : Bool) (r : Res),
      breakNode src ev fuel st node anc isEv = .ok r → NN r.st.target = NN st.target := by
  intro fuel
  induction fuel with
  | zero => intro st node anc isEv r h; rw [breakNode.eq_1] at h; cases h
  | succ fuel ih =>
    intro st node anc isEv r h
    rw [breakNode.eq_2] at h
    by_cases hcond : (!isEv && !isProbabilistic (evValue ev node.natAbs)) = true
    · rw [if_pos hcond] at h
      simp only [Except.ok.injEq] at h
      subst h; rfl
    · rw [if_neg hcond] at h
      by_cases hc : anc.contains node.natAbs = true
      · rw [if_pos hc] at h
        simp only [Except.ok.injEq] at h
        subst h; rfl
      · rw [if_neg hc] at h
        simp only at h
        cases hfind : List.find? (fun e => subset e.cb (anc ++ [node.natAbs]) &&
            disjoint (anc ++ [node.natAbs]) e.cn) (transGet st.trans node.natAbs) with
        | some e =>
          rw [hfind] at h
          simp only [Except.ok.injEq] at h
          subst h; rfl
        | none =>
          rw [hfind] at h
          simp only at h
          cases hn : src.nodes[node.natAbs - 1]? with
          | none => rw [hn] at h; cases h
          | some nd =>
            rw [hn] at h
            have hcomp : ∀ kind children name,
                breakCompound src ev fuel st node.natAbs (decide (node < 0)) kind children name
                  (anc ++ [node.natAbs]) isEv = .ok r → NN r.st.target = NN st.target := by
              intro kind children name h
              obtain ⟨st1, keys, ccb, ccontent, nn, t', k, hch, hadd, rfl⟩ := compound_unfold h
              show NN t' = _
              rw [addCompound_NN hadd]
              exact children_NN ih children st [] [] [] st1 keys ccb ccontent hch
            cases nd with
            | atom ident group isExtra name =>
              simp only at h
              generalize hr : st.target.addAtom ident
                (weightClass ((lookup src.weights node.natAbs).getD Weight.neutral))
                ((lookup src.weights node.natAbs).getD Weight.neutral) group name true isExtra = p at h
              obtain ⟨t', k⟩ := p
              simp only [Except.ok.injEq] at h
              subst h
              have := NN_addAtom st.target ident
                (weightClass ((lookup src.weights node.natAbs).getD Weight.neutral))
                ((lookup src.weights node.natAbs).getD Weight.neutral) group name true isExtra
              rw [hr] at this
              exact this
            | conj children name => exact hcomp .conj children name h
            | disj children name => exact hcomp .disj children name h

end ProbLogProofs.Unroll
