import ProbLogModel.Tasks.Lists
import ProbLogProofs.Lemmas.Lists
/-! The specification of `sw/6` (C32), by induction on the value list (core Lean only). -/
namespace ProbLogProofs.Lists
open ProbLogModel.Tasks.Lists

theorem mem_shift (x : Val) (q : Rat) (r : Dist (Sel × World)) (e : (Sel × World) × Rat) :
    e ∈ shift x q r ↔ ∃ e', e' ∈ r ∧ e = ((⟨e'.1.1.pos + 1, e'.1.1.value, x :: e'.1.1.rest⟩, e'.1.2), q * e'.2) := by
  unfold shift
  rw [List.mem_map]
  constructor
  · rintro ⟨a, ha, rfl⟩; exact ⟨a, ha, rfl⟩
  · rintro ⟨a, ha, rfl⟩; exact ⟨a, ha, rfl⟩

/-- What a call of `sw/6` on a fresh world returns. -/
structure SwSpec (id : Nat) (pw : Rat) (ws : List Rat) (xs : List Val) (w : World) (d : Dist (Sel × World)) : Prop where
  prob : ∀ i (hi : i < ws.length), mass d (fun e => e.1.pos == i) = ws[i] / pw
  total : mass d (fun _ => true) = 1
  outcome : ∀ e, e ∈ d → ∃ (h : e.1.1.pos < xs.length), e.1.1.value = xs[e.1.1.pos] ∧ e.1.1.rest = xs.eraseIdx e.1.1.pos
  world : ∀ e, e ∈ d → ∃ new, e.1.2 = new ++ w ∧ ∀ f, f ∈ new → f.1.id = id ∧ f.1.xt.length < xs.length
  again : ∀ e, e ∈ d → sw id pw ws xs e.1.2 = some [((e.1.1, e.1.2), 1)]

theorem sw_spec (id : Nat) (xs : List Val) : ∀ (pw : Rat) (ws : List Rat) (w : World),
    ws.length = xs.length → xs ≠ [] → (∀ x, x ∈ ws → 0 < x) → pw = sumList ws → Fresh w id xs.length →
    ∃ d, sw id pw ws xs w = some d ∧ SwSpec id pw ws xs w d := by
  induction xs with
  | nil => intro _ _ _ _ h; exact absurd rfl h
  | cons x xt ih =>
    intro pw ws w hl _ hpos hpw hfresh
    cases ws with
    | nil => simp at hl
    | cons wgt wt =>
      have hwgt : 0 < wgt := hpos wgt (by simp)
      cases xt with
      | nil =>
        -- clause 1
        have hwt : wt = [] := by simpa using hl
        subst hwt
        have hpw' : pw = wgt := by rw [hpw]; simp [sumList]; grind
        refine ⟨[((⟨0, x, []⟩, w), 1)], by simp [sw], ?_⟩
        constructor
        · intro i hi
          have : i = 0 := by simp at hi; omega
          subst this
          simp [mass, hpw']; grind
        · simp [mass]; grind
        · intro e he
          simp at he; subst he
          exact ⟨by simp, by simp, by simp⟩
        · intro e he
          simp at he; subst he
          exact ⟨[], by simp, by simp⟩
        · intro e he
          simp at he; subst he
          simp [sw]
      | cons y ys =>
        -- clauses 2 and 3
        have hlt : wt.length = (y :: ys).length := by simpa using hl
        have hwtne : wt ≠ [] := by intro e; simp [e] at hlt
        have hpos' : ∀ z, z ∈ wt → 0 < z := fun z hz => hpos z (by simp [hz])
        have hsum : 0 < sumList wt := sumList_pos wt hwtne hpos'
        have hpwe : pw = wgt + sumList wt := by rw [hpw, sumList_cons]
        have hpw0 : pw ≠ 0 := by grind
        have hrest : pw - wgt = sumList wt := by grind
        let k : Key := ⟨id, wgt / pw, wt, x, y :: ys⟩
        have hk : lookupFact w k = none :=
          lookup_fresh w k (x :: y :: ys).length hfresh (by simp [k])
        have hfresh' : Fresh ((k, false) :: w) id (y :: ys).length :=
          fresh_cons w k false id (y :: ys).length (by simpa using hfresh) (by simp [k])
        obtain ⟨r, hr, hspec⟩ := ih (pw - wgt) wt ((k, false) :: w) hlt (by simp) hpos' hrest hfresh'
        have hsw : sw id pw (wgt :: wt) (x :: y :: ys) w =
            some (((⟨0, x, y :: ys⟩, (k, true) :: w), k.p) :: shift x (1 - k.p) r) := by
          rw [sw]
          simp only [hpw0, if_false]
          show (match lookupFact w k with
            | some true => _ | some false => _ | none => _) = _
          rw [hk]
          have hr' : sw id (pw - wgt) wt (y :: ys) ((⟨id, wgt / pw, wt, x, y :: ys⟩, false) :: w) = some r := hr
          simp only [hr']
          rfl
        refine ⟨_, hsw, ?_⟩
        have hkp : k.p = wgt / pw := rfl
        constructor
        · -- prob
          intro i hi
          cases i with
          | zero =>
            rw [mass_cons, mass_shift_zero]
            simp [hkp]; grind
          | succ i =>
            rw [mass_cons, mass_shift_succ]
            have hi' : i < wt.length := by simpa using hi
            rw [hspec.prob i hi']
            simp only [List.getElem_cons_succ]
            have : ((0 : Nat) == i + 1) = false := by simp
            simp only [this]
            rw [hkp]
            grind
        · -- total
          rw [mass_cons, mass_shift_all, hspec.total]
          simp; grind
        · -- outcome
          intro e he
          rcases List.mem_cons.mp he with rfl | he
          · exact ⟨by simp, by simp, by simp⟩
          · obtain ⟨e', he', rfl⟩ := (mem_shift _ _ _ _).mp he
            obtain ⟨h1, h2, h3⟩ := hspec.outcome e' he'
            refine ⟨by simpa using h1, ?_, ?_⟩
            · simp only [List.getElem_cons_succ]; exact h2
            · simp only [List.eraseIdx_cons_succ]; rw [h3]
        · -- world
          intro e he
          rcases List.mem_cons.mp he with rfl | he
          · refine ⟨[(k, true)], rfl, ?_⟩
            intro f hf
            simp at hf; subst hf
            exact ⟨rfl, by simp [k]⟩
          · obtain ⟨e', he', rfl⟩ := (mem_shift _ _ _ _).mp he
            obtain ⟨new, hn1, hn2⟩ := hspec.world e' he'
            refine ⟨new ++ [(k, false)], by simp [hn1], ?_⟩
            intro f hf
            rcases List.mem_append.mp hf with hf | hf
            · have := hn2 f hf
              exact ⟨this.1, by have := this.2; simp at this ⊢; omega⟩
            · simp at hf; subst hf
              exact ⟨rfl, by simp [k]⟩
        · -- again
          intro e he
          rcases List.mem_cons.mp he with rfl | he
          · rw [sw]
            simp only [hpw0, if_false]
            show (match lookupFact ((k, true) :: w) k with
              | some true => _ | some false => _ | none => _) = _
            have : lookupFact ((k, true) :: w) k = some true := by simp [lookupFact]
            rw [this]
          · obtain ⟨e', he', rfl⟩ := (mem_shift _ _ _ _).mp he
            obtain ⟨new, hn1, hn2⟩ := hspec.world e' he'
            have hl2 : lookupFact e'.1.2 k = some false := by
              rw [hn1]
              apply lookup_append
              intro f hf hfk
              have := (hn2 f hf).2
              rw [hfk] at this
              simp [k] at this
            rw [sw]
            simp only [hpw0, if_false]
            show (match lookupFact e'.1.2 k with
              | some true => _ | some false => _ | none => _) = _
            rw [hl2]
            simp only [hspec.again e' he', Option.map_some, shift_cons, shift_nil]
            have : (1 : Rat) * 1 = 1 := by grind
            rw [this]

end ProbLogProofs.Lists
