import ProbLogProofs.Lemmas.Propagate
/-!
# C06 helper lemmas (3): termination measure of the propagation worklist

`μ = (#nodes without a value) * (2N+1) + #(queued literals whose node already has a value)` decreases in every
iteration, whatever element is popped: a node gets its value once (the first factor decreases, the second is bounded by
`2N` because the queue is a set of literals over the valued nodes), and an iteration on a node that already has a value
only queues literals of nodes without a value.
-/
namespace ProbLogModel.Propagate
open ProbLogModel.Formula

/-! ### counting lemmas -/

/-- A duplicate-free list of non-zero integers of absolute value ≤ N has at most 2N elements. -/
theorem length_le_two_mul (N : Nat) : ∀ (l : List Int), l.Nodup → (∀ x, x ∈ l → 1 ≤ x.natAbs ∧ x.natAbs ≤ N) →
    l.length ≤ 2 * N := by
  induction N with
  | zero =>
    intro l _ h
    cases l with
    | nil => simp
    | cons a r => have := h a List.mem_cons_self; omega
  | succ N ih =>
    intro l hnd h
    let l1 := l.erase ((N : Int) + 1)
    let l2 := l1.erase (-((N : Int) + 1))
    have hnd1 : l1.Nodup := hnd.erase _
    have hnd2 : l2.Nodup := hnd1.erase _
    have hlen1 : l.length ≤ l1.length + 1 := by
      have := @List.length_erase Int _ _ ((N : Int) + 1) l
      show l.length ≤ (l.erase ((N : Int) + 1)).length + 1
      split at this <;> omega
    have hlen2 : l1.length ≤ l2.length + 1 := by
      have := @List.length_erase Int _ _ (-((N : Int) + 1)) l1
      show l1.length ≤ (l1.erase (-((N : Int) + 1))).length + 1
      split at this <;> omega
    have hl2 : ∀ x, x ∈ l2 → 1 ≤ x.natAbs ∧ x.natAbs ≤ N := by
      intro x hx
      have h2 := (hnd1.mem_erase_iff).1 hx
      have h1 := (hnd.mem_erase_iff).1 h2.2
      have := h x h1.2
      have ha := h2.1
      have hb := h1.1
      omega
    have := ih l2 hnd2 hl2
    omega

theorem length_filter_erase {α} [BEq α] [LawfulBEq α] (p : α → Bool) (x : α) :
    ∀ (l : List α), x ∈ l → p x = true → ((l.erase x).filter p).length + 1 = (l.filter p).length := by
  intro l
  induction l with
  | nil => intro h; cases h
  | cons y r ih =>
    intro hx hp
    by_cases hyx : y = x
    · subst hyx
      simp [List.erase_cons_head, hp]
    · have hxr : x ∈ r := by
        rcases List.mem_cons.1 hx with h | h
        · exact absurd h.symm hyx
        · exact h
      have hne : (y == x) = false := by simpa using hyx
      rw [List.erase_cons_tail (by simpa using hyx)]
      simp only [List.filter_cons]
      have := ih hxr hp
      split <;> (try simp only [List.length_cons]) <;> omega

/-- Switching a predicate off at one point of a duplicate-free list removes exactly one element of the filter. -/
theorem length_filter_off (p p' : Nat → Bool) (x : Nat) (hpx : p x = true) (hp'x : p' x = false)
    (hoth : ∀ i, i ≠ x → p' i = p i) :
    ∀ (l : List Nat), l.Nodup → x ∈ l → (l.filter p').length + 1 = (l.filter p).length := by
  intro l
  induction l with
  | nil => intro _ h; cases h
  | cons y r ih =>
    intro hnd hx
    obtain ⟨hyr, hndr⟩ := List.nodup_cons.1 hnd
    by_cases hyx : y = x
    · subst hyx
      have : r.filter p' = r.filter p := by
        apply List.filter_congr
        intro i hi
        exact hoth i (fun e => hyr (e ▸ hi))
      simp [hpx, hp'x, this]
    · have hxr : x ∈ r := by
        rcases List.mem_cons.1 hx with h | h
        · exact absurd h.symm hyx
        · exact h
      have := ih hndr hxr
      simp only [List.filter_cons, hoth y hyx]
      split <;> (try simp only [List.length_cons]) <;> omega

/-! ### the measure -/

/-- all keys of the dict are node ids of the store -/
def KeysIn (cur : Cur) (N : Nat) : Prop := ∀ k v, lookup cur k = some v → 1 ≤ k ∧ k ≤ N

def inCur (cur : Cur) (q : Int) : Bool := (lookup cur q.natAbs).isSome

def unset (cur : Cur) (N : Nat) : Nat := ((List.range N).filter (fun i => (lookup cur (i + 1)).isNone)).length

def qc (cur : Cur) (queue : List Int) : Nat := (queue.filter (inCur cur)).length

def mu (N : Nat) (st : PState) : Nat := unset st.cur N * (2 * N + 1) + qc st.cur st.queue

theorem unset_le (cur : Cur) (N : Nat) : unset cur N ≤ N := by
  unfold unset
  have := List.length_filter_le (fun i => (lookup cur (i + 1)).isNone) (List.range N)
  simpa using this

theorem qc_le (cur : Cur) (N : Nat) (hk : KeysIn cur N) (queue : List Int) (hnd : queue.Nodup) : qc cur queue ≤ 2 * N := by
  unfold qc
  apply length_le_two_mul N
  · exact List.Nodup.sublist List.filter_sublist hnd
  · intro x hx
    have := (List.mem_filter.1 hx).2
    unfold inCur at this
    cases hl : lookup cur x.natAbs with
    | none => rw [hl] at this; cases this
    | some v => exact hk _ v hl

theorem KeysIn.set {cur : Cur} {N : Nat} (h : KeysIn cur N) (a : Nat) (v : Key) (ha : 1 ≤ a ∧ a ≤ N) :
    KeysIn (assocSet cur a v) N := by
  intro k w hk
  rw [lookup_assocSet] at hk
  by_cases hka : k = a
  · subst hka; exact ha
  · simp only [hka, if_false] at hk; exact h k w hk

theorem unset_set_new (cur : Cur) (N : Nat) (a : Nat) (v : Key) (ha : 1 ≤ a ∧ a ≤ N) (hnew : lookup cur a = none) :
    unset (assocSet cur a v) N + 1 = unset cur N := by
  unfold unset
  apply length_filter_off _ _ (a - 1)
  · have : a - 1 + 1 = a := by omega
    simp only [this, hnew, Option.isNone_none]
  · have : a - 1 + 1 = a := by omega
    simp only [this, lookup_assocSet, if_true, Option.isNone_some]
  · intro i hi
    have : ¬ (i + 1 = a) := by omega
    simp only [lookup_assocSet, this, if_false]
  · exact List.nodup_range
  · rw [List.mem_range]; omega

theorem isSome_set_old (cur : Cur) (a : Nat) (v : Key) (hold : (lookup cur a).isSome = true) (x : Nat) :
    (lookup (assocSet cur a v) x).isSome = (lookup cur x).isSome := by
  rw [lookup_assocSet]
  by_cases hx : x = a
  · subst hx; simp [hold]
  · simp [hx]

theorem unset_set_old (cur : Cur) (N : Nat) (a : Nat) (v : Key) (hold : (lookup cur a).isSome = true) :
    unset (assocSet cur a v) N = unset cur N := by
  unfold unset
  congr 1
  apply List.filter_congr
  intro i _
  have := isSome_set_old cur a v hold (i + 1)
  cases h1 : lookup (assocSet cur a v) (i + 1) <;> cases h2 : lookup cur (i + 1) <;> simp_all

theorem inCur_set_old (cur : Cur) (a : Nat) (v : Key) (hold : (lookup cur a).isSome = true) :
    inCur (assocSet cur a v) = inCur cur := by
  funext x
  unfold inCur
  exact isSome_set_old cur a v hold x.natAbs

/-! ### the queue after one iteration -/

/-- `q'` is duplicate free and has the same already-valued literals as `q0`. -/
def QExt (cur : Cur) (q0 q' : List Int) : Prop :=
  (q0.Nodup → q'.Nodup) ∧ q'.filter (inCur cur) = q0.filter (inCur cur)

theorem QExt.refl (cur : Cur) (q : List Int) : QExt cur q q := ⟨id, rfl⟩

theorem qAdd_nodup {q : List Int} (h : q.Nodup) (x : Int) : (qAdd q x).Nodup := by
  unfold qAdd
  split
  · exact h
  · rename_i hc
    rw [List.nodup_append]
    refine ⟨h, by simp, ?_⟩
    intro a ha b hb
    have : b = x := by simpa using hb
    subst this
    intro e; subst e
    exact hc (by simpa using ha)

theorem QExt.qAdd {cur : Cur} {q0 q : List Int} (h : QExt cur q0 q) (x : Int) (hx : inCur cur x = false) :
    QExt cur q0 (qAdd q x) := by
  refine ⟨fun h0 => qAdd_nodup (h.1 h0) x, ?_⟩
  rw [← h.2]
  unfold Propagate.qAdd
  split
  · rfl
  · simp [List.filter_append, hx]

theorem QExt.addIfNew {cur : Cur} {q0 q : List Int} (h : QExt cur q0 q) (c : Int) : QExt cur q0 (addIfNew cur q c) := by
  unfold Propagate.addIfNew
  split
  · rename_i hc
    apply h.qAdd
    unfold inCur
    cases hl : lookup cur c.natAbs with
    | none => rfl
    | some v => rw [hl] at hc; cases hc
  · exact h

theorem QExt.foldl {cur : Cur} {q0 : List Int} (f : List Int → Int → List Int)
    (hf : ∀ q c, QExt cur q0 q → QExt cur q0 (f q c)) (l : List Int) :
    ∀ q, QExt cur q0 q → QExt cur q0 (l.foldl f q) := by
  induction l with
  | nil => intro q h; exact h
  | cons a r ih => intro q h; simp only [List.foldl_cons]; exact ih _ (hf q a h)

theorem compound_shape (isConj : Bool) (nid : Int) (cs : List Key) (q : List Int) (cur : Cur) (rev : Rev) (st' : PState)
    (h : compound isConj nid cs q cur rev = .ok st') : st'.cur = cur ∧ QExt cur q st'.queue := by
  unfold compound at h
  cases hcv : childVals cur cs with
  | error e => rw [hcv] at h; simp at h
  | ok children =>
    rw [hcv] at h
    simp only at h
    split at h
    · cases h
    · split at h
      · cases h
      · split at h
        · cases h; exact ⟨rfl, QExt.refl _ _⟩
        · split at h
          · cases h; exact ⟨rfl, QExt.refl _ _⟩
          · split at h
            · rename_i c _
              split at h
              · rename_i hc
                cases h
                refine ⟨rfl, (QExt.refl cur q).qAdd _ ?_⟩
                have hc' : inCur cur c = false := by
                  unfold inCur
                  cases hl : lookup cur c.natAbs with
                  | none => rfl
                  | some v => rw [hl] at hc; cases hc
                by_cases hlt : nid < 0
                · simp only [hlt, if_true]
                  unfold inCur at hc' ⊢
                  rw [Int.natAbs_neg]; exact hc'
                · simp only [hlt, if_false]; exact hc'
              · cases h; exact ⟨rfl, QExt.refl _ _⟩
            · split at h
              · cases h
                exact ⟨rfl, QExt.foldl _ (fun q c hq => hq.addIfNew c) _ _ (QExt.refl _ _)⟩
              · split at h
                · cases h
                  exact ⟨rfl, QExt.foldl _ (fun q c hq => hq.addIfNew (-c)) _ _ (QExt.refl _ _)⟩
                · cases h; exact ⟨rfl, QExt.refl _ _⟩

theorem requeue_nodup (cur : Cur) (parents : List Nat) : ∀ (q : List Int), q.Nodup → (requeue cur q parents).Nodup := by
  unfold requeue
  induction parents with
  | nil => intro q h; exact h
  | cons a r ih =>
    intro q h
    simp only [List.foldl_cons]
    apply ih
    split
    · split
      · exact qAdd_nodup h _
      · exact qAdd_nodup h _
    · exact h

theorem compound_ne_fuel (isConj : Bool) (nid : Int) (cs : List Key) (q : List Int) (cur : Cur) (rev : Rev) :
    compound isConj nid cs q cur rev ≠ .error .fuel := by
  unfold compound
  cases hcv : childVals cur cs with
  | error e => have := childVals_err hcv; subst this; simp
  | ok children =>
    simp only
    repeat' split
    all_goals simp

theorem popStep_ne_fuel (S : Store) (st : PState) (nid : Int) : popStep S st nid ≠ .error .fuel := by
  unfold popStep
  simp only
  split
  · simp
  · split
    · simp
    · split
      · simp
      · exact compound_ne_fuel _ _ _ _ _ _
      · exact compound_ne_fuel _ _ _ _ _ _

/-- One iteration: the invariants are kept and the measure decreases. -/
theorem popStep_measure (S : Store) (st st' : PState) (nid : Int) (hmem : nid ∈ st.queue) (hnd : st.queue.Nodup)
    (hk : KeysIn st.cur S.nodes.length)
    (h : popStep S { st with queue := st.queue.erase nid } nid = .ok st') :
    st'.queue.Nodup ∧ KeysIn st'.cur S.nodes.length ∧ mu S.nodes.length st' + 1 ≤ mu S.nodes.length st := by
  unfold popStep at h
  simp only at h
  by_cases ha : nid.natAbs = 0
  · simp [ha] at h
  · simp only [ha, if_false] at h
    cases hnode : S.nodes[nid.natAbs - 1]? with
    | none => rw [hnode] at h; simp at h
    | some n =>
      rw [hnode] at h
      simp only at h
      have hrange : 1 ≤ nid.natAbs ∧ nid.natAbs ≤ S.nodes.length := by
        have := (List.getElem?_eq_some_iff.1 hnode).1
        omega
      -- the part common to the three node types
      have key : ∀ (q' : List Int),
          QExt (assocSet st.cur nid.natAbs (if nid > 0 then TRUE else FALSE))
            (if (lookup st.cur nid.natAbs).isNone then
              requeue st.cur (st.queue.erase nid) (revGet st.rev nid.natAbs) else st.queue.erase nid) q' →
          q'.Nodup ∧ KeysIn (assocSet st.cur nid.natAbs (if nid > 0 then TRUE else FALSE)) S.nodes.length ∧
            mu S.nodes.length ⟨q', assocSet st.cur nid.natAbs (if nid > 0 then TRUE else FALSE), st'.rev⟩ + 1 ≤
              mu S.nodes.length st := by
        intro q' hext
        have hk' := hk.set nid.natAbs (if nid > 0 then TRUE else FALSE) hrange
        have hnde : (st.queue.erase nid).Nodup := hnd.erase nid
        cases hl : lookup st.cur nid.natAbs with
        | none =>
          -- first time
          rw [hl] at hext
          simp only [Option.isNone_none, if_true] at hext
          have hq' : q'.Nodup := hext.1 (requeue_nodup _ _ _ hnde)
          refine ⟨hq', hk', ?_⟩
          unfold mu
          simp only
          have h1 := unset_set_new st.cur S.nodes.length nid.natAbs (if nid > 0 then TRUE else FALSE) hrange hl
          have h2 := qc_le _ _ hk' q' hq'
          have h3 := unset_le st.cur S.nodes.length
          rw [← h1, Nat.add_mul]
          omega
        | some w =>
          rw [hl] at hext
          simp only [Option.isNone_some, Bool.false_eq_true, if_false] at hext
          have hold : (lookup st.cur nid.natAbs).isSome = true := by rw [hl]; rfl
          have hq' : q'.Nodup := hext.1 hnde
          refine ⟨hq', hk', ?_⟩
          unfold mu
          simp only
          rw [unset_set_old _ _ _ _ hold]
          have hqc : qc (assocSet st.cur nid.natAbs (if nid > 0 then TRUE else FALSE)) q' + 1 = qc st.cur st.queue := by
            unfold qc
            rw [hext.2, inCur_set_old _ _ _ hold]
            apply length_filter_erase _ _ _ hmem
            unfold inCur; exact hold
          omega
      cases n with
      | atom i g e nm =>
        simp only [Except.ok.injEq] at h
        subst h
        exact key _ (QExt.refl _ _)
      | conj cs nm =>
        simp only at h
        obtain ⟨hc, hext⟩ := compound_shape _ _ _ _ _ _ _ h
        have := key st'.queue hext
        rw [← hc] at this
        exact this
      | disj cs nm =>
        simp only at h
        obtain ⟨hc, hext⟩ := compound_shape _ _ _ _ _ _ _ h
        have := key st'.queue hext
        rw [← hc] at this
        exact this

theorem run_no_fuel (S : Store) (pick : Nat → List Int → Nat) :
    ∀ (fuel : Nat) (st : PState), st.queue.Nodup → KeysIn st.cur S.nodes.length →
      mu S.nodes.length st + 1 ≤ fuel → run S pick fuel st ≠ .error .fuel := by
  intro fuel
  induction fuel with
  | zero => intro st _ _ h; omega
  | succ f ih =>
    intro st hnd hk hmu
    unfold run
    split
    · intro e; cases e
    · rename_i hne
      have hlen : 0 < st.queue.length := by
        cases hq : st.queue with
        | nil => rw [hq] at hne; simp at hne
        | cons a r => simp
      have hlt : pick f st.queue % st.queue.length < st.queue.length := Nat.mod_lt _ hlen
      cases hget : st.queue[pick f st.queue % st.queue.length]? with
      | none =>
        have := List.getElem?_eq_none_iff.1 hget
        omega
      | some nid =>
        simp only
        have hmem : nid ∈ st.queue := List.mem_of_getElem? hget
        cases hps : popStep S { st with queue := st.queue.erase nid } nid with
        | error e =>
          simp only
          intro e'
          simp only [Except.error.injEq] at e'
          subst e'
          exact popStep_ne_fuel _ _ _ hps
        | ok st' =>
          simp only
          obtain ⟨h1, h2, h3⟩ := popStep_measure S st st' nid hmem hnd hk hps
          exact ih st' h1 h2 (by omega)

end ProbLogModel.Propagate
