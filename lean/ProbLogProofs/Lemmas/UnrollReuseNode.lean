import ProbLogProofs.Lemmas.UnrollReuseMain
/-!
Helper lemmas for C09Unroll (7): the main induction for `breakNode` (ancestor hit, table hit, atom, compound), and
its consequences at a root.
-/
namespace ProbLogProofs.Unroll
open ProbLogModel.Formula ProbLogModel.Cycles ProbLogProofs.Cycles

/-- **Main lemma for the translation with the reuse table**: on a stratified source, every call of `breakNode`
    (no evidence table) from a state whose table satisfies the invariant returns a state whose table satisfies the
    invariant, and a key sandwiched between the cut evaluation under the call's ancestors and the perfect-model
    value. -/
theorem node_valid {src : Store} {lvl : Nat → Nat} (hst : Stratified src lvl) {α : Nat → Bool}
    (hdet : DetOK src α) : ∀ fuel, NodeIH src lvl α fuel := by
  intro fuel
  induction fuel with
  | zero => intro st node anc isEv r _ _ _ _ h; rw [breakNode.eq_1] at h; cases h
  | succ fuel ih =>
    intro st node anc isEv r h0 hw htr hanc h
    rw [breakNode.eq_2] at h
    have hn0 : 0 < node.natAbs := by omega
    have hp : isProbabilistic (evValue none node.natAbs) = true := isProb_natCast (by omega)
    have hcond : (!isEv && !isProbabilistic (evValue none node.natAbs)) = false := by rw [hp]; simp
    rw [hcond] at h
    simp only [Bool.false_eq_true, ↓reduceIte] at h
    by_cases hc : anc.contains node.natAbs = true
    · -- ancestor hit
      rw [if_pos hc] at h
      simp only [Except.ok.injEq] at h
      subst h
      have hmem : node.natAbs ∈ anc := List.contains_iff_mem.1 hc
      obtain ⟨hcomp, _, hlt⟩ := hanc _ hmem
      have hpos : ¬ node < 0 := fun hn => absurd (hlt hn hcomp) (Nat.lt_irrefl _)
      refine ⟨Step.refl _, htr, trivial, fun ρ _ _ => ⟨fun hk => (by cases hk), fun A f hadm _ hf hcut => ?_⟩⟩
      exfalso
      have hA : node.natAbs ∈ A := by
        rcases hadm with h | h
        · exact (h _).2 hmem
        · exact h _ List.mem_cons_self
      cases f with
      | zero => omega
      | succ f =>
        rw [cutEval_succ] at hcut
        simp only [h0, ↓reduceIte, hpos, List.contains_iff_mem.2 hA] at hcut
        rcases hcomp with ⟨cs, nm, hn⟩ | ⟨cs, nm, hn⟩ <;> simp only [hn] at hcut <;> cases hcut
    · rw [if_neg hc] at h
      have hnotin : node.natAbs ∉ anc := fun hm => hc (List.contains_iff_mem.2 hm)
      cases hfind : List.find? (fun e => subset e.cb (anc ++ [node.natAbs]) && disjoint (anc ++ [node.natAbs]) e.cn)
          (transGet st.trans node.natAbs) with
      | some e =>
        -- table hit: reuse
        rw [hfind] at h
        simp only [Except.ok.injEq] at h
        subst h
        have hmem : e ∈ transGet st.trans node.natAbs := List.mem_of_find?_eq_some hfind
        have hpe := List.find?_some hfind
        rw [Bool.and_eq_true] at hpe
        have hsub := subset_spec hpe.1
        have hent := htr _ e hmem
        refine ⟨Step.refl _, htr, keyBelow_sgn _ _ _ hent.kb, fun ρ hcons hcar => ?_⟩
        obtain ⟨hu, hl⟩ := hent.sem ρ hcons hcar
        exact sign_sem hst h0 hanc hu (fun A f hadm => hl A f (by
          rcases hadm with hA | hA
          · intro x hx
            rcases List.mem_append.1 (hsub x hx) with h1 | h1
            · exact Or.inl ((hA x).2 h1)
            · exact Or.inr (by simpa using h1)
          · exact hA))
      | none =>
        rw [hfind] at h
        simp only at h
        cases hn : src.nodes[node.natAbs - 1]? with
        | none => rw [hn] at h; cases h
        | some nd =>
          rw [hn] at h
          cases nd with
          | atom ident group isExtra name =>
            simp only at h
            generalize hr : st.target.addAtom ident
              (weightClass ((lookup src.weights node.natAbs).getD Weight.neutral))
              ((lookup src.weights node.natAbs).getD Weight.neutral) group name true isExtra = p at h
            obtain ⟨t', k⟩ := p
            simp only [Except.ok.injEq] at h
            subst h
            obtain ⟨hstep, hkb, hval⟩ := atom_key_val hdet hn0 hw hn hr
            have hent : EntryOK src lvl α t' node.natAbs ⟨k, [], []⟩ :=
              ⟨hkb, fun ρ _ hcar => atom_sem hn0 hn (hval ρ hcar) _⟩
            refine ⟨hstep, (htr.mono hstep).append hent, keyBelow_sgn _ _ _ hkb, fun ρ _ hcar => ?_⟩
            obtain ⟨hu, hl⟩ := atom_sem (lvl := lvl) hn0 hn (hval ρ hcar)
              (fun A => (∀ x, x ∈ A ↔ x ∈ anc) ∨ ∀ x ∈ ([] : List Nat), x ∈ A ∨ x = node.natAbs)
            exact sign_sem hst h0 hanc hu hl
          | conj children name =>
            simp only at h
            obtain ⟨hs, htr', k0, hkey, hkb, hsem⟩ :=
              compound_valid hst ih (kind := .conj) hw htr hn0 hanc.pos hn h
            rw [ite_decide_sgn] at hkey
            refine ⟨hs, htr', by rw [hkey]; exact keyBelow_sgn _ _ _ hkb, fun ρ hcons hcar => ?_⟩
            rw [hkey]
            obtain ⟨hu, hl⟩ := hsem ρ hcons hcar
            exact sign_sem hst h0 hanc hu hl
          | disj children name =>
            simp only at h
            obtain ⟨hs, htr', k0, hkey, hkb, hsem⟩ :=
              compound_valid hst ih (kind := .disj) hw htr hn0 hanc.pos hn h
            rw [ite_decide_sgn] at hkey
            refine ⟨hs, htr', by rw [hkey]; exact keyBelow_sgn _ _ _ hkb, fun ρ hcons hcar => ?_⟩
            rw [hkey]
            obtain ⟨hu, hl⟩ := hsem ρ hcons hcar
            exact sign_sem hst h0 hanc hu hl

/-- At a root (empty ancestor list) the sandwich is an equation. -/
theorem root_exact {src : Store} {lvl : Nat → Nat} {α : Nat → Bool} {T : Store} {node : Int} {r : Res}
    (h : CallOK src lvl α T node [] r) (ρ : Nat → Bool) (hc : Consistent r.st.target ρ)
    (hcar : Carries src r.st.target α ρ) : keyVal ρ r.key = Pv src α (some node) := by
  obtain ⟨hu, hl⟩ := h.sem ρ hc hcar
  rw [Bool.eq_iff_iff]
  exact ⟨hu, fun hp => hl [] (src.nodes.length + 1) (Or.inl (fun _ => Iff.rfl)) (AncOK.nil src lvl node)
    (by rw [free_nil]; omega) hp⟩

end ProbLogProofs.Unroll
